import LokyModel.SemLock
/-! line protocol driver for M5a (`SemLock`):
    `sl <lock|rlock|sem|bsem> <n> <op>*` with `<op>` = `a<t>` (`acquire(False)` by thread t),
    `t<t>` (`acquire(True, 0)` by thread t), `r<t>` (`release()` by thread t), t ∈ {0,1}
    → one token per op `<T|F|ok|VE|AE>:<value>:<count>:<mine0><mine1>` (or `-` for no ops) -/
open LokyModel.SemLock

def mk (k : String) (n : Nat) : Option SL :=
  if k == "lock" then some mkLock else if k == "rlock" then some mkRLock
  else if k == "sem" then some (mkSemaphore n) else if k == "bsem" then some (mkBounded n) else none

def parseOp (w : String) : Option Op :=
  match w.toList with
  | [c, d] =>
    let t? : Option Nat := if d == '0' then some 0 else if d == '1' then some 1 else none
    match t? with
    | none => none
    | some t =>
      if c == 'a' || c == 't' then some (.tryAcq t) else if c == 'r' then some (.rel t) else none
  | _ => none

def showRes : Res → String
  | .acq true => "T" | .acq false => "F"
  | .rel .ok => "ok" | .rel .tooMany => "VE" | .rel .notOwner => "AE"

def b01 (b : Bool) : String := if b then "1" else "0"

def runShow (s : SL) : List Op → List String
  | [] => []
  | o :: os =>
    let (s', r) := stepOp s o
    s!"{showRes r}:{s'.value}:{s'.count}:{b01 (isMine s' 0)}{b01 (isMine s' 1)}" :: runShow s' os

def handle (ws : List String) : String :=
  match ws with
  | "sl" :: k :: n :: ops =>
    match n.toNat?, ops.mapM parseOp with
    | some n, some ops =>
      match mk k n with
      | some s => if ops.isEmpty then "-" else " ".intercalate (runShow s ops)
      | none => "bad-op"
    | _, _ => "bad-op"
  | _ => "bad-op"

partial def loop (h : IO.FS.Stream) (out : IO.FS.Stream) : IO Unit := do
  let line ← h.getLine
  if line.isEmpty then return ()
  out.putStrLn (handle ((line.trimAscii.toString.splitOn " ").filter (· ≠ "")))
  loop h out

def main : IO Unit := do
  loop (← IO.getStdin) (← IO.getStdout)
