import LokyModel.ExecLiveDCDef
/-! Random-walk evaluation of the ingredients for dynamic pools WITH worker deaths at lock-free points
    (`LokyModel/ExecLiveDCDef.lean`) on M1: configurations with an idle time-out (generator of `LiveCheckDyn.lean`), crash
    steps of workers that hold no kernel lock (as in `LiveCheckCrash.lean`), every time-out placement.

    lake env lean --run Drivers/LiveCheckDC.lean <runs> <seed> [crashOneIn]

A run stops (and is counted as `d5kill`) when the manager's own SIGKILL hits a worker inside the management-lock window
(`mgmtOrphan`: the listed finding D5); the ingredients are evaluated in every other state, `good` in every quiescent one.

Not a proof and not presented as one: a cheap way to find out that a candidate invariant is wrong before trying to
prove it, and a regression test of the definitions (the check's quick tier runs it with a small budget). -/
open LokyModel.Exec

def lcg (x : Nat) : Nat := (x * 6364136223846793005 + 1442695040888963407) % 18446744073709551616
def pick (r : Nat) (n : Nat) : Nat := (r / 65536) % (if n = 0 then 1 else n)

def genCfg (r0 : Nat) (timeouts : Bool) : Cfg × Nat := Id.run do
  let mut r := lcg r0
  let mw := 1 + pick r 3
  r := lcg r
  let nt := 1 + pick r 5
  let mut tasks : List TaskSpec := []
  for _ in [0:nt] do
    r := lcg r
    let a := match pick r 8 with | 0 => ArgKind.unpicklable | 1 => ArgKind.toolarge | _ => ArgKind.ok
    r := lcg r
    let b := if pick r 4 == 0 then BodyKind.raises else BodyKind.ok
    tasks := tasks ++ [{ args := a, body := b }]
  r := lcg r
  let nu := 1 + pick r 3
  let mut scripts : List (List UOp) := []
  for u in [0:nu] do
    let mut sc : List UOp := if u == 0 then [.create] else []
    r := lcg r
    let len := 1 + pick r 6
    for _ in [0:len] do
      r := lcg r
      let k := pick r 10
      r := lcg r
      let t := pick r nt
      sc := sc ++ [if k < 5 then UOp.submit t else if k < 7 then UOp.cancel t else if k < 9 then UOp.idle else UOp.submit t]
    r := lcg r
    let e := pick r 10
    sc := sc ++ (if e < 3 then [UOp.shutdown true false] else if e < 4 then [UOp.shutdown false false]
                 else if e < 6 then [UOp.pyexit] else [])
    r := lcg r
    if pick r 4 == 0 then
      r := lcg r
      sc := sc ++ [UOp.submit (pick r nt)]
    scripts := scripts ++ [sc]
  r := lcg r
  let hasInit := pick r 3 == 0
  ({ maxWorkers := mw, timeout := timeouts, tasks := tasks, scripts := scripts, hasInit := hasInit }, r)

def showAV (av : Actor × Variant) : String :=
  let a := match av.1 with | .U k => s!"U{k}" | .M => "M" | .F => "F" | .W p => s!"W{p}"
  let v := match av.2 with | .ok => "ok" | .timeout => "timeout" | .fail => "fail" | .crash => "crash"
  s!"{a}:{v}"

def failing (s : St) : List String :=
  (if dcSmall s then [] else ["dcSmall"]) ++ (if dcHolder' s then [] else ["dcHolder'"]) ++
  (if dcKilled s then [] else ["dcKilled"]) ++ (if dcTRecv s then [] else ["dcTRecv"]) ++
  (if dcPhase s then [] else ["dcPhase"]) ++
  (if watchOk s then [] else ["watchOk"]) ++ (if addSlotOk s then [] else ["addSlotOk"]) ++ (if flagOk s then [] else ["flagOk"])

/-- enabled crash steps: workers that hold no lock -/
def enabledCr (s : St) : List (Actor × Variant) :=
  (s.allPids.filter fun p => lockFree (s.w p) && (step s (.W p) .crash).isSome).map fun p => (Actor.W p, Variant.crash)

def main (args : List String) : IO UInt32 := do
  let runs := (args.getD 0 "200").toNat!
  let seed := (args.getD 1 "0").toNat!
  let timeouts := true
  let crashIn := (args.getD 2 "60").toNat!
  let mut d5 := 0
  let mut crashes := 0
  let mut benign := 0
  let mut p2q := 0
  let mut brokenq := 0
  let mut r := lcg (seed * 7919 + 17)
  let mut states := 0
  let mut stuck := 0
  let mut bad := 0
  for i in [0:runs] do
    let (cfg, r') := genCfg r timeouts
    r := r'
    if !cfg.dynPool || !cfg.oneCreate then
      IO.println s!"generator produced a configuration outside the scope at run {i}"
      return 2
    let mut s := init cfg
    let mut trace : List String := []
    let mut fin := false
    for _ in [0:900] do
      if fin then break
      states := states + 1
      if mgmtOrphan s then
        d5 := d5 + 1
        if d5 ≤ 2 then
          IO.println s!"D5 (manager-kill form) at run {i} after {trace.length} steps; mpc={repr s.mpc} oMgmt={repr s.oMgmt}"
          IO.println s!"  cfg={repr cfg}"
          IO.println s!"  trace={trace}"
        fin := true
        continue
      let fl := failing s
      if !fl.isEmpty then
        IO.println s!"INVARIANT {fl} fails at run {i} after {trace.length} steps; mpc={repr s.mpc} fpc={repr s.fpc}"
        IO.println s!"  cfg={repr cfg}"
        IO.println s!"  trace={trace}"
        bad := bad + 1
        fin := true
      else
        let en := enabledNC s
        if en.isEmpty then
          stuck := stuck + 1
          if phase2 s then p2q := p2q + 1
          if s.broken.isSome then brokenq := brokenq + 1
          if !good s then
            IO.println s!"STUCK-BAD at run {i} after {trace.length} steps; mpc={repr s.mpc} fpc={repr s.fpc} futs={repr s.futs}"
            IO.println s!"  cfg={repr cfg}"
            IO.println s!"  trace={trace}"
            bad := bad + 1
          fin := true
        else
          r := lcg r
          let cr := enabledCr s
          r := lcg r
          let av := if !cr.isEmpty && pick r crashIn == 0 then cr.getD (pick (lcg r) cr.length) (.M, .ok)
                    else en.getD (pick r en.length) (.M, .ok)
          if av.2 == Variant.crash then
            crashes := crashes + 1
            match av.1 with
            | .W p => if s.w p == .xExit then benign := benign + 1
            | _ => pure ()
          trace := trace ++ [showAV av]
          match step s av.1 av.2 with
          | some s' => s := s'
          | none => fin := true
    if bad ≥ 3 then break
  IO.println s!"runs={runs} states={states} quiescent={stuck} (phase2 {p2q}, broken {brokenq}) crashes={crashes} (benign {benign}) d5kill={d5} bad={bad}"
  return (if bad == 0 then 0 else 1)
