import LokyModel.ExecLiveCrash
/-! Finds a schedule for the second non-vacuity example of `Props/C02Outcome.lean`: a random walk over the small static-pool
    configuration of `Props/C02Live.lean` with ONE crash step, of a worker inside a task body (`taskEnd`), taken only once the future
    of the other task already holds its value; prints (in Lean syntax) the shortest run found that ends quiescent with the
    pool flagged broken and the futures `[value, excTerminated]`.

    lake env lean --run Drivers/LiveCheckOutcomeCDemo.lean <runs> <seed> -/
open LokyModel.Exec

def lcg (x : Nat) : Nat := (x * 6364136223846793005 + 1442695040888963407) % 18446744073709551616
def pick (r : Nat) (n : Nat) : Nat := (r / 65536) % (if n = 0 then 1 else n)

def demoCfg : Cfg :=
  { maxWorkers := 2, timeout := false, tasks := [{}, {}],
    scripts := [[.create, .submit 0, .submit 1, .shutdown true false]] }

def showAV (av : Actor × Variant) : String :=
  let a := match av.1 with | .U k => s!".U {k}" | .M => ".M" | .F => ".F" | .W p => s!".W {p}"
  let v := match av.2 with | .ok => ".ok" | .timeout => ".timeout" | .fail => ".fail" | .crash => ".crash"
  s!"({a}, {v})"

def enabledCr (s : St) : List (Actor × Variant) :=
  (s.allPids.filter fun p => lockFree (s.w p) && (step s (.W p) .crash).isSome).map fun p => (Actor.W p, Variant.crash)

def main (args : List String) : IO UInt32 := do
  let runs := (args.getD 0 "200").toNat!
  let seed := (args.getD 1 "0").toNat!
  let cfg := demoCfg
  if !cfg.staticPool then
    IO.println "not a static pool"; return 2
  let mut r := lcg (seed * 7919 + 17)
  let mut best : Option (List (Actor × Variant) × St) := none
  let mut found := 0
  for _ in [0:runs] do
    let mut s := init cfg
    let mut trace : List (Actor × Variant) := []
    let mut fin := false
    let mut crashed := false
    for _ in [0:400] do
      if fin then break
      let en := enabledNC s
      if en.isEmpty then
        fin := true
        -- a death while a task was running, seen by the manager
        if anyDead s && s.broken.isSome && good s && crashed && s.futs == [.value, .excTerminated] then
          found := found + 1
          match best with
          | some (t, _) => if trace.length < t.length then best := some (trace, s)
          | none => best := some (trace, s)
      else
        r := lcg r
        let cr := (enabledCr s).filter fun av => match av.1 with | .W p => (match s.w p with | .taskEnd _ _ => true | _ => false) | _ => false
        r := lcg r
        let av := if !crashed && !cr.isEmpty && futOf s 0 == .value && pick r 3 == 0 then cr.getD (pick (lcg r) cr.length) (.M, .ok)
                  else en.getD (pick r en.length) (.M, .ok)
        if av.2 == Variant.crash then crashed := true
        trace := trace ++ [av]
        match step s av.1 av.2 with
        | some s' => s := s'
        | none => fin := true
  IO.println s!"runs={runs} found={found}"
  match best with
  | none => return 1
  | some (t, s) =>
    IO.println s!"cfg={repr cfg}"
    IO.println s!"length={t.length} futs={repr s.futs} broken={repr s.broken} mpc={repr s.mpc}"
    IO.println s!"[{", ".intercalate (t.map showAV)}]"
    return 0
