import LokyModel.Lemmas.ExecLiveHolderExit
/-! Random-walk evaluation of the strengthened lock-holder invariant `holderOk'` (`Lemmas/ExecLiveHolder.lean`).

    lake env lean --run Drivers/LiveCheckholderOk.lean <runs> <seed> [general]

Without `general`: static-pool configurations (as `Drivers/LiveCheck.lean`), `holderOk'` must hold in every state.
With `general`: idle time-outs, memory-leak exits, failing initializers, tasks that kill their worker or fail to un-pickle,
`kill_workers`; counts the states in which the side hypotheses `KillSafe` / `RelExitSafe` of `holderOk'_step` fail and
checks that `holderOk'` holds as long as they have not failed.  Not a proof. -/
open LokyModel.Exec

def lcg (x : Nat) : Nat := (x * 6364136223846793005 + 1442695040888963407) % 18446744073709551616
def pick (r : Nat) (n : Nat) : Nat := (r / 65536) % (if n = 0 then 1 else n)

def genCfg (r0 : Nat) (general : Bool) : Cfg × Nat := Id.run do
  let mut r := lcg r0
  let mw := 1 + pick r 3
  r := lcg r
  let nt := 1 + pick r 5
  let mut tasks : List TaskSpec := []
  for _ in [0:nt] do
    r := lcg r
    let a := match pick r 8 with
      | 0 => ArgKind.unpicklable | 1 => ArgKind.toolarge
      | 2 => if general then ArgKind.badunpickle else ArgKind.ok
      | _ => ArgKind.ok
    r := lcg r
    let b := match pick r 6 with
      | 0 => BodyKind.raises
      | 1 => if general then BodyKind.die else BodyKind.ok
      | _ => BodyKind.ok
    r := lcg r
    let rs := if general && pick r 6 == 0 then ResKind.badunpickle else ResKind.ok
    tasks := tasks ++ [{ args := a, body := b, res := rs }]
  r := lcg r
  let nu := 1 + pick r 3
  let mut scripts : List (List UOp) := []
  for u in [0:nu] do
    let mut sc : List UOp := if u == 0 then [.create] else []
    r := lcg r
    let len := 1 + pick r 6
    for _ in [0:len] do
      r := lcg r
      let k := pick r 10
      r := lcg r
      let t := pick r nt
      sc := sc ++ [if k < 5 then UOp.submit t else if k < 7 then UOp.cancel t else if k < 9 then UOp.idle else UOp.submit t]
    r := lcg r
    let e := pick r 10
    r := lcg r
    let kl := general && pick r 3 == 0
    sc := sc ++ (if e < 3 then [UOp.shutdown true kl] else if e < 4 then [UOp.shutdown false kl]
                 else if e < 5 && u == 0 then [UOp.drop] else if e < 6 then [UOp.pyexit] else [])
    r := lcg r
    if pick r 4 == 0 then
      r := lcg r
      sc := sc ++ [UOp.submit (pick r nt)]
    scripts := scripts ++ [sc]
  r := lcg r
  let hasInit := pick r 3 == 0
  r := lcg r
  let timeout := general && pick r 2 == 0
  r := lcg r
  let leak := if general && pick r 3 == 0 then [pick (lcg r) nt] else []
  r := lcg (lcg r)
  let initFail := if general && hasInit && pick r 4 == 0 then [pick (lcg r) 4] else []
  r := lcg (lcg r)
  ({ maxWorkers := mw, timeout := timeout, tasks := tasks, scripts := scripts, hasInit := hasInit,
     leakAfter := leak, initFail := initFail }, r)

def showAV (av : Actor × Variant) : String :=
  let a := match av.1 with | .U k => s!"U{k}" | .M => "M" | .F => "F" | .W p => s!"W{p}"
  let v := match av.2 with | .ok => "ok" | .timeout => "timeout" | .fail => "fail" | .crash => "crash"
  s!"{a}:{v}"

def killSafeB (s : St) : Bool :=
  match s.mpc with
  | .kill p => !inRqW (s.w p) && !inCqR (s.w p) && s.w p != .eRel
  | _ => true
def relExitSafeB (s : St) : Bool :=
  match s.mpc with
  | .jRelExit (p :: _) _ => s.exitL p == 0
  | _ => true

def main (args : List String) : IO UInt32 := do
  let runs := (args.getD 0 "200").toNat!
  let seed := (args.getD 1 "0").toNat!
  let general := args.getD 2 "" == "general"
  let mut r := lcg (seed * 7919 + 17)
  let mut states := 0
  let mut bad := 0
  let mut killUnsafe := 0
  let mut relUnsafe := 0
  let mut afterUnsafeFalse := 0
  let mut shown := 0
  for i in [0:runs] do
    let (cfg, r') := genCfg r general
    r := r'
    if !general && !cfg.staticPool then
      IO.println s!"generator produced a non-static configuration at run {i}"
      return 2
    let mut s := init cfg
    let mut trace : List String := []
    let mut fin := false
    let mut tainted := false
    for _ in [0:800] do
      if fin then break
      states := states + 1
      if !(holderOk' s && (tainted || exitOk s)) then
        if tainted then
          afterUnsafeFalse := afterUnsafeFalse + 1
        else
          IO.println s!"INVARIANT holderOk' (holderOk={holderOk s} holderExcl={holderExcl s} exitOk={exitOk s}) fails at run {i} after {trace.length} steps; mpc={repr s.mpc} fpc={repr s.fpc}"
          IO.println s!"  cfg={repr cfg}"
          IO.println s!"  trace={trace}"
          bad := bad + 1
        fin := true
      else
        if !killSafeB s then
          killUnsafe := killUnsafe + 1
          if !tainted && shown < 2 then
            shown := shown + 1
            IO.println s!"KillSafe fails at run {i} after {trace.length} steps; mpc={repr s.mpc}"
            IO.println s!"  cfg={repr cfg}"
            IO.println s!"  trace={trace}"
          tainted := true
        if !relExitSafeB s then
          relUnsafe := relUnsafe + 1
          IO.println s!"RelExitSafe fails at run {i} after {trace.length} steps; mpc={repr s.mpc}"
          IO.println s!"  cfg={repr cfg}"
          IO.println s!"  trace={trace}"
          tainted := true
        let en := enabledNC s
        if en.isEmpty then
          fin := true
        else
          r := lcg r
          let av := en.getD (pick r en.length) (.M, .ok)
          trace := trace ++ [showAV av]
          match step s av.1 av.2 with
          | some s' => s := s'
          | none => fin := true
    if bad ≥ 3 then break
  IO.println s!"runs={runs} states={states} bad={bad} killUnsafeStates={killUnsafe} relExitUnsafeStates={relUnsafe} holderOk'FalseAfterUnsafeKill={afterUnsafeFalse}"
  return (if bad == 0 then 0 else 1)
