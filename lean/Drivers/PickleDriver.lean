import LokyModel.Pickle
/-! line protocol driver for M6 `Pickle`.  Stateful: `begin` starts a history.

    begin <backend> <probes> <uprobes> <copyreg> <cloud> <lokyextra>   → ok
    set <backend>                                            → backend=<b>
    pickler <reducers|none>      → pickler <idx> t=<lookups> base=<lookups> g=<same|changed>
    reg <idx> <ty> <r>           → ok | bad-op
    dumps <reducers|none>        → t=<lookups> base=<lookups> used=<…> g=<same|changed>
    queue <reducers|none>        → queue <idx>
    put <idx>                    → like dumps
    exec <job|none> <res|none>   → exec <idx> <idx+1> job=<reducers|none> res=<reducers|none>
    final                        → p0=<lookups> p1=… g=<same|changed>         (`-` when no pickler)
    reuse <probes> <op;op;…>     → one `;`-separated answer per op (stateless), ops on the reusable singleton:
          q/<workers>/<timeout>/<job|none>/<res|none>/<init|none>/<initargs|->/<env|none>   get_reusable_executor(…)
              → <new|reused>,id=<executor_id>,w=<workers>,job=<beh…>,res=<beh…>,init=<beh|none>,args=<…|->,env=<…|none>
                (`args`: what the initializer is called with; `-` without initializer)
          s                                                                                  executor.shutdown() by the user → s
          p/<job|none>/<res|none>        a plain ProcessPoolExecutor next to it               → plain,job=<beh…>,res=<beh…>
        `<beh…>`: per probe type the behaviour tag (identity mod 100) of the reducer in force, `n` = none
    rt <fnames> <members> <term> → <term of loads(dumps(x))> | fail
    behid <d>                    → beh <d> <d>

tables / reducers: `-` (empty) or `,`-separated `ty:r`; `none` = Python `None`;
`<lookups>`: `,`-separated reducer ids or `-`, one per probe type; `used`: one per uprobe type, the
reducer id if it is a harness marker (100 ≤ id < 1000) else `n` (pickle's own / a built-in reducer);
terms: `|`-separated prefix notation `a|n  g|n  i|c|s  b|<self>|f  d|c|n  p|nargs|nkw|<func>|<args…>|(key|<val>)…`. -/
open LokyModel.Pickle

def parseBackend (s : String) : Option Backend :=
  if s == "cloudpickle" then some .cloudpickle else if s == "pickle" then some .pickle else none

def showBackend : Backend → String
  | .cloudpickle => "cloudpickle" | .pickle => "pickle"

def parsePair (s : String) : Option (Nat × Nat) :=
  match s.splitOn ":" with
  | [a, b] => do some ((← a.toNat?), (← b.toNat?))
  | _ => none

def parseTable (s : String) : Option Table :=
  if s == "-" then some [] else (s.splitOn ",").mapM parsePair

def parseOptTable (s : String) : Option (Option Table) :=
  if s == "none" then some none else (parseTable s).map some

def parseNats (s : String) : Option (List Nat) :=
  if s == "-" then some [] else (s.splitOn ",").mapM (·.toNat?)

def showOpt : Option Nat → String
  | some r => toString r | none => "-"

def lookups (probes : List Nat) (t : Table) : String :=
  if probes.isEmpty then "-" else ",".intercalate (probes.map (fun ty => showOpt (t.lookup ty)))

def usedOf (probes : List Nat) (t : Table) : String :=
  if probes.isEmpty then "-" else ",".intercalate (probes.map (fun ty =>
    match t.lookup ty with
    | some r => if r ≥ 100 && r < 1000 then toString r else "n"
    | none => "n"))

def showReducers : Option Table → String
  | none => "none"
  | some [] => "-"
  | some t => ",".intercalate (t.map (fun p => s!"{p.1}:{p.2}"))

structure DState where
  s : State
  g0 : Globals
  probes : List Nat
  uprobes : List Nat

def gsame (d : DState) (s : State) : String := if globals s = d.g0 then "same" else "changed"

def baseOf (_d : DState) (s : State) : Table := effectiveTable (globals s) s.backend []

def dumpLine (d : DState) (before after : State) : String :=
  match after.last with
  | some c =>
    let t := readCell after c
    s!"t={lookups d.probes t} base={lookups d.probes (baseOf d before)} used={usedOf d.uprobes t} g={gsame d after}"
  | none => "bad-op"

/-! ### terms -/

partial def parseTerm : List String → Option (V × List String)
  | "a" :: n :: rest => n.toNat?.map (fun n => (.atom n, rest))
  | "g" :: n :: rest => n.toNat?.map (fun n => (.glob n, rest))
  | "i" :: c :: s :: rest => do some (.inst (← c.toNat?) (← s.toNat?), rest)
  | "d" :: c :: n :: rest => do some (.descr (← c.toNat?) (← n.toNat?), rest)
  | "b" :: rest => do
    let (self, rest) ← parseTerm rest
    match rest with
    | f :: rest => some (.bound self (← f.toNat?), rest)
    | [] => none
  | "p" :: na :: nk :: rest => do
    let na ← na.toNat?
    let nk ← nk.toNat?
    let (f, rest) ← parseTerm rest
    let rec args (n : Nat) (rest : List String) (acc : List V) : Option (List V × List String) :=
      match n with
      | 0 => some (acc.reverse, rest)
      | n + 1 => do
        let (x, rest) ← parseTerm rest
        args n rest (x :: acc)
    let (a, rest) ← args na rest []
    let rec kws (n : Nat) (rest : List String) (acc : List (Nat × V)) : Option (List (Nat × V) × List String) :=
      match n with
      | 0 => some (acc.reverse, rest)
      | n + 1 =>
        match rest with
        | k :: rest => do
          let k ← k.toNat?
          let (x, rest) ← parseTerm rest
          kws n rest ((k, x) :: acc)
        | [] => none
    let (k, rest) ← kws nk rest []
    some (.part f a k, rest)
  | _ => none

partial def showTerm : V → List String
  | .atom n => ["a", toString n]
  | .glob n => ["g", toString n]
  | .inst c s => ["i", toString c, toString s]
  | .bound self f => "b" :: showTerm self ++ [toString f]
  | .descr c n => ["d", toString c, toString n]
  | .part f a k =>
    ["p", toString a.length, toString k.length] ++ showTerm f ++ (a.map showTerm).flatten
      ++ (k.map (fun p => toString p.1 :: showTerm p.2)).flatten

def parseMember (s : String) : Option ((Nat × Nat) × Member) :=
  match s.splitOn "=" with
  | [cn, m] =>
    match cn.splitOn "." with
    | [c, n] => do
      let c ← c.toNat?
      let n ← n.toNat?
      if m == "D" then some ((c, n), .descr)
      else match m.splitOn "F" with
        | ["", f] => f.toNat?.map (fun f => ((c, n), .func f))
        | _ => match m.splitOn "C" with
          | ["", f] => f.toNat?.map (fun f => ((c, n), .cmeth f))
          | _ => none
    | _ => none
  | _ => none

def parseWorld (fnames members : String) : Option World := do
  let fn ← parseTable fnames
  let ms ← if members == "-" then some [] else (members.splitOn ",").mapM parseMember
  some ⟨fun f => (fn.lookup f).getD 0, fun c n => (ms.find? (fun p => p.1 == (c, n))).map (·.2)⟩

/-! ### the reusable singleton -/

def parseOptNat (s : String) : Option (Option Nat) :=
  if s == "none" then some none else s.toNat?.map some

def behOf (probes : List Nat) (t : Option Table) : String :=
  if probes.isEmpty then "-" else ",".intercalate (probes.map (fun ty =>
    match (t.getD []).lookup ty with
    | some r => toString (r % 100)
    | none => "n"))

def showNats (l : List Nat) : String := if l.isEmpty then "-" else ",".intercalate (l.map toString)

def showEnv : Option (List (Nat × Nat)) → String
  | none => "none"
  | some [] => "-"
  | some l => ",".intercalate (l.map (fun p => s!"{p.1}:{p.2}"))

def reuseOp (probes : List Nat) (s : RState) (tok : String) : Option (RState × String) :=
  match tok.splitOn "/" with
  | ["s"] => some (rstep sameKwargs s .shutdown, "s")
  | ["p", j, r] => do
    let j ← parseOptTable j
    let r ← parseOptTable r
    some (s, s!"plain,job={behOf probes j},res={behOf probes (resultReducers j r)}")
  | ["q", w, to, j, r, i, ia, env] => do
    let w ← w.toNat?
    let to ← to.toNat?
    let j ← parseOptTable j
    let r ← parseOptTable r
    let i ← parseOptNat i
    let ia ← parseNats ia
    let env ← parseOptTable env
    let k : Kwargs := ⟨to, j, r, i, ia, env⟩
    let (s', reused) := request sameKwargs s w k
    match s'.cur with
    | some e =>
      some (s', s!"{if reused then "reused" else "new"},id={e.id},w={e.maxWorkers},job={behOf probes e.jobq},res={behOf probes e.resq}" ++
        s!",init={match e.init with | some i => toString (i % 100) | none => "none"},args={if e.init.isSome then showNats e.initargs else "-"},env={showEnv e.env}")
    | none => none
  | _ => none

def reuseLine (probes : List Nat) (toks : List String) : String :=
  let rec go (s : RState) (toks : List String) (acc : List String) : Option (List String) :=
    match toks with
    | [] => some acc.reverse
    | t :: rest =>
      match reuseOp probes s t with
      | some (s', o) => go s' rest (o :: acc)
      | none => none
  match go ⟨0, none⟩ toks [] with
  | some outs => if outs.isEmpty then "-" else ";".intercalate outs
  | none => "bad-op"

/-! ### the loop -/

def handle (d : Option DState) (ws : List String) : Option DState × String :=
  match ws with
  | ["begin", b, probes, uprobes, cr, cl, lx] =>
    match parseBackend b, parseNats probes, parseNats uprobes, parseTable cr, parseTable cl, parseTable lx with
    | some b, some probes, some uprobes, some cr, some cl, some lx =>
      let g : Globals := ⟨cr, cl, tupdate lokyInit lx⟩
      (some ⟨initState g b, g, probes, uprobes⟩, "ok")
    | _, _, _, _, _, _ => (d, "bad-op")
  | ["rt", fnames, members, term] =>
    match parseWorld fnames members, parseTerm (term.splitOn "|") with
    | some w, some (v, []) =>
      match rtV w v with
      | some v' => (d, "|".intercalate (showTerm v'))
      | none => (d, "fail")
    | _, _ => (d, "bad-op")
  | ["behid", x] => (d, s!"beh {x} {x}")
  | ["reuse", probes, ops] =>
    match parseNats probes with
    | some probes => (d, reuseLine probes (if ops == "-" then [] else ops.splitOn ";"))
    | none => (d, "bad-op")
  | _ =>
    match d with
    | none => (d, "bad-op")
    | some d =>
      let s := d.s
      match ws with
      | ["set", b] =>
        match parseBackend b with
        | some b => let s' := step s (.setPickler b); (some { d with s := s' }, s!"backend={showBackend s'.backend}")
        | none => (some d, "bad-op")
      | ["pickler", r] =>
        match parseOptTable r with
        | some r =>
          let s' := step s (.newPickler r)
          match s'.last with
          | some c =>
            (some { d with s := s' },
              s!"pickler {s.picklers.length} t={lookups d.probes (readCell s' c)} base={lookups d.probes (baseOf d s)} g={gsame d s'}")
          | none => (some d, "bad-op")
        | none => (some d, "bad-op")
      | ["reg", i, ty, r] =>
        match i.toNat?, ty.toNat?, r.toNat? with
        | some i, some ty, some r =>
          match s.picklers[i]? with
          | some c => (some { d with s := step s (.register c ty r) }, "ok")
          | none => (some d, "bad-op")
        | _, _, _ => (some d, "bad-op")
      | ["dumps", r] =>
        match parseOptTable r with
        | some r => let s' := step s (.dumps r); (some { d with s := s' }, dumpLine d s s')
        | none => (some d, "bad-op")
      | ["queue", r] =>
        match parseOptTable r with
        | some r => (some { d with s := step s (.newQueue r) }, s!"queue {s.queues.length}")
        | none => (some d, "bad-op")
      | ["put", i] =>
        match i.toNat? with
        | some i =>
          if i < s.queues.length then
            let s' := step s (.put i); (some { d with s := s' }, dumpLine d s s')
          else (some d, "bad-op")
        | none => (some d, "bad-op")
      | ["exec", j, r] =>
        match parseOptTable j, parseOptTable r with
        | some j, some r =>
          let s' := step s (.newExecutor j r)
          let n := s.queues.length
          (some { d with s := s' },
            s!"exec {n} {n + 1} job={showReducers (s'.queues.getD n none)} res={showReducers (s'.queues.getD (n + 1) none)}")
        | _, _ => (some d, "bad-op")
      | ["final"] =>
        let ps := s.picklers.zipIdx.map (fun (c, i) => s!"p{i}={lookups d.probes (readCell s c)}")
        (some d, (if ps.isEmpty then "-" else " ".intercalate ps) ++ s!" g={gsame d s}")
      | _ => (some d, "bad-op")

partial def loop (h : IO.FS.Stream) (out : IO.FS.Stream) (d : Option DState) : IO Unit := do
  let line ← h.getLine
  if line.isEmpty then return ()
  let (d, o) := handle d ((line.trimAscii.toString.splitOn " ").filter (· ≠ ""))
  out.putStrLn o
  loop h out d

def main : IO Unit := do
  loop (← IO.getStdin) (← IO.getStdout) none
