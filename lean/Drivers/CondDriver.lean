import LokyModel.Cond
/-! line protocol driver for M5b (`Cond`), stateful within a case:

    `cfg <rlock|lock> <script>;<script>;…`   script = comma separated ops
        (`acq try rel wait waitT notify notify_all set clear ewait ewaitT is_set`, `-` = empty script)
        → `ok | <enabled> | <obs> | -`
    `step <thread> <ok|fail|timeout>`
        → `t<thread> <operation> <variant> | <enabled> | <obs> | <coverage tag>`   or `not-enabled`
    `<enabled>` = sorted `t<i>:<variant>` pairs, `<obs>` = `S=… W=… Q=… F=… L=<value>/<count>`
    followed by the results of every thread's finished operations in order.
    Anything else → `bad-op`. -/
open LokyModel.SemLock (Kind)
open LokyModel.Cond

def parseOp (w : String) : Option Op :=
  if w == "acq" then some .acq else if w == "try" then some .tryAcq else if w == "rel" then some .rel
  else if w == "wait" then some (.wait false) else if w == "waitT" then some (.wait true)
  else if w == "notify" then some .notify else if w == "notify_all" then some .notifyAll
  else if w == "set" then some .eSet else if w == "clear" then some .eClear
  else if w == "ewait" then some (.eWait false) else if w == "ewaitT" then some (.eWait true)
  else if w == "is_set" then some .eIsSet else none

def showOp : Op → String
  | .acq => "acq" | .tryAcq => "try" | .rel => "rel"
  | .wait false => "wait" | .wait true => "waitT" | .notify => "notify" | .notifyAll => "notify_all"
  | .eSet => "set" | .eClear => "clear" | .eWait false => "ewait" | .eWait true => "ewaitT"
  | .eIsSet => "is_set"

def showRet : Ret → String
  | .none => "N" | .bool true => "T" | .bool false => "F" | .mustAcquire => "MA"
  | .tripped => "TRIP" | .notOwner => "NO" | .tooMany => "VE"

def showVar : Variant → String
  | .ok => "ok" | .fail => "fail" | .timeout => "timeout"

def parseVar (w : String) : Option Variant :=
  if w == "ok" then some .ok else if w == "fail" then some .fail
  else if w == "timeout" then some .timeout else none

/-- the announced operation of a thread -/
def pending (x : TS) : String :=
  match x.pc with
  | .idle => match x.script with
    | [] => "done"
    | o :: _ => "begin:" ++ showOp o
  | .lockAcq | .w5 .. | .eAcq => "acq(lock)"
  | .lockTry => "acq(lock,nb)"
  | .lockRel | .w2 .. | .eRel _ => "rel(lock)"
  | .w1 => "rel(sleeping)"
  | .w3 _ => if x.timed then "acq(waitsem,T)" else "acq(waitsem)"
  | .w4 .. => "rel(woken)"
  | .n1 | .n7 | .a1 | .a7 => "acq(waitsem,nb)"
  | .n2 | .a2 => "acq(woken,nb)"
  | .n3 | .n4 | .a3 | .a4 _ => "acq(sleeping,nb)"
  | .n5 | .a5 _ => "rel(waitsem)"
  | .n6 | .a6 _ => "acq(woken)"
  | .eFlag1 | .eFlag2 => "acq(flag,nb)"
  | .eFlagRel1 | .eFlagRel2 => "rel(flag)"

/-- coverage tag of the transition thread `t` is about to take with variant `v`: program counter,
    operation in progress, variant and the outcome of the guards evaluated in the step -/
def covTag (s : State) (t : Nat) (v : Variant) : String :=
  let x := s.th t
  let op := match x.cur with | some o => showOp o | none => "-"
  let mine := if LokyModel.SemLock.isMine s.lock t then "mine" else "notmine"
  let lastk (k : Nat) := if k ≤ 1 then "last" else "more"
  let d : String := match x.pc with
    | .idle => "begin:" ++ mine
    | .lockAcq => "lockAcq:" ++ mine
    | .lockTry => "lockTry:" ++ mine
    | .lockRel => s!"lockRel:{mine}:{min s.lock.count 3}"
    | .w1 => s!"w1:{min s.lock.count 3}"
    | .w2 _ k => "w2:" ++ lastk k
    | .w3 _ => "w3"
    | .w4 _ r => s!"w4:{r}"
    | .w5 _ k r => s!"w5:{lastk k}:{r}"
    | .n1 => "n1" | .n2 => "n2" | .n3 => "n3" | .n4 => "n4" | .n5 => "n5" | .n6 => "n6" | .n7 => "n7"
    | .a1 => "a1" | .a2 => "a2" | .a3 => "a3"
    | .a4 k => "a4:" ++ (if k = 0 then "none" else "some")
    | .a5 _ => "a5"
    | .a6 k => "a6:" ++ lastk k
    | .a7 => "a7"
    | .eAcq => "eAcq:" ++ mine
    | .eFlag1 => "eFlag1" | .eFlagRel1 => "eFlagRel1" | .eFlag2 => "eFlag2" | .eFlagRel2 => "eFlagRel2"
    | .eRel r => "eRel:" ++ showRet r
  s!"{d}/{op}/{showVar v}"

def enabledStr (cfg : Cfg) (s : State) : String :=
  let ps := (List.range cfg.n).flatMap fun t =>
    [Variant.fail, .ok, .timeout].filterMap fun v =>
      if (step cfg s t v).isSome then some s!"t{t}:{showVar v}" else none
  if ps.isEmpty then "-" else " ".intercalate ps

def obsStr (cfg : Cfg) (s : State) : String :=
  let ths := (List.range cfg.n).map fun t =>
    let rs := (s.th t).rets.reverse.map fun (o, r) => showOp o ++ ":" ++ showRet r
    s!"t{t}=[{",".intercalate rs}]"
  s!"S={s.sleeping} W={s.woken} Q={s.waitsem} F={s.flag} L={s.lock.value}/{s.lock.count} " ++ " ".intercalate ths

def parseCfg (kind : String) (scripts : String) : Option Cfg :=
  let k? : Option Kind :=
    if kind == "rlock" then some .recursiveMutex else if kind == "lock" then some .semaphore else none
  let ss? : Option (List (List Op)) := (scripts.splitOn ";").mapM fun sc =>
    if sc == "-" then some [] else (sc.splitOn ",").mapM parseOp
  match k?, ss? with
  | some k, some ss => some ⟨k, ss.length, fun t => ss.getD t []⟩
  | _, _ => none

def handle (st : Option (Cfg × State)) (ws : List String) : Option (Cfg × State) × String :=
  match ws with
  | ["cfg", kind, scripts] =>
    match parseCfg kind scripts with
    | some cfg =>
      let s := init cfg
      (some (cfg, s), s!"ok | {enabledStr cfg s} | {obsStr cfg s} | -")
    | none => (st, "bad-op")
  | ["step", t, v] =>
    match st, t.toNat?, parseVar v with
    | some (cfg, s), some t, some v =>
      match step cfg s t v with
      | some s' =>
        (some (cfg, s'), s!"t{t} {pending (s.th t)} {showVar v} | {enabledStr cfg s'} | {obsStr cfg s'} | {covTag s t v}")
      | none => (st, "not-enabled")
    | _, _, _ => (st, "bad-op")
  | _ => (st, "bad-op")

partial def loop (h : IO.FS.Stream) (out : IO.FS.Stream) (st : Option (Cfg × State)) : IO Unit := do
  let line ← h.getLine
  if line.isEmpty then return ()
  let (st', o) := handle st ((line.trimAscii.toString.splitOn " ").filter (· ≠ ""))
  out.putStrLn o
  loop h out st'

def main : IO Unit := do
  loop (← IO.getStdin) (← IO.getStdout) none
