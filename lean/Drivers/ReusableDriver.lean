import LokyModel.Reusable
/-! driver for M1R:
    `call <prev none | id:mw:broken:shutdown:samekw> <nextId> <cpu> <mw|none> <reuse yes|no|auto> <kill 0|1>`
        → `created i | replaced old kill new | reused id old new | ValueError`
    `resize <alive> <new>` → `<sentinels> <spawns> <survivors> <size>` -/
open LokyModel.Reusable

def handle (ws : List String) : String :=
  match ws with
  | ["call", prev, nextId, cpu, mw, reuse, kill] =>
    let args : Args := { maxWorkers := if mw == "none" then none else mw.toNat?,
                         kwargs := 1,
                         reuse := if reuse == "yes" then .yes else if reuse == "no" then .no else .auto,
                         killWorkers := kill == "1" }
    let exec : Option Exec :=
      match prev.splitOn ":" with
      | [i, m, b, sd, same] =>
        some { id := i.toNat?.getD 0, maxWorkers := m.toNat?.getD 0, kwargs := if same == "1" then 1 else 0,
               broken := b == "1", shutdown := sd == "1" }
      | _ => none
    let s : St := { exec := exec, nextId := nextId.toNat?.getD 0, cpuCount := cpu.toNat?.getD 1 }
    match (getReusable s args).1 with
    | .valueError => "ValueError"
    | .created i => s!"created {i}"
    | .replaced o k n => s!"replaced {o} {if k then 1 else 0} {n}"
    | .reused i o n => s!"reused {i} {o} {n}"
  | ["callk", prev, nextId, cpu, mw, reuse, kill, kw] =>
    -- as `call`, with explicit identities of the keyword arguments: the previous instance's (5th field of <prev>) and
    -- this call's; the answer adds the identity the returned instance was built from / is remembered with
    let args : Args := { maxWorkers := if mw == "none" then none else mw.toNat?,
                         kwargs := kw.toNat?.getD 0,
                         reuse := if reuse == "yes" then .yes else if reuse == "no" then .no else .auto,
                         killWorkers := kill == "1" }
    let exec : Option Exec :=
      match prev.splitOn ":" with
      | [i, m, b, sd, k] =>
        some { id := i.toNat?.getD 0, maxWorkers := m.toNat?.getD 0, kwargs := k.toNat?.getD 0,
               broken := b == "1", shutdown := sd == "1" }
      | _ => none
    let s : St := { exec := exec, nextId := nextId.toNat?.getD 0, cpuCount := cpu.toNat?.getD 1 }
    let (r, s') := getReusable s args
    let k' := match s'.exec with | some e => toString e.kwargs | none => "none"
    match r with
    | .valueError => "ValueError"
    | .created i => s!"created {i} kw={k'}"
    | .replaced o k n => s!"replaced {o} {if k then 1 else 0} {n} kw={k'}"
    | .reused i o n => s!"reused {i} {o} {n} kw={k'}"
  | ["resize", alive, new] =>
    match alive.toNat?, new.toNat? with
    | some a, some n =>
      let p := resizePlan a n
      s!"{p.sentinels} {p.spawns} {survivors a n} {sizeAfter a n}"
    | _, _ => "bad-op"
  | _ => "bad-op"

partial def loop (h : IO.FS.Stream) (out : IO.FS.Stream) : IO Unit := do
  let line ← h.getLine
  if line.isEmpty then return ()
  out.putStrLn (handle ((line.trimAscii.toString.splitOn " ").filter (· ≠ "")))
  loop h out

def main : IO Unit := do loop (← IO.getStdin) (← IO.getStdout)
