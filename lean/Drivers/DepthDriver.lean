import LokyModel.Depth
/-! line protocol driver for M9 (`LokyModel.Depth`).

`<sm>` is a start method name: `fork`, `loky`, `loky_init_main`, `spawn`, `forkserver`; any other
token is "some other string".

* `check <sm> <MAX_DEPTH> <depth>`  → `ok` | `LokyRecursionError fork` | `LokyRecursionError max`
* `create <sm> <MAX_DEPTH> <depth>` → `ok <depth of the workers>` | `LokyRecursionError fork|max`
* `env <absent|bad|int>`            → the value of `MAX_DEPTH`, or `ValueError`
* `nest <MAX_DEPTH> <depth> <sm,sm,...|->` → `<depth reached> ok|LokyRecursionError fork|max`
* `life <sm> <MAX_DEPTH> <depth at construction> <workers> <op,op,...|->` with `op` = `d<n>` (the process
  assigns its depth global), `e` (first submit), `r<n>` (resize to n), `x<n>` (n workers time out, respawn)
  → `ok <batch>;<batch>;...` (one batch per op: the depth arguments of the workers it spawns, `-` = none)
  | `LokyRecursionError fork|max`
* `startup <fresh> <arg>` → `<depth global while the initializer runs> <while tasks run>`
-/
open LokyModel.Depth

def parseSm (s : String) : StartMethod :=
  if s == "fork" then .fork else if s == "loky" then .loky else if s == "loky_init_main" then .lokyInitMain
  else if s == "spawn" then .spawn else if s == "forkserver" then .forkserver else .other

def showReason : Reason → String
  | .fork => "LokyRecursionError fork"
  | .maxDepth => "LokyRecursionError max"

def parseLifeOp (t : String) : Option LifeOp :=
  if t == "e" then some .ensure
  else
    let rest := (t.drop 1).toString
    match (t.take 1).toString, rest.toNat? with
    | "d", some n => some (.setDepth n)
    | "r", some n => some (.resize n)
    | "x", some n => some (.exit n)
    | _, _ => none

def showBatch (b : List Nat) : String :=
  if b.isEmpty then "-" else ",".intercalate (b.map toString)

def handle (ws : List String) : String :=
  match ws with
  | ["check", sm, mx, d] =>
    match mx.toInt?, d.toNat? with
    | some mx, some d =>
      match checkMaxDepth (parseSm sm) mx d with
      | .ok => "ok"
      | .recursionError why => showReason why
    | _, _ => "bad-op"
  | ["create", sm, mx, d] =>
    match mx.toInt?, d.toNat? with
    | some mx, some d =>
      match createExecutor (parseSm sm) mx d with
      | .ok d' => s!"ok {d'}"
      | .error why => showReason why
    | _, _ => "bad-op"
  | ["env", v] =>
    let e? : Option EnvVal :=
      if v == "absent" then some .absent else if v == "bad" then some .bad else v.toInt?.map .int
    match e? with
    | some e =>
      match parseMaxDepth e with
      | some i => toString i
      | none => "ValueError"
    | none => "bad-op"
  | ["nest", mx, d, sms] =>
    match mx.toInt?, d.toNat? with
    | some mx, some d =>
      let l := if sms == "-" then [] else (sms.splitOn ",").map parseSm
      match nest mx d l with
      | (d', none) => s!"{d'} ok"
      | (d', some why) => s!"{d'} {showReason why}"
    | _, _ => "bad-op"
  | ["life", sm, mx, d, w, ops] =>
    match mx.toInt?, d.toNat?, w.toNat? with
    | some mx, some d, some w =>
      let toks := if ops == "-" then [] else ops.splitOn ","
      let parsed := toks.map parseLifeOp
      if parsed.any Option.isNone then "bad-op"
      else
        match life (parseSm sm) mx d w (parsed.filterMap id) with
        | .ok bs => "ok " ++ (if bs.isEmpty then "." else ";".intercalate (bs.map showBatch))
        | .error why => showReason why
    | _, _, _ => "bad-op"
  | ["startup", f, a] =>
    match f.toNat?, a.toNat? with
    | some f, some a => let r := workerStartup f a; s!"{r.1} {r.2}"
    | _, _ => "bad-op"
  | _ => "bad-op"

partial def loop (h : IO.FS.Stream) (out : IO.FS.Stream) : IO Unit := do
  let line ← h.getLine
  if line.isEmpty then return ()
  out.putStrLn (handle ((line.trimAscii.toString.splitOn " ").filter (· ≠ "")))
  loop h out

def main : IO Unit := do
  loop (← IO.getStdin) (← IO.getStdout)
