import LokyModel.Lemmas.ExecLiveSlot
import LokyModel.ExecLiveWatch
/-! Random-walk evaluation of the strengthened slot invariant `slotOk'` (`Lemmas/ExecLiveSlot.lean`) on M1, over ALL
    kinds of configurations (time-outs, leaks, failing initializers, dying tasks, un-picklable items, `kill_workers`).

    lake env lean --run Drivers/LiveCheckslotOk.lean <runs> <seed> [crash]

`slotExtra` is checked in every state; `slotOk` is checked until the first step that kills (manager `kill`, or a crash
step with `crash`) a worker holding a slot, after which `cqSem + slots ≤ cap` is checked instead. -/
open LokyModel.Exec

def lcg (x : Nat) : Nat := (x * 6364136223846793005 + 1442695040888963407) % 18446744073709551616
def pick (r : Nat) (n : Nat) : Nat := (r / 65536) % (if n = 0 then 1 else n)

def genCfg (r0 : Nat) : Cfg × Nat := Id.run do
  let mut r := lcg r0
  let mw := 1 + pick r 3
  r := lcg r
  let timeouts := pick r 3 == 0
  r := lcg r
  let nt := 1 + pick r 5
  let mut tasks : List TaskSpec := []
  for _ in [0:nt] do
    r := lcg r
    let a := match pick r 10 with | 0 => ArgKind.unpicklable | 1 => ArgKind.toolarge | 2 => ArgKind.badunpickle | _ => ArgKind.ok
    r := lcg r
    let b := match pick r 6 with | 0 => BodyKind.raises | 1 => BodyKind.die | _ => BodyKind.ok
    r := lcg r
    let c := if pick r 8 == 0 then ResKind.badunpickle else ResKind.ok
    tasks := tasks ++ [{ args := a, body := b, res := c }]
  r := lcg r
  let nu := 1 + pick r 3
  let mut scripts : List (List UOp) := []
  for u in [0:nu] do
    let mut sc : List UOp := if u == 0 then [.create] else []
    r := lcg r
    let len := 1 + pick r 6
    for _ in [0:len] do
      r := lcg r
      let k := pick r 10
      r := lcg r
      let t := pick r nt
      sc := sc ++ [if k < 5 then UOp.submit t else if k < 7 then UOp.cancel t else if k < 9 then UOp.idle else UOp.submit t]
    r := lcg r
    let e := pick r 10
    sc := sc ++ (if e < 2 then [UOp.shutdown true false] else if e < 3 then [UOp.shutdown true true] else if e < 4 then [UOp.shutdown false false]
                 else if e < 5 && u == 0 then [UOp.drop] else if e < 6 then [UOp.pyexit] else if e < 7 then [UOp.shutdown false true] else [])
    r := lcg r
    if pick r 4 == 0 then
      r := lcg r
      sc := sc ++ [UOp.submit (pick r nt)]
    scripts := scripts ++ [sc]
  r := lcg r
  let hasInit := pick r 3 == 0
  r := lcg r
  let initFail := if pick r 4 == 0 then [pick r 3] else []
  r := lcg r
  let leakAfter := if pick r 3 == 0 then [pick r nt] else []
  ({ maxWorkers := mw, timeout := timeouts, tasks := tasks, scripts := scripts, hasInit := hasInit, initFail := initFail, leakAfter := leakAfter }, r)

def showAV (av : Actor × Variant) : String :=
  let a := match av.1 with | .U k => s!"U{k}" | .M => "M" | .F => "F" | .W p => s!"W{p}"
  let v := match av.2 with | .ok => "ok" | .timeout => "timeout" | .fail => "fail" | .crash => "crash"
  s!"{a}:{v}"

def enabledAll (s : St) (crash : Bool) : List (Actor × Variant) :=
  (actorsOf s).flatMap fun a => (([Variant.ok, .timeout, .fail] ++ (if crash then [Variant.crash] else [])).filter fun v => (step s a v).isSome).map fun v => (a, v)

def main (args : List String) : IO UInt32 := do
  let runs := (args.getD 0 "200").toNat!
  let seed := (args.getD 1 "0").toNat!
  let crash := args.getD 2 "" == "crash"
  let mut r := lcg (seed * 7919 + 17)
  let mut states := 0
  let mut bad := 0
  let mut lostRuns := 0
  for i in [0:runs] do
    let (cfg, r') := genCfg r
    r := r'
    let mut s := init cfg
    let mut trace : List String := []
    let mut fin := false
    let mut lost := false
    for _ in [0:800] do
      if fin then break
      states := states + 1
      let fl := (if watchOk s then [] else ["watchOk"]) ++ (if slotExtra s then [] else ["slotExtra"]) ++
                (if lost then (if s.cqSem + slots s ≤ cap s then [] else ["slotLe"]) else (if slotOk s then [] else ["slotOk"]))
      if !fl.isEmpty then
        IO.println s!"INVARIANT {fl} fails at run {i} after {trace.length} steps; mpc={repr s.mpc} fpc={repr s.fpc}"
        IO.println s!"  cfg={repr cfg}"
        IO.println s!"  trace={trace}"
        bad := bad + 1
        fin := true
      else
        let en := enabledAll s crash
        if en.isEmpty then
          fin := true
        else
          r := lcg r
          -- crash steps are chosen rarely
          let mut av := en.getD (pick r en.length) (.M, .ok)
          if av.2 == .crash then
            r := lcg r
            if pick r 8 != 0 then
              r := lcg r
              av := en.getD (pick r en.length) (.M, .ok)
          trace := trace ++ [showAV av]
          match av with
          | (.M, .ok) => match s.mpc with
              | .kill p => if wSlot (s.w p) != 0 then lost := true
              | _ => pure ()
          | (.W p, .crash) => if wSlot (s.w p) != 0 then lost := true
          | _ => pure ()
          match step s av.1 av.2 with
          | some s' => s := s'
          | none => fin := true
    if lost then lostRuns := lostRuns + 1
    if bad ≥ 3 then break
  IO.println s!"runs={runs} states={states} runsWithLostSlot={lostRuns} bad={bad}"
  return (if bad == 0 then 0 else 1)
