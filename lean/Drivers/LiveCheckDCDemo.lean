import LokyModel.ExecLiveDCDef
/-! Finds schedules for the examples of `Props/C07LiveCrash.lean`: random walks over a small fixed dynamic-pool configuration
    with crash steps at lock-free points; prints (in Lean syntax) the shortest run found that

    * mode 0: ends quiescent and good with the pool flagged broken, after one worker timed out and left through the clean
      handshake and another died inside a task body;
    * mode 1: ends quiescent and NOT good with the management lock orphaned by the manager's own SIGKILL (finding D5).

    lake env lean --run Drivers/LiveCheckDCDemo.lean <runs> <seed> <mode> -/
open LokyModel.Exec

def lcg (x : Nat) : Nat := (x * 6364136223846793005 + 1442695040888963407) % 18446744073709551616
def pick (r : Nat) (n : Nat) : Nat := (r / 65536) % (if n = 0 then 1 else n)

def demoCfg : Cfg :=
  { maxWorkers := 2, timeout := true, tasks := [{}, {}],
    scripts := [[.create, .submit 0, .idle, .idle, .idle, .submit 1, .shutdown true false]] }

def showAV (av : Actor × Variant) : String :=
  let a := match av.1 with | .U k => s!".U {k}" | .M => ".M" | .F => ".F" | .W p => s!".W {p}"
  let v := match av.2 with | .ok => ".ok" | .timeout => ".timeout" | .fail => ".fail" | .crash => ".crash"
  s!"({a}, {v})"

def inBody (s : St) (p : Pid) : Bool := match s.w p with | .task _ _ | .taskEnd _ _ => true | _ => false

def enabledCr (s : St) : List (Actor × Variant) :=
  (s.allPids.filter fun p => lockFree (s.w p) && inBody s p && (step s (.W p) .crash).isSome).map fun p => (Actor.W p, Variant.crash)

def main (args : List String) : IO UInt32 := do
  let runs := (args.getD 0 "200").toNat!
  let seed := (args.getD 1 "0").toNat!
  let mode := (args.getD 2 "0").toNat!
  let cfg := demoCfg
  if !cfg.dynPool || !cfg.oneCreate then
    IO.println "outside the scope"; return 2
  let mut r := lcg (seed * 7919 + 17)
  let mut best : Option (List (Actor × Variant) × St) := none
  let mut found := 0
  for _ in [0:runs] do
    let mut s := init cfg
    let mut trace : List (Actor × Variant) := []
    let mut fin := false
    let mut crashed := false
    for _ in [0:500] do
      if fin then break
      let en := enabledNC s
      if en.isEmpty then
        fin := true
        let left := s.allPids.any fun p => s.exitCode p == some 0
        let ok := if mode == 0 then s.broken.isSome && good s && crashed && left && s.futs.length == 2
                  else mgmtOrphan s && !good s && crashed
        if ok then
          found := found + 1
          match best with
          | some (t, _) => if trace.length < t.length then best := some (trace, s)
          | none => best := some (trace, s)
      else
        r := lcg r
        let cr := enabledCr s
        r := lcg r
        let av := if !crashed && !cr.isEmpty && pick r 4 == 0 then cr.getD (pick (lcg r) cr.length) (.M, .ok)
                  else en.getD (pick r en.length) (.M, .ok)
        if av.2 == Variant.crash then crashed := true
        trace := trace ++ [av]
        match step s av.1 av.2 with
        | some s' => s := s'
        | none => fin := true
  IO.println s!"runs={runs} found={found}"
  match best with
  | none => return 1
  | some (t, s) =>
    IO.println s!"length={t.length} futs={repr s.futs} broken={repr s.broken} mpc={repr s.mpc} allPids={s.allPids} codes={s.allPids.map s.exitCode} oMgmt={repr s.oMgmt}"
    IO.println s!"[{", ".intercalate (t.map showAV)}]"
    return 0
