import LokyModel.ExecLiveMeasureCDef
import LokyModel.ExecLiveCrash
/-! Random-walk validation of the crash-aware termination measure `muC` (`LokyModel/ExecLiveMeasureCDef.lean`) on M1:
    walks of static pools with crash steps of workers at lock-free points (the step choice of
    `Drivers/LiveCheckCrash.lean`); on every step, crash steps included, `muC s' < muC s` is checked (and the crash-aware
    ingredients of `ExecLiveCrash.lean` as there); at the end of every run its length is compared with `muC (init cfg)`.

    lake env lean --run Drivers/LiveCheckMeasureC.lean <runs> <seed> [steps] [crashOneIn]

Not a proof and not presented as one: a cheap way to find out that a candidate invariant is wrong before trying to
prove it, and a regression test of the definitions (the check's quick tier runs it with a small budget). -/
open LokyModel.Exec

def lcg (x : Nat) : Nat := (x * 6364136223846793005 + 1442695040888963407) % 18446744073709551616
def pick (r : Nat) (n : Nat) : Nat := (r / 65536) % (if n = 0 then 1 else n)

def genCfg (r0 : Nat) (timeouts : Bool) : Cfg × Nat := Id.run do
  let mut r := lcg r0
  let mw := 1 + pick r 3
  r := lcg r
  let nt := 1 + pick r 5
  let mut tasks : List TaskSpec := []
  for _ in [0:nt] do
    r := lcg r
    let a := match pick r 8 with | 0 => ArgKind.unpicklable | 1 => ArgKind.toolarge | _ => ArgKind.ok
    r := lcg r
    let b := if pick r 4 == 0 then BodyKind.raises else BodyKind.ok
    tasks := tasks ++ [{ args := a, body := b }]
  r := lcg r
  let nu := 1 + pick r 3
  let mut scripts : List (List UOp) := []
  for u in [0:nu] do
    let mut sc : List UOp := if u == 0 then [.create] else []
    r := lcg r
    let len := 1 + pick r 6
    for _ in [0:len] do
      r := lcg r
      let k := pick r 10
      r := lcg r
      let t := pick r nt
      sc := sc ++ [if k < 5 then UOp.submit t else if k < 7 then UOp.cancel t else if k < 9 then UOp.idle else UOp.submit t]
    r := lcg r
    let e := pick r 10
    sc := sc ++ (if e < 3 then [UOp.shutdown true false] else if e < 4 then [UOp.shutdown false false]
                 else if e < 5 && u == 0 then [UOp.drop] else if e < 6 then [UOp.pyexit] else [])
    r := lcg r
    if pick r 4 == 0 then
      r := lcg r
      sc := sc ++ [UOp.submit (pick r nt)]
    scripts := scripts ++ [sc]
  r := lcg r
  let hasInit := pick r 3 == 0
  ({ maxWorkers := mw, timeout := timeouts, tasks := tasks, scripts := scripts, hasInit := hasInit }, r)

def showAV (av : Actor × Variant) : String :=
  let a := match av.1 with | .U k => s!"U{k}" | .M => "M" | .F => "F" | .W p => s!"W{p}"
  let v := match av.2 with | .ok => "ok" | .timeout => "timeout" | .fail => "fail" | .crash => "crash"
  s!"{a}:{v}"

def failing (s : St) : List String :=
  (if anyDead s then [] else
    (if slotOk s then [] else ["slotOk"]) ++ (if holderOk s then [] else ["holderOk"]) ++
    (if staticOk s then [] else ["staticOk"]) ++ (if wakeOk s then [] else ["wakeOk"]) ++
    (if consOk s then [] else ["consOk"]) ++ (if joinOk s then [] else ["joinOk"])) ++
  (if staticC s then [] else ["staticC"]) ++ (if smallOk s then [] else ["smallOk"]) ++
  (if holderC s then [] else ["holderC"]) ++ (if joinC s then [] else ["joinC"]) ++
  (if watchOk s then [] else ["watchOk"]) ++ (if addSlotOk s then [] else ["addSlotOk"])

/-- enabled steps, with crashes of workers that hold no lock -/
def enabledSC (s : St) : List (Actor × Variant) :=
  enabledNC s ++ (s.allPids.filter fun p => lockFree (s.w p) && (step s (.W p) .crash).isSome).map fun p => (Actor.W p, Variant.crash)

def isBrk : MPc → Bool
  | .clrPoll (.broken _) | .clrRecv (.broken _) | .brkAcq _ | .brkRel _ | .kill _ | .killJoin _ => true
  | _ => false

def main (args : List String) : IO UInt32 := do
  let runs := (args.getD 0 "200").toNat!
  let seed := (args.getD 1 "0").toNat!
  let timeouts := false
  let maxSteps := (args.getD 2 "3000").toNat!
  let crashIn := (args.getD 3 "60").toNat!
  let mut crashes := 0
  let mut brkSteps := 0
  let mut crashedRuns := 0
  let mut brokenRuns := 0
  let mut steps := 0
  let mut maxMu := 0
  let mut maxLen := 0
  let mut unfinished := 0
  let mut backoff := 0
  let mut raisedN := 0
  let mut feederErr := 0
  let mut bareWake := 0
  let mut r := lcg (seed * 7919 + 17)
  let mut states := 0
  let mut stuck := 0
  let mut bad := 0
  for i in [0:runs] do
    let (cfg, r') := genCfg r timeouts
    r := r'
    if !timeouts && !cfg.staticPool then
      IO.println s!"generator produced a non-static configuration at run {i}"
      return 2
    let mut s := init cfg
    let mut trace : List String := []
    let mut fin := false
    for _ in [0:maxSteps] do
      if fin then break
      states := states + 1
      let fl := if timeouts then (if slotOk s then [] else ["slotOk"]) ++ (if consOk s then [] else ["consOk"]) else failing s
      if !fl.isEmpty then
        IO.println s!"INVARIANT {fl} fails at run {i} after {trace.length} steps; mpc={repr s.mpc} fpc={repr s.fpc}"
        IO.println s!"  cfg={repr cfg}"
        IO.println s!"  trace={trace}"
        bad := bad + 1
        fin := true
      else
        let en := enabledNC s
        if en.isEmpty then
          stuck := stuck + 1
          if !good s && !timeouts then
            IO.println s!"STUCK-BAD at run {i} after {trace.length} steps; mpc={repr s.mpc} fpc={repr s.fpc} futs={repr s.futs}"
            IO.println s!"  cfg={repr cfg}"
            IO.println s!"  trace={trace}"
            bad := bad + 1
          fin := true
        else
          r := lcg r
          let cr := (enabledSC s).filter fun av => av.2 == Variant.crash
          r := lcg r
          let av := if !cr.isEmpty && pick r crashIn == 0 then cr.getD (pick (lcg r) cr.length) (.M, .ok)
                    else en.getD (pick r en.length) (.M, .ok)
          if av.2 == Variant.crash then crashes := crashes + 1
          if av.1 == Actor.M && isBrk s.mpc then brkSteps := brkSteps + 1
          trace := trace ++ [showAV av]
          match step s av.1 av.2 with
          | some s' =>
            steps := steps + 1
            match s.mpc, av with
            | .jPut .., (.M, .fail) => backoff := backoff + 1
            | .wait _, (.M, .ok) => if s.rqPipe.isEmpty then bareWake := bareWake + 1
            | _, _ => pure ()
            match s'.mpc, av with
            | .raised _, (.M, _) => raisedN := raisedN + 1
            | _, _ => pure ()
            match s.fpc, av with
            | .errSem _, (.F, _) => feederErr := feederErr + 1
            | _, _ => pure ()
            if !(muC s' < muC s) then
              IO.println s!"MEASURE does not decrease at run {i} step {trace.length}: {showAV av}  muC {muC s} -> {muC s'}"
              IO.println s!"  before: mpc={repr s.mpc} fpc={repr s.fpc} wakeup={s.wakeup} upcs={repr ((List.range cfg.scripts.length).map s.upc)} ws={repr (s.allPids.map s.w)}"
              IO.println s!"  after:  mpc={repr s'.mpc} fpc={repr s'.fpc} wakeup={s'.wakeup} upcs={repr ((List.range cfg.scripts.length).map s'.upc)} ws={repr (s'.allPids.map s'.w)}"
              IO.println s!"  parts before: u={uSum s} m={mRank s} f={fRank s.fpc} w={wSum s} q={qPot s} brk={mRankBrk cfg.maxWorkers s.procDict.length s.mpc} tok={brkTok s}; after: u={uSum s'} m={mRank s'} f={fRank s'.fpc} w={wSum s'} q={qPot s'} brk={mRankBrk cfg.maxWorkers s'.procDict.length s'.mpc} tok={brkTok s'}"
              IO.println s!"  cfg={repr cfg}"
              bad := bad + 1
              fin := true
            s := s'
          | none => fin := true
    if !fin then unfinished := unfinished + 1
    if anyDead s then crashedRuns := crashedRuns + 1
    if s.broken.isSome then brokenRuns := brokenRuns + 1
    if muC (init cfg) > maxMu then maxMu := muC (init cfg)
    if trace.length > maxLen then maxLen := trace.length
    if trace.length > muC (init cfg) then
      IO.println s!"RUN LONGER THAN mu(init) at run {i}"
      bad := bad + 1
    if bad ≥ 3 then break
  IO.println s!"runs={runs} states={states} steps={steps} quiescent={stuck} unfinished={unfinished} backoffRounds={backoff} queueFullRaised={raisedN} feederErrors={feederErr} bareWakeups={bareWake} crashSteps={crashes} runsWithDeath={crashedRuns} runsBroken={brokenRuns} brokenPathSteps={brkSteps} longestRun={maxLen} maxMuCInit={maxMu} bad={bad}"
  return (if bad == 0 then 0 else 1)
