import LokyModel.Spawn
/-! line protocol driver for M8 (`LokyModel.Spawn`)

* `launch <childR> <childW> <tracker> <mp|none> <dup,dup,…|-> <fd:inh,fd:inh,…|->`
    → `keep=<csv, _launch order> child=<csv>`  or  `keep=<csv> ValueError`
* `forkexec <closefds 0|1> <keep csv|-> <table>` → `pass=<csv> child=<csv>` or `pass=<csv> ValueError`
* `env <k:v,k:v,…|-> <k:v,…|-|none>` (keys/values are opaque tokens, e.g. hex with an `x` prefix)
    → `<k=v,k=v,…>` in `encoded_env` order (`-` when empty)
* `poll <returncode|none> <oserror|notyet|other:<sts>|mine:<sts>>` → `none` | `<int>` | `AssertionError`
* `main <attr:none|attr:0|attr:1|ctor:none|ctor:0|ctor:1|initmain|method:<name>> <spec|none> <file|none>
        <childspec|none> <childfile|none> <stem>` → `key=<none|name:…|path:…> rerun=<0|1>` -/
open LokyModel.Spawn

def csv (s : String) : List String :=
  if s == "-" then [] else (s.splitOn ",").filter (· ≠ "")

def natList (s : String) : Option (List Nat) := (csv s).mapM (·.toNat?)

def showNats (l : List Nat) : String :=
  if l.isEmpty then "-" else ",".intercalate (l.map toString)

def parseTable (s : String) : Option FdTable :=
  (csv s).mapM fun e =>
    match e.splitOn ":" with
    | [fd, inh] =>
      match fd.toNat? with
      | some fd => if inh == "1" then some (fd, true) else if inh == "0" then some (fd, false) else none
      | none => none
    | _ => none

def parseEnv (s : String) : Option Env :=
  (csv s).mapM fun e =>
    match e.splitOn ":" with
    | [k, v] => some (k, v)
    | _ => none

def optTok (s : String) : Option String := if s == "none" then none else some s

def parseProc (s : String) : Option ProcObj :=
  match s with
  | "attr:none" => some ⟨none⟩
  | "attr:0" => some ⟨some false⟩
  | "attr:1" => some ⟨some true⟩
  | "ctor:none" => some (lokyProcess none)
  | "ctor:0" => some (lokyProcess (some false))
  | "ctor:1" => some (lokyProcess (some true))
  | "initmain" => some lokyInitMainProcess
  | _ => if s.startsWith "method:" then processOfMethod (s.drop 7).toString else none

def handle (ws : List String) : String :=
  match ws with
  | ["launch", cr, cw, tr, mp, dups, tbl] =>
    match cr.toNat?, cw.toNat?, tr.toNat?, natList dups, parseTable tbl with
    | some cr, some cw, some tr, some dups, some tbl =>
      let mp? : Option (Option Nat) := if mp == "none" then some none else mp.toNat?.map some
      match mp? with
      | some mp =>
        let l : Launch := ⟨dups, cr, cw, tr, mp⟩
        match childFds l tbl with
        | some c => s!"keep={showNats (keepList l)} child={showNats c}"
        | none => s!"keep={showNats (keepList l)} ValueError"
      | none => "bad-op"
    | _, _, _, _, _ => "bad-op"
  | ["forkexec", cf, keep, tbl] =>
    match natList keep, parseTable tbl with
    | some keep, some tbl =>
      if cf != "0" && cf != "1" then "bad-op" else
      match forkExec (cf == "1") (passFds keep) tbl with
      | some c => s!"pass={showNats (passFds keep)} child={showNats c}"
      | none => s!"pass={showNats (passFds keep)} ValueError"
    | _, _ => "bad-op"
  | ["env", par, ov] =>
    let ov? : Option (Option Env) := if ov == "none" then some none else (parseEnv ov).map some
    match parseEnv par, ov? with
    | some par, some ov =>
      let e := encodeEnv (childEnv par ov)
      if e.isEmpty then "-" else ",".intercalate e
    | _, _ => "bad-op"
  | ["poll", rc, w] =>
    let rc? : Option (Option Int) := if rc == "none" then some none else rc.toInt?.map some
    let w? : Option WaitRes :=
      if w == "oserror" then some .oserror
      else if w == "notyet" then some .notYet
      else match w.splitOn ":" with
        | ["other", s] => s.toNat?.map .other
        | ["mine", s] => s.toNat?.map .mine
        | _ => none
    match rc?, w? with
    | some rc, some w =>
      match poll rc w with
      | .ret none => "none"
      | .ret (some c) => toString c
      | .assertionError => "AssertionError"
    | _, _ => "bad-op"
  | ["main", proc, spec, file, cspec, cfile, stem] =>
    match parseProc proc with
    | some p =>
      let m : MainInfo := ⟨optTok spec, optTok file⟩
      let c : ChildMain := ⟨optTok cspec, optTok cfile, stem⟩
      let k := mainKey (effectiveInitMain p) m
      let ks := match k with
        | .none => "none"
        | .fromName n => "name:" ++ n
        | .fromPath p => "path:" ++ p
      s!"key={ks} rerun={if childRerunsMain p m c then 1 else 0}"
    | none => "bad-op"
  | _ => "bad-op"

partial def loop (h : IO.FS.Stream) (out : IO.FS.Stream) : IO Unit := do
  let line ← h.getLine
  if line.isEmpty then return ()
  out.putStrLn (handle ((line.trimAscii.toString.splitOn " ").filter (· ≠ "")))
  loop h out

def main : IO Unit := do
  loop (← IO.getStdin) (← IO.getStdout)
