import LokyModel.Chunks
/-! line protocol driver for M2 (`LokyModel.Chunks`).

A list is `-` (empty) or comma-separated integers; `<lists>` is zero or more such tokens, one per
iterable.  `<fn>` is five tokens `k b m r exc` denoting
`fn(*args) = (s := Σ (i+1)·args[i]; if m > 0 and s % m == r: raise exc(s); return k·s + b)`.

* `chunks <c> <lists>`        → the chunks of `_get_chunks(c, *lists)`: chunks separated by `|`, rows by
                                `;`, items by `,`; `-` if there is none; `ValueError` if `c < 0`
* `process <fn> <c> <lists>`  → `_process_chunk(fn, chunk)` for every chunk: `ok:<vals>` or
                                `raise:<exc>:<s>`, separated by `|`; `-` / `ValueError` as above
* `chain <lists>`             → `_chain_from_iterable_of_lists(lists)`: the items, or `-`
* `map <fn> <c> <lists>`      → `ValueError`, `ok <vals>`, or `raise <exc> <s> after <vals>`
-/
open LokyModel.Chunks

def parseList (s : String) : Option (List Int) :=
  if s == "-" then some [] else (s.splitOn ",").mapM String.toInt?

def showList (l : List Int) : String :=
  if l.isEmpty then "-" else ",".intercalate (l.map toString)

structure Fn where
  k : Int
  b : Int
  m : Int
  r : Int
  exc : String

def Fn.apply (f : Fn) (row : List Int) : Except Int Int :=
  let s := (row.zipIdx.map fun (a, i) => ((i : Int) + 1) * a).foldl (· + ·) 0
  if f.m > 0 ∧ s % f.m = f.r then .error s else .ok (f.k * s + f.b)

def parseFn (k b m r exc : String) : Option Fn :=
  match k.toInt?, b.toInt?, m.toInt?, r.toInt? with
  | some k, some b, some m, some r => some ⟨k, b, m, r, exc⟩
  | _, _, _, _ => none

def showChunks (cs : List (List (List Int))) : String :=
  if cs.isEmpty then "-"
  else "|".intercalate (cs.map fun ch => ";".intercalate (ch.map fun row => ",".intercalate (row.map toString)))

def showProcessed (f : Fn) (rs : List (Except Int (List Int))) : String :=
  if rs.isEmpty then "-"
  else "|".intercalate (rs.map fun
    | .ok vs => "ok:" ++ showList vs
    | .error s => s!"raise:{f.exc}:{s}")

def handle (ws : List String) : String :=
  match ws with
  | "chunks" :: c :: lists =>
    match c.toInt?, lists.mapM parseList with
    | some c, some ls =>
      match getChunksInt c (zipAll ls) with
      | none => "ValueError"
      | some cs => showChunks cs
    | _, _ => "bad-op"
  | "process" :: k :: b :: m :: r :: exc :: c :: lists =>
    match parseFn k b m r exc, c.toInt?, lists.mapM parseList with
    | some f, some c, some ls =>
      match getChunksInt c (zipAll ls) with
      | none => "ValueError"
      | some cs => showProcessed f (cs.map (processChunk f.apply))
    | _, _, _ => "bad-op"
  | "chain" :: lists =>
    match lists.mapM parseList with
    | some ls => showList (chain (ε := Int) (ls.map .ok)).1
    | none => "bad-op"
  | "map" :: k :: b :: m :: r :: exc :: c :: lists =>
    match parseFn k b m r exc, c.toInt?, lists.mapM parseList with
    | some f, some c, some ls =>
      match LokyModel.Chunks.map c f.apply ls with
      | .valueError => "ValueError"
      | .result vs none => "ok " ++ showList vs
      | .result vs (some s) => s!"raise {f.exc} {s} after {showList vs}"
    | _, _, _ => "bad-op"
  | _ => "bad-op"

partial def loop (h : IO.FS.Stream) (out : IO.FS.Stream) : IO Unit := do
  let line ← h.getLine
  if line.isEmpty then return ()
  out.putStrLn (handle ((line.trimAscii.toString.splitOn " ").filter (· ≠ "")))
  loop h out

def main : IO Unit := do
  loop (← IO.getStdin) (← IO.getStdout)
