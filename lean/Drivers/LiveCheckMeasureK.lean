import LokyModel.ExecLiveKDef
import LokyModel.ExecLiveMeasureKDef
/-! Random-walk validation of the termination measure `muK` (`LokyModel/ExecLiveMeasureKDef.lean`) on M1: walks of static
    pools WITH `shutdown(kill_workers=True)` and crash steps of workers at lock-free points (configurations and step choice
    of `Drivers/LiveCheckK.lean`, whose invariant checks are kept).  On every step taken — ordinary steps of every actor in
    both phases, the manager's step that sees the kill flag, its `kill` / `join` steps, crash steps — `muK s' < muK s` is
    checked, and `muC s.unkill = muC s`; at the end of every run its length is compared with `muK (init cfg)`.

    lake env lean --run Drivers/LiveCheckMeasureK.lean <runs> <seed> [heavy] [steps] [crashOneIn]

Not a proof and not presented as one: a cheap way to find out that a candidate measure is wrong before trying to prove
that it decreases. -/
open LokyModel.Exec

def lcg (x : Nat) : Nat := (x * 6364136223846793005 + 1442695040888963407) % 18446744073709551616
def pick (r : Nat) (n : Nat) : Nat := (r / 65536) % (if n = 0 then 1 else n)

def genCfg (r0 : Nat) (timeouts : Bool) (heavy : Bool := false) : Cfg × Nat := Id.run do
  let mut r := lcg r0
  let mw := 1 + pick r 3
  r := lcg r
  let nt := 1 + pick r 5
  let mut tasks : List TaskSpec := []
  for _ in [0:nt] do
    r := lcg r
    let a := match pick r 8 with | 0 => ArgKind.unpicklable | 1 => ArgKind.toolarge | _ => ArgKind.ok
    r := lcg r
    let b := if pick r 4 == 0 then BodyKind.raises else BodyKind.ok
    tasks := tasks ++ [{ args := a, body := b }]
  r := lcg r
  let nu := 1 + pick r 3
  let mut scripts : List (List UOp) := []
  for u in [0:nu] do
    let mut sc : List UOp := if u == 0 then [.create] else []
    r := lcg r
    let len := 1 + pick r 6
    for _ in [0:len] do
      r := lcg r
      let k := pick r 10
      r := lcg r
      let t := pick r nt
      r := lcg r
      let sw := pick r 2 == 0
      r := lcg r
      let sk := heavy || pick r 3 != 0
      sc := sc ++ [if k < 5 then UOp.submit t else if k < 7 then UOp.cancel t else if k < (if heavy then 7 else 8) then UOp.idle
                   else if k < 9 then UOp.shutdown sw sk else UOp.submit t]
    r := lcg r
    let e := pick r 10
    r := lcg r
    let ek := heavy || pick r 2 == 0
    sc := sc ++ (if e < 3 then [UOp.shutdown true ek] else if e < 4 then [UOp.shutdown false ek]
                 else if e < 5 && u == 0 then [UOp.drop] else if e < 6 then [UOp.pyexit] else [])
    r := lcg r
    if pick r 4 == 0 then
      r := lcg r
      sc := sc ++ [UOp.submit (pick r nt)]
    scripts := scripts ++ [sc]
  r := lcg r
  let hasInit := pick r 3 == 0
  ({ maxWorkers := mw, timeout := timeouts, tasks := tasks, scripts := scripts, hasInit := hasInit }, r)

def showAV (av : Actor × Variant) : String :=
  let a := match av.1 with | .U k => s!"U{k}" | .M => "M" | .F => "F" | .W p => s!"W{p}"
  let v := match av.2 with | .ok => "ok" | .timeout => "timeout" | .fail => "fail" | .crash => "crash"
  s!"{a}:{v}"

def failing1 (s : St) : List String :=
  let u := s.unkill
  (if anyDead u then [] else
    (if slotOk u then [] else ["slotOk"]) ++ (if holderOk u then [] else ["holderOk"]) ++
    (if staticOk u then [] else ["staticOk"]) ++ (if wakeOk u then [] else ["wakeOk"]) ++
    (if consOk u then [] else ["consOk"]) ++ (if joinOk u then [] else ["joinOk"])) ++
  (if staticK s then [] else ["staticK"]) ++ (if smallK s then [] else ["smallK"]) ++
  (if holderK s then [] else ["holderK"]) ++ (if joinK s then [] else ["joinK"]) ++
  (if killedK s then [] else ["killedK"]) ++
  (if watchOk s then [] else ["watchOk"]) ++ (if addSlotOk s then [] else ["addSlotOk"]) ++
  (if enabledNC u == enabledNC s then [] else ["enabled-sets-differ"]) ++
  (if good u == good s then [] else ["good-differs"])

def failing2 (s : St) : List String :=
  (if lateK s then [] else ["lateK"]) ++ (if endK s then [] else ["endK"]) ++
  (if watchOk s then [] else ["watchOk"]) ++ (if addSlotOk s then [] else ["addSlotOk"])

/-- enabled steps, with crashes of workers that hold no lock -/
def enabledSC (s : St) : List (Actor × Variant) :=
  enabledNC s ++ (s.allPids.filter fun p => lockFree (s.w p) && (step s (.W p) .crash).isSome).map fun p => (Actor.W p, Variant.crash)

def main (args : List String) : IO UInt32 := do
  let runs := (args.getD 0 "200").toNat!
  let seed := (args.getD 1 "0").toNat!
  let heavy := (args.getD 2 "") == "heavy"   -- third argument `heavy`: every shutdown in the scripts is a forced one
  let timeouts := false
  let maxSteps := (args.getD 3 "3000").toNat!
  let crashIn := (args.getD 4 "60").toNat!
  let mut steps := 0
  let mut steps2 := 0
  let mut crashes := 0
  let mut crashes2 := 0
  let mut killSteps := 0
  let mut maxMu := 0
  let mut maxLen := 0
  let mut unfinished := 0
  let mut r := lcg (seed * 7919 + 17)
  let mut states := 0
  let mut stuck := 0
  let mut bad := 0
  let mut states2 := 0
  let mut stuck2 := 0
  let mut runs2 := 0
  let mut plain := 0
  let mut shutErr := 0
  let mut lockedKill := 0
  for i in [0:runs] do
    let (cfg, r') := genCfg r timeouts heavy
    r := r'
    if !timeouts && !cfg.staticPoolK then
      IO.println s!"generator produced a non-static configuration at run {i}"
      return 2
    let mut s := init cfg
    let mut trace : List String := []
    let mut fin := false
    let mut seen := false
    if cfg.staticPool then plain := plain + 1
    for _ in [0:maxSteps] do
      if fin then break
      states := states + 1
      let fl := if seen then failing2 s else failing1 s
      if seen then states2 := states2 + 1
      if !fl.isEmpty then
        IO.println s!"INVARIANT {fl} fails at run {i} after {trace.length} steps (phase {if seen then 2 else 1}); mpc={repr s.mpc} fpc={repr s.fpc}"
        IO.println s!"  cfg={repr cfg}"
        IO.println s!"  trace={trace}"
        bad := bad + 1
        fin := true
      else
        let en := enabledNC s
        if en.isEmpty then
          stuck := stuck + 1
          if seen then stuck2 := stuck2 + 1
          if s.futs.any (fun f => f == Fut.excShutdown) then shutErr := shutErr + 1
          if !good s && !timeouts then
            IO.println s!"STUCK-BAD at run {i} after {trace.length} steps; mpc={repr s.mpc} fpc={repr s.fpc} futs={repr s.futs}"
            IO.println s!"  cfg={repr cfg}"
            IO.println s!"  trace={trace}"
            bad := bad + 1
          fin := true
        else
          r := lcg r
          let cr := (enabledSC s).filter fun av => av.2 == Variant.crash
          r := lcg r
          let av := if !cr.isEmpty && pick r crashIn == 0 then cr.getD (pick (lcg r) cr.length) (.M, .ok)
                    else en.getD (pick r en.length) (.M, .ok)
          trace := trace ++ [showAV av]
          if seesKill s av.1 then
            seen := true
            runs2 := runs2 + 1
            if s.allPids.any (fun p => inCqR (s.w p) || inRqW (s.w p)) then lockedKill := lockedKill + 1
          if av.2 == Variant.crash then
            crashes := crashes + 1
            if seen then crashes2 := crashes2 + 1
          match s.mpc, av.1 with
          | .kill _, .M => killSteps := killSteps + 1
          | _, _ => pure ()
          match step s av.1 av.2 with
          | some s' =>
            steps := steps + 1
            if seen then steps2 := steps2 + 1
            if muC s.unkill != muC s then
              IO.println s!"muC s.unkill ≠ muC s at run {i} step {trace.length}"
              bad := bad + 1
              fin := true
            if !(muK s' < muK s) then
              IO.println s!"MEASURE does not decrease at run {i} step {trace.length} (phase {if seen then 2 else 1}): {showAV av}  muK {muK s} -> {muK s'}"
              IO.println s!"  before: mpc={repr s.mpc} fpc={repr s.fpc} wakeup={s.wakeup} pd={repr s.procDict} upcs={repr ((List.range cfg.scripts.length).map s.upc)} ws={repr (s.allPids.map s.w)}"
              IO.println s!"  after:  mpc={repr s'.mpc} fpc={repr s'.fpc} wakeup={s'.wakeup} pd={repr s'.procDict} upcs={repr ((List.range cfg.scripts.length).map s'.upc)} ws={repr (s'.allPids.map s'.w)}"
              IO.println s!"  parts before: u={uSum s} m={mRank s} f={fRank s.fpc} w={wSum s} q={qPot s} brk={mRankBrk cfg.maxWorkers s.procDict.length s.mpc} tok={brkTok s} ktok={killTok s}; after: u={uSum s'} m={mRank s'} f={fRank s'.fpc} w={wSum s'} q={qPot s'} brk={mRankBrk cfg.maxWorkers s'.procDict.length s'.mpc} tok={brkTok s'} ktok={killTok s'}"
              IO.println s!"  cfg={repr cfg}"
              bad := bad + 1
              fin := true
            s := s'
          | none => fin := true
    if !fin then unfinished := unfinished + 1
    if muK (init cfg) > maxMu then maxMu := muK (init cfg)
    if trace.length > maxLen then maxLen := trace.length
    if trace.length > muK (init cfg) then
      IO.println s!"RUN LONGER THAN muK(init) at run {i}"
      bad := bad + 1
    if bad ≥ 3 then break
  IO.println s!"runs={runs} (without any kill op: {plain}) states={states} steps={steps} (phase 2: {steps2}) crashSteps={crashes} (phase 2: {crashes2}) managerKillSteps={killSteps} quiescent={stuck} unfinished={unfinished} longestRun={maxLen} maxMuKInit={maxMu} bad={bad}"
  IO.println s!"  runs in which the manager saw the kill flag: {runs2} (a worker inside a queue-lock section at that moment: {lockedKill}); phase-2 states={states2}; quiescent in phase 2: {stuck2}; quiescent with a ShutdownExecutorError future: {shutErr}"
  return (if bad == 0 then 0 else 1)
