import LokyModel.KillTree
/-! line protocol driver for M10 (`LokyModel.KillTree`)

* `kill <use_psutil 0|1> <have_psutil 0|1> <pgrep_ok 0|1> <has_kill 0|1> <root>
        <kids p:c.c.c,p:c.c|-> <psutil listing csv|-> <running csv|-> <zombie csv|->`
    → `att=<pid|pid!,…|-> end=<joined|nojoin|AttributeError> warn=<0|1> running=<sorted csv|-> zombie=<sorted csv|->`
    (`pid!` = the attempt met ESRCH / NoSuchProcess)
* `fmt <code|none,…|->` → the `_format_exitcodes` string
* `getex <snap;snap;…>` with `snap = <code|none,…|->` → `<string> sleeps=<n>` -/
open LokyModel.KillTree

def csv (s : String) : List String :=
  if s == "-" then [] else (s.splitOn ",").filter (· ≠ "")

def natList (s : String) : Option (List Nat) := (csv s).mapM (·.toNat?)

def insertAsc (a : Nat) : List Nat → List Nat
  | [] => [a]
  | b :: t => if a ≤ b then a :: b :: t else b :: insertAsc a t

def showSorted (l : List Nat) : String :=
  let l := l.foldr insertAsc []
  if l.isEmpty then "-" else ",".intercalate (l.map toString)

def parseKids (s : String) : Option Kids :=
  (csv s).mapM fun e =>
    match e.splitOn ":" with
    | [p, cs] =>
      match p.toNat?, ((cs.splitOn ".").filter (· ≠ "")).mapM (·.toNat?) with
      | some p, some cs => some (p, cs)
      | _, _ => none
    | _ => none

def parseCodes (s : String) : Option (List (Option Int)) :=
  (csv s).mapM fun e => if e == "none" then some none else e.toInt?.map some

def flag (s : String) : Option Bool := if s == "1" then some true else if s == "0" then some false else none

def handle (ws : List String) : String :=
  match ws with
  | ["kill", u, h, pg, hk, root, kids, listing, running, zombie] =>
    match flag u, flag h, flag pg, flag hk, root.toNat?, parseKids kids, natList listing,
          natList running, natList zombie with
    | some u, some h, some pg, some hk, some root, some kids, some listing, some running, some zombie =>
      let fuel := (kids.foldl (fun n e => n + 1 + e.2.length) 0) + 2
      let o := killProcessTree u h kids fuel root listing pg hk ⟨running, zombie⟩
      let att := o.attempts.map fun a => toString a.1 ++ (if a.2 then "" else "!")
      let e := match o.ending with
        | .returned true => "joined"
        | .returned false => "nojoin"
        | .attributeError => "AttributeError"
      s!"att={if att.isEmpty then "-" else ",".intercalate att} end={e} warn={if o.warned then 1 else 0} running={showSorted o.sys.running} zombie={showSorted o.sys.zombie}"
    | _, _, _, _, _, _, _, _, _ => "bad-op"
  | ["fmt", codes] =>
    match parseCodes codes with
    | some cs => formatExitcodes cs
    | none => "bad-op"
  | ["getex", snaps] =>
    match (snaps.splitOn ";").mapM parseCodes with
    | some ss =>
      let r := getExitcodesTerminatedWorker ss
      s!"{r.1} sleeps={r.2}"
    | none => "bad-op"
  | _ => "bad-op"

partial def loop (h : IO.FS.Stream) (out : IO.FS.Stream) : IO Unit := do
  let line ← h.getLine
  if line.isEmpty then return ()
  out.putStrLn (handle ((line.trimAscii.toString.splitOn " ").filter (· ≠ "")))
  loop h out

def main : IO Unit := do
  loop (← IO.getStdin) (← IO.getStdout)
