import LokyModel.Tracker
/-! line protocol driver for M3 (one output line per input line):

    `reset`        → `ready folder,file,semlock`         (new tracker, empty registry; table order)
    `lines <hex>`  → `lines <hex>,<hex>,...`             (how the byte stream is cut by successive `f.readline()`s)
    `line <hex>`   → `<events> #<keys>/<sum>`            (one `f.readline()` result, hex encoded, may be empty)
    `eof`          → `final folder[n=c,...] file[...] semlock[...]`   (registry when EOF is read)
    `sweep`        → `<events>` or `<events> aborted`    (the `finally:` block)

    events: `clean:<kind>:<name>` `warn:cleanup` `warn:leak:<kind>:<n>`
            `err:UnicodeDecodeError|ValueError|RuntimeError|KeyError|KeyboardInterrupt`; `-` when none.
    names: bytes `[A-Za-z0-9_./:!?-]` verbatim, others `%XX`, the empty name `()`.
    clean-up behaviour (the environment): a name ending in `!` makes the clean-up function raise an
    `Exception`, a name ending in `?` a bare `BaseException`; all others succeed. -/
open LokyModel.Tracker

def hexVal (c : Char) : Option Nat :=
  if '0' ≤ c ∧ c ≤ '9' then some (c.toNat - '0'.toNat)
  else if 'a' ≤ c ∧ c ≤ 'f' then some (c.toNat - 'a'.toNat + 10)
  else if 'A' ≤ c ∧ c ≤ 'F' then some (c.toNat - 'A'.toNat + 10)
  else none

def unhex : List Char → Option Bytes
  | [] => some []
  | a :: b :: r => do
    let x ← hexVal a
    let y ← hexVal b
    let t ← unhex r
    pure (UInt8.ofNat (16 * x + y) :: t)
  | _ => none

def hexDigit (n : Nat) : Char := "0123456789ABCDEF".toList.getD n '0'

def escByte (b : UInt8) : String :=
  let c := Char.ofNat b.toNat
  if c.isAlphanum || "_./:!?-".toList.contains c then c.toString
  else "%" ++ (hexDigit (b.toNat / 16)).toString ++ (hexDigit (b.toNat % 16)).toString

def escName (n : Name) : String :=
  if n.isEmpty then "()" else String.join (n.map escByte)

def showKind : Kind → String
  | .folder => "folder" | .file => "file" | .semlock => "semlock"

def showErr : Err → String
  | .decode => "UnicodeDecodeError" | .malformed => "ValueError" | .unknownType => "ValueError" | .unknownCmd => "RuntimeError"
  | .key => "KeyError" | .base => "KeyboardInterrupt"

def showEvent : Event → String
  | .clean k n => s!"clean:{showKind k}:{escName n}"
  | .warnCleanup => "warn:cleanup"
  | .leak k n => s!"warn:leak:{showKind k}:{n}"
  | .error e => s!"err:{showErr e}"

def showEvents (es : List Event) : String :=
  if es.isEmpty then "-" else " ".intercalate (es.map showEvent)

def theEnv : Env := fun _ n =>
  match n.getLast? with
  | some 33 => .exc
  | some 63 => .baseExc
  | _ => .ok

def digest (r : Registry) : String :=
  let ds := tableOrder.map r
  let keys := (ds.map List.length).foldl (· + ·) 0
  let sum := (ds.map (fun d => (d.map (·.2)).foldl (· + ·) (0 : Int))).foldl (· + ·) (0 : Int)
  s!"#{keys}/{sum}"

def showDict (d : Dict) : String :=
  ",".intercalate (d.map (fun (n, c) => s!"{escName n}={c}"))

def showReg (r : Registry) : String :=
  " ".intercalate (tableOrder.map (fun k => s!"{showKind k}[{showDict (r k)}]"))

def handleOp (reg : Registry) (ws : List String) : Registry × String :=
  match ws with
  | ["reset"] => (.init, "ready " ++ ",".intercalate (tableOrder.map showKind))
  | ["line"] =>
    let (r, es) := handleLine theEnv reg []
    (r, showEvents es ++ " " ++ digest r)
  | ["line", h] =>
    match unhex h.toList with
    | some bs =>
      let (r, es) := handleLine theEnv reg bs
      (r, showEvents es ++ " " ++ digest r)
    | none => (reg, "bad-op")
  | ["eof"] => (reg, "final " ++ showReg reg)
  | ["sweep"] =>
    let (es, ab) := sweep theEnv reg
    (reg, showEvents es ++ (if ab then " aborted" else ""))
  | ["lines"] => (reg, "lines")
  | ["lines", h] =>   -- `readLines` of a whole stream: what the successive `f.readline()` calls return
    match unhex h.toList with
    | some bs => (reg, "lines " ++ ",".intercalate ((readLines bs).map (fun l =>
        String.join (l.map (fun b => (hexDigit (b.toNat / 16)).toString ++ (hexDigit (b.toNat % 16)).toString)))))
    | none => (reg, "bad-op")
  | _ => (reg, "bad-op")

partial def loop (h : IO.FS.Stream) (out : IO.FS.Stream) (reg : Registry) : IO Unit := do
  let line ← h.getLine
  if line.isEmpty then return ()
  let (reg', s) := handleOp reg ((line.trimAscii.toString.splitOn " ").filter (· ≠ ""))
  out.putStrLn s
  loop h out reg'

def main : IO Unit := do
  loop (← IO.getStdin) (← IO.getStdout) Registry.init
