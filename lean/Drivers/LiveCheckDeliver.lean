import LokyModel.ExecLiveDeliverDef
/-! Random-walk validation of the delivery clause of C08 (`LokyModel/ExecLiveDeliverDef.lean`) on M1, static pools,
    no crash steps.

    lake env lean --run Drivers/LiveCheckDeliver.lean <runs> <seed>

The walker prefers steps that are not completions of task bodies: in mode 0 (two runs out of three) a body completes
only when nothing else is enabled, in mode 1 a body completion is also taken with probability 1/6 when other steps are
enabled.  In every state in which only body completions are enabled (`enabledNB s = []`) the promise `delivered s` is
evaluated; in every state the executable ingredients and the new one (`refillOk`) are evaluated.  Reported: states in
which only bodies can move (`onlyBodies`), split into `full` (`max_workers` bodies) and `fewer`; states in which `refillOk`
holds by its counting clause alone (`refillByCount`), and with equality and a free slot (`refillTight`).

Not a proof and not presented as one. -/
open LokyModel.Exec

def lcg (x : Nat) : Nat := (x * 6364136223846793005 + 1442695040888963407) % 18446744073709551616
def pick (r : Nat) (n : Nat) : Nat := (r / 65536) % (if n = 0 then 1 else n)

/-- static-pool configurations that saturate: 1–3 workers, up to 3 user threads with up to 10 operations each, mostly
    submissions (so that there are more tasks than workers and often more than the 2·max_workers+1 slots) -/
def genCfg (r0 : Nat) : Cfg × Nat := Id.run do
  let mut r := lcg r0
  let mw := 1 + pick r 3
  r := lcg r
  let nt := 1 + pick r 5
  let mut tasks : List TaskSpec := []
  for _ in [0:nt] do
    r := lcg r
    let a := match pick r 10 with | 0 => ArgKind.unpicklable | 1 => ArgKind.toolarge | _ => ArgKind.ok
    r := lcg r
    let b := if pick r 4 == 0 then BodyKind.raises else BodyKind.ok
    tasks := tasks ++ [{ args := a, body := b }]
  r := lcg r
  let nu := 1 + pick r 3
  let mut scripts : List (List UOp) := []
  for u in [0:nu] do
    let mut sc : List UOp := if u == 0 then [.create] else []
    r := lcg r
    let len := 1 + pick r 10
    for _ in [0:len] do
      r := lcg r
      let k := pick r 10
      r := lcg r
      let t := pick r nt
      sc := sc ++ [if k < 7 then UOp.submit t else if k < 8 then UOp.cancel t else if k < 9 then UOp.idle else UOp.submit t]
    r := lcg r
    let e := pick r 10
    sc := sc ++ (if e < 3 then [UOp.shutdown true false] else if e < 4 then [UOp.shutdown false false]
                 else if e < 5 && u == 0 then [UOp.drop] else if e < 6 then [UOp.pyexit] else [])
    r := lcg r
    if pick r 4 == 0 then
      r := lcg r
      sc := sc ++ [UOp.submit (pick r nt)]
    scripts := scripts ++ [sc]
  r := lcg r
  let hasInit := pick r 3 == 0
  ({ maxWorkers := mw, timeout := false, tasks := tasks, scripts := scripts, hasInit := hasInit }, r)

def showAV (av : Actor × Variant) : String :=
  let a := match av.1 with | .U k => s!"U{k}" | .M => "M" | .F => "F" | .W p => s!"W{p}"
  let v := match av.2 with | .ok => "ok" | .timeout => "timeout" | .fail => "fail" | .crash => "crash"
  s!"{a}:{v}"

def failing (s : St) : List String :=
  (if slotOk s then [] else ["slotOk"]) ++ (if holderOk s then [] else ["holderOk"]) ++
  (if staticOk s then [] else ["staticOk"]) ++ (if wakeOk' s then [] else ["wakeOk'"]) ++
  (if consOk s then [] else ["consOk"]) ++ (if joinOk s then [] else ["joinOk"]) ++
  (if refillOk s then [] else ["refillOk"])

def main (args : List String) : IO UInt32 := do
  let runs := (args.getD 0 "200").toNat!
  let seed := (args.getD 1 "0").toNat!
  let mut r := lcg (seed * 7919 + 17)
  let mut states := 0
  let mut quietNC := 0
  let mut quietNB := 0       -- states with `enabledNB = []` and a body running (not plainly quiescent)
  let mut full := 0          -- … of which `max_workers` bodies run
  let mut fewer := 0         -- … of which fewer bodies run (then every unresolved future must be running)
  let mut fewerUnres := 0    -- … of which some future is unresolved
  let mut satur := 0         -- runs whose configuration submits more tasks than there are workers
  let mut refillUsed := 0     -- states in which `refillOk` holds only by its last clause (`cqSem ≤ nPost`)
  let mut refillTight := 0    -- … with equality and a free slot
  let mut bad := 0
  for i in [0:runs] do
    let (cfg, r') := genCfg r
    r := r'
    if !cfg.staticPool then
      IO.println s!"generator produced a non-static configuration at run {i}"
      return 2
    let nsub := (cfg.scripts.map (fun sc => (sc.filter (fun op => match op with | .submit _ => true | _ => false)).length)).foldl (· + ·) 0
    if nsub > cfg.maxWorkers then satur := satur + 1
    r := lcg r
    let mode := pick r 3
    let mut s := init cfg
    let mut trace : List String := []
    let mut fin := false
    for _ in [0:1500] do
      if fin then break
      states := states + 1
      let fl := failing s
      match s.mpc with
      | .wait _ =>
        if !s.workIds.isEmpty && !wakeNB s then
          refillUsed := refillUsed + 1
          if s.cqSem == nPost s && s.cqSem > 0 then refillTight := refillTight + 1
      | _ => pure ()
      if !fl.isEmpty then
        IO.println s!"INVARIANT {fl} fails at run {i} after {trace.length} steps; mpc={repr s.mpc} fpc={repr s.fpc}"
        IO.println s!"  cfg={repr cfg}"
        IO.println s!"  trace={trace}"
        bad := bad + 1
        fin := true
      else
        let en := enabledNC s
        let nb := enabledNB s
        if nb.isEmpty then
          if en.isEmpty then quietNC := quietNC + 1
          else
            quietNB := quietNB + 1
            if nBodies s == cfg.maxWorkers then full := full + 1
            else
              fewer := fewer + 1
              if !(s.futs.all Fut.done) then fewerUnres := fewerUnres + 1
          if !delivered s then
            IO.println s!"NOT-DELIVERED at run {i} after {trace.length} steps; bodies={nBodies s} maxWorkers={cfg.maxWorkers} mpc={repr s.mpc} fpc={repr s.fpc} futs={repr s.futs} workIds={s.workIds} cqSem={s.cqSem}"
            IO.println s!"  upc={(List.range cfg.scripts.length).map (fun k => repr (s.upc k))}"
            IO.println s!"  w={s.allPids.map (fun p => repr (s.w p))}"
            IO.println s!"  cfg={repr cfg}"
            IO.println s!"  trace={trace}"
            bad := bad + 1
            fin := true
        if !fin then
          if en.isEmpty then fin := true
          else
            r := lcg r
            let useAll := nb.isEmpty || (mode == 1 && pick r 6 == 0)
            r := lcg r
            let pool := if useAll then en else nb
            let av := pool.getD (pick r pool.length) (.M, .ok)
            trace := trace ++ [showAV av]
            match step s av.1 av.2 with
            | some s' => s := s'
            | none => fin := true
    if bad ≥ 3 then break
  IO.println s!"runs={runs} saturating={satur} states={states} quiescent={quietNC} onlyBodies={quietNB} full={full} fewer={fewer} fewerWithUnresolved={fewerUnres} refillByCount={refillUsed} refillTight={refillTight} bad={bad}"
  return (if bad == 0 then 0 else 1)
