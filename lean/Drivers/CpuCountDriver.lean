import LokyModel.CpuCount
/-! line protocol driver for M7:
    `cpu <os|none> <aff|none> <v2|v1|absent> <q|max> <p> <env|absent|bad> <phys 0|1> <cache empty|nf|n> <probe raises|n>`
    → `<value|ValueError> <warned 0|1> <cache>` -/
open LokyModel.CpuCount

def optNat (s : String) : Option (Option Nat) :=
  if s == "none" then some none else s.toNat?.map some

def showCache : Cache → String
  | .empty => "empty" | .notFound => "nf" | .found n => toString n

def handle (ws : List String) : String :=
  match ws with
  | ["cpu", os, aff, cg, q, p, env, phys, cache, probe] =>
    match optNat os, optNat aff, p.toInt? with
    | some os, some aff, some p =>
      let q? : Option Quota := if q == "max" then some .max else q.toInt?.map .val
      let env? : Option EnvVal :=
        if env == "absent" then some .absent else if env == "bad" then some .bad else env.toInt?.map .int
      let cache? : Option Cache :=
        if cache == "empty" then some .empty else if cache == "nf" then some .notFound else cache.toInt?.map .found
      let probe? : Option Probe := if probe == "raises" then some .raises else probe.toInt?.map .ok
      match q?, env?, cache?, probe? with
      | some q, some env, some cache, some probe =>
        let cg? : Option Cgroup :=
          if cg == "v2" then some (.v2 q p) else if cg == "v1" then some (.v1 q p)
          else if cg == "absent" then some .absent else none
        match cg? with
        | some cg =>
          let (r, c') := cpuCount ⟨os, aff, cg, env, phys == "1", probe⟩ cache
          match r with
          | .value v w => s!"{v} {if w then 1 else 0} {showCache c'}"
          | .valueError => s!"ValueError 0 {showCache c'}"
        | none => "bad-op"
      | _, _, _, _ => "bad-op"
    | _, _, _ => "bad-op"
  | _ => "bad-op"

partial def loop (h : IO.FS.Stream) (out : IO.FS.Stream) : IO Unit := do
  let line ← h.getLine
  if line.isEmpty then return ()
  out.putStrLn (handle ((line.trimAscii.toString.splitOn " ").filter (· ≠ "")))
  loop h out

def main : IO Unit := do
  loop (← IO.getStdin) (← IO.getStdout)
