import LokyModel.Wrapper
/-! line protocol driver for M6 `Wrapper`:

    stage <n> <callable 0|1> <calltok> <track 0|1> <attrs> <layers> <reads>

* `<attrs>`  `-` or `/`-separated `name=value` (the bare object's attributes; value a number)
* `<layers>` `-` or `,`-separated, innermost first: `n0|n1` = `wrap_non_picklable_objects(x, keep)`,
             `k<keep><definesCall>` = instance made through `wrap_non_picklable_objects(cls, keep)`
* `<reads>`  `-` or `,`-separated names to read
* names: `_obj`, `_keep_wrapper`, `c:<i>` (type-level), `u:<i>` (any other)

→ `layers=<outer→inner kind:keep/…|-> callable=<0|1> call=<tok|TypeError> gen=<n|-> reads=<r,…|->`
  after `n` round trips, with `rt` = "same behaviour, gen+1". -/
open LokyModel.Wrapper

def parseName (s : String) : Option Name :=
  if s == "_obj" then some .obj
  else if s == "_keep_wrapper" then some .keepWrapper
  else match s.splitOn ":" with
    | ["c", n] => n.toNat?.map .cls
    | ["u", n] => n.toNat?.map .user
    | _ => none

def parseList {α : Type} (sep : String) (f : String → Option α) (s : String) : Option (List α) :=
  if s == "-" then some [] else (s.splitOn sep).mapM f

def parseAttr (s : String) : Option (Name × Nat) :=
  match s.splitOn "=" with
  | [n, v] => do some ((← parseName n), (← v.toNat?))
  | _ => none

inductive Layer where
  | np (keep : Bool)
  | cls (keep : Bool) (dc : Bool)

def parseLayer (s : String) : Option Layer :=
  if s == "n0" then some (.np false) else if s == "n1" then some (.np true)
  else if s == "k00" then some (.cls false false) else if s == "k01" then some (.cls false true)
  else if s == "k10" then some (.cls true false) else if s == "k11" then some (.cls true true)
  else none

def applyLayer (v : Val) : Layer → Val
  | .np keep => wrapObj v keep
  | .cls keep dc => wrapClass (fun (_ : Unit) => v) dc keep ()

def showKind : WKind → String
  | .object => "object" | .callable => "callable" | .classInst b => if b then "classInstC" else "classInst"

def b2s (b : Bool) : String := if b then "1" else "0"

def showLayers : Val → List String
  | .raw _ => []
  | .wrap k keep v => s!"{showKind k}:{b2s keep}" :: showLayers v

def showAttr : Option Attr → String
  | none => "AE"
  | some (.value v) => s!"v{v}"
  | some (.inner _) => "inner"
  | some (.flag b) => s!"flag{b2s b}"
  | some (.classAttr n) => s!"cls{n}"

def dash (xs : List String) (sep : String) : String := if xs.isEmpty then "-" else sep.intercalate xs

def handle (ws : List String) : String :=
  match ws with
  | ["stage", n, c, tok, track, attrs, layers, reads] =>
    match n.toNat?, tok.toNat?, parseList "/" parseAttr attrs, parseList "," parseLayer layers,
          parseList "," parseName reads with
    | some n, some tok, some attrs, some layers, some reads =>
      if (c != "0" && c != "1") || (track != "0" && track != "1") then "bad-op" else
      let o : Obj := ⟨c == "1", fun a => (attrs.find? (·.1 == a)).map (·.2), fun _ => tok, 0⟩
      let v0 := layers.foldl applyLayer (.raw o)
      let rt : Obj → Obj := fun o => { o with gen := o.gen + 1 }
      let v := trips rt n v0
      let call := match callV v 0 with | some r => toString r | none => "TypeError"
      let gen := if track == "1" then toString (core v).gen else "-"
      let rs := reads.map (fun a => showAttr (getattr v a))
      s!"layers={dash (showLayers v) "/"} callable={b2s (isCallable v)} call={call} gen={gen} reads={dash rs ","}"
    | _, _, _, _, _ => "bad-op"
  | _ => "bad-op"

partial def loop (h : IO.FS.Stream) (out : IO.FS.Stream) : IO Unit := do
  let line ← h.getLine
  if line.isEmpty then return ()
  out.putStrLn (handle ((line.trimAscii.toString.splitOn " ").filter (· ≠ "")))
  loop h out

def main : IO Unit := do
  loop (← IO.getStdin) (← IO.getStdout)
