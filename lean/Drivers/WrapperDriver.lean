import LokyModel.Wrapper
/-! line protocol driver for M6 `Wrapper`:

    stage <n> <callable 0|1> <calltok> <track 0|1> <attrs> <layers> <reads>

* `<attrs>`  `-` or `/`-separated `name=value` (the bare object's attributes; value a number)
* `<layers>` `-` or `,`-separated, innermost first: `n0|n1` = `wrap_non_picklable_objects(x, keep)`,
             `k<keep><definesCall>` = instance made through `wrap_non_picklable_objects(cls, keep)`
* `<reads>`  `-` or `,`-separated names to read
* names: `_obj`, `_keep_wrapper`, `c:<i>` (type-level), `u:<i>` (any other)

→ `layers=<outer→inner kind:keep/…|-> callable=<0|1> call=<tok|TypeError> gen=<n|-> reads=<r,…|->`
  after `n` round trips, with `rt` = "same behaviour, gen+1".

Histories on ONE wrapper object (a session; `hnew` starts a new one, the other `h…` lines need one):

    hnew <callable> <calltok> <track> <attrs> <layers> <reads>   build the live wrapper; observe it
    hmut <callable> <calltok> <attrs>          the wrapped object of the live wrapper is now in this state; observe the live wrapper
    hpickle live|<j>                           pickle the live wrapper / the j-th received copy, receive the copy; observe the new copy
    hobs live|<j>                              observe the live wrapper / the j-th received copy
    hcmut <j> <callable> <calltok> <attrs>     the object inside the j-th received copy is now in this state; observe that copy

each answered by one observation line (same format), computed by `hstep` of the model. -/
open LokyModel.Wrapper

def parseName (s : String) : Option Name :=
  if s == "_obj" then some .obj
  else if s == "_keep_wrapper" then some .keepWrapper
  else match s.splitOn ":" with
    | ["c", n] => n.toNat?.map .cls
    | ["u", n] => n.toNat?.map .user
    | _ => none

def parseList {α : Type} (sep : String) (f : String → Option α) (s : String) : Option (List α) :=
  if s == "-" then some [] else (s.splitOn sep).mapM f

def parseAttr (s : String) : Option (Name × Nat) :=
  match s.splitOn "=" with
  | [n, v] => do some ((← parseName n), (← v.toNat?))
  | _ => none

inductive Layer where
  | np (keep : Bool)
  | cls (keep : Bool) (dc : Bool)

def parseLayer (s : String) : Option Layer :=
  if s == "n0" then some (.np false) else if s == "n1" then some (.np true)
  else if s == "k00" then some (.cls false false) else if s == "k01" then some (.cls false true)
  else if s == "k10" then some (.cls true false) else if s == "k11" then some (.cls true true)
  else none

def applyLayer (v : Val) : Layer → Val
  | .np keep => wrapObj v keep
  | .cls keep dc => wrapClass (fun (_ : Unit) => v) dc keep ()

def showKind : WKind → String
  | .object => "object" | .callable => "callable" | .classInst b => if b then "classInstC" else "classInst"

def b2s (b : Bool) : String := if b then "1" else "0"

def showLayers : Val → List String
  | .raw _ => []
  | .wrap k keep v => s!"{showKind k}:{b2s keep}" :: showLayers v

def showAttr : Option Attr → String
  | none => "AE"
  | some (.value v) => s!"v{v}"
  | some (.inner _) => "inner"
  | some (.flag b) => s!"flag{b2s b}"
  | some (.classAttr n) => s!"cls{n}"

def dash (xs : List String) (sep : String) : String := if xs.isEmpty then "-" else sep.intercalate xs

def handle (ws : List String) : String :=
  match ws with
  | ["stage", n, c, tok, track, attrs, layers, reads] =>
    match n.toNat?, tok.toNat?, parseList "/" parseAttr attrs, parseList "," parseLayer layers,
          parseList "," parseName reads with
    | some n, some tok, some attrs, some layers, some reads =>
      if (c != "0" && c != "1") || (track != "0" && track != "1") then "bad-op" else
      let o : Obj := ⟨c == "1", fun a => (attrs.find? (·.1 == a)).map (·.2), fun _ => tok, 0⟩
      let v0 := layers.foldl applyLayer (.raw o)
      let rt : Obj → Obj := fun o => { o with gen := o.gen + 1 }
      let v := trips rt n v0
      let call := match callV v 0 with | some r => toString r | none => "TypeError"
      let gen := if track == "1" then toString (core v).gen else "-"
      let rs := reads.map (fun a => showAttr (getattr v a))
      s!"layers={dash (showLayers v) "/"} callable={b2s (isCallable v)} call={call} gen={gen} reads={dash rs ","}"
    | _, _, _, _, _ => "bad-op"
  | _ => "bad-op"

/-- session of a history: the model's `Session`, whether `gen` is tracked, the names to read -/
structure HState where
  sess : Session
  track : Bool
  reads : List Name

def rtGen : Obj → Obj := fun o => { o with gen := o.gen + 1 }

def observeVal (st : HState) (v : Val) : String :=
  let call := match callV v 0 with | some r => toString r | none => "TypeError"
  let gen := if st.track then toString (core v).gen else "-"
  let rs := st.reads.map (fun a => showAttr (getattr v a))
  s!"layers={dash (showLayers v) "/"} callable={b2s (isCallable v)} call={call} gen={gen} reads={dash rs ","}"

/-- the new state of an object: callability, call token and attributes replaced, the ghost `gen` kept -/
def setState (c : Bool) (tok : Nat) (attrs : List (Name × Nat)) : Obj → Obj :=
  fun o => { o with callable := c, attr := fun a => (attrs.find? (·.1 == a)).map (·.2), call := fun _ => tok }

def parseSrc (s : String) : Option (Option Nat) :=
  if s == "live" then some none else s.toNat?.map some

def parseBit (s : String) : Option Bool :=
  if s == "0" then some false else if s == "1" then some true else none

/-- one history line: new session state and the answer -/
def handleH (st? : Option HState) (ws : List String) : Option HState × String :=
  match ws with
  | ["hnew", c, tok, track, attrs, layers, reads] =>
    match parseBit c, tok.toNat?, parseBit track, parseList "/" parseAttr attrs, parseList "," parseLayer layers,
          parseList "," parseName reads with
    | some c, some tok, some track, some attrs, some layers, some reads =>
      let o : Obj := ⟨c, fun a => (attrs.find? (·.1 == a)).map (·.2), fun _ => tok, 0⟩
      let st : HState := ⟨⟨layers.foldl applyLayer (.raw o), []⟩, track, reads⟩
      (some st, observeVal st st.sess.live)
    | _, _, _, _, _, _ => (st?, "bad-op")
  | ["hmut", c, tok, attrs] =>
    match st?, parseBit c, tok.toNat?, parseList "/" parseAttr attrs with
    | some st, some c, some tok, some attrs =>
      let st := { st with sess := hstep rtGen st.sess (.mutate (setState c tok attrs)) }
      (some st, observeVal st st.sess.live)
    | _, _, _, _ => (st?, "bad-op")
  | ["hpickle", src] =>
    match st?, parseSrc src with
    | some st, some src =>
      let s' := hstep rtGen st.sess (.pickle src)
      if s'.got.length == st.sess.got.length + 1 then
        let st := { st with sess := s' }
        match s'.got.getLast? with
        | some c => (some st, observeVal st c)
        | none => (st?, "bad-op")
      else (st?, "bad-op")
    | _, _ => (st?, "bad-op")
  | ["hobs", src] =>
    match st?, parseSrc src with
    | some st, some src =>
      match srcVal st.sess src with
      | some v => (st?, observeVal st v)
      | none => (st?, "bad-op")
    | _, _ => (st?, "bad-op")
  | ["hcmut", j, c, tok, attrs] =>
    match st?, j.toNat?, parseBit c, tok.toNat?, parseList "/" parseAttr attrs with
    | some st, some j, some c, some tok, some attrs =>
      let st := { st with sess := hstep rtGen st.sess (.mutateCopy j (setState c tok attrs)) }
      match st.sess.got[j]? with
      | some v => (some st, observeVal st v)
      | none => (st?, "bad-op")
    | _, _, _, _, _ => (st?, "bad-op")
  | _ => (st?, handle ws)

partial def loop (h : IO.FS.Stream) (out : IO.FS.Stream) (st? : Option HState) : IO Unit := do
  let line ← h.getLine
  if line.isEmpty then return ()
  let (st', ans) := handleH st? ((line.trimAscii.toString.splitOn " ").filter (· ≠ ""))
  out.putStrLn ans
  loop h out st'

def main : IO Unit := do
  loop (← IO.getStdin) (← IO.getStdout) none
