import LokyModel.Resize
/-! driver for M1Z (`_resize` as a program-counter machine), line protocol, one line in → exactly one line out:
    `begin <new>` → `ok`   (the pc is reset to the entry)
    `env pending=<n> procs=<pid:0|1,...|-> broken=<0|1> shutdown=<0|1> mw=<n> started=<0|1> feeder=<0|1> nextpid=<n>
         [last=ok|timeout] [res=0|1]`
        → the label of the operation the thread announces next (`acquire(execlock,B)`, …, `acquire(cq.sem,B,T)`, …,
        `return`); the pc advances.  `last` is the variant with which the thread's PREVIOUS operation ended (absent:
        ok); `res` is the result of the PREVIOUS operation when that was an `alive(p)` (absent: 1; read only then).
        Of `procs` only the pids and their number are read.
    anything else (also an `env` before the first `begin`, a missing / duplicated / unknown / malformed field)
        → `bad-op` -/
open LokyModel.Resize

def parseBool : String → Option Bool
  | "0" => some false
  | "1" => some true
  | _ => none

def parseProcs (s : String) : Option (List (Nat × Bool)) :=
  if s == "-" then some []
  else (s.splitOn ",").mapM fun item =>
    match item.splitOn ":" with
    | [p, a] =>
      match p.toNat?, parseBool a with
      | some n, some b => some (n, b)
      | _, _ => none
    | _ => none

def parseEnv (ws : List String) : Option Env := do
  let kvs ← ws.mapM fun w =>
    match w.splitOn "=" with
    | [k, v] => some (k, v)
    | _ => none
  let keys := kvs.map (·.1)
  let known := ["pending", "procs", "broken", "shutdown", "mw", "started", "feeder", "nextpid", "last", "res"]
  if !(keys.all known.contains) || keys.eraseDups.length != keys.length then none
  let get (k : String) : Option String := (kvs.find? (fun kv => kv.1 == k)).map (·.2)
  let pending ← (← get "pending").toNat?
  let procs ← parseProcs (← get "procs")
  let broken ← parseBool (← get "broken")
  let shutdown ← parseBool (← get "shutdown")
  let mw ← (← get "mw").toNat?
  let started ← parseBool (← get "started")
  let feeder ← parseBool (← get "feeder")
  let nextPid ← (← get "nextpid").toNat?
  let lastTimeout ← match get "last" with
    | none => some false
    | some "ok" => some false
    | some "timeout" => some true
    | some _ => none
  let lastAlive ← match get "res" with
    | none => some true
    | some v => parseBool v
  return { pending, procs, broken, shutdown, mw, started, feeder, nextPid, lastTimeout, lastAlive }

/-- `none`: no call in progress -/
abbrev DState := Option (Nat × Pc)

def handle (s : DState) (ws : List String) : String × DState :=
  match ws with
  | ["begin", n] =>
    match n.toNat? with
    | some new => ("ok", some (new, .entry))
    | none => ("bad-op", s)
  | "env" :: rest =>
    match s, parseEnv rest with
    | some (new, pc), some e =>
      let r := next new pc e
      (r.1.render, some (new, r.2))
    | _, _ => ("bad-op", s)
  | _ => ("bad-op", s)

partial def loop (h : IO.FS.Stream) (out : IO.FS.Stream) (s : DState) : IO Unit := do
  let line ← h.getLine
  if line.isEmpty then return ()
  let (ans, s') := handle s ((line.trimAscii.toString.splitOn " ").filter (· ≠ ""))
  out.putStrLn ans
  out.flush
  loop h out s'

def main : IO Unit := do loop (← IO.getStdin) (← IO.getStdout) none
