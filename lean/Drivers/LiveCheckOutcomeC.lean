import LokyModel.ExecOutcomeCDef
/-! Random-walk evaluation of the crash-aware outcome invariant `outOkCB` and of the outcome statements of property C02
    (`ownOutcomesC`, `poolErrOk`: `LokyModel/ExecOutcomeCDef.lean`) on M1.

    lake env lean --run Drivers/LiveCheckOutcomeC.lean <runs> <seed> [any] [timeouts]

Static pools, crash steps of workers at lock-free points (the scope of `ReachableLF`); with `any`: crash steps of workers
at ANY point (the invariant is a safety property and does not depend on where a worker dies; quiescent states may then be
bad ones, findings D5 / D7, and are not reported); with `timeouts`: idle time-outs, memory-leak exits (dynamic pools).

Not a proof and not presented as one: a cheap way to find out that a candidate invariant is wrong before trying to
prove it, and a regression test of the definitions (the check's quick tier runs it with a small budget). -/
open LokyModel.Exec

def lcg (x : Nat) : Nat := (x * 6364136223846793005 + 1442695040888963407) % 18446744073709551616
def pick (r : Nat) (n : Nat) : Nat := (r / 65536) % (if n = 0 then 1 else n)

def genCfg (r0 : Nat) (timeouts : Bool) : Cfg × Nat := Id.run do
  let mut r := lcg r0
  let mw := 1 + pick r 3
  r := lcg r
  let nt := 1 + pick r 5
  let mut tasks : List TaskSpec := []
  for _ in [0:nt] do
    r := lcg r
    let a := match pick r 8 with | 0 => ArgKind.unpicklable | 1 => ArgKind.toolarge | _ => ArgKind.ok
    r := lcg r
    let b := if pick r 4 == 0 then BodyKind.raises else BodyKind.ok
    tasks := tasks ++ [{ args := a, body := b }]
  r := lcg r
  let nu := 1 + pick r 3
  let mut scripts : List (List UOp) := []
  for u in [0:nu] do
    let mut sc : List UOp := if u == 0 then [.create] else []
    r := lcg r
    let len := 1 + pick r 6
    for _ in [0:len] do
      r := lcg r
      let k := pick r 10
      r := lcg r
      let t := pick r nt
      sc := sc ++ [if k < 5 then UOp.submit t else if k < 7 then UOp.cancel t else if k < 9 then UOp.idle else UOp.submit t]
    r := lcg r
    let e := pick r 10
    sc := sc ++ (if e < 3 then [UOp.shutdown true false] else if e < 4 then [UOp.shutdown false false]
                 else if e < 5 && u == 0 then [UOp.drop] else if e < 6 then [UOp.pyexit] else [])
    r := lcg r
    if pick r 4 == 0 then
      r := lcg r
      sc := sc ++ [UOp.submit (pick r nt)]
    scripts := scripts ++ [sc]
  r := lcg r
  let hasInit := pick r 3 == 0
  r := lcg r
  let leak := if timeouts && pick r 2 == 0 then [pick (lcg r) nt] else []
  ({ maxWorkers := mw, timeout := timeouts, tasks := tasks, scripts := scripts, hasInit := hasInit, leakAfter := leak }, r)

def showAV (av : Actor × Variant) : String :=
  let a := match av.1 with | .U k => s!"U{k}" | .M => "M" | .F => "F" | .W p => s!"W{p}"
  let v := match av.2 with | .ok => "ok" | .timeout => "timeout" | .fail => "fail" | .crash => "crash"
  s!"{a}:{v}"

def failing (s : St) : List String :=
  (if outOkCB s then [] else ["outOkCB"]) ++ (if ownOutcomesC s then [] else ["ownOutcomesC"]) ++
  (if poolErrOk s then [] else ["poolErrOk"]) ++
  -- while the pool is not flagged broken the crash-free invariant holds as it is
  (if s.broken.isSome || outOkB s then [] else ["outOkB-unbroken"]) ++
  (if s.futs.all (fun f => f != .excBroken && f != .excShutdown) then [] else ["excBroken/excShutdown"])

/-- enabled steps, with crashes of workers that hold no lock -/
def enabledSC (anyPt : Bool) (s : St) : List (Actor × Variant) :=
  enabledNC s ++ (s.allPids.filter fun p => (anyPt || lockFree (s.w p)) && (step s (.W p) .crash).isSome).map fun p => (Actor.W p, Variant.crash)

def main (args : List String) : IO UInt32 := do
  let runs := (args.getD 0 "200").toNat!
  let seed := (args.getD 1 "0").toNat!
  let anyPt := args.contains "any"
  let timeouts := args.contains "timeouts"
  let mut nVal := 0
  let mut nExc := 0
  let mut nFeed := 0
  let mut nCanc := 0
  let mut nTerm := 0
  let mut nUndone := 0
  let mut nBrokenEnd := 0
  let mut nMixed := 0
  let mut crashes := 0
  let mut r := lcg (seed * 7919 + 17)
  let mut states := 0
  let mut stuck := 0
  let mut bad := 0
  for i in [0:runs] do
    let (cfg, r') := genCfg r timeouts
    r := r'
    if !timeouts && !cfg.staticPool then
      IO.println s!"generator produced a non-static configuration at run {i}"
      return 2
    let mut s := init cfg
    let mut trace : List String := []
    let mut fin := false
    for _ in [0:600] do
      if fin then break
      states := states + 1
      let fl := failing s
      if !fl.isEmpty then
        IO.println s!"INVARIANT {fl} fails at run {i} after {trace.length} steps; mpc={repr s.mpc} fpc={repr s.fpc}"
        IO.println s!"  cfg={repr cfg}"
        IO.println s!"  trace={trace}"
        bad := bad + 1
        fin := true
      else
        let en := enabledNC s
        if en.isEmpty then
          stuck := stuck + 1
          nVal := nVal + s.futs.count .value
          nExc := nExc + s.futs.count .excWorker
          nFeed := nFeed + s.futs.count .excFeeder
          nCanc := nCanc + s.futs.count .cancelled
          nTerm := nTerm + s.futs.count .excTerminated
          nUndone := nUndone + (s.futs.filter (fun f => !f.done)).length
          if s.broken.isSome then nBrokenEnd := nBrokenEnd + 1
          if s.futs.contains .excTerminated && (s.futs.contains .value || s.futs.contains .excWorker) then nMixed := nMixed + 1
          if !good s && !timeouts && !anyPt then
            IO.println s!"STUCK-BAD at run {i} after {trace.length} steps; mpc={repr s.mpc} fpc={repr s.fpc} futs={repr s.futs}"
            IO.println s!"  cfg={repr cfg}"
            IO.println s!"  trace={trace}"
            bad := bad + 1
          fin := true
        else
          r := lcg r
          let cr := (enabledSC anyPt s).filter fun av => av.2 == Variant.crash
          r := lcg r
          let av := if !cr.isEmpty && pick r 60 == 0 then cr.getD (pick (lcg r) cr.length) (.M, .ok)
                    else en.getD (pick r en.length) (.M, .ok)
          if av.2 == Variant.crash then crashes := crashes + 1
          trace := trace ++ [showAV av]
          match step s av.1 av.2 with
          | some s' => s := s'
          | none => fin := true
    if bad ≥ 3 then break
  IO.println s!"runs={runs} states={states} quiescent={stuck} bad={bad} crashSteps={crashes} any={anyPt} timeouts={timeouts}"
  IO.println s!"quiescent states: flagged broken={nBrokenEnd}, with a pool error next to a value/task exception={nMixed}"
  IO.println s!"futures in quiescent states: value={nVal} excWorker={nExc} excFeeder={nFeed} cancelled={nCanc} excTerminated={nTerm} unresolved={nUndone}"
  return (if bad == 0 then 0 else 1)
