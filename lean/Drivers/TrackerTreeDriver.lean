import LokyModel.TrackerTree
import LokyModel.Ledger
/-! line protocol driver for M4 `TrackerTree` (C12, C13) and the C20 ledger.

One abstract step per input line, one line of predicted observations per output line.

```
init
start
spawn <p> <c> <loky|loky_init_main> <o:o2,o:o2,...|->     p starts c, passing copies of p's object groups
info <p>
op <p> <register|unregister|maybe_unlink> <file>
opsig <p> <op> <file> <int|term|kill>                      signal sent to p's tracker right after the operation
mkfile <p> <file>
sig <k> <int|term|kill>                                    signal to tracker incarnation k
exit <p> <normal|exc|int|osexit|kill|term>
new <p> <o> <nsems>                                        a primitive made of nsems SemLocks (object group o)
del <p> <o>                                                group o collected (owner: finalizers; copy: nothing)
killnew <p>                                                SIGKILL between sem_open and REGISTER
killfin <p> <o>                                            SIGKILL inside the finalizer of the (single-SemLock) group o:
                                                           after `sem_unlink`, before UNREGISTER  (= killfin <p> <o> 1)
killfin <p> <o> <k>                                        SIGKILL of p while it collects group o, after k clean-up primitives
                                                           (sem_unlink / UNREGISTER, 2 per SemLock) completed; a group of
                                                           copies runs no primitive: the copies are dropped, then p dies
killexit <p> <k>                                           p leaves normally and is SIGKILLed inside its exit-time finalizers
                                                           after k clean-up primitives
spawn <p> <c> <loky|loky_init_main> <pairs> <file>         as spawn; c re-imports the main module, which registers
                                                           <file> at import time (a tracked operation of c)
spawn <p> <c> loky_init_main <pairs> L<o>                  ... which creates a Lock (group o of c) at import time
op / opsig ... <main|thread|pool>                          optional last word: the thread of p that does the operation
                                                           (main thread, a fresh thread, a worker thread of a thread pool)
pop <p> <op> <f1,f2,...>                                   k threads of p do the operation on k files at the same time
pnew <p> <o1,o2,...> <nsems>                               k threads of p create one primitive each at the same time
end
ledger <clean|kill|broken|idle|dropped|unused|resized> <n> <m> <l0>   (m: new size / self-inflicted deaths; l0: lingering before)
```
After every step the trackers do what they do on their own (finish start-up, see EOF when the writer set is
empty, sweep): the real scenario waits for exactly that before it observes.
Output: `trk=<k|-> child=<k|-> warn=<n> alive=<ks> writers=<k:p+p;...> files=<fs> sems=<p:n,...> leaks=<S<n>|F<n>,...>`.
-/
open LokyModel.TrackerTree

structure D where
  s : State := init
  files : List (Nat × Name) := []      -- harness file id ↦ model name
  groups : List (Nat × Nat) := []      -- object group ↦ number of SemLocks
  bad : Bool := false

def D.step (d : D) (e : Ev) : D :=
  match LokyModel.TrackerTree.step d.s e with
  | some s' => { d with s := s' }
  | none => { d with bad := true }

def D.steps (d : D) (es : List Ev) : D := es.foldl D.step d

/-- actions of threads: the thread is carried by the history, `step` does not look at it -/
def D.stepsT (d : D) (acts : List TAct) : D := acts.foldl (fun d a => d.step a.ev) d

/-- trackers finish their start-up and sweep when their pipe has no writer left -/
def settleOnce (s : State) : State :=
  (List.range s.nTrk).foldl (fun s t =>
    let s := match step s (.boot t) with | some s' => s' | none => s
    let s := match step s (.boot t) with | some s' => s' | none => s
    match step s (.eof t) with | some s' => s' | none => s) s

def D.settle (d : D) : D := { d with s := settleOnce d.s }

def fileName (d : D) (f : Nat) : Option Name := (d.files.find? (·.1 == f)).map (·.2)
def groupSize (d : D) (o : Nat) : Nat := ((d.groups.find? (·.1 == o)).map (·.2)).getD 0
def oid (o i : Nat) : Oid := o * 8 + i

def joinWith (sep : String) (xs : List String) : String := sep.intercalate xs

def showOpt : Option Nat → String
  | some k => toString k
  | none => "-"

def aliveTrks (s : State) : List Nat := (List.range s.nTrk).filter (fun t => (s.trks t).alive)

def insertSorted (x : Nat) : List Nat → List Nat
  | [] => [x]
  | y :: ys => if x ≤ y then x :: y :: ys else y :: insertSorted x ys

def sortNat (xs : List Nat) : List Nat := xs.foldl (fun acc x => insertSorted x acc) []

def observe (d : D) (trk child : Option Nat) (warn : Nat) : String :=
  let s := d.s
  let al := aliveTrks s
  let ws := al.map (fun t => s!"{t}:" ++ joinWith "+" ((sortNat (s.trks t).writers).map toString))
  let fs := (d.files.filter (fun fn => s.ns fn.2)).map (·.1)
  let owners := (List.range s.nObj).filter (fun o => (s.objs o).ph.busy && s.ns (s.objs o).name)
  let procs := sortNat ((owners.map (fun o => (s.objs o).proc)).eraseDups)
  let sems := procs.map (fun p => s!"{p}:{(owners.filter (fun o => (s.objs o).proc == p)).length}")
  let leaks := (List.range s.nTrk).foldl (fun acc t =>
      let tr := s.trks t
      acc ++ (if tr.leakedSem > 0 then [s!"S{tr.leakedSem}"] else [])
          ++ (if tr.leakedFile > 0 then [s!"F{tr.leakedFile}"] else [])) []
  (if d.bad then "bad-step " else "") ++
  s!"trk={showOpt trk} child={showOpt child} warn={warn} alive={joinWith "," (al.map toString)} " ++
  s!"writers={joinWith ";" ws} files={joinWith "," ((sortNat fs).map toString)} sems={joinWith "," sems} " ++
  s!"leaks={joinWith "," leaks}"

def parseOp : String → Option Op
  | "register" => some .register
  | "unregister" => some .unregister
  | "maybe_unlink" => some .maybeUnlink
  | _ => none

def parseSig : String → Option Sig
  | "int" => some .int
  | "term" => some .term
  | "kill" => some .kill
  | _ => none

def parsePairs (s : String) : Option (List (Nat × Nat)) :=
  if s == "-" then some [] else
  (s.splitOn ",").mapM (fun pr => match pr.splitOn ":" with
    | [a, b] => match a.toNat?, b.toNat? with
      | some a, some b => some (a, b)
      | _, _ => none
    | _ => none)

def parseThread : String → Option Nat
  | "main" => some 0
  | "thread" => some 1
  | "pool" => some 2
  | _ => none

def parseNats (s : String) : Option (List Nat) := (s.splitOn ",").mapM (·.toNat?)

def warnedOf (d : D) (p : Nat) : Nat := (d.s.procs p).warned

/-- finalizers of every registered owner object of `p` (what `util._exit_function` runs) -/
def finalizeAll (d : D) (p : Nat) : D :=
  (List.range d.s.nObj).foldl (fun d o =>
    if (d.s.objs o).proc == p && (d.s.objs o).ph == .registered then
      (d.step (.finUnlink p o)).step (.finUnregister p o)
    else d) d

namespace LedgerLine
open LokyModel.Ledger

def sh (c : Counts) : String := s!"{c.fds}/{c.threads}/{c.children}/{c.sems}"

def started (n : Nat) : List LokyModel.Ledger.Op :=
  [LokyModel.Ledger.Op.ctor] ++ rep n LokyModel.Ledger.Op.spawn
    ++ [LokyModel.Ledger.Op.startManager, LokyModel.Ledger.Op.put]

def line (kind : String) (n m l0 : Nat) : String :=
  let life? : Option (Life × List LokyModel.Ledger.Op) :=
    match kind with
    | "clean" => some (Life.clean n 0, started n)
    | "kill" => some (Life.kill n, started n)
    | "broken" => some (Life.broken n m, started n ++ rep m LokyModel.Ledger.Op.crashed)
    | "idle" => some (Life.idle n, started n ++ rep n LokyModel.Ledger.Op.reapOne)
    | "dropped" => some (Life.dropped n, started n)
    | "unused" => some (Life.unused, [LokyModel.Ledger.Op.ctor])
    | "resized" => some (Life.resized n m, started n ++ rep (n - m) LokyModel.Ledger.Op.reapOne
                                              ++ rep (m - n) LokyModel.Ledger.Op.spawn)
    | _ => none
  match life? with
  | none => "bad-op"
  | some (life, mid) =>
    let st := if kind == "unused" then [LokyModel.Ledger.Op.ctor] else started n
    let e0 : Exec := { lingering := l0 }
    s!"ctor={sh (counts (runOps e0 [LokyModel.Ledger.Op.ctor]))} started={sh (counts (runOps e0 st))} " ++
    s!"mid={sh (counts (runOps e0 mid))} end={sh (counts (runLife life l0))} linger={(runLife life l0).lingering}"

end LedgerLine

def handle (d : D) (ws : List String) : D × String :=
  let d := { d with bad := false }
  match ws with
  | ["init"] => ({}, "ok")
  | ["start"] => (d, observe d none none 0)
  | ["end"] => let d := d.settle; (d, observe d none none 0)
  | ["info", p] =>
    match p.toNat? with
    | some p => (d, observe d (d.s.procs p).trk none 0)
    | none => (d, "bad-op")
  | ["spawn", p, c, m, pairs] =>
    match p.toNat?, c.toNat?, parsePairs pairs with
    | some p, some c, some prs =>
      if m != "loky" && m != "loky_init_main" then (d, "bad-op") else
      let w0 := warnedOf d p
      let d := d.step (.spawn p c (m == "loky_init_main"))
      let d := prs.foldl (fun d pr =>
        let k := groupSize d pr.1
        let d := (List.range k).foldl (fun d i => d.step (.copy p (oid pr.1 i) c (oid pr.2 i))) d
        { d with groups := (pr.2, k) :: d.groups }) d
      let d := d.settle
      (d, observe d (d.s.procs p).trk (d.s.procs c).trk (warnedOf d p - w0))
    | _, _, _ => (d, "bad-op")
  | ["spawn", p, c, m, pairs, f] =>
    if f.startsWith "L" then
      match p.toNat?, c.toNat?, parsePairs pairs, (f.drop 1).toNat? with
      | some p, some c, some prs, some o =>
        if m != "loky_init_main" then (d, "bad-op") else
        let w0 := warnedOf d p
        let d := d.step (.spawn p c true)
        let d := (d.step (.semOpen c (oid o 0))).step (.semRegister c (oid o 0))   -- `Lock()` at module level of the main script
        let d := { d with groups := (o, 1) :: d.groups }
        let d := prs.foldl (fun d pr =>
          let k := groupSize d pr.1
          let d := (List.range k).foldl (fun d i => d.step (.copy p (oid pr.1 i) c (oid pr.2 i))) d
          { d with groups := (pr.2, k) :: d.groups }) d
        let d := d.settle
        (d, observe d (d.s.procs p).trk (d.s.procs c).trk (warnedOf d p - w0))
      | _, _, _, _ => (d, "bad-op")
    else
    match p.toNat?, c.toNat?, parsePairs pairs, f.toNat? with
    | some p, some c, some prs, some f =>
      if m != "loky_init_main" then (d, "bad-op") else
      match fileName d f with
      | some n =>
        let w0 := warnedOf d p
        let d := d.step (.spawn p c true)
        let d := d.step (.op c .register n)                -- prepare(): tracker installed, then `__main__` re-imported
        let d := prs.foldl (fun d pr =>
          let k := groupSize d pr.1
          let d := (List.range k).foldl (fun d i => d.step (.copy p (oid pr.1 i) c (oid pr.2 i))) d
          { d with groups := (pr.2, k) :: d.groups }) d
        let d := d.settle
        (d, observe d (d.s.procs p).trk (d.s.procs c).trk (warnedOf d p - w0))
      | none => (d, "bad-op")
    | _, _, _, _ => (d, "bad-op")
  | ["op", p, o, f] =>
    match p.toNat?, parseOp o, f.toNat? with
    | some p, some o, some f =>
      match fileName d f with
      | some n =>
        let w0 := warnedOf d p
        let d := (d.step (.op p o n)).settle
        (d, observe d (d.s.procs p).trk none (warnedOf d p - w0))
      | none => (d, "bad-op")
    | _, _, _ => (d, "bad-op")
  | ["op", p, o, f, th] =>
    match parseThread th with
    | some _ => handle d ["op", p, o, f]                      -- the thread is not an input of the model
    | none => (d, "bad-op")
  | ["opsig", p, o, f, sg, th] =>
    match parseThread th with
    | some _ => handle d ["opsig", p, o, f, sg]
    | none => (d, "bad-op")
  | ["pop", p, o, fs] =>
    match p.toNat?, parseOp o, parseNats fs with
    | some p, some o, some fs =>
      match fs.mapM (fileName d) with
      | some ns =>
        let w0 := warnedOf d p
        let acts : List TAct := (List.range ns.length).zip ns |>.map (fun (i, n) => ⟨i + 1, .op p o n⟩)
        let d := (d.stepsT acts).settle
        (d, observe d (d.s.procs p).trk none (warnedOf d p - w0))
      | none => (d, "bad-op")
    | _, _, _ => (d, "bad-op")
  | ["pnew", p, os, k] =>
    match p.toNat?, parseNats os, k.toNat? with
    | some p, some os, some k =>
      if k > 8 then (d, "bad-op") else
      let w0 := warnedOf d p
      let ths := (List.range os.length).zip os
      -- an interleaving: every thread has done its sem_open(s) before the first REGISTER is sent
      let opens : List TAct := ths.flatMap (fun (i, o) => (List.range k).map (fun j => ⟨i + 1, .semOpen p (oid o j)⟩))
      let regs : List TAct := ths.flatMap (fun (i, o) => (List.range k).map (fun j => ⟨i + 1, .semRegister p (oid o j)⟩))
      let d := d.stepsT (opens ++ regs)
      let d := { d with groups := os.map (fun o => (o, k)) ++ d.groups }
      let d := d.settle
      (d, observe d (d.s.procs p).trk none (warnedOf d p - w0))
    | _, _, _ => (d, "bad-op")
  | ["opsig", p, o, f, sg] =>
    match p.toNat?, parseOp o, f.toNat?, parseSig sg with
    | some p, some o, some f, some sg =>
      match fileName d f with
      | some n =>
        let w0 := warnedOf d p
        let d := d.step (.op p o n)
        let d := d.step (.sigTracker (curTrk d.s p) sg)     -- arrives while the tracker is still starting
        let d := d.settle
        (d, observe d (d.s.procs p).trk none (warnedOf d p - w0))
      | none => (d, "bad-op")
    | _, _, _, _ => (d, "bad-op")
  | ["mkfile", p, f] =>
    match p.toNat?, f.toNat? with
    | some p, some f =>
      let n := d.s.nName
      let d := d.step (.mkfile p)
      let d := { d with files := (f, n) :: d.files.filter (·.1 != f) }
      (d, observe d none none 0)
    | _, _ => (d, "bad-op")
  | ["sig", k, sg] =>
    match k.toNat?, parseSig sg with
    | some k, some sg =>
      let d := if k < d.s.nTrk then (d.step (.sigTracker k sg)).settle else d
      (d, observe d none none 0)
    | _, _ => (d, "bad-op")
  | ["exit", p, how] =>
    match p.toNat? with
    | some p =>
      if how == "normal" || how == "exc" || how == "int" then
        let w0 := warnedOf d p
        let d := finalizeAll d p
        let w := warnedOf d p - w0
        let d := (d.step (.exit p (if how == "normal" then .normal else .exc))).settle
        (d, observe d none none w)
      else if how == "osexit" || how == "kill" || how == "term" then
        let d := (d.step (.exit p .crash)).settle
        (d, observe d none none 0)
      else (d, "bad-op")
    | none => (d, "bad-op")
  | ["new", p, o, k] =>
    match p.toNat?, o.toNat?, k.toNat? with
    | some p, some o, some k =>
      if k > 8 then (d, "bad-op") else
      let w0 := warnedOf d p
      let d := (List.range k).foldl (fun d i => (d.step (.semOpen p (oid o i))).step (.semRegister p (oid o i))) d
      let d := { d with groups := (o, k) :: d.groups }
      let d := d.settle
      (d, observe d (d.s.procs p).trk none (warnedOf d p - w0))
    | _, _, _ => (d, "bad-op")
  | ["del", p, o] =>
    match p.toNat?, o.toNat? with
    | some p, some o =>
      let w0 := warnedOf d p
      let d := (List.range (groupSize d o)).foldl (fun d i =>
        let ob := oid o i
        if (d.s.objs ob).ph == .copy then d.step (.dropCopy p ob)
        else (d.step (.finUnlink p ob)).step (.finUnregister p ob)) d
      let d := d.settle
      (d, observe d (d.s.procs p).trk none (warnedOf d p - w0))
    | _, _ => (d, "bad-op")
  | ["killnew", p] =>
    match p.toNat? with
    | some p =>
      let d := d.step (.semOpen p (oid 9999 0))
      let d := (d.step (.exit p .crash)).settle
      (d, observe d none none 0)
    | none => (d, "bad-op")
  | ["killfin", p, o] =>
    match p.toNat?, o.toNat? with
    | some p, some o =>
      if groupSize d o != 1 then (d, "bad-op") else
      let d := (d.steps (killFin p [oid o 0] 1)).settle    -- `sem_unlink` done, the process dies before UNREGISTER
      (d, observe d none none 0)
    | _, _ => (d, "bad-op")
  | ["killfin", p, o, k] =>
    match p.toNat?, o.toNat?, k.toNat? with
    | some p, some o, some k =>
      let m := groupSize d o
      if m == 0 then (d, "bad-op") else
      let os := (List.range m).map (oid o)
      if (d.s.objs (oid o 0)).ph == .copy then
        -- copies have no finalizer: nothing is unlinked, nothing is sent
        let d := ((d.steps (os.map (fun ob => Ev.dropCopy p ob))).step (.exit p .crash)).settle
        (d, observe d none none 0)
      else if k > 2 * m then (d, "bad-op") else
      let d := (d.steps (killFin p os k)).settle
      (d, observe d none none 0)
    | _, _, _ => (d, "bad-op")
  | ["killexit", p, k] =>
    match p.toNat?, k.toNat? with
    | some p, some k =>
      let os := (List.range d.s.nObj).filter (fun o => (d.s.objs o).proc == p && (d.s.objs o).ph == .registered)
      if k > 2 * os.length then (d, "bad-op") else
      let d := (d.steps (killFin p os k)).settle
      (d, observe d none none 0)
    | _, _ => (d, "bad-op")
  | ["ledger", kind, n, m, l0] =>
    match n.toNat?, m.toNat?, l0.toNat? with
    | some n, some m, some l0 => (d, LedgerLine.line kind n m l0)
    | _, _, _ => (d, "bad-op")
  | _ => (d, "bad-op")

partial def loop (h : IO.FS.Stream) (out : IO.FS.Stream) (d : D) : IO Unit := do
  let line ← h.getLine
  if line.isEmpty then return ()
  let (d, o) := handle d ((line.trimAscii.toString.splitOn " ").filter (· ≠ ""))
  out.putStrLn o
  loop h out d

def main : IO Unit := do
  loop (← IO.getStdin) (← IO.getStdout) {}
