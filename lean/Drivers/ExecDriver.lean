import LokyModel.Exec
/-! Line-protocol driver for M1 (lock-step with engine E1).

    cfg mw=<n> timeout=<0|1> init=<0|1> initfail=<i,j|-> leak=<t,u|-> tasks=<a.b.r;...|->
    script <k> <op> ...         ops: create submit:<t> cancel:<t> shutdown:<w>:<k> drop pyexit
    begin                       → `init | <enabled> | <obs>`
    step <actor> <variant>      → `<label> | <enabled after> | <obs after>`   (or `DISABLED <label>`)
-/
open LokyModel.Exec

def showPids (ps : List Pid) : String := ",".intercalate (ps.map fun p => s!"sentinel{p}")

def wLabel (s : St) (p : Pid) : String :=
  match s.w p with
  | .start => "start" | .init => "init"
  | .gAcq => "acquire(cq.rlock,B)" | .gRecv => "recv(cq.pipe)" | .gRel _ => "release(cq.rlock)"
  | .gSem _ => "release(cq.sem)"
  | .tAcq => "acquire(cq.rlock,B,T)" | .tPoll => "poll(cq.pipe,T)" | .tRecv => "recv(cq.pipe)"
  | .tSem _ => "release(cq.sem)" | .tRel _ => "release(cq.rlock)" | .tRelE => "release(cq.rlock)"
  | .eTry => "acquire(mgmt,NB)" | .eRel => "release(mgmt)"
  | .task _ t => s!"task({t})" | .taskEnd _ t => s!"taskend({t})"
  | .rAcq .. => "acquire(rq.wlock,B)" | .rSend .. => "send(rq.pipe)" | .rRel => "release(rq.wlock)"
  | .bAcq => "acquire(rq.wlock,B)" | .bSend => "send(rq.pipe)" | .bRel => "release(rq.wlock)"
  | .xAcq => "acquire(rq.wlock,B)" | .xSend => "send(rq.pipe)" | .xRel => "release(rq.wlock)"
  | .xExit => s!"acquire(exit[{p}],B,T)"
  | .lAcq => "acquire(rq.wlock,B)" | .lSend => "send(rq.pipe)" | .lRel => "release(rq.wlock)"
  | .lExitAcq => s!"acquire(exit[{p}],B)" | .lExitRel => s!"release(exit[{p}])"
  | .exit c => s!"exit({c})" | .dead => "-"

def mLabel (s : St) : String :=
  match s.mpc with
  | .none => "-" | .start => "start"
  | .addAcq _ => "acquire(cq.sem,B)" | .addTStart _ => "tstart(F)"
  | .addAcqF _ => "acquire(cq.sem,B)" | .addTStartF _ => "tstart(F)"
  | .wait snap => "wait(rq.pipe,wakeup" ++ (if snap.isEmpty then "" else "," ++ showPids snap) ++ ")"
  | .recv => "recv(rq.pipe)"
  | .clrPoll _ => "poll(wakeup,NB)" | .clrRecv _ => "recv(wakeup)"
  | .pidAcq _ => "acquire(mgmt,B)" | .pidRel _ _ => "release(mgmt)"
  | .pidRelExit p => s!"release(exit[{p}])" | .pidJoin p => s!"pjoin({p})"
  | .rspAcq => "acquire(mgmt,B)" | .rspExit => s!"acquire(exit[{s.nextPid}],B)" | .rspStart => "pstart"
  | .rspRel => "release(mgmt)"
  | .cbAcq => "acquire(shut,B)" | .cbWake => "send(wakeup)" | .cbRel => "release(shut)"
  | .flagAcq => "acquire(shut,B)" | .flagRel => "release(shut)"
  | .brkAcq _ => "acquire(shut,B)" | .brkRel _ => "release(shut)"
  | .kill p => s!"kill({p})" | .killJoin p => s!"pjoin({p})"
  | .jAcq1 => "acquire(mgmt,B)"
  | .jRelExit ps _ => (match ps with | p :: _ => s!"release(exit[{p}])" | [] => "?")
  | .jRel1 _ => "release(mgmt)"
  | .jAliveAcq .. => "acquire(mgmt,B)"
  | .jAlive ps .. => (match ps with | p :: _ => s!"alive({p})" | [] => "?")
  | .jAliveRel .. => "release(mgmt)"
  | .jPut .. => "acquire(cq.sem,NB)" | .jPutTStart .. => "tstart(F)" | .jSleep .. => "sleep"
  | .jShutAcq => "acquire(shut,B)" | .jShutRel => "release(shut)"
  | .jAcq2 => "acquire(mgmt,B)" | .jJoin p => s!"pjoin({p})" | .jRel2 => "release(mgmt)"
  | .done => "-" | .raised w => s!"raised:{w}"

def fLabel (s : St) : String :=
  match s.fpc with
  | .none => "-" | .start => "start" | .wait => "cwait"
  | .acq _ => "acquire(cq.wlock,B)" | .send _ => "send(cq.pipe)" | .rel => "release(cq.wlock)"
  | .acqBig _ => "acquire(cq.wlock,B)" | .sendBig _ => "send(cq.pipe)" | .relBig _ => "release(cq.wlock)"
  | .errSem _ => "release(cq.sem)" | .errAcq => "acquire(shut,B)" | .errWake => "send(wakeup)"
  | .errRel => "release(shut)" | .done => "-"

def opName : UOp → String
  | .create => "create" | .submit _ => "submit" | .cancel _ => "cancel" | .shutdown .. => "shutdown"
  | .drop => "drop" | .pyexit => "pyexit" | .idle => "idle"

def uLabel (s : St) (k : Nat) : String :=
  match s.upc k with
  | .start => "start"
  | .api => (match s.ucur k with | some op => s!"api({opName op})" | none => "api(?)")
  | .subAcqShut _ => "acquire(shut,B)" | .subAcqMgmt => "acquire(mgmt,B)"
  | .subExit => s!"acquire(exit[{s.nextPid}],B)" | .subPStart => "pstart" | .subTStart => "tstart(M)"
  | .subRelMgmt => "release(mgmt)" | .subWake => "send(wakeup)" | .subRelShut => "release(shut)"
  | .sdAcq1 .. => "acquire(shut,B)" | .sdRel1 _ => "release(shut)" | .sdAcq2 _ => "acquire(shut,B)"
  | .sdWake _ => "send(wakeup)" | .sdRel2 _ => "release(shut)" | .sdAcqG => "acquire(gshut,B)"
  | .sdJoin => "tjoin(M)" | .sdRelG => "release(gshut)"
  | .cbAcq => "acquire(shut,B)" | .cbWake => "send(wakeup)" | .cbRel => "release(shut)"
  | .peAcq => "acquire(shut,B)" | .peWake => "send(wakeup)" | .peRel => "release(shut)"
  | .peAcqG => "acquire(gshut,B)" | .peJoin => "tjoin(M)" | .peRelG => "release(gshut)"
  | .done => "-"

def label (s : St) : Actor → String
  | .U k => uLabel s k | .M => mLabel s | .F => fLabel s | .W p => wLabel s p

def actorName : Actor → String
  | .U k => s!"U{k}" | .M => "M" | .F => "F" | .W p => s!"W{p}"

def variantName : Variant → String
  | .ok => "ok" | .timeout => "timeout" | .fail => "fail" | .crash => "crash"

def insertSorted (x : String) : List String → List String
  | [] => [x]
  | y :: ys => if x ≤ y then x :: y :: ys else y :: insertSorted x ys

def sortStrings (xs : List String) : List String := xs.foldl (fun acc x => insertSorted x acc) []

def enabled (s : St) : List String :=
  let actors := (List.range s.cfg.scripts.length).map Actor.U ++ [Actor.M, Actor.F] ++ s.allPids.map Actor.W
  let vs := [Variant.ok, .timeout, .fail, .crash]
  sortStrings ((actors.flatMap fun a => vs.filterMap fun v =>
      match step s a v with
      | some _ => some s!"{actorName a}:{variantName v}"
      | none => none))

def futName : Fut → String
  | .pending => "P" | .running => "R" | .cancelled => "C" | .value => "D"
  | .excWorker => "Ew" | .excFeeder => "Ef" | .excBroken => "Eb" | .excTerminated => "Et" | .excShutdown => "Es"

def obs (s : St) : String :=
  let f := ",".intercalate ((s.futs.take s.visible).map futName)
  let b := match s.broken with | none => "-" | some .unserialize => "b" | some .terminated => "t"
  let al := ",".intercalate ((s.allPids.filter (alive s)).map fun p => s!"W{p}")
  let ib := ",".intercalate (s.allPids.filterMap fun p =>
      match s.w p with | .taskEnd _ t => some s!"W{p}:{t}" | _ => none)
  s!"futs=[{f}] sd={s.shutdownFlag} br={b} kill={s.killFlag} nproc={s.procDict.length} pend={s.pending.length} run={s.running.length} alive=[{al}] body=[{ib}]"

def parseActor (a : String) : Option Actor :=
  if a == "M" then some .M else if a == "F" then some .F
  else if a.startsWith "W" then (a.drop 1).toNat?.map .W
  else if a.startsWith "U" then (a.drop 1).toNat?.map .U else none

def parseVariant (v : String) : Option Variant :=
  if v == "ok" then some .ok else if v == "timeout" then some .timeout else if v == "fail" then some .fail
  else if v == "crash" then some .crash else none

def parseNats (s : String) : List Nat :=
  if s == "-" then [] else (s.splitOn ",").filterMap (·.toNat?)

def parseSpec (s : String) : TaskSpec :=
  match s.splitOn "." with
  | [a, b, r] =>
    { args := if a == "u" then .unpicklable else if a == "l" then .toolarge else if a == "b" then .badunpickle else .ok,
      body := if b == "r" then .raises else if b == "d" then .die else .ok,
      res := if r == "b" then .badunpickle else .ok }
  | _ => {}

def parseOp (s : String) : Option UOp :=
  match s.splitOn ":" with
  | ["create"] => some .create
  | ["submit", t] => t.toNat?.map .submit
  | ["cancel", t] => t.toNat?.map .cancel
  | ["shutdown", w, k] => some (.shutdown (w == "1") (k == "1"))
  | ["drop"] => some .drop
  | ["pyexit"] => some .pyexit
  | ["idle"] => some .idle
  | _ => none

def kv (ws : List String) (k : String) : String :=
  match ws.find? (·.startsWith (k ++ "=")) with
  | some w => (w.drop (k.length + 1)).toString
  | none => "-"

structure DState where
  cfg : Cfg := { maxWorkers := 1, timeout := false, tasks := [], scripts := [] }
  st : Option St := none

def outLine (lab : String) (s : St) : String :=
  s!"{lab} | {",".intercalate (enabled s)} | {obs s}"

partial def loop (h : IO.FS.Stream) (out : IO.FS.Stream) (d : DState) : IO Unit := do
  let line ← h.getLine
  if line.isEmpty then return ()
  let ws := (line.trimAscii.toString.splitOn " ").filter (· ≠ "")
  match ws with
  | "cfg" :: rest =>
      let tasks := if kv rest "tasks" == "-" then [] else ((kv rest "tasks").splitOn ";").map parseSpec
      let cfg : Cfg := { maxWorkers := (kv rest "mw").toNat?.getD 1, timeout := kv rest "timeout" == "1",
                         tasks := tasks, scripts := [], hasInit := kv rest "init" == "1",
                         initFail := parseNats (kv rest "initfail"), leakAfter := parseNats (kv rest "leak") }
      out.putStrLn "ok"
      loop h out { cfg := cfg, st := none }
  | "script" :: _ :: ops =>
      let sc := ops.filterMap parseOp
      out.putStrLn (if sc.length == ops.length then "ok" else "bad-op")
      loop h out { d with cfg := { d.cfg with scripts := d.cfg.scripts ++ [sc] } }
  | ["begin"] =>
      let s0 := init d.cfg
      out.putStrLn (outLine "init" s0)
      loop h out { d with st := some s0 }
  | ["step", a, v] =>
      match d.st, parseActor a, parseVariant v with
      | some st, some a, some v =>
          let lab := label st a
          match step st a v with
          | some st' => out.putStrLn (outLine lab st'); loop h out { d with st := some st' }
          | none => out.putStrLn s!"DISABLED {lab}"; loop h out d
      | _, _, _ => out.putStrLn "bad-op"; loop h out d
  | _ => out.putStrLn "bad-op"; loop h out d

def main : IO Unit := do
  loop (← IO.getStdin) (← IO.getStdout) {}
