import LokyModel.ExecLiveCrash
import LokyModel.ExecLiveStaticDef
/-!
# Strengthening of `staticC && smallOk` that is inductive along lock-free crash runs of a static pool (executable part)

`staticC` and `smallOk` (`ExecLiveCrash.lean`) hold in every state of a static pool whose workers may die, but are not
inductive by themselves.  `staticXC` adds what the induction needs: the conjuncts of the crash-free `staticX`
(`ExecLiveStaticDef.lean`) in the form that survives deaths, plus two facts about the kill loop.
`staticSmallC' = staticC && smallOk && staticXC`.  Imports model files only, so that
`Drivers/LiveCheckCrashStatic.lean` can evaluate it on random walks.  The proof is in
`Lemmas/ExecLiveCrashStatic.lean`.
-/
namespace LokyModel.Exec
namespace StaticCP  -- helper predicates of this file only

/-- the worker has received its stop sentinel and is still there (a dead worker is "stopping" for `wStopping`, but a
    death can happen at any time, whereas these program counters are reached only through a stop sentinel) -/
def wStopL (pc : WPc) : Bool := wStopping pc && pc != .dead

/-- the worker that the manager is killing / waiting for in the kill loop -/
def killOf : MPc → Option Pid
  | .kill p | .killJoin p => some p
  | _ => none

end StaticCP
open StaticP StaticCP

def staticXC (s : St) : Bool :=
  -- X1 the process list the manager waits on contains spawned processes only
  (snapOf s.mpc).all (fun p => s.allPids.contains p) &&
  -- X2 no result that fails to un-pickle in the parent, no `_RemoteTraceback`
  s.allPids.all (fun p => !wBadRes (s.w p)) && !s.rqPipe.any rBad &&
  -- X4 the close sentinel of the call queue never gets past the feeder thread
  !s.cqPipe.any isClose && !fClose s.fpc &&
  -- X5 it is the last thing put into the buffer, and put only by `join_executor_internals`
  !s.cqBuf.dropLast.any isClose && (mLate s.mpc || (!s.cqBuf.any isClose && s.fpc != .done)) &&
  -- X6 a registered manager thread exists
  (!s.threadReg || s.mpc != .none) &&
  -- X7 no script operation (remaining, current, in progress) is `shutdown(kill_workers=True)`
  ((usersOf s).all fun k =>
     (s.uscript k).all (fun op => !op.isKill) && ucurOk (s.ucur k) && !isSdKill (s.upc k)) &&
  -- X8 futures exist before the manager thread does only while the thread that submitted the first one is on its way
  --    to start it
  (s.mpc != .none || (s.futs.isEmpty || (usersOf s).any (fun k => subEarly (s.upc k)))) &&
  -- XC1 the worker the manager kills / waits for in the kill loop has been spawned
  (match killOf s.mpc with | some p => s.allPids.contains p | none => true) &&
  -- XC2 before the final phase (kill loop included) there is no stop sentinel anywhere, no worker that is still there has
  --     received one, and no worker has announced its exit
  (mFinal s.mpc ||
    (s.allPids.all (fun p => !wStopL (s.w p)) && !s.cqBuf.any isStop && !s.cqPipe.any isStop &&
     !s.rqPipe.any isPidMsg && !fStop s.fpc))

def staticSmallC' (s : St) : Bool := staticC s && smallOk s && staticXC s

end LokyModel.Exec
