import LokyModel.ExecLiveCrash
/-!
# `joinC'`: the inductive strengthening of `joinC` (sentinel accounting of the final phase, with worker deaths)

The crash-free strengthening `joinOk'` (`Lemmas/ExecLiveJoinBase.lean`) says that the process table is complete
(`procDict = allPids`) until the call queue is closed.  That is false on the broken path: `terminate_broken` pops every
registered worker, kills it and joins it, and `join_executor_internals` starts with an EMPTY table.  What holds instead:

* inside the kill loop every spawned worker is still registered, or is the one being killed / joined, or is dead;
* in the first part of the final phase the table is complete OR every spawned worker is dead.

The remaining conjuncts are the book-keeping of the loops of `join_executor_internals` / `shutdown_workers` (as in `joinOk'`).
Executable; import-light (model files only) so that `Drivers/LiveCheckCrashJoin.lean` can evaluate it.
-/
namespace LokyModel.Exec

/-- the part of `join_executor_internals` before the call queue is closed -/
def mPreJC : MPc → Bool
  | .jAcq1 | .jRelExit _ _ | .jRel1 _ | .jAliveAcq _ _ _ | .jAlive _ _ _ _ _ | .jAliveRel _ _ _ _
  | .jPut _ _ _ _ | .jPutTStart _ _ _ _ | .jSleep _ _ _ => true
  | _ => false

/-- every worker ever spawned is dead -/
def allDeadJC (s : St) : Bool := s.allPids.all fun p => s.w p == .dead

def joinCExtra (s : St) : Bool :=
  (match s.mpc with
   | .jRelExit ps n => n + ps.length == s.procDict.length
   | .jRel1 n => n == s.procDict.length
   | .jAliveAcq n sent _ => decide (sent < n)
   | .jAliveRel cnt n sent _ =>
       -- `cnt = 0`: every registered worker was found dead
       decide (sent < n) && (cnt != 0 || s.procDict.all (fun p => s.w p == .dead))
   | .jAlive ps cnt n sent _ =>
       decide (sent < n) && s.procDict.drop (s.procDict.length - ps.length) == ps &&
       (cnt != 0 || (s.procDict.take (s.procDict.length - ps.length)).all (fun p => s.w p == .dead))
   | .jPut k n sent _ => k == n - sent && decide (0 < k)
   | .jPutTStart k n sent _ => k == n - sent && decide (0 < k) && s.fpc == .none
   -- the kill loop: a spawned worker is still registered, or is the victim, or is dead
   | .kill p | .killJoin p => s.allPids.all fun q => s.procDict.contains q || q == p || s.w q == .dead
   | _ => true) &&
  (!mPreJC s.mpc || s.procDict == s.allPids || allDeadJC s)

def joinC' (s : St) : Bool := joinC s && joinCExtra s

end LokyModel.Exec
