import LokyModel.ExecLiveDyn
import LokyModel.ExecLiveStaticDef
/-!
# Strengthening of `dynOk` that is inductive (executable part)

`dynOk` (in `ExecLiveDyn.lean`) is not inductive by itself, and inside `Cfg.dynPool` alone it is not even true: a script with a
second `.create` resets the reference count of the executor under the feet of a thread that is inside `submit`
(`uDispatch .create` is `refs := 1`), after which that thread's release brings the count to 0 although the holder is still
there.  The scope is therefore narrowed by `Cfg.oneCreate` (at most one `.create` over all scripts: the model is of ONE
executor), and `dynX` adds what the induction needs; `dynOk' = dynOk && dynX`.  Import-free apart from the model so that
`Drivers/LiveCheckdynOk.lean` can evaluate it on random walks.  The proof is in `Lemmas/ExecLiveDynOk.lean`.
-/
namespace LokyModel.Exec
namespace DynP  -- helper predicates; kept in their own namespace so that they cannot clash with other files

def isCreate : UOp → Bool
  | .create => true
  | _ => false
/-- number of `.create` operations in a script -/
def crS (l : List UOp) : Nat := sumL (fun op => if isCreate op then 1 else 0) l
def crO : Option UOp → Nat
  | some op => if isCreate op then 1 else 0
  | none => 0
/-- the thread is inside `submit` / `shutdown` and holds its temporary strong reference to the executor -/
def uRef : UPc → Nat
  | .subAcqShut _ | .subAcqMgmt | .subExit | .subPStart | .subTStart | .subRelMgmt | .subWake | .subRelShut
  | .sdAcq1 _ _ | .sdRel1 _ | .sdAcq2 _ | .sdWake _ | .sdRel2 _ | .sdAcqG | .sdJoin | .sdRelG => 1
  | _ => 0
/-- the manager holds the temporary strong reference of the re-spawn -/
def mRef : MPc → Nat
  | .rspAcq | .rspExit | .rspStart | .rspRel => 1
  | _ => 0
def opOkD (op : UOp) : Bool := !op.isKill && !op.isDrop
def ucurOkD : Option UOp → Bool
  | some op => opOkD op
  | none => true
def heldN (s : St) : Nat := if s.held then 1 else 0
def createdN (s : St) : Nat := if s.created then 1 else 0

end DynP
open StaticP DynP

/-- at most one `.create` over all scripts -/
def Cfg.oneCreate (c : Cfg) : Bool := decide (sumL crS c.scripts ≤ 1)

def dynX (s : St) : Bool :=
  -- X1 no result that fails to un-pickle in the parent, no `_RemoteTraceback`
  s.allPids.all (fun p => !wBadRes (s.w p)) && !s.rqPipe.any rBad &&
  -- X2 the close sentinel of the call queue never gets past the feeder thread; it is the last thing put into the buffer,
  --    and put only by `join_executor_internals`
  !s.cqPipe.any isClose && !fClose s.fpc &&
  !s.cqBuf.dropLast.any isClose && (mLate s.mpc || (!s.cqBuf.any isClose && s.fpc != .done)) &&
  -- X3 a registered manager thread exists
  (!s.threadReg || s.mpc != .none) &&
  -- X4 no script operation (remaining, current, in progress) is `shutdown(kill_workers=True)` or `drop`
  ((usersOf s).all fun k =>
     (s.uscript k).all opOkD && ucurOkD (s.ucur k) && !isSdKill (s.upc k)) &&
  -- X5 (stronger form of the conjunct of `dynOk` on `mpc = none`) futures exist before the manager thread does only
  --    while the thread that submitted the first one is on its way to start it
  (s.mpc != .none || (s.futs.isEmpty || (usersOf s).any (fun k => subEarly (s.upc k)))) &&
  -- X6 a thread about to start the manager thread has found that there is none
  ((usersOf s).all fun k => s.upc k != .subTStart || s.mpc == .none) &&
  -- X7 the holder's reference exists exactly from `create` on
  (s.held == s.created) &&
  -- X8 the reference count covers the holder, the threads inside `submit` / `shutdown` and the manager's re-spawn
  decide (heldN s + sumL (fun k => uRef (s.upc k)) (usersOf s) + mRef s.mpc ≤ s.refs) &&
  -- X9 before `create` nobody is inside `submit` / `shutdown`
  (s.created || (usersOf s).all (fun k => uRef (s.upc k) == 0)) &&
  -- X10 `create` happens at most once
  decide (createdN s + sumL (fun k => crS (s.uscript k) + crO (s.ucur k)) (usersOf s) ≤ 1)

def dynOk' (s : St) : Bool := dynOk s && dynX s

end LokyModel.Exec
