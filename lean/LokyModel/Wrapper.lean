/-!
# M6 `Wrapper` — `loky/cloudpickle_wrapper.py`

A transcription of `CloudpickledObjectWrapper`, `CallableObjectWrapper`, the class wrapper built by
`wrap_non_picklable_objects(cls)`, `_wrap_non_picklable_objects`, `_reconstruct_wrapper` and
`__reduce__`.  Import-free.

What is abstracted: the wrapped Python object is an `Obj` (is it callable, what does
`getattr(obj, name)` give, what does a call give); cloudpickle's `loads(dumps(obj))` on a bare
object is the *parameter* `rt : Obj → Obj` (C16 is about objects cloudpickle can serialise).  A
ghost counter `gen` records how many cloudpickle round trips a copy went through.
-/
namespace LokyModel.Wrapper

/-- Attribute names.  What matters for the wrapper is only *where normal attribute lookup finds
the name on a wrapper instance*:
* `obj` / `keepWrapper` — `"_obj"`, `"_keep_wrapper"`: in the instance `__dict__` of every wrapper
  (set by `__init__`), and the two names `__getattr__` refuses to forward;
* `cls n` — a name found on the wrapper's class or on `object` (`__doc__`, `__module__`,
  `__class__`, `__dict__`, `__reduce__`, `__init__`, `__getattr__`, …);
* `user n` — every other name: normal lookup fails and `__getattr__` runs. -/
inductive Name where
  | obj
  | keepWrapper
  | cls (n : Nat)
  | user (n : Nat)
  deriving DecidableEq, Repr

/-- A bare (non-wrapper) Python object, reduced to what C16 observes. -/
structure Obj where
  /-- `callable(obj)` -/
  callable : Bool
  /-- `getattr(obj, name)`: `none` = `AttributeError`, `some v` = an abstract value -/
  attr : Name → Option Nat
  /-- the result of `obj(args)` for abstract arguments (positional and keyword); meaningful iff `callable` -/
  call : Nat → Nat
  /-- ghost: number of cloudpickle round trips this copy has been through -/
  gen : Nat

/-- the wrapper classes:
`object` = `CloudpickledObjectWrapper`, `callable` = `CallableObjectWrapper` (adds `__call__`),
`classInst b` = the local `CloudpickledClassWrapper(wrapper_base)` created by
`wrap_non_picklable_objects(cls)`, where `wrapper_base` is `CallableObjectWrapper` iff
`b = any("__call__" in vars(klass) for klass in cls.__mro__)`, else `CloudpickledObjectWrapper`. -/
inductive WKind where
  | object
  | callable
  | classInst (callableBase : Bool)
  deriving DecidableEq, Repr

/-- does the wrapper class define `__call__` -/
def WKind.hasCall : WKind → Bool
  | .object => false
  | .callable => true
  | .classInst b => b

/-- Python values of interest: a bare object or a wrapper instance (`_obj` may itself be a wrapper). -/
inductive Val where
  | raw (o : Obj)
  | wrap (k : WKind) (keep : Bool) (inner : Val)

/-- result of an attribute read -/
inductive Attr where
  /-- a value of the underlying object -/
  | value (v : Nat)
  /-- `w._obj` -/
  | inner (v : Val)
  /-- `w._keep_wrapper` -/
  | flag (b : Bool)
  /-- something defined by the wrapper's class / `object` -/
  | classAttr (n : Nat)

/-- `callable(v)`: looks at the *type* — only `CallableObjectWrapper` (and subclasses) define `__call__`. -/
def isCallable : Val → Bool
  | .raw o => o.callable
  | .wrap k _ _ => k.hasCall

/-- `v(args)`; `none` = `TypeError: object is not callable`.
`CallableObjectWrapper.__call__(*args, **kwargs) = self._obj(*args, **kwargs)`. -/
def callV : Val → Nat → Option Nat
  | .raw o, x => if o.callable then some (o.call x) else none
  | .wrap k _ v, x => if k.hasCall then callV v x else none

/-- normal attribute lookup on a wrapper instance (instance `__dict__`, then the class) -/
def ownLookup (keep : Bool) (inner : Val) : Name → Option Attr
  | .obj => some (.inner inner)
  | .keepWrapper => some (.flag keep)
  | .cls n => some (.classAttr n)
  | .user _ => none

/-- the two names `__getattr__` refuses to forward: `attr not in ["_obj", "_keep_wrapper"]` -/
def refused : Name → Bool
  | .obj | .keepWrapper => true
  | _ => false

/-- `getattr(v, a)`; `none` = `AttributeError` (or, in the branch that cannot be reached on a
constructed wrapper, the unbounded recursion `getattr(self, attr)` of `__getattr__`).

    def __getattr__(self, attr):
        if attr not in ["_obj", "_keep_wrapper"]:
            return getattr(self._obj, attr)
        return getattr(self, attr)
-/
def getattr : Val → Name → Option Attr
  | .raw o, a => (o.attr a).map .value
  | .wrap _ keep v, a =>
    match ownLookup keep v a with
    | some r => some r                              -- found without `__getattr__`
    | none => if !refused a then getattr v a else none

/-- names that every Python object answers itself (found on the type / on `object`): no proxy can
forward them, and they are outside C16's "attribute reads" -/
def typeLevel : Name → Bool
  | .cls _ => true
  | _ => false

/-- names that never reach the forwarding branch of `__getattr__` on a wrapper -/
def reserved (a : Name) : Bool := typeLevel a || refused a

/-- `_wrap_non_picklable_objects(obj, keep_wrapper)` -/
def wrapNP (v : Val) (keep : Bool) : Val :=
  .wrap (if isCallable v then .callable else .object) keep v

/-- `wrap_non_picklable_objects(cls, keep_wrapper)(*args, **kwargs)`: `__init__` builds the instance
(`ctor args`) and stores it in a `CloudpickledClassWrapper`; `definesCall` is the class-level test
`any("__call__" in vars(klass) for klass in cls.__mro__)` that selects the wrapper's base class. -/
def wrapClass {α : Type} (ctor : α → Val) (definesCall : Bool) (keep : Bool) (args : α) : Val :=
  .wrap (.classInst definesCall) keep (ctor args)

/-- `wrap_non_picklable_objects(obj, keep_wrapper)` for a non-class `obj` -/
def wrapObj (v : Val) (keep : Bool) : Val := wrapNP v keep

/-- what `__reduce__` returns; the payload stands for the bytes `cloudpickle.dumps(self._obj)` -/
inductive Reduced where
  /-- `(loads, (dumps(self._obj),))` -/
  | viaLoads (payload : Val)
  /-- `(_reconstruct_wrapper, (dumps(self._obj), self._keep_wrapper))` -/
  | viaReconstruct (payload : Val) (keep : Bool)

/-- `CloudpickledObjectWrapper.__reduce__` (inherited by all three wrapper classes) -/
def reduce (keep : Bool) (inner : Val) : Reduced :=
  if !keep then .viaLoads inner else .viaReconstruct inner keep

/-- `_reconstruct_wrapper(_pickled_object, keep_wrapper)` given the unpickled payload -/
def reconstructWrapper (loaded : Val) (keep : Bool) : Val := wrapNP loaded keep

/-- calling the reduce value at unpickling time, `loaded` being `cloudpickle.loads` of the payload -/
def rebuild (loads : Val → Val) : Reduced → Val
  | .viaLoads p => loads p
  | .viaReconstruct p keep => reconstructWrapper (loads p) keep

/-- One serialisation round trip.  For a wrapper this is `pickle.loads(pickle.dumps(w))` — also what
cloudpickle does with a wrapper found inside a payload, since both honour `__reduce__`; for a bare
object it is cloudpickle's round trip `rt`.  (`trip_wrap` in `Props/C16.lean` shows this is
`rebuild (trip rt) (reduce keep inner)`.) -/
def trip (rt : Obj → Obj) : Val → Val
  | .raw o => .raw (rt o)
  | .wrap _ keep v => if keep then wrapNP (trip rt v) keep else trip rt v

/-- `n` successive round trips -/
def trips (rt : Obj → Obj) : Nat → Val → Val
  | 0, v => v
  | n + 1, v => trips rt n (trip rt v)

/-- the bare object at the bottom of a stack of wrappers -/
def core : Val → Obj
  | .raw o => o
  | .wrap _ _ v => core v

/-- number of wrapper layers -/
def depth : Val → Nat
  | .raw _ => 0
  | .wrap _ _ v => depth v + 1

/-! ## Histories on ONE wrapper object

A wrapper stores a *reference* to the wrapped object (`self._obj = obj`), not a copy: when the object
changes state — through the wrapper (a forwarded call or method with a side effect) or directly — every
layer of the stack sees the new state, and `__reduce__`, which calls `dumps(self._obj)` each time it
runs, serialises the state the object has **at that pickling**.  A received copy is a separate object
(`cloudpickle.loads` builds new objects): later changes of the original do not reach it and changes of
a copy do not reach the original or other copies. -/

/-- replace the bare object at the bottom of a stack of wrappers by its new state -/
def mapCore (f : Obj → Obj) : Val → Val
  | .raw o => .raw (f o)
  | .wrap k keep v => .wrap k keep (mapCore f v)

/-- `pickle.loads(pickle.dumps(v))` *now*, spelled as the code does it: for a wrapper, `__reduce__` runs
at this moment, reads the fields `_keep_wrapper` and `_obj` as they are at this moment (there is no
other field: nothing is remembered from an earlier pickling), and the reduce value is applied on the
receiving side; a bare object goes through cloudpickle. -/
def pickleNow (rt : Obj → Obj) : Val → Val
  | .raw o => .raw (rt o)
  | .wrap _ keep v => rebuild (trip rt) (reduce keep v)

/-- a history is played on a session: the live wrapper (held by the sender) and the copies received so
far, oldest first -/
structure Session where
  live : Val
  got : List Val

/-- apply `f` to the `j`-th element (nothing happens when there is no such element) -/
def modifyAt (f : Val → Val) : Nat → List Val → List Val
  | _, [] => []
  | 0, x :: xs => f x :: xs
  | j + 1, x :: xs => x :: modifyAt f j xs

/-- one event of a history -/
inductive HOp where
  /-- the wrapped object of the live wrapper changes state (through the wrapper or directly) -/
  | mutate (f : Obj → Obj)
  /-- `src = none`: the live wrapper is pickled and the copy received;
      `src = some j`: the `j`-th received copy is itself pickled (sent on / sent back) and received -/
  | pickle (src : Option Nat)
  /-- the object inside the `j`-th received copy changes state -/
  | mutateCopy (j : Nat) (f : Obj → Obj)

/-- the value an event `pickle src` serialises -/
def srcVal (s : Session) : Option Nat → Option Val
  | none => some s.live
  | some j => s.got[j]?

def hstep (rt : Obj → Obj) (s : Session) : HOp → Session
  | .mutate f => { s with live := mapCore f s.live }
  | .pickle src =>
    match srcVal s src with
    | some v => { s with got := s.got ++ [pickleNow rt v] }
    | none => s
  | .mutateCopy j f => { s with got := modifyAt (mapCore f) j s.got }

def hrun (rt : Obj → Obj) : Session → List HOp → Session
  | s, [] => s
  | s, op :: ops => hrun rt (hstep rt s op) ops

/-- the state of the live object after a history: only `mutate` events count -/
def liveMut : List HOp → Obj → Obj
  | [], o => o
  | .mutate f :: ops, o => liveMut ops (f o)
  | _ :: ops, o => liveMut ops o

/-- cloudpickle's round trip keeps the observable behaviour of a bare object (the hypothesis `rt x ≈ x`) -/
def Faithful (rt : Obj → Obj) : Prop :=
  ∀ o, (rt o).callable = o.callable ∧ (rt o).attr = o.attr ∧ (rt o).call = o.call

end LokyModel.Wrapper
