import LokyModel.Lemmas.ExecLiveWakeDefs
/-!
# Delivery clause of C08 — executable definitions

"Parallelism ≤ `max_workers` **and actually delivered**": the first half is `Props/C08.lean`.  The second half is
stated, like deadlock freedom, about states in which nothing *else* can move: if the only enabled steps are
completions of task bodies (`enabledNB s = []`), then `max_workers` bodies are running, or every unresolved future is
being run.

Import-light (model + the executable ingredients), so that `Drivers/LiveCheckDeliver.lean` can evaluate everything
here on random walks before / independently of the proofs in `Lemmas/ExecLiveDeliver*.lean`.
-/
namespace LokyModel.Exec

/-- the worker is inside a task body: the body has been started (`.task w t` → `.taskEnd w t` is the step that logs
    the execution) and has not returned -/
def inBody : WPc → Bool
  | .taskEnd _ _ => true
  | _ => false

/-- a step that completes a task body -/
def isBodyDone (s : St) : Actor × Variant → Bool
  | (.W p, .ok) => inBody (s.w p)
  | _ => false

/-- the enabled steps other than crashes and completions of task bodies -/
def enabledNB (s : St) : List (Actor × Variant) := (enabledNC s).filter fun av => !isBodyDone s av

/-- number of workers inside a task body -/
def nBodies (s : St) : Nat := (s.allPids.filter fun p => inBody (s.w p)).length

/-- work item `i` is being executed by some worker -/
def runningBody (s : St) (i : Wid) : Bool :=
  s.allPids.any fun p => match s.w p with
    | .taskEnd w _ => w == i
    | _ => false

/-- a user thread that is finished, or is inside `shutdown(wait=True)` / the interpreter-exit hook waiting for the
    manager thread to end (directly, or behind another such thread on the global shutdown lock) -/
def uParked : UPc → Bool
  | .done | .sdAcqG | .sdJoin | .peAcqG | .peJoin => true
  | _ => false

/-- what the delivery clause promises of a state in which only task bodies can move -/
def delivered (s : St) : Bool :=
  (nBodies s == s.cfg.maxWorkers ||
    (List.range s.futs.length).all (fun i => (futOf s i).done || runningBody s i)) &&
  (List.range s.cfg.scripts.length).all (fun k => uParked (s.upc k))

/-! ### the additional inductive ingredient: no lost refill

While the manager waits with work ids queued, either a wake-up that does not depend on a task body returning is on
its way (a byte in the wake-up pipe, a result message, a thread that still owes the wake-up), or the call queue has
no more free slots than there are workers holding a call item they have taken out of it and not yet answered.  -/

/-- a worker that has taken a call item out of the call queue (slot given back) and has not yet sent its result -/
def wPost : WPc → Nat
  | .task _ _ | .taskEnd _ _ | .rAcq _ _ _ | .rSend _ _ _ => 1
  | _ => 0
def nPost (s : St) : Nat := sumL (fun p => wPost (s.w p)) s.allPids

/-- a wake-up is on its way that does not need a task body to return -/
def wakeNB (s : St) : Bool :=
  decide (0 < s.wakeup) || !s.rqPipe.isEmpty || (List.range s.cfg.scripts.length).any (fun k => uOwes2 s (s.upc k)) ||
  fOwes s.fpc

def refillOk (s : St) : Bool :=
  match s.mpc with
  | .wait _ => s.workIds.isEmpty || wakeNB s || decide (s.cqSem ≤ nPost s)
  | _ => true

end LokyModel.Exec
