import LokyModel.ExecLiveMeasureDef
/-!
# The termination measure for static pools whose workers may die (executable part)

`mu` (`LokyModel/ExecLiveMeasureDef.lean`) gives rank `0` to the program counters of the manager's broken path
(`thread_wakeup.clear()` on the way to `terminate_broken`, `terminate_broken` itself, the kill loop of `kill_workers`):
a static pool never gets there without a death.  With deaths it does, exactly once: the manager sees a dead worker's
sentinel in `wait`, clears the wake-up pipe, flags the pool broken (`brkAcq`), fails the pending futures (`brkRel`), then
pops, kills and joins every registered worker and enters `join_executor_internals`.

`muC = mu + mRankBrk + brkTok`:
* `mRankBrk` ranks the broken path.  Up to `brkAcq` it lies just below the manager's `wait` (`waitR B`); the kill loop
  costs two steps per registered process and ends at `jAcq1`, whose rank is `joinR B = waitR B - 1`, so it lies *above*
  `waitR B`;
* the difference (`2 * B + 5`) is paid by a token `brkTok` that exists as long as the pool is not flagged broken and is
  consumed by the one step that sets the flag (`brkAcq`).

Every other rank and weight is that of `mu`, so that the step lemmas of `Lemmas/ExecLiveMeasure*.lean` are reused as
they are.  Import-free apart from the model: `Drivers/LiveCheckMeasureC.lean` evaluates it on random walks with crashes.
-/
namespace LokyModel.Exec

/-- rank of the manager on the broken path: `B = max_workers`, `pd` registered processes -/
def mRankBrk (B pd : Nat) : MPc → Nat
  | .clrPoll (.broken _) => waitR B - 1
  | .clrRecv (.broken _) => waitR B - 2
  | .brkAcq _ => waitR B - 2
  | .brkRel _ => waitR B + 2 * pd + 2
  | .kill _ => waitR B + 2 * pd + 1
  | .killJoin _ => waitR B + 2 * pd
  | _ => 0

/-- the token consumed by `terminate_broken` when it flags the pool -/
def brkTok (s : St) : Nat := if s.broken.isNone then 2 * s.cfg.maxWorkers + 5 else 0

/-- **the termination measure, worker deaths included** -/
def muC (s : St) : Nat := mu s + mRankBrk s.cfg.maxWorkers s.procDict.length s.mpc + brkTok s

end LokyModel.Exec
