/-!
# M8 — how a `LokyProcess` is launched and reaped (POSIX)

Hand transcription of

* `loky/backend/popen_loky_posix.py` — `Popen._launch` (which descriptors are collected in
  `self._fds` and handed to `fork_exec`), `Popen.duplicate_for_child`, `Popen.poll` / `wait`
  (wait status → `returncode`);
* `loky/backend/fork_exec.py` — `fork_exec(cmd, keep_fds, env)`: `pass_fds =
  tuple(sorted(map(int, keep_fds)))`, `close_fds=True`, `env = {**os.environ, **(env or {})}`;
* `loky/backend/process.py` — `LokyProcess(init_main_module=False, env=None)`,
  `LokyInitMainProcess`;
* `loky/backend/spawn.py` — the main-module part of `get_preparation_data` and the matching part
  of `prepare` (`_fixup_main_from_name`, `_fixup_main_from_path`).

Everything read from the outside world is an explicit parameter.  `_posixsubprocess.fork_exec` is
*assumed* to do what its arguments say (`forkExec` below is that assumption written down):
it rejects a `pass_fds` tuple that is not strictly increasing, and otherwise the child keeps
exactly the parent's open descriptors that are in `pass_fds` (made inheritable by the C code) or
that are inheritable and either ≤ 2 or `close_fds` is false.

Import-free on purpose (compiled into `Drivers/SpawnDriver.lean`).
-/
namespace LokyModel.Spawn

/-! ## (a) descriptors -/

/-- the parent's descriptor table: `(fd, inheritable)`; an fd that is absent is closed -/
abbrev FdTable := List (Nat × Bool)

def isOpen (t : FdTable) (fd : Nat) : Bool := t.any (fun e => e.1 == fd)

def isInheritable (t : FdTable) (fd : Nat) : Bool := t.any (fun e => e.1 == fd && e.2)

/-- what `_launch` knows when it calls `fork_exec` -/
structure Launch where
  /-- `self._fds` after `reduction.dump(prep_data)` and `reduction.dump(process_obj)`: one entry per
      `duplicate_for_child(fd)` call made by the reducers (`reduction.DupFd` for connections and
      sockets, `SemLock` handles …), in call order -/
  dupFds    : List Nat
  /-- `child_r, parent_w = os.pipe()` — the payload pipe's read end (`--pipe <child_r>`) -/
  childR    : Nat
  /-- `parent_r, child_w = os.pipe()` — the write end whose closing makes the sentinel ready -/
  childW    : Nat
  /-- `resource_tracker._resource_tracker.getfd()` -/
  tracker   : Nat
  /-- `prep_data["mp_tracker_args"]["fd"]` (Python ≥ 3.8 on POSIX: always present) -/
  mpTracker : Option Nat
deriving Repr, DecidableEq

/-- `self._fds` at the `fork_exec` call:
    `self._fds += [child_r, child_w, tracker_fd]; self.duplicate_for_child(mp_tracker_fd)` -/
def keepList (l : Launch) : List Nat :=
  l.dupFds ++ [l.childR, l.childW, l.tracker] ++ l.mpTracker.toList

/-- insertion into an ascending list -/
def insertSorted (a : Nat) : List Nat → List Nat
  | [] => [a]
  | b :: t => if a ≤ b then a :: b :: t else b :: insertSorted a t

/-- `tuple(sorted(map(int, keep_fds)))` (ascending, duplicates kept) -/
def passFds (keep : List Nat) : List Nat := keep.foldr insertSorted []

/-- `_posixsubprocess`'s sanity check of `pass_fds` (`iter_fd <= prev_fd` ⇒ `ValueError: bad
    value(s) in fds_to_keep`): the tuple must be strictly increasing -/
def strictInc : List Nat → Bool
  | [] => true
  | [_] => true
  | a :: b :: t => decide (a < b) && strictInc (b :: t)

/-- ASSUMED behaviour of `_posixsubprocess.fork_exec(args, exe, close_fds, pass_fds, …)` as loky
    calls it (no stdio redirection, no `preexec_fn`): `none` = `ValueError`; otherwise the child's
    open descriptors, in the order of the parent's table. -/
def forkExec (closeFds : Bool) (pass : List Nat) (t : FdTable) : Option (List Nat) :=
  if strictInc pass then
    some ((t.filter (fun e => pass.contains e.1 || (e.2 && (decide (e.1 ≤ 2) || !closeFds)))).map (·.1))
  else none

/-- `fork_exec(cmd, keep_fds, env)` of `loky/backend/fork_exec.py`: `close_fds` is the literal `True` -/
def lokyForkExec (keep : List Nat) (t : FdTable) : Option (List Nat) :=
  forkExec true (passFds keep) t

/-- descriptors of the freshly exec'ed child of `Popen._launch` -/
def childFds (l : Launch) (t : FdTable) : Option (List Nat) := lokyForkExec (keepList l) t

/-! ## (b) environment -/

abbrev Env := List (String × String)

def Env.get (e : Env) (k : String) : Option String := e.lookup k

def Env.hasKey (e : Env) (k : String) : Bool := (e.lookup k).isSome

/-- `{**os.environ, **env}` with Python's dict order: the parent's keys first (value replaced when
    the overlay has the key), then the overlay's new keys in their order -/
def mergeEnv (parent overlay : Env) : Env :=
  parent.map (fun kv => (kv.1, (overlay.get kv.1).getD kv.2))
    ++ overlay.filter (fun kv => !parent.hasKey kv.1)

/-- `LokyProcess.__init__`: `self.env = {} if env is None else env`; `fork_exec`: `env = env or {}` -/
def childEnv (parent : Env) (overlay : Option Env) : Env :=
  mergeEnv parent (overlay.getD [])

/-- `encoded_env`: one `key=value` entry per item -/
def encodeEnv (e : Env) : List String := e.map (fun kv => kv.1 ++ "=" ++ kv.2)

/-! ## (c) wait status → exit code

Linux encoding of a 16-bit wait status and the `os.W*` macros used by `Popen.poll`:
`WTERMSIG = s & 0x7f`, `WIFEXITED = (WTERMSIG == 0)`,
`WIFSIGNALED = ((signed char)((s & 0x7f) + 1) >> 1) > 0` (termination signal 1…126),
`WEXITSTATUS = (s >> 8) & 0xff`. -/

def wTermSig (s : Nat) : Nat := s &&& 0x7f
def wIfExited (s : Nat) : Bool := wTermSig s == 0
def wIfSignaled (s : Nat) : Bool := decide (0 < wTermSig s) && decide (wTermSig s < 0x7f)
def wExitStatus (s : Nat) : Nat := (s >>> 8) &&& 0xff

inductive Decoded
  | code (c : Int)
  | assertionError            -- `assert os.WIFEXITED(sts)` fails (stopped / continued status)
deriving Repr, DecidableEq

/-- the body of `if pid == self.pid:` in `Popen.poll` -/
def decode (s : Nat) : Decoded :=
  if wIfSignaled s then .code (-(wTermSig s : Int))
  else if wIfExited s then .code (wExitStatus s)
  else .assertionError

/-- what `os.waitpid(self.pid, flag)` did -/
inductive WaitRes
  | oserror                   -- `OSError` (e.g. ECHILD): `poll` returns `None`
  | notYet                    -- `(0, 0)`: child still running under `WNOHANG`
  | other (sts : Nat)         -- a pid different from `self.pid` (cannot happen; code ignores it)
  | mine (sts : Nat)          -- `(self.pid, sts)`
deriving Repr, DecidableEq

inductive PollOut
  | ret (rc : Option Int)     -- value returned; also the new `self.returncode`
  | assertionError
deriving Repr, DecidableEq

/-- `Popen.poll`: `rc` is `self.returncode` before the call; `waitpid` is consulted only when it
    is `None`. Returns the value returned, which is also `self.returncode` afterwards. -/
def poll (rc : Option Int) (w : WaitRes) : PollOut :=
  match rc with
  | some c => .ret (some c)
  | none =>
    match w with
    | .oserror => .ret none
    | .notYet => .ret none
    | .other _ => .ret none
    | .mine s =>
      match decode s with
      | .code c => .ret (some c)
      | .assertionError => .assertionError

/-! ## (d) the main module -/

/-- a process object as `_launch` sees it: `getattr(process_obj, "init_main_module", True)` -/
structure ProcObj where
  initMainAttr : Option Bool
deriving Repr, DecidableEq

/-- `LokyProcess(..., init_main_module=False)`: the constructor default is `False` -/
def lokyProcess (initMain : Option Bool := none) : ProcObj := ⟨some (initMain.getD false)⟩

/-- `LokyInitMainProcess(...)`: always `init_main_module=True` -/
def lokyInitMainProcess : ProcObj := ⟨some true⟩

/-- process class of a start method (`loky/backend/context.py`) -/
def processOfMethod (m : String) : Option ProcObj :=
  if m == "loky" then some (lokyProcess)
  else if m == "loky_init_main" then some lokyInitMainProcess
  else none

def effectiveInitMain (p : ProcObj) : Bool := p.initMainAttr.getD true

/-- the parent's `__main__` as `get_preparation_data` reads it -/
structure MainInfo where
  specName : Option String    -- `sys.modules['__main__'].__spec__.name` (None when no spec)
  file     : Option String    -- `__main__.__file__`, already absolute and normalised
deriving Repr, DecidableEq

/-- which main-module key the preparation data carries -/
inductive MainKey
  | none
  | fromName (n : String)     -- `init_main_from_name`
  | fromPath (p : String)     -- `init_main_from_path`
deriving Repr, DecidableEq

/-- the last block of `get_preparation_data(name, init_main_module)` (POSIX) -/
def mainKey (initMain : Bool) (m : MainInfo) : MainKey :=
  if initMain then
    match m.specName with
    | some n => .fromName n
    | none =>
      match m.file with
      | some p => .fromPath p
      | none => .none
  else .none

/-- the child's own `__main__` before `prepare` (it was started as
    `python -m loky.backend.popen_loky_posix`) -/
structure ChildMain where
  specName : Option String
  file     : Option String
  /-- `os.path.splitext(os.path.basename(main_path))[0]` of the *parent's* path, an input because
      path splitting is not modelled -/
  parentStem : String
deriving Repr, DecidableEq

/-- does `prepare(data)` execute the parent's main script/module again (as `__mp_main__`)? -/
def rerunsMain (k : MainKey) (c : ChildMain) : Bool :=
  match k with
  | .none => false
  | .fromName n =>
    if n == "__main__" || n.endsWith ".__main__" then false
    else if c.specName == some n then false
    else true
  | .fromPath p =>
    if c.parentStem == "ipython" then false
    else if c.file == some p then false
    else true

/-- `_launch` + child bootstrap: is the parent's main re-run in the child of process object `p`? -/
def childRerunsMain (p : ProcObj) (m : MainInfo) (c : ChildMain) : Bool :=
  rerunsMain (mainKey (effectiveInitMain p) m) c

end LokyModel.Spawn
