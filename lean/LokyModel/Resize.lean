/-!
# M1Z — `_ReusablePoolExecutor._resize` as a program-counter machine of ONE thread

`loky/reusable_executor.py::_resize` (with `_wait_job_completion`) and `process_executor.py::_adjust_process_count`,
at the level of the *announced operations* of the thread that executes the call.  The thread is pre-empted only at
these operations; the pure-Python code between two of them runs atomically with the operation that precedes it.
Hence every decision of the thread reads the shared state **as it is right after its previous operation completed**:
that observation is the input `Env`, supplied by the environment (adversarially in the theorems, from the real run in
the correspondence check).  The machine never writes an `Env`; its own writes (`_max_workers = new`, the registration
of a spawned worker) show up in the observations the environment hands back.

`next new pc e` = (the operation announced next, the program counter after announcing it), where `e` is the
observation made after the previous operation.  The RESULT of the previous operation is part of that observation
when it matters: `lastAlive` (what `Process.is_alive()` returned — it is called on the process OBJECT held in the
snapshot, so it has nothing to do with the worker still being registered) and `lastTimeout` (the put timed out).
`procs` is what the code reads from the dict: `len(self._processes)` and the snapshots
`list(self._processes.values())`, of which only the pids matter (the Bool is not read by `next`).  Import-free.
-/
namespace LokyModel.Resize

structure Env where
  pending  : Nat := 0               -- len(_pending_work_items)
  procs    : List (Nat × Bool) := []   -- registered workers in dict order: (pid, flag); the flag is not read by `next`
  broken   : Bool := false
  shutdown : Bool := false
  mw       : Nat := 0               -- executor._max_workers
  started  : Bool := false          -- the manager thread exists
  feeder   : Bool := false          -- the call queue's feeder thread has been started
  nextPid  : Nat := 0               -- pid the next spawned worker gets
  lastTimeout : Bool := false       -- the thread's PREVIOUS operation ended with its time-out variant
                                    -- (only `acquire(cq.sem,B,T)` can)
  lastAlive : Bool := true          -- result of the thread's PREVIOUS operation when that was an `alive(p)`
                                    -- (only read by the two pcs that have just announced an `alive`)
deriving Repr, DecidableEq, Inhabited

inductive Label
  | acqExec | relExec | sleep | acqMgmt | relMgmt | alive (p : Nat) | acqCqSem | tstartF
  | acqShut | relShut | acqExit (p : Nat) | pstart | sendWakeup | ret
deriving Repr, DecidableEq, Inhabited

/-- exactly as the harness prints the operation -/
def Label.render : Label → String
  | .acqExec => "acquire(execlock,B)"
  | .relExec => "release(execlock)"
  | .sleep => "sleep"
  | .acqMgmt => "acquire(mgmt,B)"
  | .relMgmt => "release(mgmt)"
  | .alive p => "alive(" ++ toString p ++ ")"
  | .acqCqSem => "acquire(cq.sem,B,T)"
  | .tstartF => "tstart(F)"
  | .acqShut => "acquire(shut,B)"
  | .relShut => "release(shut)"
  | .acqExit p => "acquire(exit[" ++ toString p ++ "],B)"
  | .pstart => "pstart"
  | .sendWakeup => "send(wakeup)"
  | .ret => "return"

/-- where the thread is: named after the operation it announced last -/
inductive Pc
  | entry                                            -- nothing announced yet
  | locked                                           -- `acquire(execlock,B)`: the two early-return tests come next
  | jobWait                                          -- a `sleep` of `_wait_job_completion`
  | mgmtHeld                                         -- `acquire(mgmt,B)`: the snapshot is taken next
  | scan (cur : Nat) (todo : List Nat) (cnt : Nat)   -- `alive(cur)` of the counting scan; `cnt` alive before it
  | sentAcq (rem : Nat)                              -- `acquire(cq.sem,B,T)` of a `put(None, timeout)`; `rem` more sentinels to come
  | sentFed (rem : Nat)                              -- `tstart(F)` inside that put; `rem` more puts to come
  | depart                                           -- `release(mgmt)` or a `sleep` of the departure wait
  | shutHeld                                         -- `acquire(shut,B)`
  | spawnAcq                                         -- `acquire(exit[p],B)`
  | spawned                                          -- `pstart` (the new worker is registered in the same step)
  | woke                                             -- `send(wakeup)`
  | arrive                                           -- `release(shut)` or a `sleep` of the arrival wait
  | arrScan (cur : Nat) (todo : List Nat)            -- `alive(cur)` of the arrival wait's `all(...)`
  | done                                             -- `release(execlock)`: only `return` is left
deriving Repr, DecidableEq, Inhabited

def flagged (e : Env) : Bool := e.broken || e.shutdown

/-- `list(self._processes.values())`: the pids in dict order -/
def pids (e : Env) : List Nat := e.procs.map Prod.fst

/-- `while self._pending_work_items: sleep` -/
def jobStep (e : Env) : Label × Pc :=
  if e.pending = 0 then (.acqMgmt, .mgmtHeld) else (.sleep, .jobWait)

/-- `for _ in range(new, nb_alive): while not flagged: try: put(None, timeout); break; except Full: pass` with `rem`
    sentinels still to post, on the observation `e`.  A flagged observation skips the sentinel without any operation,
    and then all the following ones too (each re-checks the flags on the SAME observation), so the lock is released. -/
def sentStep (rem : Nat) (e : Env) : Label × Pc :=
  match rem with
  | 0 => (.relMgmt, .depart)
  | r + 1 => if flagged e then (.relMgmt, .depart) else (.acqCqSem, .sentAcq r)

/-- the counting scan visits EVERY snapshot member; at its end `_max_workers = new` and the sentinel loop starts -/
def scanStep (new : Nat) (todo : List Nat) (cnt : Nat) (e : Env) : Label × Pc :=
  match todo with
  | [] => sentStep (cnt - new) e
  | p :: ps => (.alive p, .scan p ps cnt)

/-- `_adjust_process_count`: `while len(self._processes) < self._max_workers` (which is `new` by then), re-read at
    every iteration; once it fails the manager thread is woken -/
def spawnStep (new : Nat) (e : Env) : Label × Pc :=
  if e.procs.length < new then (.acqExit e.nextPid, .spawnAcq) else (.sendWakeup, .woke)

/-- `all(p.is_alive() for p in snapshot)` short-circuits: the rest of the snapshot, all before were alive -/
def arrStep : List Nat → Label × Pc
  | [] => (.relExec, .done)
  | p :: ps => (.alive p, .arrScan p ps)

def next (new : Nat) (pc : Pc) (e : Env) : Label × Pc :=
  match pc with
  | .entry => (.acqExec, .locked)
  | .locked =>
      if new = e.mw then (.relExec, .done)
      else if !e.started then (.relExec, .done)
      else jobStep e
  | .jobWait => jobStep e
  | .mgmtHeld => scanStep new (pids e) 0 e
  | .scan _ todo cnt => scanStep new todo (cnt + if e.lastAlive then 1 else 0) e
  | .sentAcq rem =>
      if e.lastTimeout then sentStep (rem + 1) e         -- `queue.Full`: the flags are re-checked, same sentinel again
      else if e.feeder then sentStep rem e               -- posted; on to the next sentinel
      else (.tstartF, .sentFed rem)                      -- posted, and the put starts the feeder thread first
  | .sentFed rem => sentStep rem e
  | .depart => if new < e.procs.length && !e.broken then (.sleep, .depart) else (.acqShut, .shutHeld)
  | .shutHeld => if flagged e then (.relShut, .arrive) else spawnStep new e
  | .spawnAcq => (.pstart, .spawned)
  | .spawned => spawnStep new e
  | .woke => (.relShut, .arrive)
  | .arrive => if flagged e then (.relExec, .done) else arrStep (pids e)
  | .arrScan _ todo => if e.lastAlive then arrStep todo else (.sleep, .arrive)
  | .done => (.ret, .done)

/-- a finite run: one observation per announced operation -/
def run (new : Nat) : Pc → List Env → List Label × Pc
  | pc, [] => ([], pc)
  | pc, e :: es =>
      let r := next new pc e
      let t := run new r.2 es
      (r.1 :: t.1, t.2)

/-- program counter before the `n`-th operation of the call, along an infinite stream of observations -/
def stFrom (new : Nat) (pc0 : Pc) (E : Nat → Env) : Nat → Pc
  | 0 => pc0
  | n + 1 => (next new (stFrom new pc0 E n) (E n)).2

/-- the `n`-th announced operation -/
def lbFrom (new : Nat) (pc0 : Pc) (E : Nat → Env) (n : Nat) : Label := (next new (stFrom new pc0 E n) (E n)).1

abbrev st (new : Nat) (E : Nat → Env) : Nat → Pc := stFrom new .entry E
abbrev lb (new : Nat) (E : Nat → Env) : Nat → Label := lbFrom new .entry E

/-- a stream from a finite list of observations, continued by `d` -/
def ofList (es : List Env) (d : Env) : Nat → Env := fun n => es.getD n d

end LokyModel.Resize
