import LokyModel.ExecLive
/-! More executable ingredients of the deadlock-freedom argument (kept apart from `ExecLive.lean` only so that the
    files depending on that one need not be rebuilt). -/
namespace LokyModel.Exec

/-- a thread inside `shutdown()` past its first lock section has raised the shutdown flag; a thread inside the
    interpreter-exit hook has set the global flag -/
def uFlagged : UPc → Bool
  | .sdRel1 _ | .sdAcq2 _ | .sdWake _ | .sdRel2 _ | .sdAcqG | .sdJoin | .sdRelG => true
  | _ => false
def uGlobal : UPc → Bool
  | .peAcq | .peWake | .peRel | .peAcqG | .peJoin | .peRelG => true
  | _ => false
def flagOk (s : St) : Bool :=
  (List.range s.cfg.scripts.length).all fun k =>
    (!uFlagged (s.upc k) || s.shutdownFlag) && (!uGlobal (s.upc k) || s.globalShutdown)

end LokyModel.Exec
