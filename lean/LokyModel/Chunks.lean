/-!
# M2 — the chunking pipeline behind `ProcessPoolExecutor.map`

Hand transcription of `_get_chunks`, `_process_chunk`, `_chain_from_iterable_of_lists` and of
the argument check + glue of `ProcessPoolExecutor.map` in `loky/process_executor.py`:

```python
def _get_chunks(chunksize, *iterables):
    it = zip(*iterables)
    while True:
        chunk = tuple(itertools.islice(it, chunksize))
        if not chunk:
            return
        yield chunk

def _process_chunk(fn, chunk):
    return [fn(*args) for args in chunk]

def _chain_from_iterable_of_lists(iterable):
    for element in iterable:
        element.reverse()
        while element:
            yield element.pop()

def map(self, fn, *iterables, **kwargs):
    ...
    if chunksize < 1:
        raise ValueError("chunksize must be >= 1.")
    results = super().map(partial(_process_chunk, fn), _get_chunks(chunksize, *iterables), timeout=timeout)
    return _chain_from_iterable_of_lists(results)
```

A *row* is one tuple produced by `zip(*iterables)`; the row type `ρ` is arbitrary (so the element
types of the iterables are arbitrary), and `zipAll` builds the rows from a list of lists of one
element type.  The mapped function may raise: `fn : ρ → Except ε β`.

What stands between `_get_chunks` and `_chain_from_iterable_of_lists` in the real code —
`Executor.map`, i.e. one `submit` per chunk and a result iterator that yields `future.result()`
in submission order — is represented here by "the i-th result is the outcome of
`_process_chunk` on the i-th chunk"; that this is what the executor delivers is the subject of
the executor-protocol part of C03 (model M1), not of this file.

Import-free on purpose: `Drivers/ChunksDriver.lean` is compiled to a native executable.
-/
namespace LokyModel.Chunks

/-! ## `zip(*iterables)` -/

/-- `zip(*iterables)` over a list of iterables with elements of one type: the i-th row holds the
    i-th element of every iterable; stops at the shortest.  `zip()` of nothing is empty. -/
def zipAll : List (List α) → List (List α)
  | [] => []
  | [l] => l.map fun x => [x]
  | l :: l' :: rest => List.zipWith (· :: ·) l (zipAll (l' :: rest))

/-! ## `_get_chunks` -/

/-- the `while True` loop of `_get_chunks` over the rows that `zip` still has to deliver:
    `islice(it, c)` takes up to `c` rows; an empty chunk ends the generator.
    (`c = 0`: the first `islice` is empty, so nothing is ever yielded.) -/
def getChunks (c : Nat) (rows : List ρ) : List (List ρ) :=
  if _h : (rows.take c).isEmpty then []
  else rows.take c :: getChunks c (rows.drop c)
termination_by rows.length
decreasing_by
  cases rows with
  | nil => simp at _h
  | cons r rs =>
    cases c with
    | zero => simp at _h
    | succ c => simp only [List.drop_succ_cons, List.length_drop, List.length_cons]; omega

/-- `_get_chunks` called with an arbitrary Python integer: `islice` rejects a negative stop with
    `ValueError` (`none`) before looking at the iterator -/
def getChunksInt (c : Int) (rows : List ρ) : Option (List (List ρ)) :=
  if c < 0 then none else some (getChunks c.toNat rows)

/-! ## `_process_chunk` -/

/-- `[fn(*args) for args in chunk]`: evaluated left to right, the first exception aborts the
    comprehension and is the outcome of the whole chunk -/
def processChunk (fn : ρ → Except ε β) : List ρ → Except ε (List β)
  | [] => .ok []
  | r :: rs =>
    match fn r with
    | .error e => .error e
    | .ok v =>
      match processChunk fn rs with
      | .error e => .error e
      | .ok vs => .ok (v :: vs)

/-! ## `_chain_from_iterable_of_lists` -/

/-- `while element: yield element.pop()` — `list.pop()` removes and returns the *last* item -/
def popAll (l : List β) : List β :=
  if h : l = [] then [] else l.getLast h :: popAll l.dropLast
termination_by l.length
decreasing_by
  cases l with
  | nil => exact absurd rfl h
  | cons x xs => simp [List.length_dropLast]

/-- what one `element` of the outer loop contributes: `element.reverse()` then pop until empty -/
def drainElement (l : List β) : List β := popAll l.reverse

/-- the outer loop over the result iterator of `Executor.map`.  An element of the iterator is
    either a list (`.ok`) or the exception re-raised by `future.result()` (`.error`), which
    propagates out of the generator: the values yielded so far, and the exception if any. -/
def chain : List (Except ε (List β)) → List β × Option ε
  | [] => ([], none)
  | .error e :: _ => ([], some e)
  | .ok l :: rest => (drainElement l ++ (chain rest).1, (chain rest).2)

/-! ## `ProcessPoolExecutor.map` -/

/-- what a caller of `executor.map(fn, *iterables, chunksize=c)` observes -/
inductive MapResult (ε : Type u) (β : Type v)
  | valueError                                       -- raised by the call itself
  | result (yielded : List β) (raised : Option ε)    -- items of the iterator, then exhaustion or an exception
deriving Repr, DecidableEq

/-- `map` on the rows of `zip(*iterables)` -/
def mapRows (chunksize : Int) (fn : ρ → Except ε β) (rows : List ρ) : MapResult ε β :=
  if chunksize < 1 then .valueError
  else
    let r := chain ((getChunks chunksize.toNat rows).map (processChunk fn))
    .result r.1 r.2

/-- `executor.map(fn, *iterables, chunksize=c)` -/
def map (chunksize : Int) (fn : List α → Except ε β) (iterables : List (List α)) : MapResult ε β :=
  mapRows chunksize fn (zipAll iterables)

end LokyModel.Chunks
