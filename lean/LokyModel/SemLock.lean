/-!
# M5a — sequential semantics of `_multiprocessing.SemLock` as used by loky's
`Lock`, `RLock`, `Semaphore`, `BoundedSemaphore` (loky/backend/synchronize.py:61-235)

A `SemLock` object is a kernel counting semaphore (`value`) plus three fields kept in the
Python object: `kind`, `maxvalue`, and the pair (`count`, `lastTid`) that CPython's
`semaphore.c` maintains (`++count; last_tid = me` on a successful acquire, `--count` on release;
`ISMINE = count > 0 && last_tid == me`).

* `Lock()`             = `SemLock(SEMAPHORE, 1, 1)`
* `RLock()`            = `SemLock(RECURSIVE_MUTEX, 1, 1)`
* `Semaphore(n)`       = `SemLock(SEMAPHORE, n, SEM_VALUE_MAX)`
* `BoundedSemaphore(n)`= `SemLock(SEMAPHORE, n, n)`

Only the outcome of an operation at the instant it is performed is modelled: an acquire either
succeeds now or *would block* (`none` for a blocking acquire, `false` for `acquire(False)` /
`acquire(True, 0)`).  Import-free.
-/
namespace LokyModel.SemLock

/-- CPython: `RECURSIVE_MUTEX, SEMAPHORE = range(2)` -/
inductive Kind where
  | recursiveMutex
  | semaphore
  deriving DecidableEq, Repr

/-- `SEM_VALUE_MAX` on Linux -/
def semValueMax : Nat := 2147483647

structure SL where
  kind : Kind
  value : Nat
  maxvalue : Nat
  /-- `self->count`: acquisitions minus releases done through this object (may go negative
      for a `Semaphore` that is released before it is acquired) -/
  count : Int
  /-- `self->last_tid`: the last thread whose acquire succeeded -/
  lastTid : Nat
  deriving DecidableEq, Repr

def mkLock : SL := ⟨.semaphore, 1, 1, 0, 0⟩
def mkRLock : SL := ⟨.recursiveMutex, 1, 1, 0, 0⟩
def mkSemaphore (n : Nat) : SL := ⟨.semaphore, n, semValueMax, 0, 0⟩
def mkBounded (n : Nat) : SL := ⟨.semaphore, n, n, 0, 0⟩

/-- `_semlock._is_mine()` evaluated by thread `t` -/
def isMine (s : SL) (t : Nat) : Bool := decide (0 < s.count) && s.lastTid == t

/-- would `acquire` by thread `t` succeed right now? -/
def canAcquire (s : SL) (t : Nat) : Bool :=
  (s.kind == .recursiveMutex && isMine s t) || decide (0 < s.value)

/-- the state after a *successful* acquire by `t` -/
def acquired (s : SL) (t : Nat) : SL :=
  if s.kind == .recursiveMutex && isMine s t then { s with count := s.count + 1 }
  else { s with value := s.value - 1, count := s.count + 1, lastTid := t }

/-- `acquire(False)` (also `acquire(True, 0)`): never blocks -/
def tryAcquire (s : SL) (t : Nat) : SL × Bool :=
  if canAcquire s t then (acquired s t, true) else (s, false)

/-- outcome of `release()` -/
inductive RelResult where
  | ok
  /-- `ValueError("semaphore or lock released too many times")` -/
  | tooMany
  /-- `AssertionError("attempt to release recursive lock not owned by thread")` -/
  | notOwner
  deriving DecidableEq, Repr

def release (s : SL) (t : Nat) : SL × RelResult :=
  match s.kind with
  | .recursiveMutex =>
    if !isMine s t then (s, .notOwner)
    else if 1 < s.count then ({ s with count := s.count - 1 }, .ok)
    else ({ s with value := s.value + 1, count := s.count - 1 }, .ok)
  | .semaphore =>
    if s.maxvalue ≤ s.value then (s, .tooMany)
    else ({ s with value := s.value + 1, count := s.count - 1 }, .ok)

/-! ### traces: operations by numbered threads on one object -/

inductive Op where
  /-- `acquire(False)` or `acquire(True, 0)` by the thread -/
  | tryAcq (t : Nat)
  | rel (t : Nat)
  deriving DecidableEq, Repr

inductive Res where
  | acq (ok : Bool)
  | rel (r : RelResult)
  deriving DecidableEq, Repr

def stepOp (s : SL) : Op → SL × Res
  | .tryAcq t => let (s', b) := tryAcquire s t; (s', .acq b)
  | .rel t => let (s', r) := release s t; (s', .rel r)

def run (s : SL) : List Op → SL × List Res
  | [] => (s, [])
  | o :: os =>
    let (s1, r) := stepOp s o
    let (s2, rs) := run s1 os
    (s2, r :: rs)

/-- final state only -/
def exec (s : SL) (os : List Op) : SL := os.foldl (fun s o => (stepOp s o).1) s

end LokyModel.SemLock
