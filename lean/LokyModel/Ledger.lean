/-!
# Ghost ledger of the parent-side resources of an executor (model for C20, import-free)

What a `ProcessPoolExecutor` / `_ReusablePoolExecutor` holds in the *parent* process, and where each
entry is taken and released (line numbers of `loky/process_executor.py` unless said otherwise):

| entry | taken | released |
|---|---|---|
| wake-up pipe (2 fds) | `_ThreadWakeup.__init__` l.120-123, from `__init__` l.1160 | `thread_wakeup.close()` in `join_executor_internals` l.943-944 |
| call queue pipe (2 fds) | `_setup_queues` l.1171-1189 → `mp.Queue.__init__` (`connection.Pipe`) | `call_queue.close()` l.935 (reader) and the feeder thread on its sentinel (writer) |
| call queue semaphores (3: rlock, wlock, bounded sem) | same | finalizers of the SemLocks when the queue object is collected: after `shutdown()` dropped `_call_queue` l.1354 *and* the manager thread (which also references it, l.594) *and* the feeder thread are gone |
| result queue pipe (2 fds), semaphores (2) | `SimpleQueue(...)` l.1191-1193 | `result_queue.close()` l.940; semaphores as above (l.1355) |
| `_processes_management_lock` (1 semaphore) | l.1148 | collected after l.1356 and the manager's reference l.611 are gone |
| per worker: child process, sentinel fd, `worker_exit_lock` semaphore | `_adjust_process_count` l.1225-1252 (`Popen._launch`, `popen_loky_posix.py` l.110-145) | `p.join()` (reaps) then drop of the Process object: idle/sentinel exit `process_result_item` l.750-770; forced `kill_workers` l.867-877 (`kill_process_tree` ends with `process.join()`, `backend/utils.py` l.51, 74); final `join_executor_internals` l.948-958; the sentinel fd is closed by the `Popen` finalizer `popen_loky_posix.py` l.142 |
| `ExecutorManagerThread` | `_start_executor_manager_thread` l.1195-1201 | returns after `join_executor_internals` (l.636-641) or `terminate_broken` (l.625-627, l.816-840); joined by `shutdown(wait=True)` l.1340-1345 or `_python_exit` l.187-211 |
| `QueueFeederThread` | first `put` on the call queue (`backend/queues.py` l.68-92), at the latest the shutdown sentinels in `shutdown_workers` l.906 | `call_queue.close()` puts the sentinel, the thread closes the writer and ends **on its own**: `join_thread()` l.936 is a no-op in the parent, because loky's `_start_thread` installs `_jointhread` only in processes that did *not* create the queue (`backend/queues.py` l.100-107; CPython installs it always).  Until it ends the thread keeps the call queue object alive (its `onerror` argument is a bound method of the queue): op `feederExit` |

(line numbers as of /repo commit 0bcf887)

Quirk transcribed as it is: when a worker dies *by itself* (crash, external kill), `terminate_broken` first
formats the exit codes (`get_exitcodes_terminated_worker` → `p.exitcode` → `waitpid`: the zombie is reaped),
then `kill_workers` → `kill_process_tree(p)` finds no such process any more and **returns before
`process.join()`** (`backend/utils.py` l.33-37; exit codes: `process_executor.py` l.722).  The `Process` object therefore stays in
`multiprocessing.process._children` — with its sentinel fd and its exit-lock semaphore — until the next
`Process.start()` / `active_children()` runs `_cleanup()`.  Field `lingering`; cleared by `spawn`.

References: CPython closes a `Connection` and runs a SemLock finalizer as soon as the object is
unreferenced, so an entry also disappears when *both* the executor (`execRefs`) and the manager thread
(`mgrRefs`) have let go of it; the ledger counts an fd / semaphore while it is open *and* referenced.
-/
namespace LokyModel.Ledger

structure Counts where
  fds : Nat := 0
  threads : Nat := 0
  children : Nat := 0
  sems : Nat := 0
  deriving DecidableEq, Repr, Inhabited

instance : Add Counts := ⟨fun a b => ⟨a.fds + b.fds, a.threads + b.threads, a.children + b.children, a.sems + b.sems⟩⟩

/-- parent-side state of one executor -/
structure Exec where
  wakeup : Bool := false      -- wake-up pipe open
  cqPipe : Bool := false      -- call queue pipe open
  rqPipe : Bool := false      -- result queue pipe open
  qObjs : Bool := false       -- call queue, result queue and management lock objects exist (6 named semaphores)
  feeder : Bool := false      -- QueueFeederThread running
  blocked : Bool := false     -- … and inside `send_bytes` of an item larger than the pipe buffer that nobody reads
  manager : Bool := false     -- ExecutorManagerThread running
  workers : Nat := 0          -- Process objects in `_processes`: child (live or zombie) + sentinel fd + exit-lock semaphore each
  execRefs : Bool := false    -- the executor object still references the queues, the lock, the wake-up pipe
  mgrRefs : Bool := false     -- the manager thread object still references them
  /-- process-wide, survives the executor: un-joined Process objects of workers that died by themselves,
      kept by `multiprocessing.process._children` (sentinel fd + exit-lock semaphore each, no child: already reaped) -/
  lingering : Nat := 0
  deriving DecidableEq, Repr, Inhabited

/-- somebody still references the queues, the lock and the wake-up pipe: the executor, the manager thread,
    or — for the call queue, which is what the abstraction `held` over-approximates to all of them — the
    running feeder thread -/
def Exec.held (e : Exec) : Bool := e.execRefs || e.mgrRefs || e.feeder

def b2n (b : Bool) : Nat := if b then 1 else 0

/-- the ledger: what the kernel would show for this executor in the parent -/
def counts (e : Exec) : Counts where
  fds := (if e.held then 2 * b2n e.wakeup + 2 * b2n e.cqPipe + 2 * b2n e.rqPipe else 0) + e.workers + e.lingering
  threads := b2n e.feeder + b2n e.manager
  children := e.workers
  sems := (if e.held && e.qObjs then 6 else 0) + e.workers + e.lingering

inductive Op
  | ctor            -- `ProcessPoolExecutor.__init__`
  | spawn           -- one iteration of `_adjust_process_count`
  | startManager    -- `_start_executor_manager_thread`
  | put             -- first `put` on the call queue: feeder thread starts
  | putBig          -- a task larger than the pipe buffer is queued while every worker is busy: the feeder blocks mid-send
  | serve           -- a worker becomes free and reads the call queue: a blocked feeder goes on
  | reapOne         -- `process_result_item` of a worker pid: pop, release exit lock, `join`
  | killWorkers     -- `kill_workers`: popitem + `kill_process_tree` (which joins) until empty
  | crashed         -- a worker died by itself and `terminate_broken` polled its exit code: reaped, never joined
  | joinInternals   -- `join_executor_internals` (the feeder thread is told to stop, not waited for)
  | feederExit      -- the feeder thread got its sentinel, closed the writer and ended
  | managerExit     -- the manager thread returns; its object goes away with the last reference
  | dropRefs        -- `shutdown()` l.1347-1356 nulls the attributes / the executor object is collected
  deriving DecidableEq, Repr, Inhabited

def apply (e : Exec) : Op → Exec
  | .ctor => { e with wakeup := true, cqPipe := true, rqPipe := true, qObjs := true, execRefs := true }
  | .spawn => { e with workers := e.workers + 1, lingering := 0 }    -- `BaseProcess.start` runs `_cleanup()` first
  | .startManager => { e with manager := true, mgrRefs := true }
  | .put => { e with feeder := e.cqPipe }
  | .putBig => { e with feeder := e.cqPipe, blocked := e.cqPipe }
  | .serve => { e with blocked := false }
  | .reapOne => { e with workers := e.workers - 1 }
  -- `kill_workers` ends with `self.call_queue._reader.close()`: a feeder blocked mid-send gets EPIPE, closes the
  -- writer and ends (the fix of D22; a feeder that is not blocked goes on waiting for its sentinel)
  | .killWorkers => { e with workers := 0, blocked := false, feeder := e.feeder && !e.blocked,
                             cqPipe := e.cqPipe && !e.blocked }
  | .crashed => if e.workers = 0 then e else { e with workers := e.workers - 1, lingering := e.lingering + 1 }
  | .joinInternals => { e with cqPipe := e.feeder, rqPipe := false, wakeup := false, workers := 0 }
  -- a feeder blocked in `send_bytes` does not see the sentinel `call_queue.close()` has queued
  | .feederExit => if e.blocked then e else { e with feeder := false, cqPipe := false }
  | .managerExit => { e with manager := false, mgrRefs := false }
  | .dropRefs => { e with execRefs := false }

def runOps (e : Exec) (ops : List Op) : Exec := ops.foldl apply e

/-- abstract lifecycles -/
inductive Life
  /-- `n` workers, `k` of them idle-time-out (or are resized away) and are reaped while the pool is in use,
      then `shutdown(wait=True)` -/
  | clean (n k : Nat)
  /-- `shutdown(kill_workers=True)` -/
  | kill (n : Nat)
  /-- `c` of the `n` workers die by themselves: `terminate_broken`; the user then calls `shutdown()` or
      `get_reusable_executor` replaces the broken instance (`reusable_executor.py` l.193-212) -/
  | broken (n c : Nat)
  /-- every worker idle-times-out, then the empty pool is shut down -/
  | idle (n : Nat)
  /-- the executor is released without `shutdown()`: the weakref callback (l.568-583) wakes the manager,
      which shuts the pool down by itself -/
  | dropped (n : Nat)
  /-- constructed and shut down without a single submit: no worker, no thread -/
  | unused
  /-- reusable executor resized from `n` to `m` workers, then replaced -/
  | resized (n m : Nat)
  deriving DecidableEq, Repr, Inhabited

def rep (n : Nat) (o : Op) : List Op := List.replicate n o

def prog : Life → List Op
  | .clean n k => [.ctor] ++ rep n .spawn ++ [.startManager, .put] ++ rep (min k n) .reapOne
                    ++ [.joinInternals, .managerExit, .dropRefs, .feederExit]
  | .kill n => [.ctor] ++ rep n .spawn ++ [.startManager, .put, .killWorkers, .joinInternals, .managerExit, .dropRefs, .feederExit]
  | .broken n c => [.ctor] ++ rep n .spawn ++ [.startManager, .put] ++ rep c .crashed
                    ++ [.killWorkers, .joinInternals, .managerExit, .dropRefs, .feederExit]
  | .idle n => [.ctor] ++ rep n .spawn ++ [.startManager, .put] ++ rep n .reapOne
                    ++ [.joinInternals, .managerExit, .dropRefs, .feederExit]
  | .dropped n => [.ctor] ++ rep n .spawn ++ [.startManager, .put, .dropRefs, .joinInternals, .feederExit, .managerExit]
  | .unused => [.ctor, .dropRefs]
  | .resized n m => [.ctor] ++ rep n .spawn ++ [.startManager, .put] ++ rep (n - m) .reapOne ++ rep (m - n) .spawn
                    ++ [.joinInternals, .managerExit, .dropRefs, .feederExit]

/-- one lifecycle in a process that already carries `l0` lingering Process objects -/
def runLife (l : Life) (l0 : Nat := 0) : Exec := runOps { lingering := l0 } (prog l)

/-- lingering objects after a sequence of lifecycles run one after the other -/
def lingerSeq (l0 : Nat) (ls : List Life) : Nat := ls.foldl (fun k l => (runLife l k).lingering) l0

def lingerCounts (k : Nat) : Counts := { fds := k, threads := 0, children := 0, sems := k }

/-- the process ledger once a sequence of lifecycles has completed, on top of `base` -/
def runSeq (base : Counts) (ls : List Life) : Counts := base + lingerCounts (lingerSeq 0 ls)

/-- does the lifecycle start at least one worker process? -/
def Life.spawns : Life → Bool
  | .clean n _ | .kill n | .broken n _ | .idle n | .dropped n => n != 0
  | .unused => false
  | .resized n m => n != 0 || m != 0

/-- a shutdown has completed and the executor has been released -/
def Released (e : Exec) : Prop :=
  e.manager = false ∧ e.feeder = false ∧ e.execRefs = false ∧ e.mgrRefs = false ∧ e.workers = 0

/-! ## oversized tasks queued behind busy workers (D22)

A task whose pickled arguments exceed the pipe buffer, queued while every worker is busy, leaves the
QueueFeederThread inside `send_bytes`.  It goes on when a worker reads (`serve`), or — since the fix of D22 —
when `kill_workers` closes the read end of the call queue (EPIPE).  It never sees the sentinel of
`call_queue.close()`. -/

/-- how a pool with an oversized queued task is torn down -/
inductive Route
  | sigkill        -- a worker is killed from outside: `terminate_broken`
  | killShutdown   -- `shutdown(kill_workers=True)`
  | replaceKill    -- `get_reusable_executor(kill_workers=True)` with other arguments: the same shutdown
  | graceful       -- the busy tasks end, the workers serve the queue, `shutdown(wait=True)`
  deriving DecidableEq, Repr, Inhabited

def progBig (r : Route) (n : Nat) : List Op :=
  [.ctor] ++ rep n .spawn ++ [.startManager, .put, .putBig] ++
    (match r with
     | .sigkill => [.crashed, .killWorkers, .joinInternals, .managerExit, .dropRefs, .feederExit]
     | .killShutdown | .replaceKill => [.killWorkers, .joinInternals, .managerExit, .dropRefs, .feederExit]
     | .graceful => [.serve, .joinInternals, .managerExit, .dropRefs, .feederExit])

def runBig (r : Route) (n : Nat) (l0 : Nat := 0) : Exec := runOps { lingering := l0 } (progBig r n)

/-- the tree before the fix of D22: `kill_workers` left the read end of the call queue open -/
def applyOld (e : Exec) : Op → Exec
  | .killWorkers => { e with workers := 0 }
  | op => apply e op

def runOpsOld (e : Exec) (ops : List Op) : Exec := ops.foldl applyOld e

/-! ## what the caller keeps: futures

A `Future` references its result or exception, nothing else.  What loky stores there (line numbers of
`process_executor.py`): a result unpickled from the result queue (l.812); a task exception rebuilt from the
pickled `_ExceptionWithTraceback` with a *textual* `_RemoteTraceback` cause (l.810); for arguments that cannot
be pickled a fresh `PicklingError` whose cause is the *formatted* traceback of the feeder thread's error
(`_on_queue_feeder_error` l.326-341 — not the error itself, whose traceback holds the frame of `Queue._feed`
and through its locals the call queue); for a result that cannot be pickled the same, built in the worker; for a
broken or killed pool an error object built by the manager thread from strings (l.697-740, l.873-879).  None of
them references the call queue, a pipe, a Process or a lock. -/

inductive FutKind
  | result | taskError | unsendableArgs | unpicklableResult | brokenPool | killedPool
  deriving DecidableEq, Repr, Inhabited

/-- does what a future of this kind stores reference the executor's call queue?  The code as it is: never. -/
def futurePins : FutKind → Bool := fun _ => false

/-- what kept futures add to the process ledger: a referenced call queue keeps its read end (closed only by
    its finalizer) and its three named semaphores -/
def keptCounts (pins : FutKind → Bool) (kept : List FutKind) : Counts :=
  { fds := (kept.filter pins).length, threads := 0, children := 0, sems := 3 * (kept.filter pins).length }

/-- the process ledger after a sequence of lifecycles of each of which the caller kept some futures -/
def runSeqKept (pins : FutKind → Bool) (base : Counts) (ls : List (Life × List FutKind)) : Counts :=
  runSeq base (ls.map Prod.fst) + keptCounts pins (ls.flatMap Prod.snd)

end LokyModel.Ledger
