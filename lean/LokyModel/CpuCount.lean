/-!
# M7 — `loky.backend.context.cpu_count`

Hand transcription of `cpu_count`, `_cpu_count_user`, `_cpu_count_cgroup`,
`_cpu_count_affinity` and `_count_physical_cores` (+ its module-level cache) of
`loky/backend/context.py`.  Everything the real functions read from the outside world is an
explicit input (`Cfg`); the cache is threaded through as state.

Import-free on purpose: the line-protocol driver `Drivers/CpuCountDriver.lean` is compiled
to a native executable.
-/
namespace LokyModel.CpuCount

/-- content of the cgroup quota field: the literal `max` or an integer -/
inductive Quota
  | max
  | val (q : Int)
deriving Repr, DecidableEq

/-- which cgroup files exist and what they contain (already `strip()`ed and `int()`ed;
    a content that `int()` rejects is outside the model, the harness never generates it) -/
inductive Cgroup
  | v2 (q : Quota) (p : Int)     -- `/sys/fs/cgroup/cpu.max` = "q p"
  | v1 (q : Quota) (p : Int)     -- `cpu.cfs_quota_us`, `cpu.cfs_period_us`
  | absent
deriving Repr, DecidableEq

/-- `LOKY_MAX_CPU_COUNT` -/
inductive EnvVal
  | absent
  | int (i : Int)
  | bad                           -- `int()` raises `ValueError`
deriving Repr, DecidableEq

/-- the module global `physical_cores_cache` -/
inductive Cache
  | empty                         -- `None`
  | found (n : Int)
  | notFound                      -- the string "not found"
deriving Repr, DecidableEq

/-- outcome of the platform probe `_count_physical_cores_linux()` -/
inductive Probe
  | ok (n : Int)
  | raises
deriving Repr, DecidableEq

structure Cfg where
  os     : Option Nat             -- `os.cpu_count()`
  aff    : Option Nat             -- `len(os.sched_getaffinity(0))`, `none` = not available
  cg     : Cgroup
  env    : EnvVal
  phys   : Bool                   -- `only_physical_cores`
  probe  : Probe
deriving Repr, DecidableEq

/-- `os.cpu_count() or 1` (Python truthiness: `None` and `0` both give 1) -/
def osCount (c : Cfg) : Int :=
  match c.os with
  | none => 1
  | some 0 => 1
  | some n => n

/-- exact integer ceiling of `q / p` for `p > 0` (`math.ceil(q / p)` in the code) -/
def ceilDiv (q p : Int) : Int := (q + p - 1) / p

def quotaCount (os : Int) (q : Quota) (p : Int) : Int :=
  match q with
  | .max => os
  | .val q => if q > 0 ∧ p > 0 then ceilDiv q p else os

/-- `_cpu_count_cgroup` -/
def cgroupCount (os : Int) : Cgroup → Int
  | .v2 q p => quotaCount os q p
  | .v1 q p => quotaCount os q p
  | .absent => os

/-- `_cpu_count_affinity` (Linux: `sched_getaffinity`, else the psutil / fall-through value) -/
def affinityCount (os : Int) : Option Nat → Int
  | some n => n
  | none => os

inductive Result
  | value (v : Int) (warned : Bool)
  | valueError
deriving Repr, DecidableEq

/-- `_cpu_count_user`; `none` when `int(os.environ[...])` raises -/
def userCount (c : Cfg) : Option Int :=
  let os := osCount c
  match c.env with
  | .bad => none
  | .absent => some (min (affinityCount os c.aff) (min (cgroupCount os c.cg) os))
  | .int e => some (min (affinityCount os c.aff) (min (cgroupCount os c.cg) e))

/-- `_count_physical_cores`: returns (value or not-found, exception?, new cache) -/
def countPhysical (cache : Cache) (p : Probe) : Option Int × Bool × Cache :=
  match cache with
  | .found n => (some n, false, cache)
  | .notFound => (none, false, cache)
  | .empty =>
    match p with
    | .ok n => if n < 1 then (none, true, .notFound) else (some n, false, .found n)
    | .raises => (none, true, .notFound)

/-- `cpu_count(only_physical_cores)` with the cache as explicit state -/
def cpuCount (c : Cfg) (cache : Cache) : Result × Cache :=
  let os := osCount c
  match userCount c with
  | none => (.valueError, cache)
  | some user =>
    let agg := max (min os user) 1
    if !c.phys then (.value agg false, cache)
    else if user < os then (.value (max user 1) false, cache)
    else
      match countPhysical cache c.probe with
      | (some n, _, cache') => (.value n false, cache')
      | (none, exc, cache') => (.value agg exc, cache')

end LokyModel.CpuCount
