import LokyModel.ExecLive2
/-!
# The manager never waits on a stale list of sentinels (the class of defect D1)

While the manager is parked in `wait`, every registered worker is in the snapshot of sentinels it waits on — unless a
wake-up is already in the pipe, or a thread that is (re-)spawning workers has not yet written its wake-up (`submit` wakes
the manager *after* spawning).  Meant for EVERY reachable state: any configuration, time-outs, crashes, kill.
-/
namespace LokyModel.Exec

/-- a thread inside `submit`'s spawn section: it will wake the manager after it has spawned -/
def uSpawning : UPc → Bool
  | .subAcqMgmt | .subExit | .subPStart | .subTStart | .subRelMgmt | .subWake => true
  | _ => false

def watchOk (s : St) : Bool :=
  match s.mpc with
  | .wait sn => s.procDict.all (fun p => sn.contains p) || decide (0 < s.wakeup) ||
                (List.range s.cfg.scripts.length).any (fun k => uSpawning (s.upc k))
  | _ => true

end LokyModel.Exec
