import LokyModel.ExecLiveWatch
import LokyModel.ExecLiveDyn2
/-!
# Executable ingredients for static pools WITH worker crashes (C02's liveness half)

A worker may die at any point at which it holds no lock (`lockFree`): anywhere in its start-up, while it waits for the
call queue's read lock, inside a task body, between a task and its result, inside the exit handshake...  The excluded
points are exactly those of the known findings D5/D7 (a death while a kernel lock is held).  Before the first death the
run is a crash-free run of a static pool (all the ingredients of `ExecLive.lean` hold); after it the manager sees the
sentinel (`watchOk`), flags the pool broken, fails every pending future, kills and joins.
-/
namespace LokyModel.Exec

def lockFree (pc : WPc) : Bool := !inCqR pc && !inRqW pc && pc != .eRel
def anyDead (s : St) : Bool := s.allPids.any fun p => s.w p == .dead

/-- the manager is on the broken path or in the kill loop -/
def mBrk : MPc → Bool
  | .clrPoll (.broken _) | .clrRecv (.broken _) | .brkAcq _ | .brkRel _ | .kill _ | .killJoin _ => true
  | _ => false
/-- registered workers are being popped (kill loop, final phase) -/
def mLateK : MPc → Bool
  | .kill _ | .killJoin _ => true
  | pc => mFinal pc
/-- manager program counters a static pool never reaches, crashes or not -/
def mNeverC : MPc → Bool
  | .pidAcq _ | .pidRel _ _ | .pidRelExit _ | .pidJoin _ | .rspAcq | .rspExit | .rspStart | .rspRel
  | .clrPoll (.item (some (.pid _))) | .clrRecv (.item (some (.pid _))) | .clrPoll (.item (some .rtb))
  | .clrRecv (.item (some .rtb)) | .clrPoll (.broken .unserialize) | .clrRecv (.broken .unserialize)
  | .brkAcq .unserialize | .brkRel .unserialize => true
  | _ => false

def staticC (s : St) : Bool :=
  !mNeverC s.mpc && !s.killFlag && s.allPids.all (fun p => !wNever (s.w p)) &&
  (match s.broken with | some .unserialize => false | _ => true) &&
  -- the pool is flagged broken, and the manager is on the broken path, only after a death
  (s.broken.isNone || anyDead s) && (!mBrk s.mpc || anyDead s) &&
  -- until workers are popped, every spawned worker is registered
  (mLateK s.mpc || s.procDict == s.allPids) &&
  (match s.mpc with | .killJoin p => s.w p == .dead | _ => true)

/-- facts about the program counters that do not depend on the kind of pool -/
def smallOk (s : St) : Bool :=
  (s.mpc != .recv || !s.rqPipe.isEmpty) &&
  (match s.mpc with | .clrRecv _ => decide (0 < s.wakeup) | _ => true) &&
  (match s.mpc with | .jRelExit [] _ | .jAlive [] _ _ _ _ => false | _ => true) &&
  (usersOf s).all (fun k => s.upc k != .api || (s.ucur k).isSome) &&
  (!(s.fpc == .none || s.fpc == .done) || s.cqBuf.isEmpty) &&
  (s.mpc != .none || (s.futs.isEmpty || (usersOf s).any (fun k => inShutU' (s.upc k)))) &&
  (!s.wakeupClosed || mFinal s.mpc) &&
  ((usersOf s).all fun k =>
    (!(s.upc k == .sdAcqG || s.upc k == .sdJoin || s.upc k == .peAcqG || s.upc k == .peJoin || s.upc k == .peAcq ||
       s.upc k == .peWake || s.upc k == .peRel) || s.mpc != .none))

/-- lock holders when workers can die: the four locks only threads take always have a holder inside the section; the two
    locks only workers take have one as long as the pool is not flagged broken (afterwards the manager kills workers
    wherever they are — and all of them) -/
def holderC (s : St) : Bool :=
  (match s.oCqWlock with
   | none => s.cqWlock == 1
   | some .F => s.cqWlock == 0 && inCqWF s.fpc
   | _ => false) &&
  (match s.oGshut with
   | none => s.gshut == 1
   | some (.U k) => s.gshut == 0 && inGshutU (s.upc k) && decide (k < s.cfg.scripts.length)
   | _ => false) &&
  (match s.oMgmt with
   | none => s.mgmt == 1
   | some (.U k) => s.mgmt == 0 && inMgmtU' (s.upc k) && decide (k < s.cfg.scripts.length)
   | some .M => s.mgmt == 0 && inMgmtM' s.mpc
   | _ => false) &&
  (match s.oShut with
   | none => s.shut == 1
   | some (.U k) => s.shut == 0 && inShutU' (s.upc k) && decide (k < s.cfg.scripts.length)
   | some .M => s.shut == 0 && inShutM' s.mpc
   | some .F => s.shut == 0 && inShutF' s.fpc
   | _ => false) &&
  (s.broken.isSome ||
    ((match s.oRqWlock with
      | none => s.rqWlock == 1
      | some (.W p) => s.rqWlock == 0 && inRqW (s.w p)
      | _ => false) &&
     (match s.oCqRlock with
      | none => s.cqRlock == 1
      | some (.W p) => s.cqRlock == 0 && inCqR (s.w p)
      | _ => false)))

/-- the final phase with deaths: a dead worker needs no stop sentinel -/
def joinC (s : St) : Bool :=
  !mFinal s.mpc ||
  (s.pending.isEmpty && s.shutdownFlag &&
   (match s.mpc with
    | .raised _ => true
    | _ => decide (needStop s ≤ stopsInFlight s + mToSend s)))

end LokyModel.Exec
