/-!
# M9 — the nesting-depth guard of `loky.process_executor`

Hand transcription of

```python
MAX_DEPTH = int(os.environ.get("LOKY_MAX_DEPTH", 10))
_CURRENT_DEPTH = 0

def _check_max_depth(context):
    global _CURRENT_DEPTH
    if context.get_start_method() == "fork" and _CURRENT_DEPTH > 0:
        raise LokyRecursionError(...)            # "... using the 'fork' start method."
    if 0 < MAX_DEPTH and _CURRENT_DEPTH + 1 > MAX_DEPTH:
        raise LokyRecursionError(...)            # "... change this limit with LOKY_MAX_DEPTH ..."
```

of the depth shipped to every worker (`_adjust_process_count`: last element of `args` is
`_CURRENT_DEPTH + 1`) and of what the worker does with it (`_process_worker`:
`_CURRENT_DEPTH = current_depth`).  The constructor of `ProcessPoolExecutor` calls
`_check_max_depth(self._context)` before it creates any lock, queue or process.

Every external input is a parameter: the start method reported by the context, the module
globals `MAX_DEPTH` and `_CURRENT_DEPTH`, the content of the environment variable.
Import-free on purpose: `Drivers/DepthDriver.lean` is compiled to a native executable.
-/
namespace LokyModel.Depth

/-- `context.get_start_method()`; the code only compares it with the string `"fork"` -/
inductive StartMethod
  | fork
  | loky
  | lokyInitMain
  | spawn
  | forkserver
  | other                       -- any other string
deriving Repr, DecidableEq

/-- which of the two `raise` statements fired -/
inductive Reason
  | fork
  | maxDepth
deriving Repr, DecidableEq

inductive Outcome
  | ok
  | recursionError (why : Reason)
deriving Repr, DecidableEq

/-- `_check_max_depth(context)` with `MAX_DEPTH = maxDepth`, `_CURRENT_DEPTH = cur` -/
def checkMaxDepth (sm : StartMethod) (maxDepth : Int) (cur : Nat) : Outcome :=
  if sm = .fork ∧ cur > 0 then .recursionError .fork
  else if 0 < maxDepth ∧ (cur : Int) + 1 > maxDepth then .recursionError .maxDepth
  else .ok

/-- `LOKY_MAX_DEPTH` as seen by `os.environ.get` -/
inductive EnvVal
  | absent
  | int (i : Int)                -- a string accepted by `int()`
  | bad                          -- `int()` raises `ValueError` (the import of the module fails)
deriving Repr, DecidableEq

/-- `int(os.environ.get("LOKY_MAX_DEPTH", 10))`; `none` = `ValueError` -/
def parseMaxDepth : EnvVal → Option Int
  | .absent => some 10
  | .int i => some i
  | .bad => none

/-- the `current_depth` argument given to every worker spawned by a process at depth `cur` -/
def shippedDepth (cur : Nat) : Nat := cur + 1

/-- `_process_worker(..., current_depth)`: the worker's `_CURRENT_DEPTH` -/
def workerDepth (currentDepthArg : Nat) : Nat := currentDepthArg

/-- A process at depth `cur` constructs an executor under start method `sm` and the executor
    spawns workers: the depth those workers run at, or the error and **no** worker. -/
def createExecutor (sm : StartMethod) (maxDepth : Int) (cur : Nat) : Except Reason Nat :=
  match checkMaxDepth sm maxDepth cur with
  | .ok => .ok (workerDepth (shippedDepth cur))
  | .recursionError why => .error why

/-- A chain of nested creations: a process at depth `cur` creates an executor with the first
    start method of the list, a task in one of its workers creates the next one, and so on.
    Result: the depth of the innermost workers reached, and the error that stopped the chain
    (if any).  `MAX_DEPTH` is the same in the whole tree (the environment is inherited). -/
def nest (maxDepth : Int) (cur : Nat) : List StartMethod → Nat × Option Reason
  | [] => (cur, none)
  | sm :: rest =>
    match createExecutor sm maxDepth cur with
    | .ok d => nest maxDepth d rest
    | .error why => (cur, some why)

/-! ## the life of one executor in a process whose depth global changes

`_CURRENT_DEPTH` is a module global of the creating process.  A freshly started interpreter
has `_CURRENT_DEPTH = 0`; `_process_worker` assigns it the shipped value **after** it has run
the initializer, so between the construction of an executor and the moments its workers are
spawned (lazily at the first `submit`, on a resize, on a respawn after an idle time-out) the
global may have changed.  The executor object stores nothing about depth:
`_adjust_process_count` reads the global at every spawn. -/

/-- events in the life of one executor -/
inductive LifeOp
  | setDepth (d : Nat)          -- the creating process assigns `_CURRENT_DEPTH = d`
  | ensure                      -- `_ensure_executor_running` (submit): spawn up to `_max_workers`
  | resize (m : Nat)            -- `_resize(m)`: surplus workers leave, missing ones are spawned
  | exit (k : Nat)              -- `k` workers leave (idle time-out); the manager respawns up to the size
deriving Repr, DecidableEq

structure Life where
  cur : Nat                     -- `_CURRENT_DEPTH` of the creating process, now
  maxWorkers : Nat              -- `_max_workers`
  alive : Nat                   -- `len(_processes)`
  started : Bool                -- the manager thread exists (some `ensure` happened)
deriving Repr, DecidableEq

/-- `_adjust_process_count`: the `current_depth` arguments of the workers it spawns -/
def adjust (s : Life) : Life × List Nat :=
  ({ s with alive := max s.alive s.maxWorkers }, List.replicate (s.maxWorkers - s.alive) (shippedDepth s.cur))

/-- one event: new state and the depth arguments of the workers spawned by it -/
def lifeStep (s : Life) : LifeOp → Life × List Nat
  | .setDepth d => ({ s with cur := d }, [])
  | .ensure =>
    let (s', out) := adjust s
    ({ s' with started := true }, out)
  | .resize m =>
    if m = s.maxWorkers then (s, [])                     -- `elif max_workers == self._max_workers: return`
    else if s.started then adjust { s with maxWorkers := m, alive := min s.alive m }
    else ({ s with maxWorkers := m }, [])
  | .exit k =>
    if s.started then adjust { s with alive := s.alive - k } else (s, [])

/-- a whole history: the batches of depth arguments, one per event -/
def lifeRun (s : Life) : List LifeOp → List (List Nat)
  | [] => []
  | op :: rest => (lifeStep s op).2 :: lifeRun (lifeStep s op).1 rest

/-- the value of the creating process's depth global when event `i` of the history happens -/
def curAt (cur : Nat) : List LifeOp → Nat → Nat
  | [], _ => cur
  | _ :: _, 0 => cur
  | .setDepth d :: rest, i + 1 => curAt d rest i
  | _ :: rest, i + 1 => curAt cur rest i

/-- An executor constructed (with `workers` workers) by a process whose depth global is `d0`
    at that moment, then the history: the constructor's guard, then the batches. -/
def life (sm : StartMethod) (maxDepth : Int) (d0 workers : Nat) (ops : List LifeOp) :
    Except Reason (List (List Nat)) :=
  match checkMaxDepth sm maxDepth d0 with
  | .ok => .ok (lifeRun { cur := d0, maxWorkers := workers, alive := 0, started := false } ops)
  | .recursionError why => .error why

/-- `_process_worker(..., initializer, ..., current_depth)` in an interpreter whose depth global
    is `fresh` (0 in a new process): the value of the global while the initializer runs, and
    while tasks run.  The assignment is the first thing the worker does: the initializer already
    runs at the worker's depth (it ran before the assignment until defect D28 was repaired). -/
def workerStartup (_fresh currentDepthArg : Nat) : Nat × Nat := (workerDepth currentDepthArg, workerDepth currentDepthArg)

end LokyModel.Depth
