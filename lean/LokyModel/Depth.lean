/-!
# M9 — the nesting-depth guard of `loky.process_executor`

Hand transcription of

```python
MAX_DEPTH = int(os.environ.get("LOKY_MAX_DEPTH", 10))
_CURRENT_DEPTH = 0

def _check_max_depth(context):
    global _CURRENT_DEPTH
    if context.get_start_method() == "fork" and _CURRENT_DEPTH > 0:
        raise LokyRecursionError(...)            # "... using the 'fork' start method."
    if 0 < MAX_DEPTH and _CURRENT_DEPTH + 1 > MAX_DEPTH:
        raise LokyRecursionError(...)            # "... change this limit with LOKY_MAX_DEPTH ..."
```

of the depth shipped to every worker (`_adjust_process_count`: last element of `args` is
`_CURRENT_DEPTH + 1`) and of what the worker does with it (`_process_worker`:
`_CURRENT_DEPTH = current_depth`).  The constructor of `ProcessPoolExecutor` calls
`_check_max_depth(self._context)` before it creates any lock, queue or process.

Every external input is a parameter: the start method reported by the context, the module
globals `MAX_DEPTH` and `_CURRENT_DEPTH`, the content of the environment variable.
Import-free on purpose: `Drivers/DepthDriver.lean` is compiled to a native executable.
-/
namespace LokyModel.Depth

/-- `context.get_start_method()`; the code only compares it with the string `"fork"` -/
inductive StartMethod
  | fork
  | loky
  | lokyInitMain
  | spawn
  | forkserver
  | other                       -- any other string
deriving Repr, DecidableEq

/-- which of the two `raise` statements fired -/
inductive Reason
  | fork
  | maxDepth
deriving Repr, DecidableEq

inductive Outcome
  | ok
  | recursionError (why : Reason)
deriving Repr, DecidableEq

/-- `_check_max_depth(context)` with `MAX_DEPTH = maxDepth`, `_CURRENT_DEPTH = cur` -/
def checkMaxDepth (sm : StartMethod) (maxDepth : Int) (cur : Nat) : Outcome :=
  if sm = .fork ∧ cur > 0 then .recursionError .fork
  else if 0 < maxDepth ∧ (cur : Int) + 1 > maxDepth then .recursionError .maxDepth
  else .ok

/-- `LOKY_MAX_DEPTH` as seen by `os.environ.get` -/
inductive EnvVal
  | absent
  | int (i : Int)                -- a string accepted by `int()`
  | bad                          -- `int()` raises `ValueError` (the import of the module fails)
deriving Repr, DecidableEq

/-- `int(os.environ.get("LOKY_MAX_DEPTH", 10))`; `none` = `ValueError` -/
def parseMaxDepth : EnvVal → Option Int
  | .absent => some 10
  | .int i => some i
  | .bad => none

/-- the `current_depth` argument given to every worker spawned by a process at depth `cur` -/
def shippedDepth (cur : Nat) : Nat := cur + 1

/-- `_process_worker(..., current_depth)`: the worker's `_CURRENT_DEPTH` -/
def workerDepth (currentDepthArg : Nat) : Nat := currentDepthArg

/-- A process at depth `cur` constructs an executor under start method `sm` and the executor
    spawns workers: the depth those workers run at, or the error and **no** worker. -/
def createExecutor (sm : StartMethod) (maxDepth : Int) (cur : Nat) : Except Reason Nat :=
  match checkMaxDepth sm maxDepth cur with
  | .ok => .ok (workerDepth (shippedDepth cur))
  | .recursionError why => .error why

/-- A chain of nested creations: a process at depth `cur` creates an executor with the first
    start method of the list, a task in one of its workers creates the next one, and so on.
    Result: the depth of the innermost workers reached, and the error that stopped the chain
    (if any).  `MAX_DEPTH` is the same in the whole tree (the environment is inherited). -/
def nest (maxDepth : Int) (cur : Nat) : List StartMethod → Nat × Option Reason
  | [] => (cur, none)
  | sm :: rest =>
    match createExecutor sm maxDepth cur with
    | .ok d => nest maxDepth d rest
    | .error why => (cur, some why)

end LokyModel.Depth
