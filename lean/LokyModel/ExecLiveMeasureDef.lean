import LokyModel.ExecLive
/-!
# A termination measure for crash-free runs of static pools (executable part)

`mu : St → Nat` is a weighted sum: every actor contributes the *rank* of its program counter (how many steps it can
still take before it needs a new token), every token in flight (a work id, a call item in the buffer / in the pipe, a
result message, a byte in the wake-up pipe, a script operation not yet begun, a worker not yet spawned) contributes a
weight that covers every step its consumption enables.  Every step of a static pool other than a crash makes `mu`
strictly smaller (`Lemmas/ExecLiveMeasure*.lean`, theorem `mu_decreases`); hence runs are finite
(`Props/C01Term.lean`).

Import-free apart from the model, so that `Drivers/LiveCheckMeasure.lean` can evaluate it on random walks.

Weights (`K…`) — written as literals below so that `omega` sees them:
* result message `6`, wake-up byte `7`, call-queue message in the pipe `15`, in the buffer `20`, work id `24`,
  script operation `51`, worker still to be spawned `22`.
* the manager's ranks are relative to `waitR B` (`B = max_workers`), the rank of its `wait`; everything of
  `join_executor_internals` lies below it (`joinR B = waitR B - 1` at its first operation), the `queue.Full`
  back-off (at most 47 rounds, each a scan of the process list) is paid by `psi`.
-/
namespace LokyModel.Exec

/-- what `shutdown_workers` may still cost: `n - sent` sentinels to put (each with the scan that follows it) and
    `47 - cool` back-off rounds (each a sleep and a scan) -/
def psi (B n sent cool : Nat) : Nat := (n - sent) * (B + 30) + (47 - cool) * (B + 10)
/-- rank of the manager right before `call_queue.close()` -/
def tailR (B : Nat) : Nat := B + 26
/-- rank of the first operation of `join_executor_internals` -/
def joinR (B : Nat) : Nat := tailR B + psi B B 0 0 + 2 * B + 9
/-- rank of the manager's `wait` -/
def waitR (B : Nat) : Nat := joinR B + 1

def wRank : WPc → Nat
  | .dead => 0
  | .exit _ => 1
  | .xExit => 2 | .xRel => 3 | .xSend => 10 | .xAcq => 11
  | .lExitRel => 2 | .lExitAcq => 3 | .lRel => 4 | .lSend => 11 | .lAcq => 12
  | .bRel => 2 | .bSend => 9 | .bAcq => 10
  | .eRel => 12 | .eTry => 13
  | .gAcq => 16 | .tAcq => 16 | .gRecv => 15
  | .rRel => 17 | .rSend _ _ _ => 24 | .rAcq _ _ _ => 25 | .taskEnd _ _ => 26 | .task _ _ => 27
  | .gSem _ => 28 | .gRel _ => 29
  | .init => 17 | .start => 18
  | .tPoll | .tRecv | .tSem _ | .tRel _ | .tRelE => 0      -- idle time-out: not in static pools

def fRank : FPc → Nat
  | .done => 0
  | .wait => 1
  | .start | .rel | .errRel => 2
  | .none => 3
  | .errWake => 10 | .errAcq => 11 | .errSem _ => 12 | .relBig _ => 13 | .sendBig _ => 14 | .acqBig _ => 15
  | .send _ => 18 | .acq _ => 19

def uRank : UPc → Nat
  | .done => 0
  | .start => 1
  | .cbRel => 1 | .cbWake => 9 | .cbAcq => 10
  | .subRelShut => 11 | .subWake => 19 | .subRelMgmt => 20 | .subTStart => 21 | .subPStart => 22 | .subExit => 23
  | .subAcqMgmt => 24 | .subAcqShut _ => 49
  | .sdRelG => 11 | .sdJoin => 12 | .sdAcqG => 13 | .sdRel2 _ => 14 | .sdWake _ => 22 | .sdAcq2 _ => 23
  | .sdRel1 _ => 24 | .sdAcq1 _ _ => 25
  | .peRelG => 1 | .peJoin => 2 | .peAcqG => 3 | .peRel => 4 | .peWake => 12 | .peAcq => 13
  | .api => 50

/-- rank of the manager: `B = max_workers`, `wk` bytes in the wake-up pipe, `pd` registered processes -/
def mRankOf (B wk pd : Nat) : MPc → Nat
  | .none => waitR B + 2
  | .start => waitR B + 1
  | .wait _ => waitR B
  | .recv => waitR B - 1
  -- `thread_wakeup.clear()` entered from `wait` because of a wake-up byte alone: no token has been consumed yet
  | .clrPoll (.item none) => if wk = 0 then waitR B + 4 else waitR B - 1
  | .clrRecv (.item none) => waitR B - 2
  | .clrPoll (.item (some _)) => waitR B + 4
  | .clrRecv (.item (some _)) => waitR B + 3
  | .addAcq _ | .addAcqF _ => waitR B + 22
  | .addTStart _ | .addTStartF _ => waitR B + 21
  | .flagAcq => waitR B + 2
  | .flagRel => waitR B + 1
  | .cbAcq => waitR B + 12 | .cbWake => waitR B + 11 | .cbRel => waitR B + 3
  | .jAcq1 => joinR B
  | .jRelExit ps n => tailR B + psi B (n + ps.length) 0 0 + B + 8 + ps.length
  | .jRel1 n => tailR B + psi B n 0 0 + B + 8
  | .jAliveAcq n sent cool => tailR B + psi B n sent cool + B + 7
  | .jAlive ps _ n sent cool => tailR B + psi B n sent cool + ps.length + 5
  | .jAliveRel _ n sent cool => tailR B + psi B n sent cool + 5
  | .jPut _ n sent cool => tailR B + psi B n sent cool + 4
  | .jPutTStart _ n sent cool => tailR B + psi B n sent cool + 3
  | .jSleep n sent cool => tailR B + psi B n sent (cool + 1) + B + 8
  | .jShutAcq => B + 5
  | .jShutRel => B + 4
  | .jAcq2 => pd + 3
  | .jJoin _ => pd + 2
  | .jRel2 => 1
  | .done | .raised _ => 0
  -- never reached by a static pool (`mNever`)
  | .clrPoll (.broken _) | .clrRecv (.broken _)
  | .pidAcq _ | .pidRel _ _ | .pidRelExit _ | .pidJoin _ | .rspAcq | .rspExit | .rspStart | .rspRel
  | .brkAcq _ | .brkRel _ | .kill _ | .killJoin _ => 0

def mRank (s : St) : Nat := mRankOf s.cfg.maxWorkers s.wakeup s.procDict.length s.mpc

/-- a user thread: the rank of its program counter plus `51` per script operation not yet begun -/
def uPot (s : St) (k : Nat) : Nat := uRank (s.upc k) + 51 * (s.uscript k).length

def uSum (s : St) : Nat := sumL (uPot s) (List.range s.cfg.scripts.length)
def wSum (s : St) : Nat := sumL (fun p => wRank (s.w p)) s.allPids
/-- tokens in flight, and the workers still to be spawned -/
def qPot (s : St) : Nat :=
  24 * s.workIds.length + 20 * s.cqBuf.length + 15 * s.cqPipe.length + 6 * s.rqPipe.length + 7 * s.wakeup +
  22 * (s.cfg.maxWorkers - s.allPids.length)

/-- **the termination measure** -/
def mu (s : St) : Nat := uSum s + mRank s + fRank s.fpc + wSum s + qPot s

end LokyModel.Exec
