import LokyModel.ExecLiveCrash
/-!
# The strengthening `holderC'` of `holderC` (lock holders of a static pool whose workers may die)

Import-light (model files only) so that `Drivers/LiveCheckCrashHolder.lean` can evaluate it.  `holderC` is strengthened by

* its converse (`hcExcl`): an actor inside a critical section is the recorded owner of the lock — for the two locks only
  workers take, as long as the pool is not flagged broken;
* "the manager is about to start the feeder thread only while that thread does not exist" (as in `holderOk'`);
* the exit-lock protocol `hcExitOk` (a copy of `exitOk` of `Lemmas/ExecLiveHolderExit.lean`): the manager never releases a
  worker's exit lock twice, hence never dies of `ValueError` while it holds the process-management lock;
* `hcKillPc`: in a static pool the manager is in the kill loop only after it has flagged the pool broken.

The proofs are in `Lemmas/ExecLiveCrashHolder*.lean`.
-/
namespace LokyModel.Exec

/-- the manager is about to start the feeder thread (copy of `mTStart`) -/
def hcTStart : MPc → Bool
  | .addTStart _ | .addTStartF _ | .jPutTStart _ _ _ _ => true
  | _ => false

/-- the manager is between flagging the pool broken and the end of the kill loop -/
def hcKillPc : MPc → Bool
  | .brkRel _ | .kill _ | .killJoin _ => true
  | _ => false

/-- the manager is past the first lock section of `join_executor_internals` (copy of `rPost`) -/
def hcRPost : MPc → Bool
  | .jRel1 _ | .jAliveAcq _ _ _ | .jAlive _ _ _ _ _ | .jAliveRel _ _ _ _ | .jPut _ _ _ _ | .jPutTStart _ _ _ _
  | .jSleep _ _ _ | .jShutAcq | .jShutRel | .jAcq2 | .jJoin _ | .jRel2 | .done | .raised _ => true
  | _ => false

/-- the workers whose exit lock the manager may still release (copy of `relSet`) -/
def hcRelSet (s : St) : List Pid :=
  match s.mpc with
  | .jRelExit ps _ => ps
  | .pidRel p true => p :: s.procDict
  | .pidRelExit p => p :: s.procDict
  | pc => if hcRPost pc then [] else s.procDict

/-- copy of `exitOk` -/
def hcExitOk (s : St) : Bool :=
  decide s.procDict.Nodup &&
  (hcRelSet s).all (fun q => s.exitL q == 0 && s.w q != .lExitRel && decide (q ∈ s.allPids)) &&
  decide (hcRelSet s).Nodup &&
  (s.mpc != .rspStart || s.exitL s.nextPid == 0) &&
  (List.range s.cfg.scripts.length).all (fun k =>
    (s.upc k != .subPStart || s.exitL s.nextPid == 0) && (s.upc k != .subTStart || s.mpc == .none))

/-- converse of `holderC`: whoever is inside a critical section is the recorded owner of the lock -/
def hcExcl (s : St) : Bool :=
  (s.broken.isSome ||
    ((s.allPids.all fun p => !inRqW (s.w p) || s.oRqWlock == some (.W p)) &&
     (s.allPids.all fun p => !inCqR (s.w p) || s.oCqRlock == some (.W p)))) &&
  (!inCqWF s.fpc || s.oCqWlock == some .F) &&
  ((List.range s.cfg.scripts.length).all fun k => !inGshutU (s.upc k) || s.oGshut == some (.U k)) &&
  ((List.range s.cfg.scripts.length).all fun k => !inMgmtU' (s.upc k) || s.oMgmt == some (.U k)) &&
  (!inMgmtM' s.mpc || s.oMgmt == some .M) &&
  ((List.range s.cfg.scripts.length).all fun k => !inShutU' (s.upc k) || s.oShut == some (.U k)) &&
  (!inShutM' s.mpc || s.oShut == some .M) &&
  (!inShutF' s.fpc || s.oShut == some .F) &&
  (!hcTStart s.mpc || s.fpc == .none)

def holderC' (s : St) : Bool :=
  holderC s && hcExcl s && hcExitOk s && (!hcKillPc s.mpc || s.broken.isSome)

end LokyModel.Exec
