import LokyModel.ExecLiveDyn
namespace LokyModel.Exec
/-- a worker that has polled the call pipe successfully (it holds the read lock) finds the message still there -/
def tRecvOk (s : St) : Bool := s.allPids.all fun p => s.w p != .tRecv || !s.cqPipe.isEmpty
end LokyModel.Exec
