import LokyModel.ExecLive2
/-!
# Executable ingredients of the deadlock-freedom argument for pools with an idle time-out (dynamic pools)

Workers leave when they stay idle, announce it, are un-registered and joined by the manager, and are re-spawned by the
manager (when work is left) or by the next `submit`.  Scope (`Cfg.dynPool`): idle time-out configured, no memory-leak
exit, no failing initializer, no task that kills its worker or fails to un-pickle, no `kill_workers`, and the executor
stays referenced (no `drop`: the class of the known finding D4), `max_workers ≥ 1`; runs without crash steps.
-/
namespace LokyModel.Exec

def UOp.isDrop : UOp → Bool
  | .drop => true
  | _ => false

def Cfg.dynPool (c : Cfg) : Bool :=
  c.timeout && c.leakAfter.isEmpty && c.initFail.isEmpty && decide (0 < c.maxWorkers) &&
  c.tasks.all (fun t => t.body != .die && t.args != .badunpickle && t.res != .badunpickle) &&
  c.scripts.all (fun sc => sc.all (fun op => !op.isKill && !op.isDrop))

/-- manager program counters a dynamic pool never reaches -/
def mNeverD : MPc → Bool
  | .brkAcq _ | .brkRel _ | .kill _ | .killJoin _ | .clrPoll (.broken _) | .clrRecv (.broken _)
  | .clrPoll (.item (some .rtb)) | .clrRecv (.item (some .rtb)) | .cbAcq | .cbWake | .cbRel => true
  | _ => false
/-- worker program counters a dynamic pool never reaches -/
def wNeverD : WPc → Bool
  | .gAcq | .gRecv | .gRel _ | .gSem _ | .bAcq | .bSend | .bRel
  | .lAcq | .lSend | .lRel | .lExitAcq | .lExitRel => true
  | .exit c => c != 0
  | _ => false

def usersOf (s : St) : List Nat := List.range s.cfg.scripts.length

def dynOk (s : St) : Bool :=
  !mNeverD s.mpc && s.broken.isNone && !s.killFlag &&
  s.allPids.all (fun p => !wNeverD (s.w p)) &&
  -- the executor stays referenced
  (!s.created || (s.held && decide (0 < s.refs))) && (s.mpc == .none || s.created) &&
  -- small facts about the actors' program counters
  (s.mpc != .recv || !s.rqPipe.isEmpty) &&
  (match s.mpc with | .clrRecv _ => decide (0 < s.wakeup) | _ => true) &&
  (match s.mpc with | .jRelExit [] _ | .jAlive [] _ _ _ _ => false | _ => true) &&
  (match s.mpc with | .addAcq _ | .addAcqF _ | .jPut _ _ _ _ => true | _ => true) &&
  (usersOf s).all (fun k => s.upc k != .api || (s.ucur k).isSome) &&
  (!(s.fpc == .none || s.fpc == .done) || s.cqBuf.isEmpty) &&
  (s.mpc != .none || (s.futs.isEmpty || (usersOf s).any (fun k => inShutU' (s.upc k)))) &&
  (!s.wakeupClosed || mFinal s.mpc) &&
  ((usersOf s).all fun k =>
    (!(s.upc k == .sdAcqG || s.upc k == .sdJoin || s.upc k == .peAcqG || s.upc k == .peJoin || s.upc k == .peAcq ||
       s.upc k == .peWake || s.upc k == .peRel) || s.mpc != .none))

/-- the manager is the only consumer of call-queue slots: once it has seen a free one it gets it -/
def addSlotOk (s : St) : Bool :=
  match s.mpc with
  | .addAcq _ | .addAcqF _ => decide (0 < s.cqSem)
  | _ => true

/-- a thread that has done something the manager must hear about and has not yet written to the wake-up pipe
    (`sdRel1` only while the attributes are still there: a repeated `shutdown()` skips the wake-up) -/
def owesD (s : St) : Bool :=
  (usersOf s).any (fun k => match s.upc k with
    | .sdRel1 _ => !s.attrsDropped
    | pc => uOwes pc) || fOwes s.fpc

/-- no lost wake-up, for the manager's decision to leave -/
def wakeOkD (s : St) : Bool :=
  match s.mpc with
  | .start => decide (0 < s.wakeup) || owesD s
  | .wait _ => !mustExit s || decide (0 < s.wakeup) || !s.rqPipe.isEmpty || owesD s
  | _ => true

/-- the manager is between receiving a worker's exit announcement and re-spawning -/
def mRsp : MPc → Bool
  | .clrPoll (.item (some (.pid _))) | .clrRecv (.item (some (.pid _)))
  | .pidAcq _ | .pidRel _ _ | .pidRelExit _ | .pidJoin _ | .rspAcq | .rspExit | .rspStart => true
  | _ => false

/-- **re-spawn**: with no worker registered nothing is pending — unless the manager is about to hear of it, is deciding
    on a re-spawn, or a `submit` is bringing the pool up -/
def respawnOk (s : St) : Bool :=
  !s.procDict.isEmpty || s.pending.isEmpty || decide (0 < s.wakeup) || !s.rqPipe.isEmpty || owesD s ||
  mRsp s.mpc || s.mpc == .none

end LokyModel.Exec
