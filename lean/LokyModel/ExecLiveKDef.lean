import LokyModel.ExecLiveCrashStaticDef
import LokyModel.ExecLiveCrashHolderDef
import LokyModel.ExecLiveCrashJoinDef
import LokyModel.ExecLiveCrashKillDef
/-!
# Static pools whose scripts may contain `shutdown(kill_workers=True)` (C06's liveness half): executable definitions

`Cfg.staticPoolK` is `Cfg.staticPool` without its last conjunct ("no script operation is a forced shutdown").

A lock-free crash run of such a pool has two phases.

* **Phase 1** — until the manager thread, in `flag_executor_shutting_down`, *sees* the kill flag (its step at `flagRel`
  with `killFlag` set).  Up to that step the kill flag is write-only: nothing but that one branch of `mAfterFlag` reads
  it.  Hence the run is, step for step, a run of the *static* pool obtained by replacing every
  `shutdown(w, kill_workers=True)` by `shutdown(w, kill_workers=False)` (`Cfg.unkill`, `St.unkill`; the simulation is
  proved in `Lemmas/ExecLiveKSim.lean`), and every crash-aware ingredient of `ExecLiveCrash*.lean` holds of the
  un-killed state: `staticK`, `smallK`, `holderK`, `joinK`, `killedK` below (`phase1K` = all of them).
* **Phase 2** — from that step on: every pending future has been failed with the shutdown error, the manager pops,
  SIGKILLs (wherever the victim is, *including* inside the critical section of `cq.rlock` / `rq.wlock`) and joins every
  registered worker, then runs `join_executor_internals` on an empty process table.  `lateK` is the invariant of this
  phase: it claims NOTHING about the two queue locks that only workers take (an orphaned queue lock is harmless: nobody
  reads the queues any more), and everything that is needed about the four locks that threads of the parent take.

Import-light (model files only) so that `Drivers/LiveCheckK.lean` can evaluate everything here along random walks.
-/
namespace LokyModel.Exec

/-! ### scope -/

/-- static pool, forced shutdowns allowed: workers leave only through the stop sentinel of `join_executor_internals` or
    because the manager kills them — no idle time-out, no memory-leak exit, no initializer failure, no task that kills
    its worker or breaks the pool -/
def Cfg.staticPoolK (c : Cfg) : Bool :=
  !c.timeout && c.leakAfter.isEmpty && c.initFail.isEmpty && decide (0 < c.maxWorkers) &&
  c.tasks.all (fun t => t.body != .die && t.args != .badunpickle && t.res != .badunpickle)

/-! ### forgetting `kill_workers` -/

def UOp.unkill : UOp → UOp
  | .shutdown w _ => .shutdown w false
  | op => op
def UPc.unkill : UPc → UPc
  | .sdAcq1 w _ => .sdAcq1 w false
  | pc => pc
def Cfg.unkill (c : Cfg) : Cfg := { c with scripts := c.scripts.map (fun sc => sc.map UOp.unkill) }
/-- the same state of the pool in which nobody ever asks for `kill_workers` -/
def St.unkill (s : St) : St :=
  { s with cfg := s.cfg.unkill, killFlag := false, upc := UPc.unkill ∘ s.upc,
           uscript := List.map UOp.unkill ∘ s.uscript, ucur := Option.map UOp.unkill ∘ s.ucur }

/-- the one step that reads the kill flag: the manager leaves the lock section of `flag_executor_shutting_down` and
    finds `kill_workers` set -/
def seesKill (s : St) (a : Actor) : Bool :=
  a == .M && s.mpc == .flagRel && s.killFlag

/-! ### phase 1: the crash-aware ingredients, of the un-killed state -/

def staticK (s : St) : Bool := staticC s.unkill && staticXC s.unkill
def smallK (s : St) : Bool := smallOk s.unkill
def holderK (s : St) : Bool := holderC' s.unkill
def joinK (s : St) : Bool := joinC' s.unkill
def killedK (s : St) : Bool := killedC s.unkill
def phase1K (s : St) : Bool := staticK s && smallK s && holderK s && joinK s && killedK s

/-! ### phase 2: the manager has seen the kill flag -/

/-- where the manager thread is in phase 2: the kill loop, then `join_executor_internals` on an empty process table -/
def mK2 : MPc → Bool
  | .kill _ | .killJoin _ | .jAcq1 | .jRel1 0 | .jShutAcq | .jShutRel | .jAcq2 | .jRel2 | .done => true
  | _ => false
def mKillLoop : MPc → Bool
  | .kill _ | .killJoin _ => true
  | _ => false
def killOfK : MPc → Option Pid
  | .kill p | .killJoin p => some p
  | _ => none

/-- lock holders of the four locks that threads of the parent take (as in `holderC`), and nothing about the two that
    only workers take -/
def holder4 (s : St) : Bool :=
  (match s.oCqWlock with
   | none => s.cqWlock == 1
   | some .F => s.cqWlock == 0 && inCqWF s.fpc
   | _ => false) &&
  (match s.oGshut with
   | none => s.gshut == 1
   | some (.U k) => s.gshut == 0 && inGshutU (s.upc k) && decide (k < s.cfg.scripts.length)
   | _ => false) &&
  (match s.oMgmt with
   | none => s.mgmt == 1
   | some (.U k) => s.mgmt == 0 && inMgmtU' (s.upc k) && decide (k < s.cfg.scripts.length)
   | some .M => s.mgmt == 0 && inMgmtM' s.mpc
   | _ => false) &&
  (match s.oShut with
   | none => s.shut == 1
   | some (.U k) => s.shut == 0 && inShutU' (s.upc k) && decide (k < s.cfg.scripts.length)
   | some .M => s.shut == 0 && inShutM' s.mpc
   | some .F => s.shut == 0 && inShutF' s.fpc
   | _ => false)

/-- converse of `holder4`: whoever is inside a critical section is the recorded owner of the lock -/
def excl4 (s : St) : Bool :=
  (!inCqWF s.fpc || s.oCqWlock == some .F) &&
  ((List.range s.cfg.scripts.length).all fun k => !inGshutU (s.upc k) || s.oGshut == some (.U k)) &&
  ((List.range s.cfg.scripts.length).all fun k => !inMgmtU' (s.upc k) || s.oMgmt == some (.U k)) &&
  (!inMgmtM' s.mpc || s.oMgmt == some .M) &&
  ((List.range s.cfg.scripts.length).all fun k => !inShutU' (s.upc k) || s.oShut == some (.U k)) &&
  (!inShutM' s.mpc || s.oShut == some .M) &&
  (!inShutF' s.fpc || s.oShut == some .F) &&
  (!hcTStart s.mpc || s.fpc == .none)

def lateK (s : St) : Bool :=
  mK2 s.mpc && s.shutdownFlag &&
  -- the final phase runs on an empty process table
  (mKillLoop s.mpc || s.procDict.isEmpty) &&
  -- every process ever spawned is still registered, or is the one being killed / joined, or is dead
  (s.allPids.all fun q => s.procDict.contains q || killOfK s.mpc == some q || s.w q == .dead) &&
  -- the manager waits for a process it has killed
  (match s.mpc with | .killJoin p => s.w p == .dead | _ => true) &&
  -- workers of a static pool (no idle time-out: no worker ever touches the process-management lock)
  s.allPids.all (fun p => !wNever (s.w p)) && s.allPids.all (fun p => !s.leaky p) &&
  -- the four locks of the parent's threads
  holder4 s && excl4 s &&
  -- a thread at an API boundary has an operation to announce; nobody is inside `submit`'s spawn section
  (List.range s.cfg.scripts.length).all (fun k => s.upc k != .api || (s.ucur k).isSome)

/-- C06's "every worker is killed": once the manager has seen the kill flag and has ended, every process is dead and
    nothing is pending -/
def endK (s : St) : Bool :=
  !mEnded s || (s.allPids.all (fun q => s.w q == .dead) && s.pending.isEmpty)

end LokyModel.Exec
