/-!
# M1 — operation-level model of one `loky.ProcessPoolExecutor`

Actors: user threads `U k`, the executor manager thread `M`, the call-queue feeder thread `F`,
worker processes `W pid`.  One step = one *announced operation* of one actor (a semaphore
operation, a pipe operation, `wait`, a thread/process start/join, `kill`, a task body boundary, an
API boundary) followed by the purely local code up to that actor's next announced operation.
This is a hand transcription of `loky/process_executor.py` (`submit`, `shutdown`, `_python_exit`,
the weak-reference callback, `_ExecutorManagerThread.*`, `_process_worker`, `_SafeQueue`) and of
the `Queue.put/get/_feed` / `SimpleQueue.put` code it runs on, as of the current tree.  It is tied
to that code on every run by the lock-step correspondence (engine E1, DESIGN.md §4.2): same
schedule, same operation labels, same enabled sets, same observables.

Import-free: `Drivers/ExecDriver.lean` is compiled to a native executable.
-/
namespace LokyModel.Exec

abbrev Pid := Nat
abbrev Tid := Nat   -- task id: index into the task specifications
abbrev Wid := Nat   -- work id: order of successful submission

inductive ArgKind | ok | unpicklable | toolarge | badunpickle
deriving Repr, DecidableEq
inductive BodyKind | ok | raises | die
deriving Repr, DecidableEq
inductive ResKind | ok | badunpickle
deriving Repr, DecidableEq

/-- what the adversary chooses per task.  A result or exception that cannot be *pickled* is
    replaced in the worker by the pickling error (`_sendback_result`): protocol-wise the same as
    `raises`, so it is not a separate kind here. -/
structure TaskSpec where
  args : ArgKind := .ok
  body : BodyKind := .ok
  res  : ResKind := .ok
deriving Repr, DecidableEq

inductive CMsg | call (w : Wid) (t : Tid) | stop | close
deriving Repr, DecidableEq
inductive RMsg
  | res (w : Wid) (isExc : Bool) (bad : Bool)   -- `bad`: fails to un-pickle in the parent
  | pid (p : Pid)
  | rtb                                          -- `_RemoteTraceback`: a task failed to un-pickle in a worker
deriving Repr, DecidableEq

inductive Fut
  | pending | running | cancelled
  | value | excWorker | excFeeder | excBroken | excTerminated | excShutdown
deriving Repr, DecidableEq

def Fut.done : Fut → Bool
  | .pending | .running => false
  | _ => true

inductive Broken | unserialize | terminated
deriving Repr, DecidableEq

inductive WPc
  | start | init
  | gAcq | gRecv | gRel (m : CMsg) | gSem (m : CMsg)
  | tAcq | tPoll | tRecv | tSem (m : CMsg) | tRel (m : CMsg) | tRelE
  | eTry | eRel
  | task (w : Wid) (t : Tid) | taskEnd (w : Wid) (t : Tid)
  | rAcq (w : Wid) (isExc bad : Bool) | rSend (w : Wid) (isExc bad : Bool) | rRel
  | bAcq | bSend | bRel                       -- send `_RemoteTraceback`, then exit(1)
  | xAcq | xSend | xRel | xExit               -- clean exit handshake (30 s time-out on the exit lock)
  | lAcq | lSend | lRel | lExitAcq | lExitRel -- memory-leak exit (no time-out on the exit lock)
  | exit (code : Nat)
  | dead
deriving Repr, DecidableEq

/-- how the manager continues after `thread_wakeup.clear()` -/
inductive AfterClear
  | item (r : Option RMsg)
  | broken (b : Broken)
deriving Repr, DecidableEq

inductive MPc
  | none | start
  | addAcq (w : Wid) | addTStart (w : Wid)
  | addAcqF (w : Wid) | addTStartF (w : Wid)                  -- the same, in the pass made right after flagging the executor as shutting down
  | wait (snap : List Pid)
  | recv
  | clrPoll (k : AfterClear) | clrRecv (k : AfterClear)
  | pidAcq (p : Pid) | pidRel (p : Pid) (known : Bool) | pidRelExit (p : Pid) | pidJoin (p : Pid)
  | rspAcq | rspExit | rspStart | rspRel
  | cbAcq | cbWake | cbRel                                    -- weak-reference callback run by the manager
  | flagAcq | flagRel
  | brkAcq (b : Broken) | brkRel (b : Broken)
  | kill (p : Pid) | killJoin (p : Pid)
  | jAcq1 | jRelExit (ps : List Pid) (n : Nat) | jRel1 (n : Nat)
  | jAliveAcq (n sent cool : Nat) | jAlive (ps : List Pid) (cnt n sent cool : Nat) | jAliveRel (cnt n sent cool : Nat)
  | jPut (k n sent cool : Nat) | jPutTStart (k n sent cool : Nat) | jSleep (n sent cool : Nat)
  | jShutAcq | jShutRel | jAcq2 | jJoin (p : Pid) | jRel2
  | done
  | raised (why : String)                                     -- the thread died with an exception
deriving Repr, DecidableEq

inductive FPc
  | none | start | wait | acq (m : CMsg) | send (m : CMsg) | rel
  | acqBig (w : Wid) | sendBig (w : Wid) | relBig (w : Wid)   -- message too large: `send_bytes` raises `struct.error`
  | errSem (w : Wid) | errAcq | errWake | errRel
  | done
deriving Repr, DecidableEq

inductive UOp
  | create | submit (t : Tid) | cancel (t : Tid) | shutdown (wait kill : Bool) | drop | pyexit
  | idle                             -- the thread does something unrelated for a while
deriving Repr, DecidableEq

inductive UPc
  | start | api
  | subAcqShut (t : Tid) | subAcqMgmt | subExit | subPStart | subTStart | subRelMgmt | subWake | subRelShut
  | sdAcq1 (wait kill : Bool) | sdRel1 (wait : Bool) | sdAcq2 (wait : Bool) | sdWake (wait : Bool)
  | sdRel2 (wait : Bool) | sdAcqG | sdJoin | sdRelG
  | cbAcq | cbWake | cbRel
  | peAcq | peWake | peRel | peAcqG | peJoin | peRelG
  | done
deriving Repr, DecidableEq

inductive Actor | U (k : Nat) | M | F | W (p : Pid)
deriving Repr, DecidableEq
inductive Variant | ok | timeout | fail | crash
deriving Repr, DecidableEq

structure Cfg where
  maxWorkers : Nat
  timeout    : Bool
  tasks      : List TaskSpec
  scripts    : List (List UOp)
  hasInit    : Bool := false
  initFail   : List Nat := []       -- spawn indices (pid − 100) whose initializer raises
  leakAfter  : List Tid := []       -- a worker that has completed one of these tasks reports a leak
deriving Repr

structure St where
  cfg : Cfg
  -- kernel semaphores
  shut : Nat := 1
  mgmt : Nat := 1
  gshut : Nat := 1
  cqSem : Nat
  cqRlock : Nat := 1
  cqWlock : Nat := 1
  rqWlock : Nat := 1
  exitL : Pid → Nat := fun _ => 0
  -- ghost: who holds each binary lock (never read by `step`; used by the invariants)
  oMgmt : Option Actor := none
  oShut : Option Actor := none
  oGshut : Option Actor := none
  oCqRlock : Option Actor := none
  oCqWlock : Option Actor := none
  oRqWlock : Option Actor := none
  -- pipes / buffers
  wakeup : Nat := 0
  wakeupClosed : Bool := false
  cqBuf : List CMsg := []
  cqPipe : List CMsg := []
  rqPipe : List RMsg := []
  -- executor object
  created : Bool := false
  held : Bool := false              -- the scenario's holder still references the executor
  threadReg : Bool := false         -- manager thread registered in `_threads_wakeups`
  refs : Nat := 0                   -- strong references to the executor object
  attrsDropped : Bool := false      -- `shutdown()` removed the thread / wake-up attributes
  queueCount : Nat := 0
  workIds : List Wid := []
  pending : List Wid := []
  running : List Wid := []
  futs : List Fut := []             -- by work id
  taskOf : List Tid := []           -- by work id
  visible : Nat := 0                -- futures already handed out to the caller of `submit`
  shutdownFlag : Bool := false
  killFlag : Bool := false
  broken : Option Broken := none
  globalShutdown : Bool := false
  procDict : List Pid := []
  nextPid : Pid := 100
  allPids : List Pid := []
  -- actors
  w : Pid → WPc := fun _ => .dead
  exitCode : Pid → Option Int := fun _ => none
  nDone : Pid → Nat := fun _ => 0
  leaky : Pid → Bool := fun _ => false
  refLeaky : Pid → Bool := fun _ => false
  mpc : MPc := .none
  fpc : FPc := .none
  upc : Nat → UPc := fun _ => .start
  uscript : Nat → List UOp
  ucur : Nat → Option UOp := fun _ => none
  -- ghost history
  execLog : List (Pid × Tid) := []
  initLog : List Pid := []
  cancelOk : List Wid := []
  execW : List Wid := []            -- work ids whose body was started, in order

def upd {α : Type} (f : Nat → α) (p : Nat) (v : α) : Nat → α := fun q => if q = p then v else f q

def alive (s : St) (p : Pid) : Bool := s.w p != .dead
def isDead (s : St) (p : Pid) : Bool := s.w p == .dead

def acq (v : Nat) : Option Nat := if v > 0 then some (v - 1) else none

def specOf (s : St) (t : Tid) : TaskSpec := s.cfg.tasks.getD t {}

def setFut (s : St) (w : Wid) (f : Fut) : St := { s with futs := s.futs.set w f }
def futOf (s : St) (w : Wid) : Fut := s.futs.getD w .pending

/-- `future.set_exception` / `set_result` is attempted on every listed work id; cancelled futures
    are skipped (the `InvalidStateError` is ignored) -/
def failAll (s : St) (ws : List Wid) (f : Fut) : St :=
  { s with futs := ws.foldl (fun fs w => if (fs.getD w .pending) == .cancelled then fs else fs.set w f) s.futs }

def spawn (s : St) : St :=
  let p := s.nextPid
  { s with nextPid := p + 1, procDict := s.procDict ++ [p], allPids := s.allPids ++ [p],
           w := upd s.w p .start }

/-! ### manager: local continuations -/

/-- `add_call_item_to_queue`, then the `wait` announcement -/
def mAddFuel : Nat → St → St
  | 0, s => { s with mpc := .wait s.procDict }
  | fuel + 1, s =>
    if s.cqSem = 0 then { s with mpc := .wait s.procDict }
    else match s.workIds with
      | [] => { s with mpc := .wait s.procDict }
      | i :: rest =>
        if futOf s i == .cancelled then
          -- set_running_or_notify_cancel() is false: forget the item, look at the next id
          mAddFuel fuel { s with workIds := rest, pending := s.pending.erase i }
        else
          setFut { s with workIds := rest, running := s.running ++ [i], mpc := .addAcq i } i .running

def mAdd (s : St) : St := mAddFuel (s.workIds.length + 1) s

def mJoinStart (s : St) : St := { s with mpc := .jAcq1 }

/-- `kill_workers()`: pop and kill every registered worker, then `join_executor_internals` -/
def mKillNext (s : St) : St :=
  match s.procDict.getLast? with
  | some p => { s with procDict := s.procDict.dropLast, mpc := .kill p }
  | none => mJoinStart s

/-- after an item (or a bare wake-up) has been processed: `is_shutting_down()`? -/
def mAfterItem (s : St) : St :=
  if s.globalShutdown || ((s.refs == 0 || s.shutdownFlag) && s.broken.isNone) then { s with mpc := .flagAcq }
  else mAdd s

/-- end of the pid-message processing: the manager's temporary strong reference is dropped -/
def mDropRef (s : St) : St :=
  let s := { s with refs := s.refs - 1 }
  if s.refs == 0 then { s with mpc := .cbAcq } else mAfterItem s

def mRespawnCheck (s : St) : St :=
  let nP := s.pending.length
  let nR := s.running.length
  if nP > nR ∨ nR > s.procDict.length then
    if s.refs > 0 ∧ s.procDict.length < s.cfg.maxWorkers then { s with refs := s.refs + 1, mpc := .rspAcq }
    else mAfterItem s
  else mAfterItem s

def mProcess (s : St) (r : Option RMsg) : St :=
  match r with
  | none => mAfterItem s
  | some .rtb => mAfterItem s      -- unreachable: `rtb` takes the broken branch
  | some (.res i isExc _) =>
      if i ∈ s.pending then
        mAfterItem (setFut { s with pending := s.pending.erase i, running := s.running.erase i } i
                             (if isExc then .excWorker else .value))
      else mAfterItem s
  | some (.pid p) => { s with mpc := .pidAcq p }

def mSpawnLoop (s : St) : St :=
  if s.procDict.length < s.cfg.maxWorkers then { s with mpc := .rspExit } else { s with mpc := .rspRel }

def mJoinProcs (s : St) : St :=
  match s.procDict.getLast? with
  | some p => { s with procDict := s.procDict.dropLast, mpc := .jJoin p }
  | none => { s with mpc := .jRel2 }

def mJoinClose (s : St) : St :=
  -- call_queue.close(): the feeder gets its close sentinel iff the feeder thread was ever started
  let s := if s.fpc ≠ .none then { s with cqBuf := s.cqBuf ++ [.close] } else s
  { s with mpc := .jShutAcq }

def mJoinLoop (s : St) (n sent cool : Nat) : St :=
  if sent < n then { s with mpc := .jAliveAcq n sent cool } else mJoinClose s

def mRelExitNext (s : St) (ps : List Pid) (n : Nat) : St :=
  match ps with
  | [] => { s with mpc := .jRel1 n }
  | _ :: _ => { s with mpc := .jRelExit ps n }

def mAliveNext (s : St) (ps : List Pid) (cnt n sent cool : Nat) : St :=
  match ps with
  | [] => { s with mpc := .jAliveRel cnt n sent cool }
  | _ :: _ => { s with mpc := .jAlive ps cnt n sent cool }

def mAfterPut (s : St) (k n sent cool : Nat) : St :=
  if k ≤ 1 then mJoinLoop s n (sent + 1) cool else { s with mpc := .jPut (k - 1) n (sent + 1) cool }

/-- what follows the pass of `add_call_item_to_queue` that the manager makes right after
    `flag_executor_shutting_down` when work items are pending (so that a table holding only cancelled futures is
    emptied before the thread waits again): still inside the pass at the blocking `acquire` of a call-queue slot;
    at its end the `if not pending_work_items` test — `join_executor_internals` when the table is empty, otherwise
    the loop starts over: its first statement, another pass, finds the call queue still full or the id queue still
    empty, and the thread announces `wait`. -/
def mAfterAddF (s : St) : St :=
  match s.mpc with
  | .addAcq i => { s with mpc := .addAcqF i }
  | .wait _ => if s.pending = [] then mJoinStart s else s
  | _ => s

def mAddF (s : St) : St := mAfterAddF (mAdd s)

/-- `flag_executor_shutting_down` after its lock section, then the end of the loop body -/
def mAfterFlag (s : St) : St :=
  if s.killFlag then
    mKillNext (failAll { s with pending := [] } s.pending .excShutdown)
  else if s.pending = [] then mJoinStart s
  else mAddF s

/-! ### feeder, user and worker continuations -/

def mEnded (s : St) : Bool :=
  match s.mpc with
  | .done | .raised _ => true
  | _ => false


def fNext (s : St) : St :=
  match s.cqBuf with
  | [] => { s with fpc := .wait }
  | .close :: rest => { s with cqBuf := rest, fpc := .done }
  | .stop :: rest => { s with cqBuf := rest, fpc := .acq .stop }
  | .call w t :: rest =>
      match (specOf s t).args with
      | .unpicklable => { s with cqBuf := rest, fpc := .errSem w }
      | .toolarge => { s with cqBuf := rest, fpc := .acqBig w }
      | _ => { s with cqBuf := rest, fpc := .acq (.call w t) }

def setU (s : St) (k : Nat) (pc : UPc) : St := { s with upc := upd s.upc k pc }

/-- fetch the next script operation of user `k` and announce it -/
def uNext (s : St) (k : Nat) : St :=
  match s.uscript k with
  | op :: rest => setU { s with uscript := upd s.uscript k rest, ucur := upd s.ucur k (some op) } k .api
  | [] => setU { s with ucur := upd s.ucur k none } k .done

/-- a user thread lets go of its reference to the executor (end of a method call, or `drop`);
    the weak-reference callback runs in that thread if this was the last one -/
def uRelease (s : St) (k : Nat) : St :=
  let s := { s with refs := s.refs - 1 }
  -- the weak reference lives in the manager thread object, which exists while it runs or while the
  -- executor's attribute still points to it
  if s.refs == 0 ∧ s.mpc ≠ .none ∧ (!mEnded s || !s.attrsDropped) then setU s k .cbAcq else uNext s k

def uSpawnLoop (s : St) (k : Nat) : St :=
  if s.procDict.length < s.cfg.maxWorkers then setU s k .subExit
  else if s.mpc = .none then setU s k .subTStart else setU s k .subRelMgmt

/-- the future the caller holds for task `t`: the latest submission of `t` whose `submit` has returned -/
def widOfTask (s : St) (t : Tid) : Option Wid :=
  let idx := (s.taskOf.take s.visible).zipIdx.filter (fun p => p.1 == t)
  idx.getLast?.map (·.2)

def setW (s : St) (p : Pid) (pc : WPc) : St := { s with w := upd s.w p pc }

def wGet (s : St) (p : Pid) : St := setW s p (if s.cfg.timeout then .tAcq else .gAcq)

def wDispatch (s : St) (p : Pid) (m : CMsg) : St :=
  match m with
  | .call w t => if (specOf s t).args == .badunpickle then setW s p .bAcq else setW s p (.task w t)
  | _ => setW s p .xAcq

def wAfterStart (s : St) (p : Pid) : St :=
  if s.cfg.hasInit then setW s p .init else wGet s p

/-- after a result has been sent: the memory-leak check -/
def wAfterResult (s : St) (p : Pid) : St :=
  let n := s.nDone p + 1
  let s := { s with nDone := upd s.nDone p n }
  -- the first completed call only takes the reference measurement
  if n = 1 then wGet { s with refLeaky := upd s.refLeaky p (s.leaky p) } p
  else if s.leaky p ∧ ¬ s.refLeaky p then setW s p .lAcq else wGet s p

def die (s : St) (p : Pid) (code : Int) : St :=
  { s with w := upd s.w p .dead, exitCode := upd s.exitCode p (some code) }

/-! ### steps -/

def stepW (s : St) (p : Pid) (v : Variant) : Option St :=
  let set (pc : WPc) (s : St) : St := setW s p pc
  match s.w p, v with
  | .dead, _ => none
  | .exit _, .crash => none
  | _, .crash => some (die s p (-9))
  | .start, .ok => some (wAfterStart s p)
  | .init, .ok =>
      let s := { s with initLog := s.initLog ++ [p] }
      if (p - 100) ∈ s.cfg.initFail then some (set (.exit 0) s) else some (wGet s p)
  -- blocking get
  | .gAcq, .ok => (acq s.cqRlock).map fun x => set .gRecv { s with cqRlock := x, oCqRlock := some (.W p) }
  | .gRecv, .ok => match s.cqPipe with
      | m :: rest => some (set (.gRel m) { s with cqPipe := rest })
      | [] => none
  | .gRel m, .ok => some (set (.gSem m) { s with cqRlock := s.cqRlock + 1, oCqRlock := none })
  | .gSem m, .ok => some (wDispatch { s with cqSem := s.cqSem + 1 } p m)
  -- get with time-out
  | .tAcq, .ok => (acq s.cqRlock).map fun x => set .tPoll { s with cqRlock := x, oCqRlock := some (.W p) }
  | .tAcq, .timeout => if s.cqRlock = 0 then some (set .eTry s) else none
  | .tPoll, .ok => if s.cqPipe ≠ [] then some (set .tRecv s) else none
  | .tPoll, .timeout => if s.cqPipe = [] then some (set .tRelE s) else none
  | .tRecv, .ok => match s.cqPipe with
      | m :: rest => some (set (.tSem m) { s with cqPipe := rest })
      | [] => none
  | .tSem m, .ok => some (set (.tRel m) { s with cqSem := s.cqSem + 1 })
  | .tRel m, .ok => some (wDispatch { s with cqRlock := s.cqRlock + 1, oCqRlock := none } p m)
  | .tRelE, .ok => some (set .eTry { s with cqRlock := s.cqRlock + 1, oCqRlock := none })
  -- queue.Empty: leave unless workers are being spawned
  | .eTry, .ok => (acq s.mgmt).map fun x => set .eRel { s with mgmt := x, oMgmt := some (.W p) }
  | .eTry, .fail => if s.mgmt = 0 then some (wGet s p) else none
  | .eRel, .ok => some (set .xAcq { s with mgmt := s.mgmt + 1, oMgmt := none })
  -- a call item
  | .task w t, .ok => some (set (.taskEnd w t) { s with execLog := s.execLog ++ [(p, t)], execW := s.execW ++ [w] })
  | .taskEnd w t, .ok =>
      let sp := specOf s t
      let s := if t ∈ s.cfg.leakAfter then { s with leaky := upd s.leaky p true } else s
      match sp.body with
      | .die => some (die s p (-11))
      | .raises => some (set (.rAcq w true false) s)
      | .ok => some (set (.rAcq w false (sp.res == .badunpickle)) s)
  | .rAcq w e b, .ok => (acq s.rqWlock).map fun x => set (.rSend w e b) { s with rqWlock := x, oRqWlock := some (.W p) }
  | .rSend w e b, .ok => some (set .rRel { s with rqPipe := s.rqPipe ++ [.res w e b] })
  | .rRel, .ok => some (wAfterResult { s with rqWlock := s.rqWlock + 1, oRqWlock := none } p)
  -- the call item failed to un-pickle: report and exit(1)
  | .bAcq, .ok => (acq s.rqWlock).map fun x => set .bSend { s with rqWlock := x, oRqWlock := some (.W p) }
  | .bSend, .ok => some (set .bRel { s with rqPipe := s.rqPipe ++ [.rtb] })
  | .bRel, .ok => some (set (.exit 1) { s with rqWlock := s.rqWlock + 1, oRqWlock := none })
  -- clean exit handshake
  | .xAcq, .ok => (acq s.rqWlock).map fun x => set .xSend { s with rqWlock := x, oRqWlock := some (.W p) }
  | .xSend, .ok => some (set .xRel { s with rqPipe := s.rqPipe ++ [.pid p] })
  | .xRel, .ok => some (set .xExit { s with rqWlock := s.rqWlock + 1, oRqWlock := none })
  | .xExit, .ok => (acq (s.exitL p)).map fun x => set (.exit 0) { s with exitL := upd s.exitL p x }
  | .xExit, .timeout => if s.exitL p = 0 then some (set (.exit 0) s) else none
  -- memory-leak exit
  | .lAcq, .ok => (acq s.rqWlock).map fun x => set .lSend { s with rqWlock := x, oRqWlock := some (.W p) }
  | .lSend, .ok => some (set .lRel { s with rqPipe := s.rqPipe ++ [.pid p] })
  | .lRel, .ok => some (set .lExitAcq { s with rqWlock := s.rqWlock + 1, oRqWlock := none })
  | .lExitAcq, .ok => (acq (s.exitL p)).map fun x => set .lExitRel { s with exitL := upd s.exitL p x }
  | .lExitRel, .ok => some (set (.exit 0) { s with exitL := upd s.exitL p (s.exitL p + 1) })
  | .exit c, .ok => some (die s p c)
  | _, _ => none

def stepF (s : St) (v : Variant) : Option St :=
  match s.fpc, v with
  | .start, .ok => some (fNext s)
  | .wait, .ok => if s.cqBuf ≠ [] then some (fNext s) else none
  | .acq m, .ok => (acq s.cqWlock).map fun x => { s with cqWlock := x, oCqWlock := some (.F), fpc := .send m }
  | .send m, .ok => some { s with cqPipe := s.cqPipe ++ [m], fpc := .rel }
  | .rel, .ok => some (fNext { s with cqWlock := s.cqWlock + 1, oCqWlock := none })
  | .acqBig w, .ok => (acq s.cqWlock).map fun x => { s with cqWlock := x, oCqWlock := some (.F), fpc := .sendBig w }
  | .sendBig w, .ok => some { s with fpc := .relBig w }
  | .relBig w, .ok => some { s with cqWlock := s.cqWlock + 1, oCqWlock := none, fpc := .errSem w }
  -- `_on_queue_feeder_error`: give the slot back, fail the future, wake the manager
  | .errSem w, .ok =>
      let s := { s with cqSem := s.cqSem + 1 }
      let s := if w ∈ s.pending then setFut { s with pending := s.pending.erase w } w .excFeeder else s
      some { s with running := s.running.erase w, fpc := .errAcq }
  | .errAcq, .ok => (acq s.shut).map fun x =>
      { s with shut := x, oShut := some (.F), fpc := if s.wakeupClosed then .errRel else .errWake }
  | .errWake, .ok => some { s with wakeup := s.wakeup + 1, fpc := .errRel }
  | .errRel, .ok => some (fNext { s with shut := s.shut + 1, oShut := none })
  | _, _ => none

def stepM (s : St) (v : Variant) : Option St :=
  match s.mpc, v with
  | .start, .ok => some (mAdd s)
  | .addAcq i, .ok => (acq s.cqSem).map fun x =>
      let s := { s with cqSem := x }
      if s.fpc = .none then { s with mpc := .addTStart i }
      else mAdd { s with cqBuf := s.cqBuf ++ [.call i (s.taskOf.getD i 0)] }
  | .addTStart i, .ok => some (mAdd { s with fpc := .start, cqBuf := s.cqBuf ++ [.call i (s.taskOf.getD i 0)] })
  | .addAcqF i, .ok => (acq s.cqSem).map fun x =>
      let s := { s with cqSem := x }
      if s.fpc = .none then { s with mpc := .addTStartF i }
      else mAddF { s with cqBuf := s.cqBuf ++ [.call i (s.taskOf.getD i 0)] }
  | .addTStartF i, .ok => some (mAddF { s with fpc := .start, cqBuf := s.cqBuf ++ [.call i (s.taskOf.getD i 0)] })
  | .wait snap, .ok =>
      if s.rqPipe ≠ [] then some { s with mpc := .recv }
      else if s.wakeup > 0 then some { s with mpc := .clrPoll (.item none) }
      else if snap.any (isDead s) then some { s with mpc := .clrPoll (.broken .terminated) }
      else none
  | .recv, .ok => match s.rqPipe with
      | .rtb :: rest => some { s with rqPipe := rest, mpc := .clrPoll (.broken .unserialize) }
      | .res w e true :: rest => some { s with rqPipe := rest, mpc := .clrPoll (.broken .unserialize) }
      | r :: rest => some { s with rqPipe := rest, mpc := .clrPoll (.item (some r)) }
      | [] => none
  | .clrPoll k, .ok => if s.wakeup > 0 then some { s with mpc := .clrRecv k } else none
  | .clrPoll k, .fail =>
      if s.wakeup = 0 then
        match k with
        | .item r => some (mProcess s r)
        | .broken b => some { s with mpc := .brkAcq b }
      else none
  | .clrRecv k, .ok => if s.wakeup > 0 then some { s with wakeup := s.wakeup - 1, mpc := .clrPoll k } else none
  -- a worker announced its exit
  | .pidAcq p, .ok => (acq s.mgmt).map fun x =>
      { s with mgmt := x, oMgmt := some (.M), procDict := s.procDict.erase p, mpc := .pidRel p (p ∈ s.procDict) }
  | .pidRel p known, .ok =>
      let s := { s with mgmt := s.mgmt + 1, oMgmt := none }
      some (if known then { s with mpc := .pidRelExit p } else mRespawnCheck s)
  | .pidRelExit p, .ok => some { s with exitL := upd s.exitL p (s.exitL p + 1), mpc := .pidJoin p }
  | .pidJoin p, .ok => if isDead s p then some (mRespawnCheck s) else none
  | .rspAcq, .ok => (acq s.mgmt).map fun x => mSpawnLoop { s with mgmt := x, oMgmt := some (.M) }
  | .rspExit, .ok => some { s with exitL := upd s.exitL s.nextPid 0, mpc := .rspStart }
  | .rspStart, .ok => some (mSpawnLoop (spawn s))
  | .rspRel, .ok => some (mDropRef { s with mgmt := s.mgmt + 1, oMgmt := none })
  | .cbAcq, .ok => (acq s.shut).map fun x => { s with shut := x, oShut := some (.M), mpc := if s.wakeupClosed then .cbRel else .cbWake }
  | .cbWake, .ok => some { s with wakeup := s.wakeup + 1, mpc := .cbRel }
  | .cbRel, .ok => some (mAfterItem { s with shut := s.shut + 1, oShut := none })
  -- flag_executor_shutting_down
  | .flagAcq, .ok => (acq s.shut).map fun x => { s with shut := x, oShut := some (.M), shutdownFlag := true, mpc := .flagRel }
  | .flagRel, .ok => some (mAfterFlag { s with shut := s.shut + 1, oShut := none })
  -- terminate_broken
  | .brkAcq b, .ok => (acq s.shut).map fun x =>
      { s with shut := x, oShut := some (.M), shutdownFlag := true, broken := some b, mpc := .brkRel b }
  | .brkRel b, .ok =>
      some (mKillNext (failAll { s with shut := s.shut + 1, oShut := none, pending := [] } s.pending
                                (if b == .terminated then .excTerminated else .excBroken)))
  | .kill p, .ok =>
      some (if alive s p then die { s with mpc := .killJoin p } p (-9) else { s with mpc := .killJoin p })
  | .killJoin p, .ok => if isDead s p then some (mKillNext s) else none
  -- join_executor_internals
  | .jAcq1, .ok => (acq s.mgmt).map fun x => mRelExitNext { s with mgmt := x, oMgmt := some (.M) } s.procDict 0
  | .jRelExit (p :: rest) n, .ok =>
      if s.exitL p ≥ 1 then some { s with mpc := .raised "ValueError: semaphore or lock released too many times" }
      else some (mRelExitNext { s with exitL := upd s.exitL p (s.exitL p + 1) } rest (n + 1))
  | .jRel1 n, .ok => some (mJoinLoop { s with mgmt := s.mgmt + 1, oMgmt := none } n 0 0)
  | .jAliveAcq n sent cool, .ok => (acq s.mgmt).map fun x => mAliveNext { s with mgmt := x, oMgmt := some (.M) } s.procDict 0 n sent cool
  | .jAlive (p :: rest) cnt n sent cool, .ok =>
      some (mAliveNext s rest (cnt + (if isDead s p then 0 else 1)) n sent cool)
  | .jAliveRel cnt n sent cool, .ok =>
      let s := { s with mgmt := s.mgmt + 1, oMgmt := none }
      some (if cnt > 0 then { s with mpc := .jPut (n - sent) n sent cool } else mJoinClose s)
  | .jPut k n sent cool, .ok => (acq s.cqSem).map fun x =>
      let s := { s with cqSem := x }
      if s.fpc = .none then { s with mpc := .jPutTStart k n sent cool }
      else mAfterPut { s with cqBuf := s.cqBuf ++ [.stop] } k n sent cool
  | .jPut _ n sent cool, .fail =>
      if s.cqSem = 0 then
        some (if cool ≥ 47 then { s with mpc := .raised "queue.Full" } else { s with mpc := .jSleep n sent cool })
      else none
  | .jPutTStart k n sent cool, .ok =>
      some (mAfterPut { s with fpc := .start, cqBuf := s.cqBuf ++ [.stop] } k n sent cool)
  | .jSleep n sent cool, .ok => some (mJoinLoop s n sent (cool + 1))
  | .jShutAcq, .ok => (acq s.shut).map fun x => { s with shut := x, oShut := some (.M), wakeupClosed := true, mpc := .jShutRel }
  | .jShutRel, .ok => some { s with shut := s.shut + 1, oShut := none, mpc := .jAcq2 }
  | .jAcq2, .ok => (acq s.mgmt).map fun x => mJoinProcs { s with mgmt := x, oMgmt := some (.M) }
  | .jJoin p, .ok => if isDead s p then some (mJoinProcs s) else none
  | .jRel2, .ok => some { s with mgmt := s.mgmt + 1, oMgmt := none, mpc := .done }
  | _, _ => none

/-- dispatch of a script operation at its `api` announcement -/
def uDispatch (s : St) (k : Nat) (op : UOp) : St :=
  match op with
  | .create => uNext { s with created := true, held := true, refs := 1 } k
  | .idle => uNext s k
  | .submit t =>
      if s.held then setU { s with refs := s.refs + 1 } k (.subAcqShut t) else uNext s k
  | .cancel t =>
      match widOfTask s t with
      | some w =>
          match futOf s w with
          | .pending => uNext (setFut { s with cancelOk := s.cancelOk ++ [w] } w .cancelled) k
          | .cancelled => uNext { s with cancelOk := s.cancelOk ++ [w] } k
          | _ => uNext s k
      | none => uNext s k
  | .shutdown wait kill =>
      if s.held then setU { s with refs := s.refs + 1 } k (.sdAcq1 wait kill) else uNext s k
  | .drop => if s.held then uRelease { s with held := false } k else uNext s k
  | .pyexit =>
      -- `_threads_wakeups` holds the manager thread while it is registered
      if s.threadReg ∧ (!mEnded s || (!s.attrsDropped && s.refs > 0))
      then setU { s with globalShutdown := true } k .peAcq
      else uNext { s with globalShutdown := true } k

def stepU (s : St) (k : Nat) (v : Variant) : Option St :=
  let set (pc : UPc) (s : St) : St := setU s k pc
  match s.upc k, v with
  | .start, .ok => some (uNext s k)
  | .api, .ok => match s.ucur k with
      | some op => some (uDispatch s k op)
      | none => none
  -- submit
  | .subAcqShut t, .ok => (acq s.shut).map fun x =>
      let s := { s with shut := x, oShut := some (.U k) }
      if s.broken.isSome then
        -- the stored exception object is raised: its traceback now references the executor, which
        -- from here on can only be reclaimed by the cyclic garbage collector (not modelled)
        set .subRelShut { s with refs := s.refs + 1 }
      else if s.shutdownFlag ∨ s.globalShutdown then set .subRelShut s
      else
        let i := s.queueCount
        set .subAcqMgmt { s with pending := s.pending ++ [i], workIds := s.workIds ++ [i],
                                 futs := s.futs ++ [.pending], taskOf := s.taskOf ++ [t], queueCount := i + 1 }
  | .subAcqMgmt, .ok => (acq s.mgmt).map fun x =>
      let s := { s with mgmt := x, oMgmt := some (.U k) }
      if s.procDict.length ≠ s.cfg.maxWorkers then uSpawnLoop s k
      else if s.mpc = .none then set .subTStart s else set .subRelMgmt s
  | .subExit, .ok => some (set .subPStart { s with exitL := upd s.exitL s.nextPid 0 })
  | .subPStart, .ok => some (uSpawnLoop (spawn s) k)
  | .subTStart, .ok => some (set .subRelMgmt { s with mpc := .start, threadReg := true })
  | .subRelMgmt, .ok =>
      some (set (if s.wakeupClosed then .subRelShut else .subWake) { s with mgmt := s.mgmt + 1, oMgmt := none })
  | .subWake, .ok => some (set .subRelShut { s with wakeup := s.wakeup + 1 })
  | .subRelShut, .ok => some (uRelease { s with shut := s.shut + 1, oShut := none, visible := s.futs.length } k)
  -- shutdown(wait, kill_workers)
  | .sdAcq1 w kl, .ok => (acq s.shut).map fun x =>
      set (.sdRel1 w) { s with shut := x, oShut := some (.U k), shutdownFlag := true, killFlag := s.killFlag || kl }
  | .sdRel1 w, .ok =>
      let s := { s with shut := s.shut + 1, oShut := none }
      some (if s.attrsDropped then uRelease s k else set (.sdAcq2 w) s)
  | .sdAcq2 w, .ok => (acq s.shut).map fun x =>
      set (if s.wakeupClosed then .sdRel2 w else .sdWake w) { s with shut := x, oShut := some (.U k) }
  | .sdWake w, .ok => some (set (.sdRel2 w) { s with wakeup := s.wakeup + 1 })
  | .sdRel2 w, .ok =>
      let s := { s with shut := s.shut + 1, oShut := none }
      -- `if wait or executor_manager_thread is None:` the attributes are dropped; a `shutdown(wait=False)` on a
      -- running executor keeps them, so that a later `shutdown(wait=True)` can still wake and join the manager
      some (if s.mpc ≠ .none ∧ w then set .sdAcqG s
            else uRelease { s with attrsDropped := s.attrsDropped || decide (s.mpc = .none) } k)
  | .sdAcqG, .ok => (acq s.gshut).map fun x => set .sdJoin { s with gshut := x, oGshut := some (.U k) }
  | .sdJoin, .ok => if mEnded s then some (set .sdRelG s) else none
  | .sdRelG, .ok => some (uRelease { s with gshut := s.gshut + 1, oGshut := none, attrsDropped := true, threadReg := false } k)
  -- weak-reference callback
  | .cbAcq, .ok => (acq s.shut).map fun x => set (if s.wakeupClosed then .cbRel else .cbWake) { s with shut := x, oShut := some (.U k) }
  | .cbWake, .ok => some (set .cbRel { s with wakeup := s.wakeup + 1 })
  | .cbRel, .ok => some (uNext { s with shut := s.shut + 1, oShut := none } k)
  -- _python_exit
  | .peAcq, .ok => (acq s.shut).map fun x => set (if s.wakeupClosed then .peRel else .peWake) { s with shut := x, oShut := some (.U k) }
  | .peWake, .ok => some (set .peRel { s with wakeup := s.wakeup + 1 })
  | .peRel, .ok => some (set .peAcqG { s with shut := s.shut + 1, oShut := none })
  | .peAcqG, .ok => (acq s.gshut).map fun x => set .peJoin { s with gshut := x, oGshut := some (.U k) }
  | .peJoin, .ok => if mEnded s then some (set .peRelG s) else none
  | .peRelG, .ok => some (uNext { s with gshut := s.gshut + 1, oGshut := none } k)
  | _, _ => none

def step (s : St) (a : Actor) (v : Variant) : Option St :=
  match a with
  | .U k => if k < s.cfg.scripts.length then stepU s k v else none
  | .M => stepM s v
  | .F => stepF s v
  | .W p => if p ∈ s.allPids then stepW s p v else none

def init (cfg : Cfg) : St :=
  { cfg := cfg, cqSem := 2 * cfg.maxWorkers + 1, uscript := fun k => cfg.scripts.getD k [] }

/-- run a schedule; `none` as soon as a chosen step is not enabled -/
def run (s : St) : List (Actor × Variant) → Option St
  | [] => some s
  | (a, v) :: rest => (step s a v).bind (run · rest)

end LokyModel.Exec
