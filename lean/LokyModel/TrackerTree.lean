/-!
# M4 `TrackerTree` — process tree, shared resource tracker, SemLock name life cycle

Import-free executable model of

* `loky/backend/resource_tracker.py`  (`ResourceTracker.ensure_running` l.94-172, `_check_alive`,
  `_send`/`register`/`unregister`/`maybe_unlink`, the tracker's `main` l.183-324: signal set-up,
  registry `name → count`, EOF sweep),
* `loky/backend/spawn.py` (`get_preparation_data` l.81-89 ships `_resource_tracker._pid/_fd`,
  `prepare` l.182-191 installs them in the child) and `popen_loky_posix.py` l.94,120-128 (the
  tracker fd is in the keep-list of `fork_exec`, so the child holds the write end),
* `loky/backend/synchronize.py` (`SemLock.__init__` l.65-101: `_SemLock(...)` l.72 = `sem_open` with a
  fresh name, *then* `resource_tracker.register` l.98; `_cleanup` l.104-112: `sem_unlink` *then*
  (`finally`) `unregister`; `__getstate__/__setstate__` l.124-136: copies are rebuilt by handle/name,
  they neither register nor install a finalizer).

State: processes (status, parent, depth, the tracker incarnation they believe in, number of
"relaunching" warnings issued); tracker incarnations (start-up phase, registry, the **writer set** of
their pipe, a pending INT/TERM behind the start-up mask, what the end-of-life sweep reported); the
kernel name space (`ns`: named semaphores and tracked files); SemLock objects (owner phases vs
unpickled copies).

OS semantics that are *assumed* (they are what the model's transitions encode, not theorems):
* a pipe reaches EOF exactly when its last write end is closed: `eof t` is enabled iff `writers = []`;
* a process that ends in any way (SIGKILL included) closes its descriptors: every `exit` removes the
  process from the writer set; a killed process runs no finalizer (`ExitKind.crash`);
* `os.write` on the tracker fd fails (EPIPE) iff the tracker process is gone: `_check_alive` is
  `trackerAlive`; the signal mask and the `close_fds`/`pass_fds` discipline are inherited across
  `fork_exec`: a new tracker starts with INT/TERM blocked and holds no write end itself;
* messages are ≤ 512 bytes, hence atomic; the pipe is FIFO and the tracker drains it before it sees
  EOF: a send is modelled as an immediate registry update of a live tracker;
* `_make_name()` never collides with an existing name (the code retries on `FileExistsError`): names
  come from a counter.
-/
namespace LokyModel.TrackerTree

abbrev Pid := Nat
abbrev Tid := Nat
abbrev Name := Nat
abbrev Oid := Nat

/-- functional update -/
def upd {α : Type} (f : Nat → α) (k : Nat) (v : α) : Nat → α := fun i => if i = k then v else f i

inductive PSt | unborn | live | dead
  deriving DecidableEq, Repr, Inhabited

/-- tracker life: `starting0` = exec'ed with INT/TERM blocked by the inherited mask, default
    dispositions; `starting1` = `signal.signal(SIGINT/SIGTERM, SIG_IGN)` done (l.189-190), still blocked;
    `running` = `pthread_sigmask(SIG_UNBLOCK)` done (l.192-193), in the read loop;
    `killed` = died from a signal; `done` = saw EOF, swept, exited. -/
inductive TPh | unborn | starting0 | starting1 | running | killed | done
  deriving DecidableEq, Repr, Inhabited

/-- SemLock objects.  Owner: `opened` (sem_open done, not yet registered) → `registered` →
    `unlinked` (finalizer: sem_unlink done) → `released` (UNREGISTER sent).  `copy` = unpickled copy
    alive in a child, `dropped` = copy collected. -/
inductive OPh | none | opened | registered | unlinked | released | copy | dropped
  deriving DecidableEq, Repr, Inhabited

inductive Sig | int | term | kill
  deriving DecidableEq, Repr, Inhabited

/-- `normal` = return / sys.exit, `exc` = uncaught exception: both run `util._exit_function`, hence
    the SemLock finalizers (exitpriority 0).  `crash` = SIGKILL, SIGTERM with default disposition,
    `os._exit`, segfault: no Python code runs. -/
inductive ExitKind | normal | exc | crash
  deriving DecidableEq, Repr, Inhabited

inductive Op | register | unregister | maybeUnlink
  deriving DecidableEq, Repr, Inhabited

structure Proc where
  st : PSt := .unborn
  parent : Pid := 0
  depth : Nat := 0
  /-- `_resource_tracker._pid/_fd`; `none` = `_fd is None` (never launched nor inherited) -/
  trk : Option Tid := none
  /-- "process died unexpectedly, relaunching" warnings issued by this process -/
  warned : Nat := 0
  initMain : Bool := false
  deriving Inhabited

structure Tracker where
  ph : TPh := .unborn
  /-- registry of `main`: `name → count`, 0 = absent (a present entry is never 0 in the code) -/
  reg : Name → Nat := fun _ => 0
  /-- processes holding the write end of this tracker's pipe -/
  writers : List Pid := []
  /-- an INT/TERM arrived while blocked by the start-up mask -/
  pending : Bool := false
  /-- "There appear to be N leaked semlock / file objects": what the end-of-life sweep reported -/
  leakedSem : Nat := 0
  leakedFile : Nat := 0
  /-- per-line exception barrier hits (KeyError on unknown name …) -/
  errors : Nat := 0
  deriving Inhabited

structure SObj where
  ph : OPh := .none
  proc : Pid := 0
  name : Name := 0
  deriving Inhabited

structure State where
  procs : Pid → Proc
  trks : Tid → Tracker
  nTrk : Nat
  ns : Name → Bool
  isSem : Name → Bool
  nName : Nat
  objs : Oid → SObj
  nObj : Nat
  /-- ghost: SIGKILLs that hit a live tracker -/
  trkKills : Nat
  /-- ghost: crashes of a process between `sem_open` and `register` of one of its SemLocks -/
  windowCrashes : Nat

/-- the root process (pid 0) exists, nothing else -/
def init : State where
  procs := upd (fun _ => {}) 0 { st := .live }
  trks := fun _ => {}
  nTrk := 0
  ns := fun _ => false
  isSem := fun _ => false
  nName := 0
  objs := fun _ => {}
  nObj := 0
  trkKills := 0
  windowCrashes := 0

inductive Ev
  /-- `p` starts a LokyProcess / LokyInitMainProcess `c` (Popen._launch: getfd, get_preparation_data, fork_exec, prepare) -/
  | spawn (p c : Pid) (initMain : Bool)
  | exit (p : Pid) (k : ExitKind)
  | sigTracker (t : Tid) (s : Sig)
  /-- the tracker advances one stage of its start-up -/
  | boot (t : Tid)
  /-- tracked operation of `p` on a *file* name -/
  | op (p : Pid) (o : Op) (n : Name)
  /-- `p` creates a file (fresh name); not a tracked operation -/
  | mkfile (p : Pid)
  /-- the tracker reads EOF: sweep and exit -/
  | eof (t : Tid)
  | semOpen (p : Pid) (o : Oid)
  | semRegister (p : Pid) (o : Oid)
  | finUnlink (p : Pid) (o : Oid)
  | finUnregister (p : Pid) (o : Oid)
  /-- pickling `o` of `p` into child `c` while spawning: object `o'` in `c` -/
  | copy (p : Pid) (o : Oid) (c : Pid) (o' : Oid)
  | dropCopy (c : Pid) (o' : Oid)
  deriving DecidableEq, Repr, Inhabited

/-! ### the tracker process -/

def Tracker.alive (tr : Tracker) : Bool :=
  match tr.ph with
  | .starting0 | .starting1 | .running => true
  | _ => false

/-- one request line processed by `main` (l.229-282) -/
def Tracker.recv (tr : Tracker) (o : Op) (n : Name) : Tracker × Bool :=
  match o with
  | .register => ({ tr with reg := upd tr.reg n (tr.reg n + 1) }, false)
  | .unregister =>
      if tr.reg n = 0 then ({ tr with errors := tr.errors + 1 }, false)      -- `del registry[rtype][name]`: KeyError, reported, loop goes on
      else ({ tr with reg := upd tr.reg n 0 }, false)
  | .maybeUnlink =>
      if tr.reg n = 0 then ({ tr with errors := tr.errors + 1 }, false)
      else if tr.reg n = 1 then ({ tr with reg := upd tr.reg n 0 }, true)   -- count hits 0: `_CLEANUP_FUNCS[rtype](name)`
      else ({ tr with reg := upd tr.reg n (tr.reg n - 1) }, false)

/-- a signal reaches tracker `tr` -/
def Tracker.signal (tr : Tracker) (s : Sig) : Tracker :=
  if !tr.alive then tr else
  match s with
  | .kill => { tr with ph := .killed }
  | _ =>
    match tr.ph with
    | .starting0 | .starting1 => { tr with pending := true }   -- blocked by the mask inherited from ensure_running (l.151-156)
    | _ => tr                                                    -- running: SIG_IGN

/-- next stage of the start-up (l.189-193) -/
def Tracker.boot (tr : Tracker) : Option Tracker :=
  match tr.ph with
  | .starting0 => some { tr with ph := .starting1 }              -- SIG_IGN installed for INT and TERM
  | .starting1 => some { tr with ph := .running, pending := false }  -- unblocked: a pending ignored signal is discarded
  | _ => none

/-! ### `ResourceTracker` in a client process -/

/-- fresh incarnation launched by `p` (l.126-172); `p` keeps the write end, the tracker only the read end -/
def launch (s : State) (p : Pid) (warn : Bool) : State :=
  { s with
    trks := upd s.trks s.nTrk { ph := .starting0, writers := [p] }
    nTrk := s.nTrk + 1
    procs := upd s.procs p { s.procs p with trk := some s.nTrk,
                                             warned := (s.procs p).warned + (if warn then 1 else 0) } }

/-- `os.close(self._fd)` (l.106) -/
def closeFd (s : State) (p : Pid) (t : Tid) : State :=
  { s with trks := upd s.trks t { s.trks t with writers := (s.trks t).writers.erase p } }

/-- `ensure_running` (l.94-172): probe; dead ⇒ close, reap, warn, relaunch -/
def ensureRunning (s : State) (p : Pid) : State :=
  match (s.procs p).trk with
  | none => launch s p false
  | some t => if (s.trks t).alive then s else launch (closeFd s p t) p true

def curTrk (s : State) (p : Pid) : Tid := ((s.procs p).trk).getD 0

/-- `_send`: `ensure_running()` then one atomic write -/
def send (s : State) (p : Pid) (o : Op) (n : Name) : State :=
  let s1 := ensureRunning s p
  let t := curTrk s1 p
  let r := (s1.trks t).recv o n
  { s1 with trks := upd s1.trks t r.1, ns := if r.2 then upd s1.ns n false else s1.ns }

/-! ### end-of-life sweep (l.288-324) -/

def leakCount (tr : Tracker) (isSem : Name → Bool) (nName : Nat) (sem : Bool) : Nat :=
  ((List.range nName).filter (fun n => decide (0 < tr.reg n) && (isSem n == sem))).length

def sweep (s : State) (t : Tid) : State :=
  let tr := s.trks t
  { s with
    ns := fun n => if 0 < tr.reg n then false else s.ns n
    trks := upd s.trks t { tr with ph := .done, reg := fun _ => 0,
                                   leakedSem := leakCount tr s.isSem s.nName true,
                                   leakedFile := leakCount tr s.isSem s.nName false } }

/-! ### guards -/

def isLive (s : State) (p : Pid) : Bool := (s.procs p).st == .live

/-- an owner object in the middle of its life: a finalizer is still due -/
def OPh.busy : OPh → Bool
  | .opened | .registered | .unlinked => true
  | _ => false

/-- `util._exit_function` has run every finalizer of `p` -/
def finalized (s : State) (p : Pid) : Bool :=
  (List.range s.nObj).all (fun o => !((s.objs o).proc == p && (s.objs o).ph.busy))

def inWindow (s : State) (p : Pid) : Bool :=
  (List.range s.nObj).any (fun o => (s.objs o).proc == p && (s.objs o).ph == .opened)

def leave (s : State) (p : Pid) : State :=
  let s1 := match (s.procs p).trk with
            | some t => closeFd s p t
            | none => s
  { s1 with procs := upd s1.procs p { s1.procs p with st := .dead } }

/-! ### the transition function -/

def step (s : State) : Ev → Option State
  | .spawn p c im =>
      if isLive s p && (s.procs c).st == .unborn then
        let s1 := ensureRunning s p                       -- `getfd()` in Popen._launch, again in get_preparation_data
        let t := curTrk s1 p
        some { s1 with
          procs := upd s1.procs c { st := .live, parent := p, depth := (s1.procs p).depth + 1,
                                    trk := some t, initMain := im }
          trks := upd s1.trks t { s1.trks t with writers := c :: (s1.trks t).writers } }
      else none
  | .exit p k =>
      if isLive s p then
        match k with
        | .crash => some { leave s p with windowCrashes := s.windowCrashes + (if inWindow s p then 1 else 0) }
        | _ => if finalized s p then some (leave s p) else none
      else none
  | .sigTracker t sg =>
      if t < s.nTrk then
        some { s with trks := upd s.trks t ((s.trks t).signal sg)
                      trkKills := s.trkKills + (if sg == .kill && (s.trks t).alive then 1 else 0) }
      else none
  | .boot t =>
      match (s.trks t).boot with
      | some tr => some { s with trks := upd s.trks t tr }
      | none => none
  | .op p o n =>
      if isLive s p && decide (n < s.nName) && !s.isSem n then some (send s p o n) else none
  | .mkfile p =>
      if isLive s p then
        some { s with ns := upd s.ns s.nName true, isSem := upd s.isSem s.nName false, nName := s.nName + 1 }
      else none
  | .eof t =>
      if (s.trks t).ph == .running && (s.trks t).writers.isEmpty then some (sweep s t) else none
  | .semOpen p o =>
      if isLive s p && (s.objs o).ph == .none then
        some { s with ns := upd s.ns s.nName true, isSem := upd s.isSem s.nName true, nName := s.nName + 1
                      objs := upd s.objs o { ph := .opened, proc := p, name := s.nName }
                      nObj := max s.nObj (o + 1) }
      else none
  | .semRegister p o =>
      if isLive s p && (s.objs o).proc == p && (s.objs o).ph == .opened then
        let s1 := send s p .register (s.objs o).name
        some { s1 with objs := upd s1.objs o { s1.objs o with ph := .registered } }
      else none
  | .finUnlink p o =>
      if isLive s p && (s.objs o).proc == p && (s.objs o).ph == .registered then
        some { s with ns := upd s.ns (s.objs o).name false
                      objs := upd s.objs o { s.objs o with ph := .unlinked } }
      else none
  | .finUnregister p o =>
      if isLive s p && (s.objs o).proc == p && (s.objs o).ph == .unlinked then
        let s1 := send s p .unregister (s.objs o).name
        some { s1 with objs := upd s1.objs o { s1.objs o with ph := .released } }
      else none
  | .copy p o c o' =>
      if isLive s p && isLive s c && (s.objs o).proc == p
          && ((s.objs o).ph == .registered || (s.objs o).ph == .copy) && (s.objs o').ph == .none then
        some { s with objs := upd s.objs o' { ph := .copy, proc := c, name := (s.objs o).name }
                      nObj := max s.nObj (o' + 1) }
      else none
  | .dropCopy c o' =>
      if isLive s c && (s.objs o').proc == c && (s.objs o').ph == .copy then
        some { s with objs := upd s.objs o' { s.objs o' with ph := .dropped } }
      else none

/-- histories are lists of events, **newest first** -/
inductive Reach : List Ev → State → Prop
  | init : Reach [] init
  | step {h s e s'} : Reach h s → step s e = some s' → Reach (e :: h) s'

/-- run a history given oldest first (for the driver and the concrete witnesses) -/
def run (s : State) : List Ev → Option State
  | [] => some s
  | e :: es => match step s e with
    | some s' => run s' es
    | none => none

/-! ### threads of a member, crash points inside a finalizer

`ensure_running` never looks at the calling thread: it blocks INT/TERM around `spawnv_passfds` in
*whichever* thread launches (l.151-160; the new process inherits the mask of the launching thread) and it
holds `self._lock` from the probe to the assignment of `_fd/_pid` (l.98-172).  The tracked actions of the
threads of one process are therefore atomic with respect to each other, a concurrent group of
operations is *some interleaving* of atomic actions, and the thread is not an input of `step`: `TAct`
carries it only so that the histories fed by the harness (operation done by the main thread / by another
thread / by k threads at once) are histories of the model.  What is assumed here: `threading.RLock` is
a lock.  (`_send` writes outside the lock, after `ensure_running` returned; the write is atomic, see the
header.) -/

/-- an action of thread `thread` of the process named in `ev` -/
structure TAct where
  thread : Nat
  ev : Ev
  deriving Repr, Inhabited

/-- what the threads of member `p` do on their own: tracked operations, SemLock construction, finalizers,
    collection of copies, plain file creation (no spawn, no exit, nothing of another process or tracker) -/
def memberAct (p : Pid) : Ev → Bool
  | .op q _ _ => q == p
  | .mkfile q => q == p
  | .semOpen q _ => q == p
  | .semRegister q _ => q == p
  | .finUnlink q _ => q == p
  | .finUnregister q _ => q == p
  | .dropCopy q _ => q == p
  | _ => false

/-- run a history of thread actions, oldest first -/
def runT (s : State) (as : List TAct) : Option State := run s (as.map (·.ev))

/-- `p` has a tracker and it is alive: `ensure_running` is a no-op -/
def aliveFor (s : State) (p : Pid) : Prop := ∃ t, (s.procs p).trk = some t ∧ (s.trks t).alive = true

/-- the clean-up primitives of the finalizer of `o` (`SemLock._cleanup`), in program order -/
def finPrims (p : Pid) (o : Oid) : List Ev := [.finUnlink p o, .finUnregister p o]

/-- finalizers of the objects `os`, one after the other (collection of a primitive made of several SemLocks,
    or `util._exit_function` at a normal exit) -/
def finPrimsOf (p : Pid) (os : List Oid) : List Ev := os.flatMap (finPrims p)

/-- SIGKILL of `p` inside these finalizers, after `k` clean-up primitives have completed
    (`k = 0`: before the first `sem_unlink`; `k` = all of them: right after the last UNREGISTER) -/
def killFin (p : Pid) (os : List Oid) (k : Nat) : List Ev := (finPrimsOf p os).take k ++ [.exit p .crash]

/-- nothing is left to happen on its own: no tracker can boot or sweep -/
def quiescent (s : State) : Prop :=
  ∀ t, (s.trks t).boot = none ∧ step s (.eof t) = none

def allGone (s : State) : Prop := ∀ p, (s.procs p).st ≠ .live

end LokyModel.TrackerTree
