import LokyModel.ExecLiveCrash
/-!
# `killedC`: once the manager of a pool flagged broken is in its final phase, every worker ever spawned is dead

`terminate_broken` raises the shutdown flag together with the broken flag (under `shutdown_lock`), then pops, kills and
joins every registered worker (`kill_workers`) before it calls `join_executor_internals`.  In a static pool every
spawned worker is registered until the kill loop pops it (`staticC`), and a `submit` that is still spawning workers
holds `shutdown_lock` with the shutdown flag unset (`ShutInv.acc`), so nobody spawns onto a pool that is flagged.

Executable, so that `Drivers/LiveCheckCrashKill.lean` can evaluate it along random walks.
-/
namespace LokyModel.Exec

/-- every listed process is dead -/
def allDead (s : St) : Bool := s.allPids.all fun q => s.w q == .dead

/-- where the manager is once it has flagged the pool broken: releasing `shutdown_lock` in `terminate_broken`, the
    kill loop, the final phase — it never goes back to its main loop -/
def mBrkLate : MPc → Bool
  | .brkRel _ | .kill _ | .killJoin _ => true
  | pc => mFinal pc

def killedC (s : St) : Bool :=
  -- the broken flag is raised together with the shutdown flag, which is never lowered; only the manager raises it, on
  -- its way to the kill loop
  (s.broken.isNone || (s.shutdownFlag && mBrkLate s.mpc)) &&
  -- the kill loop: a process that is neither still registered nor the one being killed / joined is dead
  (match s.mpc with
   | .kill p | .killJoin p => s.allPids.all fun q => q == p || s.procDict.contains q || s.w q == .dead
   | _ => true) &&
  -- the final phase of a pool flagged broken: the kill loop has been through every process
  (!mFinal s.mpc || s.broken.isNone || allDead s)

end LokyModel.Exec
