import LokyModel.ExecLiveStaticDef
/-!
# Outcomes of futures: what the properties C04 / C05 allow, and the executable form of the invariant behind them

`expectedFut` is the set of outcomes that "a task-level failure is contained" (C04) and "a graceful shutdown drains"
(C05) allow for the future of a task of a given specification on a pool that is neither broken nor force-stopped.
`outOkB` is the executable (Bool) shadow of the inductive invariant `OutInv` of `Lemmas/ExecOutcome*.lean`: it adds to
the existing invariants (`FutInv`, `MsgInv`, `TokInv`, `NBInv`) the one thing they do not say — *which arguments* the
task of a work id has at each point of its way (past the feeder: picklable and small enough; in the feeder's error
path: not) — and that nothing ever force-stops the pool when no script asks for it.

Import-free apart from model files, so that `Drivers/LiveCheckOutcome.lean` can evaluate everything on random walks.
-/
namespace LokyModel.Exec
open StaticP

/-- no script operation is `shutdown(kill_workers=True)` -/
def Cfg.noKill (c : Cfg) : Bool := c.scripts.all (fun sc => sc.all (fun op => !op.isKill))

/-- the feeder cannot put these arguments on the pipe: `PicklingError` / `struct.error` in `_feed` -/
def ArgKind.unsendable : ArgKind → Bool
  | .unpicklable | .toolarge => true
  | _ => false

/-- **what the property allows** for the future of work id `i`, submitted for a task of specification `sp`, once it is
    resolved, on a pool that is not broken and not force-stopped:
    * cancelled (if `cancel()` succeeded — `C04_cancelled_only_by_cancel` says that it did);
    * the value, for a task whose arguments travel, whose body returns and whose result travels back;
    * the task's own exception (`_RemoteTraceback`-wrapped; the pickling error of an un-picklable result or exception is
      protocol-wise the same, see `TaskSpec`), for a task whose arguments travel and whose body raises;
    * the pickling error raised in the feeder thread, for arguments that cannot be pickled or are too large;
    never a pool error (`BrokenProcessPool`, `TerminatedWorkerError`, `ShutdownExecutorError`), never the outcome of a
    task of another kind. -/
def expectedFut (sp : TaskSpec) (_i : Wid) : Fut → Bool
  | .cancelled => true
  | .value => sp.args == .ok && sp.body == .ok && sp.res == .ok
  | .excWorker => sp.args == .ok && sp.body == .raises
  | .excFeeder => sp.args.unsendable
  | _ => false

/-! ### the executable invariant -/

def argOf (cfg : Cfg) (t : Tid) : ArgKind := (cfg.tasks.getD t {}).args
/-- the arguments of the task submitted under work id `i` -/
def argOfW (cfg : Cfg) (T : List Tid) (i : Wid) : ArgKind := argOf cfg (T.getD i 0)

/-- a call item past the feeder carries arguments that travel -/
def cArgOk (cfg : Cfg) : CMsg → Bool
  | .call _ t => argOf cfg t == .ok
  | _ => true
def wArgOk (cfg : Cfg) : WPc → Bool
  | .gRel m | .gSem m | .tSem m | .tRel m => cArgOk cfg m
  | .task _ t => argOf cfg t == .ok
  | _ => true
/-- the feeder sends what travels and is on its error path for what does not -/
def fArgOk (cfg : Cfg) (T : List Tid) : FPc → Bool
  | .acq m | .send m => cArgOk cfg m
  | .acqBig w | .sendBig w | .relBig w | .errSem w => decide (w < T.length) && (argOfW cfg T w).unsendable
  | _ => true
/-- a feeder error is on a future whose arguments do not travel; a cancelled future is one whose `cancel()` returned
    True; no future holds a pool error -/
def futArgOk (cfg : Cfg) (T : List Tid) (cancelOk : List Wid) (i : Wid) : Fut → Bool
  | .excFeeder => (argOfW cfg T i).unsendable
  | .cancelled => cancelOk.contains i
  | .excBroken | .excTerminated | .excShutdown => false
  | _ => true

def outOkB (s : St) : Bool :=
  (List.range s.futs.length).all (fun i => futArgOk s.cfg s.taskOf s.cancelOk i (futOf s i)) &&
  !s.killFlag &&
  ((List.range s.cfg.scripts.length).all fun k =>
     (s.uscript k).all (fun op => !op.isKill) && ucurOk (s.ucur k) && !isSdKill (s.upc k)) &&
  s.cqPipe.all (cArgOk s.cfg) &&
  s.allPids.all (fun p => wArgOk s.cfg (s.w p)) &&
  fArgOk s.cfg s.taskOf s.fpc &&
  s.execW.all (fun i => decide (i < s.taskOf.length) && argOfW s.cfg s.taskOf i == .ok)

/-- the statement of `C04_every_resolved_future_has_its_own_outcome`, executable -/
def ownOutcomes (s : St) : Bool :=
  (List.range s.futs.length).all fun i =>
    !(futOf s i).done || expectedFut (specOf s (s.taskOf.getD i 0)) i (futOf s i)

end LokyModel.Exec
