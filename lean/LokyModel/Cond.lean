import LokyModel.SemLock
/-!
# M5b — `Condition` and `Event` of loky/backend/synchronize.py as a transition system

`N` threads each run a script of operations on **one** `Condition` object
(`_lock`, `_sleeping_count`, `_woken_count`, `_wait_semaphore`) and the `_flag` semaphore of an
`Event` built on it.  `cfg.kind` says what `_lock` is: `recursiveMutex` for a user-level
`Condition()` (its default `RLock()`), `semaphore` for the `Condition(Lock())` inside `Event`.

One step = one `SemLock.acquire` / `SemLock.release` call (or the `begin` of the next scripted
operation), performed atomically together with the pure-Python code that follows it up to the next
such call — exactly the granularity at which engine E1 schedules the real code.

A blocking acquire is enabled (`ok`) only when it can succeed; a *timed* blocking acquire also has
a `timeout` variant, enabled only while it cannot succeed (adversarial time: the time-out may fire
at any instant at which the thread is blocked).  `acquire(False)` has the variants `ok` / `fail`.

Program counters follow synchronize.py line by line (line numbers of the pinned tree):

* `wait` (289-311): `w1` `_sleeping_count.release()`; `w2 c k` `_lock.release()` ×count;
  `w3 c` `_wait_semaphore.acquire(True, timeout)`; `w4 c r` `_woken_count.release()`;
  `w5 c k r` `_lock.acquire()` ×count, then `return r`.
* `notify` (313-328): `n1` `assert not _wait_semaphore.acquire(False)`; `n2`/`n3` the loop
  `while _woken_count.acquire(False): res = _sleeping_count.acquire(False); assert res`;
  `n4` `if _sleeping_count.acquire(False)`; `n5` `_wait_semaphore.release()`;
  `n6` `_woken_count.acquire()`; `n7` `_wait_semaphore.acquire(False)`.
* `notify_all` (330-351): `a1`–`a3` as `n1`–`n3`; `a4 s`/`a5 s` the loop
  `while _sleeping_count.acquire(False): _wait_semaphore.release(); sleepers += 1`;
  `a6 k` `_woken_count.acquire()` ×sleepers; `a7` `while _wait_semaphore.acquire(False): pass`.
* `Event` (377-409): `eAcq` `with self._cond:`; `eFlag1`/`eFlagRel1` the first
  `_flag.acquire(False)` / `_flag.release()`; `eFlag2`/`eFlagRel2` the second pair of
  `Event.wait`; `eRel r` the `__exit__` (`_lock.release()`), then return `r`.

Assumed, not modelled: the three counting semaphores never reach `SEM_VALUE_MAX = 2^31-1`
(their values are bounded by the number of threads).  Ghost fields (`wakes`, `inflight`, `clean`)
do not influence the transition relation; they only name quantities the theorems talk about.
Import-free apart from the sibling model `SemLock`.
-/
namespace LokyModel.Cond
open LokyModel.SemLock

inductive Op where
  | acq                      -- cond.acquire()
  | tryAcq                   -- cond.acquire(False)
  | rel                      -- cond.release()
  | wait (timed : Bool)      -- cond.wait(timeout)
  | notify
  | notifyAll
  | eSet
  | eClear
  | eWait (timed : Bool)
  | eIsSet
  deriving DecidableEq, Repr

def Op.isEvent : Op → Bool
  | .eSet | .eClear | .eWait _ | .eIsSet => true
  | _ => false

/-- what a scripted operation returned / raised -/
inductive Ret where
  | none
  | bool (b : Bool)
  /-- `AssertionError("must acquire() condition before using wait()")` / `("lock is not owned")` -/
  | mustAcquire
  /-- a bare internal `assert` failed (`assert not _wait_semaphore.acquire(False)`, `assert res`) -/
  | tripped
  /-- `AssertionError("attempt to release recursive lock not owned by thread")` -/
  | notOwner
  /-- `ValueError("semaphore or lock released too many times")` -/
  | tooMany
  deriving DecidableEq, Repr

inductive PC where
  | idle
  | lockAcq | lockTry | lockRel
  | w1 | w2 (c k : Nat) | w3 (c : Nat) | w4 (c : Nat) (r : Bool) | w5 (c k : Nat) (r : Bool)
  | n1 | n2 | n3 | n4 | n5 | n6 | n7
  | a1 | a2 | a3 | a4 (s : Nat) | a5 (s : Nat) | a6 (k : Nat) | a7
  | eAcq | eFlag1 | eFlagRel1 | eFlag2 | eFlagRel2 | eRel (r : Ret)
  deriving DecidableEq, Repr

inductive Variant where
  | ok | fail | timeout
  deriving DecidableEq, Repr

/-- per-thread state -/
structure TS where
  pc : PC
  /-- remaining operations; the head is the operation in progress while `pc ≠ idle` -/
  script : List Op
  /-- finished operations with what they returned, most recent first -/
  rets : List (Op × Ret)
  deriving DecidableEq, Repr

structure State where
  lock : SL
  sleeping : Nat
  woken : Nat
  waitsem : Nat
  flag : Nat
  /-- ghost: waiters that took a token of `_wait_semaphore` since the last notifier passed its
      entry assertion (`n1`/`a1`) -/
  wakes : Nat
  /-- ghost: waiters between leaving the sleep (`w3`) and `_woken_count.release()` (`w4`) -/
  inflight : Nat
  /-- ghost: set when a notifier leaves its re-zeroing loop of `_woken_count` with no waiter in
      flight; cleared by every time-out -/
  clean : Bool
  th : Nat → TS

structure Cfg where
  kind : Kind
  n : Nat
  scripts : Nat → List Op

/-- functional update of the thread map -/
def upd (f : Nat → TS) (t : Nat) (x : TS) : Nat → TS := fun u => if u = t then x else f u

def mkLockOf : Kind → SL
  | .recursiveMutex => mkRLock
  | .semaphore => mkLock

def init (cfg : Cfg) : State :=
  { lock := mkLockOf cfg.kind, sleeping := 0, woken := 0, waitsem := 0, flag := 0,
    wakes := 0, inflight := 0, clean := false,
    th := fun t => ⟨.idle, cfg.scripts t, []⟩ }

/-- the operation in progress -/
def TS.cur (x : TS) : Option Op := x.script.head?

/-- the operation in progress returns `r` -/
def TS.finish (x : TS) (r : Ret) : TS :=
  match x.script with
  | [] => { x with pc := .idle }
  | o :: rest => ⟨.idle, rest, (o, r) :: x.rets⟩

def TS.goto (x : TS) (p : PC) : TS := { x with pc := p }

/-- an exception `r` is raised inside the operation in progress: `Event` methods run under
    `with self._cond:` and release the lock on the way out -/
def TS.raise (x : TS) (r : Ret) : TS :=
  match x.cur with
  | some .eSet | some (.eWait _) => x.goto (.eRel r)
  | _ => x.finish r

/-- `Condition.wait` returns (its value is the result of `wait`, or discarded by `Event.wait`) -/
def TS.waitReturn (x : TS) (r : Bool) : TS :=
  match x.cur with
  | some (.eWait _) => x.goto .eFlag2
  | _ => x.finish (.bool r)

/-- `Condition.notify_all` returns (`None`); `Event.set` then leaves its `with` block -/
def TS.notifyAllReturn (x : TS) : TS :=
  match x.cur with
  | some .eSet => x.goto (.eRel .none)
  | _ => x.finish .none

def TS.timed (x : TS) : Bool :=
  match x.cur with
  | some (.wait b) | some (.eWait b) => b
  | _ => false

def relRet : RelResult → Ret
  | .ok => .none
  | .tooMany => .tooMany
  | .notOwner => .notOwner

/-- enter `Condition.wait` / `notify` / `notify_all`: the ownership assertion, then the first pc -/
def enter (s : State) (t : Nat) (x : TS) (first : PC) : TS :=
  if isMine s.lock t then x.goto first else x.raise .mustAcquire

/-- one step of thread `t` with variant `v`; `none` when that variant is not enabled -/
def step (cfg : Cfg) (s : State) (t : Nat) (v : Variant) : Option State :=
  if cfg.n ≤ t then none else
  let x := s.th t
  let set (s : State) (y : TS) : State := { s with th := upd s.th t y }
  match x.pc, v with
  -- begin of the next scripted operation ------------------------------------------------
  | .idle, .ok =>
    match x.script with
    | [] => none
    | .acq :: _ => some (set s (x.goto .lockAcq))
    | .tryAcq :: _ => some (set s (x.goto .lockTry))
    | .rel :: _ => some (set s (x.goto .lockRel))
    | .wait _ :: _ => some (set s (enter s t x .w1))
    | .notify :: _ => some (set s (enter s t x .n1))
    | .notifyAll :: _ => some (set s (enter s t x .a1))
    | .eSet :: _ | .eClear :: _ | .eWait _ :: _ | .eIsSet :: _ => some (set s (x.goto .eAcq))
  -- cond.acquire() / cond.acquire(False) / cond.release() ----------------------------
  | .lockAcq, .ok =>
    if canAcquire s.lock t then some (set { s with lock := acquired s.lock t } (x.finish (.bool true)))
    else none
  | .lockTry, .ok =>
    if canAcquire s.lock t then some (set { s with lock := acquired s.lock t } (x.finish (.bool true)))
    else none
  | .lockTry, .fail =>
    if canAcquire s.lock t then none else some (set s (x.finish (.bool false)))
  | .lockRel, .ok =>
    let (l, r) := release s.lock t
    some (set { s with lock := l } (x.finish (relRet r)))
  -- Condition.wait ----------------------------------------------------------------------
  | .w1, .ok =>                                   -- self._sleeping_count.release()
    let c := s.lock.count.toNat                   -- count = self._lock._semlock._count()
    some (set { s with sleeping := s.sleeping + 1 } (x.goto (if c = 0 then .w3 0 else .w2 c c)))
  | .w2 c k, .ok =>                               -- self._lock.release()
    match release s.lock t with
    | (l, .ok) => some (set { s with lock := l } (x.goto (if k ≤ 1 then .w3 c else .w2 c (k - 1))))
    | (_, r) => some (set s (x.raise (relRet r)))
  | .w3 c, .ok =>                                 -- self._wait_semaphore.acquire(True, timeout)
    if 0 < s.waitsem then
      some (set { s with waitsem := s.waitsem - 1, wakes := s.wakes + 1, inflight := s.inflight + 1 }
        (x.goto (.w4 c true)))
    else none
  | .w3 c, .timeout =>
    if x.timed && s.waitsem == 0 then
      some (set { s with inflight := s.inflight + 1, clean := false } (x.goto (.w4 c false)))
    else none
  | .w4 c r, .ok =>                               -- finally: self._woken_count.release()
    some (set { s with woken := s.woken + 1, inflight := s.inflight - 1 }
      (if c = 0 then x.waitReturn r else x.goto (.w5 c c r)))
  | .w5 c k r, .ok =>                             -- self._lock.acquire()
    if canAcquire s.lock t then
      some (set { s with lock := acquired s.lock t } (if k ≤ 1 then x.waitReturn r else x.goto (.w5 c (k - 1) r)))
    else none
  -- Condition.notify ----------------------------------------------------------------------
  | .n1, .ok =>                                   -- assert not self._wait_semaphore.acquire(False)
    if 0 < s.waitsem then some (set { s with waitsem := s.waitsem - 1 } (x.raise .tripped)) else none
  | .n1, .fail =>
    if 0 < s.waitsem then none else some (set { s with wakes := 0 } (x.goto .n2))
  | .n2, .ok =>                                   -- while self._woken_count.acquire(False):
    if 0 < s.woken then some (set { s with woken := s.woken - 1 } (x.goto .n3)) else none
  | .n2, .fail =>
    if 0 < s.woken then none else some (set { s with clean := s.inflight == 0 } (x.goto .n4))
  | .n3, .ok =>                                   --   res = self._sleeping_count.acquire(False)
    if 0 < s.sleeping then some (set { s with sleeping := s.sleeping - 1 } (x.goto .n2)) else none
  | .n3, .fail =>                                 --   assert res
    if 0 < s.sleeping then none else some (set s (x.raise .tripped))
  | .n4, .ok =>                                   -- if self._sleeping_count.acquire(False):
    if 0 < s.sleeping then some (set { s with sleeping := s.sleeping - 1 } (x.goto .n5)) else none
  | .n4, .fail =>
    if 0 < s.sleeping then none else some (set s (x.finish .none))
  | .n5, .ok =>                                   -- self._wait_semaphore.release()
    some (set { s with waitsem := s.waitsem + 1 } (x.goto .n6))
  | .n6, .ok =>                                   -- self._woken_count.acquire()
    if 0 < s.woken then some (set { s with woken := s.woken - 1 } (x.goto .n7)) else none
  | .n7, .ok =>                                   -- self._wait_semaphore.acquire(False)
    if 0 < s.waitsem then some (set { s with waitsem := s.waitsem - 1 } (x.finish .none)) else none
  | .n7, .fail =>
    if 0 < s.waitsem then none else some (set s (x.finish .none))
  -- Condition.notify_all ------------------------------------------------------------------
  | .a1, .ok =>
    if 0 < s.waitsem then some (set { s with waitsem := s.waitsem - 1 } (x.raise .tripped)) else none
  | .a1, .fail =>
    if 0 < s.waitsem then none else some (set { s with wakes := 0 } (x.goto .a2))
  | .a2, .ok =>
    if 0 < s.woken then some (set { s with woken := s.woken - 1 } (x.goto .a3)) else none
  | .a2, .fail =>
    if 0 < s.woken then none else some (set s (x.goto (.a4 0)))
  | .a3, .ok =>
    if 0 < s.sleeping then some (set { s with sleeping := s.sleeping - 1 } (x.goto .a2)) else none
  | .a3, .fail =>
    if 0 < s.sleeping then none else some (set s (x.raise .tripped))
  | .a4 k, .ok =>                                 -- while self._sleeping_count.acquire(False):
    if 0 < s.sleeping then some (set { s with sleeping := s.sleeping - 1 } (x.goto (.a5 k))) else none
  | .a4 k, .fail =>                               -- if sleepers:
    if 0 < s.sleeping then none
    else some (set s (if k = 0 then x.notifyAllReturn else x.goto (.a6 k)))
  | .a5 k, .ok =>                                 --   self._wait_semaphore.release(); sleepers += 1
    some (set { s with waitsem := s.waitsem + 1 } (x.goto (.a4 (k + 1))))
  | .a6 k, .ok =>                                 -- for _ in range(sleepers): self._woken_count.acquire()
    if 0 < s.woken then some (set { s with woken := s.woken - 1 } (x.goto (if k ≤ 1 then .a7 else .a6 (k - 1))))
    else none
  | .a7, .ok =>                                   -- while self._wait_semaphore.acquire(False): pass
    if 0 < s.waitsem then some (set { s with waitsem := s.waitsem - 1 } (x.goto .a7)) else none
  | .a7, .fail =>
    if 0 < s.waitsem then none else some (set s x.notifyAllReturn)
  -- Event -----------------------------------------------------------------------------------
  | .eAcq, .ok =>                                 -- with self._cond:
    if canAcquire s.lock t then some (set { s with lock := acquired s.lock t } (x.goto .eFlag1)) else none
  | .eFlag1, .ok =>                               -- self._flag.acquire(False)  (succeeds)
    if 0 < s.flag then
      some (set { s with flag := s.flag - 1 }
        (match x.cur with
         | some .eClear => x.goto (.eRel .none)
         | _ => x.goto .eFlagRel1))
    else none
  | .eFlag1, .fail =>                             -- self._flag.acquire(False)  (fails)
    if 0 < s.flag then none else
      some (set s
        (match x.cur with
         | some .eSet => x.goto .eFlagRel1
         | some (.eWait _) => enter s t x .w1           -- self._cond.wait(timeout)
         | some .eIsSet => x.goto (.eRel (.bool false))
         | _ => x.goto (.eRel .none)))
  | .eFlagRel1, .ok =>                            -- self._flag.release()
    let s' := { s with flag := s.flag + 1 }
    some (set s'
      (match x.cur with
       | some .eSet => enter s' t x .a1                 -- self._cond.notify_all()
       | some (.eWait _) => x.goto .eFlag2
       | _ => x.goto (.eRel (.bool true))))
  | .eFlag2, .ok =>
    if 0 < s.flag then some (set { s with flag := s.flag - 1 } (x.goto .eFlagRel2)) else none
  | .eFlag2, .fail =>
    if 0 < s.flag then none else some (set s (x.goto (.eRel (.bool false))))
  | .eFlagRel2, .ok =>
    some (set { s with flag := s.flag + 1 } (x.goto (.eRel (.bool true))))
  | .eRel r, .ok =>                               -- __exit__: self._lock.release()
    match release s.lock t with
    | (l, .ok) => some (set { s with lock := l } (x.finish r))
    | (_, e) => some (set s (x.finish (relRet e)))
  | _, _ => none

/-- reachable states of a configuration -/
inductive Reachable (cfg : Cfg) : State → Prop where
  | init : Reachable cfg (init cfg)
  | step {s s' : State} {t : Nat} {v : Variant} :
      Reachable cfg s → step cfg s t v = some s' → Reachable cfg s'

/-- run a schedule; `none` if some choice is not enabled -/
def runSched (cfg : Cfg) (s : State) : List (Nat × Variant) → Option State
  | [] => some s
  | (t, v) :: rest =>
    match step cfg s t v with
    | some s' => runSched cfg s' rest
    | none => none

/-- lock-mode configurations (the `Condition(Lock())` of an `Event`) run `Event` methods only -/
def Cfg.wf (cfg : Cfg) : Prop :=
  cfg.kind = .semaphore → ∀ t, ∀ o ∈ cfg.scripts t, o.isEvent = true

end LokyModel.Cond
