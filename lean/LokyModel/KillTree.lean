/-!
# M10 — `loky.backend.utils`: killing a process tree, naming exit codes

Hand transcription of `kill_process_tree`, `_kill_process_tree_with_psutil`,
`_kill_process_tree_without_psutil`, `_posix_recursive_kill`, `_kill`,
`get_exitcodes_terminated_worker`, `_format_exitcodes`, `_get_exitcode_name` (POSIX branches).

The process table is a *snapshot*: `Kids` is the parent → children relation as `pgrep -P` /
psutil's ppid map report it, and it does not change during the call (no concurrent forks — the
members are being SIGKILLed, the only one that could fork is a member that is still alive;
that race is outside the model and named as an assumption).  A process is `running`, a
`zombie` (dead, not yet reaped: `kill` succeeds silently) or gone (`kill` gives ESRCH /
`psutil.NoSuchProcess`, which the code swallows).

Import-free on purpose (compiled into `Drivers/KillTreeDriver.lean`).
-/
namespace LokyModel.KillTree

/-! ## the process table -/

/-- `pid ↦ children` -/
abbrev Kids := List (Nat × List Nat)

def kidsOf (k : Kids) (p : Nat) : List Nat := (k.lookup p).getD []

structure Sys where
  running : List Nat
  zombie  : List Nat
deriving Repr, DecidableEq

def Sys.has (s : Sys) (p : Nat) : Bool := s.running.contains p || s.zombie.contains p

/-- `os.kill(p, SIGKILL)` / `psutil.Process.kill()`: new state and "no ESRCH/NoSuchProcess" -/
def Sys.kill (s : Sys) (p : Nat) : Sys × Bool :=
  if s.running.contains p then (⟨s.running.filter (· != p), p :: s.zombie⟩, true)
  else (s, s.zombie.contains p)

/-- `process.join()` on our own (dead) child: the zombie is reaped -/
def Sys.reap (s : Sys) (p : Nat) : Sys := { s with zombie := s.zombie.filter (· != p) }

/-- kill the pids in the given order; attempts are logged as `(pid, delivered)`; an attempt
    on a process that is gone is not an error (`ESRCH` / `NoSuchProcess` are swallowed) -/
def killAll (s : Sys) : List Nat → List (Nat × Bool) × Sys
  | [] => ([], s)
  | p :: ps =>
    let r := s.kill p
    let rest := killAll r.1 ps
    ((p, r.2) :: rest.1, rest.2)

/-! ## the two traversals -/

/-- `_posix_recursive_kill(pid)`: the order of `_kill` calls.  `for cpid in pgrep -P pid:
    recurse(cpid)` then `_kill(pid)`: post-order, depth first.  `fuel` makes the function total;
    the real recursion is unbounded and terminates because the kernel's forest is finite and
    acyclic (theorems assume `fuel` exceeds the height; the driver passes the number of pids + 1). -/
def posixOrder (k : Kids) : Nat → Nat → List Nat
  | 0, _ => []
  | fuel + 1, p => (kidsOf k p).flatMap (fun c => posixOrder k fuel c) ++ [p]

/-- `_kill_process_tree_with_psutil`: `descendants[::-1]` then the root; `listing` is what
    `psutil.Process(pid).children(recursive=True)` returned (a parameter: psutil is trusted to
    list every descendant, each after its parent) -/
def psutilOrder (listing : List Nat) (root : Nat) : List Nat := listing.reverse ++ [root]

inductive Ending
  | returned (joined : Bool)    -- normal return; was `process.join()` called?
  | attributeError              -- fallback `process.kill()` on a loky POSIX `Popen` (it has no `kill`)
deriving Repr, DecidableEq

structure Outcome where
  attempts : List (Nat × Bool)
  sys      : Sys
  ending   : Ending
  warned   : Bool               -- "Failed to kill subprocesses on this platform…"
deriving Repr, DecidableEq

/-- `_kill_process_tree_with_psutil(process)` -/
def killPsutil (root : Nat) (listing : List Nat) (s : Sys) : Outcome :=
  if s.has root then
    let r := killAll s (psutilOrder listing root)
    ⟨r.1, r.2.reap root, .returned true, false⟩
  else
    -- `psutil.Process(process.pid)` raises `NoSuchProcess`: plain `return`, without `join()`
    ⟨[], s, .returned false, false⟩

/-- `_kill_process_tree_without_psutil(process)` on POSIX.  `pgrepOk = false`: the first
    `subprocess.check_output(["pgrep", …])` raises something else than exit status 1 (typically
    `FileNotFoundError`: no procps): warning, then `process.kill()`, then `join()`.
    `hasKill`: does `process._popen` have a `kill` method (multiprocessing's do, loky's POSIX
    `Popen` does not — then `process.kill()` raises `AttributeError` and nothing is killed). -/
def killPosix (k : Kids) (fuel root : Nat) (pgrepOk hasKill : Bool) (s : Sys) : Outcome :=
  if pgrepOk then
    let r := killAll s (posixOrder k fuel root)
    ⟨r.1, r.2.reap root, .returned true, false⟩
  else if hasKill then
    let r := killAll s [root]
    ⟨r.1, r.2.reap root, .returned true, true⟩
  else ⟨[], s, .attributeError, true⟩

/-- `kill_process_tree(process, use_psutil=True)`: `if use_psutil and psutil is not None` -/
def killProcessTree (usePsutil havePsutil : Bool) (k : Kids) (fuel root : Nat) (listing : List Nat)
    (pgrepOk hasKill : Bool) (s : Sys) : Outcome :=
  if usePsutil && havePsutil then killPsutil root listing s
  else killPosix k fuel root pgrepOk hasKill s

/-! ## exit codes -/

/-- `signal.Signals(n).name` on Linux (x86-64, CPython 3.12): `none` = `ValueError` -/
def sigName (n : Nat) : Option String :=
  match n with
  | 1 => some "SIGHUP" | 2 => some "SIGINT" | 3 => some "SIGQUIT" | 4 => some "SIGILL"
  | 5 => some "SIGTRAP" | 6 => some "SIGABRT" | 7 => some "SIGBUS" | 8 => some "SIGFPE"
  | 9 => some "SIGKILL" | 10 => some "SIGUSR1" | 11 => some "SIGSEGV" | 12 => some "SIGUSR2"
  | 13 => some "SIGPIPE" | 14 => some "SIGALRM" | 15 => some "SIGTERM" | 16 => some "SIGSTKFLT"
  | 17 => some "SIGCHLD" | 18 => some "SIGCONT" | 19 => some "SIGSTOP" | 20 => some "SIGTSTP"
  | 21 => some "SIGTTIN" | 22 => some "SIGTTOU" | 23 => some "SIGURG" | 24 => some "SIGXCPU"
  | 25 => some "SIGXFSZ" | 26 => some "SIGVTALRM" | 27 => some "SIGPROF" | 28 => some "SIGWINCH"
  | 29 => some "SIGIO" | 30 => some "SIGPWR" | 31 => some "SIGSYS"
  | 34 => some "SIGRTMIN" | 64 => some "SIGRTMAX"
  | _ => none

/-- `_get_exitcode_name` (non-Windows) -/
def exitcodeName (e : Int) : String :=
  if e < 0 then (sigName (-e).toNat).getD "UNKNOWN"
  else if e ≠ 255 then "EXIT"
  else "UNKNOWN"

/-- one entry `NAME(code)` -/
def entry (e : Int) : String := exitcodeName e ++ "(" ++ toString e ++ ")"

/-- the entries `_format_exitcodes` lists: one per exit code that is not `None`, in order -/
def entries (cs : List (Option Int)) : List String := (cs.filterMap id).map entry

/-- `_format_exitcodes(exitcodes)` -/
def formatExitcodes (cs : List (Option Int)) : String :=
  "{" ++ ", ".intercalate (entries cs) ++ "}"

/-- `[p.exitcode for p in processes.values() if p.exitcode is not None]` when `clock` sleeps
    have happened; `snaps[i]` = the exit codes visible after `i` sleeps (last one persists) -/
def snapshotAt (snaps : List (List (Option Int))) (clock : Nat) : List Int :=
  ((snaps[clock]?).getD (snaps.getLastD [])).filterMap id

/-- the `while not exitcodes and patience > 0` loop: re-read *then* sleep -/
def patienceLoop (snaps : List (List (Option Int))) : Nat → Nat → List Int → List Int × Nat
  | 0, clock, cur => (cur, clock)
  | p + 1, clock, cur =>
    if cur.isEmpty then patienceLoop snaps p (clock + 1) (snapshotAt snaps clock)
    else (cur, clock)

/-- `get_exitcodes_terminated_worker(processes)`: the string and the number of `time.sleep(0.05)` -/
def getExitcodesTerminatedWorker (snaps : List (List (Option Int))) : String × Nat :=
  let r := patienceLoop snaps 5 0 (snapshotAt snaps 0)
  (formatExitcodes (r.1.map some), r.2)

end LokyModel.KillTree
