import LokyModel.ExecLive
/-!
# Strengthening of `staticOk` that is inductive (executable part)

`staticOk` (in `ExecLive.lean`) is true in every reachable state of a static pool but is not inductive by itself.
`staticX` adds what the induction needs; `staticOk' = staticOk && staticX`.  Import-free apart from the model so
that `Drivers/LiveCheckstaticOk.lean` can evaluate it on random walks.  The proof is in
`Lemmas/ExecLiveStatic.lean`.
-/
namespace LokyModel.Exec
namespace StaticP  -- helper predicates; kept in their own namespace so that they cannot clash with other files

def isClose : CMsg → Bool
  | .close => true
  | _ => false
/-- the submitting thread has appended its future and has not yet got past the start of the manager thread -/
def subEarly : UPc → Bool
  | .subAcqMgmt | .subExit | .subPStart | .subTStart => true
  | _ => false
/-- the manager is past `call_queue.close()` -/
def mLate : MPc → Bool
  | .jShutAcq | .jShutRel | .jAcq2 | .jJoin _ | .jRel2 | .done => true
  | _ => false
/-- the worker is about to send a result that fails to un-pickle in the parent -/
def wBadRes : WPc → Bool
  | .rAcq _ _ true | .rSend _ _ true => true
  | _ => false
/-- result-queue messages that break the pool -/
def rBad : RMsg → Bool
  | .rtb | .res _ _ true => true
  | _ => false
def fStop : FPc → Bool
  | .acq .stop | .send .stop => true
  | _ => false
def fClose : FPc → Bool
  | .acq .close | .send .close => true
  | _ => false
/-- program counters of `_python_exit` / of the join in `shutdown(wait=True)`: the manager thread exists -/
def peLike : UPc → Bool
  | .sdAcqG | .sdJoin | .peAcqG | .peJoin | .peAcq | .peWake | .peRel => true
  | _ => false
def isSdKill : UPc → Bool
  | .sdAcq1 _ true => true
  | _ => false
/-- the process list that the manager's `wait` was given -/
def snapOf : MPc → List Pid
  | .wait snap => snap
  | _ => []
def isClrRecv : MPc → Bool
  | .clrRecv _ => true
  | _ => false
def mEmptyL : MPc → Bool
  | .jRelExit [] _ | .jAlive [] _ _ _ _ => true
  | _ => false
/-- the submitting thread is about to start a worker process -/
def spawning : UPc → Bool
  | .subExit | .subPStart => true
  | _ => false
def ucurOk : Option UOp → Bool
  | some op => !op.isKill
  | none => true

end StaticP
open StaticP

def staticX (s : St) : Bool :=
  -- X1 the process list the manager waits on contains spawned processes only
  (snapOf s.mpc).all (fun p => s.allPids.contains p) &&
  -- X2 no result that fails to un-pickle in the parent, no `_RemoteTraceback`
  s.allPids.all (fun p => !wBadRes (s.w p)) && !s.rqPipe.any rBad &&
  -- X4 the close sentinel of the call queue never gets past the feeder thread
  !s.cqPipe.any isClose && !fClose s.fpc &&
  -- X5 it is the last thing put into the buffer, and put only by `join_executor_internals`
  !s.cqBuf.dropLast.any isClose && (mLate s.mpc || (!s.cqBuf.any isClose && s.fpc != .done)) &&
  -- X6 a registered manager thread exists
  (!s.threadReg || s.mpc != .none) &&
  -- X7 no script operation (remaining, current, in progress) is `shutdown(kill_workers=True)`
  ((List.range s.cfg.scripts.length).all fun k =>
     (s.uscript k).all (fun op => !op.isKill) && ucurOk (s.ucur k) &&
     !isSdKill (s.upc k)) &&
  -- X8 (stronger form of the conjunct of `staticOk` on `mpc = none`) futures exist before the manager thread does
  --    only while the thread that submitted the first one is on its way to start it
  (s.mpc != .none || (s.futs.isEmpty || (List.range s.cfg.scripts.length).any (fun k => subEarly (s.upc k)))) &&
  -- X10 a thread about to start the manager thread has found that there is none (and holds the management lock)
  ((List.range s.cfg.scripts.length).all fun k => s.upc k != .subTStart || s.mpc == .none) &&
  -- X9 before the final phase the pool is built under the management lock: at most `max_workers` processes, a thread
  --    inside the section owns the lock, it spawns only while the pool is incomplete and starts the manager thread
  --    only when it is complete
  (mFinal s.mpc ||
    (decide (s.procDict.length ≤ s.cfg.maxWorkers) &&
     (List.range s.cfg.scripts.length).all fun k =>
       (!inMgmtU' (s.upc k) || s.oMgmt == some (.U k)) &&
       (!spawning (s.upc k) || decide (s.procDict.length < s.cfg.maxWorkers)) &&
       (s.upc k != .subTStart || s.procDict.length == s.cfg.maxWorkers)))

def staticOk' (s : St) : Bool := staticOk s && staticX s

/-- no listed worker carries the leak mark: the executable shadow of `LeakFree` (`Lemmas/ExecLiveStatic.lean`), which says
    so of every process id -/
def leakyOk (s : St) : Bool := s.allPids.all (fun p => !s.leaky p)

end LokyModel.Exec
