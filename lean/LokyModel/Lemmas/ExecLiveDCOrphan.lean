import LokyModel.Lemmas.ExecLiveDCOrphanFrame
import LokyModel.Lemmas.ExecLiveCrashDead
import LokyModel.ExecLiveDCDef
/-!
# D5 is for ever: a management lock whose recorded owner is a dead worker is never released

`mgmtOrphan s`: the ghost owner of the process-management lock is a worker that is dead.  Every configuration, every
actor, every variant (crash steps and the manager's SIGKILL included):

* `ownerW_reachable` — a worker recorded as owner has been spawned;
* `mgmtOrphan_step` — an orphaned lock stays orphaned (the lock value is `0`, so nobody acquires it; only the recorded
  owner is inside the section (`MgmtInv`), and it is dead, so nobody releases it; a death is never undone);
* `mgmtOrphan_of_killsERel` — the manager's SIGKILL of a worker inside the management-lock window orphans the lock;
* `mgmtOrphan_false_of_step` — contrapositive forms for the induction along a run that ends without an orphan.
-/
namespace LokyModel.Exec

/-- the recorded owner of the management lock, if a worker, has been spawned -/
def OwnerW (s : St) : Prop := ∀ p, s.oMgmt = some (.W p) → p ∈ s.allPids

theorem ownerW_init (cfg : Cfg) : OwnerW (init cfg) := by
  intro p h; simp [init] at h

theorem mem_allPids_of_stepW {s s' : St} {p : Pid} {v : Variant} (hs : step s (.W p) v = some s') :
    p ∈ s.allPids := by
  unfold step at hs
  simp only [] at hs
  split at hs
  · assumption
  · cases hs

theorem ownerW_step {s s' : St} {a : Actor} {v : Variant} (hp : PidsInv s) (hs : step s a v = some s')
    (h : OwnerW s) : OwnerW s' := by
  obtain ⟨hmono, _⟩ := dm_step hp hs
  intro p ho
  rcases ofr_step hs with e | ⟨_, e⟩ | ⟨_, e⟩
  · rw [e] at ho; exact hmono p (h p ho)
  · rw [e] at ho
    cases ho
    exact hmono p (mem_allPids_of_stepW hs)
  · rw [e] at ho; cases ho

/-- the recorded owner of the management lock, if a worker, has been spawned -/
theorem ownerW_reachable {cfg : Cfg} {s : St} (h : Reachable cfg s) : ∀ p, s.oMgmt = some (.W p) → p ∈ s.allPids := by
  induction h with
  | init => exact ownerW_init cfg
  | step hr hs ih => exact ownerW_step (pidsInv_reachable hr) hs ih

theorem mgmtOrphan_iff (s : St) : mgmtOrphan s = true ↔ ∃ p, s.oMgmt = some (.W p) ∧ s.w p = .dead := by
  unfold mgmtOrphan
  split
  · rename_i p hp
    constructor
    · intro h; exact ⟨p, hp, by simpa using h⟩
    · rintro ⟨q, hq, hd⟩
      rw [hp] at hq; cases hq
      simpa using hd
  · rename_i hn
    constructor
    · intro h; cases h
    · rintro ⟨q, hq, _⟩
      exact absurd hq (hn q)

theorem killsERel_iff (s : St) : killsERel s = true ↔ ∃ p, s.mpc = .kill p ∧ s.w p = .eRel := by
  unfold killsERel
  split
  · rename_i p hp
    constructor
    · intro h; exact ⟨p, hp, by simpa using h⟩
    · rintro ⟨q, hq, hd⟩
      rw [hp] at hq; cases hq
      simpa using hd
  · rename_i hn
    constructor
    · intro h; cases h
    · rintro ⟨q, hq, _⟩
      exact absurd hq (hn q)

/-- D5 is for ever: once the owner of the management lock is a dead worker it stays so -/
theorem mgmtOrphan_step {cfg : Cfg} {s s' : St} {a : Actor} {v : Variant} (hr : Reachable cfg s)
    (hs : step s a v = some s') (h : mgmtOrphan s = true) : mgmtOrphan s' = true := by
  obtain ⟨p, ho, hd⟩ := (mgmtOrphan_iff s).1 h
  have hm := mgmtInv_reachable hr
  have hpi := pidsInv_reachable hr
  have hin : p ∈ s.allPids := ownerW_reachable hr p ho
  obtain ⟨_, hdead⟩ := dm_step hpi hs
  have hv : s.mgmt = 0 := by rw [hm.val, ho]; rfl
  refine (mgmtOrphan_iff s').2 ⟨p, ?_, hdead p hin hd⟩
  rcases ofr_step hs with e | ⟨hpos, _⟩ | ⟨hsec, _⟩
  · rw [e]; exact ho
  · omega
  · exfalso
    cases a with
    | U k => have := hm.u k hsec; rw [ho] at this; cases this
    | M => have := hm.m hsec; rw [ho] at this; cases this
    | F => cases hsec
    | W q =>
      have hsec' : inMgmtW (s.w q) = true := hsec
      have := hm.w q hsec'
      rw [ho] at this; cases this
      rw [hd] at hsec'; cases hsec'

/-- the manager's SIGKILL of a worker inside the management-lock window orphans the lock -/
theorem mgmtOrphan_of_killsERel {cfg : Cfg} {s s' : St} {v : Variant} (hr : Reachable cfg s)
    (hs : step s .M v = some s') (h : killsERel s = true) : mgmtOrphan s' = true := by
  obtain ⟨p, hpc, hw⟩ := (killsERel_iff s).1 h
  have ho : s.oMgmt = some (.W p) := (mgmtInv_reachable hr).w p (by rw [hw]; rfl)
  have e : s' = die { s with mpc := .killJoin p } p (-9) := by
    unfold step at hs
    simp only [] at hs
    unfold stepM at hs
    rw [hpc] at hs
    cases v <;> simp [alive, hw] at hs
    exact hs.symm
  subst e
  exact (mgmtOrphan_iff _).2 ⟨p, by simpa using ho, by simp [die, upd]⟩

/-- hence, contrapositive forms used by the induction along a run that ends without an orphan -/
theorem mgmtOrphan_false_of_step {cfg : Cfg} {s s' : St} {a : Actor} {v : Variant} (hr : Reachable cfg s)
    (hs : step s a v = some s') (h : mgmtOrphan s' = false) :
    mgmtOrphan s = false ∧ (a = .M → killsERel s = false) := by
  refine ⟨?_, ?_⟩
  · cases h0 : mgmtOrphan s with
    | false => rfl
    | true => rw [mgmtOrphan_step hr hs h0] at h; cases h
  · intro ha; subst ha
    cases h0 : killsERel s with
    | false => rfl
    | true => rw [mgmtOrphan_of_killsERel hr hs h0] at h; cases h

end LokyModel.Exec
