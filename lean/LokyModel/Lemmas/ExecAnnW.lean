import LokyModel.Lemmas.ExecAnn
namespace LokyModel.Exec

theorem announced_wGetPc (s : St) : announced (wGetPc s) = false := by unfold wGetPc; split <;> rfl
theorem announced_wDispatchPc (s : St) (m : CMsg) : announced (wDispatchPc s m) = false := by
  unfold wDispatchPc; (repeat' split) <;> rfl

macro "annw_rq" : tactic => `(tactic| (
  intro r hr
  first
  | (left; simpa using hr; done)
  | (simp at hr
     rcases hr with hr | hr
     · left; exact hr
     · subst hr; first | (right; left; exact ⟨rfl, rfl⟩) | (right; right; rfl)))) 

set_option maxHeartbeats 4000000 in
theorem annInv_stepW (s s' : St) (p : Pid) (v : Variant) (h : AnnInv s) (hp : p ∈ s.allPids)
    (hs : stepW s p v = some s') : AnnInv s' := by
  unfold stepW at hs
  crack_step
  all_goals (first
    | (refine ann_wmove s _ h p hp _ rfl ?_ ?_ ?_
       · simp
       · first | (intro _; rfl) | (intro ha; simp_all [announced])
       · annw_rq)
    | (refine ann_wmove s _ h p hp _ (wGet_w' _ _) ?_ ?_ ?_
       · simp
       · intro ha; simp_all [announced]
       · annw_rq)
    | (refine ann_wmove s _ h p hp _ (wDispatch_w' _ _ _) ?_ ?_ ?_
       · simp
       · intro ha; simp_all [announced]
       · annw_rq)
    | (refine ann_wmove s _ h p hp _ (wAfterStart_w' _ _) ?_ ?_ ?_
       · simp
       · intro ha; simp_all [announced]
       · annw_rq)
    | (obtain ⟨pc, hw, hpc⟩ := wAfterResult_w' { s with rqWlock := s.rqWlock + 1, oRqWlock := none } p
       refine ann_wmove s _ h p hp pc hw ?_ ?_ ?_
       · simp
       · intro ha; simp_all [announced]
       · annw_rq)
    | skip)

end LokyModel.Exec
