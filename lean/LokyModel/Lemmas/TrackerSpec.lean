import LokyModel.Lemmas.Tracker
import LokyModel.TrackerSpec
/-! helper lemmas for `Props/C11.lean` that mention the specification `bal` -/
namespace LokyModel.Tracker

theorem balStep_handle (env : Env) (reg : Registry) (h : Inv reg) (k : Kind) (n : Name) (p : Parsed) :
    cnt (handle env reg p).1 k n = balStep k n (cnt reg k n) p := by
  cases p with
  | probe => rfl
  | bad e => rfl
  | req c k' n' =>
    by_cases e : k' = k ∧ n' = n
    · obtain ⟨rfl, rfl⟩ := e
      cases c
      · simp [balStep, cnt_register]
      · simp [balStep, cnt_unregister]
      · simp [balStep, cnt_maybeUnlink env reg h]
    · have e' : ¬ (k = k' ∧ n = n') := fun ⟨a, b⟩ => e ⟨a.symm, b.symm⟩
      simp only [balStep, e, if_false]
      exact cnt_other env reg c k' k n' n e'

theorem cnt_runReg (env : Env) (k : Kind) (n : Name) : ∀ (lines : List Bytes) (reg : Registry), Inv reg →
    cnt (runReg env reg lines) k n = (history lines).foldl (balStep k n) (cnt reg k n)
  | [], _, _ => rfl
  | l :: ls, reg, h => by
    have hi : Inv (handleLine env reg l).1 := inv_handle env reg _ h
    rw [runReg_cons, cnt_runReg env k n ls _ hi]
    simp only [history, List.map_cons, List.foldl_cons, handleLine]
    rw [balStep_handle env reg h]

/-- core of `tracker_refines_spec` -/
theorem refines_core (env : Env) (pre : List Bytes) :
    Inv (runReg env .init pre) ∧
    (∀ k n, cnt (runReg env .init pre) k n = bal k n (history pre)) ∧
    (∀ l, (handleLine env (runReg env .init pre) l).2 = specEvents env (history pre) (parseLine l)) := by
  have hinv := inv_runReg env pre _ inv_init
  have hcnt : ∀ k n, cnt (runReg env .init pre) k n = bal k n (history pre) := by
    intro k n
    rw [cnt_runReg env k n pre _ inv_init]
    rfl
  refine ⟨hinv, hcnt, fun l => ?_⟩
  unfold handleLine
  cases hp : parseLine l with
  | probe => rfl
  | bad e => rfl
  | req c k n =>
    rw [events_req env _ hinv, hcnt]
    cases c <;> rfl

theorem bal_snoc (k : Kind) (n : Name) (pre : List Bytes) (l : Bytes) :
    bal k n (history (pre ++ [l])) = balStep k n (bal k n (history pre)) (parseLine l) := by
  simp [bal, history, List.foldl_append]

theorem bal_nonneg (k : Kind) (n : Name) (pre : List Bytes) : 0 ≤ bal k n (history pre) := by
  obtain ⟨hinv, hcnt, _⟩ := refines_core (fun _ _ => .ok) pre
  rw [← hcnt]; exact cnt_nonneg _ hinv k n

theorem count_events (env : Env) (pre : List Bytes) (l : Bytes) (k : Kind) (n : Name) :
    (handleLine env (runReg env .init pre) l).2.count (.clean k n) =
      if parseLine l = .req .maybeUnlink k n ∧ bal k n (history pre) = 1 then 1 else 0 := by
  rw [(refines_core env pre).2.2 l]
  cases hp : parseLine l with
  | probe => simp [specEvents]
  | bad e => simp [specEvents]
  | req c k' n' =>
    cases c
    · simp [specEvents]
    · simp only [specEvents]; split <;> simp
    · simp only [specEvents]
      by_cases e : k' = k ∧ n' = n
      · obtain ⟨rfl, rfl⟩ := e
        by_cases h1 : bal k' n' (history pre) = 1
        · simp [h1, count_cleanupInLoop]
        · simp only [h1, if_false, and_false]
          split <;> simp
      · have e2 : ¬ (Parsed.req Cmd.maybeUnlink k' n' = Parsed.req Cmd.maybeUnlink k n) := by
          intro h; cases h; exact e ⟨rfl, rfl⟩
        simp only [e2, false_and, if_false]
        split
        · simp [count_cleanupInLoop, e]
        · split <;> simp

theorem bal_zero_of_no_register (k : Kind) (n : Name) :
    ∀ p2 : List Bytes, (∀ x ∈ p2, parseLine x ≠ .req .register k n) →
      (history p2).foldl (balStep k n) 0 = 0
  | [], _ => rfl
  | x :: p2, h => by
    have hx := h x (by simp)
    have ih := bal_zero_of_no_register k n p2 (fun y hy => h y (List.mem_cons_of_mem _ hy))
    simp only [history, List.map_cons, List.foldl_cons]
    have : balStep k n 0 (parseLine x) = 0 := by
      cases hp : parseLine x with
      | probe => rfl
      | bad e => rfl
      | req c k' n' =>
        by_cases e : k' = k ∧ n' = n
        · obtain ⟨rfl, rfl⟩ := e
          cases c
          · exact absurd hp hx
          · simp [balStep]
          · simp [balStep]
        · simp [balStep, e]
    rw [this]; exact ih

theorem balStep_pos_of_not_register (k : Kind) (n : Name) (b : Int) (p : Parsed)
    (hp : p ≠ .req .register k n) (h : 0 < balStep k n b p) : 0 < b := by
  cases p with
  | probe => exact h
  | bad e => exact h
  | req c k' n' =>
    by_cases e : k' = k ∧ n' = n
    · obtain ⟨rfl, rfl⟩ := e
      cases c
      · exact absurd rfl hp
      · simp [balStep] at h
      · simp only [balStep, and_self, if_true] at h
        split at h <;> omega
    · simpa [balStep, e] using h

theorem cleanCount_cons (k : Kind) (n : Name) (e : List Event) (outs : List (List Event)) :
    cleanCount k n (e :: outs) = e.count (.clean k n) + cleanCount k n outs := by
  simp [cleanCount, List.count_append]

theorem outputs_cons_pre (env : Env) (pre : List Bytes) (l : Bytes) (ls : List Bytes) :
    outputs env (runReg env .init pre) (l :: ls) =
      (handleLine env (runReg env .init pre) l).2 :: outputs env (runReg env .init (pre ++ [l])) ls := by
  rw [runReg_append]; rfl

theorem at_most_once_aux (env : Env) (k : Kind) (n : Name) :
    ∀ (seg pre : List Bytes), (∀ x ∈ seg, parseLine x ≠ .req .register k n) →
      cleanCount k n (outputs env (runReg env .init pre) seg) ≤ if 0 < bal k n (history pre) then 1 else 0
  | [], _, _ => by simp [outputs, cleanCount]
  | l :: ls, pre, h => by
    have hl := h l (by simp)
    have ih := at_most_once_aux env k n ls (pre ++ [l]) (fun y hy => h y (List.mem_cons_of_mem _ hy))
    rw [outputs_cons_pre, cleanCount_cons, count_events]
    by_cases hc : parseLine l = .req .maybeUnlink k n ∧ bal k n (history pre) = 1
    · rw [if_pos hc]
      have : bal k n (history (pre ++ [l])) = 0 := by
        rw [bal_snoc, hc.1, hc.2]; simp [balStep]
      rw [this] at ih
      simp only [Int.lt_irrefl, if_false] at ih
      rw [hc.2]; simp; omega
    · rw [if_neg hc]
      by_cases hb : 0 < bal k n (history (pre ++ [l]))
      · rw [bal_snoc] at hb
        have := balStep_pos_of_not_register k n _ _ hl hb
        rw [if_pos this]
        split at ih <;> omega
      · rw [if_neg hb] at ih
        split <;> omega

theorem exactly_once_aux (env : Env) (k : Kind) (n : Name) :
    ∀ (seg pre : List Bytes),
      (∀ x ∈ seg, parseLine x ≠ .req .register k n ∧ parseLine x ≠ .req .unregister k n) →
      cleanCount k n (outputs env (runReg env .init pre) seg)
        + (if 0 < bal k n (history (pre ++ seg)) then 1 else 0)
        = if 0 < bal k n (history pre) then 1 else 0
  | [], pre, _ => by simp [outputs, cleanCount]
  | l :: ls, pre, h => by
    have hl := h l (by simp)
    have ih := exactly_once_aux env k n ls (pre ++ [l]) (fun y hy => h y (List.mem_cons_of_mem _ hy))
    have e : pre ++ l :: ls = (pre ++ [l]) ++ ls := by simp
    rw [outputs_cons_pre, cleanCount_cons, count_events, e, Nat.add_assoc, ih, bal_snoc]
    have hnn := bal_nonneg k n pre
    cases hp : parseLine l with
    | probe => by_cases hb : 0 < bal k n (history pre) <;> simp [balStep, hb]
    | bad e => by_cases hb : 0 < bal k n (history pre) <;> simp [balStep, hb]
    | req c k' n' =>
      by_cases e : k' = k ∧ n' = n
      · obtain ⟨rfl, rfl⟩ := e
        cases c
        · exact absurd hp hl.1
        · exact absurd hp hl.2
        · simp only [balStep, and_self, if_true, true_and]
          by_cases h1 : bal k' n' (history pre) = 1
          · simp [h1]
          · by_cases h0 : 0 < bal k' n' (history pre)
            · have h2 : 1 < bal k' n' (history pre) := by omega
              simp [h1, h0, h2]
            · simp [h1, h0]
      · have e2 : ¬ (Parsed.req c k' n' = Parsed.req Cmd.maybeUnlink k n) := by
          intro h; cases h; exact e ⟨rfl, rfl⟩
        by_cases hb : 0 < bal k n (history pre) <;> simp [balStep, e, e2, hb]

theorem isAscii_mid {h mid last : Bytes} (ha : isAscii (h ++ colon :: (mid ++ colon :: last)) = true) :
    isAscii mid = true := by
  simp only [isAscii_append, isAscii_cons, Bool.and_eq_true] at ha
  exact ha.2.2.1

end LokyModel.Tracker
