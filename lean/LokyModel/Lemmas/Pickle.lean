import LokyModel.Pickle
/-! Helper lemmas for `Props/C15Pickle.lean`: heap-cell frame reasoning. -/
namespace LokyModel.Pickle

/-- heap invariant: the three global cells exist and every live pickler's table is a later cell -/
def Wf (s : State) : Prop :=
  3 ≤ s.cells.length ∧ ∀ c ∈ s.picklers, 3 ≤ c ∧ c < s.cells.length

theorem wf_init (g : Globals) (b : Backend) : Wf (initState g b) := by
  refine ⟨by simp [initState], ?_⟩
  intro c hc
  simp [initState] at hc

theorem updAt_length {α : Type} (l : List α) (i : Nat) (f : α → α) : (updAt l i f).length = l.length := by
  induction l generalizing i with
  | nil => rfl
  | cons x xs ih => cases i <;> simp [updAt, ih]

theorem updAt_getD_ne {α : Type} (l : List α) (i j : Nat) (f : α → α) (d : α) (h : j ≠ i) :
    (updAt l i f).getD j d = l.getD j d := by
  induction l generalizing i j with
  | nil => rfl
  | cons x xs ih =>
    cases i with
    | zero =>
      cases j with
      | zero => exact absurd rfl h
      | succ j => simp [updAt]
    | succ i =>
      cases j with
      | zero => simp [updAt]
      | succ j =>
        have : j ≠ i := fun e => h (by rw [e])
        simpa [updAt] using ih i j this

theorem updAt_getD_eq {α : Type} (l : List α) (i : Nat) (f : α → α) (d : α) (h : i < l.length) :
    (updAt l i f).getD i d = f (l.getD i d) := by
  induction l generalizing i with
  | nil => simp at h
  | cons x xs ih =>
    cases i with
    | zero => simp [updAt]
    | succ i =>
      have : i < xs.length := by simpa using h
      simpa [updAt] using ih i this

theorem readCell_writeCell_ne (s : State) (i j : Nat) (f : Table → Table) (h : j ≠ i) :
    readCell (writeCell s i f) j = readCell s j := by
  simp only [readCell, writeCell]
  exact updAt_getD_ne _ _ _ _ _ h

theorem readCell_writeCell_eq (s : State) (i : Nat) (f : Table → Table) (h : i < s.cells.length) :
    readCell (writeCell s i f) i = f (readCell s i) := by
  simp only [readCell, writeCell]
  exact updAt_getD_eq _ _ _ _ h

theorem writeCell_length (s : State) (i : Nat) (f : Table → Table) :
    (writeCell s i f).cells.length = s.cells.length := by
  simp [writeCell, updAt_length]

/-- registering a list of reducers on cell `c` one by one -/
def registerAll (s : State) (c : Nat) (rs : Table) : State :=
  rs.foldl (fun s (p : Ty × Reducer) => registerCell s c p.1 p.2) s

theorem registerAll_length (s : State) (c : Nat) (rs : Table) :
    (registerAll s c rs).cells.length = s.cells.length := by
  induction rs generalizing s with
  | nil => rfl
  | cons p ps ih =>
    show (registerAll (registerCell s c p.1 p.2) c ps).cells.length = _
    rw [ih]; exact writeCell_length _ _ _

theorem registerAll_ne (s : State) (c j : Nat) (rs : Table) (h : j ≠ c) :
    readCell (registerAll s c rs) j = readCell s j := by
  induction rs generalizing s with
  | nil => rfl
  | cons p ps ih =>
    show readCell (registerAll (registerCell s c p.1 p.2) c ps) j = _
    rw [ih]; exact readCell_writeCell_ne _ _ _ _ h

theorem registerAll_eq (s : State) (c : Nat) (rs : Table) (h : c < s.cells.length) :
    readCell (registerAll s c rs) c = rs.reverse ++ readCell s c := by
  induction rs generalizing s with
  | nil => simp [registerAll]
  | cons p ps ih =>
    show readCell (registerAll (registerCell s c p.1 p.2) c ps) c = _
    have hl : c < (registerCell s c p.1 p.2).cells.length := by
      rw [registerCell, writeCell_length]; exact h
    rw [ih _ hl, registerCell, readCell_writeCell_eq _ _ _ h]
    simp [tset]

theorem registerAll_fields (s : State) (c : Nat) (rs : Table) :
    (registerAll s c rs).backend = s.backend ∧ (registerAll s c rs).picklers = s.picklers ∧
    (registerAll s c rs).queues = s.queues ∧ (registerAll s c rs).last = s.last := by
  induction rs generalizing s with
  | nil => exact ⟨rfl, rfl, rfl, rfl⟩
  | cons p ps ih =>
    have := ih (registerCell s c p.1 p.2)
    exact this

/-- everything `createPickler` does, in one statement: one new cell holding the specified table,
every existing cell — the three registries and all other picklers' tables — untouched -/
theorem createPickler_spec (s : State) (hs : 3 ≤ s.cells.length) (rs : Table) :
    let r := createPickler s rs
    r.2 = s.cells.length ∧
    r.1.cells.length = s.cells.length + 1 ∧
    (∀ j, j < s.cells.length → readCell r.1 j = readCell s j) ∧
    readCell r.1 s.cells.length = effectiveTable (globals s) s.backend rs ∧
    r.1.backend = s.backend ∧ r.1.picklers = s.picklers ∧ r.1.queues = s.queues ∧
    r.1.last = some s.cells.length := by
  -- name the intermediate states of the transcription
  let base : Table := match s.backend with
    | .cloudpickle => readCell s cloudCell ++ readCell s copyregCell
    | .pickle => readCell s copyregCell
  let c := s.cells.length
  let s1 : State := { s with cells := s.cells ++ [base] }
  let s2 : State := writeCell s1 c (fun t => tupdate t (readCell s1 lokyCell))
  let s3 : State := registerAll s2 c rs
  have hr : createPickler s rs = ({ s3 with last := some c }, c) := rfl
  have h1len : s1.cells.length = c + 1 := by simp [s1, c]
  have h1old : ∀ j, j < c → readCell s1 j = readCell s j := by
    intro j hj
    simp [s1, readCell, List.getD_eq_getElem?_getD, List.getElem?_append_left hj]
  have h1new : readCell s1 c = base := by
    simp [s1, readCell, c, List.getD_eq_getElem?_getD]
  have h2len : s2.cells.length = c + 1 := by rw [writeCell_length]; exact h1len
  have hc1 : c < s1.cells.length := by omega
  have hc2 : c < s2.cells.length := by omega
  have h2new : readCell s2 c = readCell s lokyCell ++ base := by
    rw [readCell_writeCell_eq _ _ _ hc1, h1new, h1old lokyCell (by simp [lokyCell, c]; omega)]
    rfl
  have h2old : ∀ j, j < c → readCell s2 j = readCell s j := by
    intro j hj
    rw [readCell_writeCell_ne _ _ _ _ (by omega), h1old j hj]
  have hf := registerAll_fields s2 c rs
  simp only [hr]
  refine ⟨rfl, ?_, ?_, ?_, hf.1, hf.2.1, hf.2.2.1, rfl⟩
  · show s3.cells.length = c + 1
    rw [registerAll_length]; exact h2len
  · intro j hj
    show readCell s3 j = _
    rw [registerAll_ne _ _ _ _ (by omega : j ≠ c)]
    exact h2old j hj
  · show readCell s3 c = _
    rw [registerAll_eq _ _ _ hc2, h2new]
    simp only [effectiveTable, globals, base]
    cases s.backend <;> rfl

/-- what one API call may touch: only cells of live picklers, and only by `register` on that pickler -/
theorem step_frame (s : State) (hs : Wf s) (op : Op) :
    Wf (step s op) ∧ s.cells.length ≤ (step s op).cells.length ∧
    (∀ j, j < s.cells.length →
      (∀ ty r, op = .register j ty r → j ∉ s.picklers) →
      readCell (step s op) j = readCell s j) ∧
    (∀ c, c ∈ s.picklers → c ∈ (step s op).picklers) := by
  obtain ⟨h3, hp⟩ := hs
  have same : ∀ s' : State, s'.cells = s.cells → s'.picklers = s.picklers →
      Wf s' ∧ s.cells.length ≤ s'.cells.length ∧
      (∀ j, j < s.cells.length → readCell s' j = readCell s j) ∧
      (∀ c, c ∈ s.picklers → c ∈ s'.picklers) := by
    intro s' hc hpk
    refine ⟨⟨by rw [hc]; exact h3, by rw [hc, hpk]; exact hp⟩, by rw [hc]; exact Nat.le_refl _,
      fun j _ => by simp only [readCell, hc], fun c h => by rw [hpk]; exact h⟩
  -- an operation that creates a (temporary) pickler and keeps the list of live picklers
  have created : ∀ (rs : Table) (s' : State), s'.cells = (createPickler s rs).1.cells →
      s'.picklers = s.picklers →
      Wf s' ∧ s.cells.length ≤ s'.cells.length ∧
      (∀ j, j < s.cells.length → readCell s' j = readCell s j) ∧
      (∀ c, c ∈ s.picklers → c ∈ s'.picklers) := by
    intro rs s' hc hpk
    obtain ⟨_, e2, e3, _, _, _, _, _⟩ := createPickler_spec s h3 rs
    have hrd : ∀ j, readCell s' j = readCell (createPickler s rs).1 j := fun j => by
      simp only [readCell, hc]
    refine ⟨⟨by rw [hc]; omega, ?_⟩, by rw [hc]; omega, fun j hj => by rw [hrd]; exact e3 j hj,
      fun c h => by rw [hpk]; exact h⟩
    intro c hc'
    rw [hpk] at hc'
    have := hp c hc'
    rw [hc]; omega
  cases op with
  | setPickler b =>
    obtain ⟨a, b', c, d⟩ := same (step s (.setPickler b)) rfl rfl
    exact ⟨a, b', fun j hj _ => c j hj, d⟩
  | newPickler r =>
    obtain ⟨e1, e2, e3, _, _, e6, _, _⟩ := createPickler_spec s h3 (orEmpty r)
    have hc : (step s (.newPickler r)).cells = (createPickler s (orEmpty r)).1.cells := rfl
    have hpk : (step s (.newPickler r)).picklers
        = (createPickler s (orEmpty r)).1.picklers ++ [(createPickler s (orEmpty r)).2] := rfl
    have hrd : ∀ j, readCell (step s (.newPickler r)) j = readCell (createPickler s (orEmpty r)).1 j :=
      fun _ => rfl
    refine ⟨⟨by rw [hc]; omega, ?_⟩, by rw [hc]; omega, fun j hj _ => by rw [hrd]; exact e3 j hj, ?_⟩
    · intro c hc'
      rw [hpk, e6, e1, List.mem_append, List.mem_singleton] at hc'
      rw [hc, e2]
      rcases hc' with hc' | hc'
      · have := hp c hc'; omega
      · omega
    · intro c hc'
      rw [hpk, e6]
      exact List.mem_append_left _ hc'
  | register c ty r =>
    by_cases hc : c ∈ s.picklers
    · have hst : step s (.register c ty r) = writeCell s c (fun t => tset t ty r) := by
        simp only [step, hc, if_true, registerCell]
      rw [hst]
      refine ⟨⟨by rw [writeCell_length]; exact h3, ?_⟩, by rw [writeCell_length]; exact Nat.le_refl _,
        ?_, fun _ h => h⟩
      · intro c' hc'
        rw [writeCell_length]; exact hp c' hc'
      · intro j _ hne
        have : j ≠ c := fun e => hne ty r (by rw [e]) (by rw [e]; exact hc)
        exact readCell_writeCell_ne _ _ _ _ this
    · have hst : step s (.register c ty r) = s := by simp only [step, hc, if_false]
      rw [hst]
      exact ⟨⟨h3, hp⟩, Nat.le_refl _, fun _ _ _ => rfl, fun _ h => h⟩
  | dumps r =>
    obtain ⟨_, _, _, _, _, e6, _, _⟩ := createPickler_spec s h3 (orEmpty r)
    obtain ⟨a, b, c, d⟩ := created (orEmpty r) (step s (.dumps r)) rfl e6
    exact ⟨a, b, fun j hj _ => c j hj, d⟩
  | newQueue r =>
    obtain ⟨a, b', c, d⟩ := same (step s (.newQueue r)) rfl rfl
    exact ⟨a, b', fun j hj _ => c j hj, d⟩
  | put i =>
    cases hi : s.queues[i]? with
    | none =>
      have hst : step s (.put i) = s := by simp only [step, hi]
      rw [hst]
      exact ⟨⟨h3, hp⟩, Nat.le_refl _, fun _ _ _ => rfl, fun _ h => h⟩
    | some q =>
      have hst : step s (.put i) = (createPickler s (orEmpty q)).1 := by simp only [step, hi]
      obtain ⟨_, _, _, _, _, e6, _, _⟩ := createPickler_spec s h3 (orEmpty q)
      rw [hst]
      obtain ⟨a, b, c, d⟩ := created (orEmpty q) _ rfl e6
      exact ⟨a, b, fun j hj _ => c j hj, d⟩
  | newExecutor j r =>
    obtain ⟨a, b', c, d⟩ := same (step s (.newExecutor j r)) rfl rfl
    exact ⟨a, b', fun j hj _ => c j hj, d⟩

theorem run_wf (s : State) (hs : Wf s) (ops : List Op) : Wf (run s ops) := by
  induction ops generalizing s with
  | nil => exact hs
  | cons op ops ih => exact ih _ (step_frame s hs op).1

/-! ## reusable executor: consistency of the executor with its stored arguments -/

/-- what an executor has was built from its stored arguments (invariant of every history) -/
def RState.Consistent (s : RState) : Prop :=
  ∀ e, s.cur = some e → e.jobq = e.kwargs.job ∧ e.resq = resultReducers e.kwargs.job e.kwargs.res
    ∧ e.init = e.kwargs.init ∧ e.initargs = e.kwargs.initargs ∧ e.env = e.kwargs.env

theorem rstep_consistent (same : Kwargs → Kwargs → Bool) (s : RState) (hs : s.Consistent) (op : ROp) :
    (rstep same s op).Consistent := by
  intro e he
  cases op with
  | req w k =>
    simp only [rstep, request] at he
    split at he
    · simp only [Option.some.injEq] at he; subst he; simp [newRExec]
    · rename_i e0 h0
      split at he
      · simp only [Option.some.injEq] at he; subst he; exact hs e0 h0
      · simp only [Option.some.injEq] at he; subst he; simp [newRExec]
  | shutdown =>
    simp only [rstep, Option.map_eq_some_iff] at he
    obtain ⟨e0, h0, rfl⟩ := he
    exact hs e0 h0

theorem rrun_consistent (same : Kwargs → Kwargs → Bool) (ops : List ROp) (s : RState) (hs : s.Consistent) :
    (rrun same s ops).Consistent := by
  induction ops generalizing s with
  | nil => exact hs
  | cons op rest ih => exact ih _ (rstep_consistent same s hs op)

end LokyModel.Pickle
