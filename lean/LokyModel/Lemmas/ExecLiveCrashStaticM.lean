import LokyModel.Lemmas.ExecLiveCrashStaticBase
/-! `staticSmallC'`: steps of the manager thread — the broken path and the kill loop included. -/
namespace LokyModel.Exec.StaticCP
open StaticP
set_option linter.unusedSimpArgs false

/-! ### program counters -/

theorem mNeverC_clr (k : AfterClear) : mNeverC (.clrRecv k) = mNeverC (.clrPoll k) := by
  cases k with
  | broken b => cases b <;> rfl
  | item r =>
    cases r with
    | none => rfl
    | some r => cases r <;> rfl

theorem mNever_item (r : Option RMsg) : mNever (.clrPoll (.item r)) = mNeverC (.clrPoll (.item r)) := by
  cases r with
  | none => rfl
  | some r => cases r <;> rfl

theorem mBrk_clr (k : AfterClear) : mBrk (.clrRecv k) = mBrk (.clrPoll k) := by
  cases k <;> rfl

theorem mFinal_lateK (m : MPc) (h : mFinal m = true) : mLateK m = true := by
  cases m <;> simp_all [mFinal, mLateK]
theorem mLateK_false (m : MPc) (h : mLateK m = false) : mFinal m = false := by
  cases hf : mFinal m
  · rfl
  · rw [mFinal_lateK m hf] at h; cases h

/-- what `kill_workers` leaves in the program counter -/
theorem mKillNext_res (s : St) :
    mNeverC (mKillNext s).mpc = false ∧ mEmptyL (mKillNext s).mpc = false ∧ (mKillNext s).mpc ≠ .none ∧
    (mKillNext s).mpc ≠ .recv ∧ isClrRecv (mKillNext s).mpc = false ∧ mLateK (mKillNext s).mpc = true ∧
    mLate (mKillNext s).mpc = false ∧ snapOf (mKillNext s).mpc = [] ∧
    (∀ p, killOf (mKillNext s).mpc = some p → p ∈ s.procDict) ∧
    (∀ p, (mKillNext s).mpc ≠ .killJoin p) := by
  unfold mKillNext
  split
  · rename_i p e
    simp [mNeverC, mEmptyL, isClrRecv, mLateK, mLate, snapOf, killOf]
    exact List.mem_of_getLast? e
  · simp [mJoinStart, mNeverC, mEmptyL, isClrRecv, mLateK, mFinal, mLate, snapOf, killOf]

theorem mKillNext_q (s : St) (l fn : Bool) (h : QOk s.cqBuf s.cqPipe s.fpc l fn) (hl : l = false) (hfn : fn = false) :
    QOk (mKillNext s).cqBuf (mKillNext s).cqPipe (mKillNext s).fpc (mLate (mKillNext s).mpc) (mFinal (mKillNext s).mpc) := by
  subst hl hfn
  have e1 : (mKillNext s).cqBuf = s.cqBuf := by unfold mKillNext; split <;> simp [mJoinStart]
  have e2 : (mKillNext s).cqPipe = s.cqPipe := by unfold mKillNext; split <;> simp [mJoinStart]
  have e3 : (mKillNext s).fpc = s.fpc := by unfold mKillNext; split <;> simp [mJoinStart]
  exact qOk_same h e1 e2 e3 (by simp) (by simp)

/-- a program counter that the crash-free static pool can reach is not on the broken path, not in the kill loop -/
theorem of_mNever (m : MPc) (h : mNever m = false) :
    mNeverC m = false ∧ mBrk m = false ∧ killOf m = none ∧ (∀ p, m ≠ .killJoin p) ∧ mLateK m = mFinal m := by
  refine ⟨mNeverC_of_mNever m h, ?_, ?_, ?_, ?_⟩
  · cases m with
    | clrPoll k => cases k <;> simp_all [mNever, mBrk]
    | clrRecv k => cases k <;> simp_all [mNever, mBrk]
    | _ => simp_all [mNever, mBrk]
  · cases m <;> simp_all [mNever, killOf]
  · intro p e; subst e; simp [mNever] at h
  · cases m <;> simp_all [mNever, mLateK]

theorem md_of_mNever (m : MPc) (P : Prop) (h : mNever m = false) : mBrk m = true → P := by
  intro hb; rw [(of_mNever m h).2.1] at hb; cases hb
theorem kj_of_mNever (m : MPc) (w : Pid → WPc) (h : mNever m = false) : ∀ p, m = .killJoin p → w p = .dead :=
  fun p hp => absurd hp ((of_mNever m h).2.2.2.1 p)
theorem ko_of_mNever (m : MPc) (l : List Pid) (h : mNever m = false) : ∀ p, killOf m = some p → p ∈ l := by
  intro p hp; rw [(of_mNever m h).2.2.1] at hp; cases hp
theorem pd_final (m : MPc) (P : Prop) (h : mNever m = false) (hf : mFinal m = true) : mLateK m = false → P := by
  intro hl; rw [(of_mNever m h).2.2.2.2, hf] at hl; cases hl

-- `mNever _ = false` for what a continuation leaves in the program counter
set_option hygiene false in
macro "sf" : tactic => `(tactic| (first
  | (simp [mAdd_sf, mAfterItem_sf, mAddF_sf, mAfterFlag_sf, mRelExitNext_sf, mProcess_sf,
      mAliveNext_sf, mJoinProcs_sf, mJoinClose_sf, mJoinLoop_sf, mAfterPut_sf, mJoinStart_mpc', hk, *]; done)
  | (simp [mNever, mFinal, *]; done)))

/-! ### summary of a manager step -/

structure MSumC (s s' : St) : Prop where
  nv : mNeverC s'.mpc = false
  em : mEmptyL s'.mpc = false
  nn : s'.mpc ≠ .none
  nn0 : s.mpc ≠ .none
  rc : s'.mpc = .recv → s'.rqPipe ≠ []
  cr : isClrRecv s'.mpc = true → 0 < s'.wakeup
  fin : mFinal s.mpc = true → mFinal s'.mpc = true
  snap : ∀ p ∈ snapOf s'.mpc, p ∈ s.allPids
  q : QOk s'.cqBuf s'.cqPipe s'.fpc (mLate s'.mpc) (mFinal s'.mpc)
  wc : s'.wakeupClosed = true → s.wakeupClosed = true ∨ mFinal s'.mpc = true
  rq : ∀ r ∈ s'.rqPipe, r ∈ s.rqPipe
  w : s'.w = s.w ∨ ∃ p, s'.w = upd s.w p .dead
  bu : s'.broken ≠ some .unserialize
  bd : s'.broken ≠ none → s.broken ≠ none ∨ mBrk s.mpc = true
  md : mBrk s'.mpc = true → anyDead s = true
  pd : mLateK s'.mpc = false → mLateK s.mpc = false ∧ s'.procDict = s.procDict
  kj : ∀ p, s'.mpc = .killJoin p → s'.w p = .dead
  ko : ∀ p, killOf s'.mpc = some p → p ∈ s.allPids
  upc : s'.upc = s.upc
  ucur : s'.ucur = s.ucur
  uscript : s'.uscript = s.uscript
  allPids : s'.allPids = s.allPids
  cfg : s'.cfg = s.cfg
  killFlag : s'.killFlag = s.killFlag
  threadReg : s'.threadReg = s.threadReg

set_option maxHeartbeats 16000000 in
theorem mSumC_step (s s' : St) (v : Variant) (h : CI s) (hp : PidsInv s) (hs : stepM s v = some s') : MSumC s s' := by
  have hq := qOk_of_ci s h
  have hmn := h.mn
  have hk := h.kf
  have hreg := hp.reg
  have hbu := h.bu
  have hmd := h.md
  have hkj := h.kj
  have hko := h.ko
  have hrecv : s.mpc = .recv → ∀ r ∈ s.rqPipe, rBad r = false ∧ isPidMsg r = false := by
    intro e r hr
    exact ⟨h.rb r hr, (h.pre (by simp [e, mFinal])).nr r hr⟩
  have hwait : ∀ snap, s.mpc = .wait snap → snap.any (isDead s) = true → anyDead s = true := by
    intro snap e hd
    have hsn := h.snap
    rw [e] at hsn
    simp only [snapOf] at hsn
    rw [List.any_eq_true] at hd
    obtain ⟨p, hp1, hp2⟩ := hd
    rw [anyDead_iff]
    exact ⟨p, hsn p hp1, by simpa [isDead] using hp2⟩
  unfold stepM at hs
  crack
  all_goals (first | (simp_all [mNeverC]; done) | skip)
  all_goals (first
    | (exfalso; have := hrecv ‹_› _ (by rw [‹s.rqPipe = _›]; exact List.Mem.head _); simp [rBad] at this; done)
    | skip)
  all_goals (first | (have hr := hmn; rw [‹s.mpc = MPc.clrPoll (AfterClear.item _)›, ← mNever_item] at hr) | skip)
  all_goals constructor
  all_goals (first
    | rfl
    | (simp [mAdd_sf, mAfterItem_sf, mAddF_sf, mAfterFlag_sf, mRelExitNext_sf, mProcess_sf,
         mAliveNext_sf, mJoinProcs_sf, mJoinClose_sf, mJoinLoop_sf, mAfterPut_sf, mJoinStart_mpc',
         mRelExitNext_snap, mAliveNext_snap, mJoinProcs_snap, mJoinClose_snap, mJoinLoop_snap, mAfterPut_snap, hk, *]; done)
    | (simp [mNeverC, mEmptyL, isClrRecv, mFinal, mLate, snapOf, mBrk, killOf, mLateK, *]; done)
    | (simp [mKillNext_res]; done)
    -- nv
    | (refine (of_mNever _ ?_).1; sf)
    -- md
    | (refine md_of_mNever _ _ ?_; sf)
    | (intro _; refine hwait _ ‹_› ?_; simpa using ‹_›)
    | (intro hb; refine hmd ?_; rw [‹s.mpc = _›]
       first | rfl | exact hb | (rw [← mBrk_clr]; exact hb) | (rw [mBrk_clr]; exact hb))
    -- kj
    | (refine kj_of_mNever _ _ ?_; sf)
    | (intro p hp; exact absurd hp ((mKillNext_res _).2.2.2.2.2.2.2.2.2 p))
    | (intro p hp; simp at hp; subst hp; simpa [alive] using ‹¬ alive s _ = true›)
    -- ko
    | (refine ko_of_mNever _ _ ?_; sf)
    | (intro p hp; refine hreg p ?_; simpa using (mKillNext_res _).2.2.2.2.2.2.2.2.1 p hp)
    -- pd
    | (refine pd_final _ _ ?_ ?_ <;> sf)
    | (intro hl; constructor <;> first | (simp [*, mLateK, mFinal]; done) | (refine (mAfterFlag_res _ ?_).2.2.2; exact hk))
    -- bd
    | (intro hb; left; simpa using hb)
    | (intro _; right; simp [*, mBrk]; done)
    -- snap
    | (intro p hp'; have := (mAdd_res _).2.2.2 p hp'; exact hreg p this)
    | (intro p hp'; have := (mAfterItem_res _).2.2.2 p hp'; exact hreg p this)
    | (intro p hp'; have := (mProcess_res _ _ hr).2.2.2 p hp'; exact hreg p this)
    | (intro p hp'; have := (mAddF_res _).2.2 p hp'; exact hreg p this)
    | (intro p hp'; have := (mAfterFlag_res _ (by exact hk)).2.2.1 p hp'; exact hreg p this)
    | (intro hw; left; simpa using hw)
    | (have e := ‹s.mpc = _›; rw [e] at hmn; show mNeverC (MPc.clrRecv _) = false; rw [mNeverC_clr]; exact hmn)
    | (have e := ‹s.mpc = _›; rw [e] at hmn; show mNeverC (MPc.clrPoll _) = false; rw [← mNeverC_clr]; exact hmn)
    | (have := hrecv ‹_› _ (by rw [‹s.rqPipe = _›]; exact List.Mem.head _)
       show mNeverC (MPc.clrPoll (.item (some _))) = false
       cases ‹RMsg› <;> simp_all [mNeverC, rBad, isPidMsg]; done)
    | (intro r hr'; rw [‹s.rqPipe = _›]; exact List.mem_cons_of_mem _ hr')
    | (have e := ‹s.mpc = _›; rw [e] at hmn; cases ‹Broken› <;> simp_all [mNeverC]; done)
    | (right; exact ⟨_, rfl⟩)
    | skip)
  all_goals (first
    | refine mAdd_q _ ?_ | refine mAfterItem_q _ ?_ | refine mProcess_q _ _ ?_ | refine mAddF_q _ ?_
    | refine mAfterFlag_q _ ?_ | refine mRelExitNext_q _ _ _ (mFinal s.mpc) ?_
    | refine mAliveNext_q _ _ _ _ _ _ (mFinal s.mpc) ?_
    | refine mJoinProcs_q _ (mLate s.mpc) (mFinal s.mpc) ?_ | refine mJoinLoop_q' _ _ _ _ (mFinal s.mpc) ?_
    | refine mAfterPut_q' _ _ _ _ _ (mFinal s.mpc) ?_
    | refine mJoinClose_q' _ (mFinal s.mpc) ?_
    | refine mKillNext_q _ (mLate s.mpc) (mFinal s.mpc) ?_ (by simp [*, mLate]) (by simp [*, mFinal]) | skip)
  all_goals (first
    | (exact qOk_same hq rfl rfl rfl (by simp [*, mLate]) (by simp [*, mFinal]))
    | (refine qOk_push hq (by simp [*, mLate]) _ rfl rfl (by simp [*]) ?_ ?_ ?_ <;> simp [*, isClose, isStop, mFinal]; done)
    | skip)

end LokyModel.Exec.StaticCP
