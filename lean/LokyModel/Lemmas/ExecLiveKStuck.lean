import LokyModel.Lemmas.ExecLiveKLate
import LokyModel.Lemmas.ExecLiveStuckCrash
/-!
# Phase 2 of a pool with forced shutdowns: a quiescent state is a good one

Once the manager has seen the kill flag (`LateInv`), a state in which no step other than a crash is enabled is `good`:
the manager thread has ended (it never waits for a worker it has not killed, and the two locks it still needs — the
process-management lock and `shutdown_lock` — are held only by threads that can move), every future is resolved (every
pending one was failed with the shutdown error before the kill loop) and every user thread is at the end of its script.
The queue locks a killed worker may hold for ever play no role: nobody takes them any more.
-/
namespace LokyModel.Exec

theorem LockOk.holder {v : Nat} {o : Option Actor} {sec : Actor → Bool} (h : LockOk v o sec) (hz : v = 0) :
    ∃ a, sec a = true := by
  cases ho : o with
  | none => have := h.free ho; omega
  | some a => exact ⟨a, (h.held a ho).2⟩

/-- the four locks of the parent's threads, from `HolderInv4` -/
theorem holderInv4_facts (s : St) (h : HolderInv4 s) :
    (s.cqWlock = 0 → inCqWF s.fpc = true) ∧
    (s.gshut = 0 → ∃ k, k < s.cfg.scripts.length ∧ inGshutU (s.upc k) = true) ∧
    (s.mgmt = 0 → (∃ k, k < s.cfg.scripts.length ∧ inMgmtU' (s.upc k) = true) ∨ inMgmtM' s.mpc = true) ∧
    (s.shut = 0 → (∃ k, k < s.cfg.scripts.length ∧ inShutU' (s.upc k) = true) ∨ inShutM' s.mpc = true ∨
      inShutF' s.fpc = true) := by
  refine ⟨?_, ?_, ?_, ?_⟩
  · intro hz
    obtain ⟨a, ha⟩ := h.cqW.holder hz
    cases a <;> simp [secCqW] at ha; exact ha
  · intro hz
    obtain ⟨a, ha⟩ := h.gshut.holder hz
    cases a <;> simp [secGshut] at ha
    rename_i k; exact ⟨k, ha.2, ha.1⟩
  · intro hz
    obtain ⟨a, ha⟩ := h.mgmt.holder hz
    cases a <;> simp [secMgmtC] at ha
    · rename_i k; exact .inl ⟨k, ha.2, ha.1⟩
    · exact .inr ha
  · intro hz
    obtain ⟨a, ha⟩ := h.shut.holder hz
    cases a <;> simp [secShut] at ha
    · rename_i k; exact .inl ⟨k, ha.2, ha.1⟩
    · exact .inr (.inl ha)
    · exact .inr (.inr ha)

/-- Phase 2 (the manager has seen the kill flag), nothing but a crash enabled: the manager thread has ended and every user
    thread is at the end of its script. -/
theorem late_quiescent (s : St) (L : LateInv s) (hq : enabledNC s = []) :
    mEnded s = true ∧ ∀ k, k < s.cfg.scripts.length → s.upc k = .done := by
  have hpc := L.pc
  obtain ⟨Hcqw, Hg, Hmg, Hsh⟩ := holderInv4_facts s L.h4
  have MB := mBlockedC s (quiet_M s hq).1 (quiet_M s hq).2 (mK2_neverC hpc)
    (fun e => by rw [e] at hpc; cases hpc) (fun k e => by rw [e] at hpc; cases hpc)
    (fun n e => by rw [e] at hpc; cases hpc) (fun c n st co e => by rw [e] at hpc; cases hpc)
  -- the feeder
  have FB : s.fpc = .none ∨ s.fpc = .done ∨ s.fpc = .wait ∨ (s.fpc = .errAcq ∧ s.shut = 0) := by
    rcases fBlocked s (quiet_F s hq) with h | h | h | h | h
    · exact .inl h
    · exact .inr (.inl h)
    · exact .inr (.inr (.inl h.1))
    · exfalso
      have := Hcqw h.2
      rcases h.1 with ⟨m, hm⟩ | ⟨w, hw⟩
      · rw [hm] at this; simp [inCqWF] at this
      · rw [hw] at this; simp [inCqWF] at this
    · exact .inr (.inr (.inr h))
  have FnS : inShutF' s.fpc = false := by
    rcases FB with h | h | h | ⟨h, _⟩ <;> rw [h] <;> rfl
  -- the manager is never stuck joining a live worker
  have hnoJoin : ∀ p, (s.mpc = .jJoin p ∨ s.mpc = .killJoin p) → isDead s p = true := by
    intro p hm
    rcases hm with hm | hm
    · rw [hm] at hpc; cases hpc
    · simp [isDead, L.kj p hm]
  -- the management lock and the shutdown lock are free
  have hmg : s.mgmt ≠ 0 := by
    intro hz
    rcases Hmg hz with ⟨k, hk, hu⟩ | hm
    · exact absurd (quiet_U s hq k hk) (enabled_inMgmtU' s k hu)
    · rcases MB with h | h | ⟨sn, h, _⟩ | h | h | h | ⟨p, h, hpd⟩
      · rw [h] at hm; simp [inMgmtM'] at hm
      · rcases mEnded_cases s h with h | ⟨w, h⟩ <;> rw [h] at hm <;> simp [inMgmtM'] at hm
      · rw [h] at hm; simp [inMgmtM'] at hm
      · cases hpc' : s.mpc <;> simp [hpc', mWaitSlot, inMgmtM'] at h hm
      · cases hpc' : s.mpc <;> simp [hpc', mWaitShutC, inMgmtM'] at h hm
      · cases hpc' : s.mpc <;> simp [hpc', mWaitMgmt, inMgmtM'] at h hm
      · rw [hnoJoin p h] at hpd; cases hpd
  have hsh : s.shut ≠ 0 := by
    intro hz
    rcases Hsh hz with ⟨k, hk, hu⟩ | hm | hf
    · exact enabled_inShutU' s k hu (fun _ => hmg) (quiet_U s hq k hk)
    · rcases MB with h | h | ⟨sn, h, _⟩ | h | h | h | ⟨p, h, hpd⟩
      · rw [h] at hm; simp [inShutM'] at hm
      · rcases mEnded_cases s h with h | ⟨w, h⟩ <;> rw [h] at hm <;> simp [inShutM'] at hm
      · rw [h] at hm; simp [inShutM'] at hm
      · cases hpc' : s.mpc <;> simp [hpc', mWaitSlot, inShutM'] at h hm
      · cases hpc' : s.mpc <;> simp [hpc', mWaitShutC, inShutM'] at h hm
      · cases hpc' : s.mpc <;> simp [hpc', mWaitMgmt, inShutM'] at h hm
      · rw [hnoJoin p h] at hpd; cases hpd
    · rw [FnS] at hf; cases hf
  -- the manager thread has ended
  have hend : mEnded s = true := by
    rcases MB with hm | hm | ⟨sn, hm, _⟩ | hm | hm | hm | ⟨p, hm, hpd⟩
    · rw [hm] at hpc; cases hpc
    · exact hm
    · rw [hm] at hpc; cases hpc
    · exfalso; cases hpc' : s.mpc <;> simp [hpc', mWaitSlot, mK2] at hm hpc
    · exact absurd hm.2 hsh
    · exact absurd hm.2 hmg
    · rw [hnoJoin p hm] at hpd; cases hpd
  -- user threads
  have hu : ∀ k, k < s.cfg.scripts.length → s.upc k = .done := by
    intro k hk
    rcases uBlocked s k (quiet_U s hq k hk) (L.api k hk) with h | h | h | h | h
    · exact h
    · exact absurd h.2 hsh
    · exact absurd h.2 hmg
    · exfalso
      obtain ⟨k', hk', hg⟩ := Hg h.2
      rcases inGshutU_cases _ hg with hj' | hrel
      · rcases uBlocked s k' (quiet_U s hq k' hk') (L.api k' hk') with h' | h' | h' | h' | h'
        · rw [h'] at hj'; simp [uJoin] at hj'
        · exact absurd h'.2 hsh
        · exact absurd h'.2 hmg
        · cases hu : s.upc k' <;> simp [hu, uJoin, uWaitG] at hj' h'
        · rw [hend] at h'; cases h'.2
      · exact absurd (quiet_U s hq k' hk') (enabled_relG s k' hrel)
    · rw [hend] at h; cases h.2
  exact ⟨hend, hu⟩

/-- **Phase 2 (the manager has seen the kill flag): a quiescent state is a good one.** -/
theorem stuck_good_late (s : St) (L : LateInv s)
    (hfut : ∀ i, i < s.futs.length → (futOf s i).done = false → i ∈ s.pending)
    (hterm : mEnded s = true → s.pending = [])
    (hq : enabledNC s = []) : good s = true := by
  obtain ⟨hend, hu⟩ := late_quiescent s L hq
  exact good_of s (futs_done_of_pending_nil s hfut (hterm hend)) hu

end LokyModel.Exec
