import LokyModel.Lemmas.ExecLiveMeasureCBase
/-! `muC` decreases: steps of the executor manager thread.

* off the broken path and not at `wait` / `recv`: the step lemma for `mu` (`mu_stepM`, with `joinOk` obtained from its
  crash-aware form `joinC'`), and the step neither enters the broken path nor touches the broken flag
  (`stepM_frameC`), so `extraC` is zero before and after, up to the token;
* `wait`: the one entry into the broken path (a dead worker's sentinel is ready);
* the broken path itself (`thread_wakeup.clear()`, `terminate_broken`, the kill loop), program counter by program
  counter.  Needed about the state: at `brkAcq` the pool is not yet flagged broken (`killedC`) and at most `max_workers`
  processes are registered (`SpawnInv`). -/
namespace LokyModel.Exec
open StaticP StaticCP
set_option linter.unusedSimpArgs false
set_option linter.unusedVariables false

/-! ### `mu` against `muM` -/

/-- a step of the manager that may in addition kill a worker (`wSum` does not grow) -/
theorem mu_M_le (s s' : St) (hall : s'.allPids = s.allPids) (hw : wSum s' ≤ wSum s)
    (hcfg : s'.cfg = s.cfg) (hupc : s'.upc = s.upc) (hus : s'.uscript = s.uscript) (hpipe : s'.cqPipe = s.cqPipe) :
    mu s' + muM s ≤ mu s + muM s' := by
  have h2 := uSum_same s s' hcfg hupc hus
  unfold mu qPot muM
  rw [h2, hcfg, hpipe, hall]
  omega

theorem muC_M (s s' : St) (hall : s'.allPids = s.allPids) (hw : wSum s' ≤ wSum s)
    (hcfg : s'.cfg = s.cfg) (hupc : s'.upc = s.upc) (hus : s'.uscript = s.uscript) (hpipe : s'.cqPipe = s.cqPipe)
    (hmain : muM s' + extraC s' < muM s + extraC s) : muC s' < muC s := by
  have := mu_M_le s s' hall hw hcfg hupc hus hpipe
  rw [muC_eq, muC_eq]
  omega

theorem sumL_le {α : Type} (f g : α → Nat) (l : List α) (h : ∀ x ∈ l, f x ≤ g x) : sumL f l ≤ sumL g l := by
  induction l with
  | nil => simp
  | cons a l ih =>
    simp only [sumL_cons]
    have h1 := h a (by simp)
    have h2 := ih (fun x hx => h x (by simp [hx]))
    omega

theorem wSum_die_le (s : St) (X : St) (p : Pid) (c : Int) (hall : X.allPids = s.allPids) (hw : X.w = s.w) :
    wSum (die X p c) ≤ wSum s := by
  unfold wSum
  have : (die X p c).allPids = s.allPids := by simp [die, hall]
  rw [this]
  apply sumL_le
  intro q _
  simp only [die_w', hw]
  unfold upd
  split
  · simp [wRank]
  · exact Nat.le_refl _

/-! ### where the continuations leave the manager -/

@[simp] theorem mBrk_mAddFuel (n : Nat) (s : St) : mBrk (mAddFuel n s).mpc = false := by
  induction n generalizing s with
  | zero => rfl
  | succ n ih => unfold mAddFuel; (repeat' split) <;> first | rfl | simp [*, setFut]
@[simp] theorem mBrk_mAdd (s : St) : mBrk (mAdd s).mpc = false := by unfold mAdd; simp
@[simp] theorem mBrk_mAddF (s : St) : mBrk (mAddF s).mpc = false := by
  rcases mAddF_mpc s with ⟨i, _, h⟩ | ⟨_, h, _⟩ | ⟨_, h, _⟩ <;> rw [h] <;> rfl
@[simp] theorem mBrk_mAfterItem (s : St) : mBrk (mAfterItem s).mpc = false := by
  unfold mAfterItem; split <;> first | rfl | simp
theorem mBrk_mProcess (s : St) (r : Option RMsg) : mBrk (mProcess s r).mpc = false := by
  unfold mProcess; (repeat' split) <;> first | rfl | simp
theorem mBrk_mAfterFlag (s : St) (hk : s.killFlag = false) : mBrk (mAfterFlag s).mpc = false := by
  unfold mAfterFlag; simp only [hk]; (repeat' split) <;> first | rfl | simp | (simp at *)
@[simp] theorem mBrk_mJoinClose (s : St) : mBrk (mJoinClose s).mpc = false := by
  unfold mJoinClose; simp only []; rfl
@[simp] theorem mBrk_mJoinLoop (s : St) (n sent cool : Nat) : mBrk (mJoinLoop s n sent cool).mpc = false := by
  unfold mJoinLoop; split <;> first | rfl | simp
@[simp] theorem mBrk_mRelExitNext (s : St) (ps : List Pid) (n : Nat) : mBrk (mRelExitNext s ps n).mpc = false := by
  unfold mRelExitNext; split <;> rfl
@[simp] theorem mBrk_mAliveNext (s : St) (ps : List Pid) (cnt n sent cool : Nat) :
    mBrk (mAliveNext s ps cnt n sent cool).mpc = false := by
  unfold mAliveNext; split <;> rfl
@[simp] theorem mBrk_mAfterPut (s : St) (k n sent cool : Nat) : mBrk (mAfterPut s k n sent cool).mpc = false := by
  unfold mAfterPut; split <;> first | rfl | simp
@[simp] theorem mBrk_mJoinProcs (s : St) : mBrk (mJoinProcs s).mpc = false := by
  unfold mJoinProcs; split <;> rfl

/-- a step of the manager from a program counter that a crash-free static pool can be at, other than `wait`, with no
    bad message in the result pipe: the broken path is not entered, the broken flag is not touched -/
theorem stepM_frameC (s s' : St) (v : Variant) (hmn : mNever s.mpc = false) (hnw : ∀ sn, s.mpc ≠ .wait sn)
    (hkf : s.killFlag = false) (hrb : ∀ r ∈ s.rqPipe, rBad r = false) (hs : stepM s v = some s') :
    s'.cfg = s.cfg ∧ s'.broken = s.broken ∧ mBrk s'.mpc = false := by
  unfold stepM at hs
  crack
  all_goals (first
    | (exfalso; simp_all [mNever]; done)
    | (exfalso; exact hnw _ ‹_›)
    | (exfalso; simp_all [rBad]; done)
    | skip)
  all_goals (refine ⟨?_, ?_, ?_⟩)
  all_goals (first
    | rfl
    | (simp; done)
    | (simp [mBrk_mProcess]; done)
    | (refine mBrk_mAfterFlag _ ?_; simp [hkf]; done)
    | (cases ‹AfterClear› with
       | broken b => exfalso; simp_all [mNever]
       | item r => first | rfl | (simp [mBrk_mProcess]; done))
    | skip)

theorem mNever_of_C (pc : MPc) (h1 : mNeverC pc = false) (h2 : mBrk pc = false) : mNever pc = false := by
  cases pc <;> first | rfl | (simp [mNeverC] at h1; done) | (simp [mBrk] at h2; done) | skip
  all_goals (rename_i k; cases k with
    | broken b => simp [mBrk] at h2
    | item r =>
      cases r with
      | none => rfl
      | some r => cases r <;> first | rfl | (simp [mNeverC] at h1; done))

/-! ### the broken path -/

/-- `kill_workers`: the next victim, or `join_executor_internals` -/
theorem mKillNext_le (X : St) :
    muM (mKillNext X) + extraC (mKillNext X) ≤
    muM { X with mpc := .done } + (waitR X.cfg.maxWorkers + 2 * X.procDict.length - 1) + brkTok X := by
  unfold mKillNext
  split
  · rename_i p hp
    have : X.procDict ≠ [] := by intro e; simp [e] at hp
    have : 0 < X.procDict.length := List.length_pos_iff.2 this
    simp [muM, mRank, mRankOf, extraC, mRankBrk, brkTok]
    omega
  · rename_i hp
    have he : X.procDict = [] := by simpa using hp
    simp [muM, mRank, mRankOf, extraC, mRankBrk, brkTok, mJoinStart, he]
    unfold waitR
    omega

attribute [local irreducible] mKillNext failAll die muM mu extraC

set_option maxHeartbeats 8000000 in
/-- `wait` (where the broken path is entered) and the broken path -/
theorem muC_stepM_brk (s s' : St) (v : Variant) (hbw : mBrk s.mpc = true ∨ ∃ sn, s.mpc = .wait sn)
    (hle : s.procDict.length ≤ s.cfg.maxWorkers) (hbn : ∀ b, s.mpc = .brkAcq b → s.broken = none)
    (hs : stepM s v = some s') : muC s' < muC s := by
  have hR := joinR_lt s.cfg.maxWorkers
  have hW : 30 ≤ waitR s.cfg.maxWorkers := by unfold waitR joinR tailR; omega
  unfold stepM at hs
  crack
  all_goals (first | (exfalso; simp_all [mBrk]; done) | skip)
  all_goals (first
    | (refine muC_M s _ (by first | rfl | (simp; done))
         (by first
           | exact wSum_die_le s _ _ _ rfl rfl
           | (refine Nat.le_of_eq (wSum_same s _ ?_ ?_) <;> first | rfl | (simp; done)))
         (by first | rfl | (simp; done)) (by first | rfl | (simp; done)) (by first | rfl | (simp; done))
         (by first | rfl | (simp; done)) ?_
       first
       | (simp [muM, mRank, mRankOf, extraC, mRankBrk, brkTok, *] <;> omega)
       | (have hw : s.wakeup ≠ 0 := by omega
          simp [muM, mRank, mRankOf, extraC, mRankBrk, brkTok, *] <;> omega)
       | (cases ‹AfterClear› with
          | item r => exfalso; simp_all [mBrk]
          | broken b => simp [muM, mRank, mRankOf, extraC, mRankBrk, brkTok, *] <;> omega)
       | (refine Nat.lt_of_le_of_lt (mKillNext_le _) ?_
          simp [muM, mRank, mRankOf, extraC, mRankBrk, brkTok, *] <;> omega))
    | skip)

/-- **a step of the manager thread**, from the crash-aware facts about the pre-state -/
theorem muC_stepM (s s' : St) (v : Variant) (hmn : mNeverC s.mpc = false) (hkf : s.killFlag = false)
    (hrb : ∀ r ∈ s.rqPipe, rBad r = false) (hle : s.procDict.length ≤ s.cfg.maxWorkers) (hj : joinC' s = true)
    (hts : mSlot s.mpc ≠ 0 → s.fpc = .none) (hbn : ∀ b, s.mpc = .brkAcq b → s.broken = none)
    (hs : stepM s v = some s') : muC s' < muC s := by
  by_cases hbw : mBrk s.mpc = true ∨ ∃ sn, s.mpc = .wait sn
  · exact muC_stepM_brk s s' v hbw hle hbn hs
  · have hb : mBrk s.mpc = false := by
      cases h : mBrk s.mpc with
      | false => rfl
      | true => exact absurd (.inl h) hbw
    have hnw : ∀ sn, s.mpc ≠ .wait sn := fun sn e => hbw (.inr ⟨sn, e⟩)
    have h := mu_stepM s s' v (mNever_of_C _ hmn hb) hle (joinOk_of_joinC' s hj) hts hs
    obtain ⟨f1, f2, f3⟩ := stepM_frameC s s' v (mNever_of_C _ hmn hb) hnw hkf hrb hs
    rw [muC_eq, muC_eq]
    unfold extraC brkTok
    rw [mRankBrk_off _ _ _ hb, mRankBrk_off _ _ _ f3, f1, f2]
    omega

end LokyModel.Exec
