import LokyModel.Lemmas.ExecOutcomeC
/-! `OutInvC`: steps of the manager thread.  Off the broken path the summary `MSum` of `ExecOutcomeM.lean` applies as it
    is (the manager only marks futures RUNNING or resolves them with a result message, never touches the broken flag and
    never arrives at `brkRel`); on the broken path — by hand — the thread clears the wake-up pipe, raises the broken flag
    under `shutdown_lock` (`brkAcq`) and only then (`brkRel`) fails every pending future with the error of the broken pool.
    The kill loop and the final phase are off the broken path: they leave the futures alone. -/
namespace LokyModel.Exec
open StaticP

/-- off the broken path a step of the manager leaves the broken flag alone and does not arrive at `brkRel` -/
structure MBM (s s' : St) : Prop where
  broken : s'.broken = s.broken
  nbrk : ∀ b, s'.mpc ≠ .brkRel b

theorem not_brkRel_of_inShutM {pc : MPc} (h : inShutM pc = false) (b : Broken) : pc ≠ .brkRel b := by
  intro e; rw [e] at h; cases h

set_option maxHeartbeats 16000000 in
theorem mBM_step (s s' : St) (v : Variant) (hb : brokenPath s.mpc = false) (hs : stepM s v = some s') : MBM s s' := by
  unfold stepM at hs
  crack_step
  all_goals (first
    | (exfalso; simp [‹s.mpc = _›, brokenPath] at hb; done)
    | skip)
  all_goals constructor
  all_goals (first
    | rfl
    | (simp; done)
    | (simp [spawn]; done)
    | (intro b hb'; cases hb'; done)
    | (intro b hb'; simp at hb'; done)
    | (intro b; exact not_brkRel_of_inShutM (by simp) b)
    | skip)

theorem outInvC_stepM_nb (s s' : St) (v : Variant) (h : OutInvC s) (hb : brokenPath s.mpc = false)
    (hs : stepM s v = some s') : OutInvC s' := by
  have m := mSum_step s s' v h.kf hb hs
  have bm := mBM_step s s' v hb hs
  refine out_keepC s s' h ⟨m.cfg, m.taskOf, m.killFlag, m.uscript, m.ucur, m.upc⟩ m.cancelOk (by rw [bm.broken]; exact id)
    (fun b hb' => absurd hb' (bm.nbrk b)) (futMC_of_futM _ m.fut) ?_ ?_ ?_ ?_
  · rw [m.cqPipe]; exact h.pipe
  · intro q
    rcases m.w q with e | e | e <;> rw [e]
    · exact h.w q
    · rfl
    · rfl
  · rcases m.fpc with e | e <;> rw [e]
    · exact h.f
    · rfl
  · rw [m.execW]; exact h.ex

/-- `terminate_broken` fails the futures: each one is left alone (resolved, cancelled, or not in the table) or gets the
    error of the broken pool -/
theorem futMC_failAll (X : St) (ws : List Wid) (f : Fut) (hp : f.poolErr = true) :
    FutMC true X.futs (failAll X ws f).futs := by
  intro i
  have hf : f ≠ .cancelled := by intro e; rw [e] at hp; cases hp
  rw [failAll_spec _ _ _ hf]
  split
  · right; right; right; right
    exact ⟨hp, rfl⟩
  · left; rfl

set_option maxHeartbeats 4000000 in
theorem outInvC_stepM_brk (s s' : St) (v : Variant) (h : OutInvC s) (hb : brokenPath s.mpc = true)
    (hs : stepM s v = some s') : OutInvC s' := by
  have hp := h.pipe; have hw := h.w; have hf := h.f; have hx := h.ex
  unfold stepM at hs
  crack_step
  all_goals (first
    | (exfalso; simp [‹s.mpc = _›, brokenPath] at hb; done)
    | skip)
  -- `clrPoll` / `clrRecv` towards the broken branch; `brkAcq`: the flag is raised
  all_goals (first
    | (refine out_keepC s _ h ?_ ?_ ?_ ?_ ?_ ?_ ?_ ?_ ?_
       · simp
       · simp
       · simp
       · intro b hb'; first | (cases hb'; done) | (simp at hb'; done) | (simp; done)
       · exact futMC_of_futM _ (futM_refl _)
       · exact hp
       · exact hw
       · exact hf
       · exact hx
       done)
    | skip)
  -- `brkRel`: every pending future fails with the error of the broken pool
  all_goals (
    have hbs : s.broken.isSome = true := h.brk _ ‹s.mpc = _›
    refine out_keepC s _ h ?_ ?_ ?_ ?_ ?_ ?_ ?_ ?_ ?_
    · simp
    · simp
    · simp
    · intro b' hb'; exact absurd hb' (not_brkRel_of_inShutM (by simp) b')
    · simp only [mKillNext_broken, failAll_broken, mKillNext_futs, hbs]
      exact futMC_failAll _ _ _ rfl
    · simpa using hp
    · simpa using hw
    · simpa using hf
    · simpa using hx)

theorem outInvC_stepM (s s' : St) (v : Variant) (h : OutInvC s) (hs : stepM s v = some s') : OutInvC s' := by
  cases hb : brokenPath s.mpc with
  | false => exact outInvC_stepM_nb s s' v h hb hs
  | true => exact outInvC_stepM_brk s s' v h hb hs

end LokyModel.Exec
