import LokyModel.Lemmas.ExecShutStep
namespace LokyModel.Exec

set_option maxHeartbeats 8000000 in
theorem shutInv_stepU (s s' : St) (k : Nat) (v : Variant) (h : ShutInv s) (hs : stepU s k v = some s') : ShutInv s' := by
  obtain ⟨hv, hu, hm, hf, ha, hfl⟩ := h
  have hle : s.shut ≤ 1 := by rw [hv]; split <;> omega
  have huk := hu k
  have hak := ha k
  unfold stepU at hs
  crack_step
  all_goals (refine ⟨?_, ?_, ?_, ?_, ?_, ?_⟩)
  all_goals (first
    | (simp_all; done)
    | (simp_all [inShutM, inShutU, inShutF, accU]; done)
    | (simp_all [inShutU]; omega)
    | (intro hk; have h1 := hm hk; simp_all [inShutU]; done)
    | (intro hk; have h1 := hf hk; simp_all [inShutU]; done)
    | (intro hk; have h1 := hfl hk; simp_all [inShutU, accU]; done)
    | (intro j hj
       simp only [inShutU_uNext, inShutU_uRelease, inShutU_uSpawnLoop, inShutU_uDispatch, setU_upc, inShutU_upd] at hj
       have h2 := hu j
       split at hj <;> simp_all [inShutU]; done)
    | (intro j hj
       simp only [accU_uNext, accU_uRelease, accU_uDispatch, setU_upc, accU_upd] at hj
       have h2 := ha j
       split at hj <;> simp_all [accU, inShutU]; done)
    | (intro j hj
       by_cases hjk : j = k
       · subst hjk; simp_all [accU, inShutU]
       · rw [accU_uSpawnLoop_other _ _ _ hjk] at hj
         have h2 := ha j; simp_all [upd_apply]; done)
    | (intro hk; simp at hk; have h1 := hm hk; simp_all; done)
    | (intro hk; simp at hk; have h1 := hf hk; simp_all; done)
    | (intro hk; simp at hk; have h1 := hfl hk; simp_all; done)
    | (intro hk; simp [mFlagged] at hk; done)
    | (intro j hj
       simp only [setU_upc, accU_upd] at hj
       split at hj
       · simp [accU] at hj
       · have h1 := hu j (accU_inShutU _ hj); simp_all; done)
    | skip)

end LokyModel.Exec
