import LokyModel.Lemmas.ExecLiveMeasureC
import LokyModel.Lemmas.ExecLiveKAll
import LokyModel.ExecLiveMeasureKDef
/-!
# Every step of a static pool with forced shutdowns makes the termination measure `muK` strictly smaller

`muK = muC + killTok` (`LokyModel/ExecLiveMeasureKDef.lean`).  Along a lock-free crash run of a `staticPoolK`
configuration (`Lemmas/ExecLiveKAll.lean`: `phaseK_reachableLF`):

* **phase 1** (the manager has not seen the kill flag): `muC` does not read anything that `St.unkill` erases
  (`muC_unkill`), the un-killed state is a state of a lock-free crash run of the static pool `cfg.unkill`, and the step
  is a step of that run (`step_unkill_some`): `muC_decreasesLF'`.  `killTok` does not grow (`killTok_step_le`).
* **the step that sees the flag** (`flagRel`, kill flag set): the kill loop is entered; `killTok` pays (`muK_sees`).
* **phase 2** (`LateInv`): steps of workers, the feeder and user threads by the step lemmas of `muC`
  (`muC_stepW/F/U`), whose hypotheses `LateInv` provides (`wnever`; nobody is inside `submit`'s spawn section:
  `LateInv.noAcc`); the kill loop by `muC_stepM_brk`; `join_executor_internals` on an empty process table by
  `mu_stepM_fin` below (the part of `mu_stepM` that does not need `joinOk`).
-/
namespace LokyModel.Exec
open StaticP StaticCP
set_option linter.unusedSimpArgs false
set_option linter.unusedVariables false

/-! ### `muC` does not see `kill_workers` -/

theorem uRank_unkill (pc : UPc) : uRank pc.unkill = uRank pc := by cases pc <;> rfl

theorem uSum_unkill (s : St) : uSum s.unkill = uSum s := by
  unfold uSum
  rw [unkill_scripts_length]
  apply sumL_congr
  intro k _
  show uRank (s.upc k).unkill + 51 * ((s.uscript k).map UOp.unkill).length = _
  rw [uRank_unkill, List.length_map]
  rfl

theorem mu_unkill (s : St) : mu s.unkill = mu s := by
  unfold mu
  rw [uSum_unkill]
  rfl

theorem muC_unkill (s : St) : muC s.unkill = muC s := by
  unfold muC
  rw [mu_unkill]
  rfl

/-! ### the token never grows -/

theorem killTok_same (s s' : St) (hcfg : s'.cfg = s.cfg) (hm : s'.mpc = s.mpc) : killTok s' = killTok s := by
  unfold killTok
  rw [hcfg, hm]

theorem killTok_le (s : St) : killTok s ≤ 2 * s.cfg.maxWorkers := by
  unfold killTok; split <;> omega

theorem killTok_late (s : St) (h : mLateK s.mpc = true) : killTok s = 0 := by
  unfold killTok; simp [h]

theorem killTok_early (s : St) (h : mLateK s.mpc = false) : killTok s = 2 * s.cfg.maxWorkers := by
  unfold killTok; simp [h]

@[simp] theorem mLateK_mKillNext (s : St) : mLateK (mKillNext s).mpc = true := by
  unfold mKillNext; split <;> rfl
@[simp] theorem mLateK_mJoinClose (s : St) : mLateK (mJoinClose s).mpc = true := by
  unfold mJoinClose; simp only []; rfl
@[simp] theorem mLateK_mJoinLoop (s : St) (n sent cool : Nat) : mLateK (mJoinLoop s n sent cool).mpc = true := by
  unfold mJoinLoop; split <;> first | rfl | simp
@[simp] theorem mLateK_mRelExitNext (s : St) (ps : List Pid) (n : Nat) : mLateK (mRelExitNext s ps n).mpc = true := by
  unfold mRelExitNext; split <;> rfl
@[simp] theorem mLateK_mAliveNext (s : St) (ps : List Pid) (cnt n sent cool : Nat) :
    mLateK (mAliveNext s ps cnt n sent cool).mpc = true := by
  unfold mAliveNext; split <;> rfl
@[simp] theorem mLateK_mAfterPut (s : St) (k n sent cool : Nat) : mLateK (mAfterPut s k n sent cool).mpc = true := by
  unfold mAfterPut; split <;> first | rfl | simp
@[simp] theorem mLateK_mJoinProcs (s : St) : mLateK (mJoinProcs s).mpc = true := by
  unfold mJoinProcs; split <;> rfl

set_option maxHeartbeats 8000000 in
/-- the manager does not come back from the kill loop / `join_executor_internals` -/
theorem mLateK_stepM (s s' : St) (v : Variant) (hl : mLateK s.mpc = true) (hs : stepM s v = some s') :
    mLateK s'.mpc = true := by
  unfold stepM at hs
  crack
  all_goals (first
    | (exfalso; simp_all [mLateK, mFinal]; done)
    | rfl
    | (simp; done)
    | (split <;> first | rfl | (simp; done)))

/-- no step makes `killTok` larger (`SlotX`: a `submit` that starts the manager thread has found that there is none) -/
theorem killTok_step_le {s s' : St} {a : Actor} {v : Variant} (hx : SlotX s) (hs : step s a v = some s') :
    killTok s' ≤ killTok s := by
  have hcfg := cfg_step hs
  unfold step at hs
  cases a with
  | U k =>
    simp only [] at hs
    split at hs
    · rename_i hk
      obtain ⟨_, _, f3, _⟩ := stepU_frameC s s' k v hs
      rcases f3 with e | ⟨e0, e1⟩
      · exact Nat.le_of_eq (killTok_same s s' hcfg e)
      · have hn := hx.sub k hk e0
        rw [killTok_early s (by rw [hn]; rfl)]
        have := killTok_le s'
        rw [hcfg] at this
        exact this
    · cases hs
  | M =>
    cases hl : mLateK s.mpc with
    | true => rw [killTok_late s' (mLateK_stepM s s' v hl hs)]; exact Nat.zero_le _
    | false =>
      rw [killTok_early s hl]
      have := killTok_le s'
      rw [hcfg] at this
      exact this
  | F =>
    obtain ⟨_, _, f3, _⟩ := stepF_frameC s s' v hs
    exact Nat.le_of_eq (killTok_same s s' hcfg f3)
  | W p =>
    simp only [] at hs
    split at hs
    · obtain ⟨_, _, f3, _⟩ := stepW_frameC s s' p v hs
      exact Nat.le_of_eq (killTok_same s s' hcfg f3)
    · cases hs

/-! ### phase 1 -/

/-- a step of phase 1 other than the manager's discovery of the kill flag: a step of the simulating run of the
    un-killed static pool -/
theorem muK_step_phase1 {cfg : Cfg} {s s' : St} {a : Actor} {v : Variant} (hc : cfg.staticPoolK = true)
    (h1 : ReachableLF cfg.unkill s.unkill) (hx : SlotX s) (hk : seesKill s a = false) (hs : step s a v = some s') :
    muK s' < muK s := by
  have h := muC_decreasesLF' h1 (staticPool_unkill cfg hc) (step_unkill_some hs hk)
  rw [muC_unkill, muC_unkill] at h
  have := killTok_step_le hx hs
  unfold muK
  omega

/-! ### the step that sees the kill flag -/

theorem sees_step (s s' : St) (v : Variant) (hm : s.mpc = .flagRel) (hk : s.killFlag = true)
    (hs : stepM s v = some s') :
    s' = mKillNext (failAll { s with shut := s.shut + 1, oShut := none, pending := [] } s.pending .excShutdown) := by
  unfold stepM at hs
  rw [hm] at hs
  cases v <;> simp at hs
  rw [← hs]
  unfold mAfterFlag
  exact if_pos hk

attribute [local irreducible] mKillNext failAll die muM mu extraC

theorem muK_sees_aux (s X : St) (hcfg : X.cfg = s.cfg) (hpd : X.procDict = s.procDict) (hb : X.broken = s.broken)
    (hmu : mu (mKillNext X) + muM s ≤ mu s + muM (mKillNext X))
    (hM : muM { X with mpc := .done } + (waitR s.cfg.maxWorkers + 1) = muM s) (hm : s.mpc = .flagRel)
    (hle : s.procDict.length ≤ s.cfg.maxWorkers) : muK (mKillNext X) < muK s := by
  have h2 := mKillNext_le X
  have h3 : killTok (mKillNext X) = 0 := killTok_late _ (by simp)
  have h4 : killTok s = 2 * s.cfg.maxWorkers := killTok_early s (by rw [hm]; rfl)
  have h6 : brkTok X = brkTok s := by unfold brkTok; rw [hb, hcfg]
  have h7 : extraC s = brkTok s := by
    unfold extraC
    rw [hm]
    simp [mRankBrk]
  have hW : 30 ≤ waitR s.cfg.maxWorkers := by unfold waitR joinR tailR; omega
  generalize muM { X with mpc := .done } = D at h2 hM
  rw [hcfg, hpd, h6] at h2
  unfold muK
  rw [muC_eq, muC_eq, h3, h4, h7]
  omega

theorem muK_sees (s s' : St) (v : Variant) (hm : s.mpc = .flagRel) (hk : s.killFlag = true)
    (hle : s.procDict.length ≤ s.cfg.maxWorkers) (hs : stepM s v = some s') : muK s' < muK s := by
  have e := sees_step s s' v hm hk hs
  subst e
  refine muK_sees_aux s _ (by simp) (by simp) (by simp) ?_ ?_ hm hle
  · exact mu_M_le s _ (by simp) (Nat.le_of_eq (wSum_same s _ (by simp) (by simp))) (by simp) (by simp) (by simp) (by simp)
  · simp [muM, mRank, mRankOf, hm]
    omega

/-! ### phase 2: `join_executor_internals` on an empty process table -/

attribute [local irreducible] mAdd mAddF mAfterItem mProcess mAfterFlag mJoinLoop mRelExitNext mAliveNext mJoinClose
  mJoinProcs mAfterPut mSpawnLoop mRespawnCheck mDropRef mAfterAddF mJoinStart spawn setFut

set_option maxHeartbeats 8000000 in
theorem mu_stepM_fin (s s' : St) (v : Variant) (hpc : mK2 s.mpc = true) (hnl : mKillLoop s.mpc = false)
    (hle : s.procDict.length ≤ s.cfg.maxWorkers) (hs : stepM s v = some s') :
    mu s' < mu s ∧ s'.broken = s.broken ∧ mBrk s'.mpc = false := by
  have hR := joinR_lt s.cfg.maxWorkers
  have hW : 30 ≤ waitR s.cfg.maxWorkers := by unfold waitR joinR tailR; omega
  have hT : tailR s.cfg.maxWorkers = s.cfg.maxWorkers + 26 := rfl
  unfold stepM at hs
  crack
  all_goals (first | (exfalso; simp_all [mK2, mKillLoop]; done) | skip)
  all_goals (refine ⟨?_, ?_, ?_⟩)
  all_goals (first | rfl | (simp; done) | skip)
  all_goals (refine mu_M s _ ?_ ?_ ?_ ?_ ?_ ?_ ?_)
  all_goals (first
    | (simp; done)
    | (simp [muM, mRank, mRankOf, *]; done)
    | (simp [muM, mRank, mRankOf, *]; omega)
    | (refine Nat.lt_of_le_of_lt (mJoinLoop_le _ _ _ _) ?_; simp [muM, mRank, mRankOf, *] <;> omega)
    | (refine Nat.lt_of_lt_of_le (Nat.lt_of_succ_le (mJoinProcs_le _)) ?_
       simp [muM, mRank, mRankOf, *] <;> omega)
    | (refine Nat.lt_of_le_of_lt (mRelExitNext_le _ _ _) ?_
       simp [muM, mRank, mRankOf, *]
       have := psi_mono s.cfg.maxWorkers _ _ hle
       unfold joinR
       omega)
    | skip)

/-! ### phase 2: every step -/

theorem mK2_lateK {pc : MPc} (h : mK2 pc = true) : mLateK pc = true := by
  cases pc <;> simp_all [mK2, mLateK, mFinal]
theorem mKillLoop_brk {pc : MPc} (h : mKillLoop pc = true) : mBrk pc = true := by
  cases pc <;> simp_all [mKillLoop, mBrk]
theorem mK2_fin_brk {pc : MPc} (h : mK2 pc = true) (hn : mKillLoop pc = false) : mBrk pc = false := by
  cases pc <;> simp_all [mK2, mKillLoop, mBrk]

/-- **a step of phase 2** (the manager has seen the kill flag: `LateInv`), of any actor, crash steps of workers —
    wherever they are — included -/
theorem muK_step_late {s s' : St} {a : Actor} {v : Variant} (hs : step s a v = some s') (hp : PidsInv s)
    (hsp : SpawnInv s) (hx : SlotX s) (hsh : ShutInv s) (h : LateInv s) : muK s' < muK s := by
  have hl : mLateK s.mpc = true := mK2_lateK h.pc
  have hcfg := cfg_step hs
  have hk : killTok s = 0 := killTok_late s hl
  have hk' : killTok s' = 0 := by
    have := killTok_step_le hx hs
    omega
  suffices hmain : muC s' < muC s by unfold muK; omega
  unfold step at hs
  cases a with
  | U k =>
    simp only [] at hs
    split at hs
    · rename_i hk0
      have hna := h.noAcc hsh k
      refine muC_stepU s s' k v hk0 hp ?_ ?_ ?_ hs <;>
        (intro hpc; rw [hpc] at hna; simp [accU] at hna)
    · cases hs
  | M =>
    cases hkl : mKillLoop s.mpc with
    | true =>
      refine muC_stepM_brk s s' v (.inl (mKillLoop_brk hkl)) hsp.le ?_ hs
      intro b e
      rw [e] at hkl; cases hkl
    | false =>
      obtain ⟨h1, h2, h3⟩ := mu_stepM_fin s s' v h.pc hkl hsp.le hs
      rw [muC_eq, muC_eq]
      unfold extraC brkTok
      rw [mRankBrk_off _ _ _ (mK2_fin_brk h.pc hkl), mRankBrk_off _ _ _ h3, hcfg, h2]
      omega
  | F => exact muC_stepF s s' v hs
  | W p =>
    simp only [] at hs
    split at hs
    · rename_i hm
      exact muC_stepW s s' p v hp hm (h.wnever p hm) hs
    · cases hs

/-! ### every step of a lock-free crash run -/

/-- **`muK` decreases**: every step — ordinary or crash — from a state of a lock-free crash run of a static pool with
    forced shutdowns -/
theorem muK_decreasesLF' {cfg : Cfg} {s s' : St} {a : Actor} {v : Variant} (hr : ReachableLF cfg s)
    (hc : cfg.staticPoolK = true) (hs : step s a v = some s') : muK s' < muK s := by
  have h := hr.reachable
  have hx := slotX_reachable h
  rcases phaseK_reachableLF hc hr with h1 | h2
  · cases hk : seesKill s a with
    | false => exact muK_step_phase1 hc h1 hx hk hs
    | true =>
      simp only [seesKill, Bool.and_eq_true, beq_iff_eq] at hk
      obtain ⟨⟨ha, hm⟩, hkf⟩ := hk
      subst ha
      exact muK_sees s s' v hm hkf (spawnInv_reachable h).le hs
  · exact muK_step_late hs (pidsInv_reachable h) (spawnInv_reachable h) hx (shutInv_reachable h) h2

/-- … in the form of `muC_decreasesLF` -/
theorem muK_decreasesLF {cfg : Cfg} {s s' : St} {a : Actor} {v : Variant} (hr : ReachableLF cfg s)
    (hc : cfg.staticPoolK = true) (hs : step s a v = some s') (_hlf : StepLF s a v) : muK s' < muK s :=
  muK_decreasesLF' hr hc hs

end LokyModel.Exec
