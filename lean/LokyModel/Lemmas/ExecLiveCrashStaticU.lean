import LokyModel.Lemmas.ExecLiveCrashStaticBase
/-! `staticSmallC'`: steps of a user thread. -/
namespace LokyModel.Exec.StaticCP
open StaticP
set_option linter.unusedSimpArgs false

/-- everything the invariant needs to know about a step of user thread `k` of a static pool -/
structure USumC (s s' : St) (k : Nat) : Prop where
  broken : s'.broken = s.broken
  cqBuf : s'.cqBuf = s.cqBuf
  cqPipe : s'.cqPipe = s.cqPipe
  rqPipe : s'.rqPipe = s.rqPipe
  fpc : s'.fpc = s.fpc
  wakeupClosed : s'.wakeupClosed = s.wakeupClosed
  cfg : s'.cfg = s.cfg
  wk : s.wakeup ≤ s'.wakeup
  oth : ∀ j, j ≠ k → s'.upc j = s.upc j ∧ s'.ucur j = s.ucur j ∧ s'.uscript j = s.uscript j
  kf : s'.killFlag = false
  mpc : s'.mpc = s.mpc ∨ (s.mpc = .none ∧ s'.mpc = .start)
  tr : s'.threadReg = true → s'.mpc ≠ .none
  sp : (s'.allPids = s.allPids ∧ s'.procDict = s.procDict ∧ s'.w = s.w) ∨
       (s'.allPids = s.allPids ++ [s.nextPid] ∧ s'.procDict = s.procDict ++ [s.nextPid] ∧
        s'.w = upd s.w s.nextPid .start)
  api : s'.upc k = .api → (s'.ucur k).isSome = true
  pe : peLike (s'.upc k) = true → s'.mpc ≠ .none
  nks : ∀ op ∈ s'.uscript k, op.isKill = false
  nkc : ucurOk (s'.ucur k) = true
  nkp : isSdKill (s'.upc k) = false
  fu : s'.mpc = .none → (s'.futs = [] ∨ subEarly (s'.upc k) = true) ∨ (s.futs ≠ [] ∧ subEarly (s.upc k) = false)

set_option maxHeartbeats 16000000 in
theorem uDispatch_sumC (s : St) (k : Nat) (op : UOp) (h : CI s) (hk : k < s.cfg.scripts.length)
    (hpc : s.upc k = .api) (hcur : s.ucur k = some op) : USumC s (uDispatch s k op) k := by
  have hkf := h.kf
  have hnks := h.nks k hk
  have hnkc := h.nkc k hk
  have hnkp := h.nkp k hk
  have hpe := h.pe k hk
  have htr := h.tr
  have hop : op.isKill = false := by rw [hcur] at hnkc; simpa [ucurOk] using hnkc
  unfold uDispatch
  repeat' split
  ubattery

set_option maxHeartbeats 16000000 in
theorem uSumC_step (s s' : St) (k : Nat) (v : Variant) (h : CI s) (hts : TStartInv s) (hk : k < s.cfg.scripts.length)
    (hs : stepU s k v = some s') : USumC s s' k := by
  have hkf := h.kf
  have hnks := h.nks k hk
  have hnkc := h.nkc k hk
  have hnkp := h.nkp k hk
  have hpe := h.pe k hk
  have htr := h.tr
  have htsn := hts k
  unfold stepU at hs
  crack
  all_goals (first | (exact uDispatch_sumC s k _ h hk ‹_› ‹_›) | skip)
  ubattery

theorem ci_stepU (s s' : St) (k : Nat) (v : Variant) (h : CI s) (hp : PidsInv s) (hts : TStartInv s)
    (hk : k < s.cfg.scripts.length) (hs : stepU s k v = some s') : CI s' := by
  have U := uSumC_step s s' k v h hts hk hs
  have hmpc : s'.mpc = s.mpc ∨ (s.mpc = .none ∧ s'.mpc = .start) := U.mpc
  have hnone : s'.mpc = .none → s.mpc = .none := by
    intro hm
    rcases hmpc with e | ⟨_, e⟩
    · rw [← e]; exact hm
    · rw [e] at hm; cases hm
  have hfin : mFinal s'.mpc = false → mFinal s.mpc = false := by
    intro hf
    rcases hmpc with e | ⟨e, _⟩
    · rw [← e]; exact hf
    · rw [e]; rfl
  have hsub : ∀ p ∈ s.allPids, p ∈ s'.allPids := by
    intro p hp
    rcases U.sp with ⟨e, _, _⟩ | ⟨e, _, _⟩
    · rw [e]; exact hp
    · rw [e]; exact List.mem_append.2 (.inl hp)
  have hdd : ∀ q ∈ s.allPids, s.w q = .dead → s'.w q = .dead := by
    intro q hq hd
    rcases U.sp with ⟨_, _, e⟩ | ⟨_, _, e⟩
    · rw [e]; exact hd
    · have : q ≠ s.nextPid := Nat.ne_of_lt (hp.lt q hq)
      rw [e, upd_other' _ _ _ _ this]; exact hd
  have had : anyDead s = true → anyDead s' = true := anyDead_mono s s' hsub hdd
  have hall : ∀ (P : WPc → Bool), P .start = false → (∀ q ∈ s.allPids, P (s.w q) = false) →
      ∀ q ∈ s'.allPids, P (s'.w q) = false := by
    intro P h0 h1 q hq
    rcases U.sp with ⟨e1, _, e3⟩ | ⟨e1, _, e3⟩
    · rw [e3]; rw [e1] at hq; exact h1 q hq
    · rw [e3, upd_apply']
      split
      · exact h0
      · rename_i hne
        rw [e1] at hq
        rcases List.mem_append.1 hq with hq | hq
        · exact h1 q hq
        · exact absurd (by simpa using hq) hne
  refine { mn := ?mn, kf := U.kf, wn := hall _ rfl h.wn, bu := ?bu, bd := ?bd, md := ?md, pd := ?pd, kj := ?kj, rc := ?rc, cr := ?cr,
           je := ?je, api := ?api, fb := ?fb, wc := ?wc, pe := ?pe, snap := ?snap, wb := hall _ rfl h.wb, rb := ?rb, cp := ?cp,
           fc := ?fc, cl := ?cl, late := ?late, tr := U.tr, nks := ?nks, nkc := ?nkc, nkp := ?nkp, fu := ?fu, ko := ?ko, pre := ?pre }
  all_goals try simp only [U.broken, U.cqBuf, U.cqPipe, U.rqPipe, U.fpc, U.wakeupClosed, U.cfg]
  case mn =>
    rcases hmpc with e | ⟨_, e⟩
    · rw [e]; exact h.mn
    · rw [e]; rfl
  case bu => exact h.bu
  case bd => intro hb; exact had (h.bd hb)
  case md =>
    intro hb
    rcases hmpc with e | ⟨_, e⟩
    · rw [e] at hb; exact had (h.md hb)
    · rw [e] at hb; cases hb
  case pd =>
    intro hl
    have hl0 : mLateK s.mpc = false := by
      rcases hmpc with e | ⟨e, _⟩
      · rw [← e]; exact hl
      · rw [e]; rfl
    have := h.pd hl0
    rcases U.sp with ⟨e1, e2, _⟩ | ⟨e1, e2, _⟩
    · rw [e1, e2]; exact this
    · rw [e1, e2, this]
  case kj =>
    intro p hm
    rcases hmpc with e | ⟨_, e⟩
    · rw [e] at hm
      exact hdd p (h.ko p (by rw [hm]; rfl)) (h.kj p hm)
    · rw [e] at hm; cases hm
  case rc =>
    intro hm
    rcases hmpc with e | ⟨_, e⟩
    · rw [e] at hm; exact h.rc hm
    · rw [e] at hm; cases hm
  case cr =>
    intro hm
    rcases hmpc with e | ⟨_, e⟩
    · rw [e] at hm; have := h.cr hm; have := U.wk; omega
    · rw [e] at hm; cases hm
  case je =>
    rcases hmpc with e | ⟨_, e⟩
    · rw [e]; exact h.je
    · rw [e]; rfl
  case api =>
    intro j hj hm
    by_cases e : j = k
    · subst e; exact U.api hm
    · rw [(U.oth j e).1] at hm; rw [(U.oth j e).2.1]; exact h.api j hj hm
  case fb => exact h.fb
  case wc =>
    intro hw
    have := h.wc hw
    rcases hmpc with e | ⟨e, _⟩
    · rw [e]; exact this
    · rw [e] at this; cases this
  case pe =>
    intro j hj hm
    by_cases e : j = k
    · subst e; exact U.pe hm
    · rw [(U.oth j e).1] at hm
      have := h.pe j hj hm
      intro hm'
      exact this (hnone hm')
  case snap =>
    intro p hp
    rcases hmpc with e | ⟨_, e⟩
    · rw [e] at hp; exact hsub p (h.snap p hp)
    · rw [e] at hp; simp [snapOf] at hp
  case rb => exact h.rb
  case cp => exact h.cp
  case fc => exact h.fc
  case cl => exact h.cl
  case late =>
    intro hm
    apply h.late
    rcases hmpc with e | ⟨e, _⟩
    · rw [← e]; exact hm
    · rw [e]; rfl
  case nks =>
    intro j hj
    by_cases e : j = k
    · subst e; exact U.nks
    · rw [(U.oth j e).2.2]; exact h.nks j hj
  case nkc =>
    intro j hj
    by_cases e : j = k
    · subst e; exact U.nkc
    · rw [(U.oth j e).2.1]; exact h.nkc j hj
  case nkp =>
    intro j hj
    by_cases e : j = k
    · subst e; exact U.nkp
    · rw [(U.oth j e).1]; exact h.nkp j hj
  case fu =>
    intro hm
    have hm0 := hnone hm
    rcases U.fu hm with (e | e) | ⟨e1, e2⟩
    · left; exact e
    · right; exact ⟨k, hk, e⟩
    · rcases h.fu hm0 with e | ⟨j, hj, e⟩
      · exact absurd e e1
      · right
        have hjk : j ≠ k := by intro e'; subst e'; rw [e2] at e; cases e
        exact ⟨j, hj, by rw [(U.oth j hjk).1]; exact e⟩
  case ko =>
    intro p hm
    rcases hmpc with e | ⟨_, e⟩
    · rw [e] at hm; exact hsub p (h.ko p hm)
    · rw [e] at hm; cases hm
  case pre =>
    intro hf'
    have P := h.pre (hfin hf')
    exact { ns := hall _ rfl P.ns, nb := by rw [U.cqBuf]; exact P.nb, np := by rw [U.cqPipe]; exact P.np,
            nr := by rw [U.rqPipe]; exact P.nr, nf := by rw [U.fpc]; exact P.nf }

end LokyModel.Exec.StaticCP
