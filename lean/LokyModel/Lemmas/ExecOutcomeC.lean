import LokyModel.ExecOutcomeCDef
import LokyModel.Lemmas.ExecOutcomeAll
/-!
`OutInvC`: the crash-aware form of `OutInv` (`Lemmas/ExecOutcome.lean`).  `OutInv` holds as long as the manager is never on
its broken path; `OutInvC` holds in EVERY reachable state of a benign configuration without forced shutdown — whatever
dies, wherever: the clause about futures allows the two errors of the broken pool on a future exactly when the pool is
flagged broken (the manager fails the pending futures, `brkRel`, only after it has raised the flag, `brkAcq`); the clauses
about call items, workers, the feeder, the execution log and the kill flag are those of `OutInv` — they do not depend on
whether the pool is broken.

This file: the invariant as a proposition, the initial state, its relation to `OutInv`, the lemmas for moving it along a
step.
-/
namespace LokyModel.Exec
open StaticP

structure OutInvC (s : St) : Prop where
  fut : ∀ i, futArgOkC s.cfg s.taskOf s.cancelOk s.broken.isSome i (futOf s i) = true
  brk : ∀ b, s.mpc = .brkRel b → s.broken.isSome = true
  kf : s.killFlag = false
  nks : ∀ k, ∀ op ∈ s.uscript k, op.isKill = false
  nkc : ∀ k, ucurOk (s.ucur k) = true
  nkp : ∀ k, isSdKill (s.upc k) = false
  pipe : ∀ m ∈ s.cqPipe, cArgOk s.cfg m = true
  w : ∀ p, wArgOk s.cfg (s.w p) = true
  f : fArgOk s.cfg s.taskOf s.fpc = true
  ex : ∀ i ∈ s.execW, i < s.taskOf.length ∧ argOfW s.cfg s.taskOf i = .ok

/-! ### `futArgOkC` and `futArgOk` -/

theorem futArgOkC_of (cfg : Cfg) (T : List Tid) (c : List Wid) (b : Bool) (i : Wid) (f : Fut)
    (h : futArgOk cfg T c i f = true) : futArgOkC cfg T c b i f = true := by
  cases f <;> first | exact h | (simp [futArgOk] at h)

theorem futArgOkC_false (cfg : Cfg) (T : List Tid) (c : List Wid) (i : Wid) (f : Fut) :
    futArgOkC cfg T c false i f = futArgOk cfg T c i f := by
  cases f <;> rfl

theorem futArgOkC_brk (cfg : Cfg) (T : List Tid) (c : List Wid) (b b' : Bool) (i : Wid) (f : Fut) (hb : b = true → b' = true)
    (h : futArgOkC cfg T c b i f = true) : futArgOkC cfg T c b' i f = true := by
  cases f <;> first | exact h | exact hb h

theorem futArgOkC_poolErr (cfg : Cfg) (T : List Tid) (c : List Wid) (i : Wid) (f : Fut) (hf : f.poolErr = true) :
    futArgOkC cfg T c true i f = true := by
  cases f <;> first | rfl | cases hf

theorem futArgOkC_same (cfg : Cfg) (T : List Tid) (c : List Wid) (b : Bool) (i : Wid) (f : Fut)
    (h : f = .running ∨ f = .value ∨ f = .excWorker) : futArgOkC cfg T c b i f = true := by
  rcases h with rfl | rfl | rfl <;> rfl

theorem futArgOkC_cancel_mono (cfg : Cfg) (T : List Tid) (c : List Wid) (b : Bool) (w i : Wid) (f : Fut)
    (h : futArgOkC cfg T c b i f = true) : futArgOkC cfg T (c ++ [w]) b i f = true := by
  cases f <;> simp_all [futArgOkC, futArgOk]

theorem futArgOkC_T_mono (cfg : Cfg) (T : List Tid) (t : Tid) (c : List Wid) (b : Bool) (i : Wid) (f : Fut)
    (hi : i < T.length) (h : futArgOkC cfg T c b i f = true) : futArgOkC cfg (T ++ [t]) c b i f = true := by
  cases f <;> simp_all [futArgOkC, futArgOk, argOfW_append]

/-! ### `OutInvC` and `OutInv` -/

theorem outInvC_of_outInv (s : St) (h : OutInv s) (hb : ∀ b, s.mpc = .brkRel b → s.broken.isSome = true) : OutInvC s :=
  ⟨fun i => futArgOkC_of _ _ _ _ _ _ (h.fut i), hb, h.kf, h.nks, h.nkc, h.nkp, h.pipe, h.w, h.f, h.ex⟩

/-- while the pool is not flagged broken the crash-aware invariant is the crash-free one -/
theorem outInv_of_outInvC (s : St) (h : OutInvC s) (hb : s.broken = none) : OutInv s := by
  refine ⟨fun i => ?_, h.kf, h.nks, h.nkc, h.nkp, h.pipe, h.w, h.f, h.ex⟩
  have := h.fut i
  rw [hb] at this
  rw [← futArgOkC_false]; exact this

theorem outInvC_init (cfg : Cfg) (hk : cfg.noKill = true) : OutInvC (init cfg) :=
  outInvC_of_outInv _ (outInv_init cfg hk) (by intro b hb; cases hb)

/-! ### the executable form follows -/

theorem outOkCB_of_inv (s : St) (h : OutInvC s) : outOkCB s = true := by
  unfold outOkCB
  simp only [Bool.and_eq_true, List.all_eq_true, List.mem_range, decide_eq_true_eq, beq_iff_eq,
    Bool.or_eq_true, Bool.not_eq_eq_eq_not, Bool.not_true]
  refine ⟨⟨⟨⟨⟨⟨⟨fun i _ => h.fut i, ?_⟩, h.kf⟩, fun k _ => ⟨⟨?_, h.nkc k⟩, h.nkp k⟩⟩, h.pipe⟩, fun p _ => h.w p⟩, h.f⟩, h.ex⟩
  · cases hm : s.mpc <;> first | (left; rfl) | (right; exact h.brk _ hm)
  · intro op hop; exact h.nks k op hop

/-! ### moving the invariant -/

/-- a step that keeps the configuration, the task table and the scripts -/
theorem out_moveC (s X : St) (h : OutInvC s)
    (hfr : X.cfg = s.cfg ∧ X.taskOf = s.taskOf ∧ X.killFlag = s.killFlag ∧ X.uscript = s.uscript ∧ X.ucur = s.ucur ∧
           X.upc = s.upc)
    (hbrk : ∀ b, X.mpc = .brkRel b → X.broken.isSome = true)
    (hfut : ∀ i, futArgOkC s.cfg s.taskOf X.cancelOk X.broken.isSome i (futOf X i) = true)
    (hpipe : ∀ m ∈ X.cqPipe, cArgOk s.cfg m = true)
    (hw : ∀ p, wArgOk s.cfg (X.w p) = true)
    (hf : fArgOk s.cfg s.taskOf X.fpc = true)
    (hex : ∀ i ∈ X.execW, i < s.taskOf.length ∧ argOfW s.cfg s.taskOf i = .ok) : OutInvC X := by
  obtain ⟨f1, f2, f3, f4, f5, f6⟩ := hfr
  constructor
  · rw [f1, f2]; exact hfut
  · exact hbrk
  · rw [f3]; exact h.kf
  · rw [f4]; exact h.nks
  · rw [f5]; exact h.nkc
  · rw [f6]; exact h.nkp
  · rw [f1]; exact hpipe
  · rw [f1]; exact hw
  · rw [f1, f2]; exact hf
  · rw [f1, f2]; exact hex

/-- what a step of the manager may do to a future: what `FutM` allows, or — on a pool flagged broken (`b`) — fail it with
    the error of the broken pool -/
def FutMC (b : Bool) (fs gs : List Fut) : Prop :=
  ∀ i, gs.getD i .pending = fs.getD i .pending ∨ gs.getD i .pending = .running ∨ gs.getD i .pending = .value ∨
       gs.getD i .pending = .excWorker ∨ ((gs.getD i .pending).poolErr = true ∧ b = true)

theorem futMC_of_futM (b : Bool) {fs gs : List Fut} (h : FutM fs gs) : FutMC b fs gs := by
  intro i
  rcases h i with e | e | e | e
  · exact Or.inl e
  · exact Or.inr (Or.inl e)
  · exact Or.inr (Or.inr (Or.inl e))
  · exact Or.inr (Or.inr (Or.inr (Or.inl e)))

/-- a step that keeps the cancellation log, never lowers the broken flag, and moves futures as `FutMC` allows -/
theorem out_keepC (s X : St) (h : OutInvC s)
    (hfr : X.cfg = s.cfg ∧ X.taskOf = s.taskOf ∧ X.killFlag = s.killFlag ∧ X.uscript = s.uscript ∧ X.ucur = s.ucur ∧
           X.upc = s.upc)
    (hc : X.cancelOk = s.cancelOk)
    (hmono : s.broken.isSome = true → X.broken.isSome = true)
    (hbrk : ∀ b, X.mpc = .brkRel b → X.broken.isSome = true)
    (hfut : FutMC X.broken.isSome s.futs X.futs)
    (hpipe : ∀ m ∈ X.cqPipe, cArgOk s.cfg m = true)
    (hw : ∀ p, wArgOk s.cfg (X.w p) = true)
    (hf : fArgOk s.cfg s.taskOf X.fpc = true)
    (hex : ∀ i ∈ X.execW, i < s.taskOf.length ∧ argOfW s.cfg s.taskOf i = .ok) : OutInvC X := by
  refine out_moveC s X h hfr hbrk ?_ hpipe hw hf hex
  intro i
  rw [hc]
  rcases hfut i with e | e | e | e | ⟨e1, e2⟩
  · show futArgOkC _ _ _ _ _ (futOf X i) = true
    unfold futOf; rw [e]; exact futArgOkC_brk _ _ _ _ _ _ _ hmono (h.fut i)
  · show futArgOkC _ _ _ _ _ (futOf X i) = true
    unfold futOf; exact futArgOkC_same _ _ _ _ _ _ (Or.inl e)
  · show futArgOkC _ _ _ _ _ (futOf X i) = true
    unfold futOf; exact futArgOkC_same _ _ _ _ _ _ (Or.inr (Or.inl e))
  · show futArgOkC _ _ _ _ _ (futOf X i) = true
    unfold futOf; exact futArgOkC_same _ _ _ _ _ _ (Or.inr (Or.inr e))
  · show futArgOkC _ _ _ _ _ (futOf X i) = true
    unfold futOf; rw [e2]; exact futArgOkC_poolErr _ _ _ _ _ e1

/-- the same for a step that touches neither the broken flag nor the manager's program counter (workers, feeder) -/
theorem out_keepC' (s X : St) (h : OutInvC s)
    (hfr : X.cfg = s.cfg ∧ X.taskOf = s.taskOf ∧ X.killFlag = s.killFlag ∧ X.uscript = s.uscript ∧ X.ucur = s.ucur ∧
           X.upc = s.upc ∧ X.broken = s.broken ∧ X.mpc = s.mpc)
    (hc : X.cancelOk = s.cancelOk)
    (hfut : FutM s.futs X.futs)
    (hpipe : ∀ m ∈ X.cqPipe, cArgOk s.cfg m = true)
    (hw : ∀ p, wArgOk s.cfg (X.w p) = true)
    (hf : fArgOk s.cfg s.taskOf X.fpc = true)
    (hex : ∀ i ∈ X.execW, i < s.taskOf.length ∧ argOfW s.cfg s.taskOf i = .ok) : OutInvC X := by
  obtain ⟨f1, f2, f3, f4, f5, f6, f7, f8⟩ := hfr
  refine out_keepC s X h ⟨f1, f2, f3, f4, f5, f6⟩ hc (by rw [f7]; exact id) ?_ (futMC_of_futM _ hfut) hpipe hw hf hex
  intro b hb; rw [f7]; rw [f8] at hb; exact h.brk b hb

/-- a step of worker `p` -/
theorem out_wmoveC (s s' : St) (h : OutInvC s) (p : Pid) (pc' : WPc) (hw : s'.w = upd s.w p pc')
    (hfr : s'.cfg = s.cfg ∧ s'.taskOf = s.taskOf ∧ s'.cancelOk = s.cancelOk ∧ s'.killFlag = s.killFlag ∧
           s'.uscript = s.uscript ∧ s'.ucur = s.ucur ∧ s'.upc = s.upc ∧ s'.futs = s.futs ∧ s'.fpc = s.fpc ∧
           s'.broken = s.broken ∧ s'.mpc = s.mpc)
    (hpipe : ∀ m ∈ s'.cqPipe, m ∈ s.cqPipe)
    (hex : ∀ i ∈ s'.execW, i ∈ s.execW ∨ (i < s.taskOf.length ∧ argOfW s.cfg s.taskOf i = .ok))
    (hpc : wArgOk s.cfg pc' = true) : OutInvC s' := by
  obtain ⟨f1, f2, f3, f4, f5, f6, f7, f8, f9, f10, f11⟩ := hfr
  refine out_keepC' s s' h ⟨f1, f2, f4, f5, f6, f7, f10, f11⟩ f3 (by rw [f8]; exact futM_refl _) ?_ ?_ ?_ ?_
  · intro m hm; exact h.pipe m (hpipe m hm)
  · intro q; rw [hw, upd_apply]; split
    · exact hpc
    · exact h.w q
  · rw [f9]; exact h.f
  · intro i hi
    rcases hex i hi with e | e
    · exact h.ex i e
    · exact e

end LokyModel.Exec
