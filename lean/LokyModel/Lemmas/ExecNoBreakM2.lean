import LokyModel.Lemmas.ExecNoBreakM
namespace LokyModel.Exec

/-- the manager keeps (or hands over to its next program counter) what it holds; nothing else moves -/
theorem nb_same_hold (s s' : St) (h : NBInv s) (hw : s'.w = s.w) (hrq : s'.rqPipe = s.rqPipe)
    (hpd : s'.procDict = s.procDict) (hnp : s'.nextPid = s.nextPid) (hbr : s'.broken = s.broken)
    (hb : brokenPath s'.mpc = false) (hh : ∀ q, mHolds s.mpc q = true → mHolds s'.mpc q = true)
    (hnw : ∀ sn, s'.mpc ≠ .wait sn) (hnp' : ∀ q, poppedPc s'.mpc q = false) : NBInv s' := by
  obtain ⟨hnb, hmp, hann, hgood, hpipe, hsnap, hfresh, hnd, hkp⟩ := h
  refine ⟨by rw [hbr]; exact hnb, hb, ?_, by rw [hw]; exact hgood, by rw [hrq]; exact hpipe, ?_, ?_, by rw [hpd]; exact hnd, ?_⟩
  · intro q hqd hl
    rw [hpd] at hqd; rw [hw] at hl
    rcases hann q hqd hl with h1 | h1
    · exact Or.inl (by rw [hrq]; exact h1)
    · exact Or.inr (hh q h1)
  · intro sn hsn; exact absurd hsn (hnw sn)
  · intro q hq'; rw [hpd] at hq'; rw [hnp]; exact hfresh q hq'
  · intro q hq'; rw [hnp' q] at hq'; cases hq'

/-- receiving a message: what was announced by the message is now held by the manager -/
theorem nb_recv (s : St) (h : NBInv s) (r : RMsg) (rest : List RMsg) (hpc : s.mpc = .recv) (hq : s.rqPipe = r :: rest) :
    NBInv { s with rqPipe := rest, mpc := .clrPoll (.item (some r)) } := by
  obtain ⟨hnb, hmp, hann, hgood, hpipe, hsnap, hfresh, hnd, hkp⟩ := h
  refine ⟨hnb, rfl, ?_, hgood, ?_, ?_, hfresh, hnd, ?_⟩
  · intro q hqd hl
    rcases hann q hqd hl with h1 | h1
    · rw [hq] at h1
      rcases List.mem_cons.1 h1 with h2 | h2
      · right; subst h2; simp [mHolds]
      · left; exact h2
    · rw [hpc] at h1; simp [mHolds] at h1
  · intro m hm; exact hpipe m (by rw [hq]; exact List.mem_cons_of_mem _ hm)
  · intro sn hsn; simp at hsn
  · intro q hq'; simp [poppedPc] at hq'

/-- a new worker is registered -/
theorem nb_spawn (s : St) (h : NBInv s) : NBInv (spawn s) := by
  obtain ⟨hnb, hmp, hann, hgood, hpipe, hsnap, hfresh, hnd, hkp⟩ := h
  refine ⟨hnb, hmp, ?_, ?_, hpipe, ?_, ?_, ?_, ?_⟩
  · intro q hqd hl
    simp only [spawn, List.mem_append, List.mem_singleton] at hqd
    simp only [spawn_w, leaving_upd] at hl
    split at hl
    · simp [leaving] at hl
    · rename_i hne
      rcases hqd with hqd | hqd
      · rcases hann q hqd hl with h1 | h1
        · exact Or.inl h1
        · exact Or.inr h1
      · exact absurd hqd hne
  · intro q; simp only [spawn_w, badPc_upd]; split
    · rfl
    · exact hgood q
  · intro sn hsn q hq'
    have := hsnap sn hsn q hq'
    simp [spawn, this]
  · intro q hq'
    have hn : (spawn s).nextPid = s.nextPid + 1 := rfl
    have hpd : (spawn s).procDict = s.procDict ++ [s.nextPid] := rfl
    rw [hpd] at hq'; rw [hn]
    rcases List.mem_append.1 hq' with h1 | h1
    · exact Nat.lt_succ_of_lt (hfresh q h1)
    · simp at h1; subst h1; exact Nat.lt_succ_self _
  · have hpd : (spawn s).procDict = s.procDict ++ [s.nextPid] := rfl
    rw [hpd, List.nodup_append]
    refine ⟨hnd, by simp, ?_⟩
    intro a ha b hb'
    simp at hb'; subst hb'
    exact Nat.ne_of_lt (hfresh a ha)
  · intro q hq'
    have hm : (spawn s).mpc = s.mpc := rfl
    rw [hm] at hq'
    have := hkp q hq'
    have hn : (spawn s).nextPid = s.nextPid + 1 := rfl
    have hpd : (spawn s).procDict = s.procDict ++ [s.nextPid] := rfl
    rw [hpd, hn]
    refine ⟨?_, Nat.lt_succ_of_lt this.2⟩
    intro hc
    rcases List.mem_append.1 hc with hc | hc
    · exact this.1 hc
    · simp at hc; subst hc; exact Nat.lt_irrefl _ this.2

/-- killing a worker that has been un-registered -/
theorem nb_kill (s : St) (h : NBInv s) (p : Pid) (hpc : s.mpc = .kill p) :
    NBInv (if alive s p = true then die { s with mpc := .killJoin p } p (-9) else { s with mpc := .killJoin p }) := by
  obtain ⟨hnb, hmp, hann, hgood, hpipe, hsnap, hfresh, hnd, hkp⟩ := h
  have hp := hkp p (by rw [hpc]; simp [poppedPc])
  have hnohold : ∀ q, mHolds s.mpc q = false := by intro q; rw [hpc]; rfl
  split
  · refine ⟨hnb, rfl, ?_, ?_, hpipe, ?_, hfresh, hnd, ?_⟩
    · intro q hqd hl
      have hqp : q ≠ p := by intro hc; subst hc; exact hp.1 hqd
      simp only [die_w, leaving_upd, if_neg hqp] at hl
      rcases hann q hqd hl with h1 | h1
      · exact Or.inl h1
      · rw [hnohold q] at h1; cases h1
    · intro q; simp only [die_w, badPc_upd]; split
      · rfl
      · exact hgood q
    · intro sn hsn; simp [die] at hsn
    · intro q hq'; simp [die, poppedPc] at hq'; subst hq'; exact hp
  · refine ⟨hnb, rfl, ?_, hgood, hpipe, ?_, hfresh, hnd, ?_⟩
    · intro q hqd hl
      rcases hann q hqd hl with h1 | h1
      · exact Or.inl h1
      · rw [hnohold q] at h1; cases h1
    · intro sn hsn; simp at hsn
    · intro q hq'; simp [poppedPc] at hq'; subst hq'; exact hp

theorem mKillNext_sublist (s : St) : (mKillNext s).procDict.Sublist s.procDict := by
  unfold mKillNext; split
  · exact List.dropLast_sublist _
  · exact List.Sublist.refl _
theorem mJoinProcs_sublist (s : St) : (mJoinProcs s).procDict.Sublist s.procDict := by
  unfold mJoinProcs; split
  · exact List.dropLast_sublist _
  · exact List.Sublist.refl _
theorem mAfterFlag_sublist (s : St) : (mAfterFlag s).procDict.Sublist s.procDict := by
  unfold mAfterFlag
  (repeat' split) <;> first
    | (have := mKillNext_sublist (failAll { s with pending := [] } s.pending .excShutdown); simpa using this)
    | simp [mJoinStart]

/-- a manager step into one of the popping continuations -/
theorem nb_pop (s s' : St) (h : NBInv s) (hw : s'.w = s.w) (hrq : s'.rqPipe = s.rqPipe)
    (hsl : s'.procDict.Sublist s.procDict) (hnp : s'.nextPid = s.nextPid) (hbr : s'.broken = s.broken)
    (hq : quietPc s'.procDict s'.mpc s.procDict) (hold : ∀ q, mHolds s.mpc q = false) : NBInv s' :=
  nb_shrink_quiet s s' h hw hrq (fun q hq' => hsl.subset hq') (h.nd.sublist hsl) hnp hbr hq (fun q => Or.inl (hold q))

theorem nb_mProcess (s : St) (h : NBInv s) (a : Option RMsg) (hpc : s.mpc = .clrPoll (.item a)) :
    NBInv (mProcess s a) := by
  have hold : ∀ q, a ≠ some (.pid q) → mHolds s.mpc q = false := by
    intro q hq; rw [hpc]
    cases a with
    | none => rfl
    | some r => cases r <;> simp_all [mHolds]
  unfold mProcess
  split
  · exact nb_mpc_quiet s _ h (by simp) (by simp) (by simp) (by simp) (by simp) (quiet_mAfterItem s)
      (fun q => Or.inl (hold q (by simp)))
  · exact nb_mpc_quiet s _ h (by simp) (by simp) (by simp) (by simp) (by simp) (quiet_mAfterItem s)
      (fun q => Or.inl (hold q (by simp)))
  · split
    · refine nb_mpc_quiet s _ h (by simp) (by simp) (by simp) (by simp) (by simp) ?_ (fun q => Or.inl (hold q (by simp)))
      exact quiet_mAfterItem _
    · exact nb_mpc_quiet s _ h (by simp) (by simp) (by simp) (by simp) (by simp) (quiet_mAfterItem s)
        (fun q => Or.inl (hold q (by simp)))
  · rename_i p
    refine nb_same_hold s { s with mpc := .pidAcq p } h rfl rfl rfl rfl rfl rfl ?_ ?_ ?_
    · intro q hq; rw [hpc] at hq; simpa [mHolds] using hq
    · intro sn; simp
    · intro q; rfl

theorem nb_clrPoll_ok (s : St) (h : NBInv s) (k : AfterClear) (hpc : s.mpc = .clrPoll k) :
    NBInv { s with mpc := .clrRecv k } := by
  have hb := h.mp; rw [hpc] at hb
  refine nb_same_hold s _ h rfl rfl rfl rfl rfl ?_ ?_ (by intro sn; simp) (by intro q; rfl)
  · cases k <;> simp_all [brokenPath]
  · intro q hq; rw [hpc] at hq
    cases k with
    | broken b => simp [mHolds] at hq
    | item r => cases r with
      | none => simp [mHolds] at hq
      | some r => cases r <;> simp_all [mHolds]

theorem nb_clrRecv_ok (s : St) (h : NBInv s) (k : AfterClear) (hpc : s.mpc = .clrRecv k) :
    NBInv { s with wakeup := s.wakeup - 1, mpc := .clrPoll k } := by
  have hb := h.mp; rw [hpc] at hb
  refine nb_same_hold s _ h rfl rfl rfl rfl rfl ?_ ?_ (by intro sn; simp) (by intro q; rfl)
  · cases k <;> simp_all [brokenPath]
  · intro q hq; rw [hpc] at hq
    cases k with
    | broken b => simp [mHolds] at hq
    | item r => cases r with
      | none => simp [mHolds] at hq
      | some r => cases r <;> simp_all [mHolds]

theorem nb_pidAcq (s : St) (h : NBInv s) (p : Pid) (hpc : s.mpc = .pidAcq p) (m : Nat) (o : Option Actor) :
    NBInv { s with mgmt := m, oMgmt := o, procDict := s.procDict.erase p, mpc := .pidRel p (decide (p ∈ s.procDict)) } := by
  refine nb_shrink_quiet s _ h rfl rfl ?_ ?_ rfl rfl (quiet_of_simple rfl (fun _ => rfl) (by simp)) ?_
  · intro q hq; exact List.mem_of_mem_erase hq
  · exact h.nd.erase _
  · intro q
    by_cases hqp : q = p
    · right; subst hqp; exact h.nd.not_mem_erase
    · left; rw [hpc]; simp [mHolds]; exact fun hc => hqp hc.symm

set_option maxHeartbeats 8000000 in
theorem nbInv_stepM (s s' : St) (v : Variant) (h : NBInv s) (hs : stepM s v = some s') : NBInv s' := by
  have hmp := h.mp
  have hnd := h.nd
  unfold stepM at hs
  crack_step
  all_goals (first
    | (apply nb_mpc_quiet s _ h <;> first
        | (simp; done)
        | exact quiet_mAdd _ | exact quiet_mAddF _ | exact quiet_mAfterItem _ | exact quiet_mDropRef _ | exact quiet_mRespawnCheck _
        | exact quiet_mJoinStart _ | exact quiet_mSpawnLoop _ | exact quiet_mJoinClose _ | exact quiet_mJoinLoop _ _ _ _
        | exact quiet_mRelExitNext _ _ _ | exact quiet_mAliveNext _ _ _ _ _ _ | exact quiet_mAfterPut _ _ _ _ _
        | exact quiet_of_simple rfl (fun _ => rfl) (by simp)
        | (intro q; left; simp_all [mHolds]; done))
    | (exfalso; simp_all [brokenPath]; done)
    | exact nb_recv s h _ _ ‹_› ‹_›
    | exact nb_mProcess s h _ ‹_›
    | (exfalso
       have h0 := h.pipe _ (by rw [‹s.rqPipe = _›]; exact List.mem_cons_self)
       simp_all; done)
    | (exfalso
       obtain ⟨q, hq1, hq2⟩ := List.any_eq_true.1 ‹_›
       have h1 := h.snap _ ‹s.mpc = _› q hq1
       have h2 := h.ann q h1 (by simp [isDead] at hq2; simp [hq2, leaving])
       rcases h2 with h2 | h2 <;> simp_all [mHolds]; done)
    | exact nb_clrPoll_ok s h _ ‹_›
    | exact nb_clrRecv_ok s h _ ‹_›
    | exact nb_pidAcq s h _ ‹_› _ _
    | (have h9 := nb_kill s h _ ‹_›; simp only [‹alive s _ = true›, if_true] at h9; exact h9)
    | (have h9 := nb_kill s h _ ‹_›; simp only [‹¬ alive s _ = true›, if_false] at h9; exact h9)
    | (refine nb_pop s _ h (by simp) (by simp) ?_ (by simp) (by simp) ?_ (by intro q; simp_all [mHolds]) <;> first
        | exact mKillNext_sublist _ | exact mJoinProcs_sublist _
        | (have := mJoinProcs_sublist { s with mgmt := s.mgmt - 1, oMgmt := some .M }; simpa using this)
        | (have := mAfterFlag_sublist { s with shut := s.shut + 1, oShut := none }; simpa using this)
        | exact quiet_mKillNext _ hnd | exact quiet_mJoinProcs _ hnd
        | (have := quiet_mJoinProcs { s with mgmt := s.mgmt - 1, oMgmt := some .M } (by simpa using hnd); simpa using this)
        | (have := quiet_mAfterFlag { s with shut := s.shut + 1, oShut := none } (by simpa using hnd); simpa using this))
    | (refine nb_mpc_quiet (spawn s) _ (nb_spawn s h) (by simp) (by simp) (by simp) (by simp) (by simp) (quiet_mSpawnLoop _)
        (by intro q; left; simp_all [mHolds, spawn]))
    | skip)

end LokyModel.Exec
