import LokyModel.Lemmas.TrackerTreeSem
/-!
Helper lemmas about runs of M4 `TrackerTree`: extension of histories, what the actions of the threads of
one member can do to the tracker bookkeeping (`MemberEffect`, closed under composition), crash points
inside finalizers.  The property theorems are in `Props/C12.lean` and `Props/C13.lean`.
-/
namespace LokyModel.TrackerTree

/-! ## histories -/

theorem reach_run {h : List Ev} {s s' : State} (hr : Reach h s) {es : List Ev} (hrun : run s es = some s') :
    Reach (es.reverse ++ h) s' := by
  induction es generalizing h s with
  | nil => simp [run] at hrun; subst hrun; simpa using hr
  | cons e es ih =>
    simp only [run] at hrun
    split at hrun
    · rename_i s1 hs1
      have := ih (Reach.step hr hs1) hrun
      simpa [List.reverse_cons, List.append_assoc] using this
    · simp at hrun

theorem run_append (s : State) (xs ys : List Ev) :
    run s (xs ++ ys) = (run s xs).bind (fun s1 => run s1 ys) := by
  induction xs generalizing s with
  | nil => simp [run]
  | cons e es ih =>
    simp only [List.cons_append, run]
    split
    · exact ih _
    · simp

theorem run_inv1 {s s' : State} (h : Inv1 s) {es : List Ev} (hrun : run s es = some s') : Inv1 s' := by
  induction es generalizing s with
  | nil => simp [run] at hrun; subst hrun; exact h
  | cons e es ih =>
    simp only [run] at hrun
    split at hrun
    · rename_i s1 hs1; exact ih (step_inv1 h hs1) hrun
    · simp at hrun

/-! ## what `ensure_running` does, by cases -/

theorem ensure_cases (s : State) (p : Pid) (h : Inv1 s) :
    (aliveFor s p ∧ ensureRunning s p = s) ∨
    (¬ aliveFor s p ∧ (ensureRunning s p).nTrk = s.nTrk + 1
      ∧ ((ensureRunning s p).procs p).trk = some s.nTrk
      ∧ ((ensureRunning s p).trks s.nTrk).ph = .starting0
      ∧ ((ensureRunning s p).procs p).warned = (s.procs p).warned + (if (s.procs p).trk = none then 0 else 1)
      ∧ (∀ t, (s.trks t).alive = true → (ensureRunning s p).trks t = s.trks t)) := by
  have hunb : ∀ t, (s.trks t).alive = true → t ≠ s.nTrk := by
    intro t ha ht
    have := (h.t1 t (Nat.le_of_eq ht.symm)).1
    rw [alive_iff] at ha; rw [this] at ha; simp at ha
  unfold ensureRunning aliveFor
  cases htp : (s.procs p).trk with
  | none =>
    right
    refine ⟨by simp, by simp [launch], by simp [launch, upd], by simp [launch, upd],
      by simp [launch, upd], ?_⟩
    intro t ha
    simp [launch, upd, hunb t ha]
  | some t0 =>
    by_cases ha0 : (s.trks t0).alive = true
    · left; simp [ha0]
    · right
      simp only [ha0]
      refine ⟨by simp [ha0], by simp [launch, closeFd], by simp [launch, closeFd, upd],
        by simp [launch, closeFd, upd], by simp [launch, closeFd, upd], ?_⟩
      intro t ha
      have h1 : t ≠ s.nTrk := hunb t ha
      have h2 : t ≠ t0 := by intro e; subst e; exact ha0 ha
      simp [launch, closeFd, upd, h1, h2]

/-! ## the effect of actions of the threads of one member on the tracker bookkeeping -/

/-- every tracker that was alive keeps its phase and its writer set (no healthy tracker gets its pipe
    closed); and either the bookkeeping of `p` is unchanged, or `p` had no live tracker and exactly one
    new incarnation was launched, which starts with INT/TERM blocked (`starting0`) and is now `p`'s
    tracker, with one warning iff `p` had a (dead) tracker before -/
structure MemberEffect (p : Pid) (s s' : State) : Prop where
  keep : ∀ t, (s.trks t).alive = true → (s'.trks t).ph = (s.trks t).ph ∧ (s'.trks t).writers = (s.trks t).writers
  cases : (s'.nTrk = s.nTrk ∧ (s'.procs p).trk = (s.procs p).trk ∧ (s'.procs p).warned = (s.procs p).warned)
        ∨ (¬ aliveFor s p ∧ s'.nTrk = s.nTrk + 1 ∧ (s'.procs p).trk = some s.nTrk
            ∧ (s'.trks s.nTrk).ph = .starting0
            ∧ (s'.procs p).warned = (s.procs p).warned + (if (s.procs p).trk = none then 0 else 1))

theorem alive_of_ph {a b : Tracker} (h : a.ph = b.ph) : a.alive = b.alive := by
  unfold Tracker.alive; rw [h]

theorem MemberEffect.keep_alive {p : Pid} {s s' : State} (a : MemberEffect p s s') (t : Tid)
    (ha : (s.trks t).alive = true) : (s'.trks t).alive = true := by
  rw [alive_of_ph (a.keep t ha).1]; exact ha

theorem MemberEffect.refl (p : Pid) (s : State) : MemberEffect p s s :=
  ⟨fun _ _ => ⟨rfl, rfl⟩, Or.inl ⟨rfl, rfl, rfl⟩⟩

/-- same process table, trackers and counter: no effect -/
theorem MemberEffect.of_frame (p : Pid) {s s' : State} (h1 : s'.procs = s.procs) (h2 : s'.trks = s.trks)
    (h3 : s'.nTrk = s.nTrk) : MemberEffect p s s' :=
  ⟨fun t _ => by rw [h2]; exact ⟨rfl, rfl⟩, Or.inl ⟨h3, by rw [h1], by rw [h1]⟩⟩

theorem MemberEffect.trans {p : Pid} {s s1 s' : State} (a : MemberEffect p s s1) (b : MemberEffect p s1 s') :
    MemberEffect p s s' := by
  refine ⟨fun t ha => ?_, ?_⟩
  · have h1 := a.keep t ha
    have h2 := b.keep t (a.keep_alive t ha)
    exact ⟨h2.1.trans h1.1, h2.2.trans h1.2⟩
  · rcases a.cases with ⟨an, at', aw⟩ | ⟨ana, an, at', aa, aw⟩
    · rcases b.cases with ⟨bn, bt, bw⟩ | ⟨bna, bn, bt, ba, bw⟩
      · exact Or.inl ⟨bn.trans an, bt.trans at', bw.trans aw⟩
      · right
        refine ⟨?_, by omega, by rw [bt, an], by rw [← an]; exact ba, by rw [bw, aw, at']⟩
        intro ⟨t, ht, hta⟩
        exact bna ⟨t, by rw [at']; exact ht, a.keep_alive t hta⟩
    · have hal : (s1.trks s.nTrk).alive = true := by rw [alive_iff]; exact Or.inl aa
      rcases b.cases with ⟨bn, bt, bw⟩ | ⟨bna, _, _, _, _⟩
      · right
        exact ⟨ana, by omega, by rw [bt, at'], by rw [(b.keep _ hal).1]; exact aa, by rw [bw, aw]⟩
      · exact absurd ⟨s.nTrk, at', hal⟩ bna

theorem send_effect (s : State) (p : Pid) (o : Op) (n : Name) (h : Inv1 s) (_hp : (s.procs p).st = .live) :
    MemberEffect p s (send s p o n) := by
  have hc := ensure_cases s p h
  have hrp := recv_ph ((ensureRunning s p).trks (curTrk (ensureRunning s p) p)) o n
  have hal : ∀ t, ((send s p o n).trks t).ph = ((ensureRunning s p).trks t).ph
      ∧ ((send s p o n).trks t).writers = ((ensureRunning s p).trks t).writers := by
    intro t
    unfold send
    simp only [upd]
    split
    · rename_i ht; subst ht
      exact ⟨hrp.1, hrp.2⟩
    · exact ⟨rfl, rfl⟩
  have hpr : (send s p o n).procs = (ensureRunning s p).procs := by unfold send; rfl
  have hnt : (send s p o n).nTrk = (ensureRunning s p).nTrk := by unfold send; rfl
  rcases hc with ⟨_, he⟩ | ⟨hna, hn, ht, hph, hw, hk⟩
  · refine ⟨fun t _ => ?_, Or.inl ⟨by rw [hnt, he], by rw [hpr, he], by rw [hpr, he]⟩⟩
    rw [(hal t).1, (hal t).2, he]; exact ⟨rfl, rfl⟩
  · refine ⟨fun t ha => ?_, Or.inr ⟨hna, by rw [hnt, hn], by rw [hpr, ht], ?_, by rw [hpr, hw]⟩⟩
    · rw [(hal t).1, (hal t).2, hk t ha]; exact ⟨rfl, rfl⟩
    · rw [(hal _).1]; exact hph

theorem member_step {p : Pid} {s s' : State} {e : Ev} (h : Inv1 s) (he : memberAct p e = true)
    (hs : step s e = some s') : MemberEffect p s s' := by
  cases e with
  | op q o n =>
    simp only [memberAct, beq_iff_eq] at he; subst he
    simp only [step] at hs; split at hs
    · rename_i hg; simp [isLive] at hg
      injection hs with hs; subst hs
      exact send_effect s q o n h hg.1.1
    · simp at hs
  | mkfile q =>
    simp only [step] at hs; split at hs
    · injection hs with hs; subst hs; exact MemberEffect.of_frame p rfl rfl rfl
    · simp at hs
  | semOpen q o =>
    simp only [step] at hs; split at hs
    · injection hs with hs; subst hs; exact MemberEffect.of_frame p rfl rfl rfl
    · simp at hs
  | semRegister q o =>
    simp only [memberAct, beq_iff_eq] at he; subst he
    simp only [step] at hs; split at hs
    · rename_i hg; simp [isLive] at hg
      injection hs with hs; subst hs
      exact (send_effect s q .register (s.objs o).name h hg.1.1).trans (MemberEffect.of_frame q rfl rfl rfl)
    · simp at hs
  | finUnlink q o =>
    simp only [step] at hs; split at hs
    · injection hs with hs; subst hs; exact MemberEffect.of_frame p rfl rfl rfl
    · simp at hs
  | finUnregister q o =>
    simp only [memberAct, beq_iff_eq] at he; subst he
    simp only [step] at hs; split at hs
    · rename_i hg; simp [isLive] at hg
      injection hs with hs; subst hs
      exact (send_effect s q .unregister (s.objs o).name h hg.1.1).trans (MemberEffect.of_frame q rfl rfl rfl)
    · simp at hs
  | dropCopy q o =>
    simp only [step] at hs; split at hs
    · injection hs with hs; subst hs; exact MemberEffect.of_frame p rfl rfl rfl
    · simp at hs
  | spawn _ _ _ => simp [memberAct] at he
  | exit _ _ => simp [memberAct] at he
  | sigTracker _ _ => simp [memberAct] at he
  | boot _ => simp [memberAct] at he
  | eof _ => simp [memberAct] at he
  | copy _ _ _ _ => simp [memberAct] at he

theorem member_run {p : Pid} {es : List Ev} {s s' : State} (h : Inv1 s)
    (hm : ∀ e ∈ es, memberAct p e = true) (hrun : run s es = some s') : MemberEffect p s s' := by
  induction es generalizing s with
  | nil => simp [run] at hrun; subst hrun; exact MemberEffect.refl p s
  | cons e es ih =>
    simp only [run] at hrun
    split at hrun
    · rename_i s1 hs1
      have h1 := member_step h (hm e (by simp)) hs1
      have h2 := ih (step_inv1 h hs1) (fun e' he' => hm e' (by simp [he'])) hrun
      exact h1.trans h2
    · simp at hrun

end LokyModel.TrackerTree
