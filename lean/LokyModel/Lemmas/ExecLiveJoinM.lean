import LokyModel.Lemmas.ExecLiveJoinBase
/-! `JoinInv` is kept by the steps of the manager thread. -/
namespace LokyModel.Exec
set_option linter.unusedSimpArgs false
set_option linter.unusedVariables false
set_option linter.unnecessarySimpa false

/-! where the continuations leave the manager -/
theorem mAddFuel_mpc_join (n : Nat) (s : St) : (∃ i, (mAddFuel n s).mpc = .addAcq i) ∨ (∃ l, (mAddFuel n s).mpc = .wait l) := by
  induction n generalizing s with
  | zero => right; exact ⟨_, rfl⟩
  | succ n ih =>
    unfold mAddFuel
    split
    · right; exact ⟨_, rfl⟩
    · split
      · right; exact ⟨_, rfl⟩
      · split
        · exact ih _
        · left; exact ⟨_, by simp; rfl⟩
theorem mAdd_mpc_join (s : St) : (∃ i, (mAdd s).mpc = .addAcq i) ∨ (∃ l, (mAdd s).mpc = .wait l) := mAddFuel_mpc_join _ s

@[simp] theorem mAdd_plain (s : St) : mFlagF (mAdd s).mpc = false := by
  rcases mAdd_mpc_join s with ⟨i, e⟩ | ⟨l, e⟩ <;> rw [e] <;> rfl
@[simp] theorem mAfterItem_plain (s : St) : mFlagF (mAfterItem s).mpc = false := by
  unfold mAfterItem; split <;> first | rfl | simp
@[simp] theorem mProcess_plain (s : St) (r) : mFlagF (mProcess s r).mpc = false := by
  unfold mProcess; (repeat' split) <;> first | rfl | simp
@[simp] theorem mRespawnCheck_plain (s : St) : mFlagF (mRespawnCheck s).mpc = false := by
  unfold mRespawnCheck; simp only []; (repeat' split) <;> first | rfl | simp
@[simp] theorem mDropRef_plain (s : St) : mFlagF (mDropRef s).mpc = false := by
  unfold mDropRef; simp only []; split <;> first | rfl | simp
@[simp] theorem mSpawnLoop_plain (s : St) : mFlagF (mSpawnLoop s).mpc = false := by
  unfold mSpawnLoop; split <;> rfl

/-- the manager enters `join_executor_internals` -/
theorem joinInv_jAcq1 (s : St) (hm : s.mpc = .jAcq1) (hfl : s.shutdownFlag = true) (hpe : s.pending = [])
    (hfull : s.procDict = s.allPids) : JoinInv s := by
  have hn := needStop_le_length s
  constructor <;> simp [hm, mFlagF, mFinal, mCounts, mPre, mToSend, *]
  omega

theorem joinInv_mAddF (s : St) (hfl : s.shutdownFlag = true) (hfull : s.procDict = s.allPids) : JoinInv (mAddF s) := by
  rcases mAdd_mpc_join s with ⟨i, e⟩ | ⟨l, e⟩
  · have : mAddF s = { mAdd s with mpc := .addAcqF i } := by simp only [mAddF, mAfterAddF, e]
    rw [this]
    constructor <;> simp [mFlagF, mFinal, mCounts, mPre, hfl]
  · by_cases hp : (mAdd s).pending = []
    · have : mAddF s = mJoinStart (mAdd s) := by simp only [mAddF, mAfterAddF, e, hp, if_true]
      rw [this]
      exact joinInv_jAcq1 _ rfl (by simpa using hfl) (by simpa using hp) (by simpa using hfull)
    · have : mAddF s = mAdd s := by simp only [mAddF, mAfterAddF, e, hp, if_false]
      rw [this]
      exact joinInv_plain _ (by simp)

theorem joinInv_mAfterFlag (s : St) (hfl : s.shutdownFlag = true) (hfull : s.procDict = s.allPids)
    (hk : s.killFlag = false) : JoinInv (mAfterFlag s) := by
  unfold mAfterFlag
  simp only [hk, Bool.false_eq_true, if_false]
  split
  · rename_i hp
    exact joinInv_jAcq1 _ rfl hfl hp hfull
  · exact joinInv_mAddF s hfl hfull

theorem suffix_step {α : Type} (l : List α) (p : α) (rest : List α)
    (h : l.drop (l.length - (rest.length + 1)) = p :: rest) :
    l.drop (l.length - rest.length) = rest ∧
    l.take (l.length - rest.length) = l.take (l.length - (rest.length + 1)) ++ [p] := by
  have hl : (l.drop (l.length - (rest.length + 1))).length = rest.length + 1 := by rw [h]; simp
  simp at hl
  have e : l.length - rest.length = (l.length - (rest.length + 1)) + 1 := by omega
  generalize hk : l.length - (rest.length + 1) = k at *
  rw [e]
  constructor
  · have := List.drop_drop (i := 1) (j := k) (l := l)
    rw [h] at this
    rw [← this]; simp
  · rw [List.take_add_one]
    congr
    have : l[k]? = (l.drop k)[0]? := by simp
    rw [this, h]; simp

/-! the phases of `join_executor_internals` -/

@[simp] theorem needStop_mpc (s : St) (pc : MPc) : needStop { s with mpc := pc } = needStop s := rfl
@[simp] theorem stopsInFlight_mpc (s : St) (pc : MPc) : stopsInFlight { s with mpc := pc } = stopsInFlight s := rfl


def mLate : MPc → Bool
  | .jShutAcq | .jShutRel | .jAcq2 | .jJoin _ | .jRel2 | .done | .raised _ => true
  | _ => false

theorem joinInv_late (s : St) (hm : mLate s.mpc = true) (hfl : s.shutdownFlag = true) (hpe : s.pending = [])
    (hc : mCounts s.mpc = true → needStop s ≤ stopsInFlight s) : JoinInv s := by
  cases e : s.mpc <;> simp [e, mLate] at hm <;>
    constructor <;> simp_all [mFlagF, mFinal, mCounts, mPre, mToSend]

theorem stopsInFlight_mJoinClose (s : St) : stopsInFlight (mJoinClose s) = stopsInFlight s := by
  unfold mJoinClose; simp only []
  split <;> simp [stopsInFlight_eq, cstop, isStop]

theorem joinInv_mJoinClose (s : St) (hfl : s.shutdownFlag = true) (hpe : s.pending = [])
    (hc : needStop s ≤ stopsInFlight s) : JoinInv (mJoinClose s) := by
  have hm : (mJoinClose s).mpc = .jShutAcq := by unfold mJoinClose; rfl
  apply joinInv_late
  · rw [hm]; rfl
  · simpa using hfl
  · simpa using hpe
  · intro _
    rw [stopsInFlight_mJoinClose]
    have : needStop (mJoinClose s) = needStop s := by simp [needStop_eq]
    omega

theorem joinInv_mJoinLoop (s : St) (n sent cool : Nat) (hfl : s.shutdownFlag = true) (hpe : s.pending = [])
    (hfull : s.procDict = s.allPids) (hc : needStop s ≤ stopsInFlight s + (n - sent)) :
    JoinInv (mJoinLoop s n sent cool) := by
  unfold mJoinLoop
  split
  · constructor <;> (try simp only [needStop_mpc, stopsInFlight_mpc]) <;> simp [mFlagF, mFinal, mCounts, mPre, mToSend, *]
  · exact joinInv_mJoinClose s hfl hpe (by omega)

theorem joinInv_mAfterPut (s : St) (k n sent cool : Nat) (hk : k = n - sent) (hk0 : 0 < k)
    (hfl : s.shutdownFlag = true) (hpe : s.pending = [])
    (hfull : s.procDict = s.allPids) (hc : needStop s ≤ stopsInFlight s + (n - (sent + 1))) :
    JoinInv (mAfterPut s k n sent cool) := by
  unfold mAfterPut
  split
  · exact joinInv_mJoinLoop s n (sent + 1) cool hfl hpe hfull hc
  · constructor <;> (try simp only [needStop_mpc, stopsInFlight_mpc]) <;> simp [mFlagF, mFinal, mCounts, mPre, mToSend, *] <;> omega

theorem joinInv_mAliveNext (s : St) (ps : List Pid) (cnt n sent cool : Nat) (hfl : s.shutdownFlag = true)
    (hpe : s.pending = []) (hfull : s.procDict = s.allPids) (hc : needStop s ≤ stopsInFlight s + (n - sent))
    (hlt : sent < n) (hsuf : s.procDict.drop (s.procDict.length - ps.length) = ps)
    (hdead : cnt = 0 → ∀ p ∈ s.procDict.take (s.procDict.length - ps.length), s.w p = .dead) :
    JoinInv (mAliveNext s ps cnt n sent cool) := by
  unfold mAliveNext
  split
  · simp at hdead
    constructor <;> (try simp only [needStop_mpc, stopsInFlight_mpc]) <;> simp [mFlagF, mFinal, mCounts, mPre, mToSend, *]
    intro c n' s' c' e1 e2 e3 e4
    subst e1 e2 e3 e4
    refine ⟨hlt, ?_⟩
    rw [← hfull]; exact hdead
  · rename_i a l
    constructor <;> (try simp only [needStop_mpc, stopsInFlight_mpc]) <;> simp [mFlagF, mFinal, mCounts, mPre, mToSend, *]
    intro ps' c n' s' c' e1 e2 e3 e4 e5
    subst e1 e2 e3 e4 e5
    rw [← hfull]; exact ⟨hlt, hsuf, hdead⟩

theorem joinInv_mRelExitNext (s : St) (ps : List Pid) (n : Nat) (hfl : s.shutdownFlag = true)
    (hpe : s.pending = []) (hfull : s.procDict = s.allPids) (hn : n + ps.length = s.procDict.length) :
    JoinInv (mRelExitNext s ps n) := by
  have hl := needStop_le_length s
  unfold mRelExitNext
  split
  · simp at hn
    constructor <;> (try simp only [needStop_mpc, stopsInFlight_mpc]) <;> simp [mFlagF, mFinal, mCounts, mPre, mToSend, *] <;> omega
  · rename_i a l
    simp at hn
    constructor <;> (try simp only [needStop_mpc, stopsInFlight_mpc]) <;> simp [mFlagF, mFinal, mCounts, mPre, mToSend, *] <;> omega

theorem joinInv_mJoinProcs (s : St) (hfl : s.shutdownFlag = true) (hpe : s.pending = [])
    (hc : needStop s ≤ stopsInFlight s) : JoinInv (mJoinProcs s) := by
  unfold mJoinProcs
  split
  · exact joinInv_late _ rfl hfl hpe (fun _ => hc)
  · exact joinInv_late _ rfl hfl hpe (fun _ => hc)

set_option maxHeartbeats 8000000 in
theorem joinInv_stepM (s s' : St) (v : Variant) (h : JoinInv s) (hst : staticOk s = true)
    (hs : stepM s v = some s') : JoinInv s' := by
  obtain ⟨hnev, hkill, hwn, hfull⟩ := staticOk_facts s hst
  unfold stepM at hs
  crack
  all_goals (first
    | (apply joinInv_plain; simp; done)
    | (apply joinInv_plain; simp [mFlagF, mFinal]; done)
    | (apply joinInv_plain; split <;> simp [mFlagF, mFinal]; done)
    | (simp [*, mNever] at hnev; done)
    | (exact joinInv_mAddF _ (by simpa [*, mFlagF] using h.flagF) (by simpa [*, mFinal] using hfull))
    | (exact joinInv_mAfterFlag _ (by simpa [*, mFlagF] using h.flagF) (by simpa [*, mFinal] using hfull) (by simpa using hkill))
    | skip)
  all_goals (clear hwn hst hnev hkill)
  all_goals (have hm := ‹s.mpc = _›)
  all_goals (obtain ⟨h1, h2, h3, h4, h5, h6, h7, h8, h9, h10, h11⟩ := h)
  all_goals (simp [hm, mFlagF, mFinal, mCounts, mPre, mToSend] at h1 h2 h3 h4 h5 h6 h7 h8 h9 h10 h11)
  -- addAcqF → addTStartF
  · constructor <;> simp [mFlagF, mFinal, mCounts, mPre, *]
  -- flagAcq → flagRel
  · constructor <;> simp [mFlagF, mFinal, mCounts, mPre]
  -- jAcq1
  · exact joinInv_mRelExitNext _ _ _ h1 h2 h4 (by simp)
  -- jRelExit
  · exact joinInv_late _ rfl h1 h2 (fun e => by simp [mCounts] at e)
  · exact joinInv_mRelExitNext _ _ _ h1 h2 h4 (by simp; omega)
  -- jRel1
  · exact joinInv_mJoinLoop _ _ _ _ h1 h2 h4 (by simp [needStop_eq, stopsInFlight_eq] at h3 ⊢; omega)
  -- jAliveAcq
  · exact joinInv_mAliveNext _ _ _ _ _ _ h1 h2 h4 (by simpa [needStop_eq, stopsInFlight_eq] using h3) h7 (by simp) (by simp)
  -- jAlive
  · obtain ⟨a, b, c⟩ := h8 _ _ _ _ _ rfl rfl rfl rfl rfl
    obtain ⟨d, e⟩ := suffix_step _ _ _ b
    refine joinInv_mAliveNext _ _ _ _ _ _ h1 h2 h4 h3 a d ?_
    intro hc q hq
    rw [e] at hq
    rcases List.mem_append.1 hq with hq | hq
    · exact c (by omega) q hq
    · simp at hq; subst hq; simpa [isDead] using ‹isDead s _ = true›
  · obtain ⟨a, b, c⟩ := h8 _ _ _ _ _ rfl rfl rfl rfl rfl
    obtain ⟨d, e⟩ := suffix_step _ _ _ b
    refine joinInv_mAliveNext _ _ _ _ _ _ h1 h2 h4 h3 a d ?_
    intro hc; omega
  -- jAliveRel
  · obtain ⟨a, c⟩ := h9 _ _ _ _ rfl rfl rfl rfl
    simp only [needStop_eq, stopsInFlight_eq] at h3
    constructor <;> simp [mFlagF, mFinal, mCounts, mPre, mToSend, needStop_eq, stopsInFlight_eq, *] <;> omega
  · obtain ⟨a, c⟩ := h9 _ _ _ _ rfl rfl rfl rfl
    have hd : needStop s = 0 := needStop_dead s (by rw [← h4]; exact c (by omega))
    exact joinInv_mJoinClose _ h1 h2 (by simp [needStop_eq, stopsInFlight_eq] at hd ⊢; omega)
  -- jPut
  · obtain ⟨a, c⟩ := h10 _ _ _ _ rfl rfl rfl rfl
    simp only [needStop_eq, stopsInFlight_eq] at h3
    rw [‹s.fpc = FPc.none›] at h3
    constructor <;> simp [mFlagF, mFinal, mCounts, mPre, mToSend, needStop_eq, stopsInFlight_eq, *] <;> omega
  · obtain ⟨a, c⟩ := h10 _ _ _ _ rfl rfl rfl rfl
    exact joinInv_mAfterPut _ _ _ _ _ a c h1 h2 h4
      (by simp [needStop_eq, stopsInFlight_eq, cstop, isStop] at h3 ⊢; omega)
  · exact joinInv_late _ rfl h1 h2 (fun e => by simp [mCounts] at e)
  · simp only [needStop_eq, stopsInFlight_eq] at h3
    constructor <;> simp [mFlagF, mFinal, mCounts, mPre, mToSend, needStop_eq, stopsInFlight_eq, *]
  -- jPutTStart
  · obtain ⟨a, c, d⟩ := h11 _ _ _ _ rfl rfl rfl rfl
    exact joinInv_mAfterPut _ _ _ _ _ a c h1 h2 h4
      (by simp [needStop_eq, stopsInFlight_eq, cstop, isStop, fstop, d] at h3 ⊢; omega)
  -- jSleep
  · exact joinInv_mJoinLoop s _ _ _ h1 h2 h4 h3
  -- jShutAcq, jShutRel
  · exact joinInv_late _ rfl h1 h2 (fun _ => by simpa [needStop_eq, stopsInFlight_eq] using h3)
  · exact joinInv_late _ rfl h1 h2 (fun _ => by simpa [needStop_eq, stopsInFlight_eq] using h3)
  -- jAcq2, jJoin, jRel2
  · exact joinInv_mJoinProcs _ h1 h2 (by simpa [needStop_eq, stopsInFlight_eq] using h3)
  · exact joinInv_mJoinProcs s h1 h2 h3
  · exact joinInv_late _ rfl h1 h2 (fun _ => by simpa [needStop_eq, stopsInFlight_eq] using h3)

end LokyModel.Exec
