import LokyModel.Lemmas.ExecLiveWakeU
import LokyModel.Lemmas.ExecLiveWakeF
/-! `WakeP` across a user-thread step. -/
namespace LokyModel.Exec
set_option linter.unusedSimpArgs false
set_option linter.unusedVariables false

theorem wakeP_owes (s' : St) (k : Nat) (hk : k < s'.cfg.scripts.length)
    (ho : Need s' → uOwes2 s' (s'.upc k) = true) : WakeP s' :=
  fun n => .inr (.inr (.inl ⟨k, hk, ho n⟩))

theorem wakeP_wake (s' : St) (hw : Need s' → 0 < s'.wakeup) : WakeP s' := fun n => .inl (hw n)

theorem uOwes2_out (s : St) (pc : UPc) (h : uOut pc = true) : uOwes2 s pc = uOwes pc := by
  cases pc <;> simp_all [uOut, uOwes2]

theorem uOwes2_attr (s s' : St) (pc : UPc) (h : s'.attrsDropped = s.attrsDropped ∨ ∀ w, pc ≠ .sdRel1 w) :
    uOwes2 s' pc = uOwes2 s pc := by
  rcases h with h | h
  · unfold uOwes2; rw [h]
  · cases pc <;> simp_all [uOwes2]

/-- nothing that `WW` reads changes, except the program counter of a thread that owed nothing -/
theorem WW_keep (s s' : St) (k : Nat) (pc' : UPc) (hupc : s'.upc = upd s.upc k pc')
    (hcfg : s'.cfg = s.cfg) (hwk : s.wakeup ≤ s'.wakeup) (hrq : s'.rqPipe = s.rqPipe) (hfpc : s'.fpc = s.fpc)
    (hbuf : s'.cqBuf = s.cqBuf) (hpipe : s'.cqPipe = s.cqPipe) (hall : s'.allPids = s.allPids) (hw : s'.w = s.w)
    (hold : uOwes2 s (s.upc k) = false)
    (hattr : s'.attrsDropped = s.attrsDropped ∨ ∀ k', k' < s.cfg.scripts.length → k' ≠ k → ∀ w, s.upc k' ≠ .sdRel1 w) :
    WW s → WW s' := by
  intro h
  unfold WW at h ⊢
  rw [hcfg, hrq, hfpc, hbuf, hpipe, hall, hw]
  rcases h with h | h | h | h
  · exact .inl (by omega)
  · exact .inr (.inl h)
  · obtain ⟨k', hk', ho⟩ := h
    have e : k' ≠ k := by intro e; rw [e, hold] at ho; cases ho
    refine .inr (.inr (.inl ⟨k', hk', ?_⟩))
    rw [hupc, upd_other' _ _ _ _ e, uOwes2_attr s s' _ ?_]
    · exact ho
    · rcases hattr with a | a
      · exact .inl a
      · exact .inr (a k' hk' e)
  · exact .inr (.inr (.inr h))

theorem wakeP_keep (s s' : St) (k : Nat) (pc' : UPc) (h : WakeP s) (hupc : s'.upc = upd s.upc k pc')
    (hcfg : s'.cfg = s.cfg) (hwk : s.wakeup ≤ s'.wakeup) (hrq : s'.rqPipe = s.rqPipe) (hfpc : s'.fpc = s.fpc)
    (hbuf : s'.cqBuf = s.cqBuf) (hpipe : s'.cqPipe = s.cqPipe) (hall : s'.allPids = s.allPids) (hw : s'.w = s.w)
    (hn : Need s' → Need s ∧ uOwes2 s (s.upc k) = false ∧
      (s'.attrsDropped = s.attrsDropped ∨ ∀ k', k' < s.cfg.scripts.length → k' ≠ k → ∀ w, s.upc k' ≠ .sdRel1 w)) :
    WakeP s' := by
  intro n
  obtain ⟨n1, n2, n3⟩ := hn n
  exact WW_keep s s' k pc' hupc hcfg hwk hrq hfpc hbuf hpipe hall hw n2 n3 (h n1)

theorem need_mono (s s' : St) (h1 : s'.mpc = s.mpc) (h5 : s'.pending = s.pending) (h6 : s'.workIds = s.workIds)
    (hx : (s'.globalShutdown || s'.refs == 0 || s'.shutdownFlag) = true →
          (s.globalShutdown || s.refs == 0 || s.shutdownFlag) = true) : Need s' → Need s := by
  unfold Need mustExit
  rw [h1, h5, h6]
  intro ⟨n1, n2⟩
  refine ⟨n1, ?_⟩
  rcases n2 with n2 | n2 | n2
  · exact .inl n2
  · simp only [Bool.and_eq_true] at n2 ⊢
    exact .inr (.inl ⟨hx n2.1, n2.2⟩)
  · exact .inr (.inr n2)

theorem mutex_sdRel1 (s : St) (hx : WX s) (k : Nat) (hk : k < s.cfg.scripts.length) (hin : inShutU' (s.upc k) = true) :
    ∀ k', k' < s.cfg.scripts.length → k' ≠ k → ∀ w, s.upc k' ≠ .sdRel1 w := by
  intro k' hk' e w hw
  have e1 := hx.ownU k hk hin
  have e2 := hx.ownU k' hk' (by rw [hw]; rfl)
  rw [e1] at e2
  cases e2
  exact e rfl

theorem mIdle_not_ended (s : St) (h : mIdle s.mpc = true) : mEnded s = false ∧ s.mpc ≠ .none := by
  cases hm : s.mpc <;> simp_all [mIdle, mEnded]

theorem uRelease_refs (s : St) (k : Nat) : (uRelease s k).refs = s.refs - 1 := by
  unfold uRelease; simp only []; split
  · rfl
  · unfold uNext; split <;> rfl

theorem uRelease_cases (s : St) (k : Nat) (hi : mIdle s.mpc = true) :
    (uRelease s k).upc k = .cbAcq ∨ s.refs - 1 ≠ 0 := by
  obtain ⟨h1, h2⟩ := mIdle_not_ended s hi
  unfold uRelease; simp only []
  split
  · simp [setU, upd]
  · rename_i hc
    right
    intro e
    apply hc
    refine ⟨by simp [e], by simpa using h2, ?_⟩
    have : mEnded { s with refs := s.refs - 1 } = mEnded s := rfl
    rw [this, h1]; rfl

/-- a thread lets go of its reference: either the weak-reference callback runs, or the executor is still referenced -/
theorem wakeP_uRelease (s s1 : St) (k : Nat) (hk : k < s.cfg.scripts.length) (h : WakeP s)
    (hupc : s1.upc = s.upc) (hcfg : s1.cfg = s.cfg) (hwk : s.wakeup ≤ s1.wakeup) (hrq : s1.rqPipe = s.rqPipe)
    (hfpc : s1.fpc = s.fpc) (hbuf : s1.cqBuf = s.cqBuf) (hpipe : s1.cqPipe = s.cqPipe) (hall : s1.allPids = s.allPids)
    (hw : s1.w = s.w) (hmpc : s1.mpc = s.mpc) (hgs : s1.globalShutdown = s.globalShutdown)
    (hsf : s1.shutdownFlag = s.shutdownFlag) (hpe : s1.pending = s.pending) (hwi : s1.workIds = s.workIds)
    (hrefs : s1.refs = s.refs)
    (hold : uOwes2 s (s.upc k) = false)
    (hattr : s1.attrsDropped = s.attrsDropped ∨ ∀ k', k' < s.cfg.scripts.length → k' ≠ k → ∀ w, s.upc k' ≠ .sdRel1 w) :
    WakeP (uRelease s1 k) := by
  intro n
  have hi : mIdle s1.mpc = true := by simpa using n.1
  rcases uRelease_cases s1 k hi with hc | hc
  · refine .inr (.inr (.inl ⟨k, by simpa [hcfg] using hk, ?_⟩))
    rw [hc]; rfl
  · refine WW_keep s _ k _ (by rw [uRelease_eq, hupc]) (by simpa using hcfg) (by simpa using hwk) (by simpa using hrq)
      (by simpa using hfpc) (by simpa using hbuf) (by simpa using hpipe) (by simpa using hall) (by simpa using hw) hold
      (by simpa using hattr) (h ?_)
    refine need_mono s _ (by simpa using hmpc) (by simpa using hpe) (by simpa using hwi) ?_ n
    rw [uRelease_refs]
    simp only [uRelease_globalShutdown, uRelease_shutdownFlag, hgs, hsf, hrefs] at hc ⊢
    intro hx
    simp only [Bool.or_eq_true, beq_iff_eq] at hx ⊢
    rcases hx with (hx | hx) | hx
    · exact .inl (.inl hx)
    · exact absurd hx hc
    · exact .inr hx

theorem flags_mono (a b c a' b' c' : Bool) (ha : a' = true → a = true) (hb : b' = true → b = true)
    (hc : c' = true → c = true) : (a' || b' || c') = true → (a || b || c) = true := by
  cases a' <;> cases b' <;> cases c' <;> simp_all

theorem wakeP_uDispatch (s : St) (k : Nat) (op : UOp) (hk : k < s.cfg.scripts.length) (h : WakeP s) (hx : WX s)
    (hold : uOwes2 s (s.upc k) = false) : WakeP (uDispatch s k op) := by
  unfold uDispatch
  (repeat' split)
  all_goals (first
    | (refine wakeP_uRelease s _ k hk h rfl rfl (Nat.le_refl _) rfl rfl rfl rfl rfl rfl rfl rfl rfl rfl rfl rfl hold (.inl rfl))
    | (refine wakeP_owes _ k hk ?_; intro _; simp [setU, upd, uOwes2, uOwes]; done)
    | (refine wakeP_keep s _ k ?_ h ?_ ?_ ?_ ?_ ?_ ?_ ?_ ?_ ?_ ?_
       all_goals (first
        | exact uNext_eq _ _
        | rfl
        | (simp; done)
        | (intro n
           refine ⟨need_mono s _ ?_ ?_ ?_ ?_ n, hold, .inl ?_⟩
           all_goals (first
            | rfl
            | (simp; done)
            | (simp only [uNext_globalShutdown, uNext_refs, uNext_shutdownFlag, setU_globalShutdown, setU_refs, setU_shutdownFlag]
               apply flags_mono <;> simp)
            | skip))
        | skip)
       done)
    | (intro n
       exfalso
       have hi : mIdle s.mpc = true := by simpa using n.1
       obtain ⟨e1, e2⟩ := mIdle_not_ended s hi
       have := hx.reg e2 e1
       rename_i hc
       apply hc
       simp [*]))

theorem mIdle_of_ended (s : St) (h : mEnded s = true) : mIdle s.mpc = false := by
  cases hm : s.mpc <;> simp_all [mIdle, mEnded]

theorem uSpawnLoop_owes (s s2 : St) (k : Nat) : uOwes2 s2 ((uSpawnLoop s k).upc k) = true := by
  unfold uSpawnLoop; (repeat' split) <;> simp [setU, upd, uOwes2, uOwes]

set_option maxHeartbeats 8000000 in
theorem wakeP_stepU (s s' : St) (k : Nat) (v : Variant) (hk : k < s.cfg.scripts.length) (hst : staticOk s = true)
    (hx : WX s) (h : WakeP s) (hs : stepU s k v = some s') : WakeP s' := by
  have hwc := static_wc s hst
  have hmx := mutex_sdRel1 s hx k hk
  have hrg := hx.relG k hk
  have hdr := hx.drop
  unfold stepU at hs
  crack
  all_goals (first
    | (exact wakeP_uDispatch s k _ hk h hx (by simp [*, uOwes2, uOwes]))
    | (refine wakeP_busy ?_; simp; first | exact mIdle_of_ended s ‹_› | exact mIdle_of_ended s (hrg ‹_›))
    | (refine wakeP_owes _ k (by simpa using hk) ?_; intro _
       first | (simp [setU, upd, uOwes2, uOwes]; done) | exact uSpawnLoop_owes _ _ _)
    | (refine wakeP_wake _ ?_; intro _; simp; done)
    | (intro n; exfalso; have := hwc (by simpa using n.1); simp_all; done)
    | (refine wakeP_uRelease s _ k hk h rfl rfl (Nat.le_refl _) rfl rfl rfl rfl rfl rfl rfl rfl rfl rfl rfl rfl ?_ ?_
       · simp [*, uOwes2, uOwes]
       · first | exact .inl rfl | exact .inr (hmx (by simp [*, inShutU'])))
    | (refine wakeP_keep s _ k ?_ h ?_ ?_ ?_ ?_ ?_ ?_ ?_ ?_ ?_ ?_
       all_goals (first
        | exact uNext_eq _ _
        | rfl
        | (simp; done)
        | (intro n
           refine ⟨need_mono s _ ?_ ?_ ?_ ?_ n, ?_, .inl ?_⟩
           all_goals (first
            | rfl
            | (simp; done)
            | (simp [*, uOwes2, uOwes]; done)
            | (simp only [uNext_globalShutdown, uNext_refs, uNext_shutdownFlag, setU_globalShutdown, setU_refs, setU_shutdownFlag]
               apply flags_mono <;> simp)
            | skip))
        | skip)
       done)
    | (by_cases hd : s.attrsDropped = true
       · have hsf := hdr hd
         refine wakeP_keep s _ k ?_ h ?_ ?_ ?_ ?_ ?_ ?_ ?_ ?_ ?_ ?_
         all_goals (first
          | rfl
          | exact Nat.le_refl _
          | (intro n
             refine ⟨need_mono s _ ?_ ?_ ?_ ?_ n, by simp [*, uOwes2, uOwes], .inl rfl⟩
             all_goals (first | rfl | (simp [hsf]; done)))
          | skip)
       · refine wakeP_owes _ k (by simpa using hk) ?_
         intro _
         simp [setU, upd, uOwes2, hd]))

end LokyModel.Exec
