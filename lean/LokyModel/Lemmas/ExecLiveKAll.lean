import LokyModel.Lemmas.ExecLiveKStuck
import LokyModel.Lemmas.ExecLiveCrashAll
/-!
# Assembly: static pools with forced shutdowns are never stuck (worker deaths at lock-free points included)

A lock-free crash run (`ReachableLF`) of a `staticPoolK` configuration is, at every state, in one of two phases:

* **phase 1** — the manager has not yet seen the kill flag: the un-killed state `s.unkill` is a state of a lock-free crash
  run of the *static* pool `cfg.unkill` (`step_unkill`: every step other than the manager's discovery of the flag commutes
  with `St.unkill`), so everything proved for static pools (`ExecLiveCrashAll.lean`) applies to it;
* **phase 2** — the manager has seen the flag: `LateInv` (`ExecLiveKLate.lean`).

A quiescent state of phase 1 is good by `stuck_good_LF` (the same steps are enabled in `s.unkill`, and `good` does not
see the difference); a quiescent state of phase 2 is good by `stuck_good_late`.
-/
namespace LokyModel.Exec

theorem lockFree_unkill (s : St) (p : Pid) : lockFree (s.unkill.w p) = lockFree (s.w p) := rfl

/-- what phase 1 knows about the state in which the manager discovers the kill flag -/
theorem lateInv_of_phase1 {cfg : Cfg} (hc : cfg.staticPoolK = true) {s s' : St} {v : Variant}
    (h1 : ReachableLF cfg.unkill s.unkill) (hm : s.mpc = .flagRel) (hk : s.killFlag = true)
    (hs : stepM s v = some s') : LateInv s' := by
  have hcu := staticPool_unkill cfg hc
  have hr1 := h1.reachable
  have hst := staticC_reachableLF hcu h1
  have CF := staticC_facts _ hst
  have SF := small_facts _ (smallOk_reachableLF hcu h1)
  have hh := (holderInvC_of_bool (pidsInv_reachable hr1) (holderC'_reachableLF hcu h1)).1
  refine lateInv_entry hs hm hk ?_ ?_ ?_ (holderInv4_of_unkill (holderInv4_of_C hh)) ?_
  · exact CF.reg (by show mLateK s.mpc = false; rw [hm]; rfl)
  · exact CF.wnever
  · exact (staticCInv_reachableLF hcu h1).2
  · intro k hk' hp
    have := SF.api k (by rw [unkill_scripts_length]; exact hk') (by show (s.upc k).unkill = .api; rw [hp]; rfl)
    have e : (s.unkill.ucur k) = (s.ucur k).map UOp.unkill := rfl
    rw [e, Option.isSome_map] at this
    exact this

/-- **the two phases** of a lock-free crash run of a static pool with forced shutdowns -/
theorem phaseK_reachableLF {cfg : Cfg} (hc : cfg.staticPoolK = true) {s : St} (h : ReachableLF cfg s) :
    ReachableLF cfg.unkill s.unkill ∨ LateInv s := by
  induction h with
  | init => left; rw [← init_unkill]; exact .init
  | @step s s' a v hr hv hs ih =>
    have hcfg : s.cfg.staticPoolK = true := by rw [cfg_reachable hr.reachable]; exact hc
    rcases ih with h1 | h2
    · cases hk : seesKill s a with
      | false => exact .inl (.step h1 hv (step_unkill_some hs hk))
      | true =>
        right
        simp only [seesKill, Bool.and_eq_true, beq_iff_eq] at hk
        obtain ⟨⟨ha, hm⟩, hkf⟩ := hk
        subst ha
        exact lateInv_of_phase1 hc h1 hm hkf hs
    · exact .inr (lateInv_step hs hcfg (shutInv_reachable hr.reachable) h2)
  | @crash s s' p hr hl hs ih =>
    have hcfg : s.cfg.staticPoolK = true := by rw [cfg_reachable hr.reachable]; exact hc
    rcases ih with h1 | h2
    · exact .inl (.crash h1 hl (step_unkill_some hs (by simp [seesKill])))
    · exact .inr (lateInv_step hs hcfg (shutInv_reachable hr.reachable) h2)

/-- **static pools with forced shutdowns, worker deaths at lock-free points included: a quiescent state is a good one** -/
theorem stuck_good_K (cfg : Cfg) (hc : cfg.staticPoolK = true) (s : St) (h : ReachableLF cfg s)
    (hq : enabledNC s = []) : good s = true := by
  have hr := h.reachable
  rcases phaseK_reachableLF hc h with h1 | h2
  · -- phase 1: the un-killed state is a quiescent state of a static pool
    have hnf : (s.mpc == .flagRel && s.killFlag) = false := by
      cases hm : s.mpc == .flagRel with
      | false => rfl
      | true =>
        exfalso
        have hm' : s.mpc = .flagRel := by simpa using hm
        have := (quiet_M s hq).1
        unfold stepM at this
        rw [hm'] at this
        simp at this
    have hg := stuck_good_LF cfg.unkill (staticPool_unkill cfg hc) s.unkill h1 (by rw [enabledNC_unkill s hnf]; exact hq)
    rwa [good_unkill] at hg
  · -- phase 2
    refine stuck_good_late s h2 ?_ ?_ hq
    · intro i hi hdn
      apply Decidable.byContradiction
      intro hm
      have := (futInv_reachable hr).resolved i hi hm
      rw [hdn] at this; cases this
    · intro he
      refine termInv_reachable hr ?_
      unfold mEnded at he
      cases hm : s.mpc <;> simp only [hm] at he <;> first | rfl | cases he

end LokyModel.Exec
