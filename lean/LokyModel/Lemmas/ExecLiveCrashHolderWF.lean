import LokyModel.Lemmas.ExecLiveCrashHolderBase
/-! `HolderInvC` over the steps of the feeder thread and of a worker (crash of a lock-free worker included). -/
namespace LokyModel.Exec

set_option maxHeartbeats 4000000 in
theorem holderInvC_stepF (s s' : St) (v : Variant) (h : HolderInvC s) (hs : stepF s v = some s') : HolderInvC s' := by
  unfold stepF at hs
  crack
  all_goals (refine holderInvC_F h ?_ ?_ ?_ ?_ ?_ ?_ ?_ ?_ ?_ ?_ ?_ ?_ ?_ ?_ ?_ ?_)
  all_goals (first
    | rfl
    | (simp [*]; done)
    | (hpc; simp [Tri, inCqWF, inShutF', *]; done))

set_option maxHeartbeats 4000000 in
/-- a worker's step: an ordinary one, or its death at a point at which it holds no lock.  In a static pool the worker is
    never at the idle time-out's `eTry`/`eRel`, the only places at which a worker touches the process-management lock. -/
theorem holderInvC_stepW (s s' : St) (p : Pid) (v : Variant) (hlf : v = .crash → lockFree (s.w p) = true)
    (hwn : wNever (s.w p) = false) (h : HolderInvC s) (hs : stepW s p v = some s') : HolderInvC s' := by
  have hl1 : v = .crash → inRqW (s.w p) = false := by
    intro e; have := hlf e; simp only [lockFree, Bool.and_eq_true, Bool.not_eq_true'] at this; exact this.1.2
  have hl2 : v = .crash → inCqR (s.w p) = false := by
    intro e; have := hlf e; simp only [lockFree, Bool.and_eq_true, Bool.not_eq_true'] at this; exact this.1.1
  unfold stepW at hs
  crack
  all_goals (refine holderInvC_W h p ?_ ?_ ?_ ?_ ?_ ?_ ?_ ?_ ?_ ?_ ?_ ?_ ?_ ?_ ?_ ?_)
  all_goals (first
    | rfl
    | (simp; done)
    | (intro q hq; simp [wAfterStart_w_other, wGet_w_other, wDispatch_w_other, wAfterResult_w_other, setW_w_other, die_w_other, hq]; done)
    | (hpc; simp [Tri, inRqW, inCqR, *]; done)
    | (hpc; exact .inl ⟨rfl, rfl, by rw [hl1 rfl]; rfl⟩)
    | (hpc; exact .inl ⟨rfl, rfl, by rw [hl2 rfl]; rfl⟩)
    | (exfalso; simp_all [wNever]; done))

end LokyModel.Exec
