import LokyModel.Lemmas.ExecNoBreakU
namespace LokyModel.Exec

set_option maxHeartbeats 8000000 in
theorem stepM_upc (s s' : St) (v : Variant) (hs : stepM s v = some s') : s'.upc = s.upc := by
  unfold stepM at hs
  crack_step
  all_goals (first | rfl | (simp; done))

set_option maxHeartbeats 8000000 in
theorem stepF_upc_mpc (s s' : St) (v : Variant) (hs : stepF s v = some s') : s'.upc = s.upc ∧ s'.mpc = s.mpc := by
  unfold stepF at hs
  crack_step
  all_goals (first | exact ⟨rfl, rfl⟩ | (simp; done))

set_option maxHeartbeats 8000000 in
theorem stepW_upc_mpc (s s' : St) (p : Pid) (v : Variant) (hs : stepW s p v = some s') :
    s'.upc = s.upc ∧ s'.mpc = s.mpc := by
  unfold stepW at hs
  crack_step
  all_goals (first | exact ⟨rfl, rfl⟩ | (simp; done))

theorem stepM_none (s : St) (v : Variant) (h : s.mpc = .none) : stepM s v = none := by
  unfold stepM; simp [h]

theorem tstartInv_init (cfg : Cfg) : TStartInv (init cfg) := by
  intro k hk; rfl

theorem tstartInv_step {s s' : St} {a : Actor} {v : Variant} (hi : MgmtInv s) (h : TStartInv s)
    (hs : step s a v = some s') : TStartInv s' := by
  unfold step at hs
  cases a with
  | U k => simp only [] at hs; split at hs; exact tstartInv_stepU s s' k v hi h hs; cases hs
  | M =>
    simp only [] at hs
    intro k hk
    rw [stepM_upc s s' v hs] at hk
    have := stepM_none s v (h k hk)
    rw [this] at hs; cases hs
  | F =>
    simp only [] at hs
    obtain ⟨h1, h2⟩ := stepF_upc_mpc s s' v hs
    intro k hk; rw [h1] at hk; rw [h2]; exact h k hk
  | W p =>
    simp only [] at hs; split at hs
    · obtain ⟨h1, h2⟩ := stepW_upc_mpc s s' p v hs
      intro k hk; rw [h1] at hk; rw [h2]; exact h k hk
    · cases hs

theorem tstartInv_reachable {cfg : Cfg} {s : St} (h : Reachable cfg s) : TStartInv s := by
  induction h with
  | init => exact tstartInv_init cfg
  | step hr hs ih => exact tstartInv_step (mgmtInv_reachable hr) ih hs

theorem nbInv_step {s s' : St} {a : Actor} {v : Variant} (hb : s.cfg.benign) (hv : v ≠ .crash)
    (ht : TStartInv s) (h : NBInv s) (hs : step s a v = some s') : NBInv s' := by
  unfold step at hs
  cases a with
  | U k => simp only [] at hs; split at hs; exact nbInv_stepU s s' k v ht h hs; cases hs
  | M => exact nbInv_stepM s s' v h hs
  | F => exact nbInv_stepF s s' v h hs
  | W p => simp only [] at hs; split at hs; exact nbInv_stepW s s' p v hb hv h hs; cases hs

theorem nbInv_reachableNC {cfg : Cfg} (hb : cfg.benign) {s : St} (h : ReachableNC cfg s) : NBInv s := by
  induction h with
  | init => exact nbInv_init cfg
  | step hr hv hs ih =>
    have hr' := hr.reachable
    exact nbInv_step (by rw [cfg_reachable hr']; exact hb) hv (tstartInv_reachable hr') ih hs

end LokyModel.Exec
