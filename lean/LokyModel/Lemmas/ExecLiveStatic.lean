import LokyModel.Lemmas.ExecLiveStaticW
import LokyModel.Lemmas.ExecLiveStaticF
import LokyModel.Lemmas.ExecLiveStaticM
import LokyModel.Lemmas.ExecLiveStaticU
/-!
# `staticOk`, strengthened to `staticOk'`, is an inductive invariant of static-pool configurations

`staticOk' s = staticOk s && staticX s` (`LokyModel/ExecLiveStaticDef.lean`).  Steps other than crashes preserve it, given —
about the pre-state only — `PidsInv`, the scope `Cfg.staticPool`, `holderOk` and `LeakFree` (no worker has the leak mark; this
is an inductive invariant by itself, `leakFree_step`, and is kept apart only because it speaks about all process ids, listed or
not, so it is not executable).  Per actor: `ExecLiveStaticW/F/M/U.lean`.
-/
namespace LokyModel.Exec
open StaticP
set_option linter.unusedSimpArgs false

/-! ### the configuration never changes; no worker is ever marked as leaking -/

set_option maxHeartbeats 8000000 in
theorem StaticP.cfg_step {s s' : St} {a : Actor} {v : Variant} (hs : step s a v = some s') : s'.cfg = s.cfg := by
  unfold step at hs
  cases a with
  | U k =>
    simp only [] at hs; split at hs
    · unfold stepU at hs; crack
      all_goals (first | rfl | (simp; done) | (unfold uDispatch; (repeat' split) <;> simp; done))
    · cases hs
  | M => unfold stepM at hs; crack; all_goals (first | rfl | (simp; done))
  | F => unfold stepF at hs; crack; all_goals (first | rfl | (simp; done))
  | W p =>
    simp only [] at hs; split at hs
    · unfold stepW at hs; crack; all_goals (first | rfl | (simp; done))
    · cases hs

def LeakFree (s : St) : Prop := ∀ p, s.leaky p = false

theorem leakFree_init (cfg : Cfg) : LeakFree (init cfg) := fun _ => rfl

set_option maxHeartbeats 8000000 in
theorem leakFree_step {s s' : St} {a : Actor} {v : Variant} (hs : step s a v = some s') (hc : s.cfg.staticPool = true)
    (h : LeakFree s) : LeakFree s' := by
  have hlk := sp_leak hc
  suffices e : s'.leaky = s.leaky by intro p; rw [e]; exact h p
  unfold step at hs
  cases a with
  | U k =>
    simp only [] at hs; split at hs
    · unfold stepU at hs; crack
      all_goals (first | rfl | (simp; done) | (unfold uDispatch; (repeat' split) <;> simp; done))
    · cases hs
  | M => unfold stepM at hs; crack; all_goals (first | rfl | (simp; done))
  | F => unfold stepF at hs; crack; all_goals (first | rfl | (simp; done))
  | W p =>
    simp only [] at hs; split at hs
    · unfold stepW at hs; crack; all_goals (first | rfl | (simp; done) | (simp_all; done))
    · cases hs

/-! ### the invariant -/

theorem staticOk'_init (cfg : Cfg) (hc : cfg.staticPool = true) : staticOk' (init cfg) = true :=
  bool_of_si _ (si_init cfg hc)

theorem staticOk'_step {s s' : St} {a : Actor} {v : Variant} (hv : v ≠ .crash) (hs : step s a v = some s')
    (hp : PidsInv s) (hc : s.cfg.staticPool = true) (hh : holderOk s = true) (hl : LeakFree s)
    (h : staticOk' s = true) : staticOk' s' = true := by
  have hi := si_of_bool s h
  apply bool_of_si
  unfold step at hs
  cases a with
  | U k =>
    simp only [] at hs; split at hs
    · exact (si_stepU s s' k v hi hh (by assumption) hl hs).1
    · cases hs
  | M => exact (si_stepM s s' v hi hp hl hs).1
  | F => exact (si_stepF s s' v hi hl hs).1
  | W p =>
    simp only [] at hs; split at hs
    · exact (si_stepW s s' p v hv hc (by assumption) hi hl hs).1
    · cases hs

theorem staticOk_of_staticOk' {s : St} (h : staticOk' s = true) : staticOk s = true := by
  unfold staticOk' at h
  exact (Bool.and_eq_true _ _ ▸ h).1

/-- both parts together -/
def StaticInv (s : St) : Prop := staticOk' s = true ∧ LeakFree s

theorem staticInv_init (cfg : Cfg) (hc : cfg.staticPool = true) : StaticInv (init cfg) :=
  ⟨staticOk'_init cfg hc, leakFree_init cfg⟩

theorem staticInv_step {s s' : St} {a : Actor} {v : Variant} (hv : v ≠ .crash) (hs : step s a v = some s')
    (hp : PidsInv s) (hc : s.cfg.staticPool = true) (hh : holderOk s = true) (h : StaticInv s) : StaticInv s' :=
  ⟨staticOk'_step hv hs hp hc hh h.2 h.1, leakFree_step hs hc h.2⟩

theorem staticOk_of_inv {s : St} (h : StaticInv s) : staticOk s = true := staticOk_of_staticOk' h.1

end LokyModel.Exec
