import LokyModel.Lemmas.ExecLiveStaticBase
/-! `staticOk'`: steps of the manager thread. -/
namespace LokyModel.Exec.StaticP
set_option linter.unusedSimpArgs false

/-! ### what the manager's continuations leave in the program counter -/

/-- the simple facts that hold of every program counter a continuation produces -/
def mRes (m : MPc) : Bool := !mNever m && !mEmptyL m && m != .none && m != .recv && !isClrRecv m

theorem mRes_parts (m : MPc) (h : mRes m = true) :
    mNever m = false ∧ mEmptyL m = false ∧ m ≠ .none ∧ m ≠ .recv ∧ isClrRecv m = false := by
  simpa [mRes, and_assoc] using h

theorem mAddFuel_res (n : Nat) (s : St) :
    mRes (mAddFuel n s).mpc = true ∧ mFinal (mAddFuel n s).mpc = false ∧ mLate (mAddFuel n s).mpc = false ∧
    (∀ p ∈ snapOf (mAddFuel n s).mpc, p ∈ s.procDict) := by
  induction n generalizing s with
  | zero => simp [mAddFuel, mRes, mNever, mEmptyL, isClrRecv, mFinal, mLate, snapOf]
  | succ n ih =>
    unfold mAddFuel
    split
    · simp [mRes, mNever, mEmptyL, isClrRecv, mFinal, mLate, snapOf]
    · split
      · simp [mRes, mNever, mEmptyL, isClrRecv, mFinal, mLate, snapOf]
      · split
        · exact ih _
        · simp [setFut, mRes, mNever, mEmptyL, isClrRecv, mFinal, mLate, snapOf]

theorem mAdd_res (s : St) :
    mRes (mAdd s).mpc = true ∧ mFinal (mAdd s).mpc = false ∧ mLate (mAdd s).mpc = false ∧
    (∀ p ∈ snapOf (mAdd s).mpc, p ∈ s.procDict) := mAddFuel_res _ s

theorem mAfterItem_res (s : St) :
    mRes (mAfterItem s).mpc = true ∧ mFinal (mAfterItem s).mpc = false ∧ mLate (mAfterItem s).mpc = false ∧
    (∀ p ∈ snapOf (mAfterItem s).mpc, p ∈ s.procDict) := by
  unfold mAfterItem
  split
  · simp [mRes, mNever, mEmptyL, isClrRecv, mFinal, mLate, snapOf]
  · exact mAdd_res s

theorem mProcess_res (s : St) (r : Option RMsg) (hr : mNever (.clrPoll (.item r)) = false) :
    mRes (mProcess s r).mpc = true ∧ mFinal (mProcess s r).mpc = false ∧ mLate (mProcess s r).mpc = false ∧
    (∀ p ∈ snapOf (mProcess s r).mpc, p ∈ s.procDict) := by
  unfold mProcess
  split
  · exact mAfterItem_res s
  · exact mAfterItem_res s
  · split
    · exact mAfterItem_res _
    · exact mAfterItem_res s
  · simp [mNever] at hr

theorem mAfterAddF_res (s : St) (h : mRes s.mpc = true ∧ mLate s.mpc = false ∧ (∀ p ∈ snapOf s.mpc, p ∈ s.procDict)) :
    mRes (mAfterAddF s).mpc = true ∧ mLate (mAfterAddF s).mpc = false ∧
    (∀ p ∈ snapOf (mAfterAddF s).mpc, p ∈ s.procDict) := by
  unfold mAfterAddF
  split
  · simp [mRes, mNever, mEmptyL, isClrRecv, mLate, snapOf]
  · split
    · simp [mJoinStart, mRes, mNever, mEmptyL, isClrRecv, mLate, snapOf]
    · exact h
  · exact h

theorem mAddF_res (s : St) :
    mRes (mAddF s).mpc = true ∧ mLate (mAddF s).mpc = false ∧ (∀ p ∈ snapOf (mAddF s).mpc, p ∈ s.procDict) := by
  have h := mAdd_res s
  have := mAfterAddF_res (mAdd s) ⟨h.1, h.2.2.1, by simpa using h.2.2.2⟩
  simpa [mAddF] using this

theorem mAfterFlag_eq (s : St) (hk : s.killFlag = false) :
    mAfterFlag s = if s.pending = [] then mJoinStart s else mAddF s := by
  simp [mAfterFlag, hk]

theorem mAfterFlag_res (s : St) (hk : s.killFlag = false) :
    mRes (mAfterFlag s).mpc = true ∧ mLate (mAfterFlag s).mpc = false ∧
    (∀ p ∈ snapOf (mAfterFlag s).mpc, p ∈ s.procDict) ∧ (mAfterFlag s).procDict = s.procDict := by
  rw [mAfterFlag_eq s hk]
  split
  · simp [mJoinStart, mRes, mNever, mEmptyL, isClrRecv, mLate, snapOf]
  · have := mAddF_res s
    exact ⟨this.1, this.2.1, this.2.2, by simp⟩

theorem mRelExitNext_res (s : St) (ps : List Pid) (n : Nat) :
    mRes (mRelExitNext s ps n).mpc = true ∧ mFinal (mRelExitNext s ps n).mpc = true ∧
    mLate (mRelExitNext s ps n).mpc = false ∧ snapOf (mRelExitNext s ps n).mpc = [] := by
  unfold mRelExitNext; split <;> simp [mRes, mNever, mEmptyL, isClrRecv, mFinal, mLate, snapOf]

theorem mAliveNext_res (s : St) (ps : List Pid) (c n sent cool : Nat) :
    mRes (mAliveNext s ps c n sent cool).mpc = true ∧ mFinal (mAliveNext s ps c n sent cool).mpc = true ∧
    mLate (mAliveNext s ps c n sent cool).mpc = false ∧ snapOf (mAliveNext s ps c n sent cool).mpc = [] := by
  unfold mAliveNext; split <;> simp [mRes, mNever, mEmptyL, isClrRecv, mFinal, mLate, snapOf]

theorem mJoinProcs_res (s : St) :
    mRes (mJoinProcs s).mpc = true ∧ mFinal (mJoinProcs s).mpc = true ∧
    mLate (mJoinProcs s).mpc = true ∧ snapOf (mJoinProcs s).mpc = [] := by
  unfold mJoinProcs; split <;> simp [mRes, mNever, mEmptyL, isClrRecv, mFinal, mLate, snapOf]

theorem mJoinClose_res (s : St) :
    mRes (mJoinClose s).mpc = true ∧ mFinal (mJoinClose s).mpc = true ∧
    mLate (mJoinClose s).mpc = true ∧ snapOf (mJoinClose s).mpc = [] := by
  unfold mJoinClose; simp [mRes, mNever, mEmptyL, isClrRecv, mFinal, mLate, snapOf]

theorem mJoinLoop_res (s : St) (n sent cool : Nat) :
    mRes (mJoinLoop s n sent cool).mpc = true ∧ mFinal (mJoinLoop s n sent cool).mpc = true ∧
    snapOf (mJoinLoop s n sent cool).mpc = [] := by
  unfold mJoinLoop; split
  · simp [mRes, mNever, mEmptyL, isClrRecv, mFinal, mLate, snapOf]
  · have := mJoinClose_res s; exact ⟨this.1, this.2.1, this.2.2.2⟩

theorem mAfterPut_res (s : St) (k n sent cool : Nat) :
    mRes (mAfterPut s k n sent cool).mpc = true ∧ mFinal (mAfterPut s k n sent cool).mpc = true ∧
    snapOf (mAfterPut s k n sent cool).mpc = [] := by
  unfold mAfterPut; split
  · exact mJoinLoop_res _ _ _ _
  · simp [mRes, mNever, mEmptyL, isClrRecv, mFinal, mLate, snapOf]

/-! ### the same, in the form `simp` uses -/

theorem mAdd_sf (s : St) :
    mNever (mAdd s).mpc = false ∧
    mEmptyL (mAdd s).mpc = false ∧
    (mAdd s).mpc ≠ .none ∧
    (mAdd s).mpc ≠ .recv ∧
    isClrRecv (mAdd s).mpc = false ∧
    mFinal (mAdd s).mpc = false ∧
    mLate (mAdd s).mpc = false := by
  have R := mAdd_res s
  exact ⟨(mRes_parts _ R.1).1, (mRes_parts _ R.1).2.1, (mRes_parts _ R.1).2.2.1, (mRes_parts _ R.1).2.2.2.1, (mRes_parts _ R.1).2.2.2.2, R.2.1, R.2.2.1⟩

theorem mAfterItem_sf (s : St) :
    mNever (mAfterItem s).mpc = false ∧
    mEmptyL (mAfterItem s).mpc = false ∧
    (mAfterItem s).mpc ≠ .none ∧
    (mAfterItem s).mpc ≠ .recv ∧
    isClrRecv (mAfterItem s).mpc = false ∧
    mFinal (mAfterItem s).mpc = false ∧
    mLate (mAfterItem s).mpc = false := by
  have R := mAfterItem_res s
  exact ⟨(mRes_parts _ R.1).1, (mRes_parts _ R.1).2.1, (mRes_parts _ R.1).2.2.1, (mRes_parts _ R.1).2.2.2.1, (mRes_parts _ R.1).2.2.2.2, R.2.1, R.2.2.1⟩

theorem mProcess_sf (s : St) (r : Option RMsg) (hr : mNever (.clrPoll (.item r)) = false) :
    mNever (mProcess s r).mpc = false ∧
    mEmptyL (mProcess s r).mpc = false ∧
    (mProcess s r).mpc ≠ .none ∧
    (mProcess s r).mpc ≠ .recv ∧
    isClrRecv (mProcess s r).mpc = false ∧
    mFinal (mProcess s r).mpc = false ∧
    mLate (mProcess s r).mpc = false := by
  have R := mProcess_res s r hr
  exact ⟨(mRes_parts _ R.1).1, (mRes_parts _ R.1).2.1, (mRes_parts _ R.1).2.2.1, (mRes_parts _ R.1).2.2.2.1, (mRes_parts _ R.1).2.2.2.2, R.2.1, R.2.2.1⟩

theorem mAddF_sf (s : St) :
    mNever (mAddF s).mpc = false ∧
    mEmptyL (mAddF s).mpc = false ∧
    (mAddF s).mpc ≠ .none ∧
    (mAddF s).mpc ≠ .recv ∧
    isClrRecv (mAddF s).mpc = false ∧
    mLate (mAddF s).mpc = false := by
  have R := mAddF_res s
  exact ⟨(mRes_parts _ R.1).1, (mRes_parts _ R.1).2.1, (mRes_parts _ R.1).2.2.1, (mRes_parts _ R.1).2.2.2.1, (mRes_parts _ R.1).2.2.2.2, R.2.1⟩

theorem mAfterFlag_sf (s : St) (hk : s.killFlag = false) :
    mNever (mAfterFlag s).mpc = false ∧
    mEmptyL (mAfterFlag s).mpc = false ∧
    (mAfterFlag s).mpc ≠ .none ∧
    (mAfterFlag s).mpc ≠ .recv ∧
    isClrRecv (mAfterFlag s).mpc = false ∧
    mLate (mAfterFlag s).mpc = false := by
  have R := mAfterFlag_res s hk
  exact ⟨(mRes_parts _ R.1).1, (mRes_parts _ R.1).2.1, (mRes_parts _ R.1).2.2.1, (mRes_parts _ R.1).2.2.2.1, (mRes_parts _ R.1).2.2.2.2, R.2.1⟩

theorem mRelExitNext_sf (s : St) (ps : List Pid) (n : Nat) :
    mNever (mRelExitNext s ps n).mpc = false ∧
    mEmptyL (mRelExitNext s ps n).mpc = false ∧
    (mRelExitNext s ps n).mpc ≠ .none ∧
    (mRelExitNext s ps n).mpc ≠ .recv ∧
    isClrRecv (mRelExitNext s ps n).mpc = false ∧
    mFinal (mRelExitNext s ps n).mpc = true ∧
    mLate (mRelExitNext s ps n).mpc = false := by
  have R := mRelExitNext_res s ps n
  exact ⟨(mRes_parts _ R.1).1, (mRes_parts _ R.1).2.1, (mRes_parts _ R.1).2.2.1, (mRes_parts _ R.1).2.2.2.1, (mRes_parts _ R.1).2.2.2.2, R.2.1, R.2.2.1⟩

theorem mAliveNext_sf (s : St) (ps : List Pid) (c n sent cool : Nat) :
    mNever (mAliveNext s ps c n sent cool).mpc = false ∧
    mEmptyL (mAliveNext s ps c n sent cool).mpc = false ∧
    (mAliveNext s ps c n sent cool).mpc ≠ .none ∧
    (mAliveNext s ps c n sent cool).mpc ≠ .recv ∧
    isClrRecv (mAliveNext s ps c n sent cool).mpc = false ∧
    mFinal (mAliveNext s ps c n sent cool).mpc = true ∧
    mLate (mAliveNext s ps c n sent cool).mpc = false := by
  have R := mAliveNext_res s ps c n sent cool
  exact ⟨(mRes_parts _ R.1).1, (mRes_parts _ R.1).2.1, (mRes_parts _ R.1).2.2.1, (mRes_parts _ R.1).2.2.2.1, (mRes_parts _ R.1).2.2.2.2, R.2.1, R.2.2.1⟩

theorem mJoinProcs_sf (s : St) :
    mNever (mJoinProcs s).mpc = false ∧
    mEmptyL (mJoinProcs s).mpc = false ∧
    (mJoinProcs s).mpc ≠ .none ∧
    (mJoinProcs s).mpc ≠ .recv ∧
    isClrRecv (mJoinProcs s).mpc = false ∧
    mFinal (mJoinProcs s).mpc = true ∧
    mLate (mJoinProcs s).mpc = true := by
  have R := mJoinProcs_res s
  exact ⟨(mRes_parts _ R.1).1, (mRes_parts _ R.1).2.1, (mRes_parts _ R.1).2.2.1, (mRes_parts _ R.1).2.2.2.1, (mRes_parts _ R.1).2.2.2.2, R.2.1, R.2.2.1⟩

theorem mJoinClose_sf (s : St) :
    mNever (mJoinClose s).mpc = false ∧
    mEmptyL (mJoinClose s).mpc = false ∧
    (mJoinClose s).mpc ≠ .none ∧
    (mJoinClose s).mpc ≠ .recv ∧
    isClrRecv (mJoinClose s).mpc = false ∧
    mFinal (mJoinClose s).mpc = true ∧
    mLate (mJoinClose s).mpc = true := by
  have R := mJoinClose_res s
  exact ⟨(mRes_parts _ R.1).1, (mRes_parts _ R.1).2.1, (mRes_parts _ R.1).2.2.1, (mRes_parts _ R.1).2.2.2.1, (mRes_parts _ R.1).2.2.2.2, R.2.1, R.2.2.1⟩

theorem mJoinLoop_sf (s : St) (n sent cool : Nat) :
    mNever (mJoinLoop s n sent cool).mpc = false ∧
    mEmptyL (mJoinLoop s n sent cool).mpc = false ∧
    (mJoinLoop s n sent cool).mpc ≠ .none ∧
    (mJoinLoop s n sent cool).mpc ≠ .recv ∧
    isClrRecv (mJoinLoop s n sent cool).mpc = false ∧
    mFinal (mJoinLoop s n sent cool).mpc = true := by
  have R := mJoinLoop_res s n sent cool
  exact ⟨(mRes_parts _ R.1).1, (mRes_parts _ R.1).2.1, (mRes_parts _ R.1).2.2.1, (mRes_parts _ R.1).2.2.2.1, (mRes_parts _ R.1).2.2.2.2, R.2.1⟩

theorem mAfterPut_sf (s : St) (k n sent cool : Nat) :
    mNever (mAfterPut s k n sent cool).mpc = false ∧
    mEmptyL (mAfterPut s k n sent cool).mpc = false ∧
    (mAfterPut s k n sent cool).mpc ≠ .none ∧
    (mAfterPut s k n sent cool).mpc ≠ .recv ∧
    isClrRecv (mAfterPut s k n sent cool).mpc = false ∧
    mFinal (mAfterPut s k n sent cool).mpc = true := by
  have R := mAfterPut_res s k n sent cool
  exact ⟨(mRes_parts _ R.1).1, (mRes_parts _ R.1).2.1, (mRes_parts _ R.1).2.2.1, (mRes_parts _ R.1).2.2.2.1, (mRes_parts _ R.1).2.2.2.2, R.2.1⟩

theorem mNever_clr (k : AfterClear) : mNever (.clrRecv k) = mNever (.clrPoll k) := by
  cases k with
  | broken b => rfl
  | item r =>
    cases r with
    | none => rfl
    | some r => cases r <;> rfl

theorem mJoinStart_mpc' (s : St) : (mJoinStart s).mpc = .jAcq1 := rfl


/-! ### the call queue under the manager's steps -/

theorem qOk_of_si' (s : St) (h : SI s) : QOk s.cqBuf s.cqPipe s.fpc (mLate s.mpc) (mFinal s.mpc) :=
  { fb := h.fb, cp := h.cp, fc := h.fc, cl := h.cl, late := h.late,
    nb := fun hf => (h.pre hf).nb, np := fun hf => (h.pre hf).np, nf := fun hf => (h.pre hf).nf }

/-- queue untouched; the phase flags only go up -/
theorem qOk_same {b p : List CMsg} {f : FPc} {l fn : Bool} (h : QOk b p f l fn) {b' p' : List CMsg} {f' : FPc} {l' fn' : Bool}
    (e1 : b' = b) (e2 : p' = p) (e3 : f' = f) (hl : l = true → l' = true) (hf : fn = true → fn' = true) :
    QOk b' p' f' l' fn' := by
  subst e1 e2 e3
  obtain ⟨fb, cp, fc, cl, lt, nb, np, nf⟩ := h
  refine ⟨fb, cp, fc, cl, ?_, ?_, ?_, ?_⟩
  · intro h1; apply lt; cases l <;> simp_all
  · intro h1; apply nb; cases fn <;> simp_all
  · intro h1; apply np; cases fn <;> simp_all
  · intro h1; apply nf; cases fn <;> simp_all

/-- one message appended before `call_queue.close()`; the feeder thread exists already or is started now -/
theorem qOk_push {b p : List CMsg} {f : FPc} {l fn : Bool} (h : QOk b p f l fn) (hl0 : l = false) (m : CMsg)
    {b' p' : List CMsg} {f' : FPc} {l' fn' : Bool}
    (e1 : b' = b ++ [m]) (e2 : p' = p) (e3 : (f' = f ∧ f ≠ .none) ∨ f' = .start)
    (hm : isClose m = false) (hs : isStop m = true → fn' = true) (hf : fn = true → fn' = true) :
    QOk b' p' f' l' fn' := by
  subst e1 e2 hl0
  obtain ⟨fb, cp, fc, cl, lt, nb, np, nf⟩ := h
  have hnc := (lt rfl).1
  have hnd := (lt rfl).2
  have hfn : fn' = false → fn = false := by intro h1; cases fn <;> simp_all
  refine ⟨?_, cp, ?_, ?_, ?_, ?_, ?_, ?_⟩
  · rintro (e | e)
    · rcases e3 with ⟨e3, e4⟩ | e3
      · exact absurd (e3 ▸ e) e4
      · rw [e3] at e; cases e
    · rcases e3 with ⟨e3, e4⟩ | e3
      · exact absurd (e3 ▸ e) hnd
      · rw [e3] at e; cases e
  · rcases e3 with ⟨e3, _⟩ | e3
    · rw [e3]; exact fc
    · rw [e3]; rfl
  · simpa using hnc
  · intro _
    refine ⟨?_, ?_⟩
    · intro x hx
      rcases List.mem_append.1 hx with hx | hx
      · exact hnc x hx
      · have : x = m := by simpa using hx
        rw [this]; exact hm
    · rcases e3 with ⟨e3, _⟩ | e3
      · rw [e3]; exact hnd
      · rw [e3]; simp
  · intro h1 x hx
    rcases List.mem_append.1 hx with hx | hx
    · exact nb (hfn h1) x hx
    · have : x = m := by simpa using hx
      rw [this]
      cases e : isStop m
      · rfl
      · rw [hs e] at h1; cases h1
  · intro h1; exact np (hfn h1)
  · intro h1
    rcases e3 with ⟨e3, _⟩ | e3
    · rw [e3]; exact nf (hfn h1)
    · rw [e3]; rfl

theorem mJoinClose_q (s : St) (fn : Bool) (h : QOk s.cqBuf s.cqPipe s.fpc false fn) :
    QOk (mJoinClose s).cqBuf (mJoinClose s).cqPipe (mJoinClose s).fpc true true := by
  obtain ⟨fb, cp, fc, cl, lt, nb, np, nf⟩ := h
  have hnc := (lt rfl).1
  have hnd := (lt rfl).2
  unfold mJoinClose
  by_cases e : s.fpc = .none
  · have hb := fb (.inl e)
    simp only [e, ne_eq, not_true_eq_false, ite_false]
    refine ⟨fun _ => hb, cp, rfl, by simp [hb], by simp, by simp, by simp, by simp⟩
  · simp only [ne_eq, e, not_false_eq_true, ite_true]
    refine ⟨?_, cp, fc, by simpa using hnc, by simp, by simp, by simp, by simp⟩
    rintro (e' | e')
    · exact absurd e' e
    · exact absurd e' hnd

theorem mJoinLoop_q (s : St) (n sent cool : Nat) (fn : Bool) (h : QOk s.cqBuf s.cqPipe s.fpc false fn) :
    QOk (mJoinLoop s n sent cool).cqBuf (mJoinLoop s n sent cool).cqPipe (mJoinLoop s n sent cool).fpc
      (mLate (mJoinLoop s n sent cool).mpc) true := by
  unfold mJoinLoop
  split
  · exact qOk_same h rfl rfl rfl (by simp) (by simp)
  · rw [(mJoinClose_res s).2.2.1]; exact mJoinClose_q s fn h

theorem mAfterPut_q (s : St) (k n sent cool : Nat) (fn : Bool) (h : QOk s.cqBuf s.cqPipe s.fpc false fn) :
    QOk (mAfterPut s k n sent cool).cqBuf (mAfterPut s k n sent cool).cqPipe (mAfterPut s k n sent cool).fpc
      (mLate (mAfterPut s k n sent cool).mpc) true := by
  unfold mAfterPut
  split
  · exact mJoinLoop_q s _ _ _ fn h
  · exact qOk_same h rfl rfl rfl (by simp) (by simp)

/-- continuations that do not touch the queue -/
theorem mAdd_q (s : St) (h : QOk s.cqBuf s.cqPipe s.fpc false false) :
    QOk (mAdd s).cqBuf (mAdd s).cqPipe (mAdd s).fpc (mLate (mAdd s).mpc) (mFinal (mAdd s).mpc) :=
  qOk_same h (by simp) (by simp) (by simp) (by simp) (by simp)
theorem mAfterItem_q (s : St) (h : QOk s.cqBuf s.cqPipe s.fpc false false) :
    QOk (mAfterItem s).cqBuf (mAfterItem s).cqPipe (mAfterItem s).fpc (mLate (mAfterItem s).mpc) (mFinal (mAfterItem s).mpc) :=
  qOk_same h (by simp) (by simp) (by simp) (by simp) (by simp)
theorem mProcess_q (s : St) (r : Option RMsg) (h : QOk s.cqBuf s.cqPipe s.fpc false false) :
    QOk (mProcess s r).cqBuf (mProcess s r).cqPipe (mProcess s r).fpc (mLate (mProcess s r).mpc) (mFinal (mProcess s r).mpc) :=
  qOk_same h (by simp) (by simp) (by simp) (by simp) (by simp)
theorem mAddF_q (s : St) (h : QOk s.cqBuf s.cqPipe s.fpc false false) :
    QOk (mAddF s).cqBuf (mAddF s).cqPipe (mAddF s).fpc (mLate (mAddF s).mpc) (mFinal (mAddF s).mpc) :=
  qOk_same h (by simp) (by simp) (by simp) (by simp) (by simp)
theorem mAfterFlag_q (s : St) (h : QOk s.cqBuf s.cqPipe s.fpc false false) :
    QOk (mAfterFlag s).cqBuf (mAfterFlag s).cqPipe (mAfterFlag s).fpc (mLate (mAfterFlag s).mpc) (mFinal (mAfterFlag s).mpc) :=
  qOk_same h (by simp) (by simp) (by simp) (by simp) (by simp)
theorem mRelExitNext_q (s : St) (ps : List Pid) (n : Nat) (fn : Bool) (h : QOk s.cqBuf s.cqPipe s.fpc false fn) :
    QOk (mRelExitNext s ps n).cqBuf (mRelExitNext s ps n).cqPipe (mRelExitNext s ps n).fpc
      (mLate (mRelExitNext s ps n).mpc) (mFinal (mRelExitNext s ps n).mpc) :=
  qOk_same h (by simp) (by simp) (by simp) (by simp) (by simp [mRelExitNext_sf])
theorem mAliveNext_q (s : St) (ps : List Pid) (c n sent cool : Nat) (fn : Bool) (h : QOk s.cqBuf s.cqPipe s.fpc false fn) :
    QOk (mAliveNext s ps c n sent cool).cqBuf (mAliveNext s ps c n sent cool).cqPipe (mAliveNext s ps c n sent cool).fpc
      (mLate (mAliveNext s ps c n sent cool).mpc) (mFinal (mAliveNext s ps c n sent cool).mpc) :=
  qOk_same h (by simp) (by simp) (by simp) (by simp) (by simp [mAliveNext_sf])
theorem mJoinProcs_q (s : St) (l fn : Bool) (h : QOk s.cqBuf s.cqPipe s.fpc l fn) :
    QOk (mJoinProcs s).cqBuf (mJoinProcs s).cqPipe (mJoinProcs s).fpc (mLate (mJoinProcs s).mpc) (mFinal (mJoinProcs s).mpc) :=
  qOk_same h (by simp) (by simp) (by simp) (by simp [mJoinProcs_sf]) (by simp [mJoinProcs_sf])
theorem mJoinLoop_q' (s : St) (n sent cool : Nat) (fn : Bool) (h : QOk s.cqBuf s.cqPipe s.fpc false fn) :
    QOk (mJoinLoop s n sent cool).cqBuf (mJoinLoop s n sent cool).cqPipe (mJoinLoop s n sent cool).fpc
      (mLate (mJoinLoop s n sent cool).mpc) (mFinal (mJoinLoop s n sent cool).mpc) := by
  rw [(mJoinLoop_sf s n sent cool).2.2.2.2.2]; exact mJoinLoop_q s n sent cool fn h
theorem mAfterPut_q' (s : St) (k n sent cool : Nat) (fn : Bool) (h : QOk s.cqBuf s.cqPipe s.fpc false fn) :
    QOk (mAfterPut s k n sent cool).cqBuf (mAfterPut s k n sent cool).cqPipe (mAfterPut s k n sent cool).fpc
      (mLate (mAfterPut s k n sent cool).mpc) (mFinal (mAfterPut s k n sent cool).mpc) := by
  rw [(mAfterPut_sf s k n sent cool).2.2.2.2.2]; exact mAfterPut_q s k n sent cool fn h
theorem mJoinClose_q' (s : St) (fn : Bool) (h : QOk s.cqBuf s.cqPipe s.fpc false fn) :
    QOk (mJoinClose s).cqBuf (mJoinClose s).cqPipe (mJoinClose s).fpc (mLate (mJoinClose s).mpc) (mFinal (mJoinClose s).mpc) := by
  rw [(mJoinClose_sf s).2.2.2.2.2.1, (mJoinClose_sf s).2.2.2.2.2.2]; exact mJoinClose_q s fn h

theorem mRelExitNext_snap (s : St) (ps : List Pid) (n : Nat) : snapOf (mRelExitNext s ps n).mpc = [] := (mRelExitNext_res s ps n).2.2.2
theorem mAliveNext_snap (s : St) (ps : List Pid) (c n sent cool : Nat) : snapOf (mAliveNext s ps c n sent cool).mpc = [] :=
  (mAliveNext_res s ps c n sent cool).2.2.2
theorem mJoinProcs_snap (s : St) : snapOf (mJoinProcs s).mpc = [] := (mJoinProcs_res s).2.2.2
theorem mJoinClose_snap (s : St) : snapOf (mJoinClose s).mpc = [] := (mJoinClose_res s).2.2.2
theorem mJoinLoop_snap (s : St) (n sent cool : Nat) : snapOf (mJoinLoop s n sent cool).mpc = [] := (mJoinLoop_res s n sent cool).2.2
theorem mAfterPut_snap (s : St) (k n sent cool : Nat) : snapOf (mAfterPut s k n sent cool).mpc = [] := (mAfterPut_res s k n sent cool).2.2

/-! ### summary of a manager step -/

structure MSum (s s' : St) : Prop where
  nv : mNever s'.mpc = false
  em : mEmptyL s'.mpc = false
  nn : s'.mpc ≠ .none
  nn0 : s.mpc ≠ .none
  rc : s'.mpc = .recv → s'.rqPipe ≠ []
  cr : isClrRecv s'.mpc = true → 0 < s'.wakeup
  fin : mFinal s.mpc = true → mFinal s'.mpc = true
  snap : ∀ p ∈ snapOf s'.mpc, p ∈ s.allPids
  q : QOk s'.cqBuf s'.cqPipe s'.fpc (mLate s'.mpc) (mFinal s'.mpc)
  wc : s'.wakeupClosed = true → s.wakeupClosed = true ∨ mFinal s'.mpc = true
  rq : ∀ r ∈ s'.rqPipe, r ∈ s.rqPipe
  pf : mFinal s'.mpc = false → s'.procDict = s.procDict ∧ s'.oMgmt = s.oMgmt
  upc : s'.upc = s.upc
  ucur : s'.ucur = s.ucur
  uscript : s'.uscript = s.uscript
  allPids : s'.allPids = s.allPids
  cfg : s'.cfg = s.cfg
  w : s'.w = s.w
  broken : s'.broken = s.broken
  killFlag : s'.killFlag = s.killFlag
  threadReg : s'.threadReg = s.threadReg
  leaky : s'.leaky = s.leaky

set_option maxHeartbeats 16000000 in
theorem mSum_step (s s' : St) (v : Variant) (h : SI s) (hp : PidsInv s) (hs : stepM s v = some s') : MSum s s' := by
  have hq := qOk_of_si' s h
  have hmn := h.mn
  have hk := h.kf
  have hreg := hp.reg
  have hrecv : s.mpc = .recv → ∀ r ∈ s.rqPipe, rBad r = false ∧ isPidMsg r = false := by
    intro e r hr
    exact ⟨h.rb r hr, (h.pre (by simp [e, mFinal])).nr r hr⟩
  have hwait : ∀ snap, s.mpc = .wait snap → snap.any (isDead s) = false := by
    intro snap e
    have P := h.pre (by simp [e, mFinal])
    have hsn := h.snap
    rw [e] at hsn
    simp only [snapOf] at hsn
    rw [List.any_eq_false]
    intro p hp'
    have := P.ns p (hsn p hp')
    unfold isDead
    cases hw : s.w p <;> simp_all [wStopping]
  unfold stepM at hs
  crack
  all_goals (first | (simp_all [mNever]; done) | skip)
  all_goals (first
    | (exfalso; have := hwait _ ‹_›; simp_all; done)
    | (exfalso; have := hrecv ‹_› _ (by rw [‹s.rqPipe = _›]; exact List.Mem.head _); simp [rBad] at this; done)
    | skip)
  all_goals (first | (have hr := hmn; rw [‹s.mpc = MPc.clrPoll (AfterClear.item _)›] at hr) | skip)
  all_goals constructor
  all_goals (first
    | rfl
    | (simp [mAdd_sf, mAfterItem_sf, mAddF_sf, mAfterFlag_sf, mRelExitNext_sf, mProcess_sf,
         mAliveNext_sf, mJoinProcs_sf, mJoinClose_sf, mJoinLoop_sf, mAfterPut_sf, mJoinStart_mpc',
         mRelExitNext_snap, mAliveNext_snap, mJoinProcs_snap, mJoinClose_snap, mJoinLoop_snap, mAfterPut_snap, hk, *]; done)
    | (simp [mNever, mEmptyL, isClrRecv, mFinal, mLate, snapOf, *]; done)
    | (intro p hp'; have := (mAdd_res _).2.2.2 p hp'; exact hreg p this)
    | (intro p hp'; have := (mAfterItem_res _).2.2.2 p hp'; exact hreg p this)
    | (intro p hp'; have := (mProcess_res _ _ hr).2.2.2 p hp'; exact hreg p this)
    | (intro p hp'; have := (mAddF_res _).2.2 p hp'; exact hreg p this)
    | (intro p hp'; have := (mAfterFlag_res _ (by exact hk)).2.2.1 p hp'; exact hreg p this)
    | (intro hw; left; simpa using hw)
    | (intro _; exact ⟨(mAfterFlag_res _ (by exact hk)).2.2.2, by simp⟩)
    | (have e := ‹s.mpc = _›; rw [e] at hmn; show mNever (MPc.clrRecv _) = false; rw [mNever_clr]; exact hmn)
    | (have e := ‹s.mpc = _›; rw [e] at hmn; show mNever (MPc.clrPoll _) = false; rw [← mNever_clr]; exact hmn)
    | (have := hrecv ‹_› _ (by rw [‹s.rqPipe = _›]; exact List.Mem.head _)
       show mNever (MPc.clrPoll (.item (some _))) = false
       cases ‹RMsg› <;> simp_all [mNever, rBad, isPidMsg]; done)
    | (intro r hr'; rw [‹s.rqPipe = _›]; exact List.mem_cons_of_mem _ hr')
    | skip)
  all_goals (first
    | refine mAdd_q _ ?_ | refine mAfterItem_q _ ?_ | refine mProcess_q _ _ ?_ | refine mAddF_q _ ?_
    | refine mAfterFlag_q _ ?_ | refine mRelExitNext_q _ _ _ (mFinal s.mpc) ?_
    | refine mAliveNext_q _ _ _ _ _ _ (mFinal s.mpc) ?_
    | refine mJoinProcs_q _ (mLate s.mpc) (mFinal s.mpc) ?_ | refine mJoinLoop_q' _ _ _ _ (mFinal s.mpc) ?_
    | refine mAfterPut_q' _ _ _ _ _ (mFinal s.mpc) ?_
    | refine mJoinClose_q' _ (mFinal s.mpc) ?_ | skip)
  all_goals (first
    | (exact qOk_same hq rfl rfl rfl (by simp [*, mLate]) (by simp [*, mFinal]))
    | (refine qOk_push hq (by simp [*, mLate]) _ rfl rfl (by simp [*]) ?_ ?_ ?_ <;> simp [*, isClose, isStop, mFinal]; done)
    | skip)

theorem si_stepM (s s' : St) (v : Variant) (h : SI s) (hp : PidsInv s) (hl : ∀ q, s.leaky q = false)
    (hs : stepM s v = some s') : SI s' ∧ ∀ q, s'.leaky q = false := by
  have M := mSum_step s s' v h hp hs
  refine ⟨?_, by rw [M.leaky]; exact hl⟩
  have Q := M.q
  refine { mn := M.nv, br := ?br, kf := ?kf, wn := ?wn, pre := ?pre, rc := M.rc, cr := M.cr, je := M.em, api := ?api, fb := Q.fb,
           wc := ?wc, pe := ?pe, snap := ?snap, wb := ?wb, rb := ?rb, cp := Q.cp, fc := Q.fc, cl := Q.cl, late := Q.late,
           tr := fun _ => M.nn, nks := ?nks, nkc := ?nkc, nkp := ?nkp, fu := fun e => absurd e M.nn, tsn := ?tsn }
  all_goals try simp only [M.upc, M.ucur, M.uscript, M.allPids, M.cfg, M.w, M.broken, M.killFlag]
  case br => exact h.br
  case kf => exact h.kf
  case wn => exact h.wn
  case api => exact h.api
  case wc =>
    intro hw
    rcases M.wc hw with e | e
    · exact M.fin (h.wc e)
    · exact e
  case pe => intro k hk _; exact M.nn
  case snap => exact M.snap
  case wb => exact h.wb
  case rb => intro r hr; exact h.rb r (M.rq r hr)
  case nks => exact h.nks
  case nkc => exact h.nkc
  case nkp => exact h.nkp
  case tsn => intro k hk hm; exact absurd (h.tsn k hk hm) M.nn0
  case pre =>
    intro hf
    have hf0 : mFinal s.mpc = false := by
      cases e : mFinal s.mpc
      · rfl
      · rw [M.fin e] at hf; cases hf
    have P := h.pre hf0
    obtain ⟨e1, e2⟩ := M.pf hf
    refine { pd := ?pd, ns := ?ns, nb := Q.nb hf, np := Q.np hf, nr := ?nr, nf := Q.nf hf, full := ?full, le := ?le, mx := ?mx,
             lt := ?lt, ts := ?ts }
    all_goals try simp only [M.upc, M.allPids, M.cfg, M.w, e1, e2]
    case pd => exact P.pd
    case ns => exact P.ns
    case nr => intro r hr; exact P.nr r (M.rq r hr)
    case full => right; exact P.full.resolve_left M.nn0
    case le => exact P.le
    case mx => exact P.mx
    case lt => exact P.lt
    case ts => exact P.ts

end LokyModel.Exec.StaticP
