import LokyModel.Lemmas.ExecLiveDCPhase2Base
/-! `phase2`: the steps of workers (crashes included), of the feeder thread and of user threads (`P2Step`). -/
namespace LokyModel.Exec
set_option linter.unnecessarySimpa false
set_option linter.unusedSimpArgs false

set_option maxHeartbeats 4000000 in
/-- a worker step leaves the broken flag alone and appends at most its own exit announcement (or a message that is no
    exit announcement) to the result pipe -/
theorem stepW_rq (s s' : St) (p : Pid) (v : Variant) (hs : stepW s p v = some s') :
    s'.broken = s.broken ∧ ∀ r ∈ s'.rqPipe, r ∈ s.rqPipe ∨ r = .pid p ∨ ∀ q, r ≠ .pid q := by
  unfold stepW at hs
  crack
  all_goals (refine ⟨?_, ?_⟩)
  all_goals (first
    | rfl
    | (simp; done)
    | (intro r hr; left; simpa using hr; done)
    | (intro r hr; simp at hr
       rcases hr with hr | hr
       · left; exact hr
       · subst hr; right; simp; done)
    | skip)

theorem p2_stepW (s s' : St) (p : Pid) (v : Variant) (hs : stepW s p v = some s') : P2Step s s' := by
  obtain ⟨hm, _, _, hd, _, _, _, hw⟩ := stepW_frame s s' p v hs
  obtain ⟨hb, hr⟩ := stepW_rq s s' p v hs
  refine ⟨by rw [hb]; exact id, by rw [hm]; exact id, ?_⟩
  intro z hz
  have hne : z ≠ p := by
    intro e; subst e
    unfold stepW at hs
    simp [hz.2.1] at hs
  left
  refine ⟨by rw [hd]; exact hz.1, by rw [hw z hne]; exact hz.2.1, ?_, by rw [hm]; exact hz.2.2.2⟩
  intro r hr'
  rcases hr r hr' with e | e | e
  · exact hz.2.2.1 r e
  · subst e; intro e; injection e with e; exact hne e.symm
  · exact e z

set_option maxHeartbeats 4000000 in
theorem stepF_rq (s s' : St) (v : Variant) (hs : stepF s v = some s') :
    s'.broken = s.broken ∧ s'.rqPipe = s.rqPipe := by
  unfold stepF at hs
  crack
  all_goals (refine ⟨?_, ?_⟩)
  all_goals (first | rfl | (simp; done) | skip)

theorem p2_stepF (s s' : St) (v : Variant) (hs : stepF s v = some s') : P2Step s s' := by
  obtain ⟨hm, _, _, hd, _, hw, _, _⟩ := stepF_frame s s' v hs
  obtain ⟨hb, hr⟩ := stepF_rq s s' v hs
  refine ⟨by rw [hb]; exact id, by rw [hm]; exact id, ?_⟩
  intro z hz
  left
  exact ⟨by rw [hd]; exact hz.1, by rw [hw]; exact hz.2.1, by rw [hr]; exact hz.2.2.1, by rw [hm]; exact hz.2.2.2⟩

end LokyModel.Exec
