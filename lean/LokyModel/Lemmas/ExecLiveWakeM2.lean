import LokyModel.Lemmas.ExecLiveWakeM
/-! `WakeP` across a manager step. -/
namespace LokyModel.Exec
set_option linter.unusedSimpArgs false
set_option linter.unusedVariables false

theorem static_pre (s : St) (hst : staticOk s = true) (hf : mFinal s.mpc = false) :
    (∀ p ∈ s.allPids, wNever (s.w p) = false) ∧ (∀ p ∈ s.allPids, wStopping (s.w p) = false) ∧
    (∀ m ∈ s.cqBuf, isStop m = false) ∧ (∀ m ∈ s.cqPipe, isStop m = false) ∧ s.fpc ≠ .acq .stop ∧ s.fpc ≠ .send .stop := by
  unfold staticOk at hst
  simp only [Bool.and_eq_true] at hst
  have c4 := hst.1.1.1.1.1.1.1.1.1.2
  have c5 := hst.1.1.1.1.1.1.1.1.2
  simp only [hf, Bool.false_or, Bool.and_eq_true, List.all_eq_true, Bool.not_eq_true', List.any_eq_false] at c4 c5
  obtain ⟨⟨⟨⟨⟨⟨_, b2⟩, b3⟩, b4⟩, _⟩, b6⟩, _⟩ := c5
  refine ⟨c4, b2, ?_, ?_, ?_, ?_⟩
  · intro m hm; simpa using b3 m hm
  · intro m hm; simpa using b4 m hm
  · intro e; simp [e] at b6
  · intro e; simp [e] at b6

theorem call_of (m : CMsg) (h1 : isStop m = false) (h2 : isClose m = false) : isCall m = true := by
  cases m <;> simp_all [isStop, isClose, isCall]

/-- the call queue is full before the final phase: one of the slots is a call item that will come back -/
theorem full_WW (s : St) (hsl : slotOk s = true) (hst : staticOk s = true) (hx : WX s) (h0 : s.cqSem = 0)
    (hf : mFinal s.mpc = false) (hm : mSlot s.mpc = 0) : WW s := by
  obtain ⟨n1, n2, n3, n4, n5, n6⟩ := static_pre s hst hf
  have hc : 0 < s.cfg.maxWorkers ∨ True := .inr trivial
  unfold slotOk slots cap at hsl
  simp only [beq_iff_eq] at hsl
  have hpos : 0 < sumL cslot s.cqBuf ∨ 0 < fSlot s.fpc ∨ 0 < s.cqPipe.length ∨
      0 < sumL (fun p => wSlot (s.w p)) s.allPids := by omega
  unfold WW
  rcases hpos with h | h | h | h
  · obtain ⟨m, hm, hp⟩ := exists_of_sumL_pos _ _ h
    refine .inr (.inr (.inr (.inr (.inl ⟨m, hm, call_of m (n3 m hm) ?_⟩))))
    cases m <;> simp_all [isClose, cslot]
  · have a2 := hx.fNC
    cases hfp : s.fpc with
    | acq m => cases m <;> simp_all [fBusy, fSlot, cslot]
    | send m => cases m <;> simp_all [fBusy, fSlot, cslot]
    | _ => simp_all [fBusy, fSlot, fOwes]
  · cases hp : s.cqPipe with
    | nil => simp [hp] at h
    | cons m rest =>
      have hm : m ∈ s.cqPipe := by simp [hp]
      exact .inr (.inr (.inr (.inr (.inr (.inr (.inl ⟨m, by simp, call_of m (n4 m hm) (hx.pipeNC m hm)⟩))))))
  · obtain ⟨p, hp, hpp⟩ := exists_of_sumL_pos _ _ h
    refine .inr (.inr (.inr (.inr (.inr (.inr (.inr ⟨p, hp, ?_⟩))))))
    have w1 := n1 p hp
    have w2 := n2 p hp
    cases hw : s.w p with
    | gRel m => cases m <;> simp_all [wBusy, wStopping]
    | gSem m => cases m <;> simp_all [wBusy, wStopping]
    | tSem m => simp_all [wNever]
    | _ => simp_all [wSlot]

theorem WW_congr (s s' : St) (h1 : s'.wakeup = s.wakeup) (h2 : s'.rqPipe = s.rqPipe) (h3 : s'.cfg = s.cfg)
    (h4 : s'.upc = s.upc) (h5 : s'.attrsDropped = s.attrsDropped) (h6 : s'.fpc = s.fpc) (h7 : s'.cqBuf = s.cqBuf)
    (h8 : s'.cqPipe = s.cqPipe) (h9 : s'.allPids = s.allPids) (h10 : s'.w = s.w) : WW s' ↔ WW s := by
  have hu : ∀ pc, uOwes2 s' pc = uOwes2 s pc := by intro pc; unfold uOwes2; rw [h5]
  unfold WW
  simp only [hu]
  rw [h1, h2, h3, h4, h6, h7, h8, h9, h10]

theorem WW_mAdd (s : St) : WW (mAdd s) ↔ WW s := by
  apply WW_congr <;> simp
theorem WW_mAddF (s : St) : WW (mAddF s) ↔ WW s := by
  apply WW_congr <;> simp

theorem mAddFuel_wait (fuel : Nat) (s : St) (hl : s.workIds.length < fuel) (hi : mIdle (mAddFuel fuel s).mpc = true) :
    s.cqSem = 0 ∨ (mAddFuel fuel s).workIds = [] := by
  induction fuel generalizing s with
  | zero => omega
  | succ n ih =>
    unfold mAddFuel at hi ⊢
    split
    · rename_i h; exact .inl h
    · rename_i h
      simp only [h, if_false] at hi
      split
      · rename_i hw; exact .inr hw
      · rename_i i rest hw
        simp only [hw] at hi
        split
        · rename_i hcn
          simp only [hcn, if_true] at hi
          have := ih _ (by simp only []; rw [hw] at hl; simp at hl; omega) hi
          simpa using this
        · rename_i hcn
          simp only [hcn] at hi
          simp [setFut, mIdle] at hi

theorem mAdd_wait (s : St) (hi : mIdle (mAdd s).mpc = true) : s.cqSem = 0 ∨ (mAdd s).workIds = [] :=
  mAddFuel_wait _ s (Nat.lt_succ_self _) hi

theorem wakeP_of_WW {s : St} (h : WW s) : WakeP s := fun _ => h

theorem mAdd_ne_start (s : St) : (mAdd s).mpc ≠ .start := by
  rcases mAdd_mpc_wake s with ⟨x, h⟩ | ⟨x, h⟩ <;> simp [h]

/-- `add_call_item_to_queue` by an executor that is not shutting down -/
theorem wakeP_mAdd (s : St) (hfull : s.cqSem = 0 → WW s)
    (hno : s.globalShutdown = false ∧ s.refs ≠ 0 ∧ s.shutdownFlag = false) : WakeP (mAdd s) := by
  intro n
  obtain ⟨n1, n2⟩ := n
  rcases n2 with n2 | n2 | n2
  · exact absurd n2 (mAdd_ne_start s)
  · unfold mustExit at n2
    simp [hno.1, hno.2.1, hno.2.2] at n2
  · rcases mAdd_wait s n1 with h | h
    · exact (WW_mAdd s).2 (hfull h)
    · exact absurd h n2

theorem wakeP_mAfterItem (s : St) (hb : s.broken = none) (hfull : s.cqSem = 0 → WW s) : WakeP (mAfterItem s) := by
  unfold mAfterItem
  split
  · exact wakeP_busy (by simp [mIdle])
  · rename_i h
    simp [hb] at h
    exact wakeP_mAdd s hfull ⟨h.1, h.2.1, h.2.2⟩

theorem wakeP_mProcess (s : St) (r : Option RMsg) (hb : s.broken = none) (hfull : s.cqSem = 0 → WW s) :
    WakeP (mProcess s r) := by
  unfold mProcess
  (repeat' split)
  all_goals (first
    | exact wakeP_mAfterItem s hb hfull
    | (refine wakeP_mAfterItem _ hb ?_
       intro h0
       refine (WW_congr s _ ?_ ?_ ?_ ?_ ?_ ?_ ?_ ?_ ?_ ?_).1 (hfull h0) <;> simp)
    | exact wakeP_busy rfl)

theorem wakeP_mAddF (s : St) (hfull : s.cqSem = 0 → WW s) : WakeP (mAddF s) := by
  unfold mAddF mAfterAddF
  split
  · exact wakeP_busy (by simp [mIdle])
  · rename_i snap hm
    split
    · exact wakeP_busy (by simp)
    · rename_i hp
      intro n
      obtain ⟨n1, n2⟩ := n
      rcases n2 with n2 | n2 | n2
      · exact absurd n2 (mAdd_ne_start s)
      · unfold mustExit at n2
        simp [hp] at n2
      · rcases mAdd_wait s n1 with h | h
        · exact (WW_mAdd s).2 (hfull h)
        · exact absurd h n2
  · rename_i h1 h2
    rcases mAdd_mpc_wake s with ⟨x, h⟩ | ⟨x, h⟩
    · exact absurd h (h2 x)
    · exact absurd h (h1 x)

theorem wakeP_mAfterFlag (s : St) (hfull : s.cqSem = 0 → WW s) : WakeP (mAfterFlag s) := by
  unfold mAfterFlag
  split
  · exact wakeP_busy (by simp)
  · split
    · exact wakeP_busy (by simp)
    · exact wakeP_mAddF s hfull

set_option maxHeartbeats 8000000 in
theorem wakeP_stepM (s s' : St) (v : Variant) (hsl : slotOk s = true) (hst : staticOk s = true) (hx : WX s)
    (h : WakeP s) (hs : stepM s v = some s') : WakeP s' := by
  obtain ⟨hnv, hb, hkf⟩ := static_never s hst
  unfold stepM at hs
  crack
  all_goals (first
    | (refine wakeP_busy ?_; first | rfl | (simp; done))
    | (exfalso; revert hnv; simp [*, mNever]; done)
    | (intro n; exact (WW_mAdd s).2 (h ⟨by simp [*, mIdle], .inl ‹_›⟩))
    | (refine wakeP_of_WW ((WW_mAdd _).2 ?_); unfold WW; simp [isCall]; done)
    | (refine wakeP_of_WW ((WW_mAddF _).2 ?_); unfold WW; simp [isCall]; done)
    | (refine wakeP_mProcess s _ hb (fun h0 => full_WW s hsl hst hx h0 ?_ ?_) <;> simp [*, mFinal, mSlot]; done)
    | (refine wakeP_mAfterItem _ hb (fun h0 => (WW_congr s _ ?_ ?_ ?_ ?_ ?_ ?_ ?_ ?_ ?_ ?_).1 (full_WW s hsl hst hx h0 ?_ ?_))
        <;> simp [*, mFinal, mSlot]; done)
    | (refine wakeP_mAfterFlag _ (fun h0 => (WW_congr s _ ?_ ?_ ?_ ?_ ?_ ?_ ?_ ?_ ?_ ?_).1 (full_WW s hsl hst hx h0 ?_ ?_))
        <;> simp [*, mFinal, mSlot]; done)
    | skip)

end LokyModel.Exec
