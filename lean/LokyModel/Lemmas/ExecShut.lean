import LokyModel.Lemmas.ExecMgmtU
/-! Mutual exclusion on the executor's `shutdown_lock` with a ghost owner; a `submit` that passed the flag check
    keeps the lock until its work item is registered, so the flags cannot be raised under its feet; the manager
    reaches `kill_workers` / `join_executor_internals` only with the shutdown flag raised. -/
namespace LokyModel.Exec

def inShutU : UPc → Bool
  | .subAcqMgmt | .subExit | .subPStart | .subTStart | .subRelMgmt | .subWake | .subRelShut
  | .sdRel1 _ | .sdWake _ | .sdRel2 _ | .cbWake | .cbRel | .peWake | .peRel => true
  | _ => false
/-- a `submit` that has been accepted and is still bringing the pool up -/
def accU : UPc → Bool
  | .subAcqMgmt | .subExit | .subPStart | .subTStart => true
  | _ => false
def inShutM : MPc → Bool
  | .cbWake | .cbRel | .flagRel | .brkRel _ | .jShutRel => true
  | _ => false
def inShutF : FPc → Bool
  | .errWake | .errRel => true
  | _ => false
/-- the manager has raised the shutdown flag itself, or is past the point where it checks it -/
def mFlagged : MPc → Bool
  | .flagRel | .brkRel _ | .addAcqF _ | .addTStartF _
  | .kill _ | .killJoin _ | .jAcq1 | .jRelExit _ _ | .jRel1 _ | .jAliveAcq _ _ _ | .jAlive _ _ _ _ _
  | .jAliveRel _ _ _ _ | .jPut _ _ _ _ | .jPutTStart _ _ _ _ | .jSleep _ _ _ | .jShutAcq | .jShutRel | .jAcq2
  | .jJoin _ | .jRel2 | .done | .raised _ => true
  | _ => false

structure ShutInv (s : St) : Prop where
  val : s.shut = if s.oShut.isSome then 0 else 1
  u : ∀ k, inShutU (s.upc k) = true → s.oShut = some (.U k)
  m : inShutM s.mpc = true → s.oShut = some .M
  f : inShutF s.fpc = true → s.oShut = some .F
  acc : ∀ k, accU (s.upc k) = true → s.shutdownFlag = false
  flag : mFlagged s.mpc = true → s.shutdownFlag = true

theorem shutInv_init (cfg : Cfg) : ShutInv (init cfg) := by
  constructor <;> simp [init, inShutU, inShutM, inShutF, accU, mFlagged]

theorem accU_inShutU (pc : UPc) (h : accU pc = true) : inShutU pc = true := by
  cases pc <;> simp_all [accU, inShutU]

/-! where the continuations leave the program counters -/
@[simp] theorem inShutM_mAddFuel (n : Nat) (s : St) : inShutM (mAddFuel n s).mpc = false := by
  induction n generalizing s with
  | zero => rfl
  | succ n ih => unfold mAddFuel; (repeat' split) <;> first | rfl | simp [*]
@[simp] theorem inShutM_mAdd (s : St) : inShutM (mAdd s).mpc = false := by unfold mAdd; simp
@[simp] theorem inShutM_mAddF (s : St) : inShutM (mAddF s).mpc = false := by
  rcases mAddF_mpc s with ⟨i, _, h⟩ | ⟨_, h, _⟩ | ⟨_, h, _⟩ <;> rw [h] <;> rfl
@[simp] theorem inShutM_mJoinStart (s : St) : inShutM (mJoinStart s).mpc = false := rfl
@[simp] theorem inShutM_mKillNext (s : St) : inShutM (mKillNext s).mpc = false := by unfold mKillNext; split <;> rfl
@[simp] theorem inShutM_mAfterItem (s : St) : inShutM (mAfterItem s).mpc = false := by
  unfold mAfterItem; split <;> first | rfl | simp
@[simp] theorem inShutM_mDropRef (s : St) : inShutM (mDropRef s).mpc = false := by
  unfold mDropRef; simp only []; split <;> first | rfl | simp
@[simp] theorem inShutM_mRespawnCheck (s : St) : inShutM (mRespawnCheck s).mpc = false := by
  unfold mRespawnCheck; simp only []; (repeat' split) <;> first | rfl | simp
@[simp] theorem inShutM_mProcess (s : St) (r) : inShutM (mProcess s r).mpc = false := by
  unfold mProcess; (repeat' split) <;> first | rfl | simp
@[simp] theorem inShutM_mJoinClose (s : St) : inShutM (mJoinClose s).mpc = false := by unfold mJoinClose; rfl
@[simp] theorem inShutM_mJoinLoop (s : St) (n sent cool) : inShutM (mJoinLoop s n sent cool).mpc = false := by
  unfold mJoinLoop; split <;> first | rfl | simp
@[simp] theorem inShutM_mAfterPut (s : St) (k n sent cool) : inShutM (mAfterPut s k n sent cool).mpc = false := by
  unfold mAfterPut; split <;> first | rfl | simp
@[simp] theorem inShutM_mAfterFlag (s : St) : inShutM (mAfterFlag s).mpc = false := by
  unfold mAfterFlag; (repeat' split) <;> first | rfl | simp
@[simp] theorem inShutM_mSpawnLoop (s : St) : inShutM (mSpawnLoop s).mpc = false := by unfold mSpawnLoop; split <;> rfl
@[simp] theorem inShutM_mJoinProcs (s : St) : inShutM (mJoinProcs s).mpc = false := by unfold mJoinProcs; split <;> rfl
@[simp] theorem inShutM_mRelExitNext (s : St) (ps n) : inShutM (mRelExitNext s ps n).mpc = false := by
  unfold mRelExitNext; split <;> rfl
@[simp] theorem inShutM_mAliveNext (s : St) (ps cnt n sent cool) : inShutM (mAliveNext s ps cnt n sent cool).mpc = false := by
  unfold mAliveNext; split <;> rfl

@[simp] theorem mFlagged_mAddFuel (n : Nat) (s : St) : mFlagged (mAddFuel n s).mpc = false := by
  induction n generalizing s with
  | zero => rfl
  | succ n ih => unfold mAddFuel; (repeat' split) <;> first | rfl | simp [*]
@[simp] theorem mFlagged_mAdd (s : St) : mFlagged (mAdd s).mpc = false := by unfold mAdd; simp
@[simp] theorem mFlagged_mAfterItem (s : St) : mFlagged (mAfterItem s).mpc = false := by
  unfold mAfterItem; split <;> first | rfl | simp
@[simp] theorem mFlagged_mDropRef (s : St) : mFlagged (mDropRef s).mpc = false := by
  unfold mDropRef; simp only []; split <;> first | rfl | simp
@[simp] theorem mFlagged_mRespawnCheck (s : St) : mFlagged (mRespawnCheck s).mpc = false := by
  unfold mRespawnCheck; simp only []; (repeat' split) <;> first | rfl | simp
@[simp] theorem mFlagged_mProcess (s : St) (r) : mFlagged (mProcess s r).mpc = false := by
  unfold mProcess; (repeat' split) <;> first | rfl | simp
@[simp] theorem mFlagged_mSpawnLoop (s : St) : mFlagged (mSpawnLoop s).mpc = false := by unfold mSpawnLoop; split <;> rfl

@[simp] theorem inShutF_fNext (s : St) : inShutF (fNext s).fpc = false := by
  unfold fNext; (repeat' split) <;> rfl

theorem inShutU_upd (f : Nat → UPc) (p q : Nat) (pc : UPc) :
    inShutU (upd f p pc q) = if q = p then inShutU pc else inShutU (f q) := by unfold upd; split <;> rfl
theorem accU_upd (f : Nat → UPc) (p q : Nat) (pc : UPc) :
    accU (upd f p pc q) = if q = p then accU pc else accU (f q) := by unfold upd; split <;> rfl

theorem inShutU_uNext (s : St) (k j : Nat) :
    inShutU ((uNext s k).upc j) = if j = k then false else inShutU (s.upc j) := by
  unfold uNext
  by_cases hj : j = k
  · subst hj; rw [if_pos rfl]; split <;> simp [inShutU]
  · rw [if_neg hj]; split <;> simp [upd_apply, hj]
theorem inShutU_uRelease (s : St) (k j : Nat) :
    inShutU ((uRelease s k).upc j) = if j = k then false else inShutU (s.upc j) := by
  unfold uRelease; simp only []; split
  · by_cases hj : j = k
    · subst hj; simp [inShutU]
    · simp [upd_apply, hj]
  · exact inShutU_uNext _ k j
theorem inShutU_uSpawnLoop (s : St) (k j : Nat) :
    inShutU ((uSpawnLoop s k).upc j) = if j = k then true else inShutU (s.upc j) := by
  unfold uSpawnLoop
  by_cases hj : j = k
  · subst hj; rw [if_pos rfl]; (repeat' split) <;> simp [inShutU]
  · rw [if_neg hj]; (repeat' split) <;> simp [upd_apply, hj]
theorem inShutU_uDispatch (s : St) (k j : Nat) (op : UOp) :
    inShutU ((uDispatch s k op).upc j) = if j = k then false else inShutU (s.upc j) := by
  unfold uDispatch
  by_cases hj : j = k
  · subst hj; rw [if_pos rfl]
    (repeat' split) <;> (first | (rw [inShutU_uNext]; simp; done) | (rw [inShutU_uRelease]; simp; done) | (simp [inShutU]; done))
  · rw [if_neg hj]; (repeat' split) <;> (first | (rw [inShutU_uNext]; simp [hj]; done) | (rw [inShutU_uRelease]; simp [hj]; done) | (simp [upd_apply, hj]; done))

theorem accU_uNext (s : St) (k j : Nat) :
    accU ((uNext s k).upc j) = if j = k then false else accU (s.upc j) := by
  unfold uNext
  by_cases hj : j = k
  · subst hj; rw [if_pos rfl]; split <;> simp [accU]
  · rw [if_neg hj]; split <;> simp [upd_apply, hj]
theorem accU_uRelease (s : St) (k j : Nat) :
    accU ((uRelease s k).upc j) = if j = k then false else accU (s.upc j) := by
  unfold uRelease; simp only []; split
  · by_cases hj : j = k
    · subst hj; simp [accU]
    · simp [upd_apply, hj]
  · exact accU_uNext _ k j
theorem accU_uSpawnLoop_other (s : St) (k j : Nat) (hj : j ≠ k) :
    accU ((uSpawnLoop s k).upc j) = accU (s.upc j) := by
  unfold uSpawnLoop; (repeat' split) <;> simp [upd_apply, hj]
theorem accU_uDispatch (s : St) (k j : Nat) (op : UOp) :
    accU ((uDispatch s k op).upc j) = if j = k then false else accU (s.upc j) := by
  unfold uDispatch
  by_cases hj : j = k
  · subst hj; rw [if_pos rfl]
    (repeat' split) <;> (first | (rw [accU_uNext]; simp; done) | (rw [accU_uRelease]; simp; done) | (simp [accU]; done))
  · rw [if_neg hj]; (repeat' split) <;> (first | (rw [accU_uNext]; simp [hj]; done) | (rw [accU_uRelease]; simp [hj]; done) | (simp [upd_apply, hj]; done))

end LokyModel.Exec
