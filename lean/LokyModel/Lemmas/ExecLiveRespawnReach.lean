import LokyModel.Lemmas.ExecLiveRespawn
import LokyModel.Lemmas.ExecLivePids
import LokyModel.Lemmas.ExecTerm
import LokyModel.Lemmas.ExecNoBreakAll
/-! The two plain hypotheses of `respawnOk'_step` hold in every reachable state (older chain: `TermInv`, `TStartInv`). -/
namespace LokyModel.Exec

theorem mTerm_of_mFinal (pc : MPc) (h : mFinal pc = true) : mTerm pc = true := by
  cases pc <;> first | rfl | cases h

theorem respawnOk'_step_reachable {cfg : Cfg} {s s' : St} {a : Actor} {v : Variant} (hr : Reachable cfg s)
    (hv : v ≠ .crash) (hs : step s a v = some s') (hc : s.cfg.dynPool = true) (hd : dynOk s = true)
    (h : respawnOk' s = true) : respawnOk' s' = true :=
  respawnOk'_step hv hs (pidsInv_reachable hr) hc hd
    (fun hf => termInv_reachable hr (mTerm_of_mFinal _ hf)) (tstartInv_reachable hr) h

end LokyModel.Exec
