import LokyModel.Lemmas.ExecMsgW
namespace LokyModel.Exec

/-- `MsgInv` of a successor that keeps `cfg` and `taskOf` -/
theorem msg_move (a b : St) (h : MsgInv a) (hfr : b.cfg = a.cfg ∧ b.taskOf = a.taskOf)
    (hbuf : ∀ m, m ∈ b.cqBuf → goodC a.cfg a.taskOf m)
    (hpipe : ∀ m, m ∈ b.cqPipe → goodC a.cfg a.taskOf m)
    (hrq : ∀ r, r ∈ b.rqPipe → goodR a.cfg a.taskOf r)
    (hw : ∀ p, goodW a.cfg a.taskOf (b.w p))
    (hm : goodM a.cfg a.taskOf b.mpc)
    (hf : goodF a.cfg a.taskOf b.fpc)
    (hwk : ∀ i, i ∈ b.workIds → i < a.taskOf.length)
    (hval : ∀ i, (futOf b i = .value → (specOf a (a.taskOf.getD i 0)).body = .ok ∧ (specOf a (a.taskOf.getD i 0)).res ≠ .badunpickle) ∧
                 (futOf b i = .excWorker → (specOf a (a.taskOf.getD i 0)).body = .raises)) : MsgInv b := by
  obtain ⟨f1, f2⟩ := hfr
  constructor
  · rw [f1, f2]; exact hbuf
  · rw [f1, f2]; exact hpipe
  · rw [f1, f2]; exact hrq
  · rw [f1, f2]; exact hw
  · rw [f1, f2]; exact hm
  · rw [f1, f2]; exact hf
  · rw [f2]; exact hwk
  · intro i; have := hval i; simp only [specOf, f1, f2] at this ⊢; exact this

/-- closes the eight side conditions of `msg_move` for a step that moves messages around without touching futures -/
macro "msg_simple" s:term "," h:term : tactic => `(tactic| (
  have hb := MsgInv.buf $h; have hp := MsgInv.pipe $h; have hr := MsgInv.rq $h; have hw := MsgInv.w $h
  have hm := MsgInv.m $h; have hf := MsgInv.f $h; have hk := MsgInv.wk $h; have hv := MsgInv.val $h
  refine msg_move $s _ $h ?_ ?_ ?_ ?_ ?_ ?_ ?_ ?_ ?_
  · simp
  · intro x hx; simp at hx; simp_all [goodF, goodM, goodW, goodC]
  · intro x hx; simp at hx; simp_all [goodF, goodM, goodW, goodC]
  · intro x hx; simp at hx; simp_all [goodF, goodM, goodW, goodR]
  · intro q; simp_all [goodW]
  · first | (simp; done) | simp_all [goodM]
  · simp_all [goodF]
  · intro i hi; simp at hi; simp_all
  · intro i; simpa [futOf] using hv i))

theorem msg_fNext (X : St) (h : MsgInv { X with fpc := .none }) : MsgInv (fNext X) := by
  unfold fNext
  split
  · msg_simple _, h
  · msg_simple _, h
  · msg_simple _, h
  · split <;> msg_simple _, h

/-- a future set to something that is neither a value nor a task exception keeps the `val` clause -/
theorem msg_val_setFut (a : St) (h : MsgInv a) (w : Wid) (f : Fut) (hf1 : f ≠ .value) (hf2 : f ≠ .excWorker)
    (b : St) (hb : b.futs = (setFut a w f).futs) (i : Wid) :
    (futOf b i = .value → (specOf a (a.taskOf.getD i 0)).body = .ok ∧ (specOf a (a.taskOf.getD i 0)).res ≠ .badunpickle) ∧
    (futOf b i = .excWorker → (specOf a (a.taskOf.getD i 0)).body = .raises) := by
  have e1 : futOf b i = futOf (setFut a w f) i := by simp [futOf, hb]
  rw [e1, futOf_setFut]
  split
  · exact ⟨fun e => absurd e hf1, fun e => absurd e hf2⟩
  · exact h.val i

set_option maxHeartbeats 4000000 in
theorem msgInv_stepF (s s' : St) (v : Variant) (h : MsgInv s) (hs : stepF s v = some s') : MsgInv s' := by
  unfold stepF at hs
  crack_step
  all_goals (first
    | (refine msg_fNext _ ?_; msg_simple s, h; done)
    | (msg_simple s, h; done)
    | (have hb := MsgInv.buf h; have hp := MsgInv.pipe h; have hr := MsgInv.rq h; have hw := MsgInv.w h
       have hm := MsgInv.m h; have hf := MsgInv.f h; have hk := MsgInv.wk h
       refine msg_move s _ h ?_ ?_ ?_ ?_ ?_ ?_ ?_ ?_ ?_
       · simp
       · intro x hx; simp at hx; simp_all
       · intro x hx; simp at hx; simp_all
       · intro x hx; simp at hx; simp_all
       · intro q; simp_all
       · simp_all
       · simp_all [goodF]
       · intro i hi; simp at hi; simp_all
       · intro i; exact msg_val_setFut s h _ .excFeeder (by simp) (by simp) _ rfl i)
    | (have hf := MsgInv.f h; rw [‹s.fpc = _›] at hf
       have hb := MsgInv.buf h; have hr := MsgInv.rq h; have hw := MsgInv.w h
       have hm := MsgInv.m h; have hk := MsgInv.wk h; have hv := MsgInv.val h
       refine msg_move s _ h ?_ ?_ ?_ ?_ ?_ ?_ ?_ ?_ ?_
       · simp
       · intro x hx; simp at hx; simp_all
       · intro x hx; simp at hx
         rcases hx with hx | rfl
         · exact h.pipe x hx
         · exact hf
       · intro x hx; simp at hx; simp_all
       · intro q; simp_all
       · simp_all
       · simp [goodF]
       · intro i hi; simp at hi; simp_all
       · intro i; simpa [futOf] using hv i)
    | skip)

end LokyModel.Exec
