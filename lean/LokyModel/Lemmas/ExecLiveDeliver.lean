import LokyModel.Lemmas.ExecLiveDeliverW
import LokyModel.Lemmas.ExecLiveDeliverF
import LokyModel.Lemmas.ExecLiveDeliverM
import LokyModel.Lemmas.ExecLiveDeliverU
import LokyModel.Lemmas.ExecLiveAll
/-! # No lost refill (`refillOk`), as an inductive invariant of M1 in the static-pool scope

While the manager of a static pool waits with work ids queued, a wake-up that does not depend on a task body
returning is on its way, or the call queue has no more free slots than there are workers holding a call item they have
not answered yet.  Inductive along runs without crash steps given the other ingredients on the pre-state (`staticOk`,
and `wakeOk'` for the mutual exclusion on the shutdown lock).  Per-actor step lemmas: `ExecLiveDeliver{W,F,M,U}.lean`. -/
namespace LokyModel.Exec
set_option linter.unusedVariables false

theorem refillOk_init (cfg : Cfg) : refillOk (init cfg) = true := by
  rw [refillOk_iff]
  exact refP_busy rfl

theorem refillOk_step {s s' : St} {a : Actor} {v : Variant} (hv : v ≠ .crash) (hs : step s a v = some s')
    (hp : PidsInv s) (hc : s.cfg.staticPool = true) (hst : staticOk s = true) (hwk : wakeOk' s = true)
    (h : refillOk s = true) : refillOk s' = true := by
  rw [refillOk_iff] at h ⊢
  have hx := ((wakeOk'_iff s).1 hwk).2
  unfold step at hs
  cases a with
  | U k =>
    simp only [] at hs
    split at hs
    · rename_i hk
      exact refP_stepU s s' k v hk hst hx h hs
    · cases hs
  | M => exact refP_stepM s s' v hs
  | F => exact refP_stepF s s' v hst h hs
  | W p =>
    simp only [] at hs
    split at hs
    · rename_i hpp
      exact refP_stepW s s' p v hv hc hp hst hpp h hs
    · cases hs

theorem refillOk_reachableNC {cfg : Cfg} (hc : cfg.staticPool = true) {s : St} (h : ReachableNC cfg s) :
    refillOk s = true := by
  induction h with
  | init => exact refillOk_init cfg
  | step hr hv hs ih =>
    have hcfg := cfg_reachable hr.reachable
    have L := liveInv_reachableNC hc hr
    exact refillOk_step hv hs (pidsInv_reachable hr.reachable) (by rw [hcfg]; exact hc) (staticOk_of_inv L.static) L.wake ih

end LokyModel.Exec
