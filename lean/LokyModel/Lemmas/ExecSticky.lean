import LokyModel.Lemmas.ExecInv
/-! Flags that are never reset: `broken`, `shutdown`, the interpreter-exit flag, the closed wake-up pipe. -/
namespace LokyModel.Exec

/-- the four sticky facts at once -/
def Sticky (s s' : St) : Prop :=
  (s.broken.isSome = true → s'.broken.isSome = true) ∧ (s.shutdownFlag = true → s'.shutdownFlag = true) ∧
  (s.globalShutdown = true → s'.globalShutdown = true) ∧ (s.wakeupClosed = true → s'.wakeupClosed = true)

set_option maxHeartbeats 4000000 in
theorem sticky_stepW (s s' : St) (p : Pid) (v : Variant) (hs : stepW s p v = some s') : Sticky s s' := by
  unfold Sticky
  unfold stepW at hs
  crack_step
  all_goals (first | (simp_all; done) | (simp [wAfterStart, wGet, wDispatch, wAfterResult]; done) | skip)

set_option maxHeartbeats 4000000 in
theorem sticky_stepF (s s' : St) (v : Variant) (hs : stepF s v = some s') : Sticky s s' := by
  unfold Sticky
  unfold stepF at hs
  crack_step
  all_goals (first | (simp_all; done) | skip)

set_option maxHeartbeats 4000000 in
theorem sticky_stepM (s s' : St) (v : Variant) (hs : stepM s v = some s') : Sticky s s' := by
  unfold Sticky
  unfold stepM at hs
  crack_step
  all_goals (first | (simp_all; done) | skip)

theorem sticky_uDispatch (s : St) (k : Nat) (op : UOp) : Sticky s (uDispatch s k op) := by
  unfold Sticky uDispatch
  cases op <;> simp only [] <;> (repeat' split) <;> simp_all

set_option maxHeartbeats 4000000 in
theorem sticky_stepU (s s' : St) (k : Nat) (v : Variant) (hs : stepU s k v = some s') : Sticky s s' := by
  unfold Sticky
  unfold stepU at hs
  crack_step
  all_goals (first | (simp_all; done) | exact sticky_uDispatch _ _ _ | skip)

theorem sticky_step {s s' : St} {a : Actor} {v : Variant} (hs : step s a v = some s') : Sticky s s' := by
  unfold step at hs
  cases a with
  | U k => simp only [] at hs; split at hs; exact sticky_stepU s s' k v hs; cases hs
  | M => exact sticky_stepM s s' v hs
  | F => exact sticky_stepF s s' v hs
  | W p => simp only [] at hs; split at hs; exact sticky_stepW s s' p v hs; cases hs

theorem sticky_run (sched : List (Actor × Variant)) : ∀ (s s' : St), run s sched = some s' → Sticky s s' := by
  induction sched with
  | nil => intro s s' h; simp [run] at h; subst h; simp [Sticky]
  | cons x xs ih =>
    intro s s' h
    obtain ⟨a, v⟩ := x
    simp only [run] at h
    cases hs : step s a v with
    | none => simp [hs] at h
    | some s1 =>
      simp only [hs, Option.bind_some] at h
      have h1 := sticky_step hs
      have h2 := ih s1 s' h
      unfold Sticky at *
      exact ⟨fun x => h2.1 (h1.1 x), fun x => h2.2.1 (h1.2.1 x), fun x => h2.2.2.1 (h1.2.2.1 x),
             fun x => h2.2.2.2 (h1.2.2.2 x)⟩

end LokyModel.Exec
