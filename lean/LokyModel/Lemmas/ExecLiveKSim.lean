import LokyModel.ExecLiveKDef
/-!
# Until the manager sees the kill flag, a pool with forced shutdowns runs exactly like the pool without them

`St.unkill` (`LokyModel/ExecLiveKDef.lean`) forgets every request for `kill_workers`: in the configuration, in the remaining
scripts, in the operation a thread is announcing, in the program counter `sdAcq1 w kill`, and in the executor's flag.
Every step other than the one step that reads the flag (`seesKill`: the manager at `flagRel` with the flag set) commutes
with it: `step s.unkill a v = (step s a v).map St.unkill`.  Model files only are imported.
-/
namespace LokyModel.Exec

/-! ### workers -/

theorem wGet_unkill {s1 s2 : St} (h : s2 = s1.unkill) (p : Pid) : wGet s2 p = (wGet s1 p).unkill := by
  subst h; rfl
theorem wDispatch_unkill {s1 s2 : St} (h : s2 = s1.unkill) (p : Pid) (m : CMsg) :
    wDispatch s2 p m = (wDispatch s1 p m).unkill := by
  subst h; unfold wDispatch; cases m <;> simp only [apply_ite St.unkill] <;> rfl
theorem wAfterStart_unkill {s1 s2 : St} (h : s2 = s1.unkill) (p : Pid) : wAfterStart s2 p = (wAfterStart s1 p).unkill := by
  subst h; unfold wAfterStart; simp only [apply_ite St.unkill]; rfl
theorem wAfterResult_unkill {s1 s2 : St} (h : s2 = s1.unkill) (p : Pid) : wAfterResult s2 p = (wAfterResult s1 p).unkill := by
  subst h; unfold wAfterResult; simp only [apply_ite St.unkill]; rfl

set_option maxHeartbeats 4000000 in
theorem stepW_unkill (s : St) (p : Pid) (v : Variant) : stepW s.unkill p v = (stepW s p v).map St.unkill := by
  have hw : s.unkill.w p = s.w p := rfl
  have hc : s.unkill.cqPipe = s.cqPipe := rfl
  have hsp : ∀ t, specOf s.unkill t = specOf s t := fun _ => rfl
  have hl : s.unkill.cfg.leakAfter = s.cfg.leakAfter := rfl
  unfold stepW
  rw [hw]
  split
  all_goals simp only []
  all_goals (first
    | rfl
    | (simp only [Option.map_map, apply_ite (Option.map St.unkill)]; rfl)
    | exact congrArg some (wAfterStart_unkill (by rfl) p)
    | exact congrArg some (wDispatch_unkill (by rfl) p _)
    | exact congrArg some (wAfterResult_unkill (by rfl) p)
    | (rw [hc]; split <;> rfl)
    | (rw [hsp]; split <;> rfl)
    | (rw [hsp, hl]; (repeat' split) <;> rfl)
    | skip)

/-! ### the manager's continuations -/

theorem mAddFuel_unkill (n : Nat) : ∀ s1 s2 : St, s2 = s1.unkill → mAddFuel n s2 = (mAddFuel n s1).unkill := by
  induction n with
  | zero => intro s _ h; subst h; rfl
  | succ n ih =>
    intro s _ h
    subst h
    have h1 : s.unkill.cqSem = s.cqSem := rfl
    have h2 : s.unkill.workIds = s.workIds := rfl
    have h3 : ∀ i, futOf s.unkill i = futOf s i := fun _ => rfl
    unfold mAddFuel
    rw [h1, h2]
    split
    · rfl
    · split
      · rfl
      · rw [h3]
        split
        · exact ih _ _ (by rfl)
        · rfl
theorem mAdd_unkill {s1 s2 : St} (h : s2 = s1.unkill) : mAdd s2 = (mAdd s1).unkill := by
  subst h; exact mAddFuel_unkill _ _ _ rfl
theorem mJoinStart_unkill {s1 s2 : St} (h : s2 = s1.unkill) : mJoinStart s2 = (mJoinStart s1).unkill := by
  subst h; rfl
theorem mKillNext_unkill {s1 s2 : St} (h : s2 = s1.unkill) : mKillNext s2 = (mKillNext s1).unkill := by
  subst h; unfold mKillNext
  have h2 : s1.unkill.procDict = s1.procDict := rfl
  rw [h2]; split <;> rfl
theorem mAfterItem_unkill {s1 s2 : St} (h : s2 = s1.unkill) : mAfterItem s2 = (mAfterItem s1).unkill := by
  subst h; unfold mAfterItem; rw [apply_ite St.unkill, ← mAdd_unkill rfl]; rfl
theorem mDropRef_unkill {s1 s2 : St} (h : s2 = s1.unkill) : mDropRef s2 = (mDropRef s1).unkill := by
  subst h; unfold mDropRef; simp only []; rw [apply_ite St.unkill, ← mAfterItem_unkill (by rfl)]; rfl
theorem mRespawnCheck_unkill {s1 s2 : St} (h : s2 = s1.unkill) : mRespawnCheck s2 = (mRespawnCheck s1).unkill := by
  subst h; unfold mRespawnCheck; simp only []
  rw [apply_ite St.unkill, apply_ite St.unkill, ← mAfterItem_unkill (by rfl)]; rfl
theorem mProcess_unkill {s1 s2 : St} (h : s2 = s1.unkill) (r : Option RMsg) : mProcess s2 r = (mProcess s1 r).unkill := by
  subst h; unfold mProcess
  split
  · exact mAfterItem_unkill rfl
  · exact mAfterItem_unkill rfl
  · rw [apply_ite St.unkill, ← mAfterItem_unkill (by rfl), ← mAfterItem_unkill (by rfl)]; rfl
  · rfl
theorem mSpawnLoop_unkill {s1 s2 : St} (h : s2 = s1.unkill) : mSpawnLoop s2 = (mSpawnLoop s1).unkill := by
  subst h; unfold mSpawnLoop; rw [apply_ite St.unkill]; rfl
theorem mJoinProcs_unkill {s1 s2 : St} (h : s2 = s1.unkill) : mJoinProcs s2 = (mJoinProcs s1).unkill := by
  subst h; unfold mJoinProcs
  have h2 : s1.unkill.procDict = s1.procDict := rfl
  rw [h2]; split <;> rfl
theorem mJoinClose_unkill {s1 s2 : St} (h : s2 = s1.unkill) : mJoinClose s2 = (mJoinClose s1).unkill := by
  subst h; unfold mJoinClose; simp only []
  have h2 : s1.unkill.fpc = s1.fpc := rfl
  rw [h2]; split <;> rfl
theorem mJoinLoop_unkill {s1 s2 : St} (h : s2 = s1.unkill) (n sent cool : Nat) :
    mJoinLoop s2 n sent cool = (mJoinLoop s1 n sent cool).unkill := by
  subst h; unfold mJoinLoop; rw [apply_ite St.unkill, ← mJoinClose_unkill rfl]; rfl
theorem mRelExitNext_unkill {s1 s2 : St} (h : s2 = s1.unkill) (ps : List Pid) (n : Nat) :
    mRelExitNext s2 ps n = (mRelExitNext s1 ps n).unkill := by
  subst h; unfold mRelExitNext; split <;> rfl
theorem mAliveNext_unkill {s1 s2 : St} (h : s2 = s1.unkill) (ps : List Pid) (cnt n sent cool : Nat) :
    mAliveNext s2 ps cnt n sent cool = (mAliveNext s1 ps cnt n sent cool).unkill := by
  subst h; unfold mAliveNext; split <;> rfl
theorem mAfterPut_unkill {s1 s2 : St} (h : s2 = s1.unkill) (k n sent cool : Nat) :
    mAfterPut s2 k n sent cool = (mAfterPut s1 k n sent cool).unkill := by
  subst h; unfold mAfterPut; rw [apply_ite St.unkill, ← mJoinLoop_unkill rfl]; rfl
theorem mAfterAddF_unkill {s1 s2 : St} (h : s2 = s1.unkill) : mAfterAddF s2 = (mAfterAddF s1).unkill := by
  subst h; unfold mAfterAddF
  have h2 : s1.unkill.mpc = s1.mpc := rfl
  rw [h2]; split
  · rfl
  · rw [apply_ite St.unkill]; rfl
  · rfl
theorem mAddF_unkill {s1 s2 : St} (h : s2 = s1.unkill) : mAddF s2 = (mAddF s1).unkill := by
  subst h; unfold mAddF; rw [mAdd_unkill rfl]; exact mAfterAddF_unkill rfl
/-- `flag_executor_shutting_down` when `kill_workers` has not been requested -/
theorem mAfterFlag_unkill {s1 s2 : St} (h : s2 = s1.unkill) (hk : s1.killFlag = false) :
    mAfterFlag s2 = (mAfterFlag s1).unkill := by
  subst h; unfold mAfterFlag
  have h2 : s1.unkill.killFlag = false := rfl
  rw [h2, hk]
  simp only [Bool.false_eq_true, if_false]
  rw [apply_ite St.unkill, ← mAddF_unkill rfl]; rfl
theorem spawn_unkill {s1 s2 : St} (h : s2 = s1.unkill) : spawn s2 = (spawn s1).unkill := by
  subst h; rfl
theorem failAll_unkill {s1 s2 : St} (h : s2 = s1.unkill) (ws : List Wid) (f : Fut) : failAll s2 ws f = (failAll s1 ws f).unkill := by
  subst h; rfl

/-! ### user threads' continuations -/

theorem comp_upd {α β : Type} (g : α → β) (f : Nat → α) (k : Nat) (v : α) : g ∘ upd f k v = upd (g ∘ f) k (g v) := by
  funext q; simp only [Function.comp, upd]; split <;> rfl

theorem setU_unkill {s1 s2 : St} (h : s2 = s1.unkill) (k : Nat) {pc pc' : UPc} (hp : pc' = pc.unkill) :
    setU s2 k pc' = (setU s1 k pc).unkill := by
  subst h; subst hp
  simp only [setU, St.unkill, comp_upd]
theorem setU_ite_unkill {s1 s2 : St} (h : s2 = s1.unkill) (k : Nat) {c1 c2 : Prop} [Decidable c1] [Decidable c2]
    (hc : c1 ↔ c2) {a b : UPc} (ha : a = a.unkill) (hb : b = b.unkill) :
    setU s2 k (if c1 then a else b) = (setU s1 k (if c2 then a else b)).unkill := by
  by_cases hh : c1
  · rw [if_pos hh, if_pos (hc.1 hh)]; exact setU_unkill h k ha
  · rw [if_neg hh, if_neg (fun x => hh (hc.2 x))]; exact setU_unkill h k hb
theorem uNext_unkill {s1 s2 : St} (h : s2 = s1.unkill) (k : Nat) : uNext s2 k = (uNext s1 k).unkill := by
  subst h
  have h1 : s1.unkill.uscript k = (s1.uscript k).map UOp.unkill := rfl
  unfold uNext
  rw [h1]
  cases s1.uscript k with
  | nil => simp only [List.map_nil, setU, St.unkill, comp_upd]; rfl
  | cons op rest => simp only [List.map_cons, setU, St.unkill, comp_upd]; rfl

theorem ite_unkill {c1 c2 : Prop} [Decidable c1] [Decidable c2] (hc : c1 ↔ c2) {a1 b1 a2 b2 : St}
    (ha : a1 = a2.unkill) (hb : b1 = b2.unkill) : (if c1 then a1 else b1) = (if c2 then a2 else b2).unkill := by
  by_cases h : c1
  · rw [if_pos h, if_pos (hc.1 h)]; exact ha
  · rw [if_neg h, if_neg (fun x => h (hc.2 x))]; exact hb

theorem ite_unkill_opt {c1 c2 : Prop} [Decidable c1] [Decidable c2] (hc : c1 ↔ c2) {a1 b1 a2 b2 : Option St}
    (ha : a1 = a2.map St.unkill) (hb : b1 = b2.map St.unkill) :
    (if c1 then a1 else b1) = (if c2 then a2 else b2).map St.unkill := by
  by_cases h : c1
  · rw [if_pos h, if_pos (hc.1 h)]; exact ha
  · rw [if_neg h, if_neg (fun x => h (hc.2 x))]; exact hb

theorem acqmap_unkill {v1 v2 : Nat} (hv : v1 = v2) {f1 f2 : Nat → St} (h : ∀ x, f1 x = (f2 x).unkill) :
    (acq v1).map f1 = ((acq v2).map f2).map St.unkill := by
  subst hv
  cases acq v1 with
  | none => rfl
  | some x => exact congrArg some (h x)

theorem uRelease_unkill {s1 s2 : St} (h : s2 = s1.unkill) (k : Nat) : uRelease s2 k = (uRelease s1 k).unkill := by
  subst h; unfold uRelease; simp only []
  exact ite_unkill Iff.rfl (setU_unkill (by rfl) k (by rfl)) (uNext_unkill (by rfl) k)
theorem uSpawnLoop_unkill {s1 s2 : St} (h : s2 = s1.unkill) (k : Nat) : uSpawnLoop s2 k = (uSpawnLoop s1 k).unkill := by
  subst h; unfold uSpawnLoop
  exact ite_unkill Iff.rfl (setU_unkill (by rfl) k (by rfl))
    (ite_unkill Iff.rfl (setU_unkill (by rfl) k (by rfl)) (setU_unkill (by rfl) k (by rfl)))
theorem uDispatch_unkill {s1 s2 : St} (h : s2 = s1.unkill) (k : Nat) (op : UOp) :
    uDispatch s2 k op.unkill = (uDispatch s1 k op).unkill := by
  subst h
  cases op with
  | create => exact uNext_unkill (by rfl) k
  | idle => exact uNext_unkill (by rfl) k
  | submit t =>
    exact ite_unkill (by rfl) (setU_unkill (by rfl) k (by rfl)) (uNext_unkill (by rfl) k)
  | cancel t =>
    simp only [uDispatch, UOp.unkill]
    have h1 : widOfTask s1.unkill t = widOfTask s1 t := rfl
    have h2 : ∀ w, futOf s1.unkill w = futOf s1 w := fun _ => rfl
    rw [h1]
    split
    · rw [h2]; split
      · exact uNext_unkill (by rfl) k
      · exact uNext_unkill (by rfl) k
      · exact uNext_unkill (by rfl) k
    · exact uNext_unkill (by rfl) k
  | shutdown w kl =>
    exact ite_unkill (by rfl) (setU_unkill (by rfl) k (by rfl)) (uNext_unkill (by rfl) k)
  | drop =>
    exact ite_unkill (by rfl) (uRelease_unkill (by rfl) k) (uNext_unkill (by rfl) k)
  | pyexit =>
    exact ite_unkill (by rfl) (setU_unkill (by rfl) k (by rfl)) (uNext_unkill (by rfl) k)

/-! ### the feeder thread -/

theorem fNext_unkill {s1 s2 : St} (h : s2 = s1.unkill) : fNext s2 = (fNext s1).unkill := by
  subst h
  have h1 : s1.unkill.cqBuf = s1.cqBuf := rfl
  have hsp : ∀ t, specOf s1.unkill t = specOf s1 t := fun _ => rfl
  unfold fNext
  rw [h1]
  split
  · rfl
  · rfl
  · rfl
  · rw [hsp]; split <;> rfl

set_option maxHeartbeats 4000000 in
theorem stepF_unkill (s : St) (v : Variant) : stepF s.unkill v = (stepF s v).map St.unkill := by
  have hf : s.unkill.fpc = s.fpc := rfl
  unfold stepF
  rw [hf]
  split
  all_goals (try simp only [])
  all_goals (first
    | rfl
    | (simp only [Option.map_map, apply_ite (Option.map St.unkill)]; rfl)
    | exact congrArg some (fNext_unkill (by rfl))
    | exact ite_unkill_opt Iff.rfl (congrArg some (fNext_unkill (by rfl))) rfl
    | ((repeat' split) <;> first | rfl | (rename_i a b; first | exact absurd a b | exact absurd b a))
    | skip)

/-! ### the manager thread -/

set_option maxHeartbeats 8000000 in
/-- every step of the manager other than the one at `flagRel` that finds the kill flag set -/
theorem stepM_unkill (s : St) (v : Variant) (hk : s.mpc = .flagRel → s.killFlag = false) :
    stepM s.unkill v = (stepM s v).map St.unkill := by
  have hm : s.unkill.mpc = s.mpc := rfl
  have hrq : s.unkill.rqPipe = s.rqPipe := rfl
  unfold stepM
  rw [hm]
  split
  all_goals (try simp only [])
  all_goals (first
    | rfl
    | (simp only [Option.map_map, apply_ite (Option.map St.unkill)]; rfl)
    | exact congrArg some (mAdd_unkill (by rfl))
    | exact congrArg some (mAddF_unkill (by rfl))
    | exact congrArg some (mRespawnCheck_unkill (by rfl))
    | exact congrArg some (mSpawnLoop_unkill (by rfl))
    | exact congrArg some (mDropRef_unkill (by rfl))
    | exact congrArg some (mAfterItem_unkill (by rfl))
    | exact congrArg some (mKillNext_unkill (by rfl))
    | exact congrArg some (mJoinLoop_unkill (by rfl) _ _ _)
    | exact congrArg some (mJoinProcs_unkill (by rfl))
    | exact congrArg some (mAfterPut_unkill (by rfl) _ _ _ _)
    | exact congrArg some (mAliveNext_unkill (by rfl) _ _ _ _ _)
    | exact acqmap_unkill rfl (fun x => ite_unkill Iff.rfl rfl (mAdd_unkill (by rfl)))
    | exact acqmap_unkill rfl (fun x => ite_unkill Iff.rfl rfl (mAddF_unkill (by rfl)))
    | exact acqmap_unkill rfl (fun x => ite_unkill Iff.rfl rfl (mAfterPut_unkill (by rfl) _ _ _ _))
    | exact acqmap_unkill rfl (fun x => mSpawnLoop_unkill (by rfl))
    | exact acqmap_unkill rfl (fun x => mRelExitNext_unkill (by rfl) _ _)
    | exact acqmap_unkill rfl (fun x => mAliveNext_unkill (by rfl) _ _ _ _ _)
    | exact acqmap_unkill rfl (fun x => mJoinProcs_unkill (by rfl))
    | (rw [hrq]; split <;> rfl)
    | (refine ite_unkill_opt Iff.rfl ?_ rfl; split <;> first | rfl | exact congrArg some (mProcess_unkill (by rfl) _))
    | exact congrArg some (ite_unkill Iff.rfl rfl (mRespawnCheck_unkill (by rfl)))
    | exact congrArg some (ite_unkill Iff.rfl rfl (mJoinClose_unkill (by rfl)))
    | exact congrArg some (ite_unkill Iff.rfl rfl rfl)
    | exact ite_unkill_opt Iff.rfl (congrArg some (mRespawnCheck_unkill (by rfl))) rfl
    | exact ite_unkill_opt Iff.rfl (congrArg some (mKillNext_unkill (by rfl))) rfl
    | exact ite_unkill_opt Iff.rfl (congrArg some (mJoinProcs_unkill (by rfl))) rfl
    | exact ite_unkill_opt Iff.rfl rfl (congrArg some (mRelExitNext_unkill (by rfl) _ _))
    | exact congrArg some (mAfterFlag_unkill (by rfl) (hk (by assumption)))
    | skip)

/-! ### user threads -/

set_option maxHeartbeats 8000000 in
theorem stepU_unkill (s : St) (k : Nat) (v : Variant) : stepU s.unkill k v = (stepU s k v).map St.unkill := by
  have hu : s.unkill.upc k = (s.upc k).unkill := rfl
  have hc : s.unkill.ucur k = (s.ucur k).map UOp.unkill := rfl
  unfold stepU
  rw [hu]
  cases hpc : s.upc k <;> cases v
  all_goals (simp only [UPc.unkill])
  all_goals (first
    | rfl
    | exact congrArg some (uNext_unkill (by rfl) k)
    | exact congrArg some (uRelease_unkill (by rfl) k)
    | exact congrArg some (uSpawnLoop_unkill (by rfl) k)
    | exact congrArg some (setU_unkill (by rfl) k (by rfl))
    | exact acqmap_unkill rfl (fun x => setU_unkill (by rfl) k (by rfl))
    | exact acqmap_unkill rfl (fun x => setU_ite_unkill (by rfl) k Iff.rfl rfl rfl)
    | exact ite_unkill_opt Iff.rfl (congrArg some (setU_unkill (by rfl) k (by rfl))) rfl
    | exact congrArg some (setU_ite_unkill (by rfl) k Iff.rfl rfl rfl)
    | exact congrArg some (ite_unkill Iff.rfl (uRelease_unkill (by rfl) k) (setU_unkill (by rfl) k (by rfl)))
    | exact congrArg some (ite_unkill Iff.rfl (setU_unkill (by rfl) k (by rfl)) (uRelease_unkill (by rfl) k))
    | exact acqmap_unkill rfl (fun x => ite_unkill Iff.rfl (setU_unkill (by rfl) k (by rfl))
        (ite_unkill Iff.rfl (setU_unkill (by rfl) k (by rfl)) (setU_unkill (by rfl) k (by rfl))))
    | exact acqmap_unkill rfl (fun x => ite_unkill Iff.rfl (uSpawnLoop_unkill (by rfl) k)
        (ite_unkill Iff.rfl (setU_unkill (by rfl) k (by rfl)) (setU_unkill (by rfl) k (by rfl))))
    | (rw [hc]; cases s.ucur k with
        | none => rfl
        | some op => exact congrArg some (uDispatch_unkill (by rfl) k op))
    | skip)

/-! ### one step, the initial state, what is enabled, what is good -/

theorem unkill_scripts_length (s : St) : s.unkill.cfg.scripts.length = s.cfg.scripts.length := by
  simp [St.unkill, Cfg.unkill]

/-- **every step other than the manager's discovery of the kill flag commutes with forgetting `kill_workers`** -/
theorem step_unkill (s : St) (a : Actor) (v : Variant) (h : seesKill s a = false) :
    step s.unkill a v = (step s a v).map St.unkill := by
  unfold step
  cases a with
  | U k =>
    simp only [unkill_scripts_length]
    split
    · exact stepU_unkill s k v
    · rfl
  | M =>
    refine stepM_unkill s v ?_
    intro hm
    simpa [seesKill, hm] using h
  | F => exact stepF_unkill s v
  | W p =>
    have : s.unkill.allPids = s.allPids := rfl
    simp only [this]
    split
    · exact stepW_unkill s p v
    · rfl

theorem init_unkill (cfg : Cfg) : init cfg.unkill = (init cfg).unkill := by
  have : (fun k => cfg.unkill.scripts.getD k []) = List.map UOp.unkill ∘ fun k => cfg.scripts.getD k [] := by
    funext k
    simp [Cfg.unkill, Function.comp, List.getD_eq_getElem?_getD, List.getElem?_map]
    cases cfg.scripts[k]? <;> rfl
  simp only [init, St.unkill, this]
  rfl

theorem actorsOf_unkill (s : St) : actorsOf s.unkill = actorsOf s := by
  unfold actorsOf; rw [unkill_scripts_length]; rfl

/-- in a state in which the manager is not about to discover the kill flag, the same steps are enabled -/
theorem enabledNC_unkill (s : St) (h : (s.mpc == .flagRel && s.killFlag) = false) : enabledNC s.unkill = enabledNC s := by
  unfold enabledNC
  rw [actorsOf_unkill]
  congr 1
  funext a
  have hs : seesKill s a = false := by
    unfold seesKill
    cases ha : (a == Actor.M) with
    | false => rfl
    | true => simpa using h
  congr 1
  apply List.filter_congr
  intro v _
  rw [step_unkill s a v hs]
  cases step s a v <;> rfl

theorem good_unkill (s : St) : good s.unkill = good s := by
  unfold good
  rw [unkill_scripts_length]
  congr 1
  apply List.all_congr rfl
  intro k
  show (UPc.unkill (s.upc k) == .done) = (s.upc k == .done)
  cases s.upc k <;> rfl

end LokyModel.Exec
