import LokyModel.Lemmas.ExecLiveCrashHolderBase
import LokyModel.ExecLiveDCDef
/-! `dcHolder'` (lock holders of a dynamic pool whose workers may die at lock-free points): the Prop form `HolderInvD`,
    the Bool ↔ Prop translation, what `dcSmall` says about the pre-state, and the per-actor assembly lemmas.  The model is
    `ExecLiveCrashHolderBase.lean` (`HolderInvC`, static pools); the one difference is the section of the
    process-management lock, which an idle worker enters at `eTry` (non-blocking) and leaves at `eRel`: `secMgmt` of
    `ExecLiveHolder.lean` instead of `secMgmtC`. -/
namespace LokyModel.Exec

structure HolderInvD (s : St) : Prop where
  rqW : s.broken = none → LockOk s.rqWlock s.oRqWlock (secRqW s)
  cqR : s.broken = none → LockOk s.cqRlock s.oCqRlock (secCqR s)
  cqW : LockOk s.cqWlock s.oCqWlock (secCqW s)
  gshut : LockOk s.gshut s.oGshut (secGshut s)
  mgmt : LockOk s.mgmt s.oMgmt (secMgmt s)
  shut : LockOk s.shut s.oShut (secShut s)
  tstart : mTStart s.mpc = true → s.fpc = .none
  kpc : hcKillPc s.mpc = true → s.broken ≠ none

theorem holderInvD_of_bool {s : St} (hp : PidsInv s) (h : dcHolder' s = true) : HolderInvD s ∧ ExitInv s := by
  unfold dcHolder' at h
  simp only [Bool.and_eq_true] at h
  obtain ⟨⟨⟨⟨hC, hE⟩, hW⟩, hX⟩, hK⟩ := h
  refine ⟨?_, exitInv_of_ok (by rw [← hcExitOk_eq]; exact hX)⟩
  unfold dcHolder at hC; simp only [Bool.and_eq_true] at hC
  obtain ⟨⟨⟨⟨a3, a4⟩, a5⟩, a6⟩, a12⟩ := hC
  unfold hcExcl at hE; simp only [Bool.and_eq_true] at hE
  obtain ⟨⟨⟨⟨⟨⟨⟨⟨e12, e3⟩, e4⟩, e5u⟩, e5m⟩, e6u⟩, e6m⟩, e6f⟩, e7⟩ := hE
  have hdead : ∀ p, p ∉ s.allPids → s.w p = .dead := hp.dead
  refine ⟨?_, ?_, ⟨?_, ?_, ?_⟩, ⟨?_, ?_, ?_⟩, ⟨?_, ?_, ?_⟩, ⟨?_, ?_, ?_⟩, ?_, ?_⟩
  -- rqW
  · intro hb
    simp only [hb, Option.isSome_none, Bool.false_or, Bool.and_eq_true] at a12 e12
    obtain ⟨a1, _⟩ := a12
    obtain ⟨e1, _⟩ := e12
    refine ⟨?_, ?_, ?_⟩
    · intro ho; rw [ho] at a1; simpa using a1
    · intro a ha; rw [ha] at a1; cases a <;> simp_all [secRqW]
    · intro a ha
      cases a with
      | W p =>
        simp only [secRqW] at ha
        by_cases hm : p ∈ s.allPids
        · simp only [List.all_eq_true] at e1
          have := e1 p hm; simp_all
        · rw [hdead p hm] at ha; simp [inRqW] at ha
      | _ => simp [secRqW] at ha
  -- cqR
  · intro hb
    simp only [hb, Option.isSome_none, Bool.false_or, Bool.and_eq_true] at a12 e12
    obtain ⟨_, a2⟩ := a12
    obtain ⟨_, e2⟩ := e12
    refine ⟨?_, ?_, ?_⟩
    · intro ho; rw [ho] at a2; simpa using a2
    · intro a ha; rw [ha] at a2; cases a <;> simp_all [secCqR]
    · intro a ha
      cases a with
      | W p =>
        simp only [secCqR] at ha
        by_cases hm : p ∈ s.allPids
        · simp only [List.all_eq_true] at e2
          have := e2 p hm; simp_all
        · rw [hdead p hm] at ha; simp [inCqR] at ha
      | _ => simp [secCqR] at ha
  -- cqW
  · intro ho; rw [ho] at a3; simpa using a3
  · intro a ha; rw [ha] at a3; cases a <;> simp_all [secCqW]
  · intro a ha
    cases a with
    | F => simp only [secCqW] at ha; simp_all
    | _ => simp [secCqW] at ha
  -- gshut
  · intro ho; rw [ho] at a4; simpa using a4
  · intro a ha; rw [ha] at a4; cases a <;> simp_all [secGshut]
  · intro a ha
    cases a with
    | U k =>
      simp only [secGshut, Bool.and_eq_true, decide_eq_true_eq] at ha
      simp only [List.all_eq_true, List.mem_range] at e4
      have := e4 k ha.2; simp_all
    | _ => simp [secGshut] at ha
  -- mgmt
  · intro ho; rw [ho] at a5; simpa using a5
  · intro a ha; rw [ha] at a5; cases a <;> simp_all [secMgmt]
  · intro a ha
    simp only [List.all_eq_true, List.mem_range] at e5u
    cases a with
    | U k =>
      simp only [secMgmt, Bool.and_eq_true, decide_eq_true_eq] at ha
      have := e5u k ha.2; simp_all
    | M => simp only [secMgmt] at ha; simp_all
    | W p =>
      simp only [secMgmt] at ha
      by_cases hm : p ∈ s.allPids
      · simp only [List.all_eq_true] at hW
        have := hW p hm; simp_all
      · rw [hdead p hm] at ha; simp at ha
    | F => simp [secMgmt] at ha
  -- shut
  · intro ho; rw [ho] at a6; simpa using a6
  · intro a ha; rw [ha] at a6; cases a <;> simp_all [secShut]
  · intro a ha
    simp only [List.all_eq_true, List.mem_range] at e6u
    cases a with
    | U k =>
      simp only [secShut, Bool.and_eq_true, decide_eq_true_eq] at ha
      have := e6u k ha.2; simp_all
    | M => simp only [secShut] at ha; simp_all
    | F => simp only [secShut] at ha; simp_all
    | W p => simp [secShut] at ha
  · intro ht; rw [← hcTStart_eq] at ht; simp_all
  · intro hk hb; simp [hk, hb] at hK

theorem bool_of_holderInvD {s : St} (h : HolderInvD s) (hx : ExitInv s) : dcHolder' s = true := by
  obtain ⟨h1, h2, h3, h4, h5, h6, h7, h8⟩ := h
  unfold dcHolder'
  simp only [Bool.and_eq_true]
  refine ⟨⟨⟨⟨?_, ?_⟩, ?_⟩, by rw [hcExitOk_eq]; exact ok_of_exitInv hx⟩, ?_⟩
  · unfold dcHolder
    simp only [Bool.and_eq_true]
    refine ⟨⟨⟨⟨?_, ?_⟩, ?_⟩, ?_⟩, ?_⟩
    · cases ho : s.oCqWlock with
      | none => have := h3.free ho; simp [this]
      | some a => obtain ⟨x, y⟩ := h3.held a ho; cases a <;> simp_all [secCqW]
    · cases ho : s.oGshut with
      | none => have := h4.free ho; simp [this]
      | some a => obtain ⟨x, y⟩ := h4.held a ho; cases a <;> simp_all [secGshut]
    · cases ho : s.oMgmt with
      | none => have := h5.free ho; simp [this]
      | some a => obtain ⟨x, y⟩ := h5.held a ho; cases a <;> simp_all [secMgmt]
    · cases ho : s.oShut with
      | none => have := h6.free ho; simp [this]
      | some a => obtain ⟨x, y⟩ := h6.held a ho; cases a <;> simp_all [secShut]
    · cases hb : s.broken with
      | some b => simp
      | none =>
        have h1 := h1 hb
        have h2 := h2 hb
        simp only [Option.isSome_none, Bool.false_or, Bool.and_eq_true]
        refine ⟨?_, ?_⟩
        · cases ho : s.oRqWlock with
          | none => have := h1.free ho; simp [this]
          | some a => obtain ⟨x, y⟩ := h1.held a ho; cases a <;> simp_all [secRqW]
        · cases ho : s.oCqRlock with
          | none => have := h2.free ho; simp [this]
          | some a => obtain ⟨x, y⟩ := h2.held a ho; cases a <;> simp_all [secCqR]
  · unfold hcExcl
    simp only [Bool.and_eq_true]
    refine ⟨⟨⟨⟨⟨⟨⟨⟨?_, ?_⟩, ?_⟩, ?_⟩, ?_⟩, ?_⟩, ?_⟩, ?_⟩, ?_⟩
    · cases hb : s.broken with
      | some b => simp
      | none =>
        have h1 := h1 hb
        have h2 := h2 hb
        simp only [Option.isSome_none, Bool.false_or, Bool.and_eq_true, List.all_eq_true]
        refine ⟨?_, ?_⟩
        · intro p _
          cases hb : inRqW (s.w p) with
          | false => simp
          | true => have := h1.excl (.W p) (by simpa [secRqW] using hb); simp [this]
        · intro p _
          cases hb : inCqR (s.w p) with
          | false => simp
          | true => have := h2.excl (.W p) (by simpa [secCqR] using hb); simp [this]
    · cases hb : inCqWF s.fpc with
      | false => simp
      | true => have := h3.excl .F (by simpa [secCqW] using hb); simp [this]
    · simp only [List.all_eq_true, List.mem_range]; intro k hk
      cases hb : inGshutU (s.upc k) with
      | false => simp
      | true => have := h4.excl (.U k) (by simp [secGshut, hb, hk]); simp [this]
    · simp only [List.all_eq_true, List.mem_range]; intro k hk
      cases hb : inMgmtU' (s.upc k) with
      | false => simp
      | true => have := h5.excl (.U k) (by simp [secMgmt, hb, hk]); simp [this]
    · cases hb : inMgmtM' s.mpc with
      | false => simp
      | true => have := h5.excl .M (by simpa [secMgmt] using hb); simp [this]
    · simp only [List.all_eq_true, List.mem_range]; intro k hk
      cases hb : inShutU' (s.upc k) with
      | false => simp
      | true => have := h6.excl (.U k) (by simp [secShut, hb, hk]); simp [this]
    · cases hb : inShutM' s.mpc with
      | false => simp
      | true => have := h6.excl .M (by simpa [secShut] using hb); simp [this]
    · cases hb : inShutF' s.fpc with
      | false => simp
      | true => have := h6.excl .F (by simpa [secShut] using hb); simp [this]
    · rw [hcTStart_eq]
      cases hb : mTStart s.mpc with
      | false => simp
      | true => simp [h7 hb]
  · simp only [List.all_eq_true]; intro p _
    cases hb : s.w p == .eRel with
    | false => simp
    | true => have := h5.excl (.W p) (by simpa [secMgmt] using hb); simp [this]
  · cases hk : hcKillPc s.mpc with
    | false => simp
    | true =>
      have := h8 hk
      cases hb : s.broken with
      | none => exact absurd hb this
      | some b => simp

theorem dcHolder_of_bool {s : St} (h : dcHolder' s = true) : dcHolder s = true := by
  unfold dcHolder' at h; simp only [Bool.and_eq_true] at h; exact h.1.1.1.1

theorem holderInvD_init (cfg : Cfg) : HolderInvD (init cfg) := by
  refine ⟨fun _ => ⟨?_, ?_, ?_⟩, fun _ => ⟨?_, ?_, ?_⟩, ⟨?_, ?_, ?_⟩, ⟨?_, ?_, ?_⟩, ⟨?_, ?_, ?_⟩, ⟨?_, ?_, ?_⟩, ?_,
    fun h => by simp [init, hcKillPc] at h⟩
  all_goals (first
    | (intro _; rfl)
    | (intro a ha; cases ha)
    | (intro a ha; exfalso; cases a <;> simp [init, secRqW, secCqR, secCqW, secGshut, secMgmt, secShut, inRqW, inCqR, inCqWF, inGshutU, inMgmtU', inMgmtM', inShutU', inShutM', inShutF'] at ha)
    | (intro h; rfl))

/-! ### what `dcSmall` says about the pre-state -/

theorem dcSmall_killFlag (s : St) (h : dcSmall s = true) : s.killFlag = false := by
  unfold dcSmall at h
  simp only [Bool.and_eq_true] at h
  obtain ⟨⟨⟨⟨_, hk⟩, _⟩, _⟩, _⟩ := h
  simpa using hk

/-- the manager's `kill` does not hit a worker inside the window of the process-management lock -/
theorem killsERel_ne {s : St} (h : killsERel s = false) (p : Pid) (hm : s.mpc = .kill p) : s.w p ≠ .eRel := by
  unfold killsERel at h; rw [hm] at h
  intro e; simp [e] at h

theorem die_isERel (s0 s : St) (p : Pid) (c : Int) (hw0 : s0.w = s.w) (k3 : s.w p ≠ .eRel) (q : Pid) :
    isERel ((die s0 p c).w q) = isERel (s.w q) := by
  rw [die_w', hw0]
  by_cases e : q = p
  · subst e
    rw [upd_same']
    cases hq : s.w q <;> simp_all [isERel]
  · rw [upd_other' _ _ _ _ e]

/-! ### assembling the invariant after a step of one actor -/

theorem holderInvD_F {s s' : St} (h : HolderInvD s) (hne : s.fpc ≠ .none)
    (hw : s'.w = s.w) (hupc : s'.upc = s.upc) (hmpc : s'.mpc = s.mpc) (hcfg : s'.cfg = s.cfg)
    (hbr : s'.broken = s.broken)
    (r1 : s'.rqWlock = s.rqWlock) (r2 : s'.oRqWlock = s.oRqWlock)
    (c1 : s'.cqRlock = s.cqRlock) (c2 : s'.oCqRlock = s.oCqRlock)
    (g1 : s'.gshut = s.gshut) (g2 : s'.oGshut = s.oGshut)
    (m1 : s'.mgmt = s.mgmt) (m2 : s'.oMgmt = s.oMgmt)
    (t1 : Tri s.cqWlock s'.cqWlock s.oCqWlock s'.oCqWlock .F (inCqWF s.fpc) (inCqWF s'.fpc))
    (t2 : Tri s.shut s'.shut s.oShut s'.oShut .F (inShutF' s.fpc) (inShutF' s'.fpc)) : HolderInvD s' := by
  obtain ⟨h1, h2, h3, h4, h5, h6, h7, h8⟩ := h
  refine ⟨?_, ?_, ?_, ?_, ?_, ?_, ?_, ?_⟩
  · intro hb; rw [hbr] at hb
    rw [r1, r2]; exact (h1 hb).same (by intro b; cases b <;> simp [secRqW, hw])
  · intro hb; rw [hbr] at hb
    rw [c1, c2]; exact (h2 hb).same (by intro b; cases b <;> simp [secCqR, hw])
  · exact h3.tri .F (by intro b hb; cases b <;> simp_all [secCqW]) (by simpa [secCqW] using t1)
  · rw [g1, g2]; exact h4.same (by intro b; cases b <;> simp [secGshut, hupc, hcfg])
  · rw [m1, m2]; exact h5.same (by intro b; cases b <;> simp [secMgmt, hupc, hcfg, hmpc, hw])
  · exact h6.tri .F (by intro b hb; cases b <;> simp_all [secShut]) (by simpa [secShut] using t2)
  · intro ht; rw [hmpc] at ht; exact absurd (h7 ht) hne
  · rw [hmpc, hbr]; exact h8

theorem holderInvD_W {s s' : St} (h : HolderInvD s) (p : Pid)
    (hw : ∀ q, q ≠ p → s'.w q = s.w q) (hupc : s'.upc = s.upc) (hmpc : s'.mpc = s.mpc) (hfpc : s'.fpc = s.fpc)
    (hcfg : s'.cfg = s.cfg) (hbr : s'.broken = s.broken)
    (c1 : s'.cqWlock = s.cqWlock) (c2 : s'.oCqWlock = s.oCqWlock)
    (g1 : s'.gshut = s.gshut) (g2 : s'.oGshut = s.oGshut)
    (m1 : s'.shut = s.shut) (m2 : s'.oShut = s.oShut)
    (t1 : Tri s.rqWlock s'.rqWlock s.oRqWlock s'.oRqWlock (.W p) (inRqW (s.w p)) (inRqW (s'.w p)))
    (t2 : Tri s.cqRlock s'.cqRlock s.oCqRlock s'.oCqRlock (.W p) (inCqR (s.w p)) (inCqR (s'.w p)))
    (t3 : Tri s.mgmt s'.mgmt s.oMgmt s'.oMgmt (.W p) (isERel (s.w p)) (isERel (s'.w p))) :
    HolderInvD s' := by
  obtain ⟨h1, h2, h3, h4, h5, h6, h7, h8⟩ := h
  refine ⟨?_, ?_, ?_, ?_, ?_, ?_, ?_, ?_⟩
  · intro hb; rw [hbr] at hb
    refine (h1 hb).tri (.W p) ?_ (by simpa [secRqW] using t1)
    intro b hb; cases b <;> simp [secRqW]
    rename_i q; exact congrArg _ (hw q (by simpa using hb))
  · intro hb; rw [hbr] at hb
    refine (h2 hb).tri (.W p) ?_ (by simpa [secCqR] using t2)
    intro b hb; cases b <;> simp [secCqR]
    rename_i q; exact congrArg _ (hw q (by simpa using hb))
  · rw [c1, c2]; exact h3.same (by intro b; cases b <;> simp [secCqW, hfpc])
  · rw [g1, g2]; exact h4.same (by intro b; cases b <;> simp [secGshut, hupc, hcfg])
  · refine h5.tri (.W p) ?_ (by simpa [secMgmt, beq_eRel] using t3)
    intro b hb; cases b <;> simp [secMgmt, hupc, hcfg, hmpc]
    rename_i q; rw [hw q (by simpa using hb)]
  · rw [m1, m2]; exact h6.same (by intro b; cases b <;> simp [secShut, hupc, hcfg, hmpc, hfpc])
  · rw [hmpc, hfpc]; exact h7
  · rw [hmpc, hbr]; exact h8

theorem holderInvD_M {s s' : St} (h : HolderInvD s)
    (hw : s'.broken = none → ∀ q, wSec (s'.w q) = wSec (s.w q))
    (hw3 : ∀ q, isERel (s'.w q) = isERel (s.w q)) (hupc : s'.upc = s.upc) (hcfg : s'.cfg = s.cfg)
    (hbr : s'.broken = none → s.broken = none)
    (hfpc : s'.fpc = s.fpc ∨ (mTStart s.mpc = true ∧ s'.fpc = .start))
    (r1 : s'.rqWlock = s.rqWlock) (r2 : s'.oRqWlock = s.oRqWlock)
    (c1 : s'.cqRlock = s.cqRlock) (c2 : s'.oCqRlock = s.oCqRlock)
    (d1 : s'.cqWlock = s.cqWlock) (d2 : s'.oCqWlock = s.oCqWlock)
    (g1 : s'.gshut = s.gshut) (g2 : s'.oGshut = s.oGshut)
    (t1 : Tri s.mgmt s'.mgmt s.oMgmt s'.oMgmt .M (inMgmtM' s.mpc) (inMgmtM' s'.mpc))
    (t2 : Tri s.shut s'.shut s.oShut s'.oShut .M (inShutM' s.mpc) (inShutM' s'.mpc))
    (ht : mTStart s'.mpc = true → s'.fpc = .none)
    (hk : hcKillPc s'.mpc = true → s'.broken ≠ none) : HolderInvD s' := by
  obtain ⟨h1, h2, h3, h4, h5, h6, h7, h8⟩ := h
  have hf1 : inCqWF s'.fpc = inCqWF s.fpc := by
    rcases hfpc with e | ⟨e1, e2⟩
    · rw [e]
    · rw [e2, h7 e1]; rfl
  have hf2 : inShutF' s'.fpc = inShutF' s.fpc := by
    rcases hfpc with e | ⟨e1, e2⟩
    · rw [e]
    · rw [e2, h7 e1]; rfl
  refine ⟨?_, ?_, ?_, ?_, ?_, ?_, ht, hk⟩
  · intro hb
    have hw1 : ∀ q, inRqW (s'.w q) = inRqW (s.w q) := fun q => congrArg (·.1) (hw hb q)
    rw [r1, r2]; exact (h1 (hbr hb)).same (by intro b; cases b <;> simp [secRqW, hw1])
  · intro hb
    have hw2 : ∀ q, inCqR (s'.w q) = inCqR (s.w q) := fun q => congrArg (·.2.1) (hw hb q)
    rw [c1, c2]; exact (h2 (hbr hb)).same (by intro b; cases b <;> simp [secCqR, hw2])
  · rw [d1, d2]; exact h3.same (by intro b; cases b <;> simp [secCqW, hf1])
  · rw [g1, g2]; exact h4.same (by intro b; cases b <;> simp [secGshut, hupc, hcfg])
  · refine h5.tri .M ?_ (by simpa [secMgmt] using t1)
    intro b hb; cases b <;> simp_all [secMgmt, beq_eRel]
  · refine h6.tri .M ?_ (by simpa [secShut] using t2)
    intro b hb; cases b <;> simp_all [secShut]

theorem holderInvD_U {s s' : St} (h : HolderInvD s) (k : Nat) (hk : k < s.cfg.scripts.length)
    (hupc : ∀ j, j ≠ k → s'.upc j = s.upc j) (hw : ∀ q, wSec (s'.w q) = wSec (s.w q)) (hfpc : s'.fpc = s.fpc)
    (hcfg : s'.cfg = s.cfg) (hbr : s'.broken = s.broken)
    (hmpc : s'.mpc = s.mpc ∨ (inMgmtU' (s.upc k) = true ∧ inShutU' (s.upc k) = true ∧ s'.mpc = .start))
    (r1 : s'.rqWlock = s.rqWlock) (r2 : s'.oRqWlock = s.oRqWlock)
    (c1 : s'.cqRlock = s.cqRlock) (c2 : s'.oCqRlock = s.oCqRlock)
    (d1 : s'.cqWlock = s.cqWlock) (d2 : s'.oCqWlock = s.oCqWlock)
    (t1 : Tri s.gshut s'.gshut s.oGshut s'.oGshut (.U k) (inGshutU (s.upc k)) (inGshutU (s'.upc k)))
    (t2 : Tri s.mgmt s'.mgmt s.oMgmt s'.oMgmt (.U k) (inMgmtU' (s.upc k)) (inMgmtU' (s'.upc k)))
    (t3 : Tri s.shut s'.shut s.oShut s'.oShut (.U k) (inShutU' (s.upc k)) (inShutU' (s'.upc k))) : HolderInvD s' := by
  obtain ⟨h1, h2, h3, h4, h5, h6, h7, h8⟩ := h
  have hw1 : ∀ q, inRqW (s'.w q) = inRqW (s.w q) := fun q => congrArg (·.1) (hw q)
  have hw2 : ∀ q, inCqR (s'.w q) = inCqR (s.w q) := fun q => congrArg (·.2.1) (hw q)
  have hw3 : ∀ q, isERel (s'.w q) = isERel (s.w q) := fun q => congrArg (·.2.2) (hw q)
  have hm1 : inMgmtM' s'.mpc = inMgmtM' s.mpc := by
    rcases hmpc with e | ⟨e1, e2, e3⟩
    · rw [e]
    · rw [e3]
      cases hb : inMgmtM' s.mpc with
      | false => rfl
      | true =>
        have x := h5.excl .M (by simpa [secMgmt] using hb)
        have y := h5.excl (.U k) (by simp [secMgmt, e1, hk])
        rw [x] at y; cases y
  have hm2 : inShutM' s'.mpc = inShutM' s.mpc := by
    rcases hmpc with e | ⟨e1, e2, e3⟩
    · rw [e]
    · rw [e3]
      cases hb : inShutM' s.mpc with
      | false => rfl
      | true =>
        have x := h6.excl .M (by simpa [secShut] using hb)
        have y := h6.excl (.U k) (by simp [secShut, e2, hk])
        rw [x] at y; cases y
  have hu : ∀ (f : UPc → Bool) (j : Nat), j ≠ k →
      (f (s'.upc j) && decide (j < s'.cfg.scripts.length)) = (f (s.upc j) && decide (j < s.cfg.scripts.length)) := by
    intro f j hj; rw [hupc j hj, hcfg]
  refine ⟨?_, ?_, ?_, ?_, ?_, ?_, ?_, ?_⟩
  · intro hb; rw [hbr] at hb
    rw [r1, r2]; exact (h1 hb).same (by intro b; cases b <;> simp [secRqW, hw1])
  · intro hb; rw [hbr] at hb
    rw [c1, c2]; exact (h2 hb).same (by intro b; cases b <;> simp [secCqR, hw2])
  · rw [d1, d2]; exact h3.same (by intro b; cases b <;> simp [secCqW, hfpc])
  · refine h4.tri (.U k) ?_ (by simpa [secGshut, hk, hcfg] using t1)
    intro b hb; cases b <;> simp only [secGshut]
    rename_i j; exact hu _ j (by simpa using hb)
  · refine h5.tri (.U k) ?_ (by simpa [secMgmt, hk, hcfg] using t2)
    intro b hb; cases b <;> simp only [secMgmt, hm1, beq_eRel, hw3]
    rename_i j; exact hu _ j (by simpa using hb)
  · refine h6.tri (.U k) ?_ (by simpa [secShut, hk, hcfg] using t3)
    intro b hb; cases b <;> simp only [secShut, hm2, hfpc]
    rename_i j; exact hu _ j (by simpa using hb)
  · intro ht
    rcases hmpc with e | ⟨_, _, e3⟩
    · rw [e] at ht; rw [hfpc]; exact h7 ht
    · rw [e3] at ht; cases ht
  · intro hkp
    rcases hmpc with e | ⟨_, _, e3⟩
    · rw [e] at hkp; rw [hbr]; exact h8 hkp
    · rw [e3] at hkp; cases hkp

end LokyModel.Exec
