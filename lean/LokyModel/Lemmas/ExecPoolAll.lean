import LokyModel.Lemmas.ExecPoolStep
namespace LokyModel.Exec

set_option maxHeartbeats 4000000 in
theorem poolInv_stepW (s s' : St) (p : Pid) (v : Variant) (h : PoolInv s) (hs : stepW s p v = some s') : PoolInv s' := by
  unfold stepW at hs
  crack_step
  all_goals (first
    | (refine pool_wmove s _ h p _ rfl ?_ ?_
       · simp
       · first | (intro _; rfl) | (intro ha; simp_all [announced]))
    | (refine pool_wmove s _ h p _ (wGet_w' _ _) ?_ ?_
       · simp
       · intro ha; simp_all [announced])
    | (refine pool_wmove s _ h p _ (wDispatch_w' _ _ _) ?_ ?_
       · simp
       · intro ha; simp_all [announced])
    | (refine pool_wmove s _ h p _ (wAfterStart_w' _ _) ?_ ?_
       · simp
       · intro ha; simp_all [announced])
    | (obtain ⟨pc, hw, hpc⟩ := wAfterResult_w' { s with rqWlock := s.rqWlock + 1, oRqWlock := none } p
       refine pool_wmove s _ h p pc hw ?_ ?_
       · simp
       · intro ha; simp_all [announced])
    | skip)

set_option maxHeartbeats 4000000 in
theorem poolInv_stepF (s s' : St) (v : Variant) (h : PoolInv s) (hs : stepF s v = some s') : PoolInv s' := by
  unfold stepF at hs
  crack_step
  all_goals (first
    | (refine pool_congr s _ h ?_ ?_ <;> simp <;> done)
    | skip)

set_option maxHeartbeats 8000000 in
theorem poolInv_stepM (s s' : St) (v : Variant) (h : PoolInv s) (ha : AnnInv s) (hsp : SpawnInv s)
    (hs : stepM s v = some s') : PoolInv s' := by
  unfold stepM at hs
  crack_step
  all_goals (first
    | (refine pool_congr s _ h ?_ ?_
       · simp
       · first | (simp; done) | (rw [‹s.mpc = _›]; first | rfl | (simp; rfl)))
    -- a worker announced its exit: un-register it
    | (refine pool_erase s _ h _ (ha.m _ (by rw [‹s.mpc = _›]; rfl)).1 (by rw [‹s.mpc = _›]; rfl) ?_ ?_
       · simp
       · rfl)
    | (refine pool_spawn s _ h (hsp.m (by simp [spawningM, *])) ha.lt (by rw [‹s.mpc = _›]; rfl) ?_ ?_
       · simp [spawn]
       · simp)
    | (exact pool_kill s h _ ‹_›)
    -- the manager pops the next worker to kill / join
    | (refine pool_mKillNext _ ?_ ?_
       · refine pool_congr s _ h ?_ ?_
         · simp
         · first | (simp; done) | (rw [‹s.mpc = _›]; first | rfl | (simp; rfl))
       · first | (simp; done) | (simp; rw [‹s.mpc = _›]; rfl))
    | (refine pool_mJoinProcs _ ?_ ?_
       · refine pool_congr s _ h ?_ ?_
         · simp
         · first | (simp; done) | (rw [‹s.mpc = _›]; first | rfl | (simp; rfl))
       · first | (simp; done) | (simp; rw [‹s.mpc = _›]; rfl))
    | (refine pool_mAfterFlag _ ?_ ?_
       · refine pool_congr s _ h ?_ ?_
         · simp
         · first | (simp; done) | (rw [‹s.mpc = _›]; first | rfl | (simp; rfl))
       · first | (simp; done) | (simp; rw [‹s.mpc = _›]; rfl))
    | (rw [mKillNext_irrel s .none]
       exact pool_mKillNext _ (pool_clear s h _ (by rw [‹s.mpc = _›]; rfl) ‹_›) rfl)
    | (rw [mJoinProcs_irrel s .none]
       exact pool_mJoinProcs _ (pool_clear s h _ (by rw [‹s.mpc = _›]; rfl) ‹_›) rfl)
    | skip)

theorem pool_uDispatch (s : St) (k : Nat) (op : UOp) (h : PoolInv s) : PoolInv (uDispatch s k op) := by
  unfold uDispatch
  cases op <;> simp only [] <;> (repeat' split) <;> (refine pool_congr s _ h ?_ ?_ <;> simp)

set_option maxHeartbeats 4000000 in
theorem poolInv_stepU (s s' : St) (k : Nat) (v : Variant) (h : PoolInv s) (ha : AnnInv s) (hsp : SpawnInv s)
    (hsh : ShutInv s) (hs : stepU s k v = some s') : PoolInv s' := by
  have hpop : accU (s.upc k) = true → mPop s.mpc = none := by
    intro hacc
    have hf := hsh.acc k hacc
    cases hm : mPop s.mpc with
    | none => rfl
    | some q => have := hsh.flag (mPop_flagged _ q hm); rw [hf] at this; cases this
  unfold stepU at hs
  crack_step
  all_goals (first
    | (refine pool_congr s _ h ?_ ?_ <;> simp <;> done)
    | (exact pool_uDispatch s k _ h)
    | (refine pool_spawn s _ h (hsp.u k (by simp [spawningU, *])) ha.lt (hpop (by simp [accU, *])) ?_ ?_
       · simp [spawn]
       · simpa using hpop (by simp [accU, *]))
    | (refine pool_congr s _ h ?_ ?_
       · simp
       · have := hpop (by simp [accU, *]); rw [this]; rfl)
    | skip)

theorem poolInv_step {s s' : St} {a : Actor} {v : Variant} (h : PoolInv s) (ha : AnnInv s) (hsp : SpawnInv s)
    (hsh : ShutInv s) (hs : step s a v = some s') : PoolInv s' := by
  unfold step at hs
  cases a with
  | U k => simp only [] at hs; split at hs; exact poolInv_stepU s s' k v h ha hsp hsh hs; cases hs
  | M => exact poolInv_stepM s s' v h ha hsp hs
  | F => exact poolInv_stepF s s' v h hs
  | W p => simp only [] at hs; split at hs; exact poolInv_stepW s s' p v h hs; cases hs

theorem poolInv_reachable {cfg : Cfg} {s : St} (h : Reachable cfg s) : PoolInv s := by
  induction h with
  | init => exact poolInv_init cfg
  | step hr hs ih =>
    exact poolInv_step ih (annInv_reachable hr) (spawnInv_reachable hr) (shutInv_reachable hr) hs

end LokyModel.Exec
