import LokyModel.Lemmas.ExecLiveBase
import LokyModel.ExecLive2
/-! `flagOk`: a thread inside `shutdown()` has raised the shutdown flag, a thread inside the interpreter-exit hook the
    global one — for every reachable state (the flags are never lowered). -/
namespace LokyModel.Exec

def FlagInv (s : St) : Prop :=
  ∀ k, (uFlagged (s.upc k) = true → s.shutdownFlag = true) ∧ (uGlobal (s.upc k) = true → s.globalShutdown = true)

theorem flagOk_of_inv (s : St) (h : FlagInv s) : flagOk s = true := by
  unfold flagOk
  rw [List.all_eq_true]
  intro k _
  have := h k
  cases h1 : uFlagged (s.upc k) <;> cases h2 : uGlobal (s.upc k) <;> simp_all

theorem flagInv_init (cfg : Cfg) : FlagInv (init cfg) := by
  intro k; simp [init, uFlagged, uGlobal]

/-- nothing relevant changes -/
theorem flagInv_same (s s' : St) (h : FlagInv s) (h1 : s'.upc = s.upc) (h2 : s.shutdownFlag = true → s'.shutdownFlag = true)
    (h3 : s.globalShutdown = true → s'.globalShutdown = true) : FlagInv s' := by
  intro k; rw [h1]; exact ⟨fun x => h2 ((h k).1 x), fun x => h3 ((h k).2 x)⟩

/-- user `k` moves to a program counter that is fine in the new state; the flags are not lowered -/
theorem flagInv_move (s s' : St) (k : Nat) (h : FlagInv s) (h1 : ∀ j, j ≠ k → s'.upc j = s.upc j)
    (h2 : s.shutdownFlag = true → s'.shutdownFlag = true) (h3 : s.globalShutdown = true → s'.globalShutdown = true)
    (h4 : uFlagged (s'.upc k) = true → s'.shutdownFlag = true) (h5 : uGlobal (s'.upc k) = true → s'.globalShutdown = true) :
    FlagInv s' := by
  intro j
  by_cases e : j = k
  · subst e; exact ⟨h4, h5⟩
  · rw [h1 j e]; exact ⟨fun x => h2 ((h j).1 x), fun x => h3 ((h j).2 x)⟩

theorem uNext_upc_other (s : St) (k j : Nat) (h : j ≠ k) : (uNext s k).upc j = s.upc j := by
  unfold uNext; split <;> simp [setU, upd, h]
theorem uNext_upc_self (s : St) (k : Nat) : (uNext s k).upc k = .api ∨ (uNext s k).upc k = .done := by
  unfold uNext; split <;> simp [setU, upd]
theorem uRelease_upc_other (s : St) (k j : Nat) (h : j ≠ k) : (uRelease s k).upc j = s.upc j := by
  unfold uRelease; simp only []; split
  · simp [setU, upd, h]
  · exact uNext_upc_other _ _ _ h
theorem uRelease_upc_self (s : St) (k : Nat) :
    (uRelease s k).upc k = .api ∨ (uRelease s k).upc k = .done ∨ (uRelease s k).upc k = .cbAcq := by
  unfold uRelease; simp only []; split
  · right; right; simp [setU, upd]
  · rcases uNext_upc_self { s with refs := s.refs - 1 } k with h | h
    · left; exact h
    · right; left; exact h
theorem uSpawnLoop_upc_other (s : St) (k j : Nat) (h : j ≠ k) : (uSpawnLoop s k).upc j = s.upc j := by
  unfold uSpawnLoop; (repeat' split) <;> simp [setU, upd, h]
theorem uSpawnLoop_upc_self (s : St) (k : Nat) :
    (uSpawnLoop s k).upc k = .subExit ∨ (uSpawnLoop s k).upc k = .subTStart ∨ (uSpawnLoop s k).upc k = .subRelMgmt := by
  unfold uSpawnLoop; (repeat' split) <;> simp [setU, upd]
theorem uDispatch_upc_other (s : St) (k j : Nat) (op : UOp) (h : j ≠ k) : (uDispatch s k op).upc j = s.upc j := by
  unfold uDispatch
  (repeat' split) <;> simp [uNext_upc_other, uRelease_upc_other, setU, upd, h]

theorem uFlagged_uNext (s : St) (k : Nat) : uFlagged ((uNext s k).upc k) = false := by
  rcases uNext_upc_self s k with h | h <;> rw [h] <;> rfl
theorem uGlobal_uNext (s : St) (k : Nat) : uGlobal ((uNext s k).upc k) = false := by
  rcases uNext_upc_self s k with h | h <;> rw [h] <;> rfl
theorem uFlagged_uRelease (s : St) (k : Nat) : uFlagged ((uRelease s k).upc k) = false := by
  rcases uRelease_upc_self s k with h | h | h <;> rw [h] <;> rfl
theorem uGlobal_uRelease (s : St) (k : Nat) : uGlobal ((uRelease s k).upc k) = false := by
  rcases uRelease_upc_self s k with h | h | h <;> rw [h] <;> rfl
theorem uFlagged_uSpawnLoop (s : St) (k : Nat) : uFlagged ((uSpawnLoop s k).upc k) = false := by
  rcases uSpawnLoop_upc_self s k with h | h | h <;> rw [h] <;> rfl
theorem uGlobal_uSpawnLoop (s : St) (k : Nat) : uGlobal ((uSpawnLoop s k).upc k) = false := by
  rcases uSpawnLoop_upc_self s k with h | h | h <;> rw [h] <;> rfl

theorem uDispatch_flags (s : St) (k : Nat) (op : UOp) :
    (s.shutdownFlag = true → (uDispatch s k op).shutdownFlag = true) ∧
    (s.globalShutdown = true → (uDispatch s k op).globalShutdown = true) ∧
    uFlagged ((uDispatch s k op).upc k) = false ∧
    (uGlobal ((uDispatch s k op).upc k) = true → (uDispatch s k op).globalShutdown = true) := by
  unfold uDispatch
  (repeat' split) <;> refine ⟨?_, ?_, ?_, ?_⟩ <;>
    first
      | (intro h; simpa using h)
      | (simp [uFlagged_uNext, uFlagged_uRelease]; done)
      | (simp [uGlobal_uNext, uGlobal_uRelease]; done)
      | (simp [setU, upd, uFlagged, uGlobal]; done)

set_option maxHeartbeats 4000000 in
theorem flagInv_stepW (s s' : St) (p : Pid) (v : Variant) (h : FlagInv s) (hs : stepW s p v = some s') : FlagInv s' := by
  unfold stepW at hs
  crack
  all_goals (refine flagInv_same s _ h ?_ ?_ ?_ <;> first | rfl | (simp; done) | (intro x; simpa using x))

set_option maxHeartbeats 4000000 in
theorem flagInv_stepF (s s' : St) (v : Variant) (h : FlagInv s) (hs : stepF s v = some s') : FlagInv s' := by
  unfold stepF at hs
  crack
  all_goals (refine flagInv_same s _ h ?_ ?_ ?_ <;> first | rfl | (simp; done) | (intro x; simpa using x))

set_option maxHeartbeats 8000000 in
theorem flagInv_stepM (s s' : St) (v : Variant) (h : FlagInv s) (hs : stepM s v = some s') : FlagInv s' := by
  unfold stepM at hs
  crack
  all_goals (refine flagInv_same s _ h ?_ ?_ ?_ <;> first | rfl | (simp; done) | (intro x; simpa using x) | (intro x; simp; done))

set_option maxHeartbeats 8000000 in
theorem flagInv_stepU (s s' : St) (k : Nat) (v : Variant) (h : FlagInv s) (hs : stepU s k v = some s') : FlagInv s' := by
  unfold stepU at hs
  crack
  all_goals (first
    | (refine flagInv_move s _ k h ?_ ?_ ?_ ?_ ?_ <;> first
        | (intro j hj; simp [uNext_upc_other, uRelease_upc_other, uSpawnLoop_upc_other, uDispatch_upc_other, setU, upd, hj]; done)
        | (intro x; simpa using x)
        | (intro x; simp; done)
        | (simp [uFlagged_uNext, uFlagged_uRelease, uFlagged_uSpawnLoop, uGlobal_uNext, uGlobal_uRelease, uGlobal_uSpawnLoop]; done)
        | (simp [setU, upd, uFlagged, uGlobal]; done)
        | (exact (uDispatch_flags _ _ _).1)
        | (exact (uDispatch_flags _ _ _).2.1)
        | (intro x; rw [(uDispatch_flags _ _ _).2.2.1] at x; cases x)
        | (exact (uDispatch_flags _ _ _).2.2.2)
        | (intro x; have := (h k).1; simp_all [setU, upd, uFlagged]; done)
        | (intro x; have := (h k).2; simp_all [setU, upd, uGlobal]; done)))

theorem flagInv_step {s s' : St} {a : Actor} {v : Variant} (h : FlagInv s) (hs : step s a v = some s') : FlagInv s' := by
  unfold step at hs
  cases a with
  | U k => simp only [] at hs; split at hs; exact flagInv_stepU s s' k v h hs; cases hs
  | M => exact flagInv_stepM s s' v h hs
  | F => exact flagInv_stepF s s' v h hs
  | W p => simp only [] at hs; split at hs; exact flagInv_stepW s s' p v h hs; cases hs

theorem flagInv_reachable {cfg : Cfg} {s : St} (h : Reachable cfg s) : FlagInv s := by
  induction h with
  | init => exact flagInv_init cfg
  | step _ hs ih => exact flagInv_step ih hs

end LokyModel.Exec
