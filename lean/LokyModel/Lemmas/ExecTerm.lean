import LokyModel.Lemmas.ExecFutInvU
/-! Once the manager has entered `kill_workers` / `join_executor_internals`, its table of pending work items is
    empty and stays empty — so every future ever handed out is resolved from then on. -/
namespace LokyModel.Exec

def TermInv (s : St) : Prop := mTerm s.mpc = true → s.pending = []

theorem mTerm_of_not_flagged (pc : MPc) (h : mFlagged pc = false) : mTerm pc = false := by
  cases hm : mTerm pc with
  | false => rfl
  | true => rw [mTerm_mFlagged pc hm] at h; cases h

@[simp] theorem mTerm_mAdd (s : St) : mTerm (mAdd s).mpc = false := mTerm_of_not_flagged _ (by simp)
@[simp] theorem mTerm_mAfterItem (s : St) : mTerm (mAfterItem s).mpc = false := mTerm_of_not_flagged _ (by simp)
@[simp] theorem mTerm_mDropRef (s : St) : mTerm (mDropRef s).mpc = false := mTerm_of_not_flagged _ (by simp)
@[simp] theorem mTerm_mRespawnCheck (s : St) : mTerm (mRespawnCheck s).mpc = false := mTerm_of_not_flagged _ (by simp)
@[simp] theorem mTerm_mProcess (s : St) (r) : mTerm (mProcess s r).mpc = false := mTerm_of_not_flagged _ (by simp)

/-- the pass made after flagging goes on to `join_executor_internals` only when it has emptied the table -/
theorem term_mAddF (X : St) (h : mTerm (mAddF X).mpc = true) : (mAddF X).pending = [] := by
  rcases mAddF_mpc X with ⟨i, _, e⟩ | ⟨_, e, _⟩ | ⟨_, _, hp⟩
  · rw [e] at h; simp [mTerm] at h
  · rw [e] at h; simp [mTerm] at h
  · exact hp

theorem term_mAfterFlag (X : St) (h : mTerm (mAfterFlag X).mpc = true) : (mAfterFlag X).pending = [] := by
  unfold mAfterFlag at h ⊢
  split
  · simp
  · split
    · simpa using ‹X.pending = []›
    · rename_i h1 h2; simp only [h1, h2, if_false, Bool.false_eq_true] at h; exact term_mAddF X h

theorem termInv_init (cfg : Cfg) : TermInv (init cfg) := by simp [TermInv, init, mTerm]

set_option maxHeartbeats 4000000 in
theorem termInv_stepM (s s' : St) (v : Variant) (h : TermInv s) (hs : stepM s v = some s') : TermInv s' := by
  unfold TermInv at *
  unfold stepM at hs
  crack_step
  all_goals (first
    | (intro hl; simp at hl; done)
    | (intro hl; simp [mTerm] at hl; done)
    | (exact term_mAfterFlag _)
    | (exact term_mAddF _)
    | (intro hl; simp_all [mTerm]; done)
    | (intro _; simp; done)
    | skip)

set_option maxHeartbeats 4000000 in
theorem termInv_stepF (s s' : St) (v : Variant) (h : TermInv s) (hs : stepF s v = some s') : TermInv s' := by
  unfold TermInv at *
  unfold stepF at hs
  crack_step
  all_goals (first
    | (intro hl; simp_all; done)
    | skip)

set_option maxHeartbeats 4000000 in
theorem termInv_stepW (s s' : St) (p : Pid) (v : Variant) (h : TermInv s) (hs : stepW s p v = some s') : TermInv s' := by
  unfold TermInv at *
  unfold stepW at hs
  crack_step
  all_goals (first
    | (intro hl; simp_all; done)
    | skip)

set_option maxHeartbeats 4000000 in
theorem termInv_stepU (s s' : St) (k : Nat) (v : Variant) (h : TermInv s) (hsh : ShutInv s)
    (hs : stepU s k v = some s') : TermInv s' := by
  have hflag : mTerm s.mpc = true → s.shutdownFlag = true := fun hm => hsh.flag (mTerm_mFlagged _ hm)
  unfold TermInv at *
  unfold stepU at hs
  crack_step
  all_goals (first
    | (intro hl; simp_all; done)
    | (intro hl; simp [mTerm] at hl; done)
    | (intro hl; simp at hl; have := hflag hl; simp_all; done)
    | (intro hl; rename_i op _; unfold uDispatch at hl ⊢; cases op <;> simp only [] at hl ⊢ <;>
        (repeat' split at hl) <;> (repeat' split) <;> simp_all; done)
    | skip)

theorem termInv_step {s s' : St} {a : Actor} {v : Variant} (h : TermInv s) (hsh : ShutInv s)
    (hs : step s a v = some s') : TermInv s' := by
  unfold step at hs
  cases a with
  | U k => simp only [] at hs; split at hs; exact termInv_stepU s s' k v h hsh hs; cases hs
  | M => exact termInv_stepM s s' v h hs
  | F => exact termInv_stepF s s' v h hs
  | W p => simp only [] at hs; split at hs; exact termInv_stepW s s' p v h hs; cases hs

theorem termInv_reachable {cfg : Cfg} {s : St} (h : Reachable cfg s) : TermInv s := by
  induction h with
  | init => exact termInv_init cfg
  | step hr hs ih => exact termInv_step ih (shutInv_reachable hr) hs

end LokyModel.Exec
