import LokyModel.Lemmas.ExecLiveFlag
import LokyModel.Lemmas.ExecLivePids
/-! Static pool: a state in which no step (other than a crash) is enabled is a good one — every future resolved, every
    user script finished — provided the ingredients of `ExecLive.lean` hold in it. -/
namespace LokyModel.Exec

theorem step_none_of_quiet (s : St) (hq : enabledNC s = []) (a : Actor) (ha : a ∈ actorsOf s) (v : Variant)
    (hv : v = .ok ∨ v = .timeout ∨ v = .fail) : step s a v = none := by
  unfold enabledNC at hq
  rw [List.flatMap_eq_nil_iff] at hq
  have := hq a ha
  simp only [List.map_eq_nil_iff, List.filter_eq_nil_iff] at this
  have h2 := this v (by rcases hv with h | h | h <;> simp [h])
  cases hst : step s a v with
  | none => rfl
  | some x => simp [hst] at h2

theorem quiet_U (s : St) (hq : enabledNC s = []) (k : Nat) (hk : k < s.cfg.scripts.length) : stepU s k .ok = none := by
  have := step_none_of_quiet s hq (.U k) (by simp [actorsOf]; exact hk) .ok (.inl rfl)
  simpa [step, hk] using this
theorem quiet_M (s : St) (hq : enabledNC s = []) : stepM s .ok = none ∧ stepM s .fail = none := by
  constructor
  · simpa [step] using step_none_of_quiet s hq .M (by simp [actorsOf]) .ok (.inl rfl)
  · simpa [step] using step_none_of_quiet s hq .M (by simp [actorsOf]) .fail (.inr (.inr rfl))
theorem quiet_F (s : St) (hq : enabledNC s = []) : stepF s .ok = none := by
  simpa [step] using step_none_of_quiet s hq .F (by simp [actorsOf]) .ok (.inl rfl)
theorem quiet_W (s : St) (hq : enabledNC s = []) (p : Pid) (hp : p ∈ s.allPids) :
    stepW s p .ok = none ∧ stepW s p .timeout = none ∧ stepW s p .fail = none := by
  have ha : Actor.W p ∈ actorsOf s := by simp [actorsOf]; exact hp
  refine ⟨?_, ?_, ?_⟩
  · simpa [step, hp] using step_none_of_quiet s hq (.W p) ha .ok (.inl rfl)
  · simpa [step, hp] using step_none_of_quiet s hq (.W p) ha .timeout (.inr (.inl rfl))
  · simpa [step, hp] using step_none_of_quiet s hq (.W p) ha .fail (.inr (.inr rfl))


theorem acq_none (v : Nat) : acq v = none ↔ v = 0 := by
  unfold acq; split <;> simp <;> omega

/-- a worker of a static pool that cannot move -/
theorem wBlocked (s : St) (p : Pid) (h1 : stepW s p .ok = none) (h2 : stepW s p .timeout = none)
    (hn : wNever (s.w p) = false) :
    s.w p = .dead ∨ (s.w p = .gAcq ∧ s.cqRlock = 0) ∨ (s.w p = .gRecv ∧ s.cqPipe = []) ∨
    ((∃ w e b, s.w p = .rAcq w e b) ∧ s.rqWlock = 0) ∨ (s.w p = .xAcq ∧ s.rqWlock = 0) := by
  cases hw : s.w p <;> simp only [hw, wNever] at hn <;> unfold stepW at h1 h2 <;>
    simp [hw, acq_map', wAfterStart, wGet, wDispatch, wAfterResult] at h1 h2 ⊢
  all_goals (first
    | omega
    | (split at h1 <;> simp_all; done)
    | (cases hq : s.cqPipe <;> simp_all; done)
    | simp_all)


/-- the feeder thread cannot move -/
theorem fBlocked (s : St) (h : stepF s .ok = none) :
    s.fpc = .none ∨ s.fpc = .done ∨ (s.fpc = .wait ∧ s.cqBuf = []) ∨
    (((∃ m, s.fpc = .acq m) ∨ (∃ w, s.fpc = .acqBig w)) ∧ s.cqWlock = 0) ∨ (s.fpc = .errAcq ∧ s.shut = 0) := by
  cases hf : s.fpc <;> unfold stepF at h <;> simp [hf, acq_map'] at h ⊢
  all_goals (first | omega | simp_all)

def uWaitShut : UPc → Bool
  | .subAcqShut _ | .sdAcq1 _ _ | .sdAcq2 _ | .cbAcq | .peAcq => true
  | _ => false
def uWaitG : UPc → Bool
  | .sdAcqG | .peAcqG => true
  | _ => false
def uJoin : UPc → Bool
  | .sdJoin | .peJoin => true
  | _ => false

/-- a user thread cannot move -/
theorem uBlocked (s : St) (k : Nat) (h : stepU s k .ok = none) (hapi : s.upc k = .api → (s.ucur k).isSome = true) :
    s.upc k = .done ∨ (uWaitShut (s.upc k) = true ∧ s.shut = 0) ∨ (s.upc k = .subAcqMgmt ∧ s.mgmt = 0) ∨
    (uWaitG (s.upc k) = true ∧ s.gshut = 0) ∨ (uJoin (s.upc k) = true ∧ mEnded s = false) := by
  cases hu : s.upc k <;> unfold stepU at h <;> simp [hu, acq_map', uWaitShut, uWaitG, uJoin] at h hapi ⊢
  all_goals (first
    | omega
    | (cases hc : s.ucur k <;> simp_all; done)
    | (cases hm : mEnded s <;> simp_all; done)
    | simp_all)

def mWaitShut : MPc → Bool
  | .cbAcq | .flagAcq | .jShutAcq => true
  | _ => false
def mWaitMgmt : MPc → Bool
  | .jAcq1 | .jAliveAcq _ _ _ | .jAcq2 => true
  | _ => false
def mWaitSlot : MPc → Bool
  | .addAcq _ | .addAcqF _ => true
  | _ => false

/-- the manager thread of a static pool cannot move -/
theorem mBlocked (s : St) (h1 : stepM s .ok = none) (h2 : stepM s .fail = none) (hn : mNever s.mpc = false)
    (hrecv : s.mpc = .recv → s.rqPipe ≠ []) (hclr : ∀ k, s.mpc = .clrRecv k → 0 < s.wakeup)
    (hl1 : ∀ n, s.mpc ≠ .jRelExit [] n) (hl2 : ∀ c n st co, s.mpc ≠ .jAlive [] c n st co) :
    s.mpc = .none ∨ mEnded s = true ∨
    (∃ snap, s.mpc = .wait snap ∧ s.rqPipe = [] ∧ s.wakeup = 0 ∧ snap.any (isDead s) = false) ∨
    (mWaitSlot s.mpc = true ∧ s.cqSem = 0) ∨ (mWaitShut s.mpc = true ∧ s.shut = 0) ∨
    (mWaitMgmt s.mpc = true ∧ s.mgmt = 0) ∨ (∃ p, s.mpc = .jJoin p ∧ isDead s p = false) := by
  cases hm : s.mpc <;> simp only [hm, mNever] at hn <;> unfold stepM at h1 h2 <;>
    simp only [hm, acq_map', mEnded, mWaitSlot, mWaitShut, mWaitMgmt] at h1 h2 hrecv hclr hl1 hl2 ⊢
  case wait snap =>
    right; right; left
    refine ⟨snap, rfl, ?_⟩
    split at h1
    · cases h1
    · split at h1
      · cases h1
      · split at h1
        · cases h1
        · rename_i a b c
          refine ⟨by simpa using a, by omega, by simpa using c⟩
  case recv =>
    exfalso
    have := hrecv trivial
    cases hq : s.rqPipe with
    | nil => exact this hq
    | cons r rest =>
      rw [hq] at h1
      cases r with
      | res w e b => cases b <;> simp at h1
      | pid p => simp at h1
      | rtb => simp at h1
  case clrPoll k =>
    exfalso
    by_cases hw : 0 < s.wakeup
    · simp [hw] at h1
    · have : s.wakeup = 0 := by omega
      simp [this] at h2; cases k <;> simp at h2
  case clrRecv k =>
    exfalso
    have := hclr k rfl
    simp [this] at h1
  case jRelExit ps n =>
    exfalso
    cases ps with
    | nil => exact hl1 n rfl
    | cons p rest => simp at h1; split at h1 <;> cases h1
  case jAlive ps c n st co =>
    exfalso
    cases ps with
    | nil => exact hl2 c n st co rfl
    | cons p rest => simp at h1
  all_goals (first
    | (simp at hn; done)
    | (simp; done)
    | (exfalso; simp at h1; done)
    | (exfalso; revert h1; simp; done)
    | (exfalso; split at h1 <;> simp at h1; done)
    | (simp at h1 ⊢; omega)
    | (simp at h1 h2 ⊢; omega)
    | skip)


/-! ### what the lock-holder invariant says about a taken lock -/

theorem holder_facts (s : St) (h : holderOk s = true) :
    (s.rqWlock = 0 → ∃ p, inRqW (s.w p) = true) ∧
    (s.cqRlock = 0 → ∃ p, inCqR (s.w p) = true) ∧
    (s.cqWlock = 0 → inCqWF s.fpc = true) ∧
    (s.gshut = 0 → ∃ k, k < s.cfg.scripts.length ∧ inGshutU (s.upc k) = true) ∧
    (s.mgmt = 0 → (∃ k, k < s.cfg.scripts.length ∧ inMgmtU' (s.upc k) = true) ∨ inMgmtM' s.mpc = true ∨ ∃ p, s.w p = .eRel) ∧
    (s.shut = 0 → (∃ k, k < s.cfg.scripts.length ∧ inShutU' (s.upc k) = true) ∨ inShutM' s.mpc = true ∨ inShutF' s.fpc = true) := by
  unfold holderOk at h
  simp only [Bool.and_eq_true] at h
  obtain ⟨⟨⟨⟨⟨h1, h2⟩, h3⟩, h4⟩, h5⟩, h6⟩ := h
  refine ⟨?_, ?_, ?_, ?_, ?_, ?_⟩
  · intro hz
    cases ho : s.oRqWlock with
    | none => simp [ho, hz] at h1
    | some a => cases a <;> simp [ho] at h1; rename_i p; exact ⟨p, h1.2⟩
  · intro hz
    cases ho : s.oCqRlock with
    | none => simp [ho, hz] at h2
    | some a => cases a <;> simp [ho] at h2; rename_i p; exact ⟨p, h2.2⟩
  · intro hz
    cases ho : s.oCqWlock with
    | none => simp [ho, hz] at h3
    | some a => cases a <;> simp [ho] at h3; exact h3.2
  · intro hz
    cases ho : s.oGshut with
    | none => simp [ho, hz] at h4
    | some a => cases a <;> simp [ho] at h4; rename_i k; exact ⟨k, h4.2, h4.1.2⟩
  · intro hz
    cases ho : s.oMgmt with
    | none => simp [ho, hz] at h5
    | some a =>
      cases a with
      | U k => simp [ho] at h5; exact .inl ⟨k, h5.2, h5.1.2⟩
      | M => simp [ho] at h5; exact .inr (.inl h5.2)
      | F => simp [ho] at h5
      | W p => simp [ho] at h5; exact .inr (.inr ⟨p, h5.2⟩)
  · intro hz
    cases ho : s.oShut with
    | none => simp [ho, hz] at h6
    | some a =>
      cases a with
      | U k => simp [ho] at h6; exact .inl ⟨k, h6.2, h6.1.2⟩
      | M => simp [ho] at h6; exact .inr (.inl h6.2)
      | F => simp [ho] at h6; exact .inr (.inr h6.2)
      | W p => simp [ho] at h6


/-! ### what the static-pool invariant says -/

structure StaticFacts (s : St) : Prop where
  mnever : mNever s.mpc = false
  wnever : ∀ p ∈ s.allPids, wNever (s.w p) = false
  pre : mFinal s.mpc = false → s.procDict = s.allPids ∧ (∀ p ∈ s.allPids, wStopping (s.w p) = false) ∧
          (s.mpc ≠ .none → s.procDict.length = s.cfg.maxWorkers)
  recv : s.mpc = .recv → s.rqPipe ≠ []
  clr : ∀ k, s.mpc = .clrRecv k → 0 < s.wakeup
  l1 : ∀ n, s.mpc ≠ .jRelExit [] n
  l2 : ∀ c n st co, s.mpc ≠ .jAlive [] c n st co
  api : ∀ k, k < s.cfg.scripts.length → s.upc k = .api → (s.ucur k).isSome = true
  fidle : (s.fpc = .none ∨ s.fpc = .done) → s.cqBuf = []
  mnone : s.mpc = .none → s.futs = [] ∨ ∃ k, k < s.cfg.scripts.length ∧ inShutU' (s.upc k) = true
  ujoin : ∀ k, k < s.cfg.scripts.length → (uWaitG (s.upc k) = true ∨ uJoin (s.upc k) = true) → s.mpc ≠ .none

theorem static_facts (s : St) (h : staticOk s = true) : StaticFacts s := by
  unfold staticOk at h
  simp only [Bool.and_eq_true] at h
  obtain ⟨⟨⟨⟨⟨⟨⟨⟨⟨⟨⟨⟨h1, _h2⟩, _h3⟩, h4⟩, h5⟩, h6⟩, h7⟩, h8⟩, h9⟩, h10⟩, h11⟩, _h12⟩, h13⟩ := h
  refine ⟨by simpa using h1, ?_, ?_, ?_, ?_, ?_, ?_, ?_, ?_, ?_, ?_⟩
  · intro p hp
    rw [List.all_eq_true] at h4
    simpa using h4 p hp
  · intro hf
    simp only [hf, Bool.false_or, Bool.and_eq_true] at h5
    obtain ⟨⟨⟨⟨⟨⟨a, b⟩, _⟩, _⟩, _⟩, _⟩, g⟩ := h5
    refine ⟨by simpa using a, ?_, ?_⟩
    · intro p hp
      rw [List.all_eq_true] at b
      simpa using b p hp
    · intro hne
      simp only [Bool.or_eq_true] at g
      rcases g with g | g
      · simp at g; exact absurd g hne
      · simpa using g
  · intro hm; simp [hm] at h6; simpa using h6
  · intro k hm; simp [hm] at h7; exact h7
  · intro n hm; simp [hm] at h8
  · intro c n st co hm; simp [hm] at h8
  · intro k hk hu
    rw [List.all_eq_true] at h9
    have := h9 k (List.mem_range.2 hk)
    simpa [hu] using this
  · intro hf
    rcases hf with hf | hf <;> simp [hf] at h10 <;> simpa using h10
  · intro hm
    simp only [hm, bne_self_eq_false, Bool.false_or, Bool.or_eq_true] at h11
    rcases h11 with g | g
    · left; simpa using g
    · right
      rw [List.any_eq_true] at g
      obtain ⟨k, hk, hk2⟩ := g
      exact ⟨k, List.mem_range.1 hk, hk2⟩
  · intro k hk hu
    rw [List.all_eq_true] at h13
    have := h13 k (List.mem_range.2 hk)
    intro hm
    rcases hu with hu | hu
    · cases hq : s.upc k <;> simp [hq, uWaitG] at hu <;> simp [hq, hm] at this
    · cases hq : s.upc k <;> simp [hq, uJoin] at hu <;> simp [hq, hm] at this


/-! ### actors inside a critical section can always move -/

theorem enabled_inRqW (s : St) (p : Pid) (h : inRqW (s.w p) = true) : stepW s p .ok ≠ none := by
  cases hw : s.w p <;> simp [hw, inRqW] at h <;> unfold stepW <;> simp [hw]
theorem enabled_inCqWF (s : St) (h : inCqWF s.fpc = true) : stepF s .ok ≠ none := by
  cases hf : s.fpc <;> simp [hf, inCqWF] at h <;> unfold stepF <;> simp [hf]
theorem enabled_inShutF' (s : St) (h : inShutF' s.fpc = true) : stepF s .ok ≠ none := by
  cases hf : s.fpc <;> simp [hf, inShutF'] at h <;> unfold stepF <;> simp [hf]
theorem enabled_inMgmtU' (s : St) (k : Nat) (h : inMgmtU' (s.upc k) = true) : stepU s k .ok ≠ none := by
  cases hu : s.upc k <;> simp [hu, inMgmtU'] at h <;> unfold stepU <;> simp [hu]
theorem enabled_inShutU' (s : St) (k : Nat) (h : inShutU' (s.upc k) = true) (hne : s.upc k = .subAcqMgmt → s.mgmt ≠ 0) :
    stepU s k .ok ≠ none := by
  cases hu : s.upc k <;> simp [hu, inShutU'] at h <;> unfold stepU <;> simp [hu, acq_map']
  have := hne hu; omega
theorem enabled_inGshutU (s : St) (k : Nat) (h : inGshutU (s.upc k) = true) (he : mEnded s = true) :
    stepU s k .ok ≠ none := by
  cases hu : s.upc k <;> simp [hu, inGshutU] at h <;> unfold stepU <;> simp [hu, he]
theorem inGshutU_cases (pc : UPc) (h : inGshutU pc = true) : uJoin pc = true ∨ pc = .sdRelG ∨ pc = .peRelG := by
  cases pc <;> simp [inGshutU, uJoin] at h ⊢
theorem enabled_relG (s : St) (k : Nat) (h : s.upc k = .sdRelG ∨ s.upc k = .peRelG) : stepU s k .ok ≠ none := by
  rcases h with h | h <;> unfold stepU <;> simp [h]

end LokyModel.Exec
