import LokyModel.Lemmas.ExecOutcomeCAll
import LokyModel.Lemmas.ExecLiveCrashAll
/-! Which of the two pool errors: in a static pool nothing fails to un-pickle, so the manager never takes the
    `BrokenProcessPool` branch of `terminate_broken` (`mNeverC`, `Lemmas/ExecLiveCrashStatic*.lean`) — the error of a
    broken static pool is always `TerminatedWorkerError`.  One step of any actor writes `.excBroken` into no future
    unless the manager is at `brkRel .unserialize`. -/
namespace LokyModel.Exec
open StaticP

/-- what a step may do to a future, as far as `BrokenProcessPool` is concerned: leave it alone, or write something else -/
def FutNB (fs gs : List Fut) : Prop :=
  ∀ i, gs.getD i .pending = fs.getD i .pending ∨ gs.getD i .pending ≠ .excBroken

theorem futNB_refl (fs : List Fut) : FutNB fs fs := fun _ => Or.inl rfl
theorem futNB_of_eq {fs gs : List Fut} (h : gs = fs) : FutNB fs gs := by subst h; exact futNB_refl _
theorem futNB_of_futM {fs gs : List Fut} (h : FutM fs gs) : FutNB fs gs := by
  intro i
  rcases h i with e | e | e | e
  · exact Or.inl e
  all_goals (right; rw [e]; simp)
theorem futNB_set (fs : List Fut) (w : Wid) (f : Fut) (hf : f ≠ .excBroken) : FutNB fs (fs.set w f) := by
  intro i
  simp only [List.getD_eq_getElem?_getD, List.getElem?_set]
  by_cases hiw : w = i
  · subst hiw
    by_cases hlt : w < fs.length
    · simp only [hlt, if_true, Option.getD_some]; right; exact hf
    · simp [hlt]
  · simp [hiw]
theorem futNB_append (fs : List Fut) : FutNB fs (fs ++ [.pending]) := by
  intro i
  rw [futOf_append]
  split
  · right; simp
  · left; rfl
theorem futNB_failAll (X : St) (ws : List Wid) (f : Fut) (hc : f ≠ .cancelled) (hf : f ≠ .excBroken) :
    FutNB X.futs (failAll X ws f).futs := by
  intro i
  rw [failAll_spec _ _ _ hc]
  split
  · right; exact hf
  · left; rfl

set_option maxHeartbeats 4000000 in
theorem stepW_futs (s s' : St) (p : Pid) (v : Variant) (hs : stepW s p v = some s') : s'.futs = s.futs := by
  unfold stepW at hs
  crack_step
  all_goals (first | rfl | (simp; done))

set_option maxHeartbeats 4000000 in
theorem stepF_futsNB (s s' : St) (v : Variant) (hs : stepF s v = some s') : FutNB s.futs s'.futs := by
  unfold stepF at hs
  crack_step
  all_goals (first
    | exact futNB_refl _
    | (refine futNB_of_eq ?_; simp; done)
    | (simp only [setFut]; exact futNB_set _ _ _ (by simp))
    | skip)

theorem stepU_futsNB (s s' : St) (k : Nat) (v : Variant) (h : OutInvC s) (hs : stepU s k v = some s') :
    FutNB s.futs s'.futs := by
  rcases (uSumOC_step s s' k v h hs).fut with ⟨f1, _, _⟩ | ⟨w, f1, _, _⟩ | ⟨t, f1, _, _⟩ <;> rw [f1]
  · exact futNB_refl _
  · exact futNB_set _ _ _ (by simp)
  · exact futNB_append _

set_option maxHeartbeats 4000000 in
theorem stepM_brk_futsNB (s s' : St) (v : Variant) (hb : brokenPath s.mpc = true) (hn : mNeverC s.mpc = false)
    (hs : stepM s v = some s') : FutNB s.futs s'.futs := by
  unfold stepM at hs
  crack_step
  all_goals (first
    | (exfalso; simp [‹s.mpc = _›, brokenPath] at hb; done)
    | exact futNB_refl _
    | (refine futNB_of_eq ?_; simp; done)
    | (simp only [mKillNext_futs]; refine futNB_failAll _ _ _ ?_ ?_ <;> (simp; done))
    | (exfalso; rename_i b hpc hbb; rw [hpc] at hn; cases b <;> simp_all [mNeverC]; done)
    | skip)

theorem stepM_futsNB (s s' : St) (v : Variant) (hk : s.killFlag = false) (hn : mNeverC s.mpc = false)
    (hs : stepM s v = some s') : FutNB s.futs s'.futs := by
  cases hb : brokenPath s.mpc with
  | false => exact futNB_of_futM (mSum_step s s' v hk hb hs).fut
  | true => exact stepM_brk_futsNB s s' v hb hn hs

theorem step_futsNB {s s' : St} {a : Actor} {v : Variant} (h : OutInvC s) (hn : mNeverC s.mpc = false)
    (hs : step s a v = some s') : FutNB s.futs s'.futs := by
  unfold step at hs
  cases a with
  | U k => simp only [] at hs; split at hs; exact stepU_futsNB s s' k v h hs; cases hs
  | M => exact stepM_futsNB s s' v h.kf hn hs
  | F => exact stepF_futsNB s s' v hs
  | W p => simp only [] at hs; split at hs; exact futNB_of_eq (stepW_futs s s' p v hs); cases hs

/-- **in a static pool no future ever holds `BrokenProcessPool`**: the error of the broken pool is always
    `TerminatedWorkerError` -/
theorem noExcBroken_reachableLF {cfg : Cfg} (hc : cfg.staticPool = true) {s : St} (h : ReachableLF cfg s) :
    ∀ i, futOf s i ≠ .excBroken := by
  have key : ∀ {s s' : St} {a : Actor} {v : Variant}, ReachableLF cfg s → step s a v = some s' →
      (∀ i, futOf s i ≠ .excBroken) → ∀ i, futOf s' i ≠ .excBroken := by
    intro s s' a v hr hs ih i
    have hn := (StaticCP.ci_of_bool s (staticCInv_reachableLF hc hr).1).mn
    rcases step_futsNB (outInvC_reachableLF hc hr) hn hs i with e | e
    · show s'.futs.getD i .pending ≠ .excBroken
      rw [e]; exact ih i
    · exact e
  induction h with
  | init => intro i; simp [init, futOf]
  | step hr _ hs ih => exact key hr hs ih
  | crash hr _ hs ih => exact key hr hs ih

/-- … and the pool is never flagged with the un-pickling kind of break -/
theorem broken_kind_reachableLF {cfg : Cfg} (hc : cfg.staticPool = true) {s : St} (h : ReachableLF cfg s) :
    s.broken = none ∨ s.broken = some .terminated := by
  have hbu := (StaticCP.ci_of_bool s (staticCInv_reachableLF hc h).1).bu
  cases hq : s.broken with
  | none => exact Or.inl rfl
  | some b => cases b with
    | terminated => exact Or.inr rfl
    | unserialize => exact absurd hq hbu

end LokyModel.Exec
