import LokyModel.Lemmas.ExecLiveCrashJoinM
import LokyModel.Lemmas.ExecLiveCrashDefs
/-! `joinC` (the final phase of the manager has enough stop sentinels for the workers that are still alive: "a dead
    worker needs no stop sentinel"), strengthened to the inductive `joinC'` (`LokyModel/ExecLiveCrashJoinDef.lean`):
    initial state, preservation by every step of a lock-free run of a static pool, and `joinC' → joinC`.

    The step theorem does not use the restriction of crashes to lock-free points (`hlf`): relative to `staticC` on the
    pre-state the accounting survives a crash anywhere (a death only lowers `needStop`, and never touches the stop
    sentinels in the call queue).  The restriction is what makes `staticC` itself inductive. -/
namespace LokyModel.Exec
set_option linter.unusedVariables false

theorem joinC'_init (cfg : Cfg) (hc : cfg.staticPool = true) : joinC' (init cfg) = true := by
  simp [joinC', joinC, joinCExtra, init, mFinal, mPreJC]

theorem jc_mTerm_of_mFinal (pc : MPc) (h : mFinal pc = true) : mTerm pc = true := by
  cases pc <;> first | rfl | cases h

/-- the loop book-keeping and the sentinel inequality are kept by every step (crashes anywhere included) -/
theorem joinCInv_step {s s' : St} {a : Actor} {v : Variant} (hs : step s a v = some s') (hp : PidsInv s)
    (hsh : ShutInv s) (hst : staticC s = true) (h : JoinCInv s) : JoinCInv s' := by
  unfold step at hs
  cases a with
  | U k => simp only [] at hs; split at hs; exact joinCInv_stepU s s' k v h hsh hs; cases hs
  | M => exact joinCInv_stepM s s' v h hst hs
  | F => exact joinCInv_stepF s s' v h hs
  | W p => simp only [] at hs; split at hs; exact joinCInv_stepW s s' p v h hp hst (by assumption) hs; cases hs

/-- in the final phase the table of pending work items is empty and the shutdown flag is up: `TermInv`, `ShutInv` -/
theorem joinCFlag_step {s s' : St} {a : Actor} {v : Variant} (hs : step s a v = some s') (ht : TermInv s)
    (hsh : ShutInv s) : JoinCFlag s' := by
  intro hf
  exact ⟨termInv_step ht hsh hs (jc_mTerm_of_mFinal _ hf),
    (shutInv_step hsh hs).flag (jc_mLateK_mFlagged _ (jc_mFinal_mLateK _ hf))⟩

/-- `joinC'` is inductive along lock-free runs of a static pool, relative to `PidsInv`, `TermInv`, `ShutInv` (which hold
    in every reachable state) and `staticC` on the pre-state. -/
theorem joinC'_stepLF {s s' : St} {a : Actor} {v : Variant} (hs : step s a v = some s') (hlf : StepLF s a v)
    (hc : s.cfg.staticPool = true) (hp : PidsInv s) (ht : TermInv s) (hsh : ShutInv s) (hst : staticC s = true)
    (h : joinC' s = true) : joinC' s' = true :=
  (joinC'_iff s').2 ⟨joinCFlag_step hs ht hsh, joinCInv_step hs hp hsh hst ((joinC'_iff s).1 h).2⟩

/-- what the deadlock-freedom argument uses -/
theorem joinC_stepLF {s s' : St} {a : Actor} {v : Variant} (hs : step s a v = some s') (hlf : StepLF s a v)
    (hc : s.cfg.staticPool = true) (hp : PidsInv s) (ht : TermInv s) (hsh : ShutInv s) (hst : staticC s = true)
    (h : joinC' s = true) : joinC s' = true :=
  joinC_of' _ (joinC'_stepLF hs hlf hc hp ht hsh hst h)

/-- along a lock-free run, given `staticC` in every state of the run -/
theorem joinC'_reachableLF {cfg : Cfg} (hc : cfg.staticPool = true)
    (hst : ∀ s, ReachableLF cfg s → staticC s = true) {s : St} (h : ReachableLF cfg s) : joinC' s = true := by
  induction h with
  | init => exact joinC'_init cfg hc
  | step hr hv hs ih =>
    have r := hr.reachable
    exact joinC'_stepLF hs (.inl hv) (by rw [cfg_reachable r]; exact hc) (pidsInv_reachable r) (termInv_reachable r)
      (shutInv_reachable r) (hst _ hr) ih
  | crash hr hl hs ih =>
    have r := hr.reachable
    exact joinC'_stepLF hs (.inr ⟨_, rfl, hl⟩) (by rw [cfg_reachable r]; exact hc) (pidsInv_reachable r)
      (termInv_reachable r) (shutInv_reachable r) (hst _ hr) ih

end LokyModel.Exec
