import LokyModel.ExecLive
/-! Executable strengthening of `wakeOk` (no lost wake-up) that is inductive; proofs in `ExecLiveWake.lean`.
    Import-light so that `Drivers/LiveCheckwakeOk.lean` can evaluate it on random walks. -/
namespace LokyModel.Exec

/-- as `uOwes`, but a second `shutdown()` that finds the thread / wake-up attributes already removed owes nothing:
    it is going to return without writing to the wake-up pipe -/
def uOwes2 (s : St) : UPc → Bool
  | .sdRel1 _ => !s.attrsDropped
  | pc => uOwes pc

def willWake2 (s : St) : Bool :=
  decide (0 < s.wakeup) || !s.rqPipe.isEmpty || (List.range s.cfg.scripts.length).any (fun k => uOwes2 s (s.upc k)) ||
  fOwes s.fpc || s.cqBuf.any isCall || fBusy s.fpc || s.cqPipe.any isCall || s.allPids.any (fun p => wBusy (s.w p))

def wakeOk2 (s : St) : Bool :=
  match s.mpc with
  | .start => willWake2 s
  | .wait _ => !(mustExit s || !s.workIds.isEmpty) || willWake2 s
  | _ => true

def isClose : CMsg → Bool
  | .close => true
  | _ => false

/-- the close sentinel ends the feeder thread; it is never written to the pipe -/
def noClose (s : St) : Bool :=
  !s.cqPipe.any isClose && (match s.fpc with | .acq .close | .send .close => false | _ => true)

/-- mutual exclusion on the shutdown lock, in the form: whoever is inside a section is the recorded holder -/
def shutOwner (s : St) : Bool :=
  (List.range s.cfg.scripts.length).all (fun k => !inShutU' (s.upc k) || s.oShut == some (.U k)) &&
  (!inShutM' s.mpc || s.oShut == some .M) && (!inShutF' s.fpc || s.oShut == some .F)

/-- inside `shutdown()` after the executor has been flagged -/
def inSd : UPc → Bool
  | .sdRel1 _ | .sdAcq2 _ | .sdWake _ | .sdRel2 _ | .sdAcqG | .sdJoin | .sdRelG => true
  | _ => false

def wakeX (s : St) : Bool :=
  noClose s && shutOwner s && (!s.attrsDropped || s.shutdownFlag) &&
  (List.range s.cfg.scripts.length).all (fun k =>
    (s.upc k != .subTStart || s.mpc == .none) && (s.upc k != .sdRelG || mEnded s)) &&
  (s.mpc == .none || mEnded s || s.threadReg) &&
  (List.range s.cfg.scripts.length).all (fun k => !inSd (s.upc k) || s.shutdownFlag)

def wakeOk' (s : St) : Bool := wakeOk s && (wakeOk2 s && wakeX s)

end LokyModel.Exec
