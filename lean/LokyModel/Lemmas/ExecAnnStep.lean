import LokyModel.Lemmas.ExecAnnM
namespace LokyModel.Exec

theorem ann_spawn (s X : St) (h : AnnInv s)
    (hw : X.w = upd s.w s.nextPid .start) (hn : X.nextPid = s.nextPid + 1) (ha : X.allPids = s.allPids ++ [s.nextPid])
    (hr : X.rqPipe = s.rqPipe) (hm : mPid X.mpc = none ∨ X.mpc = s.mpc) : AnnInv X := by
  refine ann_move s X h ?_ ?_ ?_ ?_ ?_
  · intro q hq ha'; rw [hw, announced_upd, if_neg (Nat.ne_of_lt hq)]; exact ha'
  · rw [hn]; exact Nat.le_succ _
  · intro p hp; rw [ha] at hp; rw [hn]
    simp only [List.mem_append, List.mem_singleton] at hp
    rcases hp with hp | hp
    · exact Nat.lt_succ_of_lt (h.lt p hp)
    · rw [hp]; exact Nat.lt_succ_self _
  · intro r hr'; rw [hr] at hr'; exact hr'
  · intro p hp
    rcases hm with hm | hm
    · rw [hm] at hp; cases hp
    · left; rw [← hm]; exact hp

set_option maxHeartbeats 8000000 in
theorem annInv_stepM (s s' : St) (v : Variant) (h : AnnInv s) (hs : stepM s v = some s') : AnnInv s' := by
  unfold stepM at hs
  crack_step
  all_goals (first
    | (ann_simple s, h; done)
    | (refine ann_spawn s _ h ?_ ?_ ?_ ?_ (Or.inl ?_) <;> simp [spawn] <;> done)
    | (refine ann_move s _ h ?_ ?_ ?_ ?_ ?_
       · intro q _ hq; simpa using hq
       · simp
       · simpa using AnnInv.lt h
       · intro r hr; simpa using hr
       · intro q hq; left; rw [‹s.mpc = _›]
         first | (simpa [mPid_clrRecv] using hq) | (rw [mPid_clrRecv]; simpa using hq))
    | (refine ann_move s _ h ?_ ?_ ?_ ?_ ?_
       · intro q _ hq; simpa using hq
       · simp
       · simpa using AnnInv.lt h
       · intro r hr; simpa using hr
       · intro q hq; left; rw [‹s.mpc = _›]
         obtain ⟨r', e1, e2⟩ := mPid_mProcess s _ q hq
         subst e1; exact e2)
    | skip)

set_option maxHeartbeats 4000000 in
theorem annInv_stepF (s s' : St) (v : Variant) (h : AnnInv s) (hs : stepF s v = some s') : AnnInv s' := by
  unfold stepF at hs
  crack_step
  all_goals (first
    | (ann_simple s, h; done)
    | skip)

theorem ann_uDispatch (s : St) (k : Nat) (op : UOp) (h : AnnInv s) : AnnInv (uDispatch s k op) := by
  unfold uDispatch
  cases op <;> simp only [] <;> (repeat' split) <;> (ann_simple s, h)

set_option maxHeartbeats 4000000 in
theorem annInv_stepU (s s' : St) (k : Nat) (v : Variant) (h : AnnInv s) (hs : stepU s k v = some s') : AnnInv s' := by
  unfold stepU at hs
  crack_step
  all_goals (first
    | (ann_simple s, h; done)
    | (exact ann_uDispatch s k _ h)
    | (refine ann_spawn s _ h ?_ ?_ ?_ ?_ (Or.inr ?_) <;> simp [spawn] <;> done)
    | skip)

theorem annInv_step {s s' : St} {a : Actor} {v : Variant} (h : AnnInv s) (hs : step s a v = some s') : AnnInv s' := by
  unfold step at hs
  cases a with
  | U k => simp only [] at hs; split at hs; exact annInv_stepU s s' k v h hs; cases hs
  | M => exact annInv_stepM s s' v h hs
  | F => exact annInv_stepF s s' v h hs
  | W p => simp only [] at hs; split at hs; exact annInv_stepW s s' p v h ‹_› hs; cases hs

theorem annInv_reachable {cfg : Cfg} {s : St} (h : Reachable cfg s) : AnnInv s := by
  induction h with
  | init => exact annInv_init cfg
  | step _ hs ih => exact annInv_step ih hs

end LokyModel.Exec
