import LokyModel.Lemmas.ExecLiveDCSmallBase
/-! `dcSmall`: steps of the manager thread — pid messages, re-spawn, the broken path and the kill loop included. -/
namespace LokyModel.Exec.DCSmallP
open StaticP StaticCP DynP
set_option linter.unusedSimpArgs false

/-! ### what the two continuations not covered by `ExecLiveDynOkM.lean` leave in the program counter -/

theorem mDropRef_sfS (s : St) :
    mEmptyL (mDropRef s).mpc = false ∧ (mDropRef s).mpc ≠ .none ∧ (mDropRef s).mpc ≠ .recv ∧
    isClrRecv (mDropRef s).mpc = false ∧ mFinal (mDropRef s).mpc = false ∧ mLate (mDropRef s).mpc = false := by
  unfold mDropRef
  simp only []
  split
  · simp [mEmptyL, isClrRecv, mFinal, mLate]
  · have h := mAfterItem_sfD { s with refs := s.refs - 1 }
    exact ⟨h.2.1, h.2.2.1, h.2.2.2.1, h.2.2.2.2.1, h.2.2.2.2.2.1, h.2.2.2.2.2.2.1⟩

theorem mKillNext_sfS (s : St) :
    mEmptyL (mKillNext s).mpc = false ∧ (mKillNext s).mpc ≠ .none ∧ (mKillNext s).mpc ≠ .recv ∧
    isClrRecv (mKillNext s).mpc = false ∧ mLate (mKillNext s).mpc = false := by
  have h := mKillNext_res s
  exact ⟨h.2.1, h.2.2.1, h.2.2.2.1, h.2.2.2.2.1, h.2.2.2.2.2.2.1⟩

theorem mKillNext_w (s : St) : (mKillNext s).w = s.w ∧ (mKillNext s).allPids = s.allPids := by
  unfold mKillNext; split <;> simp [mJoinStart]

/-! ### summary of a manager step -/

structure MSumS (s s' : St) : Prop where
  em : mEmptyL s'.mpc = false
  nn : s'.mpc ≠ .none
  nn0 : s.mpc ≠ .none
  rc : s'.mpc = .recv → s'.rqPipe ≠ []
  cr : isClrRecv s'.mpc = true → 0 < s'.wakeup
  fin : mFinal s.mpc = true → mFinal s'.mpc = true
  q : QOk s'.cqBuf s'.cqPipe s'.fpc (mLate s'.mpc) true
  wc : s'.wakeupClosed = true → s.wakeupClosed = true ∨ mFinal s'.mpc = true
  sp : (s'.allPids = s.allPids ∧ (s'.w = s.w ∨ ∃ p, s'.w = upd s.w p .dead)) ∨
       (s'.allPids = s.allPids ++ [s.nextPid] ∧ s'.w = upd s.w s.nextPid .start)
  upc : s'.upc = s.upc
  ucur : s'.ucur = s.ucur
  uscript : s'.uscript = s.uscript
  cfg : s'.cfg = s.cfg
  killFlag : s'.killFlag = s.killFlag

set_option maxHeartbeats 16000000 in
theorem mSumS_step (s s' : St) (v : Variant) (h : SmI s) (hs : stepM s v = some s') : MSumS s s' := by
  have hq := h.q
  have hk := h.kf
  unfold stepM at hs
  crack
  all_goals constructor
  all_goals (first
    | rfl
    | (simp [mAdd_sfD, mAfterItem_sfD, mAddF_sfD, mAfterFlag_sfD, mRelExitNext_sfD, mProcess_sfD, mRespawnCheck_sfD,
         mSpawnLoop_sfD, mAliveNext_sfD, mJoinProcs_sfD, mJoinClose_sfD, mJoinLoop_sfD, mAfterPut_sfD, mJoinStart_mpc',
         mDropRef_sfS, mKillNext_sfS, mKillNext_w, mAfterFlag_w, hk, *]; done)
    | (simp [mEmptyL, isClrRecv, mFinal, mLate, *]; done)
    | (intro r hr'; rw [‹s.rqPipe = _›]; exact List.mem_cons_of_mem _ hr')
    | (right; simp [mSpawnLoop_sfD, spawn]; done)
    | (left; simp [die]; right; exact ⟨_, rfl⟩)
    | (left; simp [die, mKillNext_w]; done)
    | (intro hw; left; simpa using hw)
    | skip)
  -- the call queue
  all_goals (first
    | (refine qOk_same hq ?e1 ?e2 ?e3 ?hl (fun _ => rfl)
       case e1 => simp [die]
       case e2 => simp [die]
       case e3 => simp [die]
       case hl =>
         intro hl
         first
          | (simp [*, mLate] at hl; done)
          | (simp [mJoinProcs_sfD]; done)
          | (simp [mLate]; done))
    | (simp only [mAdd_cqBuf, mAdd_cqPipe, mAdd_fpc, mAddF_cqBuf, mAddF_cqPipe, mAddF_fpc]
       refine qOk_push hq ?h0 _ rfl rfl ?e3 ?hm (fun _ => rfl) (fun _ => rfl)
       case h0 => simp [*, mLate]
       case e3 => simp [*]
       case hm => simp [isClose])
    | (have hq' := hq; rw [‹s.mpc = _›] at hq'
       first
        | (refine mJoinLoop_q _ _ _ _ true ?_; exact hq')
        | (refine mJoinClose_q' _ true ?_; exact hq')
        | (refine mAfterPut_q _ _ _ _ _ true ?_
           refine qOk_push hq' rfl _ rfl rfl ?e3 ?hm (fun _ => rfl) (fun _ => rfl)
           case e3 => simp [*]
           case hm => simp [isClose]))
    | skip)

theorem smI_stepM (s s' : St) (v : Variant) (h : SmI s) (hs : stepM s v = some s') : SmI s' := by
  have M := mSumS_step s s' v h hs
  have hall : ∀ (P : WPc → Bool), P .start = false → P .dead = false → (∀ q ∈ s.allPids, P (s.w q) = false) →
      ∀ q ∈ s'.allPids, P (s'.w q) = false := by
    intro P h0 hd h1 q hq
    rcases M.sp with ⟨e1, e3 | ⟨p, e3⟩⟩ | ⟨e1, e3⟩
    · rw [e3]; rw [e1] at hq; exact h1 q hq
    · rw [e1] at hq
      rw [e3, upd_apply']
      split
      · exact hd
      · exact h1 q hq
    · rw [e3, upd_apply']
      split
      · exact h0
      · rename_i hne
        rw [e1] at hq
        rcases List.mem_append.1 hq with hq | hq
        · exact h1 q hq
        · exact absurd (by simpa using hq) hne
  refine { rc := M.rc, cr := M.cr, je := M.em, api := ?api, wc := ?wc, pe := ?pe, wn := hall _ rfl rfl h.wn, q := M.q,
           tr := fun _ => M.nn, kf := ?kf, nks := ?nks, nkc := ?nkc, nkp := ?nkp, fu := fun e => absurd e M.nn }
  all_goals try simp only [M.upc, M.ucur, M.uscript, M.cfg, M.killFlag]
  case api => exact h.api
  case wc =>
    intro hw
    rcases M.wc hw with e | e
    · exact M.fin (h.wc e)
    · exact e
  case pe => intro k hk _; exact M.nn
  case kf => exact h.kf
  case nks => exact h.nks
  case nkc => exact h.nkc
  case nkp => exact h.nkp

end LokyModel.Exec.DCSmallP
