import LokyModel.Lemmas.ExecMsgU
/-!
A worker's exit announcement (`pid` message) is only ever in flight while that worker is past the point where it
could still take a task: it is in the exit handshake, exiting, or dead.
-/
namespace LokyModel.Exec

/-- the worker has announced its exit (or is already exiting / dead): it will never hold a task again -/
def announced : WPc → Bool
  | .xRel | .xExit | .lRel | .lExitAcq | .lExitRel | .exit _ | .dead => true
  | _ => false

def rPid : RMsg → Option Pid
  | .pid p => some p
  | _ => none
/-- the worker whose exit announcement the manager is processing -/
def mPid : MPc → Option Pid
  | .clrPoll (.item (some r)) | .clrRecv (.item (some r)) => rPid r
  | .pidAcq p | .pidRel p _ | .pidRelExit p | .pidJoin p => some p
  | _ => none

structure AnnInv (s : St) : Prop where
  rq : ∀ r p, r ∈ s.rqPipe → rPid r = some p → announced (s.w p) = true ∧ p < s.nextPid
  m : ∀ p, mPid s.mpc = some p → announced (s.w p) = true ∧ p < s.nextPid
  lt : ∀ p, p ∈ s.allPids → p < s.nextPid

theorem annInv_init (cfg : Cfg) : AnnInv (init cfg) := by
  constructor <;> simp [init, mPid]

theorem announced_upd (f : Pid → WPc) (p q : Pid) (pc : WPc) :
    announced (upd f p pc q) = if q = p then announced pc else announced (f q) := by unfold upd; split <;> rfl

/-- a worker step: only `w p` and the result pipe change; an announced worker stays announced; a `pid` message is
    appended only by the worker it names, which is announced afterwards -/
theorem ann_wmove (s s' : St) (h : AnnInv s) (p : Pid) (hp : p ∈ s.allPids) (pc' : WPc) (hw : s'.w = upd s.w p pc')
    (hfr : s'.mpc = s.mpc ∧ s'.nextPid = s.nextPid ∧ s'.allPids = s.allPids)
    (hmono : announced (s.w p) = true → announced pc' = true)
    (hrq : ∀ r, r ∈ s'.rqPipe → r ∈ s.rqPipe ∨ (rPid r = some p ∧ announced pc' = true) ∨ rPid r = none) : AnnInv s' := by
  obtain ⟨f1, f2, f3⟩ := hfr
  have keep : ∀ q, announced (s.w q) = true → announced (s'.w q) = true := by
    intro q hq; rw [hw, announced_upd]; split
    · rename_i e; subst e; exact hmono hq
    · exact hq
  constructor
  · intro r q hr hq
    rcases hrq r hr with e | ⟨e, a⟩ | e
    · have := h.rq r q e hq; exact ⟨keep q this.1, by rw [f2]; exact this.2⟩
    · rw [e] at hq; cases hq
      refine ⟨?_, by rw [f2]; exact h.lt p hp⟩
      rw [hw, announced_upd, if_pos rfl]; exact a
    · rw [e] at hq; cases hq
  · intro q hq; rw [f1] at hq; have := h.m q hq; exact ⟨keep q this.1, by rw [f2]; exact this.2⟩
  · rw [f2, f3]; exact h.lt

end LokyModel.Exec
