import LokyModel.ExecLiveDCDef
import LokyModel.Lemmas.ExecLiveCrashDead
import LokyModel.Lemmas.ExecNoBreakU
/-!
# `phase2` of a dynamic pool is closed under every step — shared definitions

`ZI s z`: `z` is a *zombie* (registered, dead, exit not announced); `late pc`: the manager is on the broken path, in the
kill loop, or in its final phase.  `zombie s ↔ ∃ z, ZI s z`.  Per actor one proves
`ZI s z → ZI s' z ∨ late s'.mpc`, `late s.mpc → late s'.mpc` and `broken` is never reset.
-/
namespace LokyModel.Exec

/-- broken path, kill loop or final phase of the manager -/
def late (pc : MPc) : Bool := mBrk pc || mFinal pc

/-- worker `z` is registered, dead, and its exit announcement is neither in the result pipe nor in the manager's hands -/
def ZI (s : St) (z : Pid) : Prop :=
  z ∈ s.procDict ∧ s.w z = .dead ∧ (∀ r ∈ s.rqPipe, r ≠ .pid z) ∧ dcHolds s.mpc z = false

theorem isPidOf_iff (z : Pid) (r : RMsg) : isPidOf z r = true ↔ r = .pid z := by
  cases r <;> simp [isPidOf]

theorem dcAnn_false_iff (s : St) (z : Pid) :
    dcAnn s z = false ↔ (∀ r ∈ s.rqPipe, r ≠ .pid z) ∧ dcHolds s.mpc z = false := by
  unfold dcAnn
  rw [Bool.or_eq_false_iff]
  constructor
  · rintro ⟨h1, h2⟩
    refine ⟨?_, h2⟩
    intro r hr e
    have : s.rqPipe.any (isPidOf z) = true := List.any_eq_true.2 ⟨r, hr, (isPidOf_iff z r).2 e⟩
    rw [h1] at this; cases this
  · rintro ⟨h1, h2⟩
    refine ⟨?_, h2⟩
    cases hb : s.rqPipe.any (isPidOf z) with
    | false => rfl
    | true =>
      obtain ⟨r, hr, e⟩ := List.any_eq_true.1 hb
      exact absurd ((isPidOf_iff z r).1 e) (h1 r hr)

theorem zombie_iff (s : St) : zombie s = true ↔ ∃ z, ZI s z := by
  unfold zombie ZI
  rw [List.any_eq_true]
  constructor
  · rintro ⟨z, hz, h⟩
    simp only [Bool.and_eq_true, beq_iff_eq, Bool.not_eq_true'] at h
    exact ⟨z, hz, h.1, (dcAnn_false_iff s z).1 h.2⟩
  · rintro ⟨z, hz, hd, h3, h4⟩
    refine ⟨z, hz, ?_⟩
    simp only [Bool.and_eq_true, beq_iff_eq, Bool.not_eq_true']
    exact ⟨hd, (dcAnn_false_iff s z).2 ⟨h3, h4⟩⟩

theorem phase2_iff (s : St) :
    phase2 s = true ↔ (∃ z, ZI s z) ∨ late s.mpc = true ∨ s.broken.isSome = true := by
  unfold phase2 late
  simp only [Bool.or_eq_true, zombie_iff]
  constructor
  · rintro (((h | h) | h) | h)
    · exact .inl h
    · exact .inr (.inl (.inl h))
    · exact .inr (.inl (.inr h))
    · exact .inr (.inr h)
  · rintro (h | (h | h) | h)
    · exact .inl (.inl (.inl h))
    · exact .inl (.inl (.inr h))
    · exact .inl (.inr h)
    · exact .inr h

/-- what one actor's step has to establish -/
structure P2Step (s s' : St) : Prop where
  brk : s.broken.isSome = true → s'.broken.isSome = true
  lt : late s.mpc = true → late s'.mpc = true
  z : ∀ z, ZI s z → ZI s' z ∨ late s'.mpc = true

theorem phase2_of_p2step {s s' : St} (h : P2Step s s') (h2 : phase2 s = true) : phase2 s' = true := by
  rw [phase2_iff] at h2 ⊢
  rcases h2 with ⟨z, hz⟩ | h2 | h2
  · rcases h.z z hz with e | e
    · exact .inl ⟨z, e⟩
    · exact .inr (.inl e)
  · exact .inr (.inl (h.lt h2))
  · exact .inr (.inr (h.brk h2))

/-! ### `dcHolds` -/

/-- the program counter holds no exit announcement at all -/
def noHold (pc : MPc) : Prop := ∀ z, dcHolds pc z = false

theorem noHold_mAddFuel (n : Nat) (s : St) : noHold (mAddFuel n s).mpc := by
  induction n generalizing s with
  | zero => intro z; rfl
  | succ n ih =>
    unfold mAddFuel; (repeat' split) <;> first | (intro z; rfl) | (exact ih _) | (intro z; simp [dcHolds])
theorem noHold_mAdd (s : St) : noHold (mAdd s).mpc := by unfold mAdd; exact noHold_mAddFuel _ _
theorem noHold_mAddF (s : St) : noHold (mAddF s).mpc := by
  rcases mAddF_mpc s with ⟨i, _, h⟩ | ⟨_, h, _⟩ | ⟨_, h, _⟩ <;> rw [h] <;> intro z <;> rfl
theorem noHold_mAfterItem (s : St) : noHold (mAfterItem s).mpc := by
  unfold mAfterItem; split
  · intro z; rfl
  · exact noHold_mAdd _
theorem noHold_mDropRef (s : St) : noHold (mDropRef s).mpc := by
  unfold mDropRef; simp only []; split
  · intro z; rfl
  · exact noHold_mAfterItem _
theorem noHold_mRespawnCheck (s : St) : noHold (mRespawnCheck s).mpc := by
  unfold mRespawnCheck; simp only []; (repeat' split) <;> first | (intro z; rfl) | exact noHold_mAfterItem _
theorem noHold_mSpawnLoop (s : St) : noHold (mSpawnLoop s).mpc := by
  unfold mSpawnLoop; split <;> (intro z; rfl)

@[simp] theorem dcHolds_mAdd (s : St) (z : Pid) : dcHolds (mAdd s).mpc z = false := noHold_mAdd s z
@[simp] theorem dcHolds_mAddF (s : St) (z : Pid) : dcHolds (mAddF s).mpc z = false := noHold_mAddF s z
@[simp] theorem dcHolds_mAfterItem (s : St) (z : Pid) : dcHolds (mAfterItem s).mpc z = false := noHold_mAfterItem s z
@[simp] theorem dcHolds_mDropRef (s : St) (z : Pid) : dcHolds (mDropRef s).mpc z = false := noHold_mDropRef s z
@[simp] theorem dcHolds_mRespawnCheck (s : St) (z : Pid) : dcHolds (mRespawnCheck s).mpc z = false :=
  noHold_mRespawnCheck s z
@[simp] theorem dcHolds_mSpawnLoop (s : St) (z : Pid) : dcHolds (mSpawnLoop s).mpc z = false := noHold_mSpawnLoop s z

theorem dcHolds_clrRecv (k : AfterClear) (z : Pid) : dcHolds (.clrRecv k) z = dcHolds (.clrPoll k) z := by
  cases k with
  | item r =>
    cases r with
    | none => rfl
    | some r => cases r <;> rfl
  | broken b => rfl

theorem dcHolds_mProcess (s : St) (r : Option RMsg) (z : Pid) :
    dcHolds (mProcess s r).mpc z = dcHolds (.clrPoll (.item r)) z := by
  unfold mProcess
  split
  · rw [dcHolds_mAfterItem]; rfl
  · rw [dcHolds_mAfterItem]; rfl
  · split <;> (rw [dcHolds_mAfterItem]; rfl)
  · rfl

theorem dcHolds_late (pc : MPc) (z : Pid) (h : late pc = true) : dcHolds pc z = false := by
  cases pc <;> first | rfl | (simp [late, mBrk, mFinal] at h; done) | skip
  all_goals (rename_i k; cases k with
    | item r => simp [late, mBrk, mFinal] at h
    | broken b => rfl)

/-! ### `late` -/

theorem late_clrRecv (k : AfterClear) : late (.clrRecv k) = late (.clrPoll k) := by
  cases k <;> rfl

@[simp] theorem late_mJoinStart (s : St) : late (mJoinStart s).mpc = true := rfl
@[simp] theorem late_mKillNext (s : St) : late (mKillNext s).mpc = true := by unfold mKillNext; split <;> rfl
@[simp] theorem late_mJoinProcs (s : St) : late (mJoinProcs s).mpc = true := by unfold mJoinProcs; split <;> rfl
@[simp] theorem late_mJoinClose (s : St) : late (mJoinClose s).mpc = true := rfl
@[simp] theorem late_mJoinLoop (s : St) (n a c) : late (mJoinLoop s n a c).mpc = true := by
  unfold mJoinLoop; split <;> first | rfl | simp
@[simp] theorem late_mAfterPut (s : St) (k n a c) : late (mAfterPut s k n a c).mpc = true := by
  unfold mAfterPut; split <;> first | rfl | simp
@[simp] theorem late_mRelExitNext (s : St) (ps n) : late (mRelExitNext s ps n).mpc = true := by
  unfold mRelExitNext; split <;> rfl
@[simp] theorem late_mAliveNext (s : St) (ps c n a b) : late (mAliveNext s ps c n a b).mpc = true := by
  unfold mAliveNext; split <;> rfl

/-- `flag_executor_shutting_down` either leaves the registry alone or enters the kill loop / the final phase -/
theorem mAfterFlag_reg_or_late (s : St) :
    late (mAfterFlag s).mpc = true ∨ (mAfterFlag s).procDict = s.procDict := by
  unfold mAfterFlag
  split
  · left; simp
  · split
    · left; simp
    · right; simp

/-! ### moving a zombie along a step -/

theorem zi_move (s s' : St) (z : Pid) (h : ZI s z)
    (hd : late s'.mpc = true ∨ (z ∈ s.procDict → z ∈ s'.procDict))
    (hw : s.w z = .dead → z < s.nextPid → s'.w z = .dead)
    (hlt : z ∈ s.procDict → z < s.nextPid)
    (hr : ∀ r ∈ s'.rqPipe, r ∈ s.rqPipe ∨ r ≠ .pid z)
    (hm : dcHolds s'.mpc z = true → dcHolds s.mpc z = true ∨ .pid z ∈ s.rqPipe) :
    ZI s' z ∨ late s'.mpc = true := by
  obtain ⟨h1, h2, h3, h4⟩ := h
  rcases hd with hd | hd
  · exact .inr hd
  · left
    refine ⟨hd h1, hw h2 (hlt h1), ?_, ?_⟩
    · intro r hr'
      rcases hr r hr' with e | e
      · exact h3 r e
      · exact e
    · cases hb : dcHolds s'.mpc z with
      | false => rfl
      | true =>
        rcases hm hb with e | e
        · rw [h4] at e; cases e
        · exact absurd rfl (h3 _ e)

theorem pids_reg_lt (s : St) (hp : PidsInv s) (z : Pid) (h : z ∈ s.procDict) : z < s.nextPid :=
  hp.lt z (hp.reg z h)

end LokyModel.Exec
