import LokyModel.Lemmas.ExecLiveAll
import LokyModel.Lemmas.ExecLiveDynOk
import LokyModel.Lemmas.ExecLiveWakeD
import LokyModel.Lemmas.ExecLiveRespawnReach
import LokyModel.Lemmas.ExecLiveTRecv
import LokyModel.Lemmas.ExecLiveStuckDyn
import LokyModel.Lemmas.ExecNoBreakAll
/-! Assembly for dynamic pools: the ingredients of `ExecLiveDyn.lean` (in their strengthened, inductive forms) hold in every
    state that a pool with an idle time-out reaches without crash steps. -/
namespace LokyModel.Exec

structure DynLiveInv (s : St) : Prop where
  slot : slotOk' s = true
  holder : holderOk'' s = true
  dyn : DynInv s
  add : addSlotOk s = true
  wake : wakeOkD' s = true
  cons : consOk' s = true
  rsp : respawnOk' s = true
  trecv : tRecvOk s = true

theorem holderOk'_of_ok'' {s : St} (h : holderOk'' s = true) : holderOk' s = true := by
  unfold holderOk'' at h; simp only [Bool.and_eq_true] at h; exact h.1

theorem benign_of_dynPool (c : Cfg) (h : c.dynPool = true) : c.benign := by
  unfold Cfg.dynPool at h
  simp only [Bool.and_eq_true] at h
  obtain ⟨⟨⟨⟨⟨_, _⟩, hi⟩, _⟩, ht⟩, _⟩ := h
  refine ⟨?_, by simpa using hi⟩
  intro t ht'
  have := List.all_eq_true.1 ht t ht'
  simpa [TaskSpec.benign] using this

theorem benignTasks_of_dynPool (c : Cfg) (h : c.dynPool = true) : c.benignTasks = true := by
  unfold Cfg.dynPool at h
  simp only [Bool.and_eq_true] at h
  obtain ⟨⟨⟨⟨⟨_, _⟩, _⟩, _⟩, ht⟩, _⟩ := h
  unfold Cfg.benignTasks
  exact ht

theorem noKill_of_dynOk {s : St} (h : dynOk s = true) : ∀ p, s.mpc ≠ .kill p := by
  have := (dyn_facts s h).mnever
  intro p hp; rw [hp] at this; simp [mNeverD] at this

/-- a dead worker in the manager's `wait` snapshot has its exit announcement in the result pipe -/
theorem hsnap_of_nbInv {s : St} (h : NBInv s) :
    ∀ sn, s.mpc = .wait sn → ∀ p ∈ sn, isDead s p = true → s.rqPipe ≠ [] := by
  intro sn hm p hp hd
  have hreg := h.snap sn hm p hp
  have hl : leaving (s.w p) = true := by
    have : s.w p = .dead := by simpa [isDead] using hd
    rw [this]; rfl
  rcases h.ann p hreg hl with h1 | h1
  · intro he; rw [he] at h1; cases h1
  · rw [hm] at h1; simp [mHolds] at h1

theorem dynLiveInv_init (cfg : Cfg) (hc : cfg.dynPool = true) (ho : cfg.oneCreate = true) : DynLiveInv (init cfg) :=
  ⟨slotOk'_init cfg, holderOk''_init cfg, dynInv_init cfg hc ho, addSlotOk_init cfg, wakeOkD'_init cfg hc,
   consOk'_init cfg, respawnOk'_init cfg hc, tRecvOk_init cfg⟩

theorem dynLiveInv_step {cfg : Cfg} {s s' : St} {a : Actor} {v : Variant} (hr : Reachable cfg s) (hnb : NBInv s)
    (hv : v ≠ .crash) (hs : step s a v = some s') (hc : s.cfg.dynPool = true) (h : DynLiveInv s) : DynLiveInv s' := by
  have hp := pidsInv_reachable hr
  have hd := dynOk_of_dynOk' h.dyn.1
  have hho := holderOk_of_ok'' h.holder
  have hnk := noKill_of_dynOk hd
  have hu : ∀ k, s.upc k = .subTStart → s.oMgmt = some (.U k) :=
    fun k hk => (mgmtInv_reachable hr).u k (by simp [inMgmtU, hk])
  exact ⟨slotOk'_step hv hs hp (fun p hp' => absurd hp' (hnk p)) h.slot,
         holderOk''_step hv hs hp (killSafe_of_ne hnk) h.holder,
         dynInv_step hv hs hp hc hu (hsnap_of_nbInv hnb) h.dyn,
         addSlotOk_step hs h.add,
         wakeOkD'_step hv hs hp hc hd hho h.wake,
         consOk'_step_benign hv hs hp (benignTasks_of_dynPool _ hc) hu h.cons,
         respawnOk'_step_reachable hr hv hs hc hd h.rsp,
         tRecvOk_step hs hp (holderOk'_of_ok'' h.holder) h.trecv⟩

theorem dynLiveInv_reachableNC {cfg : Cfg} (hc : cfg.dynPool = true) (ho : cfg.oneCreate = true) {s : St}
    (h : ReachableNC cfg s) : DynLiveInv s := by
  induction h with
  | init => exact dynLiveInv_init cfg hc ho
  | step hr hv hs ih =>
    have hcfg := cfg_reachable hr.reachable
    exact dynLiveInv_step hr.reachable (nbInv_reachableNC (benign_of_dynPool cfg hc) hr) hv hs (by rw [hcfg]; exact hc) ih

end LokyModel.Exec
