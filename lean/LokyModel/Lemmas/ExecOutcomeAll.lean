import LokyModel.Lemmas.ExecOutcomeWF
import LokyModel.Lemmas.ExecOutcomeM
import LokyModel.Lemmas.ExecOutcomeU
/-! `OutInv` holds in every state reachable without crash steps from a benign configuration without forced shutdown. -/
namespace LokyModel.Exec

/-- one step.  Hypotheses on the pre-state only: `MsgInv` (a call item carries the task of its own work id), `LenInv`,
    and that the manager is not on its broken path (`NBInv.mp` in crash-free runs of benign configurations).  The step
    itself may be any step, a crash included. -/
theorem outInv_step {s s' : St} {a : Actor} {v : Variant} (hb : s.cfg.benign) (hm : MsgInv s) (hl : LenInv s)
    (hbp : brokenPath s.mpc = false) (h : OutInv s) (hs : step s a v = some s') : OutInv s' := by
  unfold step at hs
  cases a with
  | U k => simp only [] at hs; split at hs; exact outInv_stepU s s' k v h hl hs; cases hs
  | M => exact outInv_stepM s s' v h hbp hs
  | F => exact outInv_stepF s s' v h hm hb hs
  | W p => simp only [] at hs; split at hs; exact outInv_stepW s s' p v h hm hs; cases hs

theorem outInv_reachableNC {cfg : Cfg} (hb : cfg.benign) (hk : cfg.noKill = true) {s : St} (h : ReachableNC cfg s) :
    OutInv s := by
  induction h with
  | init => exact outInv_init cfg hk
  | step hr hv hs ih =>
    have hr' := hr.reachable
    exact outInv_step (by rw [cfg_reachable hr']; exact hb) (msgInv_reachable hr') (lenInv_reachable hr')
      (nbInv_reachableNC hb hr).mp ih hs

/-- the executable form, as evaluated by `Drivers/LiveCheckOutcome.lean`, is a theorem -/
theorem outOkB_reachableNC {cfg : Cfg} (hb : cfg.benign) (hk : cfg.noKill = true) {s : St} (h : ReachableNC cfg s) :
    outOkB s = true := outOkB_of_inv s (outInv_reachableNC hb hk h)

end LokyModel.Exec
