import LokyModel.Lemmas.ExecLiveWakeBase
/-! `WX` and `WakeP` across a manager step. -/
namespace LokyModel.Exec
set_option linter.unusedSimpArgs false
set_option linter.unusedVariables false

/-! ### where the manager's continuations end -/

/-- program counters at which the manager is neither idle nor inside a shutdown-lock section -/
def mMid (pc : MPc) : Prop := mIdle pc = false ∧ inShutM' pc = false

theorem mAddFuel_mpc_wake (fuel : Nat) (s : St) :
    (∃ snap, (mAddFuel fuel s).mpc = .wait snap) ∨ ∃ i, (mAddFuel fuel s).mpc = .addAcq i := by
  induction fuel generalizing s with
  | zero => exact .inl ⟨_, rfl⟩
  | succ n ih =>
    unfold mAddFuel
    split
    · exact .inl ⟨_, rfl⟩
    · split
      · exact .inl ⟨_, rfl⟩
      · split
        · exact ih _
        · exact .inr ⟨_, rfl⟩

theorem mAdd_mpc_wake (s : St) : (∃ snap, (mAdd s).mpc = .wait snap) ∨ ∃ i, (mAdd s).mpc = .addAcq i := mAddFuel_mpc_wake _ s

theorem mAdd_notShut (s : St) : inShutM' (mAdd s).mpc = false := by
  rcases mAdd_mpc_wake s with ⟨x, h⟩ | ⟨x, h⟩ <;> simp [h, inShutM']

@[simp] theorem mJoinStart_mid (s : St) : mMid (mJoinStart s).mpc := by simp [mJoinStart, mMid, mIdle, inShutM']
@[simp] theorem mKillNext_mid (s : St) : mMid (mKillNext s).mpc := by
  unfold mKillNext; split <;> simp [mMid, mIdle, inShutM', mJoinStart]
@[simp] theorem mSpawnLoop_mid (s : St) : mMid (mSpawnLoop s).mpc := by
  unfold mSpawnLoop; split <;> simp [mMid, mIdle, inShutM']
@[simp] theorem mJoinProcs_mid (s : St) : mMid (mJoinProcs s).mpc := by
  unfold mJoinProcs; split <;> simp [mMid, mIdle, inShutM']
@[simp] theorem mJoinClose_mid (s : St) : mMid (mJoinClose s).mpc := by
  unfold mJoinClose; simp [mMid, mIdle, inShutM']
@[simp] theorem mJoinLoop_mid (s : St) (a b c : Nat) : mMid (mJoinLoop s a b c).mpc := by
  unfold mJoinLoop; split
  · simp [mMid, mIdle, inShutM']
  · exact mJoinClose_mid s
@[simp] theorem mRelExitNext_mid (s : St) (ps : List Pid) (n : Nat) : mMid (mRelExitNext s ps n).mpc := by
  unfold mRelExitNext; split <;> simp [mMid, mIdle, inShutM']
@[simp] theorem mAliveNext_mid (s : St) (ps : List Pid) (a b c d : Nat) : mMid (mAliveNext s ps a b c d).mpc := by
  unfold mAliveNext; split <;> simp [mMid, mIdle, inShutM']
@[simp] theorem mAfterPut_mid (s : St) (a b c d : Nat) : mMid (mAfterPut s a b c d).mpc := by
  unfold mAfterPut; split
  · exact mJoinLoop_mid _ _ _ _
  · simp [mMid, mIdle, inShutM']

theorem mAfterItem_notShut (s : St) : inShutM' (mAfterItem s).mpc = false := by
  unfold mAfterItem; split
  · simp [inShutM']
  · exact mAdd_notShut s
theorem mRespawnCheck_notShut (s : St) : inShutM' (mRespawnCheck s).mpc = false := by
  unfold mRespawnCheck; simp only []; (repeat' split) <;> first | (simp [inShutM']; done) | exact mAfterItem_notShut _
theorem mDropRef_notShut (s : St) : inShutM' (mDropRef s).mpc = false := by
  unfold mDropRef; simp only []; split
  · simp [inShutM']
  · exact mAfterItem_notShut _
theorem mProcess_notShut (s : St) (r : Option RMsg) : inShutM' (mProcess s r).mpc = false := by
  unfold mProcess; (repeat' split) <;> first | (simp [inShutM']; done) | exact mAfterItem_notShut _
theorem mAddF_notShut (s : St) : inShutM' (mAddF s).mpc = false := by
  unfold mAddF mAfterAddF
  split
  · simp [inShutM']
  · split
    · simp [mJoinStart, inShutM']
    · exact mAdd_notShut s
  · exact mAdd_notShut s
theorem mAfterFlag_notShut (s : St) : inShutM' (mAfterFlag s).mpc = false := by
  unfold mAfterFlag; split
  · exact (mKillNext_mid _).2
  · split
    · simp [mJoinStart, inShutM']
    · exact mAddF_notShut s

@[simp] theorem mJoinStart_ni (s : St) : mIdle (mJoinStart s).mpc = false := (mJoinStart_mid s).1
@[simp] theorem mJoinStart_ns (s : St) : inShutM' (mJoinStart s).mpc = false := (mJoinStart_mid s).2
@[simp] theorem mKillNext_ni (s : St) : mIdle (mKillNext s).mpc = false := (mKillNext_mid s).1
@[simp] theorem mKillNext_ns (s : St) : inShutM' (mKillNext s).mpc = false := (mKillNext_mid s).2
@[simp] theorem mSpawnLoop_ni (s : St) : mIdle (mSpawnLoop s).mpc = false := (mSpawnLoop_mid s).1
@[simp] theorem mSpawnLoop_ns (s : St) : inShutM' (mSpawnLoop s).mpc = false := (mSpawnLoop_mid s).2
@[simp] theorem mJoinProcs_ni (s : St) : mIdle (mJoinProcs s).mpc = false := (mJoinProcs_mid s).1
@[simp] theorem mJoinProcs_ns (s : St) : inShutM' (mJoinProcs s).mpc = false := (mJoinProcs_mid s).2
@[simp] theorem mJoinClose_ni (s : St) : mIdle (mJoinClose s).mpc = false := (mJoinClose_mid s).1
@[simp] theorem mJoinClose_ns (s : St) : inShutM' (mJoinClose s).mpc = false := (mJoinClose_mid s).2
@[simp] theorem mJoinLoop_ni (s : St) (a b c : Nat) : mIdle (mJoinLoop s a b c).mpc = false := (mJoinLoop_mid s a b c).1
@[simp] theorem mJoinLoop_ns (s : St) (a b c : Nat) : inShutM' (mJoinLoop s a b c).mpc = false := (mJoinLoop_mid s a b c).2
@[simp] theorem mRelExitNext_ni (s : St) (ps : List Pid) (n : Nat) : mIdle (mRelExitNext s ps n).mpc = false := (mRelExitNext_mid s ps n).1
@[simp] theorem mRelExitNext_ns (s : St) (ps : List Pid) (n : Nat) : inShutM' (mRelExitNext s ps n).mpc = false := (mRelExitNext_mid s ps n).2
@[simp] theorem mAliveNext_ni (s : St) (ps : List Pid) (a b c d : Nat) : mIdle (mAliveNext s ps a b c d).mpc = false := (mAliveNext_mid s ps a b c d).1
@[simp] theorem mAliveNext_ns (s : St) (ps : List Pid) (a b c d : Nat) : inShutM' (mAliveNext s ps a b c d).mpc = false := (mAliveNext_mid s ps a b c d).2
@[simp] theorem mAfterPut_ni (s : St) (a b c d : Nat) : mIdle (mAfterPut s a b c d).mpc = false := (mAfterPut_mid s a b c d).1
@[simp] theorem mAfterPut_ns (s : St) (a b c d : Nat) : inShutM' (mAfterPut s a b c d).mpc = false := (mAfterPut_mid s a b c d).2

theorem static_never (s : St) (hst : staticOk s = true) : mNever s.mpc = false ∧ s.broken = none ∧ s.killFlag = false := by
  unfold staticOk at hst
  simp only [Bool.and_eq_true, Bool.not_eq_true', Option.isNone_iff_eq_none] at hst
  exact ⟨hst.1.1.1.1.1.1.1.1.1.1.1.1, hst.1.1.1.1.1.1.1.1.1.1.1.2, hst.1.1.1.1.1.1.1.1.1.1.2⟩

set_option maxHeartbeats 8000000 in
theorem wx_stepM (s s' : St) (v : Variant) (h : WX s) (hh : holderOk s = true) (hs : stepM s v = some s') : WX s' := by
  have ho := holder_shut s hh
  obtain ⟨a1, a2, a3, a4, a5, a6, a7, a8, a9, a10⟩ := h
  unfold stepM at hs
  crack
  all_goals (refine ⟨?_, ?_, ?_, ?_, ?_, ?_, ?_, ?_, ?_, ?_⟩)
  all_goals (first
    | (simpa [mEnded] using ‹_›)
    | (intro hi; simp [mAdd_notShut, mAfterItem_notShut, mRespawnCheck_notShut, mDropRef_notShut,
        mProcess_notShut, mAddF_notShut, mAfterFlag_notShut] at hi; done)
    | (simp_all [inShutM', inShutF', mEnded, mAdd_notShut, mAfterItem_notShut, mRespawnCheck_notShut, mDropRef_notShut,
        mProcess_notShut, mAddF_notShut, mAfterFlag_notShut]; done)
    | skip)

end LokyModel.Exec
