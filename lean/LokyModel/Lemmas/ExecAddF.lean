import LokyModel.Lemmas.ExecFrame
/-! Where `add_call_item_to_queue` (`mAdd`) and the pass the manager makes right after
    `flag_executor_shutting_down` (`mAddF = mAfterAddF ∘ mAdd`) leave the manager's program counter.
    `mAfterAddF` changes nothing but `mpc`. -/
namespace LokyModel.Exec

theorem mAddFuel_mpc (n : Nat) (s : St) :
    (∃ i, (mAddFuel n s).mpc = .addAcq i) ∨ (mAddFuel n s).mpc = .wait s.procDict := by
  induction n generalizing s with
  | zero => right; rfl
  | succ n ih =>
    unfold mAddFuel
    split
    · right; rfl
    · split
      · right; rfl
      · split
        · have := ih { s with workIds := ‹List Wid›, pending := s.pending.erase ‹Wid› }
          simpa using this
        · left; exact ⟨_, rfl⟩

theorem mAdd_mpc (s : St) : (∃ i, (mAdd s).mpc = .addAcq i) ∨ (mAdd s).mpc = .wait s.procDict :=
  mAddFuel_mpc _ s

/-- `mAfterAddF` by cases on the program counter it finds -/
theorem mAfterAddF_addAcq (s : St) (i : Wid) (h : s.mpc = .addAcq i) : mAfterAddF s = { s with mpc := .addAcqF i } := by
  unfold mAfterAddF; rw [h]
theorem mAfterAddF_wait_empty (s : St) (sn : List Pid) (h : s.mpc = .wait sn) (hp : s.pending = []) :
    mAfterAddF s = mJoinStart s := by
  unfold mAfterAddF; rw [h]; simp [hp]
theorem mAfterAddF_wait_nonempty (s : St) (sn : List Pid) (h : s.mpc = .wait sn) (hp : s.pending ≠ []) :
    mAfterAddF s = s := by
  unfold mAfterAddF; rw [h]; simp [hp]

/-- the three outcomes of the pass made after flagging: still inside it, at the blocking acquire of a
    call-queue slot; or it ended with work items still in the table and the thread announces `wait`; or
    it ended with the table empty and the thread goes on to `join_executor_internals`. -/
theorem mAddF_cases (s : St) :
    (∃ i, (mAdd s).mpc = .addAcq i ∧ mAddF s = { mAdd s with mpc := .addAcqF i })
    ∨ ((mAdd s).mpc = .wait s.procDict ∧ (mAdd s).pending ≠ [] ∧ mAddF s = mAdd s)
    ∨ ((mAdd s).mpc = .wait s.procDict ∧ (mAdd s).pending = [] ∧ mAddF s = mJoinStart (mAdd s)) := by
  rcases mAdd_mpc s with ⟨i, h⟩ | h
  · left; exact ⟨i, h, mAfterAddF_addAcq _ i h⟩
  · by_cases hp : (mAdd s).pending = []
    · right; right; exact ⟨h, hp, mAfterAddF_wait_empty _ _ h hp⟩
    · right; left; exact ⟨h, hp, mAfterAddF_wait_nonempty _ _ h hp⟩

@[simp] theorem mAddF_futs (s : St) : (mAddF s).futs = (mAdd s).futs := by unfold mAddF; simp
@[simp] theorem mAddF_pending (s : St) : (mAddF s).pending = (mAdd s).pending := by unfold mAddF; simp
@[simp] theorem mAddF_running (s : St) : (mAddF s).running = (mAdd s).running := by unfold mAddF; simp
@[simp] theorem mAddF_workIds (s : St) : (mAddF s).workIds = (mAdd s).workIds := by unfold mAddF; simp

theorem mAddF_mpc (s : St) :
    (∃ i, (mAdd s).mpc = .addAcq i ∧ (mAddF s).mpc = .addAcqF i)
    ∨ ((mAdd s).mpc = .wait s.procDict ∧ (mAddF s).mpc = .wait s.procDict ∧ (mAddF s).pending ≠ [])
    ∨ ((mAdd s).mpc = .wait s.procDict ∧ (mAddF s).mpc = .jAcq1 ∧ (mAddF s).pending = []) := by
  rcases mAddF_cases s with ⟨i, h, e⟩ | ⟨h, hp, e⟩ | ⟨h, hp, e⟩
  · left; exact ⟨i, h, by rw [e]⟩
  · right; left; exact ⟨h, by rw [e]; exact h, by simpa using hp⟩
  · right; right; exact ⟨h, by rw [e]; rfl, by simpa using hp⟩

/-- the state after the pass is the state `mAdd` leaves, with another program counter -/
theorem mAddF_eq (s : St) : mAddF s = { mAdd s with mpc := (mAddF s).mpc } := by
  rcases mAddF_cases s with ⟨i, h, e⟩ | ⟨h, hp, e⟩ | ⟨h, hp, e⟩
  · rw [e]
  · rw [e]
  · rw [e]; rfl

/-- the fix: after the pass, the thread does not announce `wait` with an empty table of work items -/
theorem mAddF_wait_pending (s : St) (sn : List Pid) (h : (mAddF s).mpc = .wait sn) : (mAddF s).pending ≠ [] := by
  rcases mAddF_mpc s with ⟨i, _, h'⟩ | ⟨_, _, hp⟩ | ⟨_, h', _⟩
  · rw [h'] at h; cases h
  · exact hp
  · rw [h'] at h; cases h

end LokyModel.Exec
