import LokyModel.Lemmas.ExecFrame
import LokyModel.ExecLive
/-! Shared tools for the deadlock-freedom ingredients (`Lemmas/ExecLive*.lean`): case-cracking of a step, functional
    update, sums over the list of process ids, and the basic facts about that list. -/
namespace LokyModel.Exec

theorem acq_map' {α : Type} (v : Nat) (f : Nat → α) : (acq v).map f = if 0 < v then some (f (v - 1)) else none := by
  unfold acq; split <;> simp_all

theorem upd_apply' {α : Type} (f : Nat → α) (p : Nat) (v : α) (q : Nat) :
    upd f p v q = if q = p then v else f q := rfl
theorem upd_same' {α : Type} (f : Nat → α) (p : Nat) (v : α) : upd f p v p = v := by simp [upd]
theorem upd_other' {α : Type} (f : Nat → α) (p q : Nat) (v : α) (h : q ≠ p) : upd f p v q = f q := by simp [upd, h]
theorem die_w' (s : St) (p : Pid) (c : Int) : (die s p c).w = upd s.w p .dead := rfl
theorem spawn_w' (s : St) : (spawn s).w = upd s.w s.nextPid .start := rfl
theorem setW_w' (s : St) (p : Pid) (pc : WPc) : (setW s p pc).w = upd s.w p pc := rfl
theorem setU_upc' (s : St) (k : Nat) (pc : UPc) : (setU s k pc).upc = upd s.upc k pc := rfl
theorem spawn_allPids' (s : St) : (spawn s).allPids = s.allPids ++ [s.nextPid] := rfl
theorem spawn_procDict' (s : St) : (spawn s).procDict = s.procDict ++ [s.nextPid] := rfl
theorem spawn_nextPid' (s : St) : (spawn s).nextPid = s.nextPid + 1 := rfl

-- `crack`: open up a hypothesis `hs : stepX s v = some s'` (already unfolded) into one goal per enabled transition,
-- with `s'` replaced by the successor state
set_option hygiene false in
macro "crack" : tactic => `(tactic| (
  simp only [acq_map'] at hs
  split at hs
  all_goals (repeat' (split at hs))
  all_goals (first | (cases hs; done) | skip)
  all_goals (cases hs)))


/-! ### worker continuations change the program counter of their own process only -/
theorem setW_w_other (s : St) (p q : Pid) (pc : WPc) (h : q ≠ p) : (setW s p pc).w q = s.w q := by
  simp [setW, upd, h]
theorem die_w_other (s : St) (p q : Pid) (c : Int) (h : q ≠ p) : (die s p c).w q = s.w q := by
  simp [die, upd, h]
theorem wGet_w_other (s : St) (p q : Pid) (h : q ≠ p) : (wGet s p).w q = s.w q := by
  unfold wGet; exact setW_w_other _ _ _ _ h
theorem wDispatch_w_other (s : St) (p q : Pid) (m : CMsg) (h : q ≠ p) : (wDispatch s p m).w q = s.w q := by
  unfold wDispatch; (repeat' split) <;> exact setW_w_other _ _ _ _ h
theorem wAfterStart_w_other (s : St) (p q : Pid) (h : q ≠ p) : (wAfterStart s p).w q = s.w q := by
  unfold wAfterStart; split
  · exact setW_w_other _ _ _ _ h
  · exact wGet_w_other _ _ _ h
theorem wAfterResult_w_other (s : St) (p q : Pid) (h : q ≠ p) : (wAfterResult s p).w q = s.w q := by
  unfold wAfterResult; simp only []
  (repeat' split) <;> first | (rw [wGet_w_other _ _ _ h]) | (rw [setW_w_other _ _ _ _ h])

/-! ### sums over lists -/

@[simp] theorem sumL_nil {α : Type} (f : α → Nat) : sumL f [] = 0 := rfl
@[simp] theorem sumL_cons {α : Type} (f : α → Nat) (x : α) (xs : List α) : sumL f (x :: xs) = f x + sumL f xs := rfl
@[simp] theorem sumL_append {α : Type} (f : α → Nat) (xs ys : List α) : sumL f (xs ++ ys) = sumL f xs + sumL f ys := by
  induction xs with
  | nil => simp
  | cons x xs ih => simp [ih]; omega

theorem sumL_congr {α : Type} (f g : α → Nat) (l : List α) (h : ∀ x ∈ l, f x = g x) : sumL f l = sumL g l := by
  induction l with
  | nil => rfl
  | cons a l ih =>
    simp only [sumL_cons]
    rw [h a (by simp), ih (fun x hx => h x (by simp [hx]))]

theorem sumL_upd_notin (g : WPc → Nat) (f : Pid → WPc) (p : Pid) (x : WPc) (l : List Pid) (h : p ∉ l) :
    sumL (fun q => g (upd f p x q)) l = sumL (fun q => g (f q)) l := by
  apply sumL_congr
  intro q hq
  have : q ≠ p := fun e => h (e ▸ hq)
  simp [upd, this]

/-- replacing the program counter of one listed process changes the sum by the difference of the two summands -/
theorem sumL_upd (g : WPc → Nat) (f : Pid → WPc) (p : Pid) (x : WPc) (l : List Pid) (hn : l.Nodup) (h : p ∈ l) :
    sumL (fun q => g (upd f p x q)) l + g (f p) = sumL (fun q => g (f q)) l + g x := by
  induction l with
  | nil => simp at h
  | cons a l ih =>
    simp only [List.nodup_cons] at hn
    simp only [sumL_cons]
    by_cases ha : a = p
    · subst ha
      rw [sumL_upd_notin g f a x l hn.1]
      simp [upd]; omega
    · have hp : p ∈ l := by simpa [Ne.symm ha] using h
      have := ih hn.2 hp
      simp only [upd, if_neg ha] at this ⊢
      omega

theorem sumL_pos_of_mem {α : Type} (f : α → Nat) (l : List α) (x : α) (hx : x ∈ l) (h : 0 < f x) : 0 < sumL f l := by
  induction l with
  | nil => simp at hx
  | cons a l ih =>
    simp only [sumL_cons]
    rcases List.mem_cons.1 hx with e | e
    · subst e; omega
    · have := ih e; omega

theorem exists_of_sumL_pos {α : Type} (f : α → Nat) (l : List α) (h : 0 < sumL f l) : ∃ x ∈ l, 0 < f x := by
  induction l with
  | nil => simp at h
  | cons a l ih =>
    simp only [sumL_cons] at h
    by_cases ha : 0 < f a
    · exact ⟨a, by simp, ha⟩
    · have : 0 < sumL f l := by omega
      obtain ⟨x, hx, hfx⟩ := ih this
      exact ⟨x, by simp [hx], hfx⟩

/-! ### the list of process ids -/

/-- process ids are issued once, in increasing order; a process that is not listed has never been started -/
structure PidsInv (s : St) : Prop where
  nodup : s.allPids.Nodup
  lt : ∀ p ∈ s.allPids, p < s.nextPid
  dead : ∀ p, p ∉ s.allPids → s.w p = .dead
  reg : ∀ p ∈ s.procDict, p ∈ s.allPids

theorem pidsInv_init (cfg : Cfg) : PidsInv (init cfg) := by
  constructor <;> simp [init]

theorem pidsInv_spawn (s : St) (h : PidsInv s) : PidsInv (spawn s) := by
  obtain ⟨h1, h2, h3, h4⟩ := h
  refine ⟨?_, ?_, ?_, ?_⟩
  · rw [spawn_allPids', List.nodup_append]
    refine ⟨h1, by simp, ?_⟩
    intro a ha b hb
    have h5 := h2 a ha
    have hb' : b = s.nextPid := by simpa using hb
    intro e
    rw [e, hb'] at h5
    exact Nat.lt_irrefl _ h5
  · intro p hp
    rw [spawn_allPids'] at hp
    rw [spawn_nextPid']
    rcases List.mem_append.1 hp with hp | hp
    · exact Nat.lt_succ_of_lt (h2 p hp)
    · have hp' : p = s.nextPid := by simpa using hp
      rw [hp']; exact Nat.lt_succ_self _
  · intro p hp
    rw [spawn_allPids'] at hp
    rw [spawn_w']
    have hne : p ≠ s.nextPid := fun e => hp (by simp [e])
    have hni : p ∉ s.allPids := fun e => hp (by simp [e])
    rw [upd_other' _ _ _ _ hne]
    exact h3 p hni
  · intro p hp
    rw [spawn_procDict'] at hp
    rw [spawn_allPids']
    rcases List.mem_append.1 hp with hp | hp
    · exact List.mem_append.2 (.inl (h4 p hp))
    · exact List.mem_append.2 (.inr hp)

end LokyModel.Exec
