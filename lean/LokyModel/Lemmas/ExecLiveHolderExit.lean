import LokyModel.Lemmas.ExecLiveHolder
/-! The side hypothesis `RelExitSafe` of `holderOk'_step` (the manager never releases a worker's exit lock twice, so it
    never dies of `ValueError` while it holds the process-management lock) follows from an invariant of its own,
    `exitOk`, which is inductive given `PidsInv` and the lock-holder invariant. -/
namespace LokyModel.Exec

/-- the manager is past the first lock section of `join_executor_internals` -/
def rPost : MPc → Bool
  | .jRel1 _ | .jAliveAcq _ _ _ | .jAlive _ _ _ _ _ | .jAliveRel _ _ _ _ | .jPut _ _ _ _ | .jPutTStart _ _ _ _
  | .jSleep _ _ _ | .jShutAcq | .jShutRel | .jAcq2 | .jJoin _ | .jRel2 | .done | .raised _ => true
  | _ => false

/-- the workers whose exit lock the manager may still release -/
def relSet (s : St) : List Pid :=
  match s.mpc with
  | .jRelExit ps _ => ps
  | .pidRel p true => p :: s.procDict
  | .pidRelExit p => p :: s.procDict
  | pc => if rPost pc then [] else s.procDict

def exitOk (s : St) : Bool :=
  decide s.procDict.Nodup &&
  (relSet s).all (fun q => s.exitL q == 0 && s.w q != .lExitRel && decide (q ∈ s.allPids)) &&
  decide (relSet s).Nodup &&
  (s.mpc != .rspStart || s.exitL s.nextPid == 0) &&
  (List.range s.cfg.scripts.length).all (fun k =>
    (s.upc k != .subPStart || s.exitL s.nextPid == 0) && (s.upc k != .subTStart || s.mpc == .none))

def RelExitSafeB (s : St) : Bool :=
  match s.mpc with
  | .jRelExit (p :: _) _ => s.exitL p == 0
  | _ => true

structure ExitInv (s : St) : Prop where
  nd : s.procDict.Nodup
  rel : ∀ q ∈ relSet s, s.exitL q = 0 ∧ s.w q ≠ .lExitRel ∧ q ∈ s.allPids
  rnd : (relSet s).Nodup
  spM : s.mpc = .rspStart → s.exitL s.nextPid = 0
  spU : ∀ k, k < s.cfg.scripts.length → s.upc k = .subPStart → s.exitL s.nextPid = 0
  tsU : ∀ k, k < s.cfg.scripts.length → s.upc k = .subTStart → s.mpc = .none

theorem exitInv_of_ok {s : St} (h : exitOk s = true) : ExitInv s := by
  unfold exitOk at h
  simp only [Bool.and_eq_true, List.all_eq_true, List.mem_range, decide_eq_true_eq, Bool.or_eq_true, bne_iff_ne,
    beq_iff_eq, ne_eq] at h
  obtain ⟨⟨⟨⟨h1, h2⟩, h3⟩, h4⟩, h5⟩ := h
  refine ⟨h1, fun q hq => ⟨(h2 q hq).1.1, (h2 q hq).1.2, (h2 q hq).2⟩, h3, ?_, ?_, ?_⟩
  · intro e; rcases h4 with h4 | h4
    · exact absurd e h4
    · exact h4
  · intro k hk e; rcases (h5 k hk).1 with h | h
    · exact absurd e h
    · exact h
  · intro k hk e; rcases (h5 k hk).2 with h | h
    · exact absurd e h
    · exact h

theorem ok_of_exitInv {s : St} (h : ExitInv s) : exitOk s = true := by
  obtain ⟨h1, h2, h3, h4, h5, h6⟩ := h
  unfold exitOk
  simp only [Bool.and_eq_true, List.all_eq_true, List.mem_range, decide_eq_true_eq, Bool.or_eq_true, bne_iff_ne,
    beq_iff_eq, ne_eq]
  refine ⟨⟨⟨⟨h1, fun q hq => ⟨⟨(h2 q hq).1, (h2 q hq).2.1⟩, (h2 q hq).2.2⟩⟩, h3⟩, ?_⟩, ?_⟩
  · by_cases e : s.mpc = .rspStart
    · exact .inr (h4 e)
    · exact .inl e
  · intro k hk
    refine ⟨?_, ?_⟩
    · by_cases e : s.upc k = .subPStart
      · exact .inr (h5 k hk e)
      · exact .inl e
    · by_cases e : s.upc k = .subTStart
      · exact .inr (h6 k hk e)
      · exact .inl e

theorem exitInv_init (cfg : Cfg) : ExitInv (init cfg) := by
  refine ⟨?_, ?_, ?_, ?_, ?_, ?_⟩ <;> simp [init, relSet, rPost]

/-- what the invariant is for -/
theorem relExitSafe_of_exitInv {s : St} (h : ExitInv s) : RelExitSafe s := by
  intro p rest n e
  exact (h.rel p (by simp [relSet, e])).1


/-! ### the release set as a function of the manager's program counter -/

/-- `relSet` is the registered workers -/
def rPlain : MPc → Bool
  | .jRelExit _ _ | .pidRel _ true | .pidRelExit _ | .rspStart => false
  | pc => !rPost pc

theorem relSet_congr {s s' : St} (hm : s'.mpc = s.mpc) (hpd : s'.procDict = s.procDict) : relSet s' = relSet s := by
  unfold relSet; rw [hm, hpd]
theorem relSet_plain {s : St} (h : rPlain s.mpc = true) : relSet s = s.procDict := by
  unfold relSet; unfold rPlain at h; revert h
  cases s.mpc <;> simp [rPost]
  all_goals (rename_i b; cases b <;> simp)
theorem relSet_post {s : St} (h : rPost s.mpc = true) : relSet s = [] := by
  unfold relSet
  split <;> simp_all [rPost]
theorem plain_ne {pc : MPc} (h : rPlain pc = true) : (pc = .rspStart) = False := by
  simp only [eq_iff_iff, iff_false]; intro e; subst e; simp [rPlain] at h
theorem post_ne {pc : MPc} (h : rPost pc = true) : (pc = .rspStart) = False := by
  simp only [eq_iff_iff, iff_false]; intro e; subst e; simp [rPost] at h

theorem mAddFuel_plain (n : Nat) (s : St) : rPlain (mAddFuel n s).mpc = true := by
  induction n generalizing s with
  | zero => rfl
  | succ n ih =>
    unfold mAddFuel
    (repeat' split) <;> first | rfl | exact ih _
theorem mAdd_plain_holder (s : St) : rPlain (mAdd s).mpc = true := mAddFuel_plain _ _
theorem mJoinStart_plain (s : St) : rPlain (mJoinStart s).mpc = true := rfl
theorem mKillNext_plain (s : St) : rPlain (mKillNext s).mpc = true := by
  unfold mKillNext; split <;> rfl
theorem mAfterItem_plain_holder (s : St) : rPlain (mAfterItem s).mpc = true := by
  unfold mAfterItem; split
  · rfl
  · exact mAdd_plain_holder _
theorem mDropRef_plain_holder (s : St) : rPlain (mDropRef s).mpc = true := by
  unfold mDropRef; simp only []; split
  · rfl
  · exact mAfterItem_plain_holder _
theorem mRespawnCheck_plain_holder (s : St) : rPlain (mRespawnCheck s).mpc = true := by
  unfold mRespawnCheck; simp only []
  (repeat' split) <;> first | rfl | exact mAfterItem_plain_holder _
theorem mProcess_plain_holder (s : St) (r : Option RMsg) : rPlain (mProcess s r).mpc = true := by
  unfold mProcess
  (repeat' split) <;> first | rfl | exact mAfterItem_plain_holder _
theorem mSpawnLoop_plain_holder (s : St) : rPlain (mSpawnLoop s).mpc = true := by
  unfold mSpawnLoop; split <;> rfl
theorem mAfterAddF_plain (s : St) (h : rPlain s.mpc = true) : rPlain (mAfterAddF s).mpc = true := by
  unfold mAfterAddF
  (repeat' split) <;> first | rfl | exact h
theorem mAddF_plain (s : St) : rPlain (mAddF s).mpc = true := mAfterAddF_plain _ (mAdd_plain_holder s)
theorem mAfterFlag_plain (s : St) : rPlain (mAfterFlag s).mpc = true := by
  unfold mAfterFlag
  (repeat' split) <;> first | exact mKillNext_plain _ | exact mJoinStart_plain _ | exact mAddF_plain _
theorem mJoinProcs_post (s : St) : rPost (mJoinProcs s).mpc = true := by
  unfold mJoinProcs; split <;> rfl
theorem mJoinClose_post (s : St) : rPost (mJoinClose s).mpc = true := by
  unfold mJoinClose; rfl
theorem mJoinLoop_post (s : St) (n sent cool : Nat) : rPost (mJoinLoop s n sent cool).mpc = true := by
  unfold mJoinLoop; split
  · rfl
  · exact mJoinClose_post _
theorem mAliveNext_post (s : St) (ps : List Pid) (cnt n sent cool : Nat) :
    rPost (mAliveNext s ps cnt n sent cool).mpc = true := by
  unfold mAliveNext; split <;> rfl
theorem mAfterPut_post (s : St) (k n sent cool : Nat) : rPost (mAfterPut s k n sent cool).mpc = true := by
  unfold mAfterPut; split
  · exact mJoinLoop_post _ _ _ _
  · rfl
theorem relSet_mRelExitNext (s : St) (ps : List Pid) (n : Nat) : relSet (mRelExitNext s ps n) = ps := by
  unfold mRelExitNext; split <;> rfl
theorem mRelExitNext_ne (s : St) (ps : List Pid) (n : Nat) : ((mRelExitNext s ps n).mpc = .rspStart) = False := by
  unfold mRelExitNext; split <;> simp

theorem mKillNext_sub (s : St) : (mKillNext s).procDict.Sublist s.procDict := by
  unfold mKillNext; split
  · exact List.dropLast_sublist _
  · exact List.Sublist.refl _
theorem mJoinProcs_sub (s : St) : (mJoinProcs s).procDict.Sublist s.procDict := by
  unfold mJoinProcs; split
  · exact List.dropLast_sublist _
  · exact List.Sublist.refl _
theorem mAfterFlag_sub (s : St) : (mAfterFlag s).procDict.Sublist s.procDict := by
  unfold mAfterFlag; (repeat' split)
  · have := mKillNext_sub (failAll { s with pending := [] } s.pending .excShutdown); simpa using this
  · simp [mJoinStart]
  · simp

/-- first stage of the simplification: the release set after a continuation -/
macro "rpc" : tactic => `(tactic| (try simp only [relSet_plain, relSet_post, plain_ne, post_ne, mAdd_plain_holder, mJoinStart_plain,
  mKillNext_plain, mAfterItem_plain_holder, mDropRef_plain_holder, mRespawnCheck_plain_holder, mProcess_plain_holder, mSpawnLoop_plain_holder, mAddF_plain,
  mAfterFlag_plain, mJoinProcs_post, mJoinClose_post, mJoinLoop_post, mAliveNext_post, mAfterPut_post,
  relSet_mRelExitNext, mRelExitNext_ne]))

/-! ### assembling the invariant after a step of one actor -/

theorem exitInv_same {s s' : St} (h : ExitInv s) (hupc : s'.upc = s.upc) (hcfg : s'.cfg = s.cfg)
    (hmpc : s'.mpc = s.mpc) (hpd : s'.procDict = s.procDict) (hall : s'.allPids = s.allPids)
    (hnp : s'.nextPid = s.nextPid) (hw : s'.w = s.w) (hex : s'.exitL = s.exitL) : ExitInv s' := by
  obtain ⟨h1, h2, h3, h4, h5, h6⟩ := h
  have hR := relSet_congr hmpc hpd
  refine ⟨?_, ?_, ?_, ?_, ?_, ?_⟩
  · rw [hpd]; exact h1
  · rw [hR, hex, hw, hall]; exact h2
  · rw [hR]; exact h3
  · rw [hmpc, hex, hnp]; exact h4
  · rw [hupc, hcfg, hex, hnp]; exact h5
  · rw [hupc, hcfg, hmpc]; exact h6

theorem exitInv_W {s s' : St} (h : ExitInv s) (hp : PidsInv s) (p : Pid) (hin : p ∈ s.allPids)
    (hupc : s'.upc = s.upc) (hcfg : s'.cfg = s.cfg)
    (hmpc : s'.mpc = s.mpc) (hpd : s'.procDict = s.procDict) (hall : s'.allPids = s.allPids)
    (hnp : s'.nextPid = s.nextPid) (hw : ∀ q, q ≠ p → s'.w q = s.w q) (hex : ∀ q, q ≠ p → s'.exitL q = s.exitL q)
    (hself : s.exitL p = 0 → s.w p ≠ .lExitRel → s'.exitL p = 0 ∧ s'.w p ≠ .lExitRel) : ExitInv s' := by
  obtain ⟨h1, h2, h3, h4, h5, h6⟩ := h
  have hR := relSet_congr hmpc hpd
  have hne : s.nextPid ≠ p := fun e => Nat.lt_irrefl _ (e ▸ hp.lt p hin)
  refine ⟨?_, ?_, ?_, ?_, ?_, ?_⟩
  · rw [hpd]; exact h1
  · rw [hR, hall]
    intro q hq
    obtain ⟨a, b, c⟩ := h2 q hq
    by_cases e : q = p
    · subst e; obtain ⟨x, y⟩ := hself a b; exact ⟨x, y, c⟩
    · rw [hex q e, hw q e]; exact ⟨a, b, c⟩
  · rw [hR]; exact h3
  · rw [hmpc, hnp, hex _ hne]; exact h4
  · rw [hupc, hcfg, hnp, hex _ hne]; exact h5
  · rw [hupc, hcfg, hmpc]; exact h6

theorem exitInv_M {s s' : St} (h : ExitInv s) (hne : s.mpc ≠ .none)
    (hupc : s'.upc = s.upc) (hcfg : s'.cfg = s.cfg) (hall : s'.allPids = s.allPids) (hnp : s'.nextPid = s.nextPid)
    (hpd : s'.procDict.Sublist s.procDict) (hR : (relSet s').Sublist (relSet s))
    (hw : ∀ q, s'.w q = .lExitRel → s.w q = .lExitRel)
    (hex : s'.exitL = s.exitL ∨ s'.exitL = upd s.exitL s.nextPid 0)
    (hsp : s'.mpc = .rspStart → s'.exitL s.nextPid = 0) : ExitInv s' := by
  obtain ⟨h1, h2, h3, h4, h5, h6⟩ := h
  have hz : ∀ q, s.exitL q = 0 → s'.exitL q = 0 := by
    intro q hq
    rcases hex with e | e
    · rw [e]; exact hq
    · rw [e, upd_apply']; split
      · rfl
      · exact hq
  refine ⟨hpd.nodup h1, ?_, hR.nodup h3, ?_, ?_, ?_⟩
  · intro q hq
    obtain ⟨a, b, c⟩ := h2 q (hR.subset hq)
    exact ⟨hz q a, fun e => b (hw q e), by rw [hall]; exact c⟩
  · rw [hnp]; exact hsp
  · intro k hk e
    rw [hupc] at e; rw [hcfg] at hk; rw [hnp]
    exact hz _ (h5 k hk e)
  · intro k hk e
    rw [hupc] at e; rw [hcfg] at hk
    exact absurd (h6 k hk e) hne

/-- the manager releases the exit lock of `p` and strikes it off the release set -/
theorem exitInv_M_rel {s s' : St} (h : ExitInv s) (hp : PidsInv s) (hne : s.mpc ≠ .none) (p : Pid)
    (hupc : s'.upc = s.upc) (hcfg : s'.cfg = s.cfg) (hall : s'.allPids = s.allPids) (hnp : s'.nextPid = s.nextPid)
    (hpd : s'.procDict = s.procDict) (hR : relSet s = p :: relSet s')
    (hw : s'.w = s.w) (hex : s'.exitL = upd s.exitL p (s.exitL p + 1))
    (hsp : (s'.mpc = .rspStart) = False) : ExitInv s' := by
  obtain ⟨h1, h2, h3, h4, h5, h6⟩ := h
  rw [hR] at h2 h3
  have hpa : p ∈ s.allPids := (h2 p (by simp)).2.2
  have hpn : s.nextPid ≠ p := fun e => Nat.lt_irrefl _ (e ▸ hp.lt p hpa)
  have hnot : p ∉ relSet s' := (List.nodup_cons.1 h3).1
  refine ⟨by rw [hpd]; exact h1, ?_, (List.nodup_cons.1 h3).2, ?_, ?_, ?_⟩
  · intro q hq
    have hqp : q ≠ p := fun e => hnot (e ▸ hq)
    obtain ⟨a, b, c⟩ := h2 q (by simp [hq])
    rw [hex, hw, hall, upd_other' _ _ _ _ hqp]; exact ⟨a, b, c⟩
  · intro e; rw [hsp] at e; exact e.elim
  · intro k hk e
    rw [hupc] at e; rw [hcfg] at hk; rw [hnp, hex, upd_other' _ _ _ _ hpn]
    exact h5 k hk e
  · intro k hk e
    rw [hupc] at e; rw [hcfg] at hk
    exact absurd (h6 k hk e) hne

theorem nodup_cons_erase {l : List Pid} (h : l.Nodup) (p : Pid) : (p :: l.erase p).Nodup := by
  rw [List.nodup_cons]
  exact ⟨fun e => (List.Nodup.mem_erase_iff h).1 e |>.1 rfl, h.erase p⟩

/-- the manager takes a worker that announced its exit out of the table -/
theorem exitInv_pidAcq {s s' : St} (h : ExitInv s) (p : Pid) (heq : s.mpc = .pidAcq p)
    (hm : s'.mpc = .pidRel p (decide (p ∈ s.procDict))) (hpd : s'.procDict = s.procDict.erase p)
    (hupc : s'.upc = s.upc) (hcfg : s'.cfg = s.cfg) (hall : s'.allPids = s.allPids) (hnp : s'.nextPid = s.nextPid)
    (hw : s'.w = s.w) (hex : s'.exitL = s.exitL) : ExitInv s' := by
  obtain ⟨h1, h2, h3, h4, h5, h6⟩ := h
  have hR : relSet s = s.procDict := by simp [relSet, heq, rPost]
  rw [hR] at h2 h3
  have hsub : ∀ q ∈ relSet s', q ∈ s.procDict := by
    intro q hq
    unfold relSet at hq; rw [hm, hpd] at hq
    by_cases e : p ∈ s.procDict
    · simp only [e, decide_true, List.mem_cons] at hq
      rcases hq with hq | hq
      · rw [hq]; exact e
      · exact List.mem_of_mem_erase hq
    · simp only [e, decide_false, rPost] at hq
      exact List.mem_of_mem_erase (by simpa using hq)
  have hnd : (relSet s').Nodup := by
    unfold relSet; rw [hm, hpd]
    by_cases e : p ∈ s.procDict
    · simp only [e, decide_true]; exact nodup_cons_erase h1 p
    · simp only [e, decide_false, rPost]; simpa using h1.erase p
  have hne : s.mpc ≠ .none := by rw [heq]; simp
  refine ⟨by rw [hpd]; exact h1.erase p, ?_, hnd, ?_, ?_, ?_⟩
  · intro q hq; rw [hex, hw, hall]; exact h2 q (hsub q hq)
  · intro e; rw [hm] at e; cases e
  · intro k hk e; rw [hupc] at e; rw [hcfg] at hk; rw [hex, hnp]; exact h5 k hk e
  · intro k hk e; rw [hupc] at e; rw [hcfg] at hk; exact absurd (h6 k hk e) hne


theorem relSet_spawn {s s' : St} {x : Pid} (hm : s'.mpc = s.mpc) (hpd : s'.procDict = s.procDict ++ [x]) :
    relSet s' = relSet s ++ [x] ∨ relSet s' = relSet s := by
  unfold relSet; rw [hm, hpd]
  split
  · exact .inr rfl
  · exact .inl rfl
  · exact .inl rfl
  · split
    · exact .inr rfl
    · exact .inl rfl

/-- a worker is started (by the manager or by a submitting thread) -/
theorem exitInv_spawn {s s' : St} (h : ExitInv s) (hp : PidsInv s)
    (hpd : s'.procDict = s.procDict ++ [s.nextPid]) (hall : s'.allPids = s.allPids ++ [s.nextPid])
    (_hnp : s'.nextPid = s.nextPid + 1) (hw : s'.w = upd s.w s.nextPid .start) (hex : s'.exitL = s.exitL)
    (hz : s.exitL s.nextPid = 0)
    (hR : relSet s' = relSet s ++ [s.nextPid] ∨ relSet s' = relSet s)
    (hspM : (s'.mpc = .rspStart) = False)
    (hspU : ∀ k, k < s'.cfg.scripts.length → s'.upc k ≠ .subPStart)
    (hts : ∀ k, k < s'.cfg.scripts.length → s'.upc k = .subTStart → s'.mpc = .none) : ExitInv s' := by
  obtain ⟨h1, h2, h3, h4, h5, h6⟩ := h
  have hn : s.nextPid ∉ s.allPids := fun hm => Nat.lt_irrefl _ (hp.lt _ hm)
  have hnR : s.nextPid ∉ relSet s := fun hm => hn (h2 _ hm).2.2
  have hnP : s.nextPid ∉ s.procDict := fun hm => hn (hp.reg _ hm)
  have hold : ∀ q ∈ relSet s, s'.exitL q = 0 ∧ s'.w q ≠ .lExitRel ∧ q ∈ s'.allPids := by
    intro q hq
    obtain ⟨a, b, c⟩ := h2 q hq
    have hqn : q ≠ s.nextPid := fun e => hn (e ▸ c)
    rw [hex, hw, hall, upd_other' _ _ _ _ hqn]
    exact ⟨a, b, List.mem_append.2 (.inl c)⟩
  refine ⟨?_, ?_, ?_, ?_, ?_, hts⟩
  · rw [hpd, List.nodup_append]
    exact ⟨h1, by simp, fun a ha b hb e => hnP (by rw [List.mem_singleton.1 hb] at e; exact e ▸ ha)⟩
  · intro q hq
    rcases hR with e | e
    · rw [e] at hq
      rcases List.mem_append.1 hq with hq | hq
      · exact hold q hq
      · rw [List.mem_singleton.1 hq, hex, hw, hall, upd_same']
        exact ⟨hz, by simp, by simp⟩
    · rw [e] at hq; exact hold q hq
  · rcases hR with e | e
    · rw [e, List.nodup_append]
      exact ⟨h3, by simp, fun a ha b hb e => hnR (by rw [List.mem_singleton.1 hb] at e; exact e ▸ ha)⟩
    · rw [e]; exact h3
  · intro e; rw [hspM] at e; exact e.elim
  · intro k hk e; exact absurd e (hspU k hk)

theorem exitInv_spawnM {s s' : St} (h : ExitInv s) (hp : PidsInv s) (hh : HolderInv s) (heq : s.mpc = .rspStart)
    (hm : rPlain s'.mpc = true) (hupc : s'.upc = s.upc) (hcfg : s'.cfg = s.cfg)
    (hpd : s'.procDict = s.procDict ++ [s.nextPid]) (hall : s'.allPids = s.allPids ++ [s.nextPid])
    (hnp : s'.nextPid = s.nextPid + 1) (hw : s'.w = upd s.w s.nextPid .start) (hex : s'.exitL = s.exitL) :
    ExitInv s' := by
  have hown : s.oMgmt = some .M := hh.mgmt.excl .M (by simp [secMgmt, heq, inMgmtM'])
  refine exitInv_spawn h hp hpd hall hnp hw hex (h.spM heq) ?_ (plain_ne hm) ?_ ?_
  · left; rw [relSet_plain hm, hpd]; simp [relSet, heq, rPost]
  · intro k hk e
    rw [hupc] at e; rw [hcfg] at hk
    have := hh.mgmt.excl (.U k) (by simp [secMgmt, e, inMgmtU', hk])
    rw [hown] at this; cases this
  · intro k hk e
    rw [hupc] at e; rw [hcfg] at hk
    have := h.tsU k hk e
    rw [heq] at this; cases this

theorem exitInv_spawnU {s s' : St} (h : ExitInv s) (hp : PidsInv s) (hh : HolderInv s) (k : Nat)
    (hk : k < s.cfg.scripts.length) (heq : s.upc k = .subPStart)
    (hupc : ∀ j, j ≠ k → s'.upc j = s.upc j) (hmpc : s'.mpc = s.mpc) (hcfg : s'.cfg = s.cfg)
    (hpd : s'.procDict = s.procDict ++ [s.nextPid]) (hall : s'.allPids = s.allPids ++ [s.nextPid])
    (hnp : s'.nextPid = s.nextPid + 1) (hw : s'.w = upd s.w s.nextPid .start) (hex : s'.exitL = s.exitL)
    (h1 : s'.upc k ≠ .subPStart) (h2 : s'.upc k = .subTStart → s.mpc = .none) : ExitInv s' := by
  have hown : s.oMgmt = some (.U k) := hh.mgmt.excl (.U k) (by simp [secMgmt, heq, inMgmtU', hk])
  refine exitInv_spawn h hp hpd hall hnp hw hex (h.spU k hk heq) (relSet_spawn hmpc hpd) ?_ ?_ ?_
  · simp only [eq_iff_iff, iff_false]
    intro e; rw [hmpc] at e
    have := hh.mgmt.excl .M (by simp [secMgmt, e, inMgmtM'])
    rw [hown] at this; cases this
  · intro j hj e
    rw [hcfg] at hj
    by_cases ej : j = k
    · subst ej; exact h1 e
    · rw [hupc j ej] at e
      have := hh.mgmt.excl (.U j) (by simp [secMgmt, e, inMgmtU', hj])
      rw [hown] at this; exact ej (by cases this; rfl)
  · intro j hj e
    rw [hcfg] at hj; rw [hmpc]
    by_cases ej : j = k
    · subst ej; exact h2 e
    · rw [hupc j ej] at e; exact h.tsU j hj e

/-- a submitting thread starts the manager thread -/
theorem exitInv_tstartU {s s' : St} (h : ExitInv s) (hh : HolderInv s) (k : Nat)
    (hk : k < s.cfg.scripts.length) (heq : s.upc k = .subTStart)
    (hupc : ∀ j, j ≠ k → s'.upc j = s.upc j) (hmpc : s'.mpc = .start) (hcfg : s'.cfg = s.cfg)
    (hpd : s'.procDict = s.procDict) (hall : s'.allPids = s.allPids)
    (hnp : s'.nextPid = s.nextPid) (hw : s'.w = s.w) (hex : s'.exitL = s.exitL)
    (h1 : s'.upc k ≠ .subPStart) (h2 : s'.upc k ≠ .subTStart) : ExitInv s' := by
  have hown : s.oMgmt = some (.U k) := hh.mgmt.excl (.U k) (by simp [secMgmt, heq, inMgmtU', hk])
  have hnone := h.tsU k hk heq
  obtain ⟨a1, a2, a3, a4, a5, a6⟩ := h
  have hR : relSet s' = relSet s := by
    rw [relSet_plain (s := s') (by rw [hmpc]; rfl), relSet_plain (s := s) (by rw [hnone]; rfl), hpd]
  refine ⟨by rw [hpd]; exact a1, ?_, by rw [hR]; exact a3, ?_, ?_, ?_⟩
  · rw [hR, hex, hw, hall]; exact a2
  · intro e; rw [hmpc] at e; cases e
  · intro j hj e
    rw [hcfg] at hj; rw [hex, hnp]
    by_cases ej : j = k
    · subst ej; exact absurd e h1
    · rw [hupc j ej] at e; exact a5 j hj e
  · intro j hj e
    rw [hcfg] at hj
    by_cases ej : j = k
    · subst ej; exact absurd e h2
    · rw [hupc j ej] at e
      have := hh.mgmt.excl (.U j) (by simp [secMgmt, e, inMgmtU', hj])
      rw [hown] at this; exact absurd (by cases this; rfl) ej

theorem exitInv_U {s s' : St} (h : ExitInv s) (k : Nat)
    (hupc : ∀ j, j ≠ k → s'.upc j = s.upc j) (hcfg : s'.cfg = s.cfg) (hmpc : s'.mpc = s.mpc)
    (hpd : s'.procDict = s.procDict) (hall : s'.allPids = s.allPids) (hnp : s'.nextPid = s.nextPid)
    (hw : s'.w = s.w) (hex : s'.exitL = s.exitL ∨ s'.exitL = upd s.exitL s.nextPid 0)
    (h1 : s'.upc k = .subPStart → s'.exitL s.nextPid = 0)
    (h2 : s'.upc k = .subTStart → s.mpc = .none) : ExitInv s' := by
  obtain ⟨a1, a2, a3, a4, a5, a6⟩ := h
  have hR := relSet_congr hmpc hpd
  have hz : ∀ q, s.exitL q = 0 → s'.exitL q = 0 := by
    intro q hq
    rcases hex with e | e
    · rw [e]; exact hq
    · rw [e, upd_apply']; split
      · rfl
      · exact hq
  refine ⟨by rw [hpd]; exact a1, ?_, by rw [hR]; exact a3, ?_, ?_, ?_⟩
  · rw [hR, hw, hall]; intro q hq
    obtain ⟨a, b, c⟩ := a2 q hq
    exact ⟨hz q a, b, c⟩
  · intro e; rw [hmpc] at e; rw [hnp]; exact hz _ (a4 e)
  · intro j hj e
    rw [hcfg] at hj; rw [hnp]
    by_cases ej : j = k
    · subst ej; exact h1 e
    · rw [hupc j ej] at e; exact hz _ (a5 j hj e)
  · intro j hj e
    rw [hcfg] at hj; rw [hmpc]
    by_cases ej : j = k
    · subst ej; exact h2 e
    · rw [hupc j ej] at e; exact a6 j hj e


/-! ### the transitions that need an argument of their own -/

theorem exitInv_pidRelExit {s : St} (h : ExitInv s) (hp : PidsInv s) (p : Pid) (heq : s.mpc = .pidRelExit p) :
    ExitInv { s with exitL := upd s.exitL p (s.exitL p + 1), mpc := .pidJoin p } := by
  refine exitInv_M_rel h hp (by rw [heq]; simp) p rfl rfl rfl rfl rfl ?_ rfl rfl (by simp)
  simp [relSet, heq, rPost]

theorem exitInv_jRelExit {s : St} (h : ExitInv s) (hp : PidsInv s) (p : Pid) (rest : List Pid) (n : Nat)
    (heq : s.mpc = .jRelExit (p :: rest) n) :
    ExitInv (mRelExitNext { s with exitL := upd s.exitL p (s.exitL p + 1) } rest (n + 1)) := by
  refine exitInv_M_rel h hp (by rw [heq]; simp) p (by simp) (by simp) (by simp) (by simp) (by simp) ?_ (by simp)
    (by simp) (mRelExitNext_ne _ _ _)
  rw [relSet_mRelExitNext]; simp [relSet, heq]

theorem exitInv_rspStart {s : St} (h : ExitInv s) (hp : PidsInv s) (hh : HolderInv s) (heq : s.mpc = .rspStart) :
    ExitInv (mSpawnLoop (spawn s)) :=
  exitInv_spawnM h hp hh heq (mSpawnLoop_plain_holder _) (by simp [spawn]) (by simp [spawn]) (by simp [spawn_procDict'])
    (by simp [spawn_allPids']) (by simp [spawn_nextPid']) (by simp [spawn_w']) (by simp [spawn])

theorem uSpawnLoop_ne_pstart (s : St) (k : Nat) : (uSpawnLoop s k).upc k ≠ .subPStart := by
  unfold uSpawnLoop; (repeat' split) <;> rw [setU_upc_self] <;> simp
theorem uSpawnLoop_tstart (s : St) (k : Nat) : (uSpawnLoop s k).upc k = .subTStart → s.mpc = .none := by
  unfold uSpawnLoop; (repeat' split) <;> rw [setU_upc_self] <;> simp_all

theorem exitInv_subPStart {s : St} (h : ExitInv s) (hp : PidsInv s) (hh : HolderInv s) (k : Nat)
    (hk : k < s.cfg.scripts.length) (heq : s.upc k = .subPStart) : ExitInv (uSpawnLoop (spawn s) k) :=
  exitInv_spawnU h hp hh k hk heq (fun j hj => by simp [uSpawnLoop_upc_other_holder _ _ _ hj, spawn]) (by simp [spawn])
    (by simp [spawn]) (by simp [spawn_procDict']) (by simp [spawn_allPids']) (by simp [spawn_nextPid'])
    (by simp [spawn_w']) (by simp [spawn]) (uSpawnLoop_ne_pstart _ _)
    (fun e => by have := uSpawnLoop_tstart _ _ e; simpa [spawn] using this)

theorem exitInv_subTStart {s : St} (h : ExitInv s) (hh : HolderInv s) (k : Nat)
    (hk : k < s.cfg.scripts.length) (heq : s.upc k = .subTStart) :
    ExitInv (setU { s with mpc := .start, threadReg := true } k .subRelMgmt) :=
  exitInv_tstartU h hh k hk heq (fun j hj => by simp [setU_upc_other _ _ _ _ hj]) (by simp) (by simp) (by simp)
    (by simp) (by simp) (by simp) (by simp) (by simp [setU_upc_self]) (by simp [setU_upc_self])

/-! ### the steps -/

theorem free_ne_p {pc : UPc} (h : uFree pc = true) : (pc = .subPStart) = False := by
  simp only [eq_iff_iff, iff_false]; intro e; subst e; simp [uFree, inMgmtU'] at h
theorem free_ne_t {pc : UPc} (h : uFree pc = true) : (pc = .subTStart) = False := by
  simp only [eq_iff_iff, iff_false]; intro e; subst e; simp [uFree, inMgmtU'] at h
theorem wGet_ne (s : St) (p : Pid) : ((wGet s p).w p = .lExitRel) = False := by
  unfold wGet; rw [setW_w_self]; split <;> simp
theorem wDispatch_ne (s : St) (p : Pid) (m : CMsg) : ((wDispatch s p m).w p = .lExitRel) = False := by
  unfold wDispatch; (repeat' split) <;> rw [setW_w_self] <;> simp
theorem wAfterStart_ne (s : St) (p : Pid) : ((wAfterStart s p).w p = .lExitRel) = False := by
  unfold wAfterStart; split
  · rw [setW_w_self]; simp
  · exact wGet_ne _ _
theorem wAfterResult_ne (s : St) (p : Pid) : ((wAfterResult s p).w p = .lExitRel) = False := by
  unfold wAfterResult; simp only []
  (repeat' split) <;> first | exact wGet_ne _ _ | (rw [setW_w_self]; simp)

theorem die_w_lExit (s : St) (p : Pid) (c : Int) (q : Pid) (h : (die s p c).w q = .lExitRel) : s.w q = .lExitRel := by
  rw [die_w', upd_apply'] at h; split at h
  · cases h
  · exact h

set_option maxHeartbeats 4000000 in
theorem exitInv_stepF (s s' : St) (v : Variant) (h : ExitInv s) (hs : stepF s v = some s') : ExitInv s' := by
  unfold stepF at hs
  crack
  all_goals (refine exitInv_same h ?_ ?_ ?_ ?_ ?_ ?_ ?_ ?_)
  all_goals (first | rfl | (simp; done))


set_option maxHeartbeats 4000000 in
theorem exitInv_stepW (s s' : St) (p : Pid) (v : Variant) (hp : PidsInv s) (hin : p ∈ s.allPids) (h : ExitInv s)
    (hs : stepW s p v = some s') : ExitInv s' := by
  unfold stepW at hs
  crack
  all_goals (refine exitInv_W h hp p hin ?_ ?_ ?_ ?_ ?_ ?_ ?_ ?_ ?_)
  all_goals (first
    | rfl
    | (simp; done)
    | (intro q hq; simp [wAfterStart_w_other, wGet_w_other, wDispatch_w_other, wAfterResult_w_other, setW_w_other, die_w_other, hq]; done)
    | (intro q hq; simp [upd, hq]; done)
    | (intro a b; omega)
    | (intro a b; exact absurd (by assumption) b)
    | (intro a b; simp [a, wGet_ne, wDispatch_ne, wAfterStart_ne, wAfterResult_ne, setW_w_self, die_w_self]; done))


set_option maxHeartbeats 16000000 in
theorem exitInv_stepM (s s' : St) (v : Variant) (hp : PidsInv s) (hh : HolderInv s) (h : ExitInv s)
    (hs : stepM s v = some s') : ExitInv s' := by
  unfold stepM at hs
  crack
  all_goals (first
    | (refine exitInv_M h ?_ ?_ ?_ ?_ ?_ ?_ ?_ ?_ ?_ ?_ <;> first
        | rfl
        | (simp [*]; done)
        | (refine List.Sublist.trans (mKillNext_sub _) ?_; simp; done)
        | (refine List.Sublist.trans (mJoinProcs_sub _) ?_; simp; done)
        | (refine List.Sublist.trans (mAfterFlag_sub _) ?_; simp; done)
        | (intro q; simp; done)
        | (intro q hq; simpa using die_w_lExit _ _ _ _ hq)
        | (rpc; simp [relSet, rPost, upd, *]; done)
        | (rpc; simp only [relSet, rPost, *]; refine List.Sublist.trans (mKillNext_sub _) ?_; simp; done)
        | (rpc; simp only [relSet, rPost, *]; refine List.Sublist.trans (mAfterFlag_sub _) ?_; simp; done))
    | (exact exitInv_pidAcq h _ (by assumption) rfl rfl rfl rfl rfl rfl rfl rfl)
    | (exact exitInv_pidRelExit h hp _ (by assumption))
    | (exact exitInv_jRelExit h hp _ _ _ (by assumption))
    | (exact exitInv_rspStart h hp hh (by assumption))
    | (exfalso; have := relExitSafe_of_exitInv h _ _ _ (by assumption); omega))


set_option maxHeartbeats 16000000 in
theorem exitInv_stepU (s s' : St) (k : Nat) (v : Variant) (hk : k < s.cfg.scripts.length) (hp : PidsInv s)
    (hh : HolderInv s) (h : ExitInv s) (hs : stepU s k v = some s') : ExitInv s' := by
  unfold stepU at hs
  crack
  all_goals (first
    | (refine exitInv_U h k ?_ ?_ ?_ ?_ ?_ ?_ ?_ ?_ ?_ ?_ <;> first
        | rfl
        | (simp; done)
        | (intro j hj; simp [setU_upc_other, uNext_upc_other_holder, uRelease_upc_other_holder, uSpawnLoop_upc_other_holder, uDispatch_upc_other_holder, hj]; done)
        | (simp only [free_ne_p, free_ne_t, uNext_free, uRelease_free, uDispatch_free, setU_upc_self]; simp [upd, *]; done)
        | (intro e; exact absurd e (uSpawnLoop_ne_pstart _ _))
        | (intro e; simpa using uSpawnLoop_tstart _ _ e))
    | (exact exitInv_subPStart h hp hh k hk (by assumption))
    | (exact exitInv_subTStart h hh k hk (by assumption)))

theorem exitInv_step {s s' : St} {a : Actor} {v : Variant} (hs : step s a v = some s')
    (hp : PidsInv s) (hh : HolderInv s) (h : ExitInv s) : ExitInv s' := by
  unfold step at hs
  cases a with
  | U k =>
    simp only [] at hs; split at hs
    · exact exitInv_stepU s s' k v (by assumption) hp hh h hs
    · cases hs
  | M => exact exitInv_stepM s s' v hp hh h hs
  | F => exact exitInv_stepF s s' v h hs
  | W p =>
    simp only [] at hs; split at hs
    · exact exitInv_stepW s s' p v hp (by assumption) h hs
    · cases hs

/-! ### the lock-holder invariant together with the exit-lock invariant -/

def holderOk'' (s : St) : Bool := holderOk' s && exitOk s

theorem holderOk''_init (cfg : Cfg) : holderOk'' (init cfg) = true := by
  unfold holderOk''; rw [holderOk'_init, ok_of_exitInv (exitInv_init cfg)]; rfl

/-- `holderOk''` is inductive over every step that is not a crash, provided the manager's step is not a `kill` of a
    worker that holds a lock -/
theorem holderOk''_step {s s' : St} {a : Actor} {v : Variant} (hv : v ≠ .crash) (hs : step s a v = some s')
    (hp : PidsInv s) (hk : KillSafe s) (h : holderOk'' s = true) : holderOk'' s' = true := by
  unfold holderOk'' at h ⊢
  simp only [Bool.and_eq_true] at h ⊢
  have he := exitInv_of_ok h.2
  have hh := holderInv_of_ok' hp h.1
  exact ⟨holderOk'_step hv hs hp hk (relExitSafe_of_exitInv he) h.1, ok_of_exitInv (exitInv_step hs hp hh he)⟩

theorem holderOk_of_ok'' {s : St} (h : holderOk'' s = true) : holderOk s = true := by
  unfold holderOk'' at h; simp only [Bool.and_eq_true] at h; exact holderOk_of_ok' h.1


/-- in a static pool (`staticOk` in the pre-state) no side hypothesis is left -/
theorem holderOk''_step_static {s s' : St} {a : Actor} {v : Variant} (hv : v ≠ .crash) (hs : step s a v = some s')
    (hp : PidsInv s) (hst : staticOk s = true) (h : holderOk'' s = true) : holderOk'' s' = true :=
  holderOk''_step hv hs hp (killSafe_of_staticOk hst) h


end LokyModel.Exec
