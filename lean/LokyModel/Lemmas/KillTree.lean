import LokyModel.KillTree
/-! helper lemmas for `Props/C02KillTree.lean` -/
namespace LokyModel.KillTree

/-- `x` is in the subtree of `p` (reflexive-transitive closure of the child relation) -/
inductive Desc (k : Kids) : Nat → Nat → Prop
  | refl (p : Nat) : Desc k p p
  | step {p c x : Nat} : c ∈ kidsOf k p → Desc k c x → Desc k p x

/-- `a` is killed strictly before `b` in the order `l` -/
def Before (a b : Nat) (l : List Nat) : Prop := ∃ l1 l2 l3, l = l1 ++ a :: l2 ++ b :: l3

theorem Before.infix {a b : Nat} {m : List Nat} (h : Before a b m) (u v : List Nat) :
    Before a b (u ++ m ++ v) := by
  obtain ⟨l1, l2, l3, rfl⟩ := h
  exact ⟨u ++ l1, l2, l3 ++ v, by simp [List.append_assoc]⟩

theorem flatMap_infix {f : Nat → List Nat} {c : Nat} : ∀ {ks : List Nat}, c ∈ ks →
    ∃ u v, ks.flatMap f = u ++ f c ++ v
  | [], h => by cases h
  | a :: t, h => by
    rcases List.mem_cons.1 h with rfl | h
    · exact ⟨[], t.flatMap f, by simp [List.flatMap_cons]⟩
    · obtain ⟨u, v, huv⟩ := flatMap_infix (f := f) h
      exact ⟨f a ++ u, v, by simp [List.flatMap_cons, huv, List.append_assoc]⟩

theorem posixOrder_succ (k : Kids) (fuel p : Nat) :
    posixOrder k (fuel + 1) p = (kidsOf k p).flatMap (fun c => posixOrder k fuel c) ++ [p] := rfl

/-- only members of the subtree are ever signalled -/
theorem mem_posixOrder_desc (k : Kids) : ∀ (fuel p x : Nat), x ∈ posixOrder k fuel p → Desc k p x
  | 0, _, _, h => by simp [posixOrder] at h
  | fuel + 1, p, x, h => by
    rw [posixOrder_succ, List.mem_append] at h
    rcases h with h | h
    · obtain ⟨c, hc, hx⟩ := List.mem_flatMap.1 h
      exact Desc.step hc (mem_posixOrder_desc k fuel c x hx)
    · simp at h; subst h; exact Desc.refl _

/-- with enough fuel every member of the subtree is signalled -/
theorem desc_mem_posixOrder (k : Kids) (rank : Nat → Nat)
    (hr : ∀ p c, c ∈ kidsOf k p → rank c < rank p) :
    ∀ (fuel p x : Nat), rank p < fuel → Desc k p x → x ∈ posixOrder k fuel p
  | 0, _, _, h, _ => by omega
  | fuel + 1, p, x, hf, hd => by
    rw [posixOrder_succ, List.mem_append]
    cases hd with
    | refl => right; simp
    | step hc hcx =>
      rename_i c
      left
      have := hr p c hc
      exact List.mem_flatMap.2 ⟨c, hc, desc_mem_posixOrder k rank hr fuel c x (by omega) hcx⟩

/-- the root of a call is the last one killed -/
theorem posixOrder_last (k : Kids) (fuel p : Nat) :
    ∃ pre, posixOrder k (fuel + 1) p = pre ++ [p] := ⟨_, posixOrder_succ k fuel p⟩

theorem before_in_posixOrder (k : Kids) (rank : Nat → Nat)
    (hr : ∀ p c, c ∈ kidsOf k p → rank c < rank p) :
    ∀ (fuel r p c : Nat), rank r < fuel → Desc k r p → c ∈ kidsOf k p →
      Before c p (posixOrder k fuel r)
  | 0, _, _, _, h, _, _ => by omega
  | fuel + 1, r, p, c, hf, hd, hc => by
    rw [posixOrder_succ]
    cases hd with
    | refl =>
      -- p = r: c's own call ends with c, inside the children's part
      have hrc := hr r c hc
      obtain ⟨u, v, huv⟩ := flatMap_infix (f := fun c => posixOrder k fuel c) hc
      have hfuel : ∃ f', fuel = f' + 1 := ⟨fuel - 1, by omega⟩
      obtain ⟨f', rfl⟩ := hfuel
      obtain ⟨pre, hpre⟩ := posixOrder_last k f' c
      refine ⟨u ++ pre, v, [], ?_⟩
      rw [huv]; simp only [hpre]; simp [List.append_assoc]
    | step hc' hd' =>
      rename_i c'
      have hrc := hr r c' hc'
      have ih := before_in_posixOrder k rank hr fuel c' p c (by omega) hd' hc
      obtain ⟨u, v, huv⟩ := flatMap_infix (f := fun c => posixOrder k fuel c) hc'
      rw [huv]
      have := ih.infix u (v ++ [r])
      simpa [List.append_assoc] using this

/-! ### `killAll` -/

theorem kill_running (s : Sys) (p x : Nat) :
    x ∈ (s.kill p).1.running ↔ (x ∈ s.running ∧ x ≠ p) := by
  unfold Sys.kill
  split
  · simp [List.mem_filter]
  · rename_i h
    simp only [List.contains_iff_mem] at h
    constructor
    · intro hx; exact ⟨hx, fun e => h (e ▸ hx)⟩
    · intro hx; exact hx.1

theorem killAll_running : ∀ (order : List Nat) (s : Sys) (x : Nat),
    x ∈ (killAll s order).2.running ↔ (x ∈ s.running ∧ x ∉ order)
  | [], s, x => by simp [killAll]
  | p :: ps, s, x => by
    simp only [killAll]
    rw [killAll_running ps, kill_running]
    simp only [List.mem_cons, not_or]
    constructor
    · rintro ⟨⟨h1, h2⟩, h3⟩; exact ⟨h1, h2, h3⟩
    · rintro ⟨h1, h2, h3⟩; exact ⟨⟨h1, h2⟩, h3⟩

theorem killAll_attempts : ∀ (order : List Nat) (s : Sys),
    (killAll s order).1.map (·.1) = order
  | [], _ => rfl
  | p :: ps, s => by simp [killAll, killAll_attempts ps]

theorem reap_running (s : Sys) (p : Nat) : (s.reap p).running = s.running := rfl

theorem reap_not_zombie (s : Sys) (p : Nat) : p ∉ (s.reap p).zombie := by
  simp [Sys.reap, List.mem_filter]

end LokyModel.KillTree
