import LokyModel.Lemmas.ExecLiveDCHolderBase
/-! `HolderInvD` over the steps of the feeder thread and of a worker (crash of a lock-free worker included; the idle
    worker's `eTry`/`eRel` take and release the process-management lock). -/
namespace LokyModel.Exec

set_option maxHeartbeats 4000000 in
theorem holderInvD_stepF (s s' : St) (v : Variant) (h : HolderInvD s) (hs : stepF s v = some s') : HolderInvD s' := by
  unfold stepF at hs
  crack
  all_goals (refine holderInvD_F h ?_ ?_ ?_ ?_ ?_ ?_ ?_ ?_ ?_ ?_ ?_ ?_ ?_ ?_ ?_ ?_)
  all_goals (first
    | rfl
    | (simp [*]; done)
    | (hpc; simp [Tri, inCqWF, inShutF', *]; done))

set_option maxHeartbeats 8000000 in
/-- a worker's step: an ordinary one, or its death at a point at which it holds no lock -/
theorem holderInvD_stepW (s s' : St) (p : Pid) (v : Variant) (hlf : v = .crash → lockFree (s.w p) = true)
    (h : HolderInvD s) (hs : stepW s p v = some s') : HolderInvD s' := by
  have hl1 : v = .crash → inRqW (s.w p) = false := by
    intro e; have := hlf e; simp only [lockFree, Bool.and_eq_true, Bool.not_eq_true'] at this; exact this.1.2
  have hl2 : v = .crash → inCqR (s.w p) = false := by
    intro e; have := hlf e; simp only [lockFree, Bool.and_eq_true, Bool.not_eq_true'] at this; exact this.1.1
  have hl3 : v = .crash → isERel (s.w p) = false := by
    intro e; have := hlf e; simp only [lockFree, Bool.and_eq_true, bne_iff_ne, ne_eq] at this
    have h3 := this.2
    cases hq : s.w p <;> simp_all [isERel]
  unfold stepW at hs
  crack
  all_goals (refine holderInvD_W h p ?_ ?_ ?_ ?_ ?_ ?_ ?_ ?_ ?_ ?_ ?_ ?_ ?_ ?_ ?_)
  all_goals (first
    | rfl
    | (simp; done)
    | (intro q hq; simp [wAfterStart_w_other, wGet_w_other, wDispatch_w_other, wAfterResult_w_other, setW_w_other, die_w_other, hq]; done)
    | (hpc; simp [Tri, inRqW, inCqR, isERel, *]; done)
    | (hpc; exact .inl ⟨rfl, rfl, by rw [hl1 rfl]; rfl⟩)
    | (hpc; exact .inl ⟨rfl, rfl, by rw [hl2 rfl]; rfl⟩)
    | (hpc; exact .inl ⟨rfl, rfl, by rw [hl3 rfl]; rfl⟩))

end LokyModel.Exec
