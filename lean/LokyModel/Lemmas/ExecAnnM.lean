import LokyModel.Lemmas.ExecAnnW
namespace LokyModel.Exec

theorem ann_move (s s' : St) (h : AnnInv s)
    (hw : ∀ q, q < s.nextPid → announced (s.w q) = true → announced (s'.w q) = true)
    (hnp : s.nextPid ≤ s'.nextPid)
    (hall : ∀ p, p ∈ s'.allPids → p < s'.nextPid)
    (hrq : ∀ r, r ∈ s'.rqPipe → r ∈ s.rqPipe)
    (hm : ∀ p, mPid s'.mpc = some p → mPid s.mpc = some p ∨ ∃ r, r ∈ s.rqPipe ∧ rPid r = some p) : AnnInv s' := by
  constructor
  · intro r p hr hp
    have := h.rq r p (hrq r hr) hp
    exact ⟨hw p this.2 this.1, Nat.lt_of_lt_of_le this.2 hnp⟩
  · intro p hp
    rcases hm p hp with e | ⟨r, hr, e⟩
    · have := h.m p e; exact ⟨hw p this.2 this.1, Nat.lt_of_lt_of_le this.2 hnp⟩
    · have := h.rq r p hr e; exact ⟨hw p this.2 this.1, Nat.lt_of_lt_of_le this.2 hnp⟩
  · exact hall

/-- continuations that choose a program counter holding no exit announcement -/
@[simp] theorem mPid_mAddFuel (n : Nat) (s : St) : mPid (mAddFuel n s).mpc = none := by
  induction n generalizing s with
  | zero => rfl
  | succ n ih => unfold mAddFuel; (repeat' split) <;> first | rfl | simp [*]
@[simp] theorem mPid_mAdd (s : St) : mPid (mAdd s).mpc = none := by unfold mAdd; simp
@[simp] theorem mPid_mAddF (s : St) : mPid (mAddF s).mpc = none := by
  rcases mAddF_mpc s with ⟨i, _, h⟩ | ⟨_, h, _⟩ | ⟨_, h, _⟩ <;> rw [h] <;> rfl
@[simp] theorem mPid_mJoinStart (s : St) : mPid (mJoinStart s).mpc = none := rfl
@[simp] theorem mPid_mKillNext (s : St) : mPid (mKillNext s).mpc = none := by unfold mKillNext; split <;> rfl
@[simp] theorem mPid_mAfterItem (s : St) : mPid (mAfterItem s).mpc = none := by
  unfold mAfterItem; split <;> first | rfl | simp
@[simp] theorem mPid_mDropRef (s : St) : mPid (mDropRef s).mpc = none := by
  unfold mDropRef; simp only []; split <;> first | rfl | simp
@[simp] theorem mPid_mRespawnCheck (s : St) : mPid (mRespawnCheck s).mpc = none := by
  unfold mRespawnCheck; simp only []; (repeat' split) <;> first | rfl | simp
@[simp] theorem mPid_mJoinClose (s : St) : mPid (mJoinClose s).mpc = none := rfl
@[simp] theorem mPid_mJoinLoop (s : St) (n a c) : mPid (mJoinLoop s n a c).mpc = none := by
  unfold mJoinLoop; split <;> first | rfl | simp
@[simp] theorem mPid_mAfterPut (s : St) (k n a c) : mPid (mAfterPut s k n a c).mpc = none := by
  unfold mAfterPut; split <;> first | rfl | simp
@[simp] theorem mPid_mAfterFlag (s : St) : mPid (mAfterFlag s).mpc = none := by
  unfold mAfterFlag; (repeat' split) <;> first | rfl | simp
@[simp] theorem mPid_mSpawnLoop (s : St) : mPid (mSpawnLoop s).mpc = none := by unfold mSpawnLoop; split <;> rfl
@[simp] theorem mPid_mJoinProcs (s : St) : mPid (mJoinProcs s).mpc = none := by unfold mJoinProcs; split <;> rfl
@[simp] theorem mPid_mRelExitNext (s : St) (ps n) : mPid (mRelExitNext s ps n).mpc = none := by
  unfold mRelExitNext; split <;> rfl
@[simp] theorem mPid_mAliveNext (s : St) (ps c n a b) : mPid (mAliveNext s ps c n a b).mpc = none := by
  unfold mAliveNext; split <;> rfl
theorem mPid_mProcess (s : St) (r : Option RMsg) (p : Pid) (h : mPid (mProcess s r).mpc = some p) :
    ∃ r', r = some r' ∧ rPid r' = some p := by
  unfold mProcess at h
  split at h
  · simp at h
  · simp at h
  · split at h <;> simp at h
  · rename_i q; simp [mPid] at h; subst h; exact ⟨_, rfl, rfl⟩

theorem mPid_clrRecv (k : AfterClear) : mPid (.clrRecv k) = mPid (.clrPoll k) := by
  cases k with
  | item r => cases r <;> rfl
  | broken b => rfl

/-- closes the side conditions of `ann_move` for a manager / feeder / user step that spawns nobody -/
macro "ann_simple" s:term "," h:term : tactic => `(tactic| (
  refine ann_move $s _ $h ?_ ?_ ?_ ?_ ?_
  · intro q _ hq; first | (simpa using hq; done) | (simp only [die_w, mKillNext_w, announced_upd]; split <;> first | rfl | exact hq)
  · simp
  · first | (simpa using AnnInv.lt $h; done) | (intro q hq; exact AnnInv.lt $h q (by simpa using hq))
  · intro r hr; first | (simpa using hr; done) | (simp_all; done)
  · intro q hq; first | (simp at hq; done) | (left; simpa using hq; done) | (simp_all [mPid]; done)))

end LokyModel.Exec
