import LokyModel.Lemmas.ExecLiveHolder
import LokyModel.ExecLiveDyn2
/-! `tRecvOk`: a worker that has polled the call pipe successfully under the read lock finds the message still there
    (only the holder of the read lock takes messages out of the pipe) — every run without crash steps. -/
namespace LokyModel.Exec

def TRecvInv (s : St) : Prop := ∀ p ∈ s.allPids, s.w p = .tRecv → s.cqPipe ≠ []

theorem tRecvOk_iff (s : St) : tRecvOk s = true ↔ TRecvInv s := by
  unfold tRecvOk TRecvInv
  rw [List.all_eq_true]
  constructor
  · intro h p hp hw
    have := h p hp
    simp [hw] at this
    exact this
  · intro h p hp
    by_cases hw : s.w p = .tRecv
    · have := h p hp hw
      simp [hw, this]
    · simp [hw]

theorem tRecvInv_init (cfg : Cfg) : TRecvInv (init cfg) := by
  intro p hp; simp [init] at hp

/-- nothing relevant changes: same workers at `tRecv` (or fewer), the pipe only grows -/
theorem tRecvInv_same (s s' : St) (h : TRecvInv s) (h1 : s'.allPids = s.allPids ∨ ∃ q, s'.allPids = s.allPids ++ [q] ∧ s'.w q ≠ .tRecv)
    (h2 : ∀ p ∈ s.allPids, s'.w p = .tRecv → s.w p = .tRecv) (h3 : s.cqPipe ≠ [] → s'.cqPipe ≠ []) : TRecvInv s' := by
  intro p hp hw
  rcases h1 with h1 | ⟨q, h1, hq⟩
  · rw [h1] at hp
    exact h3 (h p hp (h2 p hp hw))
  · rw [h1] at hp
    rcases List.mem_append.1 hp with hp | hp
    · exact h3 (h p hp (h2 p hp hw))
    · simp at hp; subst hp; exact absurd hw hq


set_option maxHeartbeats 4000000 in
theorem tRecvInv_stepF (s s' : St) (v : Variant) (h : TRecvInv s) (hs : stepF s v = some s') : TRecvInv s' := by
  unfold stepF at hs
  crack
  all_goals (refine tRecvInv_same s _ h (.inl ?_) ?_ ?_ <;> first
    | rfl | (simp; done) | (intro p hp hw; simpa using hw) | (intro x; simpa using x) | (intro x; simp; done))

set_option maxHeartbeats 8000000 in
theorem tRecvInv_stepU (s s' : St) (k : Nat) (v : Variant) (h : TRecvInv s) (hp : PidsInv s)
    (hs : stepU s k v = some s') : TRecvInv s' := by
  unfold stepU at hs
  crack
  all_goals (first
    | (refine tRecvInv_same s _ h (.inl ?_) ?_ ?_ <;> first
        | rfl | (simp; done) | (intro p hp hw; simpa using hw) | (intro x; simpa using x)
        | (unfold uDispatch; (repeat' split) <;> simp; done)
        | (intro p hp hw; revert hw; unfold uDispatch; (repeat' split) <;> simp; done)
        | (intro x; revert x; unfold uDispatch; (repeat' split) <;> simp; done))
    | (refine tRecvInv_same s _ h (.inr ⟨s.nextPid, ?_, ?_⟩) ?_ ?_
       · simp [spawn_allPids']
       · simp [spawn_w', upd]
       · intro p hpm hw
         have hlt := hp.lt p hpm
         have hne : p ≠ s.nextPid := fun e => by rw [e] at hlt; exact Nat.lt_irrefl _ hlt
         simpa [spawn_w', upd, hne] using hw
       · intro x; simpa using x))

set_option maxHeartbeats 8000000 in
theorem tRecvInv_stepM (s s' : St) (v : Variant) (h : TRecvInv s) (hp : PidsInv s)
    (hs : stepM s v = some s') : TRecvInv s' := by
  unfold stepM at hs
  crack
  all_goals (first
    | (refine tRecvInv_same s _ h (.inl ?_) ?_ ?_ <;> first
        | rfl | (simp; done) | (intro p hp hw; simpa using hw) | (intro x; simpa using x)
        | (intro p hpm hw; rename_i q _ _; by_cases e : p = q
           · subst e; simp [die, upd] at hw
           · simpa [die_w_other, e] using hw))
    | (refine tRecvInv_same s _ h (.inr ⟨s.nextPid, ?_, ?_⟩) ?_ ?_
       · simp [spawn_allPids']
       · simp [spawn_w', upd]
       · intro p hpm hw
         have hlt := hp.lt p hpm
         have hne : p ≠ s.nextPid := fun e => by rw [e] at hlt; exact Nat.lt_irrefl _ hlt
         simpa [spawn_w', upd, hne] using hw
       · intro x; simpa using x))


theorem inCqR_tRecv : inCqR .tRecv = true := rfl

theorem wGet_not_tRecv (s : St) (p : Pid) : (wGet s p).w p ≠ .tRecv := by
  unfold wGet; simp only [setW_w', upd_same']; split <;> simp
theorem wAfterStart_not_tRecv (s : St) (p : Pid) : (wAfterStart s p).w p ≠ .tRecv := by
  unfold wAfterStart; split
  · simp [setW_w', upd_same']
  · exact wGet_not_tRecv s p
theorem wDispatch_not_tRecv (s : St) (p : Pid) (m : CMsg) : (wDispatch s p m).w p ≠ .tRecv := by
  unfold wDispatch; (repeat' split) <;> simp [setW_w', upd_same']
theorem wAfterResult_not_tRecv (s : St) (p : Pid) : (wAfterResult s p).w p ≠ .tRecv := by
  unfold wAfterResult; simp only []
  (repeat' split) <;> first | exact wGet_not_tRecv _ p | simp [setW_w', upd_same']

set_option maxHeartbeats 8000000 in
theorem tRecvInv_stepW (s s' : St) (p : Pid) (v : Variant) (h : TRecvInv s) (hh : HolderInv s) (hpm : p ∈ s.allPids)
    (hs : stepW s p v = some s') : TRecvInv s' := by
  have hex : ∀ q, inCqR (s.w q) = true → s.oCqRlock = some (.W q) := fun q hq => hh.cqR.excl (.W q) hq
  unfold stepW at hs
  crack
  all_goals (
    intro q hq hw'
    by_cases e : q = p
    · subst e
      first
        | (simp [wAfterStart, wGet, wDispatch, wAfterResult, setW, die, upd] at hw'; done)
        | (simp [setW, die, upd] at hw' ⊢; assumption)
        | (exact absurd hw' (wGet_not_tRecv _ _))
        | (exact absurd hw' (wAfterStart_not_tRecv _ _))
        | (exact absurd hw' (wDispatch_not_tRecv _ _ _))
        | (exact absurd hw' (wAfterResult_not_tRecv _ _))
    · have hwq : s.w q = .tRecv := by
        simpa [wAfterStart_w_other, wGet_w_other, wDispatch_w_other, wAfterResult_w_other, setW_w_other, die_w_other, e]
          using hw'
      have hne := h q (by simpa using hq) hwq
      first
        | (simpa using hne)
        | (exfalso
           have h1 := hex q (by rw [hwq]; rfl)
           have h2 := hex p (by simp [*, inCqR])
           rw [h1] at h2
           injection h2 with h2; injection h2 with h2; exact e h2))


theorem tRecvInv_step {s s' : St} {a : Actor} {v : Variant} (hs : step s a v = some s') (hp : PidsInv s)
    (hh : HolderInv s) (h : TRecvInv s) : TRecvInv s' := by
  unfold step at hs
  cases a with
  | U k => simp only [] at hs; split at hs; exact tRecvInv_stepU s s' k v h hp hs; cases hs
  | M => exact tRecvInv_stepM s s' v h hp hs
  | F => exact tRecvInv_stepF s s' v h hs
  | W p => simp only [] at hs; split at hs; exact tRecvInv_stepW s s' p v h hh (by assumption) hs; cases hs

theorem tRecvOk_init (cfg : Cfg) : tRecvOk (init cfg) = true := (tRecvOk_iff _).2 (tRecvInv_init cfg)
theorem tRecvOk_step {s s' : St} {a : Actor} {v : Variant} (hs : step s a v = some s') (hp : PidsInv s)
    (hh : holderOk' s = true) (h : tRecvOk s = true) : tRecvOk s' = true :=
  (tRecvOk_iff _).2 (tRecvInv_step hs hp (holderInv_of_ok' hp hh) ((tRecvOk_iff _).1 h))

end LokyModel.Exec
