import LokyModel.Lemmas.ExecTokenM2
import LokyModel.Lemmas.ExecLen
namespace LokyModel.Exec

/-- `omega` after exposing that work ids / pids are natural numbers -/
macro "womega" : tactic => `(tactic| ((try simp only [Wid, Pid, Tid] at *); omega))

theorem widOfTask_lt (s : St) (t : Tid) (w : Wid) (h : widOfTask s t = some w) : w < s.taskOf.length := by
  unfold widOfTask at h
  simp only [Option.map_eq_some_iff] at h
  obtain ⟨⟨a, i⟩, hl, rfl⟩ := h
  have hm := List.mem_of_getLast? hl
  simp only [List.mem_filter] at hm
  have h2 := hm.1
  rw [List.mem_zipIdx_iff_getElem?] at h2
  simp only at h2
  have : i < (s.taskOf.take s.visible).length := by
    apply Decidable.byContradiction
    intro hn
    have := List.getElem?_eq_none (Nat.le_of_not_lt hn)
    simp_all
  rw [List.length_take] at this
  exact Nat.lt_of_lt_of_le this (Nat.min_le_right _ _)

theorem futOf_append (fs : List Fut) (x : Fut) (j : Wid) :
    (fs ++ [x]).getD j .pending = if j = fs.length then x else fs.getD j .pending := by
  simp only [List.getD_eq_getElem?_getD]
  by_cases h1 : j < fs.length
  · rw [List.getElem?_append_left h1]; simp [Nat.ne_of_lt h1]
  · by_cases h2 : j = fs.length
    · subst h2; simp
    · have : fs.length < j := by womega
      rw [List.getElem?_eq_none (by simp; womega), List.getElem?_eq_none (by womega)]; simp [h2]

/-- `submit` accepts: a fresh work id enters the work-id queue with a pending future -/
theorem tok_submit (s X : St) (h : TokInv s) (t : Tid)
    (hfr : X.allPids = s.allPids ∧ X.nextPid = s.nextPid ∧ X.queueCount = s.queueCount + 1 ∧
           X.futs = s.futs ++ [.pending] ∧ X.cancelOk = s.cancelOk ∧ X.execW = s.execW ∧ X.w = s.w ∧
           X.workIds = s.workIds ++ [s.queueCount] ∧ X.cqBuf = s.cqBuf ∧ X.fpc = s.fpc ∧ X.cqPipe = s.cqPipe ∧
           X.rqPipe = s.rqPipe ∧ X.mpc = s.mpc) : TokInv X := by
  obtain ⟨f1, f2, f3, f4, f5, f6, f7, f8, f9, f10, f11, f12, f13⟩ := hfr
  have hq := h.len
  have hfo : ∀ j, futOf X j = if j = s.futs.length then .pending else futOf s j := by
    intro j; simp only [futOf, f4]; exact futOf_append _ _ _
  have hpend : ∀ j, (futOf X j = .pending ∨ futOf X j = .cancelled) → (futOf s j = .pending ∨ futOf s j = .cancelled) := by
    intro j hj; rw [hfo] at hj
    split at hj
    · rename_i e; left; exact futOf_ge s j (by womega)
    · exact hj
  have e1 : ∀ j, preOut X j = preOut s j := by intro j; simp [preOut, *]
  have e2 : ∀ j, post X j = post s j := by intro j; simp [post, *]
  constructor
  · rw [f1]; exact h.pids_nodup
  · rw [f1, f2]; exact h.pids_lt
  · rw [f4, f3]; simp; exact hq
  · intro j hj
    rw [f4] at hj; simp at hj
    rw [f8, count_snoc]
    have := h.fresh j (by womega)
    have : ind s.queueCount j = 0 := by simp [ind]; womega
    womega
  · intro j
    rw [f8, count_snoc, e1, f6]
    have := h.once j
    by_cases hj : s.queueCount = j
    · subst hj
      have hp := h.undisp s.queueCount (Or.inl (futOf_ge s _ (by womega)))
      have := h.fresh s.queueCount (by womega)
      simp [ind]; womega
    · simp [ind, hj]; womega
  · intro j; rw [e2, f6]; exact h.postle j
  · intro j hj; rw [e1, e2, f6]; exact h.undisp j (hpend j hj)
  · intro j hj
    rw [f5] at hj
    have hc := h.cancelled j hj
    rw [hfo]
    split
    · rename_i e; rw [futOf_ge s j (by womega)] at hc; cases hc
    · exact hc

/-- `Future.cancel()` on a pending future -/
theorem tok_cancel (s X : St) (h : TokInv s) (w : Wid) (hw : w < s.futs.length)
    (hp : futOf s w = .pending ∨ futOf s w = .cancelled)
    (hfr : X.allPids = s.allPids ∧ X.nextPid = s.nextPid ∧ X.queueCount = s.queueCount ∧
           X.futs = s.futs.set w .cancelled ∧ X.cancelOk = s.cancelOk ++ [w] ∧ X.execW = s.execW ∧ X.w = s.w ∧
           X.workIds = s.workIds ∧ X.cqBuf = s.cqBuf ∧ X.fpc = s.fpc ∧ X.cqPipe = s.cqPipe ∧
           X.rqPipe = s.rqPipe ∧ X.mpc = s.mpc) : TokInv X := by
  obtain ⟨f1, f2, f3, f4, f5, f6, f7, f8, f9, f10, f11, f12, f13⟩ := hfr
  have hfo : ∀ j, futOf X j = if j = w ∧ w < s.futs.length then .cancelled else futOf s j := by
    intro j
    have := futOf_setFut s w .cancelled j
    simp only [futOf, setFut, f4] at this ⊢
    exact this
  have hpend : ∀ j, (futOf X j = .pending ∨ futOf X j = .cancelled) → (futOf s j = .pending ∨ futOf s j = .cancelled) := by
    intro j hj; rw [hfo] at hj
    split at hj
    · rename_i e; rw [e.1]; exact hp
    · exact hj
  have e1 : ∀ j, preOut X j = preOut s j := by intro j; simp [preOut, *]
  have e2 : ∀ j, post X j = post s j := by intro j; simp [post, *]
  constructor
  · rw [f1]; exact h.pids_nodup
  · rw [f1, f2]; exact h.pids_lt
  · rw [f4, f3]; simp; exact h.len
  · intro j hj; rw [f4] at hj; simp at hj; rw [f8]; exact h.fresh j hj
  · intro j; rw [f8, e1, f6]; exact h.once j
  · intro j; rw [e2, f6]; exact h.postle j
  · intro j hj; rw [e1, e2, f6]; exact h.undisp j (hpend j hj)
  · intro j hj
    rw [f5] at hj; simp at hj
    rw [hfo]
    by_cases e : j = w ∧ w < s.futs.length
    · rw [if_pos e]
    · rw [if_neg e]
      rcases hj with hj | hj
      · exact h.cancelled j hj
      · exact absurd ⟨hj, hw⟩ e

theorem tok_uDispatch (s : St) (k : Nat) (op : UOp) (h : TokInv s) (hl : LenInv s) : TokInv (uDispatch s k op) := by
  unfold uDispatch
  cases op with
  | cancel t =>
    simp only []
    split
    · rename_i w hw
      have hlt : w < s.futs.length := by
        have := widOfTask_lt s t w hw; unfold LenInv at hl; womega
      split
      · rename_i hp
        refine tok_cancel s _ h w hlt (Or.inl hp) ?_
        simp [setFut]
      · rename_i hp
        refine tok_cancel s _ h w hlt (Or.inr hp) ?_
        have : s.futs.set w .cancelled = s.futs := by
          apply List.ext_getElem?; intro j
          rw [List.getElem?_set]
          split
          · rename_i e; subst e
            simp only [futOf, List.getD_eq_getElem?_getD] at hp
            simp [hlt] at hp ⊢; exact hp.symm
          · rfl
        simp [this]
      · refine tok_congr s _ h ?_ ?_ <;> simp
    · refine tok_congr s _ h ?_ ?_ <;> simp
  | _ => simp only [] <;> (repeat' split) <;> (refine tok_congr s _ h ?_ ?_ <;> simp)

set_option maxHeartbeats 4000000 in
theorem tokInv_stepU (s s' : St) (k : Nat) (v : Variant) (h : TokInv s) (hl : LenInv s)
    (hs : stepU s k v = some s') : TokInv s' := by
  unfold stepU at hs
  crack_step
  all_goals (first
    | (refine tok_congr s _ h ?_ ?_ <;> simp <;> done)
    | (refine tok_congr s _ h ?_ ?_ <;> simp [mPreC, mPostC] <;> done)
    | (exact tok_uDispatch s k _ h hl)
    | (refine tok_submit s _ h ‹Tid› ?_; simp [h.len]; done)
    | (refine tok_congr (spawn s) _ (tok_spawn s h) ?_ ?_ <;> simp <;> done)
    | skip)

theorem tokInv_step {s s' : St} {a : Actor} {v : Variant} (h : TokInv s) (hl : LenInv s)
    (hs : step s a v = some s') : TokInv s' := by
  unfold step at hs
  cases a with
  | U k => simp only [] at hs; split at hs; exact tokInv_stepU s s' k v h hl hs; cases hs
  | M => exact tokInv_stepM s s' v h hs
  | F => exact tokInv_stepF s s' v h hs
  | W p => simp only [] at hs; split at hs; exact tokInv_stepW s s' p v h ‹_› hs; cases hs

theorem tokInv_reachable {cfg : Cfg} {s : St} (h : Reachable cfg s) : TokInv s := by
  induction h with
  | init => exact tokInv_init cfg
  | step hr hs ih => exact tokInv_step ih (lenInv_reachable hr) hs

end LokyModel.Exec
