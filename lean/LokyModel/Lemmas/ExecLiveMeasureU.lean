import LokyModel.Lemmas.ExecLiveMeasureBase
/-! `mu` decreases: steps of a user thread. -/
namespace LokyModel.Exec
set_option linter.unusedSimpArgs false

/-! ### the continuations leave the other threads alone -/

theorem uNext_upc_oth_mu (X : St) (k j : Nat) (h : j ≠ k) : (uNext X k).upc j = X.upc j := by
  unfold uNext; split <;> simp [setU, upd, h]
theorem uNext_uscript_oth_mu (X : St) (k j : Nat) (h : j ≠ k) : (uNext X k).uscript j = X.uscript j := by
  unfold uNext; split <;> simp [setU, upd, h]
theorem uRelease_upc_oth_mu (X : St) (k j : Nat) (h : j ≠ k) : (uRelease X k).upc j = X.upc j := by
  unfold uRelease; simp only []; split <;> simp [setU, upd, h, uNext_upc_oth_mu]
theorem uRelease_uscript_oth_mu (X : St) (k j : Nat) (h : j ≠ k) : (uRelease X k).uscript j = X.uscript j := by
  unfold uRelease; simp only []; split <;> simp [setU, upd, h, uNext_uscript_oth_mu]
theorem uSpawnLoop_upc_oth_mu (X : St) (k j : Nat) (h : j ≠ k) : (uSpawnLoop X k).upc j = X.upc j := by
  unfold uSpawnLoop; (repeat' split) <;> simp [setU, upd, h]
theorem uDispatch_upc_oth_mu (X : St) (k j : Nat) (op : UOp) (h : j ≠ k) : (uDispatch X k op).upc j = X.upc j := by
  unfold uDispatch
  (repeat' split) <;> simp [setU, upd, h, uNext_upc_oth_mu, uRelease_upc_oth_mu, setFut]
theorem uDispatch_uscript_oth_mu (X : St) (k j : Nat) (op : UOp) (h : j ≠ k) :
    (uDispatch X k op).uscript j = X.uscript j := by
  unfold uDispatch
  (repeat' split) <;> simp [setU, upd, h, uNext_uscript_oth_mu, uRelease_uscript_oth_mu, setFut]

/-! ### what the continuations do to `muU` -/

/-- `muU` of a state in which thread `k` is at a program counter of rank `r` -/
def muUr (X : St) (k r : Nat) : Nat :=
  r + 51 * (X.uscript k).length + mRank X + wSum X + 24 * X.workIds.length + 7 * X.wakeup +
  22 * (X.cfg.maxWorkers - X.allPids.length)

theorem uNext_le (X : St) (k : Nat) : muU (uNext X k) k ≤ muUr X k 0 := by
  unfold uNext
  split <;> simp [muU, muUr, uPot, setU, upd, uRank, mRank, wSum, *] <;> omega

theorem uRelease_le (X : St) (k : Nat) : muU (uRelease X k) k ≤ muUr X k 10 := by
  unfold uRelease
  simp only []
  split
  · simp [muU, muUr, uPot, setU, upd, uRank, mRank, wSum]
  · refine Nat.le_trans (uNext_le _ k) ?_
    simp [muU, muUr, uPot, setU, upd, uRank, mRank, wSum]

theorem uSpawnLoop_le (X : St) (k : Nat) : muU (uSpawnLoop X k) k ≤ muUr X k 23 := by
  unfold uSpawnLoop
  (repeat' split) <;> simp [muU, muUr, uPot, setU, upd, uRank, mRank, wSum]

attribute [local irreducible] muU muUr uNext uRelease uSpawnLoop

theorem uDispatch_le (X : St) (k : Nat) (op : UOp) : muU (uDispatch X k op) k ≤ muUr X k 49 := by
  unfold uDispatch
  (repeat' split)
  all_goals (first
    | (simp [muU, muUr, uPot, setU, upd, uRank, mRank, wSum]; done)
    | (refine Nat.le_trans (uNext_le _ k) ?_; simp [muU, muUr, uPot, setU, upd, uRank, mRank, wSum, setFut]; done)
    | (refine Nat.le_trans (uRelease_le _ k) ?_; simp [muU, muUr, uPot, setU, upd, uRank, mRank, wSum]; done))

attribute [local irreducible] uDispatch mu spawn

local macro "ub" t:term : tactic =>
  `(tactic| (refine Nat.lt_of_le_of_lt $t ?_; simp [muU, muUr, uPot, setU, upd, uRank, mRank, wSum, *] <;> omega))

set_option maxHeartbeats 8000000 in
theorem mu_stepU (s s' : St) (k : Nat) (v : Variant) (hk : k < s.cfg.scripts.length) (hp : PidsInv s)
    (hsp : s.upc k = .subPStart → s.allPids.length < s.cfg.maxWorkers)
    (htn : s.upc k = .subTStart → s.mpc = .none)
    (hs : stepU s k v = some s') : mu s' < mu s := by
  have hwk := mRankOf_wk s.cfg.maxWorkers s.wakeup (s.wakeup + 1) s.procDict.length s.mpc (by omega)
  unfold stepU at hs
  crack
  all_goals (refine mu_U s _ k hk ?_ ?_ ?_ ?_ ?_ ?_ ?_)
  all_goals (first
    | (simp; done)
    | (intro j hj
       simp [uNext_upc_oth_mu, uNext_uscript_oth_mu, uRelease_upc_oth_mu, uRelease_uscript_oth_mu, uSpawnLoop_upc_oth_mu,
         uDispatch_upc_oth_mu, uDispatch_uscript_oth_mu, setU, upd, hj]; done)
    | (simp [muU, muUr, uPot, setU, upd, uRank, mRank, wSum, *]; done)
    | (simp [muU, muUr, uPot, setU, upd, uRank, mRank, wSum, *]; omega)
    | (ub (uNext_le _ _); done)
    | (ub (uRelease_le _ _); done)
    | (ub (uSpawnLoop_le _ _); done)
    | (ub (uDispatch_le _ _ _); done)
    | skip)
  all_goals (first
    -- a worker process is started
    | (refine Nat.lt_of_le_of_lt (uSpawnLoop_le _ _) ?_
       have h1 := wSum_spawn s hp
       have h2 := mRankOf_pd s.cfg.maxWorkers s.wakeup s.procDict.length s.mpc
       have h3 := hsp ‹_›
       simp [muU, muUr, uPot, setU, upd, uRank, mRank, spawn_allPids', spawn_procDict', *]
       omega)
    -- the manager thread is started
    | (have hm := htn ‹_›
       simp [muU, muUr, uPot, setU, upd, uRank, mRank, mRankOf, wSum, *] <;> omega))

end LokyModel.Exec
