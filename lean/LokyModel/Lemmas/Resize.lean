import LokyModel.Resize
/-!
# Helper lemmas for the `_resize` program-counter machine (M1Z)

Phase rank (monotone along every run), where each label can be emitted from, counters of the sentinel section, the
snapshot invariant of the arrival wait, list-run / stream-run correspondence.  Everything is for ALL environment
streams `E : Nat → Env`.
-/
namespace LokyModel.Resize

/-- unfold one step of the machine completely -/
macro "nx" : tactic =>
  `(tactic| (simp only [next, jobStep, spawnStep, scanStep, sentStep, arrStep] <;> (repeat' split)))

/-- phase of the call; never decreases -/
def rank : Pc → Nat
  | .entry => 0 | .locked => 1 | .jobWait => 2 | .mgmtHeld => 3 | .scan .. => 4
  | .sentAcq _ => 5 | .sentFed _ => 5 | .depart => 6 | .shutHeld => 7 | .spawnAcq => 8 | .spawned => 8
  | .woke => 9 | .arrive => 10 | .arrScan .. => 10 | .done => 11

theorem rank_step (new : Nat) (pc : Pc) (e : Env) : rank pc ≤ rank (next new pc e).2 := by
  cases pc <;> nx <;> simp [rank]

theorem rank_done {pc : Pc} : rank pc = 11 ↔ pc = .done := by
  cases pc <;> simp [rank]

section stream
variable (new : Nat) (E : Nat → Env)

@[simp] theorem st_zero : st new E 0 = .entry := rfl
theorem st_succ (n : Nat) : st new E (n + 1) = (next new (st new E n) (E n)).2 := rfl
theorem lb_eq (n : Nat) : lb new E n = (next new (st new E n) (E n)).1 := rfl

theorem rank_succ (n : Nat) : rank (st new E n) ≤ rank (st new E (n + 1)) := by
  rw [st_succ]; exact rank_step ..

theorem rank_mono {n m : Nat} (h : n ≤ m) : rank (st new E n) ≤ rank (st new E m) := by
  induction m with
  | zero => have : n = 0 := by omega
            subst this; exact Nat.le_refl _
  | succ m ih =>
    by_cases hm : n = m + 1
    · subst hm; exact Nat.le_refl _
    · exact Nat.le_trans (ih (by omega)) (rank_succ new E m)

theorem done_stays {n m : Nat} (h : n ≤ m) (hd : st new E n = .done) : st new E m = .done := by
  have h1 := rank_mono new E h
  rw [hd] at h1
  have h2 : rank (st new E m) ≤ 11 := by cases st new E m <;> simp [rank]
  exact rank_done.mp (Nat.le_antisymm h2 h1)

end stream

/-! ### where each label comes from (one step) -/

theorem pstart_iff (new : Nat) (pc : Pc) (e : Env) : (next new pc e).1 = .pstart ↔ pc = .spawnAcq := by
  cases pc <;> nx <;> simp

theorem acqExit_from {new : Nat} {pc : Pc} {e : Env} {p : Nat} (h : (next new pc e).1 = .acqExit p) :
    (pc = .shutHeld ∧ flagged e = false ∨ pc = .spawned) ∧ p = e.nextPid ∧ e.procs.length < new
      ∧ (next new pc e).2 = .spawnAcq := by
  revert h; cases pc <;> nx <;> simp_all <;> omega

theorem sendWakeup_from {new : Nat} {pc : Pc} {e : Env} (h : (next new pc e).1 = .sendWakeup) :
    (pc = .shutHeld ∧ flagged e = false ∨ pc = .spawned) ∧ new ≤ e.procs.length ∧ (next new pc e).2 = .woke := by
  revert h; cases pc <;> nx <;> simp_all <;> omega

theorem woke_iff (new : Nat) (pc : Pc) (e : Env) : (next new pc e).2 = .woke ↔ (next new pc e).1 = .sendWakeup := by
  cases pc <;> nx <;> simp

theorem relShut_from {new : Nat} {pc : Pc} {e : Env} (h : (next new pc e).1 = .relShut) :
    (pc = .shutHeld ∧ flagged e = true ∨ pc = .woke) ∧ (next new pc e).2 = .arrive := by
  revert h; cases pc <;> nx <;> simp_all

theorem acqShut_from {new : Nat} {pc : Pc} {e : Env} (h : (next new pc e).1 = .acqShut) :
    pc = .depart ∧ (e.procs.length ≤ new ∨ e.broken = true) ∧ (next new pc e).2 = .shutHeld := by
  revert h; cases pc <;> nx <;> simp_all
  rename_i h
  by_cases hl : new < e.procs.length
  · exact Or.inr (h hl)
  · exact Or.inl (by omega)

theorem shutHeld_iff (new : Nat) (pc : Pc) (e : Env) : (next new pc e).2 = .shutHeld ↔ (next new pc e).1 = .acqShut := by
  cases pc <;> nx <;> simp

theorem acqCqSem_from {new : Nat} {pc : Pc} {e : Env} (h : (next new pc e).1 = .acqCqSem) :
    3 ≤ rank pc ∧ rank pc ≤ 5 := by
  revert h; cases pc <;> nx <;> simp [rank]

theorem relMgmt_to {new : Nat} {pc : Pc} {e : Env} (h : (next new pc e).1 = .relMgmt) :
    (next new pc e).2 = .depart := by
  revert h; cases pc <;> nx <;> simp

theorem acqMgmt_to {new : Nat} {pc : Pc} {e : Env} (h : (next new pc e).1 = .acqMgmt) :
    (next new pc e).2 = .mgmtHeld ∧ rank pc ≤ 2 := by
  revert h; cases pc <;> nx <;> simp [rank]

/-- the management section is entered only through `acquire(mgmt,B)` -/
theorem into_mgmt {new : Nat} {pc : Pc} {e : Env} (h1 : rank pc ≤ 2) (h2 : 3 ≤ rank (next new pc e).2)
    (h3 : rank (next new pc e).2 ≤ 10) : (next new pc e).1 = .acqMgmt := by
  revert h1 h2 h3; cases pc <;> nx <;> simp [rank]

theorem relExec_to {new : Nat} {pc : Pc} {e : Env} (h : (next new pc e).1 = .relExec) :
    (next new pc e).2 = .done ∧ (pc = .locked ∨ rank pc = 10) := by
  revert h; cases pc <;> nx <;> simp [rank]

theorem ret_iff (new : Nat) (pc : Pc) (e : Env) : (next new pc e).1 = .ret ↔ pc = .done := by
  cases pc <;> nx <;> simp

theorem done_iff (new : Nat) (pc : Pc) (e : Env) :
    (next new pc e).2 = .done ↔ ((next new pc e).1 = .relExec ∨ pc = .done) := by
  cases pc <;> nx <;> simp

/-! ### the shut section: who may spawn (C10R-1), the wake-up (C10R-2) -/

def inSpawn : Pc → Bool
  | .spawnAcq | .spawned | .woke => true
  | _ => false

theorem into_spawn {new : Nat} {pc : Pc} {e : Env} (h : inSpawn (next new pc e).2 = true) :
    inSpawn pc = true ∨ (pc = .shutHeld ∧ flagged e = false) := by
  revert h; cases pc <;> nx <;> simp_all [inSpawn]

section stream
variable (new : Nat) (E : Nat → Env)

/-- while the thread is in the spawn loop (or has just sent the wake-up), the observation it made right after
    `acquire(shut,B)` was not flagged -/
theorem spawn_inv (n : Nat) (h : inSpawn (st new E n) = true) :
    ∃ j, j < n ∧ lb new E j = .acqShut ∧ flagged (E (j + 1)) = false := by
  induction n with
  | zero => simp [inSpawn] at h
  | succ n ih =>
    rw [st_succ] at h
    rcases into_spawn h with h1 | ⟨h1, h2⟩
    · obtain ⟨j, hj, hl, hf⟩ := ih h1
      exact ⟨j, by omega, hl, hf⟩
    · cases n with
      | zero => simp at h1
      | succ k =>
        refine ⟨k, by omega, ?_, h2⟩
        rw [st_succ] at h1
        exact (shutHeld_iff ..).mp h1

theorem acqShut_not_lt {i j : Nat} (hi : lb new E i = .acqShut) (hj : lb new E j = .acqShut) : ¬ i < j := by
  intro hlt
  have h1 : (next new (st new E i) (E i)).2 = .shutHeld := (acqShut_from hi).2.2
  have h2 : st new E j = .depart := (acqShut_from hj).1
  have h3 := rank_mono new E (n := i + 1) (m := j) (by omega)
  rw [st_succ, h1, h2] at h3
  simp [rank] at h3

/-- `acquire(shut,B)` is announced at most once in a call -/
theorem acqShut_unique {i j : Nat} (hi : lb new E i = .acqShut) (hj : lb new E j = .acqShut) : i = j := by
  have := acqShut_not_lt new E hi hj
  have := acqShut_not_lt new E hj hi
  omega

/-! ### the sentinel section (C10R-3, C10R-put) -/

/-- number of posted sentinels among the first `n` operations: `acquire(cq.sem,B,T)` that ended `ok` (the variant
    is reported by the observation that follows the operation) -/
def puts : Nat → Nat
  | 0 => 0
  | n + 1 => puts n + if lb new E n = .acqCqSem ∧ (E (n + 1)).lastTimeout = false then 1 else 0

/-- number of `acquire(cq.sem,B,T)` announced among the first `n` operations, whatever their outcome -/
def attempts : Nat → Nat
  | 0 => 0
  | n + 1 => attempts n + if lb new E n = .acqCqSem then 1 else 0

end stream

/-- what the observation `e`, made when the thread is at `pc`, answers to the pending `alive()` of the counting scan
    (the `lastAlive` input that follows the announcement) -/
def answer (pc : Pc) (e : Env) : Nat :=
  match pc with
  | .scan _ _ _ => if e.lastAlive then 1 else 0
  | _ => 0

/-- the places of the sentinel loop where the flags may be consulted -/
def inPutLoop : Pc → Bool
  | .scan _ [] _ | .sentAcq _ | .sentFed _ => true
  | _ => false

section stream
variable (new : Nat) (E : Nat → Env)

/-- number of members the counting scan (under the management lock) has been told are alive, in the
    observations `E 1 … E n` -/
def reported : Nat → Nat
  | 0 => 0
  | n + 1 => reported n + answer (st new E (n + 1)) (E (n + 1))

/-- no observation made inside the sentinel loop before the `n`-th operation was flagged -/
def clean : Nat → Bool
  | 0 => true
  | n + 1 => clean n && !(inPutLoop (st new E n) && flagged (E n))

end stream

def SentInv (new : Nat) (pc : Pc) (e : Env) (rep sen : Nat) (c : Bool) : Prop :=
  match pc with
  | .entry | .locked | .jobWait | .mgmtHeld => rep = 0 ∧ sen = 0
  | .scan _ _ cnt => rep = cnt + (if e.lastAlive then 1 else 0) ∧ sen = 0
  | .sentAcq rem =>
      sen + rem + (if e.lastTimeout then 1 else 0) ≤ rep - new ∧
      (c = true → sen + rem + (if e.lastTimeout then 1 else 0) = rep - new)
  | .sentFed rem => sen + rem ≤ rep - new ∧ (c = true → sen + rem = rep - new)
  | _ => sen ≤ rep - new ∧ (c = true → sen = rep - new)

theorem sentInv_sentStep {new : Nat} {e e' : Env} {rep sen rem : Nat} {c c' : Bool}
    (h1 : sen + rem ≤ rep - new) (h2 : c = true → sen + rem = rep - new)
    (hc : c' = true → c = true ∧ (rem ≠ 0 → flagged e = false)) :
    SentInv new (sentStep rem e).2 e' (rep + answer (sentStep rem e).2 e')
      (sen + if (sentStep rem e).1 = .acqCqSem ∧ e'.lastTimeout = false then 1 else 0) c' := by
  cases rem with
  | zero =>
    simp only [sentStep, SentInv, answer]
    refine ⟨by simpa using h1, fun h => ?_⟩
    have := h2 (hc h).1
    simpa using this
  | succ r =>
    by_cases hf : flagged e = true
    · simp only [sentStep, hf, if_true, SentInv, answer]
      refine ⟨by simp; omega, fun h => ?_⟩
      have := (hc h).2 (by omega)
      rw [hf] at this; cases this
    · simp only [sentStep, hf, SentInv, answer]
      by_cases ht : e'.lastTimeout = true
      · simp [ht]
        exact ⟨by omega, fun h => by have := h2 (hc h).1; omega⟩
      · simp [ht]
        exact ⟨by omega, fun h => by have := h2 (hc h).1; omega⟩

theorem sentInv_scanStep {new : Nat} {e e' : Env} {rep sen cnt : Nat} {c c' : Bool} (todo : List Nat)
    (h1 : rep = cnt) (h2 : sen = 0) (hc : c' = true → c = true ∧ (todo = [] → cnt - new ≠ 0 → flagged e = false)) :
    SentInv new (scanStep new todo cnt e).2 e' (rep + answer (scanStep new todo cnt e).2 e')
      (sen + if (scanStep new todo cnt e).1 = .acqCqSem ∧ e'.lastTimeout = false then 1 else 0) c' := by
  cases todo with
  | nil =>
    exact sentInv_sentStep (c := c) (by omega) (fun _ => by omega) (fun h => ⟨(hc h).1, (hc h).2 rfl⟩)
  | cons p ps => simp [scanStep, SentInv, answer, h1, h2]

theorem sentInv_step {new : Nat} {pc : Pc} {e e' : Env} {rep sen : Nat} {c : Bool} (h : SentInv new pc e rep sen c) :
    SentInv new (next new pc e).2 e' (rep + answer (next new pc e).2 e')
      (sen + if (next new pc e).1 = .acqCqSem ∧ e'.lastTimeout = false then 1 else 0)
      (c && !(inPutLoop pc && flagged e)) := by
  cases pc with
  | mgmtHeld =>
    refine sentInv_scanStep (c := c) _ h.1 h.2 (fun hc => ⟨by simpa [inPutLoop] using hc, fun _ h0 => ?_⟩)
    exact absurd (Nat.zero_sub new) h0
  | scan cur todo cnt =>
    refine sentInv_scanStep (c := c) _ h.1 h.2 (fun hc => ⟨by simp at hc; exact hc.1, fun ht _ => ?_⟩)
    subst ht
    exact (by simpa [inPutLoop] using hc : c = true ∧ flagged e = false).2
  | sentAcq rem =>
    have hc' : (c && !(inPutLoop (.sentAcq rem) && flagged e)) = true → c = true ∧ flagged e = false := by
      simp [inPutLoop]
    by_cases ht : e.lastTimeout = true
    · have hnext : next new (.sentAcq rem) e = sentStep (rem + 1) e := by simp [next, ht]
      rw [hnext]
      simp only [SentInv, ht, if_true] at h
      exact sentInv_sentStep (c := c) (by omega) (fun hc => by have := h.2 hc; omega)
        (fun hc => ⟨(hc' hc).1, fun _ => (hc' hc).2⟩)
    · simp only [SentInv, ht] at h
      by_cases hfd : e.feeder = true
      · have hnext : next new (.sentAcq rem) e = sentStep rem e := by simp [next, ht, hfd]
        rw [hnext]
        exact sentInv_sentStep (c := c) (by simpa using h.1) (fun hc => by simpa using h.2 hc)
          (fun hc => ⟨(hc' hc).1, fun _ => (hc' hc).2⟩)
      · have hnext : next new (.sentAcq rem) e = (.tstartF, .sentFed rem) := by simp [next, ht, hfd]
        rw [hnext]
        simp only [SentInv, answer]
        refine ⟨by simpa using h.1, fun hc => ?_⟩
        simpa using h.2 (hc' hc).1
  | sentFed rem =>
    have hc' : (c && !(inPutLoop (.sentFed rem) && flagged e)) = true → c = true ∧ flagged e = false := by
      simp [inPutLoop]
    exact sentInv_sentStep (c := c) h.1 h.2 (fun hc => ⟨(hc' hc).1, fun _ => (hc' hc).2⟩)
  | _ => revert h; nx <;> simp_all [SentInv, answer, inPutLoop]

section stream
variable (new : Nat) (E : Nat → Env)

theorem sent_inv (n : Nat) :
    SentInv new (st new E n) (E n) (reported new E n) (puts new E n) (clean new E n) := by
  induction n with
  | zero => simp [SentInv, reported, puts]
  | succ n ih => exact sentInv_step ih

/-- nothing flagged in the sentinel loop: the run is clean -/
theorem clean_of (h : ∀ i, inPutLoop (st new E i) = true → flagged (E i) = false) (n : Nat) : clean new E n = true := by
  induction n with
  | zero => rfl
  | succ n ih =>
    simp only [clean, ih, Bool.true_and]
    cases hp : inPutLoop (st new E n) with
    | false => simp
    | true => simp [h n hp]

/-- the management section is entered through `acquire(mgmt,B)` only -/
theorem mgmt_entered (n : Nat) (h1 : 3 ≤ rank (st new E n)) (h2 : rank (st new E n) ≤ 10) :
    ∃ a, a < n ∧ lb new E a = .acqMgmt := by
  induction n with
  | zero => simp [rank] at h1
  | succ n ih =>
    by_cases h : 3 ≤ rank (st new E n)
    · have := rank_succ new E n
      obtain ⟨a, ha, hl⟩ := ih h (by omega)
      exact ⟨a, by omega, hl⟩
    · refine ⟨n, by omega, ?_⟩
      rw [st_succ] at h1 h2
      exact into_mgmt (pc := st new E n) (by omega) h1 h2

end stream

/-! ### the arrival wait (C10R-5) -/

theorem into_arrScan {new : Nat} {pc : Pc} {e : Env} {cur : Nat} {todo : List Nat}
    (h : (next new pc e).2 = .arrScan cur todo) :
    (pc = .arrive ∧ flagged e = false ∧ pids e = cur :: todo) ∨
    (∃ c, pc = .arrScan c (cur :: todo) ∧ e.lastAlive = true) := by
  revert h; cases pc <;> nx <;> simp_all

theorem relExec_from {new : Nat} {pc : Pc} {e : Env} (h : (next new pc e).1 = .relExec) :
    (pc = .locked ∧ (new = e.mw ∨ e.started = false)) ∨
    (pc = .arrive ∧ (flagged e = true ∨ pids e = [])) ∨
    (∃ cur, pc = .arrScan cur [] ∧ e.lastAlive = true) := by
  revert h; cases pc <;> nx <;> simp_all

section stream
variable (new : Nat) (E : Nat → Env)

/-- In the middle of an `all(...)` of the arrival wait: the snapshot being scanned is the registered set of the
    observation `E j` made at the start of THIS iteration (after the last `sleep` / `release(shut)`), that
    observation was not flagged, and every `alive()` call made so far in this iteration returned true (the result of
    the `i`-th call is the `lastAlive` of the observation `E (j+1+i)`). -/
theorem arr_inv (n : Nat) (cur : Nat) (todo : List Nat) (h : st new E n = .arrScan cur todo) :
    ∃ j seen, j < n ∧ st new E j = .arrive ∧ flagged (E j) = false ∧ pids (E j) = seen ++ cur :: todo ∧
      n = j + seen.length + 1 ∧ ∀ i, i < seen.length → (E (j + 1 + i)).lastAlive = true := by
  induction n generalizing cur todo with
  | zero => simp at h
  | succ n ih =>
    rw [st_succ] at h
    rcases into_arrScan h with ⟨h1, h2, h3⟩ | ⟨c, h1, h2⟩
    · exact ⟨n, [], by omega, h1, h2, by simpa using h3, by simp, by simp⟩
    · obtain ⟨j, seen, hj, hs, hf, hp, hn, ha⟩ := ih c (cur :: todo) h1
      refine ⟨j, seen ++ [c], by omega, hs, hf, by simpa using hp, by simp; omega, ?_⟩
      intro i hi
      by_cases hlt : i < seen.length
      · exact ha i hlt
      · have hi' : i = seen.length := by simp at hi; omega
        have : j + 1 + i = n := by omega
        rw [this]; exact h2

end stream

/-! ### finite runs -/

@[simp] theorem run_nil (new : Nat) (pc : Pc) : run new pc [] = ([], pc) := rfl
theorem run_cons (new : Nat) (pc : Pc) (e : Env) (es : List Env) :
    run new pc (e :: es) = ((next new pc e).1 :: (run new (next new pc e).2 es).1, (run new (next new pc e).2 es).2) := rfl

theorem run_append (new : Nat) (pc : Pc) (a b : List Env) :
    run new pc (a ++ b) = ((run new pc a).1 ++ (run new (run new pc a).2 b).1, (run new (run new pc a).2 b).2) := by
  induction a generalizing pc with
  | nil => simp
  | cons e es ih => simp [run_cons, ih]

/-- a finite run is the prefix of the stream run -/
theorem run_stream (new : Nat) (pc0 : Pc) (E : Nat → Env) (n : Nat) :
    run new pc0 ((List.range n).map E) = ((List.range n).map (lbFrom new pc0 E), stFrom new pc0 E n) := by
  induction n with
  | zero => simp [stFrom]
  | succ n ih => simp [List.range_succ, run_append, ih, run_cons, stFrom, lbFrom]

theorem run_done (new : Nat) (es : List Env) : run new .done es = (List.replicate es.length .ret, .done) := by
  induction es with
  | nil => rfl
  | cons e es ih => simp [run_cons, next, ih, List.replicate_succ]

/-- the answers an `all(...)` over the snapshot gets, one observation (its `lastAlive`) per call -/
def scanOK : List Nat → List Env → Bool
  | [], _ => true
  | _ :: ps, e :: es => e.lastAlive && scanOK ps es
  | _ :: _, [] => false

theorem scanOK_iff : ∀ (l : List Nat) (es : List Env), es.length = l.length →
    (scanOK l es = true ↔ ∀ e ∈ es, e.lastAlive = true) := by
  intro l
  induction l with
  | nil => intro es h; have : es = [] := by simpa using h
           subst this; simp [scanOK]
  | cons p ps ih =>
    intro es h
    match es, h with
    | e :: es', h =>
      have := ih es' (by simpa using h)
      simp [scanOK, this]

theorem arrScan_run (new : Nat) (cur : Nat) (todo : List Nat) (es : List Env) (hlen : es.length = todo.length + 1) :
    run new (.arrScan cur todo) es = (todo.map .alive ++ [.relExec], .done) ↔ scanOK (cur :: todo) es = true := by
  induction todo generalizing cur es with
  | nil =>
    match es, hlen with
    | [e], _ =>
      by_cases h : e.lastAlive = true <;> simp [run_cons, next, arrStep, scanOK, h]
  | cons p ps ih =>
    match es, hlen with
    | e :: es', hlen =>
      have hlen' : es'.length = ps.length + 1 := by simpa using hlen
      have := ih p es' hlen'
      by_cases h : e.lastAlive = true
      · simp only [run_cons, next, h, if_true, arrStep, List.map_cons, List.cons_append, Prod.mk.injEq,
          List.cons.injEq, true_and]
        rw [scanOK, h, Bool.true_and, ← this]
        constructor
        · intro ⟨h1, h2⟩; exact Prod.ext h1 h2
        · intro h1; rw [h1]; exact ⟨rfl, rfl⟩
      · simp [run_cons, next, scanOK, h]

/-! ### the quiet environment (C10R-6) -/

section stream
variable (new : Nat) (E : Nat → Env)

/-- *Quiet environment* for the second half of the call.  Nothing is assumed about the job wait, the counting scan,
    the sentinels or how the pool shrinks during the departure wait. -/
structure Quiet : Prop where
  /-- nobody flags the executor: at the three places where the flags are read -/
  noFlag : ∀ n, (st new E n = .depart ∨ st new E n = .shutHeld ∨ st new E n = .arrive) → flagged (E n) = false
  /-- the thread's own write `_max_workers = new` (made under the management lock) is visible afterwards -/
  ownMw : ∀ n, 6 ≤ rank (st new E n) → rank (st new E n) ≤ 10 → (E n).mw = new
  /-- from the observation that ends the departure wait until the arrival wait, the registered set changes only by
      this thread's own `pstart`s, each registering one worker -/
  lenFrozen : ∀ n, (lb new E n = .acqShut ∨ (7 ≤ rank (st new E n) ∧ rank (st new E n) ≤ 9)) →
      (E (n + 1)).procs.length = (E n).procs.length + if lb new E n = .pstart then 1 else 0
  /-- during the arrival wait the registered set does not change -/
  arrStay : ∀ n, rank (st new E n) = 10 → pids (E (n + 1)) = pids (E n)

end stream

def LenInv (new : Nat) (pc : Pc) (e : Env) : Prop :=
  match pc with
  | .shutHeld => e.procs.length ≤ new
  | .spawnAcq => e.procs.length < new
  | .spawned => e.procs.length ≤ new
  | .woke | .arrive | .arrScan _ _ => e.procs.length = new
  | _ => True

theorem lenInv_step {new : Nat} {pc : Pc} {e e' : Env} (h : LenInv new pc e)
    (hf : pc = .depart ∨ pc = .shutHeld ∨ pc = .arrive → flagged e = false)
    (hl : ((next new pc e).1 = .acqShut ∨ (7 ≤ rank pc ∧ rank pc ≤ 10)) →
      e'.procs.length = e.procs.length + if (next new pc e).1 = .pstart then 1 else 0) :
    LenInv new (next new pc e).2 e' := by
  by_cases hlow : rank pc ≤ 5
  · have h6 : rank (next new pc e).2 ≤ 6 ∨ (next new pc e).2 = .done := by
      revert hlow; clear h hf hl; cases pc <;> nx <;> simp [rank]
    rcases h6 with h6 | h6
    · revert h6; cases (next new pc e).2 <;> simp [rank, LenInv]
    · rw [h6]; simp [LenInv]
  · revert h hf hl hlow
    cases pc <;> nx <;> simp_all [LenInv, rank, flagged] <;> grind

section stream
variable {new : Nat} {E : Nat → Env}

theorem len_inv (hq : Quiet new E) (n : Nat) : LenInv new (st new E n) (E n) := by
  induction n with
  | zero => simp [LenInv]
  | succ n ih =>
    refine lenInv_step (pc := st new E n) ih (hq.noFlag n) ?_
    intro h
    by_cases h10 : rank (st new E n) = 10
    · have h1 : (next new (st new E n) (E n)).1 ≠ .pstart := by
        intro hp; rw [(pstart_iff ..).mp hp] at h10; simp [rank] at h10
      have h2 := congrArg List.length (hq.arrStay n h10)
      simp only [pids, List.length_map] at h2
      simp [h1, h2]
    · exact hq.lenFrozen n (by rcases h with h | h; exact Or.inl h; exact Or.inr (by omega))

/-- under a quiet environment the registered set is the same all along the arrival wait -/
theorem pids_const (hq : Quiet new E) {j : Nat} (hj : rank (st new E j) = 10) :
    ∀ d, rank (st new E (j + d)) = 10 → pids (E (j + d)) = pids (E j) := by
  intro d
  induction d with
  | zero => intro _; rfl
  | succ d ih =>
    intro h
    have h1 := rank_mono new E (n := j) (m := j + d) (by omega)
    have h2 := rank_mono new E (n := j + d) (m := j + (d + 1)) (by omega)
    have h10 : rank (st new E (j + d)) = 10 := by omega
    have := hq.arrStay (j + d) h10
    rw [← ih h10, ← this]; rfl

end stream

/-! ### the eventually helpful environment (C10R-7) -/

section stream
variable (new : Nat) (E : Nat → Env)

/-- From observation `N` on the environment lets every loop of the call finish. -/
structure Helpful (N : Nat) : Prop where
  /-- no job is pending -/
  pend : ∀ n, N ≤ n → (E n).pending = 0
  /-- the pool is not larger than asked for, or the executor is broken -/
  dep : ∀ n, N ≤ n → (E n).procs.length ≤ new ∨ (E n).broken = true
  /-- every `alive()` call of the arrival scan returns true, or the executor is flagged -/
  allAlive : ∀ n, N ≤ n → (∃ cur todo, st new E n = .arrScan cur todo) →
      (E n).lastAlive = true ∨ flagged (E n) = true
  /-- the put time-outs have stopped, or a flag is raised -/
  putOk : ∀ n, N ≤ n → (∃ r, st new E n = .sentAcq r) → (E n).lastTimeout = false ∨ flagged (E n) = true
  /-- the registered set has grown when the thread looks again after an own `pstart`
      (`E n` decided that spawn, `E (n+2)` is the observation after the `pstart`) -/
  grow : ∀ n, N ≤ n → lb new E (n + 1) = .pstart → (E n).procs.length < (E (n + 2)).procs.length
  /-- during the arrival wait the flags are never reset -/
  stick : ∀ n, N ≤ n → rank (st new E n) = 10 → flagged (E n) = true → flagged (E (n + 1)) = true

/-- the call returns -/
def Reach : Prop := ∃ m, st new E m = .done

end stream

section stream
variable {new : Nat} {E : Nat → Env} {N : Nat}

theorem step_eq {n : Nat} {pc : Pc} (h : st new E n = pc) : st new E (n + 1) = (next new pc (E n)).2 := by
  rw [st_succ, h]

theorem reach_arrive_flagged (_H : Helpful new E N) {n : Nat} (hs : st new E n = .arrive) (hf : flagged (E n) = true) :
    Reach new E := ⟨n + 1, by rw [step_eq hs]; simp [next, hf]⟩

/-- the arrival scan, wherever it is (also a scan that was already under way at `N`) -/
theorem reach_arrScan (H : Helpful new E N) : ∀ (todo : List Nat) (cur n : Nat), N ≤ n →
    st new E n = .arrScan cur todo → Reach new E := by
  intro todo
  induction todo with
  | nil =>
    intro cur n hn hs
    by_cases ha : (E n).lastAlive = true
    · exact ⟨n + 1, by rw [step_eq hs]; simp [next, ha, arrStep]⟩
    · have hf : flagged (E n) = true := by
        rcases H.allAlive n hn ⟨cur, [], hs⟩ with h | h
        · exact absurd h ha
        · exact h
      have h1 : st new E (n + 1) = .arrive := by rw [step_eq hs]; simp [next, ha]
      exact reach_arrive_flagged H h1 (H.stick n hn (by rw [hs]; rfl) hf)
  | cons p ps ih =>
    intro cur n hn hs
    by_cases ha : (E n).lastAlive = true
    · exact ih p (n + 1) (by omega) (by rw [step_eq hs]; simp [next, ha, arrStep])
    · have hf : flagged (E n) = true := by
        rcases H.allAlive n hn ⟨cur, p :: ps, hs⟩ with h | h
        · exact absurd h ha
        · exact h
      have h1 : st new E (n + 1) = .arrive := by rw [step_eq hs]; simp [next, ha]
      exact reach_arrive_flagged H h1 (H.stick n hn (by rw [hs]; rfl) hf)

theorem reach_arrive (H : Helpful new E N) {n : Nat} (hn : N ≤ n) (hs : st new E n = .arrive) : Reach new E := by
  by_cases hf : flagged (E n) = true
  · exact reach_arrive_flagged H hs hf
  · cases hp : pids (E n) with
    | nil => exact ⟨n + 1, by rw [step_eq hs]; simp [next, hf, hp, arrStep]⟩
    | cons p ps =>
      exact reach_arrScan H ps p (n + 1) (by omega) (by rw [step_eq hs]; simp [next, hf, hp, arrStep])

theorem reach_woke (H : Helpful new E N) {n : Nat} (hn : N ≤ n) (hs : st new E n = .woke) : Reach new E :=
  reach_arrive H (n := n + 1) (by omega) (by rw [step_eq hs]; simp [next])

/-- the spawn loop, by the number of workers still missing -/
theorem reach_spawn (H : Helpful new E N) : ∀ (k n : Nat), N ≤ n → new - (E n).procs.length ≤ k →
    (st new E n = .spawned ∨ st new E n = .shutHeld ∧ flagged (E n) = false) → Reach new E := by
  intro k
  induction k with
  | zero =>
    intro n hn hk hs
    have hlt : ¬ (E n).procs.length < new := by omega
    have h1 : st new E (n + 1) = .woke := by
      rcases hs with hs | ⟨hs, hf⟩
      · rw [step_eq hs]; simp [next, spawnStep, hlt]
      · rw [step_eq hs]; simp [next, spawnStep, hlt, hf]
    exact reach_woke H (by omega) h1
  | succ k ih =>
    intro n hn hk hs
    by_cases hlt : (E n).procs.length < new
    · have h1 : st new E (n + 1) = .spawnAcq := by
        rcases hs with hs | ⟨hs, hf⟩
        · rw [step_eq hs]; simp [next, spawnStep, hlt]
        · rw [step_eq hs]; simp [next, spawnStep, hlt, hf]
      have h2 : st new E (n + 2) = .spawned := by rw [step_eq h1]; simp [next]
      have h3 : lb new E (n + 1) = .pstart := (pstart_iff ..).mpr h1
      have h4 := H.grow n hn h3
      exact ih (n + 2) (by omega) (by omega) (Or.inl h2)
    · have h1 : st new E (n + 1) = .woke := by
        rcases hs with hs | ⟨hs, hf⟩
        · rw [step_eq hs]; simp [next, spawnStep, hlt]
        · rw [step_eq hs]; simp [next, spawnStep, hlt, hf]
      exact reach_woke H (by omega) h1

theorem reach_shutHeld (H : Helpful new E N) {n : Nat} (hn : N ≤ n) (hs : st new E n = .shutHeld) : Reach new E := by
  by_cases hf : flagged (E n) = true
  · exact reach_arrive H (n := n + 1) (by omega) (by rw [step_eq hs]; simp [next, hf])
  · exact reach_spawn H _ n hn (Nat.le_refl _) (Or.inr ⟨hs, by simpa using hf⟩)

theorem reach_spawned (H : Helpful new E N) {n : Nat} (hn : N ≤ n) (hs : st new E n = .spawned) : Reach new E :=
  reach_spawn H _ n hn (Nat.le_refl _) (Or.inl hs)

theorem reach_spawnAcq (H : Helpful new E N) {n : Nat} (hn : N ≤ n) (hs : st new E n = .spawnAcq) : Reach new E :=
  reach_spawned H (n := n + 1) (by omega) (by rw [step_eq hs]; simp [next])

theorem reach_depart (H : Helpful new E N) {n : Nat} (hn : N ≤ n) (hs : st new E n = .depart) : Reach new E := by
  refine reach_shutHeld H (n := n + 1) (by omega) ?_
  rw [step_eq hs]
  rcases H.dep n hn with h | h
  · simp only [next]; rw [if_neg (by simp; intro h'; omega)]
  · simp [next, h]

theorem reach_sentAcq (H : Helpful new E N) {r : Nat}
    (ih : ∀ n, N ≤ n → st new E (n + 1) = (sentStep r (E n)).2 → Reach new E)
    {n : Nat} (hn : N ≤ n) (hs : st new E n = .sentAcq r) : Reach new E := by
  by_cases ht : (E n).lastTimeout = true
  · have hf : flagged (E n) = true := by
      rcases H.putOk n hn ⟨r, hs⟩ with h | h
      · rw [ht] at h; cases h
      · exact h
    exact reach_depart H (n := n + 1) (by omega) (by rw [step_eq hs]; simp [next, ht, sentStep, hf])
  · by_cases hfd : (E n).feeder = true
    · exact ih n hn (by rw [step_eq hs]; simp [next, ht, hfd])
    · have h2 : st new E (n + 1) = .sentFed r := by rw [step_eq hs]; simp [next, ht, hfd]
      exact ih (n + 1) (by omega) (by rw [step_eq h2]; simp [next])

/-- the rest of the sentinel loop -/
theorem reach_sentStep (H : Helpful new E N) : ∀ (rem n : Nat), N ≤ n →
    st new E (n + 1) = (sentStep rem (E n)).2 → Reach new E := by
  intro rem
  induction rem with
  | zero => intro n hn hs; exact reach_depart H (n := n + 1) (by omega) hs
  | succ r ih =>
    intro n hn hs
    by_cases hf : flagged (E n) = true
    · exact reach_depart H (n := n + 1) (by omega) (by rw [hs]; simp [sentStep, hf])
    · exact reach_sentAcq H ih (n := n + 1) (by omega) (by rw [hs]; simp [sentStep, hf])

/-- the rest of the counting scan -/
theorem reach_scanStep (H : Helpful new E N) : ∀ (todo : List Nat) (cnt n : Nat), N ≤ n →
    st new E (n + 1) = (scanStep new todo cnt (E n)).2 → Reach new E := by
  intro todo
  induction todo with
  | nil => intro cnt n hn hs; exact reach_sentStep H _ n hn hs
  | cons p ps ih =>
    intro cnt n hn hs
    have hs' : st new E (n + 1) = .scan p ps cnt := hs
    exact ih _ (n + 1) (by omega) (by rw [step_eq hs']; rfl)

theorem reach_mgmtHeld (H : Helpful new E N) {n : Nat} (hn : N ≤ n) (hs : st new E n = .mgmtHeld) : Reach new E :=
  reach_scanStep H (pids (E n)) 0 n hn (by rw [step_eq hs]; rfl)

theorem reach_jobStep (H : Helpful new E N) {n : Nat} (hn : N ≤ n) (hs : st new E (n + 1) = (jobStep (E n)).2) :
    Reach new E := by
  refine reach_mgmtHeld H (n := n + 1) (by omega) ?_
  rw [hs]; simp [jobStep, H.pend n hn]

/-- from wherever the call is at `N`, it returns -/
theorem reach_any (H : Helpful new E N) : Reach new E := by
  cases hs : st new E N with
  | entry =>
    have h1 : st new E (N + 1) = .locked := by rw [step_eq hs]; simp [next]
    by_cases hr : new = (E (N + 1)).mw ∨ (E (N + 1)).started = false
    · refine ⟨N + 2, ?_⟩
      rw [step_eq h1]; simp only [next]
      rcases hr with hr | hr
      · rw [if_pos hr]
      · by_cases hm : new = (E (N + 1)).mw
        · rw [if_pos hm]
        · rw [if_neg hm]; simp [hr]
    · refine reach_jobStep H (n := N + 1) (by omega) ?_
      rw [step_eq h1]; simp only [next]
      rw [if_neg (fun h => hr (Or.inl h)), if_neg (by simp; cases hst : Env.started _ <;> simp_all)]
  | locked =>
    by_cases hr : new = (E N).mw ∨ (E N).started = false
    · refine ⟨N + 1, ?_⟩
      rw [step_eq hs]; simp only [next]
      rcases hr with hr | hr
      · rw [if_pos hr]
      · by_cases hm : new = (E N).mw
        · rw [if_pos hm]
        · rw [if_neg hm]; simp [hr]
    · refine reach_jobStep H (n := N) (Nat.le_refl _) ?_
      rw [step_eq hs]; simp only [next]
      rw [if_neg (fun h => hr (Or.inl h)), if_neg (by simp; cases hst : Env.started _ <;> simp_all)]
  | jobWait => exact reach_jobStep H (n := N) (Nat.le_refl _) (by rw [step_eq hs]; simp [next])
  | mgmtHeld => exact reach_mgmtHeld H (Nat.le_refl _) hs
  | scan cur todo cnt => exact reach_scanStep H todo _ N (Nat.le_refl _) (by rw [step_eq hs]; rfl)
  | sentAcq rem => exact reach_sentAcq H (reach_sentStep H rem) (Nat.le_refl _) hs
  | sentFed rem => exact reach_sentStep H rem N (Nat.le_refl _) (by rw [step_eq hs]; rfl)
  | depart => exact reach_depart H (Nat.le_refl _) hs
  | shutHeld => exact reach_shutHeld H (Nat.le_refl _) hs
  | spawnAcq => exact reach_spawnAcq H (Nat.le_refl _) hs
  | spawned => exact reach_spawned H (Nat.le_refl _) hs
  | woke => exact reach_woke H (Nat.le_refl _) hs
  | arrive => exact reach_arrive H (Nat.le_refl _) hs
  | arrScan cur todo => exact reach_arrScan H todo cur N (Nat.le_refl _) hs
  | done => exact ⟨N, hs⟩

end stream

/-! ### small facts for the property file -/

theorem relMgmt_rank {new : Nat} {E : Nat → Env} {i n : Nat} (h : lb new E i = .relMgmt) (hin : i < n) :
    6 ≤ rank (st new E n) := by
  have h1 : (next new (st new E i) (E i)).2 = .depart := relMgmt_to h
  have h2 := rank_mono new E (n := i + 1) (m := n) (by omega)
  rw [st_succ, h1] at h2
  exact h2

theorem no_put_when_flagged {new : Nat} {pc : Pc} {e : Env} (hf : flagged e = true) :
    (next new pc e).1 ≠ .acqCqSem := by
  cases pc <;> nx <;> simp_all

theorem ofList_ge {es : List Env} {d : Env} {n : Nat} (h : es.length ≤ n) : ofList es d n = d := by
  simp [ofList, List.getD, List.getElem?_eq_none h]

/-- literal reading of the fixed sentinel loop: a flagged observation skips ONE sentinel without any operation and
    the `for` goes on to the next one, which re-checks the flags on the same observation -/
def sentStepLit (rem : Nat) (e : Env) : Label × Pc :=
  match rem with
  | 0 => (.relMgmt, .depart)
  | r + 1 => if flagged e then sentStepLit r e else (.acqCqSem, .sentAcq r)

/-- … which is what the model's `sentStep` computes in one go -/
theorem sentStepLit_eq (rem : Nat) (e : Env) : sentStepLit rem e = sentStep rem e := by
  induction rem with
  | zero => rfl
  | succ r ih =>
    by_cases hf : flagged e = true
    · rw [sentStepLit, if_pos hf, ih]
      cases r <;> simp [sentStep, hf]
    · simp [sentStepLit, sentStep, hf]

/-- without put time-outs every announced `acquire(cq.sem,B,T)` posts its sentinel -/
theorem attempts_eq_puts {new : Nat} {E : Nat → Env} (h : ∀ n, (E n).lastTimeout = false) (n : Nat) :
    attempts new E n = puts new E n := by
  induction n with
  | zero => rfl
  | succ n ih => simp [attempts, puts, ih, h (n + 1)]

end LokyModel.Resize
