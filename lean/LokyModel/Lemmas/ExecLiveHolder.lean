import LokyModel.Lemmas.ExecLiveBase
import LokyModel.Lemmas.ExecLivePids
/-! `holderOk` (a taken lock has a holder that is inside the critical section) is inductive once it is strengthened by
    its converse (an actor inside a critical section is the recorded owner) and by "the manager is about to start the
    feeder thread only while that thread does not exist".  No crash steps; the manager's `kill` must not hit a
    worker that holds a lock (`KillSafe`). -/
namespace LokyModel.Exec

/-! ### the strengthening -/

/-- the manager is about to start the feeder thread -/
def mTStart : MPc → Bool
  | .addTStart _ | .addTStartF _ | .jPutTStart _ _ _ _ => true
  | _ => false

def exRqW (s : St) : Bool := s.allPids.all fun p => !inRqW (s.w p) || s.oRqWlock == some (.W p)
def exCqR (s : St) : Bool := s.allPids.all fun p => !inCqR (s.w p) || s.oCqRlock == some (.W p)
def exCqW (s : St) : Bool := !inCqWF s.fpc || s.oCqWlock == some .F
def exGshut (s : St) : Bool := (List.range s.cfg.scripts.length).all fun k => !inGshutU (s.upc k) || s.oGshut == some (.U k)
def exMgmt (s : St) : Bool :=
  ((List.range s.cfg.scripts.length).all fun k => !inMgmtU' (s.upc k) || s.oMgmt == some (.U k)) &&
  (!inMgmtM' s.mpc || s.oMgmt == some .M) &&
  (s.allPids.all fun p => !(s.w p == .eRel) || s.oMgmt == some (.W p))
def exShut (s : St) : Bool :=
  ((List.range s.cfg.scripts.length).all fun k => !inShutU' (s.upc k) || s.oShut == some (.U k)) &&
  (!inShutM' s.mpc || s.oShut == some .M) &&
  (!inShutF' s.fpc || s.oShut == some .F)

/-- converse of `holderOk`: whoever is inside a critical section is the recorded owner of the lock; and the manager
    starts the feeder thread only once -/
def holderExcl (s : St) : Bool :=
  exRqW s && exCqR s && exCqW s && exGshut s && exMgmt s && exShut s && (!mTStart s.mpc || s.fpc == .none)

def holderOk' (s : St) : Bool := holderOk s && holderExcl s

/-- the manager's `kill` does not hit a worker that holds a lock (D5: a killed worker keeps the lock) -/
def KillSafe (s : St) : Prop :=
  ∀ p, s.mpc = .kill p → inRqW (s.w p) = false ∧ inCqR (s.w p) = false ∧ s.w p ≠ .eRel

/-- the manager does not die of `ValueError: semaphore or lock released too many times` inside the first lock section of
    `join_executor_internals` (in the model the dead thread would keep the process-management lock) -/
def RelExitSafe (s : St) : Prop :=
  ∀ p rest n, s.mpc = .jRelExit (p :: rest) n → s.exitL p = 0

/-! ### one binary lock -/

structure LockOk (v : Nat) (o : Option Actor) (sec : Actor → Bool) : Prop where
  free : o = none → v = 1
  held : ∀ a, o = some a → v = 0 ∧ sec a = true
  excl : ∀ a, sec a = true → o = some a

/-- what a step of actor `a` does to one lock: nothing, acquire, or release -/
def Tri (v v' : Nat) (o o' : Option Actor) (a : Actor) (b b' : Bool) : Prop :=
  (v' = v ∧ o' = o ∧ b' = b) ∨ (0 < v ∧ v' = v - 1 ∧ o' = some a ∧ b' = true) ∨
  (b = true ∧ v' = v + 1 ∧ o' = none ∧ b' = false)

theorem LockOk.tri {v v' : Nat} {o o' : Option Actor} {sec sec' : Actor → Bool} (h : LockOk v o sec) (a : Actor)
    (hoth : ∀ b, b ≠ a → sec' b = sec b) (hc : Tri v v' o o' a (sec a) (sec' a)) : LockOk v' o' sec' := by
  obtain ⟨hf, hh, he⟩ := h
  rcases hc with ⟨h1, h2, h3⟩ | ⟨h1, h2, h3, h4⟩ | ⟨h1, h2, h3, h4⟩
  · subst h1; subst h2
    have hall : ∀ b, sec' b = sec b := by
      intro b; by_cases e : b = a
      · subst e; exact h3
      · exact hoth b e
    refine ⟨hf, ?_, ?_⟩
    · intro b hb; rw [hall]; exact hh b hb
    · intro b hb; rw [hall] at hb; exact he b hb
  · have ho : o = none := by
      cases ho : o with
      | none => rfl
      | some b => have := (hh b ho).1; omega
    have hv := hf ho
    have hnone : ∀ b, sec b = false := by
      intro b
      cases hb : sec b with
      | false => rfl
      | true => have := he b hb; rw [ho] at this; cases this
    refine ⟨?_, ?_, ?_⟩
    · intro e; rw [h3] at e; cases e
    · intro b hb; rw [h3] at hb; cases hb; exact ⟨by omega, h4⟩
    · intro b hb
      by_cases e : b = a
      · subst e; exact h3
      · rw [hoth b e, hnone b] at hb; cases hb
  · have ho := he a h1
    have hv := (hh a ho).1
    refine ⟨?_, ?_, ?_⟩
    · intro _; omega
    · intro b hb; rw [h3] at hb; cases hb
    · intro b hb
      by_cases e : b = a
      · subst e; rw [h4] at hb; cases hb
      · rw [hoth b e] at hb
        have := he b hb
        rw [ho] at this
        exact absurd (Option.some.inj this).symm e

theorem LockOk.same {v : Nat} {o : Option Actor} {sec sec' : Actor → Bool} (h : LockOk v o sec)
    (hs : ∀ b, sec' b = sec b) : LockOk v o sec' :=
  h.tri .M (fun b _ => hs b) (.inl ⟨rfl, rfl, hs _⟩)

/-! ### who is inside which critical section -/

def secRqW (s : St) : Actor → Bool
  | .W p => inRqW (s.w p)
  | _ => false
def secCqR (s : St) : Actor → Bool
  | .W p => inCqR (s.w p)
  | _ => false
def secCqW (s : St) : Actor → Bool
  | .F => inCqWF s.fpc
  | _ => false
def secGshut (s : St) : Actor → Bool
  | .U k => inGshutU (s.upc k) && decide (k < s.cfg.scripts.length)
  | _ => false
def secMgmt (s : St) : Actor → Bool
  | .U k => inMgmtU' (s.upc k) && decide (k < s.cfg.scripts.length)
  | .M => inMgmtM' s.mpc
  | .W p => s.w p == .eRel
  | .F => false
def secShut (s : St) : Actor → Bool
  | .U k => inShutU' (s.upc k) && decide (k < s.cfg.scripts.length)
  | .M => inShutM' s.mpc
  | .F => inShutF' s.fpc
  | .W _ => false

structure HolderInv (s : St) : Prop where
  rqW : LockOk s.rqWlock s.oRqWlock (secRqW s)
  cqR : LockOk s.cqRlock s.oCqRlock (secCqR s)
  cqW : LockOk s.cqWlock s.oCqWlock (secCqW s)
  gshut : LockOk s.gshut s.oGshut (secGshut s)
  mgmt : LockOk s.mgmt s.oMgmt (secMgmt s)
  shut : LockOk s.shut s.oShut (secShut s)
  tstart : mTStart s.mpc = true → s.fpc = .none

/-! ### the Bool form and the Prop form say the same -/

theorem holderInv_of_ok' {s : St} (hp : PidsInv s) (h : holderOk' s = true) : HolderInv s := by
  unfold holderOk' holderOk holderExcl at h
  simp only [Bool.and_eq_true] at h
  obtain ⟨⟨⟨⟨⟨⟨a1, a2⟩, a3⟩, a4⟩, a5⟩, a6⟩, ⟨⟨⟨⟨⟨e1, e2⟩, e3⟩, e4⟩, e5⟩, e6⟩, e7⟩ := h
  have hdead : ∀ p, p ∉ s.allPids → s.w p = .dead := hp.dead
  refine ⟨⟨?_, ?_, ?_⟩, ⟨?_, ?_, ?_⟩, ⟨?_, ?_, ?_⟩, ⟨?_, ?_, ?_⟩, ⟨?_, ?_, ?_⟩, ⟨?_, ?_, ?_⟩, ?_⟩
  -- rqW
  · intro ho; rw [ho] at a1; simpa using a1
  · intro a ha; rw [ha] at a1; cases a <;> simp_all [secRqW]
  · intro a ha
    cases a with
    | W p =>
      simp only [secRqW] at ha
      by_cases hm : p ∈ s.allPids
      · unfold exRqW at e1; simp only [List.all_eq_true] at e1
        have := e1 p hm; simp_all
      · rw [hdead p hm] at ha; simp [inRqW] at ha
    | _ => simp [secRqW] at ha
  -- cqR
  · intro ho; rw [ho] at a2; simpa using a2
  · intro a ha; rw [ha] at a2; cases a <;> simp_all [secCqR]
  · intro a ha
    cases a with
    | W p =>
      simp only [secCqR] at ha
      by_cases hm : p ∈ s.allPids
      · unfold exCqR at e2; simp only [List.all_eq_true] at e2
        have := e2 p hm; simp_all
      · rw [hdead p hm] at ha; simp [inCqR] at ha
    | _ => simp [secCqR] at ha
  -- cqW
  · intro ho; rw [ho] at a3; simpa using a3
  · intro a ha; rw [ha] at a3; cases a <;> simp_all [secCqW]
  · intro a ha
    cases a with
    | F => simp only [secCqW] at ha; unfold exCqW at e3; simp_all
    | _ => simp [secCqW] at ha
  -- gshut
  · intro ho; rw [ho] at a4; simpa using a4
  · intro a ha; rw [ha] at a4; cases a <;> simp_all [secGshut]
  · intro a ha
    cases a with
    | U k =>
      simp only [secGshut, Bool.and_eq_true, decide_eq_true_eq] at ha
      unfold exGshut at e4; simp only [List.all_eq_true, List.mem_range] at e4
      have := e4 k ha.2; simp_all
    | _ => simp [secGshut] at ha
  -- mgmt
  · intro ho; rw [ho] at a5; simpa using a5
  · intro a ha; rw [ha] at a5; cases a <;> simp_all [secMgmt]
  · intro a ha
    unfold exMgmt at e5; simp only [Bool.and_eq_true, List.all_eq_true, List.mem_range] at e5
    obtain ⟨⟨e5u, e5m⟩, e5w⟩ := e5
    cases a with
    | U k =>
      simp only [secMgmt, Bool.and_eq_true, decide_eq_true_eq] at ha
      have := e5u k ha.2; simp_all
    | M => simp only [secMgmt] at ha; simp_all
    | W p =>
      simp only [secMgmt] at ha
      by_cases hm : p ∈ s.allPids
      · have := e5w p hm; simp_all
      · rw [hdead p hm] at ha; simp at ha
    | F => simp [secMgmt] at ha
  -- shut
  · intro ho; rw [ho] at a6; simpa using a6
  · intro a ha; rw [ha] at a6; cases a <;> simp_all [secShut]
  · intro a ha
    unfold exShut at e6; simp only [Bool.and_eq_true, List.all_eq_true, List.mem_range] at e6
    obtain ⟨⟨e6u, e6m⟩, e6f⟩ := e6
    cases a with
    | U k =>
      simp only [secShut, Bool.and_eq_true, decide_eq_true_eq] at ha
      have := e6u k ha.2; simp_all
    | M => simp only [secShut] at ha; simp_all
    | F => simp only [secShut] at ha; simp_all
    | W p => simp [secShut] at ha
  · intro ht; simp_all


theorem ok'_of_holderInv {s : St} (h : HolderInv s) : holderOk' s = true := by
  obtain ⟨h1, h2, h3, h4, h5, h6, h7⟩ := h
  unfold holderOk' holderOk holderExcl
  simp only [Bool.and_eq_true]
  refine ⟨⟨⟨⟨⟨⟨?_, ?_⟩, ?_⟩, ?_⟩, ?_⟩, ?_⟩, ⟨⟨⟨⟨⟨?_, ?_⟩, ?_⟩, ?_⟩, ?_⟩, ?_⟩, ?_⟩
  · cases ho : s.oRqWlock with
    | none => have := h1.free ho; simp [this]
    | some a => obtain ⟨x, y⟩ := h1.held a ho; cases a <;> simp_all [secRqW]
  · cases ho : s.oCqRlock with
    | none => have := h2.free ho; simp [this]
    | some a => obtain ⟨x, y⟩ := h2.held a ho; cases a <;> simp_all [secCqR]
  · cases ho : s.oCqWlock with
    | none => have := h3.free ho; simp [this]
    | some a => obtain ⟨x, y⟩ := h3.held a ho; cases a <;> simp_all [secCqW]
  · cases ho : s.oGshut with
    | none => have := h4.free ho; simp [this]
    | some a => obtain ⟨x, y⟩ := h4.held a ho; cases a <;> simp_all [secGshut]
  · cases ho : s.oMgmt with
    | none => have := h5.free ho; simp [this]
    | some a => obtain ⟨x, y⟩ := h5.held a ho; cases a <;> simp_all [secMgmt]
  · cases ho : s.oShut with
    | none => have := h6.free ho; simp [this]
    | some a => obtain ⟨x, y⟩ := h6.held a ho; cases a <;> simp_all [secShut]
  · unfold exRqW; simp only [List.all_eq_true]; intro p _
    cases hb : inRqW (s.w p) with
    | false => simp
    | true => have := h1.excl (.W p) (by simpa [secRqW] using hb); simp [this]
  · unfold exCqR; simp only [List.all_eq_true]; intro p _
    cases hb : inCqR (s.w p) with
    | false => simp
    | true => have := h2.excl (.W p) (by simpa [secCqR] using hb); simp [this]
  · unfold exCqW
    cases hb : inCqWF s.fpc with
    | false => simp
    | true => have := h3.excl .F (by simpa [secCqW] using hb); simp [this]
  · unfold exGshut; simp only [List.all_eq_true, List.mem_range]; intro k hk
    cases hb : inGshutU (s.upc k) with
    | false => simp
    | true => have := h4.excl (.U k) (by simp [secGshut, hb, hk]); simp [this]
  · unfold exMgmt; simp only [Bool.and_eq_true, List.all_eq_true, List.mem_range]
    refine ⟨⟨?_, ?_⟩, ?_⟩
    · intro k hk
      cases hb : inMgmtU' (s.upc k) with
      | false => simp
      | true => have := h5.excl (.U k) (by simp [secMgmt, hb, hk]); simp [this]
    · cases hb : inMgmtM' s.mpc with
      | false => simp
      | true => have := h5.excl .M (by simpa [secMgmt] using hb); simp [this]
    · intro p _
      cases hb : s.w p == .eRel with
      | false => simp
      | true => have := h5.excl (.W p) (by simpa [secMgmt] using hb); simp [this]
  · unfold exShut; simp only [Bool.and_eq_true, List.all_eq_true, List.mem_range]
    refine ⟨⟨?_, ?_⟩, ?_⟩
    · intro k hk
      cases hb : inShutU' (s.upc k) with
      | false => simp
      | true => have := h6.excl (.U k) (by simp [secShut, hb, hk]); simp [this]
    · cases hb : inShutM' s.mpc with
      | false => simp
      | true => have := h6.excl .M (by simpa [secShut] using hb); simp [this]
    · cases hb : inShutF' s.fpc with
      | false => simp
      | true => have := h6.excl .F (by simpa [secShut] using hb); simp [this]
  · cases hb : mTStart s.mpc with
    | false => simp
    | true => simp [h7 hb]

theorem holderOk_of_ok' {s : St} (h : holderOk' s = true) : holderOk s = true := by
  unfold holderOk' at h; simp only [Bool.and_eq_true] at h; exact h.1

theorem holderInv_init (cfg : Cfg) : HolderInv (init cfg) := by
  refine ⟨⟨?_, ?_, ?_⟩, ⟨?_, ?_, ?_⟩, ⟨?_, ?_, ?_⟩, ⟨?_, ?_, ?_⟩, ⟨?_, ?_, ?_⟩, ⟨?_, ?_, ?_⟩, ?_⟩
  all_goals (first
    | (intro _; rfl)
    | (intro a ha; cases ha)
    | (intro a ha; exfalso; cases a <;> simp [init, secRqW, secCqR, secCqW, secGshut, secMgmt, secShut, inRqW, inCqR, inCqWF, inGshutU, inMgmtU', inMgmtM', inShutU', inShutM', inShutF'] at ha)
    | (intro h; rfl))

theorem holderOk'_init (cfg : Cfg) : holderOk' (init cfg) = true := ok'_of_holderInv (holderInv_init cfg)
theorem holderOk_init (cfg : Cfg) : holderOk (init cfg) = true := holderOk_of_ok' (holderOk'_init cfg)


/-! ### where the local continuations leave the program counter -/

def isERel : WPc → Bool
  | .eRel => true
  | _ => false
theorem beq_eRel (pc : WPc) : (pc == .eRel) = isERel pc := by cases pc <;> rfl

/-- outside every critical section -/
def wFree (pc : WPc) : Bool := !inRqW pc && !inCqR pc && !isERel pc
def fFree (pc : FPc) : Bool := !inCqWF pc && !inShutF' pc
def uFree (pc : UPc) : Bool := !inGshutU pc && !inMgmtU' pc && !inShutU' pc
def mFree (pc : MPc) : Bool := !inMgmtM' pc && !inShutM' pc && !mTStart pc
/-- inside the section of the process-management lock only -/
def mInMgmt (pc : MPc) : Bool := inMgmtM' pc && !inShutM' pc && !mTStart pc
/-- inside the sections of the shutdown lock and of the process-management lock -/
def uInBoth (pc : UPc) : Bool := !inGshutU pc && inMgmtU' pc && inShutU' pc

theorem wFree_1 {pc : WPc} (h : wFree pc = true) : inRqW pc = false := by simp [wFree] at h; simp [h]
theorem wFree_2 {pc : WPc} (h : wFree pc = true) : inCqR pc = false := by simp [wFree] at h; simp [h]
theorem wFree_3 {pc : WPc} (h : wFree pc = true) : isERel pc = false := by simp [wFree] at h; simp [h]
theorem fFree_1 {pc : FPc} (h : fFree pc = true) : inCqWF pc = false := by simp [fFree] at h; simp [h]
theorem fFree_2 {pc : FPc} (h : fFree pc = true) : inShutF' pc = false := by simp [fFree] at h; simp [h]
theorem uFree_1 {pc : UPc} (h : uFree pc = true) : inGshutU pc = false := by simp [uFree] at h; simp [h]
theorem uFree_2 {pc : UPc} (h : uFree pc = true) : inMgmtU' pc = false := by simp [uFree] at h; simp [h]
theorem uFree_3 {pc : UPc} (h : uFree pc = true) : inShutU' pc = false := by simp [uFree] at h; simp [h]
theorem mFree_1 {pc : MPc} (h : mFree pc = true) : inMgmtM' pc = false := by simp [mFree] at h; simp [h]
theorem mFree_2 {pc : MPc} (h : mFree pc = true) : inShutM' pc = false := by simp [mFree] at h; simp [h]
theorem mFree_3 {pc : MPc} (h : mFree pc = true) : mTStart pc = false := by simp [mFree] at h; simp [h]
theorem mInMgmt_1 {pc : MPc} (h : mInMgmt pc = true) : inMgmtM' pc = true := by simp [mInMgmt] at h; simp [h]
theorem mInMgmt_2 {pc : MPc} (h : mInMgmt pc = true) : inShutM' pc = false := by simp [mInMgmt] at h; simp [h]
theorem mInMgmt_3 {pc : MPc} (h : mInMgmt pc = true) : mTStart pc = false := by simp [mInMgmt] at h; simp [h]
theorem uInBoth_1 {pc : UPc} (h : uInBoth pc = true) : inGshutU pc = false := by simp [uInBoth] at h; simp [h]
theorem uInBoth_2 {pc : UPc} (h : uInBoth pc = true) : inMgmtU' pc = true := by simp [uInBoth] at h; simp [h]
theorem uInBoth_3 {pc : UPc} (h : uInBoth pc = true) : inShutU' pc = true := by simp [uInBoth] at h; simp [h]

-- workers
theorem setW_w_self (s : St) (p : Pid) (pc : WPc) : (setW s p pc).w p = pc := by simp [setW, upd]
theorem die_w_self (s : St) (p : Pid) (c : Int) : (die s p c).w p = .dead := by simp [die, upd]
theorem wGet_free (s : St) (p : Pid) : wFree ((wGet s p).w p) = true := by
  unfold wGet; rw [setW_w_self]; split <;> rfl
theorem wDispatch_free (s : St) (p : Pid) (m : CMsg) : wFree ((wDispatch s p m).w p) = true := by
  unfold wDispatch; (repeat' split) <;> rw [setW_w_self] <;> rfl
theorem wAfterStart_free (s : St) (p : Pid) : wFree ((wAfterStart s p).w p) = true := by
  unfold wAfterStart; split
  · rw [setW_w_self]; rfl
  · exact wGet_free _ _
theorem wAfterResult_free (s : St) (p : Pid) : wFree ((wAfterResult s p).w p) = true := by
  unfold wAfterResult; simp only []
  (repeat' split) <;> first | exact wGet_free _ _ | (rw [setW_w_self]; rfl)

-- feeder
theorem fNext_free (s : St) : fFree (fNext s).fpc = true := by
  unfold fNext; (repeat' split) <;> rfl

-- users
theorem setU_upc_self (s : St) (k : Nat) (pc : UPc) : (setU s k pc).upc k = pc := by simp [setU, upd]
theorem setU_upc_other (s : St) (k j : Nat) (pc : UPc) (h : j ≠ k) : (setU s k pc).upc j = s.upc j := by
  simp [setU, upd, h]
theorem uNext_free (s : St) (k : Nat) : uFree ((uNext s k).upc k) = true := by
  unfold uNext; split <;> rw [setU_upc_self] <;> rfl
theorem uNext_upc_other_holder (s : St) (k j : Nat) (h : j ≠ k) : (uNext s k).upc j = s.upc j := by
  unfold uNext; split <;> rw [setU_upc_other _ _ _ _ h]
theorem uRelease_free (s : St) (k : Nat) : uFree ((uRelease s k).upc k) = true := by
  unfold uRelease; simp only []; split
  · rw [setU_upc_self]; rfl
  · exact uNext_free _ _
theorem uRelease_upc_other_holder (s : St) (k j : Nat) (h : j ≠ k) : (uRelease s k).upc j = s.upc j := by
  unfold uRelease; simp only []; split
  · rw [setU_upc_other _ _ _ _ h]
  · rw [uNext_upc_other_holder _ _ _ h]
theorem uSpawnLoop_in (s : St) (k : Nat) : uInBoth ((uSpawnLoop s k).upc k) = true := by
  unfold uSpawnLoop; (repeat' split) <;> rw [setU_upc_self] <;> rfl
theorem uSpawnLoop_upc_other_holder (s : St) (k j : Nat) (h : j ≠ k) : (uSpawnLoop s k).upc j = s.upc j := by
  unfold uSpawnLoop; (repeat' split) <;> rw [setU_upc_other _ _ _ _ h]
theorem uDispatch_free (s : St) (k : Nat) (op : UOp) : uFree ((uDispatch s k op).upc k) = true := by
  unfold uDispatch
  (repeat' split) <;> first | exact uNext_free _ _ | exact uRelease_free _ _ | (rw [setU_upc_self]; rfl)
theorem uDispatch_upc_other_holder (s : St) (k j : Nat) (op : UOp) (h : j ≠ k) : (uDispatch s k op).upc j = s.upc j := by
  unfold uDispatch
  (repeat' split) <;> simp [uNext_upc_other_holder, uRelease_upc_other_holder, setU_upc_other, h]

-- manager
theorem mAddFuel_free (n : Nat) (s : St) : mFree (mAddFuel n s).mpc = true := by
  induction n generalizing s with
  | zero => rfl
  | succ n ih =>
    unfold mAddFuel
    (repeat' split) <;> first | rfl | exact ih _
theorem mAdd_free (s : St) : mFree (mAdd s).mpc = true := mAddFuel_free _ _
theorem mJoinStart_free (s : St) : mFree (mJoinStart s).mpc = true := rfl
theorem mKillNext_free (s : St) : mFree (mKillNext s).mpc = true := by
  unfold mKillNext; split <;> rfl
theorem mAfterItem_free (s : St) : mFree (mAfterItem s).mpc = true := by
  unfold mAfterItem; split
  · rfl
  · exact mAdd_free _
theorem mDropRef_free (s : St) : mFree (mDropRef s).mpc = true := by
  unfold mDropRef; simp only []; split
  · rfl
  · exact mAfterItem_free _
theorem mRespawnCheck_free (s : St) : mFree (mRespawnCheck s).mpc = true := by
  unfold mRespawnCheck; simp only []
  (repeat' split) <;> first | rfl | exact mAfterItem_free _
theorem mProcess_free (s : St) (r : Option RMsg) : mFree (mProcess s r).mpc = true := by
  unfold mProcess
  (repeat' split) <;> first | rfl | exact mAfterItem_free _
theorem mSpawnLoop_in (s : St) : mInMgmt (mSpawnLoop s).mpc = true := by
  unfold mSpawnLoop; split <;> rfl
theorem mJoinProcs_in (s : St) : mInMgmt (mJoinProcs s).mpc = true := by
  unfold mJoinProcs; split <;> rfl
theorem mJoinClose_free (s : St) : mFree (mJoinClose s).mpc = true := by
  unfold mJoinClose; rfl
theorem mJoinLoop_free (s : St) (n sent cool : Nat) : mFree (mJoinLoop s n sent cool).mpc = true := by
  unfold mJoinLoop; split
  · rfl
  · exact mJoinClose_free _
theorem mRelExitNext_in (s : St) (ps : List Pid) (n : Nat) : mInMgmt (mRelExitNext s ps n).mpc = true := by
  unfold mRelExitNext; split <;> rfl
theorem mAliveNext_in (s : St) (ps : List Pid) (cnt n sent cool : Nat) :
    mInMgmt (mAliveNext s ps cnt n sent cool).mpc = true := by
  unfold mAliveNext; split <;> rfl
theorem mAfterPut_free (s : St) (k n sent cool : Nat) : mFree (mAfterPut s k n sent cool).mpc = true := by
  unfold mAfterPut; split
  · exact mJoinLoop_free _ _ _ _
  · rfl
theorem mAfterAddF_free (s : St) (h : mFree s.mpc = true) : mFree (mAfterAddF s).mpc = true := by
  unfold mAfterAddF
  (repeat' split) <;> first | rfl | exact h
theorem mAddF_free (s : St) : mFree (mAddF s).mpc = true := mAfterAddF_free _ (mAdd_free s)
theorem mAfterFlag_free (s : St) : mFree (mAfterFlag s).mpc = true := by
  unfold mAfterFlag
  (repeat' split) <;> first | exact mKillNext_free _ | exact mJoinStart_free _ | exact mAddF_free _


/-! ### assembling the invariant after a step of one actor -/

/-- first stage: where the continuations leave the program counter of the stepping actor -/
macro "hpc" : tactic => `(tactic| (try simp only [wFree_1, wFree_2, wFree_3, fFree_1, fFree_2, uFree_1, uFree_2, uFree_3,
  mFree_1, mFree_2, mFree_3, mInMgmt_1, mInMgmt_2, mInMgmt_3, uInBoth_1, uInBoth_2, uInBoth_3,
  wGet_free, wDispatch_free, wAfterStart_free, wAfterResult_free, fNext_free, uNext_free, uRelease_free, uSpawnLoop_in,
  uDispatch_free, mAdd_free, mJoinStart_free, mKillNext_free, mAfterItem_free, mDropRef_free, mRespawnCheck_free,
  mProcess_free, mSpawnLoop_in, mJoinProcs_in, mJoinClose_free, mJoinLoop_free, mRelExitNext_in, mAliveNext_in,
  mAfterPut_free, mAddF_free, mAfterFlag_free, setW_w_self, setU_upc_self, die_w_self]))

theorem holderInv_F {s s' : St} (h : HolderInv s) (hne : s.fpc ≠ .none)
    (hw : s'.w = s.w) (hupc : s'.upc = s.upc) (hmpc : s'.mpc = s.mpc) (hcfg : s'.cfg = s.cfg)
    (r1 : s'.rqWlock = s.rqWlock) (r2 : s'.oRqWlock = s.oRqWlock)
    (c1 : s'.cqRlock = s.cqRlock) (c2 : s'.oCqRlock = s.oCqRlock)
    (g1 : s'.gshut = s.gshut) (g2 : s'.oGshut = s.oGshut)
    (m1 : s'.mgmt = s.mgmt) (m2 : s'.oMgmt = s.oMgmt)
    (t1 : Tri s.cqWlock s'.cqWlock s.oCqWlock s'.oCqWlock .F (inCqWF s.fpc) (inCqWF s'.fpc))
    (t2 : Tri s.shut s'.shut s.oShut s'.oShut .F (inShutF' s.fpc) (inShutF' s'.fpc)) : HolderInv s' := by
  obtain ⟨h1, h2, h3, h4, h5, h6, h7⟩ := h
  refine ⟨?_, ?_, ?_, ?_, ?_, ?_, ?_⟩
  · rw [r1, r2]; exact h1.same (by intro b; cases b <;> simp [secRqW, hw])
  · rw [c1, c2]; exact h2.same (by intro b; cases b <;> simp [secCqR, hw])
  · exact h3.tri .F (by intro b hb; cases b <;> simp_all [secCqW]) (by simpa [secCqW] using t1)
  · rw [g1, g2]; exact h4.same (by intro b; cases b <;> simp [secGshut, hupc, hcfg])
  · rw [m1, m2]; exact h5.same (by intro b; cases b <;> simp [secMgmt, hupc, hcfg, hmpc, hw])
  · exact h6.tri .F (by intro b hb; cases b <;> simp_all [secShut]) (by simpa [secShut] using t2)
  · intro ht; rw [hmpc] at ht; exact absurd (h7 ht) hne

theorem holderInv_W {s s' : St} (h : HolderInv s) (p : Pid)
    (hw : ∀ q, q ≠ p → s'.w q = s.w q) (hupc : s'.upc = s.upc) (hmpc : s'.mpc = s.mpc) (hfpc : s'.fpc = s.fpc)
    (hcfg : s'.cfg = s.cfg)
    (c1 : s'.cqWlock = s.cqWlock) (c2 : s'.oCqWlock = s.oCqWlock)
    (g1 : s'.gshut = s.gshut) (g2 : s'.oGshut = s.oGshut)
    (m1 : s'.shut = s.shut) (m2 : s'.oShut = s.oShut)
    (t1 : Tri s.rqWlock s'.rqWlock s.oRqWlock s'.oRqWlock (.W p) (inRqW (s.w p)) (inRqW (s'.w p)))
    (t2 : Tri s.cqRlock s'.cqRlock s.oCqRlock s'.oCqRlock (.W p) (inCqR (s.w p)) (inCqR (s'.w p)))
    (t3 : Tri s.mgmt s'.mgmt s.oMgmt s'.oMgmt (.W p) (isERel (s.w p)) (isERel (s'.w p))) : HolderInv s' := by
  obtain ⟨h1, h2, h3, h4, h5, h6, h7⟩ := h
  refine ⟨?_, ?_, ?_, ?_, ?_, ?_, ?_⟩
  · refine h1.tri (.W p) ?_ (by simpa [secRqW] using t1)
    intro b hb; cases b <;> simp [secRqW]
    rename_i q; exact congrArg _ (hw q (by simpa using hb))
  · refine h2.tri (.W p) ?_ (by simpa [secCqR] using t2)
    intro b hb; cases b <;> simp [secCqR]
    rename_i q; exact congrArg _ (hw q (by simpa using hb))
  · rw [c1, c2]; exact h3.same (by intro b; cases b <;> simp [secCqW, hfpc])
  · rw [g1, g2]; exact h4.same (by intro b; cases b <;> simp [secGshut, hupc, hcfg])
  · refine h5.tri (.W p) ?_ (by simpa [secMgmt, beq_eRel] using t3)
    intro b hb; cases b <;> simp [secMgmt, hupc, hcfg, hmpc]
    rename_i q; rw [hw q (by simpa using hb)]
  · rw [m1, m2]; exact h6.same (by intro b; cases b <;> simp [secShut, hupc, hcfg, hmpc, hfpc])
  · rw [hmpc, hfpc]; exact h7

/-- the three section tests of a worker's program counter -/
def wSec (pc : WPc) : Bool × Bool × Bool := (inRqW pc, inCqR pc, isERel pc)

theorem holderInv_M {s s' : St} (h : HolderInv s)
    (hw : ∀ q, wSec (s'.w q) = wSec (s.w q)) (hupc : s'.upc = s.upc) (hcfg : s'.cfg = s.cfg)
    (hfpc : s'.fpc = s.fpc ∨ (mTStart s.mpc = true ∧ s'.fpc = .start))
    (r1 : s'.rqWlock = s.rqWlock) (r2 : s'.oRqWlock = s.oRqWlock)
    (c1 : s'.cqRlock = s.cqRlock) (c2 : s'.oCqRlock = s.oCqRlock)
    (d1 : s'.cqWlock = s.cqWlock) (d2 : s'.oCqWlock = s.oCqWlock)
    (g1 : s'.gshut = s.gshut) (g2 : s'.oGshut = s.oGshut)
    (t1 : Tri s.mgmt s'.mgmt s.oMgmt s'.oMgmt .M (inMgmtM' s.mpc) (inMgmtM' s'.mpc))
    (t2 : Tri s.shut s'.shut s.oShut s'.oShut .M (inShutM' s.mpc) (inShutM' s'.mpc))
    (ht : mTStart s'.mpc = true → s'.fpc = .none) : HolderInv s' := by
  obtain ⟨h1, h2, h3, h4, h5, h6, h7⟩ := h
  have hw1 : ∀ q, inRqW (s'.w q) = inRqW (s.w q) := fun q => congrArg (·.1) (hw q)
  have hw2 : ∀ q, inCqR (s'.w q) = inCqR (s.w q) := fun q => congrArg (·.2.1) (hw q)
  have hw3 : ∀ q, isERel (s'.w q) = isERel (s.w q) := fun q => congrArg (·.2.2) (hw q)
  have hf1 : inCqWF s'.fpc = inCqWF s.fpc := by
    rcases hfpc with e | ⟨e1, e2⟩
    · rw [e]
    · rw [e2, h7 e1]; rfl
  have hf2 : inShutF' s'.fpc = inShutF' s.fpc := by
    rcases hfpc with e | ⟨e1, e2⟩
    · rw [e]
    · rw [e2, h7 e1]; rfl
  refine ⟨?_, ?_, ?_, ?_, ?_, ?_, ht⟩
  · rw [r1, r2]; exact h1.same (by intro b; cases b <;> simp [secRqW, hw1])
  · rw [c1, c2]; exact h2.same (by intro b; cases b <;> simp [secCqR, hw2])
  · rw [d1, d2]; exact h3.same (by intro b; cases b <;> simp [secCqW, hf1])
  · rw [g1, g2]; exact h4.same (by intro b; cases b <;> simp [secGshut, hupc, hcfg])
  · refine h5.tri .M ?_ (by simpa [secMgmt] using t1)
    intro b hb; cases b <;> simp_all [secMgmt, beq_eRel]
  · refine h6.tri .M ?_ (by simpa [secShut] using t2)
    intro b hb; cases b <;> simp_all [secShut]

theorem holderInv_U {s s' : St} (h : HolderInv s) (k : Nat) (hk : k < s.cfg.scripts.length)
    (hupc : ∀ j, j ≠ k → s'.upc j = s.upc j) (hw : ∀ q, wSec (s'.w q) = wSec (s.w q)) (hfpc : s'.fpc = s.fpc)
    (hcfg : s'.cfg = s.cfg)
    (hmpc : s'.mpc = s.mpc ∨ (inMgmtU' (s.upc k) = true ∧ inShutU' (s.upc k) = true ∧ s'.mpc = .start))
    (r1 : s'.rqWlock = s.rqWlock) (r2 : s'.oRqWlock = s.oRqWlock)
    (c1 : s'.cqRlock = s.cqRlock) (c2 : s'.oCqRlock = s.oCqRlock)
    (d1 : s'.cqWlock = s.cqWlock) (d2 : s'.oCqWlock = s.oCqWlock)
    (t1 : Tri s.gshut s'.gshut s.oGshut s'.oGshut (.U k) (inGshutU (s.upc k)) (inGshutU (s'.upc k)))
    (t2 : Tri s.mgmt s'.mgmt s.oMgmt s'.oMgmt (.U k) (inMgmtU' (s.upc k)) (inMgmtU' (s'.upc k)))
    (t3 : Tri s.shut s'.shut s.oShut s'.oShut (.U k) (inShutU' (s.upc k)) (inShutU' (s'.upc k))) : HolderInv s' := by
  obtain ⟨h1, h2, h3, h4, h5, h6, h7⟩ := h
  have hw1 : ∀ q, inRqW (s'.w q) = inRqW (s.w q) := fun q => congrArg (·.1) (hw q)
  have hw2 : ∀ q, inCqR (s'.w q) = inCqR (s.w q) := fun q => congrArg (·.2.1) (hw q)
  have hw3 : ∀ q, isERel (s'.w q) = isERel (s.w q) := fun q => congrArg (·.2.2) (hw q)
  have hm1 : inMgmtM' s'.mpc = inMgmtM' s.mpc := by
    rcases hmpc with e | ⟨e1, e2, e3⟩
    · rw [e]
    · rw [e3]
      cases hb : inMgmtM' s.mpc with
      | false => rfl
      | true =>
        have x := h5.excl .M (by simpa [secMgmt] using hb)
        have y := h5.excl (.U k) (by simp [secMgmt, e1, hk])
        rw [x] at y; cases y
  have hm2 : inShutM' s'.mpc = inShutM' s.mpc := by
    rcases hmpc with e | ⟨e1, e2, e3⟩
    · rw [e]
    · rw [e3]
      cases hb : inShutM' s.mpc with
      | false => rfl
      | true =>
        have x := h6.excl .M (by simpa [secShut] using hb)
        have y := h6.excl (.U k) (by simp [secShut, e2, hk])
        rw [x] at y; cases y
  have hu : ∀ (f : UPc → Bool) (j : Nat), j ≠ k →
      (f (s'.upc j) && decide (j < s'.cfg.scripts.length)) = (f (s.upc j) && decide (j < s.cfg.scripts.length)) := by
    intro f j hj; rw [hupc j hj, hcfg]
  refine ⟨?_, ?_, ?_, ?_, ?_, ?_, ?_⟩
  · rw [r1, r2]; exact h1.same (by intro b; cases b <;> simp [secRqW, hw1])
  · rw [c1, c2]; exact h2.same (by intro b; cases b <;> simp [secCqR, hw2])
  · rw [d1, d2]; exact h3.same (by intro b; cases b <;> simp [secCqW, hfpc])
  · refine h4.tri (.U k) ?_ (by simpa [secGshut, hk, hcfg] using t1)
    intro b hb; cases b <;> simp only [secGshut]
    rename_i j; exact hu _ j (by simpa using hb)
  · refine h5.tri (.U k) ?_ (by simpa [secMgmt, hk, hcfg] using t2)
    intro b hb; cases b <;> simp only [secMgmt, hm1, beq_eRel, hw3]
    rename_i j; exact hu _ j (by simpa using hb)
  · refine h6.tri (.U k) ?_ (by simpa [secShut, hk, hcfg] using t3)
    intro b hb; cases b <;> simp only [secShut, hm2, hfpc]
    rename_i j; exact hu _ j (by simpa using hb)
  · intro ht
    rcases hmpc with e | ⟨_, _, e3⟩
    · rw [e] at ht; rw [hfpc]; exact h7 ht
    · rw [e3] at ht; cases ht

/-! ### the steps -/

set_option maxHeartbeats 4000000 in
theorem holderInv_stepF (s s' : St) (v : Variant) (h : HolderInv s) (hs : stepF s v = some s') : HolderInv s' := by
  unfold stepF at hs
  crack
  all_goals (refine holderInv_F h ?_ ?_ ?_ ?_ ?_ ?_ ?_ ?_ ?_ ?_ ?_ ?_ ?_ ?_ ?_)
  all_goals (first
    | rfl
    | (simp [*]; done)
    | (hpc; simp [Tri, inCqWF, inShutF', *]; done))

set_option maxHeartbeats 4000000 in
theorem holderInv_stepW (s s' : St) (p : Pid) (v : Variant) (hv : v ≠ .crash) (h : HolderInv s)
    (hs : stepW s p v = some s') : HolderInv s' := by
  unfold stepW at hs
  crack
  all_goals (first
    | (exact absurd rfl hv)
    | skip)
  all_goals (refine holderInv_W h p ?_ ?_ ?_ ?_ ?_ ?_ ?_ ?_ ?_ ?_ ?_ ?_ ?_ ?_)
  all_goals (first
    | rfl
    | (simp; done)
    | (intro q hq; simp [wAfterStart_w_other, wGet_w_other, wDispatch_w_other, wAfterResult_w_other, setW_w_other, die_w_other, hq]; done)
    | (hpc; simp [Tri, inRqW, inCqR, isERel, *]; done))


theorem spawn_wSec {s : St} (hp : PidsInv s) (q : Pid) : wSec ((spawn s).w q) = wSec (s.w q) := by
  rw [spawn_w']
  by_cases e : q = s.nextPid
  · subst e
    have hn : s.nextPid ∉ s.allPids := fun hm => Nat.lt_irrefl _ (hp.lt _ hm)
    rw [upd_same', hp.dead _ hn]; rfl
  · rw [upd_other' _ _ _ _ e]

theorem kill_wSec (s0 s : St) (p : Pid) (c : Int) (hw0 : s0.w = s.w) (k1 : inRqW (s.w p) = false)
    (k2 : inCqR (s.w p) = false) (k3 : s.w p ≠ .eRel) (q : Pid) : wSec ((die s0 p c).w q) = wSec (s.w q) := by
  rw [die_w', hw0]
  by_cases e : q = p
  · subst e
    rw [upd_same']
    have k3' : isERel (s.w q) = false := by cases hq : s.w q <;> simp_all [isERel]
    unfold wSec; rw [k1, k2, k3']; rfl
  · rw [upd_other' _ _ _ _ e]

set_option maxHeartbeats 8000000 in
theorem holderInv_stepM (s s' : St) (v : Variant) (hp : PidsInv s) (hk : KillSafe s) (hr : RelExitSafe s) (h : HolderInv s)
    (hs : stepM s v = some s') : HolderInv s' := by
  unfold stepM at hs
  crack
  all_goals (refine holderInv_M h ?_ ?_ ?_ ?_ ?_ ?_ ?_ ?_ ?_ ?_ ?_ ?_ ?_ ?_ ?_)
  all_goals (first
    | rfl
    | (simp; done)
    | (intro q; simp; done)
    | (intro q; simpa using spawn_wSec hp q)
    | (intro q; obtain ⟨k1, k2, k3⟩ := hk _ (by assumption); refine kill_wSec _ s _ _ ?_ k1 k2 k3 q; rfl)
    | (exfalso; have := hr _ _ _ (by assumption); omega)
    | (hpc; simp [Tri, inMgmtM', inShutM', mTStart, *]; done))

set_option maxHeartbeats 8000000 in
theorem holderInv_stepU (s s' : St) (k : Nat) (v : Variant) (hk : k < s.cfg.scripts.length) (hp : PidsInv s)
    (h : HolderInv s) (hs : stepU s k v = some s') : HolderInv s' := by
  unfold stepU at hs
  crack
  all_goals (refine holderInv_U h k hk ?_ ?_ ?_ ?_ ?_ ?_ ?_ ?_ ?_ ?_ ?_ ?_ ?_ ?_)
  all_goals (first
    | rfl
    | (simp; done)
    | (intro q; simp; done)
    | (intro q; simpa using spawn_wSec hp q)
    | (intro j hj; simp [setU_upc_other, uNext_upc_other_holder, uRelease_upc_other_holder, uSpawnLoop_upc_other_holder, uDispatch_upc_other_holder, hj]; done)
    | (hpc; simp [Tri, inGshutU, inMgmtU', inShutU', *]; done))


/-! ### assembly -/

theorem holderInv_step {s s' : St} {a : Actor} {v : Variant} (hv : v ≠ .crash) (hs : step s a v = some s')
    (hp : PidsInv s) (hk : KillSafe s) (hr : RelExitSafe s) (h : HolderInv s) : HolderInv s' := by
  unfold step at hs
  cases a with
  | U k =>
    simp only [] at hs; split at hs
    · exact holderInv_stepU s s' k v (by assumption) hp h hs
    · cases hs
  | M => exact holderInv_stepM s s' v hp hk hr h hs
  | F => exact holderInv_stepF s s' v h hs
  | W p =>
    simp only [] at hs; split at hs
    · exact holderInv_stepW s s' p v hv h hs
    · cases hs

/-- the strengthened invariant is inductive over every step that is not a crash, provided the manager's step is
    neither a `kill` of a worker that holds a lock nor the `ValueError` exit from `join_executor_internals` -/
theorem holderOk'_step {s s' : St} {a : Actor} {v : Variant} (hv : v ≠ .crash) (hs : step s a v = some s')
    (hp : PidsInv s) (hk : KillSafe s) (hr : RelExitSafe s) (h : holderOk' s = true) : holderOk' s' = true :=
  ok'_of_holderInv (holderInv_step hv hs hp hk hr (holderInv_of_ok' hp h))

theorem holderOk_step {s s' : St} {a : Actor} {v : Variant} (hv : v ≠ .crash) (hs : step s a v = some s')
    (hp : PidsInv s) (hk : KillSafe s) (hr : RelExitSafe s) (h : holderOk' s = true) : holderOk s' = true :=
  holderOk_of_ok' (holderOk'_step hv hs hp hk hr h)

/-! ### sufficient conditions for the two side hypotheses -/

theorem killSafe_of_ne {s : St} (h : ∀ p, s.mpc ≠ .kill p) : KillSafe s :=
  fun p e => absurd e (h p)
theorem relExitSafe_of_ne {s : St} (h : ∀ ps n, s.mpc ≠ .jRelExit ps n) : RelExitSafe s :=
  fun _ _ n e => absurd e (h _ n)
/-- a static pool (`staticOk`) never kills -/
theorem killSafe_of_staticOk {s : St} (h : staticOk s = true) : KillSafe s := by
  intro p e
  unfold staticOk at h
  simp only [Bool.and_eq_true] at h
  have := h.1.1.1.1.1.1.1.1.1.1.1.1
  rw [e] at this; simp [mNever] at this


end LokyModel.Exec
