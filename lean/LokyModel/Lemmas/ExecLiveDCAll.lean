import LokyModel.Lemmas.ExecLiveDCSmall
import LokyModel.Lemmas.ExecLiveDCHolder
import LokyModel.Lemmas.ExecLiveDCHolderFacts
import LokyModel.Lemmas.ExecLiveDCKilled
import LokyModel.Lemmas.ExecLiveDCKilledFacts
import LokyModel.Lemmas.ExecLiveDCTRecv
import LokyModel.Lemmas.ExecLiveDCPhase2
import LokyModel.Lemmas.ExecLiveDCOrphan
import LokyModel.Lemmas.ExecLiveDCPhase1
import LokyModel.Lemmas.ExecLiveDCStuck
import LokyModel.Lemmas.ExecLiveCrashAll
/-!
# Assembly: dynamic pools (idle time-out) whose workers may die at any point at which they hold no kernel lock are never
# stuck — unless the manager's own SIGKILL orphans the management lock (finding D5)

Along a lock-free crash run (`ReachableLF`) of a dynamic pool in whose end state the management lock is not orphaned
(`mgmtOrphan s = false`; an orphan is for ever, `mgmtOrphan_step`, so no state of the run has one and no `kill` step of
the manager has hit a worker inside the management-lock window):

* `dcSmall` holds in every state (`ExecLiveDCSmall.lean`), and so do `dcHolder'`, `dcKilled`, `dcTRecv`
  (`ExecLiveDCHolder/Killed/TRecv.lean`);
* every state is in **phase 2** (`phase2`: a registered worker is dead and un-announced, or the manager is on the broken
  path / in the kill loop / in its final phase; closed under every step, `phase2_step`) or satisfies the crash-free
  bundle `P1` (`ExecLiveDCPhase1.lean`): ordinary steps preserve the bundle, the death of a worker that waits for its
  exit lock preserves it (`p1_benign`), every other death at a lock-free point makes a zombie (`zombie_of_crash`).

A quiescent state is then a good one: `stuck_good_DC2` in phase 2, `stuck_good_dyn` in phase 1.
-/
namespace LokyModel.Exec

structure DCInv (s : St) : Prop where
  holder : dcHolder' s = true
  killed : dcKilled s = true
  trecv : dcTRecv s = true
  phase : phase2 s = true ∨ P1 s

theorem dcInv_init (cfg : Cfg) (hc : cfg.dynPool = true) (ho : cfg.oneCreate = true) : DCInv (init cfg) :=
  ⟨dcHolder'_init cfg, dcKilled_init cfg, dcTRecv_init cfg, .inr (p1_init cfg hc ho)⟩

/-- what `dcSmall` says that the assembly uses -/
theorem dcSmall_facts (s : St) (h : dcSmall s = true) :
    smallOk s = true ∧ ∀ p ∈ s.allPids, wNeverD (s.w p) = false := by
  unfold dcSmall at h
  simp only [Bool.and_eq_true] at h
  obtain ⟨⟨⟨⟨⟨⟨⟨⟨⟨⟨h0, h1⟩, _⟩, _⟩, _⟩, _⟩, _⟩, _⟩, _⟩, _⟩, _⟩ := h
  refine ⟨h0, ?_⟩
  intro p hp
  rw [List.all_eq_true] at h1
  simpa using h1 p hp

/-- a crash step kills its victim, a listed worker, and changes nothing else -/
theorem crash_eq {s s' : St} {p : Pid} (hs : step s (.W p) .crash = some s') : p ∈ s.allPids ∧ s' = die s p (-9) := by
  unfold step at hs
  simp only [] at hs; split at hs
  · rename_i hin
    refine ⟨hin, ?_⟩
    unfold stepW at hs
    split at hs <;> simp_all
  · cases hs

theorem dcInv_stepLF {cfg : Cfg} {s s' : St} {a : Actor} {v : Variant} (hrl : ReachableLF cfg s)
    (hc : cfg.dynPool = true) (hs : step s a v = some s') (hlf : StepLF s a v)
    (hks : a = .M → killsERel s = false) (h : DCInv s) : DCInv s' := by
  have hr := hrl.reachable
  have hp := pidsInv_reachable hr
  have hsm := dcSmall_reachableLF hc hrl
  have hts := tstartInv_reachable hr
  have hc' : s.cfg.dynPool = true := by rw [cfg_reachable hr]; exact hc
  refine ⟨dcHolder'_stepLF hs hlf hks hp hsm h.holder,
          dcKilled_stepLF hs hlf hp (shutInv_reachable hr) hsm h.killed,
          dcTRecv_stepLF hs hlf hp h.holder h.trecv, ?_⟩
  rcases h.phase with h2 | h1
  · exact .inl (phase2_step hs hp hts h2)
  · by_cases hv : v = .crash
    · subst hv
      rcases hlf with hne | ⟨p, rfl, hl⟩
      · exact absurd rfl hne
      · obtain ⟨hin, he⟩ := crash_eq hs
        by_cases hx : s.w p = .xExit
        · subst he
          exact .inr (p1_benign hr hc' hin hx h1)
        · cases h2 : phase2 s with
          | true => exact .inl (phase2_step hs hp hts h2)
          | false =>
            left
            have hz := zombie_of_crash hs hl hx ((dcSmall_facts s hsm).2 p hin) (P2.poolInv_reachable hr)
              (P2.annInv_reachable hr) h2
            unfold phase2
            simp [hz]
    · exact .inr (p1_step hr hv hs hc' h1)

/-- the ingredients along a lock-free crash run that ends without an orphaned management lock -/
theorem dcInv_reachableLF {cfg : Cfg} (hc : cfg.dynPool = true) (ho : cfg.oneCreate = true) {s : St}
    (h : ReachableLF cfg s) (hno : mgmtOrphan s = false) : DCInv s := by
  induction h with
  | init => exact dcInv_init cfg hc ho
  | step hr hv hs ih =>
    obtain ⟨h0, hk⟩ := mgmtOrphan_false_of_step hr.reachable hs hno
    exact dcInv_stepLF hr hc hs (.inl hv) hk (ih h0)
  | crash hr hl hs ih =>
    obtain ⟨h0, hk⟩ := mgmtOrphan_false_of_step hr.reachable hs hno
    exact dcInv_stepLF hr hc hs (.inr ⟨_, rfl, hl⟩) hk (ih h0)

theorem mRsp_of_mHolds' (pc : MPc) (p : Pid) (h : mHolds pc p = true) : mRsp pc = true := by
  unfold mHolds at h
  split at h <;> first | rfl | cases h

/-- **dynamic pools, worker deaths at lock-free points included: a quiescent state is a good one** (unless the manager's own
    SIGKILL has orphaned the management lock: D5) -/
theorem stuck_good_DC (cfg : Cfg) (hc : cfg.dynPool = true) (ho : cfg.oneCreate = true) (s : St)
    (h : ReachableLF cfg s) (hno : mgmtOrphan s = false) (hq : enabledNC s = []) : good s = true := by
  have hr := h.reachable
  have I := dcInv_reachableLF hc ho h hno
  have hsm := dcSmall_reachableLF hc h
  have hfut : ∀ i, i < s.futs.length → (futOf s i).done = false → i ∈ s.pending := by
    intro i hi hd
    apply Decidable.byContradiction
    intro hm
    have := (futInv_reachable hr).resolved i hi hm
    rw [hd] at this; cases this
  have hterm : mEnded s = true → s.pending = [] := by
    intro he
    have ht : mTerm s.mpc = true := by
      unfold mEnded at he; split at he <;> simp_all [mTerm]
    exact termInv_reachable hr ht
  rcases I.phase with h2 | h1
  · refine stuck_good_DC2 s (pidsInv_reachable hr) h2 (dcSmall_facts s hsm).1 (dcSmall_facts s hsm).2
      (dcHolder_facts s (dcHolder_of' s I.holder)) (fun hb => (dcKilled_broken s I.killed hb).2)
      (dcKilled_kj s I.killed) (fun hb hf => dcKilled_final s I.killed hb hf) ?_ (watchOk_reachable hr)
      (addSlotOk_reachable hr) hfut hterm hq
    intro hb
    have := I.trecv
    unfold dcTRecv at this
    simpa [hb] using this
  · have L := h1.live
    have hnb := h1.nb
    refine stuck_good_dyn s (pidsInv_reachable hr) (flagInv_reachable hr) (holderOk_of_ok'' L.holder)
      (dynOk_of_dynOk' L.dyn.1) L.add (wakeOkD_of_wakeOkD' s L.wake) (respawnOk_of_respawnOk' s L.rsp) L.trecv hfut
      hterm ?_ hq
    intro p hp hd
    have hl : leaving (s.w p) = true := by rw [hd]; rfl
    rcases hnb.ann p hp hl with h1 | h1
    · left; intro he; rw [he] at h1; cases h1
    · right
      exact mRsp_of_mHolds' _ _ h1

end LokyModel.Exec
