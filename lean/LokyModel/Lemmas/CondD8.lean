import LokyModel.Lemmas.Cond
/-!
# Consequences of the invariant of M5b used by the C14 property theorems, and the second-level
invariant `Inv2` behind `notify_wakes_one_partial` (finding D8).
-/
set_option linter.unusedSimpArgs false
namespace LokyModel.Cond
open LokyModel.SemLock

theorem step_lt (cfg : Cfg) (s s' : State) (t : Nat) (v : Variant)
    (h : step cfg s t v = some s') : t < cfg.n := by
  rcases Nat.lt_or_ge t cfg.n with h1 | h1
  · exact h1
  · exfalso; unfold step at h; rw [if_pos h1] at h; cases h

/-- a step changes the stepping thread's entry of the thread map only -/
theorem step_frame (cfg : Cfg) (s s' : State) (t : Nat) (v : Variant)
    (h : step cfg s t v = some s') : ∀ u, u ≠ t → s'.th u = s.th u := by
  have hlt := step_lt cfg s s' t v h
  have hnle : ¬ cfg.n ≤ t := by omega
  unfold step at h
  rw [if_neg hnle] at h
  simp only [] at h
  split at h
  all_goals (repeat' split at h)
  all_goals (try (simp at h; done))
  all_goals (simp only [Option.some.injEq] at h; subst h)
  all_goals (intro u hu; exact upd_other _ _ _ _ hu)

/-- threads beyond `cfg.n` never move -/
theorem outside_idle (cfg : Cfg) (s : State) (hr : Reachable cfg s) (u : Nat) (hu : cfg.n ≤ u) :
    (s.th u).pc = .idle := by
  induction hr with
  | init => rfl
  | step _ hs ih =>
    have hlt := step_lt cfg _ _ _ _ hs
    rw [step_frame cfg _ _ _ _ hs u (by omega)]; exact ih

/-! ### sleepers -/

theorem no_sleeper_of_zero (cfg : Cfg) (s : State) (t : Nat) (hinv : Inv cfg s) (ht : t < cfg.n)
    (hm : isMine s.lock t = true) (hd : wD (s.th t).pc = 0) (hS : s.sleeping = 0) :
    s.woken = 0 ∧ ∀ u, u < cfg.n → wA (s.th u).pc = 0 := by
  have h1 := sumD_eq_holder cfg s t hinv ht hm
  have hc := hinv.cnt
  have hA : sumA s cfg.n = 0 := by omega
  exact ⟨by omega, zero_of_sumTo_zero _ _ hA⟩

theorem no_sleeper_at_a7 (cfg : Cfg) (s : State) (t : Nat) (hinv : Inv cfg s) (ht : t < cfg.n)
    (hpc : (s.th t).pc = .a7) :
    s.sleeping = 0 ∧ s.woken = 0 ∧ ∀ u, u < cfg.n → wA (s.th u).pc = 0 := by
  have hm : isMine s.lock t = true := by
    have := (hinv.thr t ht).pc; rw [hpc] at this; exact this
  have hm' := (isMine_iff s.lock t).1 hm
  have hf := hinv.hf hm'.1
  rw [hm'.2, hpc] at hf
  have hS : s.sleeping = 0 := hf
  exact ⟨hS, no_sleeper_of_zero cfg s t hinv ht hm (by rw [hpc]; rfl) hS⟩

theorem no_sleeper_at_return (cfg : Cfg) (s s' : State) (t : Nat) (v : Variant) (hinv : Inv cfg s)
    (hs : step cfg s t v = some s')
    (hin : (s.th t).pc = .a7 ∨ ∃ k, (s.th t).pc = .a4 k)
    (hout : (s'.th t).pc = .idle ∨ (s'.th t).pc = .eRel .none) :
    ∀ u, u < cfg.n → wA (s'.th u).pc = 0 := by
  have hlt := step_lt cfg s s' t v hs
  have hfr := step_frame cfg s s' t v hs
  have hpre : ∀ u, u < cfg.n → wA (s.th u).pc = 0 := by
    rcases hin with hpc | ⟨k, hpc⟩
    · exact (no_sleeper_at_a7 cfg s t hinv hlt hpc).2.2
    · have hm : isMine s.lock t = true := by
        have := (hinv.thr t hlt).pc; rw [hpc] at this; exact this
      have hnle : ¬ cfg.n ≤ t := by omega
      unfold step at hs
      rw [if_neg hnle] at hs
      simp only [hpc] at hs
      cases v <;> simp only [] at hs
      · -- ok: goes to a5, contradicting `hout`
        split at hs
        · simp only [Option.some.injEq] at hs; subst hs
          simp at hout
        · cases hs
      · split at hs
        · cases hs
        · rename_i hS
          by_cases hk : k = 0
          · subst hk
            exact (no_sleeper_of_zero cfg s t hinv hlt hm (by rw [hpc]; rfl) (by omega)).2
          · simp only [hk, if_false, Option.some.injEq] at hs; subst hs
            simp at hout
      · cases hs
  intro u hu
  by_cases hut : u = t
  · subst hut; rcases hout with h | h <;> rw [h] <;> rfl
  · rw [hfr u hut]; exact hpre u hu

theorem wakes_le_one (cfg : Cfg) (s : State) (t : Nat) (hinv : Inv cfg s) (ht : t < cfg.n)
    (hpc : (s.th t).pc = .n2 ∨ (s.th t).pc = .n3 ∨ (s.th t).pc = .n4 ∨ (s.th t).pc = .n5 ∨
           (s.th t).pc = .n6 ∨ (s.th t).pc = .n7) :
    s.waitsem + s.wakes ≤ 1 := by
  have hm : isMine s.lock t = true := by
    have := (hinv.thr t ht).pc
    rcases hpc with h | h | h | h | h | h <;> rw [h] at this <;> exact this
  have hm' := (isMine_iff s.lock t).1 hm
  have hf := hinv.hf hm'.1
  have hp := hinv.post
  rw [hm'.2] at hf hp
  rcases hpc with h | h | h | h | h | h <;> rw [h] at hf hp <;> simp only [holderFacts, inPost] at hf hp
  all_goals first
    | omega
    | (have : s.waitsem = 0 := by
         rcases Nat.eq_zero_or_pos s.waitsem with h0 | h0
         · exact h0
         · exact absurd (hp h0).2 (by simp)
       omega)

/-! ### `wait`: result flag and lock ownership on return -/

theorem wait_exit_owns (cfg : Cfg) (s s' : State) (t : Nat) (v : Variant) (c k : Nat) (r : Bool)
    (hinv : Inv cfg s) (hpc : (s.th t).pc = .w5 c k r) (hk : k ≤ 1)
    (hs : step cfg s t v = some s') :
    isMine s'.lock t = true ∧ s'.lock.count = c ∧ 1 ≤ c := by
  have hlt := step_lt cfg s s' t v hs
  have hnle : ¬ cfg.n ≤ t := by omega
  have hp := (hinv.thr t hlt).pc
  rw [hpc] at hp
  simp only [pcOK] at hp
  unfold step at hs
  rw [if_neg hnle] at hs
  simp only [hpc] at hs
  cases v <;> simp only [] at hs
  · split at hs
    · rename_i hc
      simp only [Option.some.injEq] at hs; subst hs
      have ham := acquired_mine _ _ _ hinv.lock hc
      simp only []
      refine ⟨ham.1, ?_, by omega⟩
      rw [ham.2]
      obtain ⟨h1, h2, h3⟩ := hp
      split at h3
      · simp [h3]; omega
      · simp [h3.1]; omega
    · cases hs
  · cases hs
  · cases hs

theorem leave_sleep (cfg : Cfg) (s s' : State) (t : Nat) (v : Variant) (c : Nat)
    (hpc : (s.th t).pc = .w3 c) (hs : step cfg s t v = some s') :
    (v = .ok ∧ (s'.th t).pc = .w4 c true ∧ 0 < s.waitsem) ∨
    (v = .timeout ∧ (s'.th t).pc = .w4 c false ∧ (s.th t).timed = true ∧ s.waitsem = 0) := by
  have hlt := step_lt cfg s s' t v hs
  have hnle : ¬ cfg.n ≤ t := by omega
  unfold step at hs
  rw [if_neg hnle] at hs
  simp only [hpc] at hs
  cases v <;> simp only [] at hs
  · split at hs
    · simp only [Option.some.injEq] at hs; subst hs
      left; simp; assumption
    · cases hs
  · cases hs
  · split at hs
    · rename_i hg
      simp only [Option.some.injEq] at hs; subst hs
      right; simp at hg ⊢; exact hg
    · cases hs

theorem waitReturn_result (x : TS) (r : Bool) :
    (x.waitReturn r).pc = .eFlag2 ∨
    (∃ o rest, x.script = o :: rest ∧ (x.waitReturn r).rets = (o, .bool r) :: x.rets) ∨
    x.script = [] := by
  unfold TS.waitReturn
  split
  · left; rfl
  · right
    unfold TS.finish
    split
    · right; assumption
    · left; rename_i o rest hsc; exact ⟨o, rest, hsc, rfl⟩

theorem result_carried (cfg : Cfg) (s s' : State) (t : Nat) (v : Variant) (c : Nat) (r : Bool)
    (hpc : (s.th t).pc = .w4 c r ∨ ∃ k, (s.th t).pc = .w5 c k r)
    (hs : step cfg s t v = some s') :
    (∃ k, (s'.th t).pc = .w5 c k r) ∨ (s'.th t).pc = .eFlag2 ∨
    (∃ o rest, (s.th t).script = o :: rest ∧ (s'.th t).rets = (o, .bool r) :: (s.th t).rets) ∨
    (s.th t).script = [] := by
  have hlt := step_lt cfg s s' t v hs
  have hnle : ¬ cfg.n ≤ t := by omega
  unfold step at hs
  rw [if_neg hnle] at hs
  rcases hpc with hpc | ⟨k, hpc⟩
  · simp only [hpc] at hs
    cases v <;> simp only [] at hs
    · simp only [Option.some.injEq] at hs; subst hs
      simp only [upd_same]
      split
      · right; exact waitReturn_result _ _
      · left; exact ⟨c, rfl⟩
    · cases hs
    · cases hs
  · simp only [hpc] at hs
    cases v <;> simp only [] at hs
    · split at hs
      · simp only [Option.some.injEq] at hs; subst hs
        simp only [upd_same]
        split
        · right; exact waitReturn_result _ _
        · left; exact ⟨k - 1, rfl⟩
      · cases hs
    · cases hs
    · cases hs

/-! ### quiescence -/

theorem quiescent_balanced (cfg : Cfg) (hwf : cfg.wf) (s : State) (hr : Reachable cfg s)
    (hq : ∀ t, t < cfg.n → (s.th t).pc = .idle) :
    s.sleeping = s.woken ∧ s.waitsem = 0 ∧ (s.lock.value = 1 ↔ s.lock.count = 0) ∧ s.flag ≤ 1 := by
  have hinv := inv_reachable cfg hwf s hr
  have hA : sumA s cfg.n = 0 := sumTo_zero_of _ _ (fun u hu => by rw [hq u hu]; rfl)
  have hB : sumB s cfg.n = 0 := sumTo_zero_of _ _ (fun u hu => by rw [hq u hu]; rfl)
  have hD : sumD s cfg.n = 0 := sumTo_zero_of _ _ (fun u hu => by rw [hq u hu]; rfl)
  have hc := hinv.cnt
  refine ⟨by omega, ?_, hinv.lock.free, hinv.flag⟩
  rcases Nat.eq_zero_or_pos s.waitsem with h0 | h0
  · exact h0
  · exfalso
    have hp := (hinv.post h0).2
    have hidle : (s.th s.lock.lastTid).pc = .idle := by
      rcases Nat.lt_or_ge s.lock.lastTid cfg.n with h | h
      · exact hq _ h
      · exact outside_idle cfg s hr _ h
    rw [hidle] at hp; cases hp

/-! ### `Event` -/

theorem event_return (cfg : Cfg) (s s' : State) (t : Nat) (v : Variant) (b : Bool) (hinv : Inv cfg s)
    (hpc : (s.th t).pc = .eRel (.bool b)) (hs : step cfg s t v = some s') :
    (s'.flag = 1 ↔ b = true) ∧ s'.flag ≤ 1 ∧ (s'.th t).pc = .idle ∧
    (∀ o rest, (s.th t).script = o :: rest → (s'.th t).rets = (o, .bool b) :: (s.th t).rets) := by
  have hlt := step_lt cfg s s' t v hs
  have hnle : ¬ cfg.n ≤ t := by omega
  have hm : isMine s.lock t = true := by
    have := (hinv.thr t hlt).pc; rw [hpc] at this; exact this.1
  have hm' := (isMine_iff s.lock t).1 hm
  have hf := hinv.hf hm'.1
  rw [hm'.2, hpc] at hf
  simp only [holderFacts] at hf
  have hrel := release_of_mine _ _ _ hinv.lock hm
  have hfin : ∀ o rest, (s.th t).script = o :: rest →
      ((s.th t).finish (.bool b)).rets = (o, .bool b) :: (s.th t).rets := by
    intro o rest hsc; simp [TS.finish, hsc]
  unfold step at hs
  rw [if_neg hnle] at hs
  simp only [hpc] at hs
  cases v <;> simp only [] at hs
  · split at hs
    · simp only [Option.some.injEq] at hs; subst hs
      simp only [upd_same, finish_pc]
      refine ⟨?_, ?_, trivial, hfin⟩
      · rw [hf]; cases b <;> simp
      · rw [hf]; cases b <;> simp
    · exfalso
      have := hrel.1
      simp_all
  · cases hs
  · cases hs

/-! ### the second-level invariant (in-flight waiters) -/

/-- between leaving the sleep and `_woken_count.release()` -/
def wF : PC → Nat
  | .w4 .. => 1
  | _ => 0

def sumF (s : State) (N : Nat) : Nat := sumTo (fun u => wF (s.th u).pc) N

/-- facts about a `notify` in progress that saw `_woken_count = 0` with no waiter in flight and
    has not been disturbed by a time-out since -/
def cleanFacts (p : PC) (s : State) : Prop :=
  match p with
  | .n4 | .n5 => s.woken = 0 ∧ s.inflight = 0
  | .n6 => s.woken + s.inflight = s.wakes
  | .n7 => s.wakes = 1
  | _ => True

structure Inv2 (cfg : Cfg) (s : State) : Prop where
  base : Inv cfg s
  infl : s.inflight = sumF s cfg.n
  cf : 0 < s.lock.count → s.clean = true → cleanFacts (s.th s.lock.lastTid).pc s

def cleanPlain : PC → Bool
  | .n4 | .n5 | .n6 | .n7 => false
  | _ => true

theorem cleanFacts_plain (p : PC) (s : State) (h : cleanPlain p = true) : cleanFacts p s := by
  cases p <;> simp [cleanPlain] at h <;> simp [cleanFacts]

theorem cleanPlain_of_plain (p : PC) (h : plainPC p = true) : cleanPlain p = true := by
  cases p <;> simp_all [plainPC, cleanPlain]

theorem cf_mine (s' : State) (th : Nat → TS) (t : Nat) (y : TS) (hth : s'.th = upd th t y)
    (hl : 0 < s'.lock.count → s'.lock.lastTid = t) (hy : s'.clean = true → cleanFacts y.pc s') :
    0 < s'.lock.count → s'.clean = true → cleanFacts (s'.th s'.lock.lastTid).pc s' := by
  intro hc hcl
  rw [hl hc, hth]; simp only [upd_same]; exact hy hcl

theorem cf_other (cfg : Cfg) (s s' : State) (t : Nat) (y : TS) (hinv : Inv2 cfg s)
    (hth : s'.th = upd s.th t y) (hl : s'.lock = s.lock) (hnm : isMine s.lock t = false)
    (hcompat : ∀ p, (0 < s.waitsem → inPost p = true) → holderFacts p s →
       (s.clean = true → cleanFacts p s) → s'.clean = true → cleanFacts p s') :
    0 < s'.lock.count → s'.clean = true → cleanFacts (s'.th s'.lock.lastTid).pc s' := by
  intro hc hcl
  rw [hl] at hc ⊢
  have hne : s.lock.lastTid ≠ t := by
    intro he; rw [isMine_false_iff] at hnm; exact hnm ⟨hc, he⟩
  rw [hth, upd_other _ _ _ _ hne]
  exact hcompat _ (fun hq => (hinv.base.post hq).2) (hinv.base.hf hc) (hinv.cf hc) hcl

theorem cleanFacts_congr (p : PC) (s s' : State) (h1 : s'.woken = s.woken)
    (h2 : s'.inflight = s.inflight) (h3 : s'.wakes = s.wakes) (h : cleanFacts p s) :
    cleanFacts p s' := by
  unfold cleanFacts at *
  rw [h1, h2, h3]; exact h

theorem infl_frame (cfg : Cfg) (s s' : State) (t : Nat) (y : TS) (hinv : Inv2 cfg s) (ht : t < cfg.n)
    (hth : s'.th = upd s.th t y)
    (hloc : s'.inflight + wF (s.th t).pc = s.inflight + wF y.pc) :
    s'.inflight = sumF s' cfg.n := by
  have hF := sumTo_upd wF s.th t y cfg.n ht
  have hi := hinv.infl
  unfold sumF at *
  rw [hth]
  omega

theorem inflight_pos (cfg : Cfg) (s : State) (t : Nat) (hinv : Inv2 cfg s) (ht : t < cfg.n)
    (h : wF (s.th t).pc = 1) : 1 ≤ s.inflight := by
  have := sumTo_ge (fun u => wF (s.th u).pc) cfg.n t ht
  have hi := hinv.infl
  unfold sumF at hi
  omega

@[simp] theorem wF_raise (x : TS) (r : Ret) : wF (x.raise r).pc = 0 := by
  rcases raise_pc x r with h | h <;> rw [h] <;> rfl
@[simp] theorem wF_waitReturn (x : TS) (r : Bool) : wF (x.waitReturn r).pc = 0 := by
  rcases waitReturn_pc x r with h | h <;> rw [h] <;> rfl
@[simp] theorem wF_notifyAllReturn (x : TS) : wF (x.notifyAllReturn).pc = 0 := by
  rcases notifyAllReturn_pc x with h | h <;> rw [h] <;> rfl
theorem wF_enter (s : State) (t : Nat) (x : TS) (first : PC) (h : wF first = 0) :
    wF (enter s t x first).pc = 0 := by
  rcases enter_pc s t x first with h1 | h1 | h1 <;> rw [h1] <;> first | exact h | rfl

theorem step_infl (cfg : Cfg) (s s' : State) (t : Nat) (v : Variant) (hinv2 : Inv2 cfg s)
    (h : step cfg s t v = some s') : s'.inflight = sumF s' cfg.n := by
  have hinv := hinv2.base
  step_split
  all_goals (refine infl_frame cfg s _ t _ hinv2 hlt rfl ?_)
  all_goals (simp only [*, goto_pc, finish_pc, wF_raise, wF_waitReturn, wF_notifyAllReturn,
    wF_enter _ _ _ PC.w1 rfl, wF_enter _ _ _ PC.n1 rfl, wF_enter _ _ _ PC.a1 rfl])
  all_goals (simp only [wF])
  all_goals try omega
  all_goals (
    have := inflight_pos cfg s t hinv2 hlt (by simp only [*]; rfl)
    omega)

theorem cleanFacts_take (p : PC) (s s' : State) (hp : inPost p = true) (hq : 0 < s.waitsem)
    (hf : holderFacts p s) (h1 : s'.woken = s.woken) (h2 : s'.inflight = s.inflight + 1)
    (h3 : s'.wakes = s.wakes + 1) (h : cleanFacts p s) : cleanFacts p s' := by
  cases p <;> simp [inPost] at hp <;> simp only [cleanFacts, holderFacts] at * <;> omega

theorem cleanFacts_announce (p : PC) (s s' : State) (hi : 1 ≤ s.inflight)
    (h1 : s'.woken = s.woken + 1) (h2 : s'.inflight = s.inflight - 1)
    (h3 : s'.wakes = s.wakes) (h : cleanFacts p s) : cleanFacts p s' := by
  cases p <;> simp only [cleanFacts] at * <;> omega

theorem step_cf (cfg : Cfg) (s s' : State) (t : Nat) (v : Variant) (hinv2 : Inv2 cfg s)
    (h : step cfg s t v = some s') :
    0 < s'.lock.count → s'.clean = true → cleanFacts (s'.th s'.lock.lastTid).pc s' := by
  have hinv := hinv2.base
  step_split
  -- scripted release()
  all_goals try (
    have hk := lockRel_rlock cfg s t hT ‹_›
    by_cases hm : isMine s.lock t = true
    · have hr := release_of_mine _ _ _ hL hm
      have hm2 := (isMine_iff s.lock t).1 hm
      exact cf_mine _ s.th t _ rfl (fun _ => hr.2.2.2.trans hm2.2) (fun _ => cleanFacts_plain _ _ (by simp [cleanPlain]))
    · have hm' : isMine s.lock t = false := by simpa using hm
      have hr := release_rlock_not_mine s.lock t (hL.kind.trans hk) hm'
      exact cf_other cfg s _ t _ hinv2 rfl (by simp only [hr]) hm'
        (fun p _ _ hp hcl => cleanFacts_congr p s _ rfl rfl rfl (hp hcl)))
  -- acquire
  all_goals try (
    have ham := acquired_mine _ _ _ hL ‹_›
    refine cf_mine _ s.th t _ rfl (fun _ => ((isMine_iff _ _).1 ham.1).2) (fun _ => cleanFacts_plain _ _ ?_)
    first | rfl | exact cleanPlain_of_plain _ (plain_waitReturn _ _) | (simp [cleanPlain]; done))
  -- release by the owner
  all_goals try (
    have hmine : isMine s.lock t = true := by first | exact hpcT | exact hpcT.1
    have hr := release_of_mine _ _ _ hL hmine
    have hm2 := (isMine_iff s.lock t).1 hmine
    simp only [*] at hr
    refine cf_mine _ s.th t _ rfl (fun _ => by first | exact hr.2.2.2.trans hm2.2 | exact hr.2.2.2) (fun _ => cleanFacts_plain _ _ ?_)
    first | rfl | (simp [cleanPlain]; done))
  -- lock unchanged, thread does not own it (a waiter leaving the sleep or announcing it)
  all_goals try (
    have hnm : isMine s.lock t = false := hpcT.1
    refine cf_other cfg s _ t _ hinv2 rfl rfl hnm (fun p hp hf hcf hcl => ?_)
    first
      | (exfalso; simp at hcl; done)
      | exact cleanFacts_take p s _ (hp ‹_›) ‹_› hf rfl rfl rfl (hcf hcl)
      | exact cleanFacts_announce p s _ (inflight_pos cfg s t hinv2 hlt (by simp only [*]; rfl)) rfl rfl rfl (hcf hcl)
      | exact cleanFacts_congr p s _ rfl rfl rfl (hcf hcl))
  -- lock unchanged, thread owns it
  all_goals try (
    mine_facts
    have hcf := hinv2.cf hm.1
    rw [hm.2] at hcf
    simp only [*, cleanFacts] at hcf
    refine cf_mine _ s.th t _ rfl (fun _ => hm.2) (fun hcl => ?_)
    first
      | (refine cleanFacts_plain _ _ ?_
         first | rfl | exact cleanPlain_of_plain _ (plain_notifyAllReturn _) | exact cleanPlain_of_plain _ (plain_enter _ _ _ _ rfl) | (simp [cleanPlain]; done))
      | (simp only [goto_pc, cleanFacts] at hcl ⊢; simp at hcl; simp [inPost] at hpost; omega)
      | (simp only [goto_pc, cleanFacts] at hcl ⊢; simp [inPost] at hpost; have := hcf hcl; omega)
      | (simp only [goto_pc, cleanFacts] at hcl ⊢; have := hcf hcl; omega))
  -- lock unchanged, ownership unknown
  all_goals try (
    by_cases hmine : isMine s.lock t = true
    · have hm := (isMine_iff s.lock t).1 hmine
      refine cf_mine _ s.th t _ rfl (fun _ => hm.2) (fun _ => cleanFacts_plain _ _ ?_)
      first | rfl | exact cleanPlain_of_plain _ (plain_enter _ _ _ _ rfl) | (simp [cleanPlain]; done)
    · have hnm : isMine s.lock t = false := by simpa using hmine
      exact cf_other cfg s _ t _ hinv2 rfl rfl hnm (fun p _ _ hcf hcl => cleanFacts_congr p s _ rfl rfl rfl (hcf hcl)))

theorem inv2_init (cfg : Cfg) (hwf : cfg.wf) : Inv2 cfg (init cfg) := by
  refine ⟨inv_init cfg hwf, ?_, ?_⟩
  · have : sumF (init cfg) cfg.n = 0 := sumTo_zero_of _ _ (fun u _ => by simp [init, wF])
    rw [this]; rfl
  · intro h; exfalso; cases hk : cfg.kind <;> simp [init, mkLockOf, mkRLock, mkLock, hk] at h

theorem inv2_step (cfg : Cfg) (s s' : State) (t : Nat) (v : Variant) (hinv : Inv2 cfg s)
    (h : step cfg s t v = some s') : Inv2 cfg s' :=
  ⟨inv_step cfg s s' t v hinv.base h, step_infl cfg s s' t v hinv h, step_cf cfg s s' t v hinv h⟩

theorem inv2_reachable (cfg : Cfg) (hwf : cfg.wf) (s : State) (h : Reachable cfg s) : Inv2 cfg s := by
  induction h with
  | init => exact inv2_init cfg hwf
  | step _ hs ih => exact inv2_step cfg _ _ _ _ ih hs

theorem clean_notify_woke_one (cfg : Cfg) (s : State) (t : Nat) (hinv : Inv2 cfg s) (ht : t < cfg.n)
    (hpc : (s.th t).pc = .n7) (hc : s.clean = true) : s.wakes = 1 ∧ s.waitsem = 0 := by
  have hm : isMine s.lock t = true := by
    have := (hinv.base.thr t ht).pc; rw [hpc] at this; exact this
  have hm' := (isMine_iff s.lock t).1 hm
  have hcf := hinv.cf hm'.1 hc
  have hf := hinv.base.hf hm'.1
  rw [hm'.2, hpc] at hcf hf
  simp only [cleanFacts, holderFacts] at hcf hf
  omega

/-- a schedule that runs is a path of `Reachable` -/
theorem reachable_runSched (cfg : Cfg) (s s' : State) (sched : List (Nat × Variant))
    (hr : Reachable cfg s) (h : runSched cfg s sched = some s') : Reachable cfg s' := by
  induction sched generalizing s with
  | nil => simp [runSched] at h; subst h; exact hr
  | cons p rest ih =>
    obtain ⟨t, v⟩ := p
    simp only [runSched] at h
    cases hs : step cfg s t v with
    | none => rw [hs] at h; cases h
    | some s1 => rw [hs] at h; exact ih s1 (.step hr hs) h

end LokyModel.Cond
