import LokyModel.Lemmas.ExecMgmtU
/-! Registered workers never exceed `max_workers`: every spawn happens under `mgmt`, right after a
    re-check of the bound, and `mgmt` excludes every other spawner (`MgmtInv`). -/
namespace LokyModel.Exec

theorem mgmtInv_step {s s' : St} {a : Actor} {v : Variant} (h : MgmtInv s) (hs : step s a v = some s') :
    MgmtInv s' := by
  unfold step at hs
  cases a with
  | U k => simp only [] at hs; split at hs; exact mgmtInv_stepU s s' k v h hs; cases hs
  | M => exact mgmtInv_stepM s s' v h hs
  | F => exact mgmtInv_stepF s s' v h hs
  | W p => simp only [] at hs; split at hs; exact mgmtInv_stepW s s' p v h hs; cases hs

theorem mgmtInv_reachable {cfg : Cfg} {s : St} (h : Reachable cfg s) : MgmtInv s := by
  induction h with
  | init => exact mgmtInv_init cfg
  | step _ hs ih => exact mgmtInv_step ih hs

def spawningU : UPc → Bool
  | .subExit | .subPStart => true
  | _ => false
def spawningM : MPc → Bool
  | .rspExit | .rspStart => true
  | _ => false

structure SpawnInv (s : St) : Prop where
  le : s.procDict.length ≤ s.cfg.maxWorkers
  u : ∀ k, spawningU (s.upc k) = true → s.procDict.length < s.cfg.maxWorkers
  m : spawningM s.mpc = true → s.procDict.length < s.cfg.maxWorkers

theorem spawnInv_init (cfg : Cfg) : SpawnInv (init cfg) := by
  constructor <;> simp [init, spawningU, spawningM]

/-! how the continuations treat `procDict` and the spawning program counters -/
@[simp] theorem spawn_procDict_length (s : St) : (spawn s).procDict.length = s.procDict.length + 1 := by
  simp [spawn]
theorem mKillNext_len (s : St) : (mKillNext s).procDict.length ≤ s.procDict.length := by
  unfold mKillNext; split <;> simp
theorem mJoinProcs_len (s : St) : (mJoinProcs s).procDict.length ≤ s.procDict.length := by
  unfold mJoinProcs; split <;> simp
theorem mAfterFlag_len (s : St) : (mAfterFlag s).procDict.length ≤ s.procDict.length := by
  unfold mAfterFlag; (repeat' split) <;> first | exact mKillNext_len _ | simp

@[simp] theorem spawningM_mAddFuel (n : Nat) (s : St) : spawningM (mAddFuel n s).mpc = false := by
  induction n generalizing s with
  | zero => rfl
  | succ n ih => unfold mAddFuel; (repeat' split) <;> first | rfl | simp [*]
@[simp] theorem spawningM_mAdd (s : St) : spawningM (mAdd s).mpc = false := by unfold mAdd; simp
@[simp] theorem spawningM_mAddF (s : St) : spawningM (mAddF s).mpc = false := by
  rcases mAddF_mpc s with ⟨i, _, h⟩ | ⟨_, h, _⟩ | ⟨_, h, _⟩ <;> rw [h] <;> rfl
@[simp] theorem spawningM_mJoinStart (s : St) : spawningM (mJoinStart s).mpc = false := rfl
@[simp] theorem spawningM_mKillNext (s : St) : spawningM (mKillNext s).mpc = false := by
  unfold mKillNext; split <;> rfl
@[simp] theorem spawningM_mAfterItem (s : St) : spawningM (mAfterItem s).mpc = false := by
  unfold mAfterItem; split <;> first | rfl | simp
@[simp] theorem spawningM_mDropRef (s : St) : spawningM (mDropRef s).mpc = false := by
  unfold mDropRef; simp only []; split <;> first | rfl | simp
@[simp] theorem spawningM_mRespawnCheck (s : St) : spawningM (mRespawnCheck s).mpc = false := by
  unfold mRespawnCheck; simp only []; (repeat' split) <;> first | rfl | simp
@[simp] theorem spawningM_mProcess (s : St) (r) : spawningM (mProcess s r).mpc = false := by
  unfold mProcess; (repeat' split) <;> first | rfl | simp
@[simp] theorem spawningM_mJoinClose (s : St) : spawningM (mJoinClose s).mpc = false := by
  unfold mJoinClose; rfl
@[simp] theorem spawningM_mJoinLoop (s : St) (n sent cool) : spawningM (mJoinLoop s n sent cool).mpc = false := by
  unfold mJoinLoop; split <;> first | rfl | simp
@[simp] theorem spawningM_mAfterPut (s : St) (k n sent cool) : spawningM (mAfterPut s k n sent cool).mpc = false := by
  unfold mAfterPut; split <;> first | rfl | simp
@[simp] theorem spawningM_mAfterFlag (s : St) : spawningM (mAfterFlag s).mpc = false := by
  unfold mAfterFlag; (repeat' split) <;> first | rfl | simp
@[simp] theorem spawningM_mJoinProcs (s : St) : spawningM (mJoinProcs s).mpc = false := by
  unfold mJoinProcs; split <;> rfl
@[simp] theorem spawningM_mRelExitNext (s : St) (ps n) : spawningM (mRelExitNext s ps n).mpc = false := by
  unfold mRelExitNext; split <;> rfl
@[simp] theorem spawningM_mAliveNext (s : St) (ps cnt n sent cool) :
    spawningM (mAliveNext s ps cnt n sent cool).mpc = false := by
  unfold mAliveNext; split <;> rfl
theorem spawningM_mSpawnLoop (s : St) :
    spawningM (mSpawnLoop s).mpc = true → s.procDict.length < s.cfg.maxWorkers := by
  unfold mSpawnLoop; split <;> simp_all [spawningM]

theorem spawningU_inMgmtU (pc : UPc) (h : spawningU pc = true) : inMgmtU pc = true := by
  cases pc <;> simp_all [spawningU, inMgmtU]
theorem spawningM_inMgmtM (pc : MPc) (h : spawningM pc = true) : inMgmtM pc = true := by
  cases pc <;> simp_all [spawningM, inMgmtM]

set_option maxHeartbeats 4000000 in
theorem spawnInv_stepM (s s' : St) (v : Variant) (hi : MgmtInv s) (h : SpawnInv s) (hs : stepM s v = some s') :
    SpawnInv s' := by
  obtain ⟨hl, hu, hm⟩ := h
  obtain ⟨hv, iu, im, iw⟩ := hi
  unfold stepM at hs
  crack_step
  all_goals (refine ⟨?_, ?_, ?_⟩)
  all_goals (first
    | (simp_all; done)
    | (simp_all [spawningM]; done)
    | (intro k hk; have h1 := hu k; simp_all; done)
    | (simp_all; omega)
    | (simp_all [spawningM]; omega)
    | (intro hk; have h1 := spawningM_mSpawnLoop _ hk; simp_all; done)
    | (intro hk; have h1 := spawningM_mSpawnLoop _ hk; simp_all; omega)
    | (refine Nat.le_trans (mKillNext_len _) ?_; simp_all; done)
    | (refine Nat.le_trans (mJoinProcs_len _) ?_; simp_all; done)
    | (refine Nat.le_trans (mAfterFlag_len _) ?_; simp_all; done)
    | (refine Nat.le_trans (List.length_erase_le) ?_; simp_all; done)
    | (intro k hk; simp only [mAfterFlag_upc, mKillNext_upc, mJoinProcs_upc, failAll_upc] at hk; have h0 := hu k hk; refine Nat.lt_of_le_of_lt (mKillNext_len _) ?_; simp_all; done)
    | (intro k hk; simp only [mAfterFlag_upc, mKillNext_upc, mJoinProcs_upc, failAll_upc] at hk; have h0 := hu k hk; refine Nat.lt_of_le_of_lt (mJoinProcs_len _) ?_; simp_all; done)
    | (intro k hk; simp only [mAfterFlag_upc, mKillNext_upc, mJoinProcs_upc, failAll_upc] at hk; have h0 := hu k hk; refine Nat.lt_of_le_of_lt (mAfterFlag_len _) ?_; simp_all; done)
    | (intro k hk; simp only [mAfterFlag_upc, mKillNext_upc, mJoinProcs_upc, failAll_upc] at hk; have h0 := hu k hk; refine Nat.lt_of_le_of_lt (List.length_erase_le) ?_; simp_all; done)
    | (intro k hk; simp at hk; have h1 := iu k (spawningU_inMgmtU _ hk); simp_all [inMgmtM]; done)
    | skip)

set_option maxHeartbeats 4000000 in
theorem spawnInv_stepF (s s' : St) (v : Variant) (h : SpawnInv s) (hs : stepF s v = some s') : SpawnInv s' := by
  obtain ⟨hl, hu, hm⟩ := h
  unfold stepF at hs
  crack_step
  all_goals (refine ⟨?_, ?_, ?_⟩)
  all_goals (first
    | (simp_all; done)
    | (intro k hk; have h1 := hu k; simp_all; done))

set_option maxHeartbeats 4000000 in
theorem spawnInv_stepW (s s' : St) (p : Pid) (v : Variant) (h : SpawnInv s) (hs : stepW s p v = some s') :
    SpawnInv s' := by
  obtain ⟨hl, hu, hm⟩ := h
  unfold stepW at hs
  crack_step
  all_goals (refine ⟨?_, ?_, ?_⟩)
  all_goals (first
    | (simp_all; done)
    | (intro k hk; have h1 := hu k; simp_all; done))

end LokyModel.Exec
