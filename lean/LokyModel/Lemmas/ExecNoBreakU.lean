import LokyModel.Lemmas.ExecNoBreakM2
namespace LokyModel.Exec

theorem nb_frame (s s' : St) (h : NBInv s) (hw : s'.w = s.w) (hrq : s'.rqPipe = s.rqPipe) (hm : s'.mpc = s.mpc)
    (hpd : s'.procDict = s.procDict) (hnp : s'.nextPid = s.nextPid) (hbr : s'.broken = s.broken) : NBInv s' := by
  obtain ⟨hnb, hmp, hann, hgood, hpipe, hsnap, hfresh, hnd, hkp⟩ := h
  refine ⟨by rw [hbr]; exact hnb, by rw [hm]; exact hmp, ?_, by rw [hw]; exact hgood, by rw [hrq]; exact hpipe,
    by rw [hm, hpd]; exact hsnap, by rw [hpd, hnp]; exact hfresh, by rw [hpd]; exact hnd, by rw [hm, hpd, hnp]; exact hkp⟩
  intro q hq hl
  rw [hpd] at hq; rw [hw] at hl
  rcases hann q hq hl with h1 | h1
  · exact Or.inl (by rw [hrq]; exact h1)
  · exact Or.inr (by rw [hm]; exact h1)

set_option maxHeartbeats 8000000 in
theorem nbInv_stepF (s s' : St) (v : Variant) (h : NBInv s) (hs : stepF s v = some s') : NBInv s' := by
  unfold stepF at hs
  crack_step
  all_goals (apply nb_frame s _ h <;> (simp; done))

/-- the manager thread is started at most once: a user about to start it sees that none exists -/
def TStartInv (s : St) : Prop := ∀ k, s.upc k = .subTStart → s.mpc = .none

theorem atT_upd (f : Nat → UPc) (k j : Nat) (pc : UPc) :
    (upd f k pc j = .subTStart) ↔ (if j = k then pc = .subTStart else f j = .subTStart) := by
  unfold upd; split <;> simp

theorem uNext_notT (s : St) (k j : Nat) (h : (uNext s k).upc j = .subTStart) : j ≠ k ∧ s.upc j = .subTStart := by
  unfold uNext at h
  split at h <;> (simp only [setU_upc, atT_upd] at h; split at h <;> simp_all)
theorem uRelease_notT (s : St) (k j : Nat) (h : (uRelease s k).upc j = .subTStart) : j ≠ k ∧ s.upc j = .subTStart := by
  unfold uRelease at h; simp only [] at h
  split at h
  · simp only [setU_upc, atT_upd] at h; split at h <;> simp_all
  · have := uNext_notT _ k j h; simpa using this
theorem uDispatch_notT (s : St) (k j : Nat) (op : UOp) (h : (uDispatch s k op).upc j = .subTStart) :
    j ≠ k ∧ s.upc j = .subTStart := by
  unfold uDispatch at h
  (repeat' split at h) <;> first
    | (have := uNext_notT _ k j h; simpa using this)
    | (have := uRelease_notT _ k j h; simpa using this)
    | (simp only [setU_upc, atT_upd] at h; split at h <;> simp_all)
theorem uSpawnLoop_T (s : St) (k j : Nat) (h : (uSpawnLoop s k).upc j = .subTStart) :
    (j = k ∧ s.mpc = .none) ∨ (j ≠ k ∧ s.upc j = .subTStart) := by
  unfold uSpawnLoop at h
  (repeat' split at h) <;> (simp only [setU_upc, atT_upd] at h; split at h <;> simp_all)

set_option maxHeartbeats 8000000 in
theorem tstartInv_stepU (s s' : St) (k : Nat) (v : Variant) (hi : MgmtInv s) (h : TStartInv s)
    (hs : stepU s k v = some s') : TStartInv s' := by
  unfold TStartInv at h ⊢
  unfold stepU at hs
  crack_step
  all_goals (intro j hj)
  all_goals (first
    | (have h1 := uNext_notT _ k j hj; have h2 := h j; simp_all; done)
    | (have h1 := uRelease_notT _ k j hj; have h2 := h j; simp_all; done)
    | (have h1 := uDispatch_notT _ k j _ hj; have h2 := h j; simp_all; done)
    | (have h0 := uSpawnLoop_T _ k j hj; rcases h0 with ⟨h1, h2⟩ | ⟨h1, h2⟩ <;> (have h3 := h j; simp_all [spawn]); done)
    | (simp only [setU_upc, atT_upd] at hj; have h2 := h j; split at hj <;> simp_all; done)
    | (exfalso
       simp only [setU_upc, atT_upd] at hj
       split at hj
       · simp at hj
       · have h1 := hi.u j (by simp [hj, inMgmtU])
         have h2 := hi.u k (by simp [‹s.upc k = _›, inMgmtU])
         simp_all)
    | skip)

set_option maxHeartbeats 8000000 in
theorem nbInv_stepU (s s' : St) (k : Nat) (v : Variant) (ht : TStartInv s) (h : NBInv s)
    (hs : stepU s k v = some s') : NBInv s' := by
  have htk := ht k
  unfold stepU at hs
  crack_step
  all_goals (first
    | (apply nb_frame s _ h <;> (simp; done))
    | (apply nb_frame (spawn s) _ (nb_spawn s h) <;> (simp; done))
    | (have hm := htk ‹_›
       refine nb_same_hold s _ h (by simp) (by simp) (by simp) (by simp) (by simp) (by simp [brokenPath]) ?_ (by simp) (by intro q; simp [poppedPc])
       intro q hq; rw [hm] at hq; simp [mHolds] at hq)
    | skip)

end LokyModel.Exec
