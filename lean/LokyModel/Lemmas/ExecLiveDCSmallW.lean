import LokyModel.Lemmas.ExecLiveDCSmallBase
/-! `dcSmall`: steps of a worker process (its death anywhere included) and of the queue-feeder thread. -/
namespace LokyModel.Exec.DCSmallP
open StaticP StaticCP DynP
set_option linter.unusedSimpArgs false

/-! ### worker steps -/

/-- everything the invariant needs to know about a step of worker `p` of a dynamic pool, crash or not -/
structure WSumS (s s' : St) (p : Pid) : Prop where
  oth : ∀ q, q ≠ p → s'.w q = s.w q
  wn : wNeverD (s'.w p) = false
  cq : ∀ m ∈ s'.cqPipe, m ∈ s.cqPipe
  rne : s.rqPipe ≠ [] → s'.rqPipe ≠ []
  mpc : s'.mpc = s.mpc
  fpc : s'.fpc = s.fpc
  upc : s'.upc = s.upc
  ucur : s'.ucur = s.ucur
  uscript : s'.uscript = s.uscript
  cqBuf : s'.cqBuf = s.cqBuf
  allPids : s'.allPids = s.allPids
  cfg : s'.cfg = s.cfg
  futs : s'.futs = s.futs
  wakeup : s'.wakeup = s.wakeup
  wakeupClosed : s'.wakeupClosed = s.wakeupClosed
  killFlag : s'.killFlag = s.killFlag
  threadReg : s'.threadReg = s.threadReg

set_option maxHeartbeats 8000000 in
theorem wSumS_step (s s' : St) (p : Pid) (v : Variant) (hc : s.cfg.dynPool = true)
    (hl : s.leaky p = false) (hwn : wNeverD (s.w p) = false)
    (hs : stepW s p v = some s') : WSumS s s' p := by
  have ht := dp_timeout hc
  have hlk := dp_leak hc
  have hif := dp_initFail hc
  have hsp := dp_spec hc
  unfold stepW at hs
  crack
  all_goals (first | (simp_all [wNeverD]; done) | skip)
  all_goals constructor
  all_goals (first
    | rfl
    | (simp; done)
    | (intro q hq
       simp [wAfterStart_w_other, wGet_w_other, wDispatch_w_other, wAfterResult_w_other, setW_w_other, die_w_other, hq]; done)
    | (simp [setW_w_self, die_w_self, wGet_w_selfD, wAfterStart_w_selfD, wDispatch_w_selfD, wAfterResult_w_selfD, ht, hc, hl,
         wNeverD, *]; done)
    | (simp [die]; done)
    | (intro r hr; simpa [die] using hr)
    | (intro r hr; simpa using hr)
    | (simp [wAfterStart_w_selfD, ht]; split <;> simp [wNeverD]; done)
    | (simp_all [setW_w_self, die_w_self, wGet_w_selfD, wAfterStart_w_selfD, wDispatch_w_selfD, wAfterResult_w_selfD,
         wNeverD]; done)
    | (cases ‹CMsg› <;>
       simp_all [setW_w_self, die_w_self, wGet_w_selfD, wAfterStart_w_selfD, wDispatch_w_selfD, wAfterResult_w_selfD,
         wNeverD]; done)
    | skip)

theorem smI_stepW (s s' : St) (p : Pid) (v : Variant) (hc : s.cfg.dynPool = true)
    (hp : p ∈ s.allPids) (h : SmI s) (hl : ∀ q, s.leaky q = false) (hs : stepW s p v = some s') : SmI s' := by
  have W := wSumS_step s s' p v hc (hl p) (h.wn p hp) hs
  have hall : ∀ (P : WPc → Bool), (∀ q ∈ s.allPids, P (s.w q) = false) → P (s'.w p) = false →
      ∀ q ∈ s'.allPids, P (s'.w q) = false := by
    intro P h1 h2 q hq
    rw [W.allPids] at hq
    by_cases e : q = p
    · subst e; exact h2
    · rw [W.oth q e]; exact h1 q hq
  have Q := h.q
  refine { rc := ?rc, cr := ?cr, je := ?je, api := ?api, wc := ?wc, pe := ?pe, wn := hall _ h.wn W.wn, q := ?q, tr := ?tr,
           kf := ?kf, nks := ?nks, nkc := ?nkc, nkp := ?nkp, fu := ?fu }
  all_goals try simp only [W.mpc, W.fpc, W.upc, W.ucur, W.uscript, W.cqBuf, W.allPids, W.cfg, W.futs, W.wakeup,
    W.wakeupClosed, W.killFlag, W.threadReg]
  case rc => intro hm; exact W.rne (h.rc hm)
  case cr => exact h.cr
  case je => exact h.je
  case api => exact h.api
  case wc => exact h.wc
  case pe => exact h.pe
  case q =>
    exact { fb := Q.fb, cp := fun m hm => Q.cp m (W.cq m hm), fc := Q.fc, cl := Q.cl, late := Q.late, nb := Q.nb,
            np := fun hf => absurd hf (by simp), nf := Q.nf }
  case tr => exact h.tr
  case kf => exact h.kf
  case nks => exact h.nks
  case nkc => exact h.nkc
  case nkp => exact h.nkp
  case fu => exact h.fu

/-! ### feeder steps -/

set_option maxHeartbeats 4000000 in
theorem fSumS_step (s s' : St) (v : Variant) (hq : QOk s.cqBuf s.cqPipe s.fpc (mLate s.mpc) true)
    (hs : stepF s v = some s') : FSumD s s' := by
  have hfc := hq.fc
  unfold stepF at hs
  crack
  all_goals constructor
  all_goals (first
    | rfl
    | (simp; done)
    | (exact fNext_q _ _ _ _ hq)
    | (have e := ‹s.fpc = FPc.send _›; rw [e] at hq; exact qOk_send _ _ _ _ _ hq)
    | (refine qOk_fpc _ _ _ _ _ _ hq ?_ ?_ ?_ ?_ <;> simp_all [fClose, fStop]; done)
    | (refine qOk_fpc _ _ _ _ _ _ hq ?_ ?_ ?_ ?_ <;> cases ‹CMsg› <;> simp_all [fClose, fStop]; done)
    | (simp [setFut]; done)
    | skip)

theorem smI_stepF (s s' : St) (v : Variant) (h : SmI s) (hs : stepF s v = some s') : SmI s' := by
  have F := fSumS_step s s' v h.q hs
  refine { rc := ?rc, cr := ?cr, je := ?je, api := ?api, wc := ?wc, pe := ?pe, wn := ?wn, q := ?q, tr := ?tr,
           kf := ?kf, nks := ?nks, nkc := ?nkc, nkp := ?nkp, fu := ?fu }
  all_goals try simp only [F.mpc, F.upc, F.ucur, F.uscript, F.allPids, F.cfg, F.w, F.rqPipe,
    F.wakeupClosed, F.killFlag, F.threadReg, F.futs]
  case rc => exact h.rc
  case cr => intro hm; have := h.cr hm; have := F.wk; omega
  case je => exact h.je
  case api => exact h.api
  case wc => exact h.wc
  case pe => exact h.pe
  case wn => exact h.wn
  case q => exact F.q
  case tr => exact h.tr
  case kf => exact h.kf
  case nks => exact h.nks
  case nkc => exact h.nkc
  case nkp => exact h.nkp
  case fu => exact h.fu

end LokyModel.Exec.DCSmallP
