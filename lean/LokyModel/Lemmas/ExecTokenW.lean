import LokyModel.Lemmas.ExecToken
namespace LokyModel.Exec

macro "tokw_close" : tactic => `(tactic| (
  (try simp only [wPreC_wGetPc, wPostC_wGetPc, wPostC_wDispatchPc])
  (try simp_all [wPreC, wPostC, cmsgC, rmsgC])
  (try omega)))

set_option maxHeartbeats 4000000 in
theorem tokInv_stepW (s s' : St) (p : Pid) (v : Variant) (h : TokInv s) (hp : p ∈ s.allPids)
    (hs : stepW s p v = some s') : TokInv s' := by
  unfold stepW at hs
  crack_step
  all_goals (first
    | (refine tok_wmove s h p hp _ _ rfl (by simp) ?_ ?_ <;> intro i <;> tokw_close <;> done)
    | (refine tok_wmove s h p hp _ _ (wGet_w' _ _) (by simp) ?_ ?_ <;> intro i <;> tokw_close <;> done)
    | (refine tok_wmove s h p hp _ _ (wAfterStart_w' _ _) (by simp) ?_ ?_ <;> intro i <;> split <;> tokw_close <;> done)
    | (refine tok_wmove s h p hp _ _ (wDispatch_w' _ _ _) (by simp) ?_ ?_ <;> intro i <;>
        (try simp only [wPostC_wDispatchPc]) <;>
        (try (generalize hX : wPreC i (wDispatchPc _ _) = X at *
              have hd : X ≤ cmsgC i _ := hX ▸ wPreC_wDispatchPc _ _ _)) <;> tokw_close <;> done)
    | (obtain ⟨pc, hw, hpc⟩ := wAfterResult_w' { s with rqWlock := s.rqWlock + 1, oRqWlock := none } p
       refine tok_wmove s h p hp _ pc hw (by simp) ?_ ?_ <;> intro i <;>
        rcases hpc with rfl | rfl | rfl <;> tokw_close <;> done)
    | skip)

end LokyModel.Exec
