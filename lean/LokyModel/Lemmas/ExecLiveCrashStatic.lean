import LokyModel.Lemmas.ExecLiveCrashStaticW
import LokyModel.Lemmas.ExecLiveCrashStaticF
import LokyModel.Lemmas.ExecLiveCrashStaticM2
import LokyModel.Lemmas.ExecLiveCrashStaticU
/-!
# `staticC` and `smallOk`, strengthened to `staticSmallC'`, are invariant along lock-free crash runs of a static pool

`staticSmallC' s = staticC s && smallOk s && staticXC s` (`LokyModel/ExecLiveCrashStaticDef.lean`).  Every step — ordinary
steps of any actor, the manager's `kill`, and the death of a worker (at a lock-free point or anywhere else: the hypothesis
`StepLF` is not needed for this ingredient) — preserves it, given, about the pre-state only: the scope `Cfg.staticPool`,
`PidsInv` (process ids are fresh), `TStartInv` (a thread about to start the manager thread has found that there is none) and
`LeakFree` (no worker has the leak mark; an inductive invariant of static pools by itself, `leakFree_step`, crashes
included).  Per actor: `ExecLiveCrashStaticW/F/M/M2/U.lean`.
-/
namespace LokyModel.Exec
open StaticP StaticCP

theorem staticSmallC'_init (cfg : Cfg) (hc : cfg.staticPool = true) : staticSmallC' (init cfg) = true :=
  bool_of_ci _ (ci_init cfg hc)

theorem staticSmallC'_stepLF {s s' : St} {a : Actor} {v : Variant} (hs : step s a v = some s')
    (_hlf : StepLF s a v) (hc : s.cfg.staticPool = true)
    (hp : PidsInv s) (hts : TStartInv s) (hl : LeakFree s)
    (h : staticSmallC' s = true) : staticSmallC' s' = true := by
  have hi := ci_of_bool s h
  apply bool_of_ci
  unfold step at hs
  cases a with
  | U k =>
    simp only [] at hs; split at hs
    · exact ci_stepU s s' k v hi hp hts (by assumption) hs
    · cases hs
  | M => exact ci_stepM s s' v hi hp hs
  | F => exact ci_stepF s s' v hi hs
  | W p =>
    simp only [] at hs; split at hs
    · exact ci_stepW s s' p v hc (by assumption) hi hl hs
    · cases hs

theorem staticC_of' (s : St) (h : staticSmallC' s = true) : staticC s = true := by
  unfold staticSmallC' at h
  simp only [Bool.and_eq_true] at h
  exact h.1.1

theorem smallOk_of' (s : St) (h : staticSmallC' s = true) : smallOk s = true := by
  unfold staticSmallC' at h
  simp only [Bool.and_eq_true] at h
  exact h.1.2

/-! ### with `LeakFree`: a self-contained invariant of `ReachableLF` -/

/-- both parts together -/
def StaticCInv (s : St) : Prop := staticSmallC' s = true ∧ LeakFree s

theorem staticCInv_init (cfg : Cfg) (hc : cfg.staticPool = true) : StaticCInv (init cfg) :=
  ⟨staticSmallC'_init cfg hc, leakFree_init cfg⟩

theorem staticCInv_stepLF {s s' : St} {a : Actor} {v : Variant} (hs : step s a v = some s')
    (hlf : StepLF s a v) (hc : s.cfg.staticPool = true) (hp : PidsInv s) (hts : TStartInv s)
    (h : StaticCInv s) : StaticCInv s' :=
  ⟨staticSmallC'_stepLF hs hlf hc hp hts h.2 h.1, leakFree_step hs hc h.2⟩

/-- the ingredient holds in every state of a lock-free crash run of a static pool -/
theorem staticCInv_reachableLF {cfg : Cfg} (hc : cfg.staticPool = true) {s : St} (h : ReachableLF cfg s) : StaticCInv s := by
  induction h with
  | init => exact staticCInv_init cfg hc
  | step hr hv hs ih =>
    have hcfg := cfg_reachable hr.reachable
    exact staticCInv_stepLF hs (.inl hv) (by rw [hcfg]; exact hc) (pidsInv_reachable hr.reachable)
      (tstartInv_reachable hr.reachable) ih
  | crash hr hlf hs ih =>
    have hcfg := cfg_reachable hr.reachable
    exact staticCInv_stepLF hs (.inr ⟨_, rfl, hlf⟩) (by rw [hcfg]; exact hc) (pidsInv_reachable hr.reachable)
      (tstartInv_reachable hr.reachable) ih

theorem staticC_reachableLF {cfg : Cfg} (hc : cfg.staticPool = true) {s : St} (h : ReachableLF cfg s) : staticC s = true :=
  staticC_of' s (staticCInv_reachableLF hc h).1

theorem smallOk_reachableLF {cfg : Cfg} (hc : cfg.staticPool = true) {s : St} (h : ReachableLF cfg s) : smallOk s = true :=
  smallOk_of' s (staticCInv_reachableLF hc h).1

end LokyModel.Exec
