import LokyModel.Lemmas.ExecLiveDCSmallBase
/-! `dcSmall`: steps of a user thread. -/
namespace LokyModel.Exec.DCSmallP
open StaticP StaticCP DynP
set_option linter.unusedSimpArgs false

set_option maxHeartbeats 16000000 in
theorem uDispatch_sumS (s : St) (k : Nat) (op : UOp) (h : SmI s) (hk : k < s.cfg.scripts.length)
    (hpc : s.upc k = .api) (hcur : s.ucur k = some op) : USumC s (uDispatch s k op) k := by
  have hkf := h.kf
  have hnks := h.nks k hk
  have hnkc := h.nkc k hk
  have hnkp := h.nkp k hk
  have hpe := h.pe k hk
  have htr := h.tr
  have hop : op.isKill = false := by rw [hcur] at hnkc; simpa [ucurOk] using hnkc
  unfold uDispatch
  repeat' split
  ubattery

set_option maxHeartbeats 16000000 in
theorem uSumS_step (s s' : St) (k : Nat) (v : Variant) (h : SmI s) (hts : TStartInv s) (hk : k < s.cfg.scripts.length)
    (hs : stepU s k v = some s') : USumC s s' k := by
  have hkf := h.kf
  have hnks := h.nks k hk
  have hnkc := h.nkc k hk
  have hnkp := h.nkp k hk
  have hpe := h.pe k hk
  have htr := h.tr
  have htsn := hts k
  unfold stepU at hs
  crack
  all_goals (first | (exact uDispatch_sumS s k _ h hk ‹_› ‹_›) | skip)
  ubattery

theorem smI_stepU (s s' : St) (k : Nat) (v : Variant) (h : SmI s) (_hp : PidsInv s) (hts : TStartInv s)
    (hk : k < s.cfg.scripts.length) (hs : stepU s k v = some s') : SmI s' := by
  have U := uSumS_step s s' k v h hts hk hs
  have hmpc : s'.mpc = s.mpc ∨ (s.mpc = .none ∧ s'.mpc = .start) := U.mpc
  have hnone : s'.mpc = .none → s.mpc = .none := by
    intro hm
    rcases hmpc with e | ⟨_, e⟩
    · rw [← e]; exact hm
    · rw [e] at hm; cases hm
  have hall : ∀ (P : WPc → Bool), P .start = false → (∀ q ∈ s.allPids, P (s.w q) = false) →
      ∀ q ∈ s'.allPids, P (s'.w q) = false := by
    intro P h0 h1 q hq
    rcases U.sp with ⟨e1, _, e3⟩ | ⟨e1, _, e3⟩
    · rw [e3]; rw [e1] at hq; exact h1 q hq
    · rw [e3, upd_apply']
      split
      · exact h0
      · rename_i hne
        rw [e1] at hq
        rcases List.mem_append.1 hq with hq | hq
        · exact h1 q hq
        · exact absurd (by simpa using hq) hne
  have Q := h.q
  refine { rc := ?rc, cr := ?cr, je := ?je, api := ?api, wc := ?wc, pe := ?pe, wn := hall _ rfl h.wn, q := ?qq, tr := U.tr,
           kf := U.kf, nks := ?nks, nkc := ?nkc, nkp := ?nkp, fu := ?fu }
  all_goals try simp only [U.cqBuf, U.cqPipe, U.rqPipe, U.fpc, U.wakeupClosed, U.cfg]
  case rc =>
    intro hm
    rcases hmpc with e | ⟨_, e⟩
    · rw [e] at hm; exact h.rc hm
    · rw [e] at hm; cases hm
  case cr =>
    intro hm
    rcases hmpc with e | ⟨_, e⟩
    · rw [e] at hm; have := h.cr hm; have := U.wk; omega
    · rw [e] at hm; cases hm
  case je =>
    rcases hmpc with e | ⟨_, e⟩
    · rw [e]; exact h.je
    · rw [e]; rfl
  case api =>
    intro j hj hm
    by_cases e : j = k
    · subst e; exact U.api hm
    · rw [(U.oth j e).1] at hm; rw [(U.oth j e).2.1]; exact h.api j hj hm
  case wc =>
    intro hw
    have := h.wc hw
    rcases hmpc with e | ⟨e, _⟩
    · rw [e]; exact this
    · rw [e] at this; cases this
  case pe =>
    intro j hj hm
    by_cases e : j = k
    · subst e; exact U.pe hm
    · rw [(U.oth j e).1] at hm
      have := h.pe j hj hm
      intro hm'
      exact this (hnone hm')
  case qq =>
    refine qOk_same Q rfl rfl rfl ?_ (fun _ => rfl)
    intro hl
    rcases hmpc with e | ⟨e, _⟩
    · rw [e]; exact hl
    · rw [e] at hl; cases hl
  case nks =>
    intro j hj
    by_cases e : j = k
    · subst e; exact U.nks
    · rw [(U.oth j e).2.2]; exact h.nks j hj
  case nkc =>
    intro j hj
    by_cases e : j = k
    · subst e; exact U.nkc
    · rw [(U.oth j e).2.1]; exact h.nkc j hj
  case nkp =>
    intro j hj
    by_cases e : j = k
    · subst e; exact U.nkp
    · rw [(U.oth j e).1]; exact h.nkp j hj
  case fu =>
    intro hm
    have hm0 := hnone hm
    rcases U.fu hm with (e | e) | ⟨e1, e2⟩
    · left; exact e
    · right; exact ⟨k, hk, e⟩
    · rcases h.fu hm0 with e | ⟨j, hj, e⟩
      · exact absurd e e1
      · right
        have hjk : j ≠ k := by intro e'; subst e'; rw [e2] at e; cases e
        exact ⟨j, hj, by rw [(U.oth j hjk).1]; exact e⟩

end LokyModel.Exec.DCSmallP
