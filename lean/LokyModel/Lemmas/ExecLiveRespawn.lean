import LokyModel.Lemmas.ExecLiveBase
import LokyModel.Lemmas.ExecLiveFlag
import LokyModel.Lemmas.ExecLiveRespawnDefs
/-! `respawnOk` (dynamic pools): with no worker registered nothing is pending, unless somebody is about to change that.
    The invariant proved by induction is the stronger `respawnX` (`ExecLiveRespawnDefs.lean`): the only excuses are a
    `submit` in front of its spawn loop and the manager between a worker's exit announcement and its re-spawn. -/
namespace LokyModel.Exec
set_option linter.unusedSimpArgs false

/-- Prop form of `respawnX` -/
def RX (s : St) : Prop :=
  s.procDict = [] → s.pending ≠ [] →
    (∃ k, k < s.cfg.scripts.length ∧ uEarly (s.upc k) = true) ∨ mRsp s.mpc = true

theorem respawnX_iff (s : St) : respawnX s = true ↔ RX s := by
  unfold respawnX RX usersOf
  simp only [Bool.or_eq_true, Bool.not_eq_true', List.isEmpty_eq_false_iff, List.isEmpty_iff, List.any_eq_true,
    List.mem_range, ne_eq]
  constructor
  · rintro (((h | h) | h) | h) h1 h2
    · exact absurd h1 h
    · exact absurd h h2
    · exact .inl h
    · exact .inr h
  · intro h
    by_cases h1 : s.procDict = []
    · by_cases h2 : s.pending = []
      · exact .inl (.inl (.inr h2))
      · rcases h h1 h2 with h | h
        · exact .inl (.inr h)
        · exact .inr h
    · exact .inl (.inl (.inl h1))

theorem uEarly_owes (s : St) (pc : UPc) :
    uEarly pc = true → (match pc with | .sdRel1 _ => !s.attrsDropped | pc => uOwes pc) = true := by
  intro h
  cases pc <;> first | rfl | cases h

theorem respawnOk_of_RX (s : St) (h : RX s) : respawnOk s = true := by
  unfold respawnOk
  by_cases h1 : s.procDict = []
  · by_cases h2 : s.pending = []
    · simp [h2]
    · rcases h h1 h2 with ⟨k, hk, he⟩ | h
      · have : owesD s = true := by
          unfold owesD usersOf
          simp only [Bool.or_eq_true, List.any_eq_true, List.mem_range]
          exact .inl ⟨k, hk, uEarly_owes s _ he⟩
        simp [this]
      · simp [h]
  · have : s.procDict.isEmpty = false := by simpa using h1
    simp [this]

/-! ### ways to establish `RX` in the successor state -/

theorem RX_of {s' : St} (h : s'.procDict = [] → s'.pending ≠ [] → mRsp s'.mpc = true) : RX s' :=
  fun h1 h2 => .inr (h h1 h2)

theorem RX_rsp {s' : St} (h : mRsp s'.mpc = true) : RX s' := fun _ _ => .inr h

theorem RX_pd {s' : St} (h : s'.procDict ≠ []) : RX s' := fun h1 _ => absurd h1 h

theorem RX_early {s' : St} (k : Nat) (hk : k < s'.cfg.scripts.length) (h : uEarly (s'.upc k) = true) : RX s' :=
  fun _ _ => .inl ⟨k, hk, h⟩

/-- the user threads stay where they are; `procDict` is emptied only with nothing pending; nothing becomes pending -/
theorem RX_mono (s s' : St) (h : RX s) (hcfg : s'.cfg = s.cfg) (hupc : s'.upc = s.upc)
    (hpd : s'.procDict = [] → s.procDict = [] ∨ s'.pending = []) (hpe : s.pending = [] → s'.pending = [])
    (hm : mRsp s.mpc = true → mRsp s'.mpc = true) : RX s' := by
  intro h1 h2
  rcases hpd h1 with h3 | h3
  · have h4 : s.pending ≠ [] := fun e => h2 (hpe e)
    rcases h h3 h4 with ⟨k, hk, he⟩ | h5
    · exact .inl ⟨k, by rw [hcfg]; exact hk, by rw [hupc]; exact he⟩
    · exact .inr (hm h5)
  · exact absurd h3 h2

/-- user `k`, which was not in front of its spawn loop, moves -/
theorem RX_moveU (s s' : St) (k : Nat) (h : RX s) (hcfg : s'.cfg = s.cfg) (hoth : ∀ j, j ≠ k → s'.upc j = s.upc j)
    (hpd : s'.procDict = s.procDict) (hpe : s'.pending = s.pending) (hm : mRsp s.mpc = true → mRsp s'.mpc = true)
    (hne : uEarly (s.upc k) = false) : RX s' := by
  intro h1 h2
  rw [hpd] at h1; rw [hpe] at h2
  rcases h h1 h2 with ⟨j, hj, he⟩ | h5
  · have hjk : j ≠ k := by
      intro e; subst e; rw [hne] at he; cases he
    exact .inl ⟨j, by rw [hcfg]; exact hj, by rw [hoth j hjk]; exact he⟩
  · exact .inr (hm h5)

/-! ### the manager's continuations never add a pending item -/

theorem mAddFuel_pnil (n : Nat) (s : St) (h : s.pending = []) : (mAddFuel n s).pending = [] := by
  induction n generalizing s with
  | zero => simpa [mAddFuel] using h
  | succ n ih =>
    unfold mAddFuel
    (repeat' split) <;> first
      | exact h
      | (apply ih; simp [h]; done)
      | (simp [h]; done)
theorem mAdd_pnil (s : St) (h : s.pending = []) : (mAdd s).pending = [] := mAddFuel_pnil _ s h
theorem mAfterItem_pnil (s : St) (h : s.pending = []) : (mAfterItem s).pending = [] := by
  unfold mAfterItem; split
  · exact h
  · exact mAdd_pnil s h
theorem mDropRef_pnil (s : St) (h : s.pending = []) : (mDropRef s).pending = [] := by
  unfold mDropRef; simp only []; split
  · exact h
  · exact mAfterItem_pnil _ h
theorem mProcess_pnil (s : St) (r : Option RMsg) (h : s.pending = []) : (mProcess s r).pending = [] := by
  unfold mProcess
  (repeat' split) <;> first
    | exact mAfterItem_pnil _ h
    | exact h
    | (apply mAfterItem_pnil; simp [h]; done)
theorem mAddF_pnil (s : St) (h : s.pending = []) : (mAddF s).pending = [] := by
  unfold mAddF; rw [mAfterAddF_pending]; exact mAdd_pnil s h
theorem mAfterFlag_pnil (s : St) (h : s.pending = []) : (mAfterFlag s).pending = [] := by
  unfold mAfterFlag
  (repeat' split) <;> first
    | (simp; done)
    | (simp [h]; done)
    | exact mAddF_pnil s h
theorem mAfterFlag_pd (s : St) (h : (mAfterFlag s).procDict = []) : s.procDict = [] ∨ (mAfterFlag s).pending = [] := by
  unfold mAfterFlag at h ⊢
  by_cases hk : s.killFlag = true
  · right; rw [if_pos hk]; simp
  · left; rw [if_neg hk] at h; split at h <;> simpa using h
theorem mRespawnCheck_pnil (s : St) (h : s.pending = []) : (mRespawnCheck s).pending = [] := by
  unfold mRespawnCheck; simp only []
  (repeat' split) <;> first
    | exact h
    | exact mAfterItem_pnil _ h

/-- the re-spawn decision: the manager goes on without a worker only when nothing is pending -/
theorem mRespawnCheck_rx (s : St) (hr : 0 < s.refs) (hm : 0 < s.cfg.maxWorkers)
    (hpd : (mRespawnCheck s).procDict = []) (hpe : (mRespawnCheck s).pending ≠ []) :
    mRsp (mRespawnCheck s).mpc = true := by
  rw [mRespawnCheck_procDict] at hpd
  have hl : s.procDict.length = 0 := by rw [hpd]; rfl
  unfold mRespawnCheck at hpe ⊢
  simp only [] at hpe ⊢
  split
  · rename_i hcnd
    split
    · rfl
    · rename_i hno
      exact absurd ⟨hr, by rw [hl]; exact hm⟩ hno
  · rename_i hcnd
    rw [if_neg hcnd] at hpe
    have : s.pending.length = 0 := by omega
    exact absurd (mAfterItem_pnil s (List.length_eq_zero_iff.1 this)) hpe

theorem mSpawnLoop_rx (s : St) (hm : 0 < s.cfg.maxWorkers) (hpd : (mSpawnLoop s).procDict = []) :
    mRsp (mSpawnLoop s).mpc = true := by
  rw [mSpawnLoop_procDict] at hpd
  unfold mSpawnLoop
  rw [if_pos (by rw [hpd]; exact hm)]
  rfl

theorem uSpawnLoop_rx (s : St) (k : Nat) (hk : k < s.cfg.scripts.length) (hm : 0 < s.cfg.maxWorkers) :
    RX (uSpawnLoop s k) := by
  unfold uSpawnLoop
  split
  · exact RX_early k (by simpa using hk) (by simp [setU, upd, uEarly])
  · rename_i hn
    have : s.procDict ≠ [] := by
      intro e; rw [e] at hn; exact hn hm
    split <;> exact RX_pd (by simpa using this)

/-! ### what the scope gives -/

theorem dyn_facts_rsp (s : St) (hd : dynOk s = true) :
    mNeverD s.mpc = false ∧ s.killFlag = false ∧ (s.mpc ≠ .none → 0 < s.refs) := by
  unfold dynOk at hd
  simp only [Bool.and_eq_true, Bool.not_eq_true', Bool.or_eq_true, decide_eq_true_eq, beq_iff_eq] at hd
  obtain ⟨⟨⟨⟨⟨⟨⟨⟨⟨⟨⟨⟨⟨⟨h1, _⟩, h3⟩, _⟩, h5⟩, h6⟩, _⟩, _⟩, _⟩, _⟩, _⟩, _⟩, _⟩, _⟩, _⟩ := hd
  refine ⟨h1, h3, ?_⟩
  intro hn
  rcases h6 with h6 | h6
  · exact absurd h6 hn
  · rcases h5 with h5 | h5
    · rw [h6] at h5; cases h5
    · exact h5.2

/-! ### the steps -/

set_option maxHeartbeats 4000000 in
theorem rx_stepW (s s' : St) (p : Pid) (v : Variant) (h : RX s) (hs : stepW s p v = some s') : RX s' := by
  unfold stepW at hs
  crack
  all_goals (refine RX_mono s _ h ?_ ?_ ?_ ?_ ?_ <;> first
    | rfl
    | (simp; done)
    | (intro x; left; simpa using x)
    | (intro x; simpa using x))

set_option maxHeartbeats 4000000 in
theorem rx_stepF (s s' : St) (v : Variant) (h : RX s) (hs : stepF s v = some s') : RX s' := by
  unfold stepF at hs
  crack
  all_goals (refine RX_mono s _ h ?_ ?_ ?_ ?_ ?_ <;> first
    | rfl
    | (simp; done)
    | (intro x; left; simpa using x)
    | (intro x; simpa using x)
    | (intro x; simp [x]; done))

theorem mRsp_clr (k : AfterClear) : mRsp (.clrRecv k) = mRsp (.clrPoll k) := by
  cases k with
  | broken b => rfl
  | item r =>
    cases r with
    | none => rfl
    | some m => cases m <;> rfl

theorem mProcess_rsp (s : St) (a : Option RMsg) (h : mRsp (.clrPoll (.item a)) = true) :
    mRsp (mProcess s a).mpc = true := by
  cases a with
  | none => cases h
  | some m => cases m <;> first | rfl | cases h

set_option maxHeartbeats 8000000 in
theorem rx_stepM (s s' : St) (v : Variant) (hc : 0 < s.cfg.maxWorkers) (hd : dynOk s = true)
    (hterm : mFinal s.mpc = true → s.pending = []) (h : RX s) (hs : stepM s v = some s') : RX s' := by
  obtain ⟨hnever, hkf, hrefs⟩ := dyn_facts_rsp s hd
  unfold stepM at hs
  crack
  all_goals (first
    | (apply RX_rsp; rfl)
    | (have hr : 0 < s.refs := hrefs (by simp [*]); exact RX_of (mRespawnCheck_rx _ hr hc))
    | (exact RX_of (fun h1 _ => mSpawnLoop_rx _ hc h1))
    | (refine RX_pd ?_; simp [spawn]; done)
    | (refine RX_mono s _ h ?_ ?_ ?_ ?_ ?_ <;> first
        | rfl
        | (simp; done)
        | (intro x; left; simpa using x)
        | (intro x; simpa using x)
        | (intro x; simp [x, mAdd_pnil, mAfterItem_pnil, mDropRef_pnil, mProcess_pnil, mAddF_pnil, mAfterFlag_pnil, mRespawnCheck_pnil]; done)
        | (intro x; simp only [*] at x; first
            | (cases x; done)
            | (simpa [mRsp_clr] using x)
            | (exact mProcess_rsp _ _ x))
        | (intro x; exact mAfterFlag_pd _ x)
        | (intro x; right; simp [hterm (by simp only [*]; rfl)]; done)
        | (exfalso; simp only [*] at hnever; cases hnever; done)))

set_option maxHeartbeats 8000000 in
theorem rx_stepU (s s' : St) (k : Nat) (v : Variant) (hk : k < s.cfg.scripts.length) (hc : 0 < s.cfg.maxWorkers)
    (hts : ∀ j, s.upc j = .subTStart → s.mpc = .none) (h : RX s) (hs : stepU s k v = some s') : RX s' := by
  unfold stepU at hs
  crack
  all_goals (first
    | (refine RX_early k hk ?_; simp [setU, upd, uEarly]; done)
    | (exact uSpawnLoop_rx _ k hk hc)
    | (refine RX_pd ?_; simp; intro e; simp_all; done)
    | (refine RX_moveU s _ k h ?_ ?_ ?_ ?_ ?_ ?_ <;> first
        | rfl
        | (simp; done)
        | (intro j hj; simp [uNext_upc_other, uRelease_upc_other, uSpawnLoop_upc_other, uDispatch_upc_other, setU, upd, hj]; done)
        | (intro x; simpa using x)
        | (simp only [*]; rfl)
        | (intro x; have hn := hts k ‹_›; simp only [hn] at x; cases x; done)))

/-! ### assembly -/

theorem dynPool_max (c : Cfg) (hc : c.dynPool = true) : 0 < c.maxWorkers := by
  unfold Cfg.dynPool at hc
  simp only [Bool.and_eq_true, decide_eq_true_eq] at hc
  exact hc.1.1.2

theorem rx_init (cfg : Cfg) : RX (init cfg) := by
  intro _ h; exact absurd rfl h

/-- `RX` is inductive.  Hypotheses about the pre-state: the scope (`max_workers ≥ 1`), `dynOk` (the executor stays
    referenced: `refs > 0` once the manager thread exists; no `kill_workers`), `TermInv` (`hterm`: nothing is pending
    once the manager has begun `join_executor_internals`) and `TStartInv` (`hts`: a `submit` that is about to start the
    manager thread finds none) — both proved for every reachable state in the older chain.
    (Crash steps included: a crash changes a worker's program counter only.) -/
theorem rx_step {s s' : St} {a : Actor} {v : Variant} (hs : step s a v = some s')
    (hc : s.cfg.dynPool = true) (hd : dynOk s = true) (hterm : mFinal s.mpc = true → s.pending = [])
    (hts : ∀ k, s.upc k = .subTStart → s.mpc = .none) (h : RX s) : RX s' := by
  have hm := dynPool_max _ hc
  unfold step at hs
  cases a with
  | U k =>
    simp only [] at hs; split at hs
    · exact rx_stepU s s' k v (by assumption) hm hts h hs
    · cases hs
  | M => exact rx_stepM s s' v hm hd hterm h hs
  | F => exact rx_stepF s s' v h hs
  | W p =>
    simp only [] at hs; split at hs
    · exact rx_stepW s s' p v h hs
    · cases hs

theorem respawnOk'_iff (s : St) : respawnOk' s = true ↔ RX s := by
  unfold respawnOk'
  rw [Bool.and_eq_true, respawnX_iff]
  exact ⟨fun h => h.2, fun h => ⟨respawnOk_of_RX s h, h⟩⟩

theorem respawnOk_of_respawnOk' (s : St) (h : respawnOk' s = true) : respawnOk s = true :=
  respawnOk_of_RX s ((respawnOk'_iff s).1 h)

theorem respawnOk'_init (cfg : Cfg) (_hc : cfg.dynPool = true) : respawnOk' (init cfg) = true :=
  (respawnOk'_iff _).2 (rx_init cfg)

theorem respawnOk'_step {s s' : St} {a : Actor} {v : Variant} (_hv : v ≠ .crash) (hs : step s a v = some s')
    (_hp : PidsInv s) (hc : s.cfg.dynPool = true) (hd : dynOk s = true)
    (hterm : mFinal s.mpc = true → s.pending = []) (hts : ∀ k, s.upc k = .subTStart → s.mpc = .none)
    (h : respawnOk' s = true) : respawnOk' s' = true :=
  (respawnOk'_iff _).2 (rx_step hs hc hd hterm hts ((respawnOk'_iff _).1 h))

theorem respawnOk_init (cfg : Cfg) (hc : cfg.dynPool = true) : respawnOk (init cfg) = true :=
  respawnOk_of_respawnOk' _ (respawnOk'_init cfg hc)

end LokyModel.Exec
