import LokyModel.Lemmas.TrackerTree
/-!
Invariants of M4 `TrackerTree` about the kernel name space and the SemLock life cycle.
Helper lemmas only; the property theorems are in `Props/C13.lean`.
-/
namespace LokyModel.TrackerTree

/-! ### effect of one request on a registry -/

theorem recv_register (tr : Tracker) (n : Name) :
    (tr.recv .register n).1.reg n = tr.reg n + 1 ∧ (tr.recv .register n).2 = false := by
  simp [Tracker.recv, upd]

theorem recv_unregister (tr : Tracker) (n : Name) :
    (tr.recv .unregister n).1.reg n = 0 ∧ (tr.recv .unregister n).2 = false := by
  unfold Tracker.recv; simp only []; split <;> simp [upd, *]

/-! ### `ensure_running` and `_send` seen from the registries and the name space -/

theorem ensure_reg (s : State) (p : Pid) (h : Inv1 s) :
    ∀ t n, ((ensureRunning s p).trks t).reg n = (s.trks t).reg n := by
  intro t n
  unfold ensureRunning
  split
  · simp only [launch, upd]; grind [Inv1]
  · split
    · rfl
    · simp only [launch, closeFd, upd]; grind [Inv1]

theorem send_frame (s : State) (p : Pid) (o : Op) (n : Name) :
    (send s p o n).isSem = s.isSem ∧ (send s p o n).nName = s.nName ∧ (send s p o n).objs = s.objs
    ∧ (send s p o n).nObj = s.nObj ∧ (send s p o n).trkKills = s.trkKills
    ∧ (send s p o n).windowCrashes = s.windowCrashes
    ∧ (∀ q, ((send s p o n).procs q).st = (s.procs q).st) := by
  have hf := ensure_frame s p
  unfold send
  simp only []
  grind

theorem send_ns (s : State) (p : Pid) (o : Op) (n : Name) :
    (∀ m, m ≠ n → (send s p o n).ns m = s.ns m) ∧ (∀ m, (send s p o n).ns m = true → s.ns m = true)
    ∧ (o ≠ .maybeUnlink → (send s p o n).ns = s.ns) := by
  have hf := ensure_frame s p
  unfold send
  simp only []
  refine ⟨?_, ?_, ?_⟩
  · intro m hm; split <;> simp [upd, hm, hf.1]
  · intro m; split <;> simp [upd, hf.1] <;> grind
  · intro ho
    have : (((ensureRunning s p).trks (curTrk (ensureRunning s p) p)).recv o n).2 = false := by
      unfold Tracker.recv; cases o <;> simp at ho ⊢ <;> (split <;> simp)
    simp [this, hf.1]

theorem send_reg_ne (s : State) (p : Pid) (o : Op) (n : Name) (h : Inv1 s) :
    ∀ t m, m ≠ n → ((send s p o n).trks t).reg m = (s.trks t).reg m := by
  intro t m hm
  have he := ensure_reg s p h t m
  unfold send
  simp only [upd]
  split
  · rename_i ht; subst ht
    rw [recv_reg_ne _ _ _ _ hm]; exact he
  · exact he

theorem send_register_pos (s : State) (p : Pid) (n : Name) (h : Inv1 s) :
    (∃ t, 0 < ((send s p .register n).trks t).reg n)
    ∧ ∀ t, (s.trks t).reg n ≤ ((send s p .register n).trks t).reg n := by
  have he := ensure_reg s p h
  unfold send
  simp only [upd]
  refine ⟨⟨curTrk (ensureRunning s p) p, ?_⟩, ?_⟩
  · simp [recv_register]
  · intro t
    split
    · rename_i ht; subst ht; rw [(recv_register _ _).1, he]; omega
    · rw [he]; omega

theorem send_unregister_zero (s : State) (p : Pid) (n : Name) (h : Inv1 s)
    (hp : (s.procs p).st = .live) (hk : s.trkKills = 0) :
    ∀ t, ((send s p .unregister n).trks t).reg n = 0 := by
  intro t
  have h1 := send_inv1 s p .unregister n h hp
  have hf := send_frame s p .unregister n
  have hn : (send s p .unregister n).nTrk ≤ 1 := h1.s1 (by rw [hf.2.2.2.2.1]; exact hk)
  have hsp := ensure_spec s p h hp
  have hi := ensure_inv1 s p h hp
  have hc : curTrk (ensureRunning s p) p < (ensureRunning s p).nTrk := hi.t2 _ _ hsp.1
  have hnt : (send s p .unregister n).nTrk = (ensureRunning s p).nTrk := by unfold send; rfl
  by_cases ht : t = curTrk (ensureRunning s p) p
  · subst ht
    unfold send; simp only [upd, if_true]
    exact (recv_unregister _ _).1
  · have hn' : (ensureRunning s p).nTrk ≤ 1 := hnt ▸ hn
    have hc0 : curTrk (ensureRunning s p) p = 0 := Nat.lt_one_iff.1 (Nat.lt_of_lt_of_le hc hn')
    have ht0 : t ≠ 0 := by rw [hc0] at ht; exact ht
    have : (send s p .unregister n).nTrk ≤ t := Nat.le_trans hn (Nat.one_le_iff_ne_zero.2 ht0)
    exact (h1.t1 t this).2.2 n

/-! ### guards of `exit` -/

theorem finalized_spec (s : State) (p : Pid) :
    finalized s p = true ↔ ∀ o, o < s.nObj → (s.objs o).proc = p → (s.objs o).ph.busy = false := by
  unfold finalized
  simp [List.all_eq_true]
  grind

theorem inWindow_false (s : State) (p : Pid) (h : inWindow s p = false) :
    ∀ o, o < s.nObj → ¬ ((s.objs o).proc = p ∧ (s.objs o).ph = .opened) := by
  unfold inWindow at h
  intro o ho
  have := (List.any_eq_false.1 h) o (List.mem_range.2 ho)
  simpa using this

theorem leave_frame (s : State) (p : Pid) :
    (leave s p).ns = s.ns ∧ (leave s p).isSem = s.isSem ∧ (leave s p).nName = s.nName
    ∧ (leave s p).objs = s.objs ∧ (leave s p).nObj = s.nObj ∧ (leave s p).trkKills = s.trkKills
    ∧ (leave s p).windowCrashes = s.windowCrashes
    ∧ (∀ t n, ((leave s p).trks t).reg n = (s.trks t).reg n)
    ∧ (∀ t, ((leave s p).trks t).ph = (s.trks t).ph)
    ∧ (∀ q, q ≠ p → ((leave s p).procs q).st = (s.procs q).st)
    ∧ ((leave s p).procs p).st = .dead := by
  unfold leave
  split <;> simp [closeFd, upd] <;> grind

/-! ## Inv2 -/

structure Inv2 (s : State) : Prop where
  n1 : ∀ n, s.nName ≤ n → s.ns n = false ∧ ∀ t, (s.trks t).reg n = 0
  o1 : ∀ o, s.nObj ≤ o → (s.objs o).ph = .none
  o2 : ∀ o, (s.objs o).ph ≠ .none → (s.objs o).name < s.nName
  /-- owner objects have pairwise distinct names (fresh names at `sem_open`) -/
  o3 : ∀ a b, (s.objs a).ph.owner = true → (s.objs b).ph.owner = true →
        (s.objs a).name = (s.objs b).name → a = b
  o4 : ∀ o, (s.objs o).ph ≠ .none → s.isSem (s.objs o).name = true
  /-- an object stuck between `sem_open` and `register` belongs to a live process, or a crash hit the window -/
  o5 : ∀ o, (s.objs o).ph = .opened → (s.procs (s.objs o).proc).st = .live ∨ 0 < s.windowCrashes
  /-- once the finalizer has unlinked, the name is gone for good -/
  c : ∀ o, (s.objs o).ph = .unlinked ∨ (s.objs o).ph = .released → s.ns (s.objs o).name = false
  /-- every semaphore name in the kernel belongs to an owner object that is registered with some tracker
      (or is in the creation window) -/
  a : ∀ n, s.ns n = true → s.isSem n = true →
        ∃ o, (s.objs o).name = n ∧ ((s.objs o).ph = .opened ∨
              ((s.objs o).ph = .registered ∧ ∃ t, 0 < (s.trks t).reg n))
  /-- while no tracker was killed, a registered semaphore name belongs to an owner whose finalizer has not finished -/
  d : s.trkKills = 0 → ∀ t n, 0 < (s.trks t).reg n → s.isSem n = true →
        ∃ o, (s.objs o).name = n ∧ ((s.objs o).ph = .registered ∨ (s.objs o).ph = .unlinked)

theorem inv2_init : Inv2 init := by
  constructor <;> simp [init, upd, OPh.owner]

/-- events that leave the name space, the registries and the objects alone -/
theorem inv2_frame {s s' : State} (h : Inv2 s) (e1 : s'.ns = s.ns) (e2 : s'.isSem = s.isSem)
    (e3 : s'.nName = s.nName) (e4 : s'.objs = s.objs) (e5 : s'.nObj = s.nObj)
    (e6 : ∀ t n, (s'.trks t).reg n = (s.trks t).reg n) (e7 : s'.trkKills = 0 → s.trkKills = 0)
    (e8 : ∀ o, (s.objs o).ph = .opened → (s'.procs (s.objs o).proc).st = .live ∨ 0 < s'.windowCrashes) :
    Inv2 s' := by
  obtain ⟨n1, o1, o2, o3, o4, o5, c, a, d⟩ := h
  constructor <;> simp only [e1, e2, e3, e4, e5, e6] <;> (try assumption)
  · intro hk; exact d (e7 hk)

theorem step_inv2_spawn {s s' : State} {p c : Pid} {im : Bool} (h1 : Inv1 s) (h : Inv2 s)
    (hs : step s (.spawn p c im) = some s') : Inv2 s' := by
  simp only [step] at hs
  split at hs
  · rename_i hg
    simp [isLive] at hg
    injection hs with hs; subst hs
    have hf := ensure_frame s p
    have hr := ensure_reg s p h1
    apply inv2_frame h <;> simp only [hf.1, hf.2.1, hf.2.2.1, hf.2.2.2.1, hf.2.2.2.2.1, hf.2.2.2.2.2.1,
      hf.2.2.2.2.2.2.1]
    · intro t n; simp only [upd]; split
      · rename_i ht; subst ht; exact hr _ n
      · exact hr t n
    · exact id
    · intro o ho
      rcases h.o5 o ho with hl | hw
      · left; simp only [upd]; split
        · rfl
        · rw [hf.2.2.2.2.2.2.2.1]; exact hl
      · right; exact hw
  · simp at hs

theorem step_inv2_exit {s s' : State} {p : Pid} {k : ExitKind} (h : Inv2 s)
    (hs : step s (.exit p k) = some s') : Inv2 s' := by
  simp only [step] at hs
  split at hs
  · rename_i hg
    simp [isLive] at hg
    have hf := leave_frame s p
    have key : ∀ (wc : Nat), (∀ o, (s.objs o).ph = .opened → (s.objs o).proc = p → 0 < wc) →
        s.windowCrashes ≤ wc → Inv2 { leave s p with windowCrashes := wc } := by
      intro wc hwc hle
      apply inv2_frame h <;> simp only [hf.1, hf.2.1, hf.2.2.1, hf.2.2.2.1, hf.2.2.2.2.1, hf.2.2.2.2.2.1]
      · exact hf.2.2.2.2.2.2.2.1
      · exact id
      · intro o ho
        by_cases hq : (s.objs o).proc = p
        · right; exact hwc o ho hq
        · rcases h.o5 o ho with hl | hw
          · left; rw [hf.2.2.2.2.2.2.2.2.2.1 _ hq]; exact hl
          · right; omega
    have hfin : finalized s p = true → ∀ o, (s.objs o).ph = .opened → (s.objs o).proc = p → 0 < s.windowCrashes := by
      intro hfz o ho hq
      by_cases hlt : o < s.nObj
      · have := (finalized_spec s p).1 hfz o hlt hq
        simp [ho, OPh.busy] at this
      · have := h.o1 o (Nat.le_of_not_lt hlt); simp [this] at ho
    cases k with
    | crash =>
      simp at hs; subst hs
      apply key
      · intro o ho hq
        by_cases hw : inWindow s p = true
        · simp [hw]
        · have hw' : inWindow s p = false := by simpa using hw
          by_cases hlt : o < s.nObj
          · exact absurd ⟨hq, ho⟩ (inWindow_false s p hw' o hlt)
          · have := h.o1 o (Nat.le_of_not_lt hlt); simp [this] at ho
      · omega
    | normal =>
      simp at hs; obtain ⟨hfz, rfl⟩ := hs
      have := key s.windowCrashes (hfin hfz) (Nat.le_refl _)
      rw [← hf.2.2.2.2.2.2.1] at this; exact this
    | exc =>
      simp at hs; obtain ⟨hfz, rfl⟩ := hs
      have := key s.windowCrashes (hfin hfz) (Nat.le_refl _)
      rw [← hf.2.2.2.2.2.2.1] at this; exact this
  · simp at hs

theorem step_inv2_sig {s s' : State} {t : Tid} {sg : Sig} (h : Inv2 s)
    (hs : step s (.sigTracker t sg) = some s') : Inv2 s' := by
  simp only [step] at hs
  split at hs
  · injection hs with hs; subst hs
    have hsp := signal_spec (s.trks t) sg
    apply inv2_frame h <;> simp only []
    · intro t' n; simp only [upd]; split
      · rename_i ht; subst ht; exact hsp.2.1 n
      · rfl
    · intro hk; omega
    · exact h.o5
  · simp at hs

theorem step_inv2_boot {s s' : State} {t : Tid} (h : Inv2 s)
    (hs : step s (.boot t) = some s') : Inv2 s' := by
  simp only [step] at hs
  split at hs
  · rename_i tr hb
    injection hs with hs; subst hs
    have hsp := boot_spec _ _ hb
    apply inv2_frame h <;> simp only []
    · intro t' n; simp only [upd]; split
      · rename_i ht; subst ht; exact hsp.2.1 n
      · rfl
    · exact id
    · exact h.o5
  · simp at hs

theorem owner_cases (ph : OPh) :
    ph.owner = true ↔ (ph = .opened ∨ ph = .registered ∨ ph = .unlinked ∨ ph = .released) := by
  cases ph <;> simp [OPh.owner]

theorem step_inv2_mkfile {s s' : State} {p : Pid} (h : Inv2 s)
    (hs : step s (.mkfile p) = some s') : Inv2 s' := by
  simp only [step] at hs
  split at hs
  · injection hs with hs; subst hs
    obtain ⟨n1, o1, o2, o3, o4, o5, c, a, d⟩ := h
    constructor <;> simp only [upd] <;> grind
  · simp at hs

theorem step_inv2_semOpen {s s' : State} {p : Pid} {o : Oid} (h : Inv2 s)
    (hs : step s (.semOpen p o) = some s') : Inv2 s' := by
  simp only [step] at hs
  split at hs
  · rename_i hg
    simp [isLive] at hg
    injection hs with hs; subst hs
    obtain ⟨n1, o1, o2, o3, o4, o5, c, a, d⟩ := h
    constructor <;> simp only [upd] <;> grind [owner_cases]
  · simp at hs

theorem step_inv2_finUnlink {s s' : State} {p : Pid} {o : Oid} (h : Inv2 s)
    (hs : step s (.finUnlink p o) = some s') : Inv2 s' := by
  simp only [step] at hs
  split at hs
  · rename_i hg
    simp [isLive] at hg
    injection hs with hs; subst hs
    obtain ⟨n1, o1, o2, o3, o4, o5, c, a, d⟩ := h
    constructor <;> simp only [upd] <;> grind [owner_cases]
  · simp at hs

theorem step_inv2_copy {s s' : State} {p c : Pid} {o o' : Oid} (h : Inv2 s)
    (hs : step s (.copy p o c o') = some s') : Inv2 s' := by
  simp only [step] at hs
  split at hs
  · rename_i hg
    simp [isLive] at hg
    injection hs with hs; subst hs
    obtain ⟨n1, o1, o2, o3, o4, o5, c, a, d⟩ := h
    constructor <;> simp only [upd] <;> grind [owner_cases]
  · simp at hs

theorem step_inv2_dropCopy {s s' : State} {c : Pid} {o' : Oid} (h : Inv2 s)
    (hs : step s (.dropCopy c o') = some s') : Inv2 s' := by
  simp only [step] at hs
  split at hs
  · rename_i hg
    simp [isLive] at hg
    injection hs with hs; subst hs
    obtain ⟨n1, o1, o2, o3, o4, o5, c, a, d⟩ := h
    constructor <;> simp only [upd] <;> grind [owner_cases]
  · simp at hs

theorem step_inv2_op {s s' : State} {p : Pid} {o : Op} {n : Name} (h1 : Inv1 s) (h : Inv2 s)
    (hs : step s (.op p o n) = some s') : Inv2 s' := by
  simp only [step] at hs
  split at hs
  · rename_i hg
    simp [isLive] at hg
    injection hs with hs; subst hs
    have hf := send_frame s p o n
    have hns := send_ns s p o n
    have hreg := send_reg_ne s p o n h1
    generalize send s p o n = s2 at *
    obtain ⟨f1, f2, f3, f4, f5, f6, f7⟩ := hf
    obtain ⟨n1, o1, o2, o3, o4, o5, c, a, d⟩ := h
    constructor <;> simp only [f1, f2, f3, f4, f5, f6] <;> grind
  · simp at hs

theorem step_inv2_semRegister {s s' : State} {p : Pid} {o : Oid} (h1 : Inv1 s) (h : Inv2 s)
    (hs : step s (.semRegister p o) = some s') : Inv2 s' := by
  simp only [step] at hs
  split at hs
  · rename_i hg
    simp [isLive] at hg
    injection hs with hs; subst hs
    have hf := send_frame s p .register (s.objs o).name
    have hns := (send_ns s p .register (s.objs o).name).2.2 (by simp)
    have hreg := send_reg_ne s p .register (s.objs o).name h1
    have hpos := send_register_pos s p (s.objs o).name h1
    generalize send s p .register (s.objs o).name = s2 at *
    obtain ⟨f1, f2, f3, f4, f5, f6, f7⟩ := hf
    obtain ⟨n1, o1, o2, o3, o4, o5, c, a, d⟩ := h
    constructor <;> simp only [f1, f2, f3, f4, f5, f6, hns, upd] <;> grind [owner_cases]
  · simp at hs

theorem step_inv2_finUnregister {s s' : State} {p : Pid} {o : Oid} (h1 : Inv1 s) (h : Inv2 s)
    (hs : step s (.finUnregister p o) = some s') : Inv2 s' := by
  simp only [step] at hs
  split at hs
  · rename_i hg
    simp [isLive] at hg
    injection hs with hs; subst hs
    have hf := send_frame s p .unregister (s.objs o).name
    have hns := (send_ns s p .unregister (s.objs o).name).2.2 (by simp)
    have hreg := send_reg_ne s p .unregister (s.objs o).name h1
    have hz := send_unregister_zero s p (s.objs o).name h1 hg.1.1
    generalize send s p .unregister (s.objs o).name = s2 at *
    obtain ⟨f1, f2, f3, f4, f5, f6, f7⟩ := hf
    obtain ⟨n1, o1, o2, o3, o4, o5, c, a, d⟩ := h
    constructor <;> simp only [f1, f2, f3, f4, f5, f6, hns, upd] <;> grind [owner_cases]
  · simp at hs

theorem step_inv2_eof {s s' : State} {t : Tid} (h : Inv2 s)
    (hs : step s (.eof t) = some s') : Inv2 s' := by
  simp only [step] at hs
  split at hs
  · rename_i hg
    simp at hg
    injection hs with hs; subst hs
    obtain ⟨n1, o1, o2, o3, o4, o5, c, a, d⟩ := h
    constructor <;> simp only [sweep, upd] <;> grind [owner_cases]
  · simp at hs

theorem step_inv2 {s s' : State} {e : Ev} (h1 : Inv1 s) (h : Inv2 s) (hs : step s e = some s') : Inv2 s' := by
  cases e with
  | spawn p c im => exact step_inv2_spawn h1 h hs
  | exit p k => exact step_inv2_exit h hs
  | sigTracker t sg => exact step_inv2_sig h hs
  | boot t => exact step_inv2_boot h hs
  | op p o n => exact step_inv2_op h1 h hs
  | mkfile p => exact step_inv2_mkfile h hs
  | eof t => exact step_inv2_eof h hs
  | semOpen p o => exact step_inv2_semOpen h hs
  | semRegister p o => exact step_inv2_semRegister h1 h hs
  | finUnlink p o => exact step_inv2_finUnlink h hs
  | finUnregister p o => exact step_inv2_finUnregister h1 h hs
  | copy p o c o' => exact step_inv2_copy h hs
  | dropCopy c o' => exact step_inv2_dropCopy h hs

theorem reach_inv2 {h : List Ev} {s : State} (hr : Reach h s) : Inv2 s := by
  induction hr with
  | init => exact inv2_init
  | step hr hs ih => exact step_inv2 (reach_inv1 hr) ih hs

end LokyModel.TrackerTree
