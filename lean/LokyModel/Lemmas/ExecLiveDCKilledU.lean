import LokyModel.Lemmas.ExecLiveDCKilledBase
/-! `dcKilled` along the steps of a user thread: a `submit` that is still bringing the pool up holds `shutdown_lock` with
    the shutdown flag unset, so it spawns (and starts the manager thread) only on a pool that is neither flagged broken nor
    in the kill loop. -/
namespace LokyModel.Exec

/-- a thread in the accepted part of `submit`: the pool is not flagged broken, and the manager is not in the kill loop -/
theorem dk_acc (s s' : St) (k : Nat) (h : DK s) (hsh : ShutInv s) (hu : accU (s.upc k) = true)
    (hb : s'.broken = s.broken) (hm : s'.mpc = s.mpc ∨ s'.mpc = .start) : DK s' := by
  have hf := hsh.acc k hu
  have hnb : s.broken = none := by
    cases hq : s.broken with
    | none => rfl
    | some b => have := h.flag (by simp [hq]); rw [hf] at this; cases this
  refine dk_nb s' (by rw [hb, hnb]) ?_
  intro p hk
  rcases hm with hm | hm
  · rw [hm] at hk
    have := hsh.flag (atKill_flagged hk)
    rw [hf] at this; cases this
  · rw [hm] at hk
    rcases hk with e | e <;> cases e

set_option maxHeartbeats 8000000 in
theorem dk_stepU (s s' : St) (k : Nat) (v : Variant) (h : DK s) (hsh : ShutInv s) (hs : stepU s k v = some s') : DK s' := by
  unfold stepU at hs
  crack
  all_goals (first
    | (refine dk_same' s _ h ?_ ?_ ?_ ?_ ?_ ?_
       all_goals (first
        | rfl
        | (simp; done)
        | (intro q hq; simpa using hq)))
    | (refine dk_acc s _ k h hsh (by rw [‹s.upc k = _›]; rfl) ?_ ?_
       all_goals (first
        | rfl
        | (simp; done))))

end LokyModel.Exec
