import LokyModel.Lemmas.ExecLiveDCHolderBase
/-! `HolderInvD` over the steps of the manager thread.  Its `kill` may hit a worker inside the section of a queue lock:
    by then the pool is flagged broken (`HolderInvD.kpc`) and nothing is claimed about the two worker-side locks.  It must
    not hit a worker at `eRel`, inside the window of the process-management lock (hypothesis `killsERel s = false`: the
    listed finding D5 in its "manager's own SIGKILL" form). -/
namespace LokyModel.Exec

/-- first stage: the continuations leave the manager outside the kill loop -/
macro "nkpcD" : tactic => `(tactic| (try simp only [mAdd_hcnk, mJoinStart_hcnk, mAfterItem_hcnk, mDropRef_hcnk,
  mRespawnCheck_hcnk, mProcess_hcnk, mSpawnLoop_hcnk, mJoinProcs_hcnk, mJoinClose_hcnk, mJoinLoop_hcnk, mRelExitNext_hcnk,
  mAliveNext_hcnk, mAfterPut_hcnk, mAddF_hcnk]))

theorem spawn_isERel {s : St} (hp : PidsInv s) (q : Pid) : isERel ((spawn s).w q) = isERel (s.w q) :=
  congrArg (·.2.2) (spawn_wSec hp q)

set_option maxHeartbeats 8000000 in
theorem holderInvD_stepM (s s' : St) (v : Variant) (hp : PidsInv s) (hkf : s.killFlag = false) (hr : RelExitSafe s)
    (hks : killsERel s = false) (h : HolderInvD s) (hs : stepM s v = some s') : HolderInvD s' := by
  unfold stepM at hs
  crack
  all_goals (refine holderInvD_M h ?_ ?_ ?_ ?_ ?_ ?_ ?_ ?_ ?_ ?_ ?_ ?_ ?_ ?_ ?_ ?_ ?_ ?_)
  all_goals (first
    | rfl
    | (simp; done)
    | (intro _ q; simp; done)
    | (intro q; simp; done)
    | (intro _ q; simpa using spawn_wSec hp q)
    | (intro q; simpa using spawn_isERel hp q)
    | (intro hb; exact absurd hb (h.kpc (by simp [*, hcKillPc])))
    | (intro q; refine die_isERel _ s _ _ ?_ (killsERel_ne hks _ (by assumption)) q; rfl)
    | (exfalso; have := hr _ _ _ (by assumption); omega)
    | (hpc; simp [Tri, inMgmtM', inShutM', mTStart, *]; done)
    | (nkpcD; simp [hcKillPc]; done)
    | (intro hk; exact absurd hk (ne_true_of_eq_false (mAfterFlag_hcnk _ hkf)))
    | (intro _; simpa using h.kpc (by simp [*, hcKillPc])))

end LokyModel.Exec
