import LokyModel.Lemmas.ExecLiveDCKilledFacts
import LokyModel.Lemmas.ExecLiveCrashKillBase
/-! `dcKilled` (the broken path of a dynamic pool): frame lemmas for the Prop form `DK`, and what `kill_workers` /
    `join_executor_internals` do to the registry. -/
namespace LokyModel.Exec

/-- outside the broken path the pool is not flagged -/
theorem DK.nobroken {s : St} (h : DK s) {pc : MPc} (e : s.mpc = pc) (hl : mBrkLate pc = false) : s.broken = none := by
  cases hq : s.broken with
  | none => rfl
  | some b =>
    have := h.late (by simp [hq])
    rw [e, hl] at this; cases this

/-- a state that is not flagged broken: only the kill loop (of `shutdown(kill_workers=True)`) matters -/
theorem dk_of_nobroken (s' : St) (hb : s'.broken = none)
    (hkj : ∀ p, s'.mpc = .killJoin p → s'.w p = .dead)
    (hl : ∀ p, atKill s'.mpc p → p ∈ s'.allPids) : DK s' :=
  ⟨fun h => by simp [hb] at h, fun h => by simp [hb] at h, hkj, hl, fun h => by simp [hb] at h⟩

/-- not flagged broken, not in the kill loop -/
theorem dk_nb (s' : St) (hb : s'.broken = none) (hnk : ∀ p, ¬ atKill s'.mpc p) : DK s' :=
  dk_of_nobroken s' hb (fun p e => (hnk p (.inr e)).elim) (fun p hk => (hnk p hk).elim)

/-- frame: the manager stays where it is, the flags are not lowered, the registry is untouched, the dead stay dead,
    listed processes stay listed -/
theorem dk_same' (s s' : St) (h : DK s) (hb : s'.broken = s.broken)
    (hf : s.shutdownFlag = true → s'.shutdownFlag = true)
    (hm : s'.mpc = s.mpc) (ha : ∀ q ∈ s.allPids, q ∈ s'.allPids) (hp : s'.procDict = s.procDict)
    (hw : ∀ q, s.w q = .dead → s'.w q = .dead) : DK s' := by
  obtain ⟨h1, h2, h3, h4, h5⟩ := h
  refine ⟨by rw [hb]; exact fun x => hf (h1 x), by rw [hb, hm]; exact h2, ?_, ?_, ?_⟩
  · intro p hk; rw [hm] at hk; exact hw p (h3 p hk)
  · intro p hk; rw [hm] at hk; exact ha p (h4 p hk)
  · rw [hb, hm, hp]; exact h5

theorem dk_same (s s' : St) (h : DK s) (hb : s'.broken = s.broken) (hf : s'.shutdownFlag = s.shutdownFlag)
    (hm : s'.mpc = s.mpc) (ha : s'.allPids = s.allPids) (hp : s'.procDict = s.procDict)
    (hw : ∀ q, s.w q = .dead → s'.w q = .dead) : DK s' :=
  dk_same' s s' h hb (by rw [hf]; exact id) hm (by rw [ha]; exact fun _ x => x) hp hw

/-- a step inside the final phase: an empty registry stays empty, and nobody is joined -/
theorem dk_final (s s' : St) (h : DK s) (hm : mFinal s.mpc = true) (hm' : mFinal s'.mpc = true)
    (hb : s'.broken = s.broken) (hf : s'.shutdownFlag = s.shutdownFlag)
    (hpd : s.procDict = [] → (∀ p, s.mpc ≠ .jJoin p) → s'.procDict = [] ∧ ∀ p, s'.mpc ≠ .jJoin p) : DK s' := by
  obtain ⟨h1, _, _, _, h5⟩ := h
  refine ⟨by rw [hb, hf]; exact h1, fun _ => final_late hm', ?_, ?_, ?_⟩
  · intro p hk
    rw [atKill_not_final (.inr hk)] at hm'; cases hm'
  · intro p hk
    rw [atKill_not_final hk] at hm'; cases hm'
  · intro hb' _
    rw [hb] at hb'
    obtain ⟨e1, e2⟩ := h5 hb' hm
    exact hpd e1 e2

/-! ### `kill_workers` pops a registered worker -/

theorem mKillNext_mem (X : St) (p : Pid) (hk : atKill (mKillNext X).mpc p) : p ∈ X.procDict := by
  unfold mKillNext at hk
  split at hk
  · rename_i p' hl
    have hp : p' = p := by
      rcases hk with e | e
      · simpa using e
      · simp at e
    subst hp
    exact List.mem_of_getLast? hl
  · rcases hk with e | e <;> simp [mJoinStart] at e

theorem mKillNext_not_kj (X : St) (p : Pid) : (mKillNext X).mpc ≠ .killJoin p := by
  unfold mKillNext; split <;> simp [mJoinStart]

theorem mKillNext_not_jJoin (X : St) (p : Pid) : (mKillNext X).mpc ≠ .jJoin p := by
  unfold mKillNext; split <;> simp [mJoinStart]

theorem mAfterFlag_mem (X : St) (p : Pid) (hk : atKill (mAfterFlag X).mpc p) : p ∈ X.procDict := by
  by_cases hkf : X.killFlag = true
  · have e : mAfterFlag X = mKillNext (failAll { X with pending := [] } X.pending .excShutdown) := by
      unfold mAfterFlag; rw [if_pos hkf]
    rw [e] at hk
    simpa using mKillNext_mem _ p hk
  · exfalso
    by_cases hp : X.pending = []
    · have e : mAfterFlag X = mJoinStart X := by
        unfold mAfterFlag; rw [if_neg hkf, if_pos hp]
      rw [e] at hk
      rcases hk with e | e <;> simp [mJoinStart] at e
    · have e : mAfterFlag X = mAddF X := by
        unfold mAfterFlag; rw [if_neg hkf, if_neg hp]
      rw [e] at hk
      rcases mAddF_mpc X with ⟨i, _, e⟩ | ⟨_, e, _⟩ | ⟨_, e, _⟩ <;> rw [e] at hk <;> rcases hk with e | e <;> cases e

theorem mAfterFlag_not_kj (X : St) (p : Pid) : (mAfterFlag X).mpc ≠ .killJoin p := by
  unfold mAfterFlag
  split
  · exact mKillNext_not_kj _ p
  · split
    · simp [mJoinStart]
    · rcases mAddF_mpc X with ⟨i, _, e⟩ | ⟨_, e, _⟩ | ⟨_, e, _⟩ <;> rw [e] <;> simp

/-! ### the final phase joins nobody when the registry is empty -/

theorem nj_mJoinClose (s : St) (p : Pid) : (mJoinClose s).mpc ≠ .jJoin p := by unfold mJoinClose; simp
theorem nj_mJoinLoop (s : St) (n sent cool : Nat) (p : Pid) : (mJoinLoop s n sent cool).mpc ≠ .jJoin p := by
  unfold mJoinLoop; split
  · simp
  · exact nj_mJoinClose s p
theorem nj_mRelExitNext (s : St) (ps : List Pid) (n : Nat) (p : Pid) : (mRelExitNext s ps n).mpc ≠ .jJoin p := by
  unfold mRelExitNext; split <;> simp
theorem nj_mAliveNext (s : St) (ps : List Pid) (cnt n sent cool : Nat) (p : Pid) :
    (mAliveNext s ps cnt n sent cool).mpc ≠ .jJoin p := by
  unfold mAliveNext; split <;> simp
theorem nj_mAfterPut (s : St) (k n sent cool : Nat) (p : Pid) : (mAfterPut s k n sent cool).mpc ≠ .jJoin p := by
  unfold mAfterPut; split
  · exact nj_mJoinLoop _ _ _ _ p
  · simp
theorem mJoinProcs_nil (X : St) (h : X.procDict = []) :
    (mJoinProcs X).procDict = [] ∧ ∀ p, (mJoinProcs X).mpc ≠ .jJoin p := by
  unfold mJoinProcs
  rw [h]
  simp

end LokyModel.Exec
