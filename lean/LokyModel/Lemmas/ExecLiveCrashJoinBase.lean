import LokyModel.ExecLiveCrashJoinDef
import LokyModel.Lemmas.ExecLiveJoinWFU
import LokyModel.Lemmas.ExecLiveJoinM
import LokyModel.Lemmas.ExecTerm
/-! `joinC'` (`ExecLiveCrashJoinDef.lean`): the sentinel accounting of the final phase when workers may die, as a
    structure of propositions; the states in which it says nothing; steps of actors other than the manager. -/
namespace LokyModel.Exec
set_option linter.unusedSimpArgs false
set_option linter.unusedVariables false

/-- the sentinel inequality and the loop book-keeping -/
structure JoinCInv (s : St) : Prop where
  cnt : mCounts s.mpc = true → needStop s ≤ stopsInFlight s + mToSend s
  full : mPreJC s.mpc = true → s.procDict = s.allPids ∨ ∀ p ∈ s.allPids, s.w p = .dead
  relExit : ∀ ps n, s.mpc = .jRelExit ps n → n + ps.length = s.procDict.length
  rel1 : ∀ n, s.mpc = .jRel1 n → n = s.procDict.length
  aliveAcq : ∀ n sent cool, s.mpc = .jAliveAcq n sent cool → sent < n
  alive : ∀ ps cnt n sent cool, s.mpc = .jAlive ps cnt n sent cool →
    sent < n ∧ s.procDict.drop (s.procDict.length - ps.length) = ps ∧
    (cnt = 0 → ∀ p ∈ s.procDict.take (s.procDict.length - ps.length), s.w p = .dead)
  aliveRel : ∀ cnt n sent cool, s.mpc = .jAliveRel cnt n sent cool →
    sent < n ∧ (cnt = 0 → ∀ p ∈ s.procDict, s.w p = .dead)
  put : ∀ k n sent cool, s.mpc = .jPut k n sent cool → k = n - sent ∧ 0 < k
  putT : ∀ k n sent cool, s.mpc = .jPutTStart k n sent cool → k = n - sent ∧ 0 < k ∧ s.fpc = .none
  kill : ∀ p, (s.mpc = .kill p ∨ s.mpc = .killJoin p) → ∀ q ∈ s.allPids, q ∈ s.procDict ∨ q = p ∨ s.w q = .dead

/-- the part of `joinC` that `TermInv` and `ShutInv` give for every reachable state -/
def JoinCFlag (s : St) : Prop := mFinal s.mpc = true → s.pending = [] ∧ s.shutdownFlag = true

set_option maxHeartbeats 4000000 in
theorem joinC'_iff (s : St) : joinC' s = true ↔ (JoinCFlag s ∧ JoinCInv s) := by
  constructor
  · intro h
    unfold joinC' joinC joinCExtra allDeadJC at h
    refine ⟨?_, ?_⟩
    · intro hf
      cases hm : s.mpc <;> simp [hm, mFinal, mPreJC] at h hf ⊢ <;> simp [h]
    · cases hm : s.mpc <;> simp [hm, mFinal, mPreJC] at h <;>
        constructor <;> simp [hm, mFinal, mCounts, mPreJC] <;>
        first | done | (simp [h]; done) | (intros; subst_vars; simp [h]; done) | (intros; subst_vars; grind)
  · intro ⟨h0, h1, h2, h3, h4, h5, h6, h7, h8, h9, h10⟩
    unfold JoinCFlag at h0
    unfold joinC' joinC joinCExtra allDeadJC
    cases hm : s.mpc <;> simp [hm, mFinal, mCounts, mPreJC] at h0 h1 h2 h3 h4 h5 h6 h7 h8 h9 h10 ⊢ <;>
      first | done | (simp [*]; done) | grind

theorem joinC_of' (s : St) (h : joinC' s = true) : joinC s = true := by
  unfold joinC' at h; simp at h; exact h.1

/-! ### states in which the invariant says nothing / the same -/

theorem jc_mCounts_mLateK (pc : MPc) (h : mCounts pc = true) : mLateK pc = true := by
  cases pc <;> simp_all [mCounts, mLateK, mFinal]
theorem jc_mPreJC_mLateK (pc : MPc) (h : mPreJC pc = true) : mLateK pc = true := by
  cases pc <;> simp_all [mPreJC, mLateK, mFinal]
theorem jc_mFinal_mLateK (pc : MPc) (h : mFinal pc = true) : mLateK pc = true := by
  cases pc <;> simp_all [mLateK, mFinal]
theorem jc_mLateK_mFlagged (pc : MPc) (h : mLateK pc = true) : mFlagged pc = true := by
  cases pc <;> simp_all [mLateK, mFinal, mFlagged]

theorem joinCInv_plain (s : St) (h : mLateK s.mpc = false) : JoinCInv s := by
  constructor
  · intro e; rw [jc_mCounts_mLateK _ e] at h; cases h
  · intro e; rw [jc_mPreJC_mLateK _ e] at h; cases h
  case kill => intro p e; rcases e with e | e <;> simp [e, mLateK] at h
  all_goals (intros; simp_all [mLateK, mFinal])

/-- a step of another actor that leaves the manager where it is -/
theorem joinCInv_same (s s' : St) (h : JoinCInv s) (hm : s'.mpc = s.mpc)
    (hpd : s'.procDict = s.procDict) (hap : s'.allPids = s.allPids)
    (hdead : ∀ p, s.w p = .dead → s'.w p = .dead)
    (hfpc : s.fpc = .none → s'.fpc = .none)
    (hcnt : needStop s' + stopsInFlight s ≤ needStop s + stopsInFlight s') : JoinCInv s' := by
  obtain ⟨h3, h4, h5, h6, h7, h8, h9, h10, h11, h12⟩ := h
  have hts := mToSend_congr s s' hm hpd
  constructor
  · intro e; rw [hm] at e; have := h3 e; omega
  · intro e; rw [hm] at e; rw [hpd, hap]
    rcases h4 e with a | a
    · exact .inl a
    · exact .inr (fun p hp => hdead p (a p hp))
  · intro ps n e; rw [hm] at e; rw [hpd]; exact h5 ps n e
  · intro n e; rw [hm] at e; rw [hpd]; exact h6 n e
  · intro n sent cool e; rw [hm] at e; exact h7 n sent cool e
  · intro ps cnt n sent cool e; rw [hm] at e; rw [hpd]
    obtain ⟨a, b, c⟩ := h8 ps cnt n sent cool e
    exact ⟨a, b, fun z p hp => hdead p (c z p hp)⟩
  · intro cnt n sent cool e; rw [hm] at e; rw [hpd]
    obtain ⟨a, c⟩ := h9 cnt n sent cool e
    exact ⟨a, fun z p hp => hdead p (c z p hp)⟩
  · intro k n sent cool e; rw [hm] at e; exact h10 k n sent cool e
  · intro k n sent cool e; rw [hm] at e
    obtain ⟨a, b, c⟩ := h11 k n sent cool e
    exact ⟨a, b, hfpc c⟩
  · intro p e q hq; rw [hm] at e; rw [hap] at hq; rw [hpd]
    rcases h12 p e q hq with a | a | a
    · exact .inl a
    · exact .inr (.inl a)
    · exact .inr (.inr (hdead q a))

/-! ### what is used of `staticC` -/

theorem staticC_facts_joinC (s : St) (h : staticC s = true) :
    s.killFlag = false ∧ (∀ p ∈ s.allPids, wNever (s.w p) = false) ∧ (mLateK s.mpc = false → s.procDict = s.allPids) := by
  unfold staticC at h
  simp only [Bool.and_eq_true] at h
  obtain ⟨⟨⟨⟨⟨⟨⟨h1, h2⟩, h3⟩, h4⟩, h5⟩, h6⟩, h7⟩, h8⟩ := h
  refine ⟨by simpa using h2, ?_, ?_⟩
  · intro p hp
    have := List.all_eq_true.1 h3 p hp
    simpa using this
  · intro hf
    simpa [hf] using h7

/-! ### workers, feeder, user threads -/

theorem joinCInv_stepW (s s' : St) (p : Pid) (v : Variant) (h : JoinCInv s) (hpi : PidsInv s) (hst : staticC s = true)
    (hp : p ∈ s.allPids) (hs : stepW s p v = some s') : JoinCInv s' := by
  obtain ⟨f1, f2, f3, f4, f5, f6, f7, f8⟩ := stepW_frame s s' p v hs
  have hal := stepW_alive s s' p v hs
  refine joinCInv_same s s' h f1 f4 f5 ?_ (by rw [f6]; exact id) ?_
  · intro q hq
    by_cases e : q = p
    · subst e; exact absurd hq hal
    · rw [f8 q e]; exact hq
  · rcases stepW_pipe s s' p v hs with ⟨hpipe, hstop⟩ | ⟨m, hpipe, hpre, hpost⟩ | hnever
    · have e : stopsInFlight s' = stopsInFlight s := by
        rw [stopsInFlight_eq, stopsInFlight_eq, f6, f7, hpipe]
      have := needStop_mono s s' f5 (by
        intro q hq hw
        by_cases e : q = p
        · subst e; exact hstop hw
        · rw [f8 q e]; exact hw)
      omega
    · have e := needStop_upd s s' p hpi.nodup hp f5 f8
      have e1 : stopsInFlight s = stopsInFlight s' + cstop m := by
        rw [stopsInFlight_eq, stopsInFlight_eq, f6, f7, hpipe]; simp only [sumL_cons]; omega
      rw [hpre, hpost] at e
      cases m <;> simp [nstop, cstop, wStopping, isStop] at e e1 <;> omega
    · have := (staticC_facts_joinC s hst).2.1 p hp
      rw [this] at hnever; cases hnever

theorem joinCInv_stepF (s s' : St) (v : Variant) (h : JoinCInv s) (hs : stepF s v = some s') : JoinCInv s' := by
  obtain ⟨f1, f2, f3, f4, f5, f6, f7, f8⟩ := stepF_frame s s' v hs
  refine joinCInv_same s s' h f1 f4 f5 (by rw [f6]; exact fun _ h => h) (fun e => absurd e f8) ?_
  have : needStop s' = needStop s := by rw [needStop_eq, needStop_eq, f5, f6]
  omega

theorem joinCInv_stepU (s s' : St) (k : Nat) (v : Variant) (h : JoinCInv s) (hsh : ShutInv s)
    (hs : stepU s k v = some s') : JoinCInv s' := by
  obtain ⟨f1, f2, f3, f4, f5, f6, f7⟩ := stepU_frame s s' k v hs
  by_cases hf : mLateK s.mpc = true
  · have hfl := hsh.flag (jc_mLateK_mFlagged _ hf)
    rcases f7 with ⟨g1, g2, g3⟩ | g
    · rcases f1 with f1 | f1
      · refine joinCInv_same s s' h f1 g1 g2 (by rw [g3]; exact fun _ h => h) (by rw [f4]; exact id) ?_
        have e1 : needStop s' = needStop s := by rw [needStop_eq, needStop_eq, g2, g3]
        have e2 : stopsInFlight s' = stopsInFlight s := by rw [stopsInFlight_eq, stopsInFlight_eq, f4, f5, f6]
        omega
      · exact joinCInv_plain s' (by rw [f1]; rfl)
    · rw [hsh.acc k (by rw [g]; rfl)] at hfl; cases hfl
  · have hf' : mLateK s.mpc = false := by simpa using hf
    rcases f1 with f1 | f1
    · exact joinCInv_plain s' (by rw [f1]; exact hf')
    · exact joinCInv_plain s' (by rw [f1]; rfl)

end LokyModel.Exec
