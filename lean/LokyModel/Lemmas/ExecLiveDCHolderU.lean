import LokyModel.Lemmas.ExecLiveDCHolderBase
/-! `HolderInvD` over the steps of a user thread. -/
namespace LokyModel.Exec

set_option maxHeartbeats 8000000 in
theorem holderInvD_stepU (s s' : St) (k : Nat) (v : Variant) (hk : k < s.cfg.scripts.length) (hp : PidsInv s)
    (h : HolderInvD s) (hs : stepU s k v = some s') : HolderInvD s' := by
  unfold stepU at hs
  crack
  all_goals (refine holderInvD_U h k hk ?_ ?_ ?_ ?_ ?_ ?_ ?_ ?_ ?_ ?_ ?_ ?_ ?_ ?_ ?_)
  all_goals (first
    | rfl
    | (simp; done)
    | (intro q; simp; done)
    | (intro q; simpa using spawn_wSec hp q)
    | (intro j hj; simp [setU_upc_other, uNext_upc_other_holder, uRelease_upc_other_holder, uSpawnLoop_upc_other_holder, uDispatch_upc_other_holder, hj]; done)
    | (hpc; simp [Tri, inGshutU, inMgmtU', inShutU', *]; done))

end LokyModel.Exec
