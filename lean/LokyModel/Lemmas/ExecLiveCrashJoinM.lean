import LokyModel.Lemmas.ExecLiveCrashJoinBase
/-! `JoinCInv` is kept by the steps of the manager thread: the broken path (`terminate_broken`, the kill loop) reaches
    `join_executor_internals` with an empty process table and every spawned worker dead; the clean path reaches it with
    the complete table. -/
namespace LokyModel.Exec
set_option linter.unusedSimpArgs false
set_option linter.unusedVariables false
set_option linter.unnecessarySimpa false

/-! where the continuations leave the manager -/
@[simp] theorem jc_mAdd_plain (s : St) : mLateK (mAdd s).mpc = false := by
  rcases mAdd_mpc_join s with ⟨i, e⟩ | ⟨l, e⟩ <;> rw [e] <;> rfl
@[simp] theorem jc_mAfterItem_plain (s : St) : mLateK (mAfterItem s).mpc = false := by
  unfold mAfterItem; split <;> first | rfl | simp
@[simp] theorem jc_mProcess_plain (s : St) (r) : mLateK (mProcess s r).mpc = false := by
  unfold mProcess; (repeat' split) <;> first | rfl | simp
@[simp] theorem jc_mRespawnCheck_plain (s : St) : mLateK (mRespawnCheck s).mpc = false := by
  unfold mRespawnCheck; simp only []; (repeat' split) <;> first | rfl | simp
@[simp] theorem jc_mDropRef_plain (s : St) : mLateK (mDropRef s).mpc = false := by
  unfold mDropRef; simp only []; split <;> first | rfl | simp
@[simp] theorem jc_mSpawnLoop_plain (s : St) : mLateK (mSpawnLoop s).mpc = false := by
  unfold mSpawnLoop; split <;> rfl

theorem needStop_dead_jc (s : St) (h : ∀ p ∈ s.allPids, s.w p = .dead) : needStop s = 0 := needStop_dead s h

/-- the table is complete, or every spawned worker is dead -/
def FullC (s : St) : Prop := s.procDict = s.allPids ∨ ∀ p ∈ s.allPids, s.w p = .dead

/-- the manager enters `join_executor_internals` -/
theorem joinCInv_jAcq1 (s : St) (hm : s.mpc = .jAcq1) (hfull : FullC s) : JoinCInv s := by
  have hn : needStop s ≤ s.procDict.length := by
    rcases hfull with e | e
    · rw [e]; exact needStop_le_length s
    · rw [needStop_dead s e]; omega
  constructor <;> simp [hm, mFinal, mCounts, mPreJC, mToSend]
  · omega
  · exact hfull

theorem joinCInv_mAddF (s : St) (hfull : s.procDict = s.allPids) : JoinCInv (mAddF s) := by
  rcases mAdd_mpc_join s with ⟨i, e⟩ | ⟨l, e⟩
  · have : mAddF s = { mAdd s with mpc := .addAcqF i } := by simp only [mAddF, mAfterAddF, e]
    rw [this]
    exact joinCInv_plain _ rfl
  · by_cases hp : (mAdd s).pending = []
    · have : mAddF s = mJoinStart (mAdd s) := by simp only [mAddF, mAfterAddF, e, hp, if_true]
      rw [this]
      exact joinCInv_jAcq1 _ rfl (.inl (by simpa [mJoinStart] using hfull))
    · have : mAddF s = mAdd s := by simp only [mAddF, mAfterAddF, e, hp, if_false]
      rw [this]
      exact joinCInv_plain _ (by simp)

theorem joinCInv_mAfterFlag (s : St) (hfull : s.procDict = s.allPids) (hk : s.killFlag = false) :
    JoinCInv (mAfterFlag s) := by
  unfold mAfterFlag
  simp only [hk, Bool.false_eq_true, if_false]
  split
  · exact joinCInv_jAcq1 _ rfl (.inl hfull)
  · exact joinCInv_mAddF s hfull

theorem jc_dropLast_append (l : List Pid) (p : Pid) (h : l.getLast? = some p) : l.dropLast ++ [p] = l := by
  have hne : l ≠ [] := by intro e; simp [e] at h
  have := List.getLast?_eq_some_getLast hne; rw [h] at this; injection this with this
  rw [this]; exact List.dropLast_concat_getLast hne

/-- the kill loop: pop the next registered worker, or go on to `join_executor_internals` with everybody dead -/
theorem joinCInv_mKillNext (s : St) (hk : ∀ q ∈ s.allPids, q ∈ s.procDict ∨ s.w q = .dead) : JoinCInv (mKillNext s) := by
  unfold mKillNext
  split
  · rename_i p hp
    have e : s.procDict.dropLast ++ [p] = s.procDict := jc_dropLast_append _ p hp
    have hk' : ∀ q ∈ s.allPids, q ∈ s.procDict.dropLast ∨ q = p ∨ s.w q = .dead := by
      intro q hq
      rcases hk q hq with a | a
      · rw [← e] at a
        rcases List.mem_append.1 a with a | a
        · exact .inl a
        · exact .inr (.inl (by simpa using a))
      · exact .inr (.inr a)
    constructor <;> simp [mFinal, mCounts, mPreJC]
    exact hk'
  · rename_i hp
    have e : s.procDict = [] := by simpa using hp
    refine joinCInv_jAcq1 _ rfl (.inr ?_)
    intro q hq
    rcases hk q hq with a | a
    · rw [e] at a; cases a
    · exact a

/-! the phases of `join_executor_internals` -/

theorem joinCInv_late (s : St) (hm : mLate s.mpc = true)
    (hc : mCounts s.mpc = true → needStop s ≤ stopsInFlight s) : JoinCInv s := by
  cases e : s.mpc <;> simp [e, mLate] at hm <;>
    constructor <;> simp_all [mFinal, mCounts, mPreJC, mToSend]

theorem joinCInv_mJoinClose (s : St) (hc : needStop s ≤ stopsInFlight s) : JoinCInv (mJoinClose s) := by
  have hm : (mJoinClose s).mpc = .jShutAcq := by unfold mJoinClose; rfl
  apply joinCInv_late
  · rw [hm]; rfl
  · intro _
    rw [stopsInFlight_mJoinClose]
    have : needStop (mJoinClose s) = needStop s := by simp [needStop_eq]
    omega

theorem joinCInv_mJoinLoop (s : St) (n sent cool : Nat) (hfull : FullC s)
    (hc : needStop s ≤ stopsInFlight s + (n - sent)) : JoinCInv (mJoinLoop s n sent cool) := by
  unfold mJoinLoop
  split
  · constructor <;> (try simp only [needStop_mpc, stopsInFlight_mpc]) <;> simp [mFinal, mCounts, mPreJC, mToSend, *]
    exact hfull
  · exact joinCInv_mJoinClose s (by omega)

theorem joinCInv_mAfterPut (s : St) (k n sent cool : Nat) (hk : k = n - sent) (hk0 : 0 < k) (hfull : FullC s)
    (hc : needStop s ≤ stopsInFlight s + (n - (sent + 1))) : JoinCInv (mAfterPut s k n sent cool) := by
  unfold mAfterPut
  split
  · exact joinCInv_mJoinLoop s n (sent + 1) cool hfull hc
  · constructor <;> (try simp only [needStop_mpc, stopsInFlight_mpc]) <;> simp [mFinal, mCounts, mPreJC, mToSend, *] <;>
      first | omega | exact hfull

theorem joinCInv_mAliveNext (s : St) (ps : List Pid) (cnt n sent cool : Nat) (hfull : FullC s)
    (hc : needStop s ≤ stopsInFlight s + (n - sent))
    (hlt : sent < n) (hsuf : s.procDict.drop (s.procDict.length - ps.length) = ps)
    (hdead : cnt = 0 → ∀ p ∈ s.procDict.take (s.procDict.length - ps.length), s.w p = .dead) :
    JoinCInv (mAliveNext s ps cnt n sent cool) := by
  unfold mAliveNext
  split
  · simp at hdead
    constructor <;> (try simp only [needStop_mpc, stopsInFlight_mpc]) <;> simp [mFinal, mCounts, mPreJC, mToSend, *]
    · exact hfull
    · intro c n' s' c' e1 e2 e3 e4
      subst e1 e2 e3 e4
      exact ⟨hlt, hdead⟩
  · rename_i a l
    constructor <;> (try simp only [needStop_mpc, stopsInFlight_mpc]) <;> simp [mFinal, mCounts, mPreJC, mToSend, *]
    · exact hfull
    · intro ps' c n' s' c' e1 e2 e3 e4 e5
      subst e1 e2 e3 e4 e5
      exact ⟨hlt, hsuf, hdead⟩

theorem joinCInv_mRelExitNext (s : St) (ps : List Pid) (n : Nat) (hfull : FullC s)
    (hc : needStop s ≤ stopsInFlight s + s.procDict.length) (hn : n + ps.length = s.procDict.length) :
    JoinCInv (mRelExitNext s ps n) := by
  unfold mRelExitNext
  split
  · simp at hn
    constructor <;> (try simp only [needStop_mpc, stopsInFlight_mpc]) <;> simp [mFinal, mCounts, mPreJC, mToSend, *] <;>
      first | omega | exact hfull
  · rename_i a l
    simp at hn
    constructor <;> (try simp only [needStop_mpc, stopsInFlight_mpc]) <;> simp [mFinal, mCounts, mPreJC, mToSend, *] <;>
      first | omega | exact hfull

theorem joinCInv_mJoinProcs (s : St) (hc : needStop s ≤ stopsInFlight s) : JoinCInv (mJoinProcs s) := by
  unfold mJoinProcs
  split
  · exact joinCInv_late _ rfl (fun _ => hc)
  · exact joinCInv_late _ rfl (fun _ => hc)

theorem joinCInv_killJoin (s : St) (p : Pid) (hm : s.mpc = .killJoin p)
    (hk : ∀ q ∈ s.allPids, q ∈ s.procDict ∨ q = p ∨ s.w q = .dead) : JoinCInv s := by
  constructor <;> simp [hm, mFinal, mCounts, mPreJC]
  exact hk

set_option maxHeartbeats 8000000 in
theorem joinCInv_stepM (s s' : St) (v : Variant) (h : JoinCInv s) (hst : staticC s = true)
    (hs : stepM s v = some s') : JoinCInv s' := by
  obtain ⟨hkill, hwn, hfull⟩ := staticC_facts_joinC s hst
  unfold stepM at hs
  crack
  all_goals (first
    | (apply joinCInv_plain; simp; done)
    | (apply joinCInv_plain; simp [mLateK, mFinal]; done)
    | (apply joinCInv_plain; split <;> simp [mLateK, mFinal]; done)
    | (exact joinCInv_mAddF _ (by simpa [*, mLateK, mFinal] using hfull))
    | (exact joinCInv_mAfterFlag _ (by simpa [*, mLateK, mFinal] using hfull) (by simpa using hkill))
    | skip)
  all_goals (clear hwn hst hkill)
  all_goals (have hm := ‹s.mpc = _›)
  all_goals (obtain ⟨h3, h4, h5, h6, h7, h8, h9, h10, h11, h12⟩ := h)
  all_goals (simp [hm, mFinal, mCounts, mPreJC, mToSend, mLateK] at h3 h4 h5 h6 h7 h8 h9 h10 h11 h12 hfull)
  -- brkRel: `terminate_broken` enters the kill loop with the complete table
  · exact joinCInv_mKillNext _ (fun q hq => .inl (by simpa [failAll, hfull] using hq))
  · exact joinCInv_mKillNext _ (fun q hq => .inl (by simpa [failAll, hfull] using hq))
  -- kill
  · refine joinCInv_killJoin _ _ rfl ?_
    intro q hq
    rcases h12 q (by simpa [die] using hq) with a | a | a
    · exact .inl (by simpa [die] using a)
    · exact .inr (.inl a)
    · exact .inr (.inr (by simp [die, upd, a]))
  · exact joinCInv_killJoin _ _ rfl h12
  -- killJoin
  · refine joinCInv_mKillNext s ?_
    intro q hq
    rcases h12 q hq with a | a | a
    · exact .inl a
    · subst a; exact .inr (by simpa [isDead] using ‹isDead s _ = true›)
    · exact .inr a
  -- jAcq1
  · exact joinCInv_mRelExitNext _ _ _ h4 (by simpa [needStop_eq, stopsInFlight_eq] using h3) (by simp)
  -- jRelExit
  · exact joinCInv_late _ rfl (fun e => by simp [mCounts] at e)
  · exact joinCInv_mRelExitNext _ _ _ h4 (by simpa [needStop_eq, stopsInFlight_eq] using h3) (by simp; omega)
  -- jRel1
  · exact joinCInv_mJoinLoop _ _ _ _ h4 (by simp [needStop_eq, stopsInFlight_eq] at h3 ⊢; omega)
  -- jAliveAcq
  · exact joinCInv_mAliveNext _ _ _ _ _ _ h4 (by simpa [needStop_eq, stopsInFlight_eq] using h3) h7 (by simp) (by simp)
  -- jAlive
  · obtain ⟨a, b, c⟩ := h8 _ _ _ _ _ rfl rfl rfl rfl rfl
    obtain ⟨d, e⟩ := suffix_step _ _ _ b
    refine joinCInv_mAliveNext _ _ _ _ _ _ h4 h3 a d ?_
    intro hc q hq
    rw [e] at hq
    rcases List.mem_append.1 hq with hq | hq
    · exact c (by omega) q hq
    · simp at hq; subst hq; simpa [isDead] using ‹isDead s _ = true›
  · obtain ⟨a, b, c⟩ := h8 _ _ _ _ _ rfl rfl rfl rfl rfl
    obtain ⟨d, e⟩ := suffix_step _ _ _ b
    refine joinCInv_mAliveNext _ _ _ _ _ _ h4 h3 a d ?_
    intro hc; omega
  -- jAliveRel
  · obtain ⟨a, c⟩ := h9 _ _ _ _ rfl rfl rfl rfl
    simp only [needStop_eq, stopsInFlight_eq] at h3
    constructor <;> simp [mFinal, mCounts, mPreJC, mToSend, needStop_eq, stopsInFlight_eq, *] <;>
      first | omega | exact h4
  · obtain ⟨a, c⟩ := h9 _ _ _ _ rfl rfl rfl rfl
    have hd : needStop s = 0 := by
      rcases h4 with e | e
      · exact needStop_dead s (by rw [← e]; exact c (by omega))
      · exact needStop_dead s e
    exact joinCInv_mJoinClose _ (by simp [needStop_eq, stopsInFlight_eq] at hd ⊢; omega)
  -- jPut
  · obtain ⟨a, c⟩ := h10 _ _ _ _ rfl rfl rfl rfl
    simp only [needStop_eq, stopsInFlight_eq] at h3
    rw [‹s.fpc = FPc.none›] at h3
    constructor <;> simp [mFinal, mCounts, mPreJC, mToSend, needStop_eq, stopsInFlight_eq, *] <;>
      first | omega | exact h4
  · obtain ⟨a, c⟩ := h10 _ _ _ _ rfl rfl rfl rfl
    exact joinCInv_mAfterPut _ _ _ _ _ a c h4
      (by simp [needStop_eq, stopsInFlight_eq, cstop, isStop] at h3 ⊢; omega)
  · exact joinCInv_late _ rfl (fun e => by simp [mCounts] at e)
  · simp only [needStop_eq, stopsInFlight_eq] at h3
    constructor <;> simp [mFinal, mCounts, mPreJC, mToSend, needStop_eq, stopsInFlight_eq, *]
  -- jPutTStart
  · obtain ⟨a, c, d⟩ := h11 _ _ _ _ rfl rfl rfl rfl
    exact joinCInv_mAfterPut _ _ _ _ _ a c h4
      (by simp [needStop_eq, stopsInFlight_eq, cstop, isStop, fstop, d] at h3 ⊢; omega)
  -- jSleep
  · exact joinCInv_mJoinLoop s _ _ _ h4 h3
  -- jShutAcq, jShutRel
  · exact joinCInv_late _ rfl (fun _ => by simpa [needStop_eq, stopsInFlight_eq] using h3)
  · exact joinCInv_late _ rfl (fun _ => by simpa [needStop_eq, stopsInFlight_eq] using h3)
  -- jAcq2, jJoin, jRel2
  · exact joinCInv_mJoinProcs _ (by simpa [needStop_eq, stopsInFlight_eq] using h3)
  · exact joinCInv_mJoinProcs s h3
  · exact joinCInv_late _ rfl (fun _ => by simpa [needStop_eq, stopsInFlight_eq] using h3)

end LokyModel.Exec
