import LokyModel.Tracker
/-! helper lemmas for `Props/C11.lean`: split/join/strip algebra, dictionary algebra, the
    registry invariant and its preservation, one-step effect on the count of a key. -/
namespace LokyModel.Tracker

/-! ## `split` / `join` -/
section Split
variable {α : Type} [DecidableEq α]

theorem splitOn_ne_nil (sep : α) : ∀ s : List α, splitOn sep s ≠ []
  | [] => by simp [splitOn]
  | c :: cs => by
    simp only [splitOn]
    split <;> simp

omit [DecidableEq α] in
theorem joinWith_cons (sep : α) (h : List α) {t : List (List α)} (ht : t ≠ []) :
    joinWith sep (h :: t) = h ++ sep :: joinWith sep t := by
  cases t with
  | nil => exact absurd rfl ht
  | cons q ps => rfl

omit [DecidableEq α] in
theorem joinWith_snoc (sep : α) (l : List α) :
    ∀ {mid : List (List α)}, mid ≠ [] → joinWith sep (mid ++ [l]) = joinWith sep mid ++ sep :: l
  | [], h => absurd rfl h
  | [p], _ => by simp [joinWith]
  | p :: q :: ps, _ => by
    have ih := joinWith_snoc sep l (mid := q :: ps) (by simp)
    have e : (p :: q :: ps) ++ [l] = p :: ((q :: ps) ++ [l]) := rfl
    rw [e, joinWith_cons sep p (by simp), ih, joinWith_cons sep p (by simp)]
    simp

/-- `sep.join(s.split(sep)) == s` -/
theorem joinWith_splitOn (sep : α) : ∀ s : List α, joinWith sep (splitOn sep s) = s
  | [] => rfl
  | c :: cs => by
    have ih := joinWith_splitOn sep cs
    have hne := splitOn_ne_nil sep cs
    simp only [splitOn]
    cases hr : splitOn sep cs with
    | nil => exact absurd hr hne
    | cons h t =>
      rw [hr] at ih
      split
      · next hc =>
        rw [joinWith_cons sep [] (by simp), ih, hc]; rfl
      · cases t with
        | nil => simpa [joinWith] using ih
        | cons q ps =>
          simp only [List.headD_cons, List.tail_cons]
          rw [joinWith_cons sep _ (by simp)]
          rw [joinWith_cons sep _ (by simp)] at ih
          rw [← ih]; rfl

/-- `(a + sep + b).split(sep) == a.split(sep) + b.split(sep)` -/
theorem splitOn_append_sep (sep : α) (b : List α) :
    ∀ a : List α, splitOn sep (a ++ sep :: b) = splitOn sep a ++ splitOn sep b
  | [] => by simp [splitOn]
  | c :: a => by
    have ih := splitOn_append_sep sep b a
    have hne := splitOn_ne_nil sep a
    simp only [List.cons_append, splitOn, ih]
    cases hr : splitOn sep a with
    | nil => exact absurd hr hne
    | cons h t =>
      split <;> simp

theorem splitOn_of_not_mem (sep : α) : ∀ {c : List α}, sep ∉ c → splitOn sep c = [c]
  | [], _ => rfl
  | x :: c, h => by
    have hx : x ≠ sep := fun e => h (by simp [e])
    have ih := splitOn_of_not_mem sep (c := c) (fun m => h (List.mem_cons_of_mem _ m))
    simp [splitOn, hx, ih]

theorem list_decomp {β : Type} (d : β) : ∀ t : List β, t ≠ [] → t = t.dropLast ++ [t.getLastD d]
  | [], h => absurd rfl h
  | [x], _ => rfl
  | x :: y :: r, _ => by
    have ih := list_decomp d (y :: r) (by simp)
    simp only [List.dropLast_cons_cons, List.cons_append, List.getLastD_cons] at ih ⊢
    rw [← ih]

/-- a string with at least two fields is `first + sep + join(middle) [+ sep] + last` -/
theorem split_decomp (sep : α) (s : List α) (h3 : 3 ≤ (splitOn sep s).length) :
    s = (splitOn sep s).headD [] ++ sep ::
          (joinWith sep (splitOn sep s).tail.dropLast ++ sep :: (splitOn sep s).getLastD []) := by
  have hj := joinWith_splitOn sep s
  cases hp : splitOn sep s with
  | nil => rw [hp] at h3; simp at h3
  | cons h t =>
    rw [hp] at hj h3
    have ht : t ≠ [] := by intro e; subst e; simp at h3
    have hd := list_decomp ([] : List α) t ht
    have hmid : t.dropLast ≠ [] := by
      intro e
      have : t.length = 1 := by rw [hd, e]; simp
      simp at h3; omega
    have hl : (h :: t).getLastD [] = t.getLastD [] := by
      cases t with
      | nil => exact absurd rfl ht
      | cons q ps => simp
    simp only [List.headD_cons, List.tail_cons, hl]
    rw [← joinWith_snoc sep _ hmid, ← hd, ← joinWith_cons sep h ht]
    exact hj.symm

end Split

/-! ## `strip` -/

theorem dropWhile_append_all (p : UInt8 → Bool) :
    ∀ (pre s : Bytes), (∀ x ∈ pre, p x = true) → (pre ++ s).dropWhile p = s.dropWhile p
  | [], _, _ => rfl
  | a :: pre, s, h => by
    have ha : p a = true := h a (by simp)
    simp only [List.cons_append, List.dropWhile_cons, ha, if_true]
    exact dropWhile_append_all p pre s (fun x hx => h x (List.mem_cons_of_mem _ hx))

/-- surrounding whitespace is removed, and nothing else, when the core starts and ends with a
    non-blank byte -/
theorem strip_core (pre post core : Bytes)
    (hpre : ∀ x ∈ pre, isSpace x = true) (hpost : ∀ x ∈ post, isSpace x = true)
    (hhead : ∃ a t, core = a :: t ∧ isSpace a = false)
    (hlast : ∃ t z, core = t ++ [z] ∧ isSpace z = false) :
    strip (pre ++ core ++ post) = core := by
  obtain ⟨a, t, hc, ha⟩ := hhead
  obtain ⟨t', z, hc', hz⟩ := hlast
  have h1 : lstrip (pre ++ core ++ post) = core ++ post := by
    unfold lstrip
    rw [List.append_assoc, dropWhile_append_all isSpace pre _ hpre, hc]
    simp [ha]
  unfold strip
  rw [h1]
  unfold rstrip
  rw [List.reverse_append, dropWhile_append_all isSpace post.reverse _ (by simpa using hpost), hc']
  simp [hz]


/-! ## dictionaries -/
namespace Dict

theorem get?_set_self : ∀ (d : Dict) (n : Name) (v : Int), (d.set n v).get? n = some v
  | [], n, v => by simp [set, get?]
  | (m, c) :: r, n, v => by
    by_cases h : m = n
    · simp [set, get?, h]
    · simp [set, get?, h, get?_set_self r n v]

theorem get?_set_ne : ∀ (d : Dict) (n m : Name) (v : Int), m ≠ n → (d.set n v).get? m = d.get? m
  | [], n, m, v, h => by simp [set, get?, Ne.symm h]
  | (x, c) :: r, n, m, v, h => by
    by_cases hx : x = n
    · subst hx
      simp [set, get?, Ne.symm h]
    · by_cases hm : x = m
      · subst hm; simp [set, get?, hx]
      · simp [set, get?, hx, hm, get?_set_ne r n m v h]

theorem get?_erase_self : ∀ (d : Dict) (n : Name), (d.erase n).get? n = none
  | [], n => rfl
  | (x, c) :: r, n => by
    by_cases hx : x = n
    · simp [erase, hx, get?_erase_self r n]
    · simp [erase, get?, hx, get?_erase_self r n]

theorem get?_erase_ne : ∀ (d : Dict) (n m : Name), m ≠ n → (d.erase n).get? m = d.get? m
  | [], _, _, _ => rfl
  | (x, c) :: r, n, m, h => by
    by_cases hx : x = n
    · subst hx
      simp [erase, get?, Ne.symm h, get?_erase_ne r x m h]
    · by_cases hm : x = m
      · subst hm; simp [erase, get?, hx]
      · simp [erase, get?, hx, hm, get?_erase_ne r n m h]

theorem mem_keys_iff : ∀ (d : Dict) (n : Name), n ∈ d.keys ↔ d.get? n ≠ none
  | [], n => by simp [keys, get?]
  | (x, c) :: r, n => by
    have ih := mem_keys_iff r n
    by_cases hx : x = n
    · simp [keys, get?, hx]
    · have : ¬ n = x := fun e => hx e.symm
      simp only [keys, List.map_cons, List.mem_cons, this, false_or, get?, hx, if_false]
      exact ih

theorem keys_erase : ∀ (d : Dict) (n : Name), (d.erase n).keys = d.keys.filter (· ≠ n)
  | [], _ => rfl
  | (x, c) :: r, n => by
    have ih := keys_erase r n
    simp only [keys] at ih ⊢
    by_cases hx : x = n
    · simp [erase, hx, ih]
    · simp [erase, hx, ih]

theorem keys_set_of_mem : ∀ (d : Dict) (n : Name) (v : Int), n ∈ d.keys → (d.set n v).keys = d.keys
  | [], _, _, h => by simp [keys] at h
  | (x, c) :: r, n, v, h => by
    by_cases hx : x = n
    · simp [set, hx, keys]
    · have hn : n ∈ keys r := by
        simp only [keys, List.map_cons, List.mem_cons] at h
        rcases h with h | h
        · exact absurd h.symm hx
        · exact h
      have ih := keys_set_of_mem r n v hn
      simp only [keys] at ih
      simp [set, hx, keys, ih]

theorem keys_set_of_not_mem : ∀ (d : Dict) (n : Name) (v : Int), n ∉ d.keys → (d.set n v).keys = d.keys ++ [n]
  | [], _, _, _ => rfl
  | (x, c) :: r, n, v, h => by
    have hx : x ≠ n := fun e => h (by simp [keys, e])
    have hn : n ∉ keys r := fun m => h (by simp only [keys, List.map_cons, List.mem_cons]; exact Or.inr m)
    have ih := keys_set_of_not_mem r n v hn
    simp only [keys] at ih
    simp [set, hx, keys, ih]

theorem nodup_erase (d : Dict) (n : Name) (h : d.keys.Nodup) : (d.erase n).keys.Nodup := by
  rw [keys_erase]; exact h.filter _

theorem nodup_set (d : Dict) (n : Name) (v : Int) (h : d.keys.Nodup) : (d.set n v).keys.Nodup := by
  by_cases hn : n ∈ d.keys
  · rw [keys_set_of_mem d n v hn]; exact h
  · rw [keys_set_of_not_mem d n v hn]
    exact List.nodup_append.2 ⟨h, by simp, by
      intro a ha b hb
      simp only [List.mem_singleton] at hb
      subst hb
      exact fun e => hn (e ▸ ha)⟩

end Dict

/-! ## the registry invariant: unique names per kind, every stored count ≥ 1 -/

def Inv (reg : Registry) : Prop :=
  ∀ k, (reg k).keys.Nodup ∧ ∀ n c, (reg k).get? n = some c → 1 ≤ c

/-- the count the tracker holds for a key (0 when the name is not in the registry) -/
def cnt (reg : Registry) (k : Kind) (n : Name) : Int := ((reg k).get? n).getD 0

theorem inv_init : Inv Registry.init := by
  intro k; simp [Registry.init, Dict.keys, Dict.get?]

theorem upd_same (r : Registry) (k : Kind) (d : Dict) : (r.upd k d) k = d := by simp [Registry.upd]
theorem upd_other (r : Registry) (k k' : Kind) (d : Dict) (h : k' ≠ k) : (r.upd k d) k' = r k' := by
  simp [Registry.upd, h]

theorem inv_upd (reg : Registry) (k : Kind) (d : Dict) (h : Inv reg)
    (hd : d.keys.Nodup ∧ ∀ n c, d.get? n = some c → 1 ≤ c) : Inv (reg.upd k d) := by
  intro k'
  by_cases e : k' = k
  · subst e; rw [upd_same]; exact hd
  · rw [upd_other _ _ _ _ e]; exact h k'

theorem inv_set (d : Dict) (n : Name) (v : Int) (hv : 1 ≤ v)
    (hd : d.keys.Nodup ∧ ∀ m c, d.get? m = some c → 1 ≤ c) :
    (d.set n v).keys.Nodup ∧ ∀ m c, (d.set n v).get? m = some c → 1 ≤ c := by
  refine ⟨Dict.nodup_set d n v hd.1, fun m c hm => ?_⟩
  by_cases e : m = n
  · subst e; rw [Dict.get?_set_self] at hm; cases hm; exact hv
  · rw [Dict.get?_set_ne _ _ _ _ e] at hm; exact hd.2 m c hm

theorem inv_erase (d : Dict) (n : Name)
    (hd : d.keys.Nodup ∧ ∀ m c, d.get? m = some c → 1 ≤ c) :
    (d.erase n).keys.Nodup ∧ ∀ m c, (d.erase n).get? m = some c → 1 ≤ c := by
  refine ⟨Dict.nodup_erase d n hd.1, fun m c hm => ?_⟩
  by_cases e : m = n
  · subst e; rw [Dict.get?_erase_self] at hm; cases hm
  · rw [Dict.get?_erase_ne _ _ _ e] at hm; exact hd.2 m c hm

theorem erase_set (d : Dict) (n : Name) (v : Int) : (d.set n v).erase n = d.erase n := by
  induction d with
  | nil => simp [Dict.set, Dict.erase]
  | cons p r ih =>
    obtain ⟨x, c⟩ := p
    by_cases hx : x = n
    · simp [Dict.set, Dict.erase, hx]
    · simp [Dict.set, Dict.erase, hx, ih]

theorem inv_handle (env : Env) (reg : Registry) (p : Parsed) (h : Inv reg) : Inv (handle env reg p).1 := by
  cases p with
  | probe => exact h
  | bad e => exact h
  | req c k n =>
    cases c with
    | register =>
      simp only [handle]
      cases hg : (reg k).get? n with
      | none => exact inv_upd _ _ _ h (inv_set _ _ _ (by omega) (h k))
      | some c =>
        have := (h k).2 n c hg
        exact inv_upd _ _ _ h (inv_set _ _ _ (by omega) (h k))
    | unregister =>
      simp only [handle]
      cases hg : (reg k).get? n with
      | none => exact h
      | some c => exact inv_upd _ _ _ h (inv_erase _ _ (h k))
    | maybeUnlink =>
      simp only [handle]
      cases hg : (reg k).get? n with
      | none => exact h
      | some c =>
        have := (h k).2 n c hg
        by_cases hz : c - 1 = 0
        · simp only [hz, if_true]
          rw [erase_set]
          exact inv_upd _ _ _ h (inv_erase _ _ (h k))
        · simp only [hz, if_false]
          exact inv_upd _ _ _ h (inv_set _ _ _ (by omega) (h k))

theorem runReg_append (env : Env) (reg : Registry) (a b : List Bytes) :
    runReg env reg (a ++ b) = runReg env (runReg env reg a) b := by
  simp [runReg, List.foldl_append]

theorem runReg_cons (env : Env) (reg : Registry) (l : Bytes) (ls : List Bytes) :
    runReg env reg (l :: ls) = runReg env (handleLine env reg l).1 ls := rfl

theorem inv_runReg (env : Env) : ∀ (lines : List Bytes) (reg : Registry), Inv reg → Inv (runReg env reg lines)
  | [], _, h => h
  | l :: ls, reg, h => by
    rw [runReg_cons]
    exact inv_runReg env ls _ (inv_handle env reg _ h)

/-! ## effect of one request on the count of a key -/

theorem handle_register_none {env : Env} {reg : Registry} {k : Kind} {n : Name} (hg : (reg k).get? n = none) :
    handle env reg (.req .register k n) = (reg.upd k ((reg k).set n 1), []) := by
  simp only [handle, hg]

theorem handle_register_some {env : Env} {reg : Registry} {k : Kind} {n : Name} {c : Int}
    (hg : (reg k).get? n = some c) :
    handle env reg (.req .register k n) = (reg.upd k ((reg k).set n (c + 1)), []) := by
  simp only [handle, hg]

theorem handle_unregister_none {env : Env} {reg : Registry} {k : Kind} {n : Name} (hg : (reg k).get? n = none) :
    handle env reg (.req .unregister k n) = (reg, [.error .key]) := by
  simp only [handle, hg]

theorem handle_unregister_some {env : Env} {reg : Registry} {k : Kind} {n : Name} {c : Int}
    (hg : (reg k).get? n = some c) :
    handle env reg (.req .unregister k n) = (reg.upd k ((reg k).erase n), []) := by
  simp only [handle, hg]

theorem handle_maybeUnlink_none {env : Env} {reg : Registry} {k : Kind} {n : Name} (hg : (reg k).get? n = none) :
    handle env reg (.req .maybeUnlink k n) = (reg, [.error .key]) := by
  simp only [handle, hg]

theorem handle_maybeUnlink_last {env : Env} {reg : Registry} {k : Kind} {n : Name} {c : Int}
    (hg : (reg k).get? n = some c) (hc : c - 1 = 0) :
    handle env reg (.req .maybeUnlink k n) = (reg.upd k ((reg k).erase n), cleanupInLoop env k n) := by
  simp only [handle, hg, hc, if_true, erase_set]

theorem handle_maybeUnlink_more {env : Env} {reg : Registry} {k : Kind} {n : Name} {c : Int}
    (hg : (reg k).get? n = some c) (hc : ¬ c - 1 = 0) :
    handle env reg (.req .maybeUnlink k n) = (reg.upd k ((reg k).set n (c - 1)), []) := by
  simp only [handle, hg, hc, if_false]

theorem get?_other (env : Env) (reg : Registry) (c : Cmd) (k k' : Kind) (n n' : Name)
    (hne : ¬ (k' = k ∧ n' = n)) : ((handle env reg (.req c k n)).1 k').get? n' = (reg k').get? n' := by
  have key : ∀ d : Dict, (∀ m, m ≠ n → d.get? m = (reg k).get? m) →
      ((reg.upd k d) k').get? n' = (reg k').get? n' := by
    intro d hd
    by_cases hk : k' = k
    · subst hk
      rw [upd_same, hd n' (fun e => hne ⟨rfl, e⟩)]
    · rw [upd_other _ _ _ _ hk]
  cases hg : (reg k).get? n with
  | none =>
    cases c
    · rw [handle_register_none hg]; exact key _ (fun m hm => Dict.get?_set_ne _ _ _ _ hm)
    · rw [handle_unregister_none hg]
    · rw [handle_maybeUnlink_none hg]
  | some v =>
    cases c
    · rw [handle_register_some hg]; exact key _ (fun m hm => Dict.get?_set_ne _ _ _ _ hm)
    · rw [handle_unregister_some hg]; exact key _ (fun m hm => Dict.get?_erase_ne _ _ _ hm)
    · by_cases hz : v - 1 = 0
      · rw [handle_maybeUnlink_last hg hz]; exact key _ (fun m hm => Dict.get?_erase_ne _ _ _ hm)
      · rw [handle_maybeUnlink_more hg hz]; exact key _ (fun m hm => Dict.get?_set_ne _ _ _ _ hm)

theorem cnt_other (env : Env) (reg : Registry) (c : Cmd) (k k' : Kind) (n n' : Name)
    (hne : ¬ (k' = k ∧ n' = n)) : cnt (handle env reg (.req c k n)).1 k' n' = cnt reg k' n' := by
  unfold cnt; rw [get?_other env reg c k k' n n' hne]

/-- other resource types keep their whole dictionary (order included) -/
theorem dict_other_kind (env : Env) (reg : Registry) (c : Cmd) (k k' : Kind) (n : Name) (hk : k' ≠ k) :
    (handle env reg (.req c k n)).1 k' = reg k' := by
  cases hg : (reg k).get? n with
  | none =>
    cases c
    · rw [handle_register_none hg]; exact upd_other _ _ _ _ hk
    · rw [handle_unregister_none hg]
    · rw [handle_maybeUnlink_none hg]
  | some v =>
    cases c
    · rw [handle_register_some hg]; exact upd_other _ _ _ _ hk
    · rw [handle_unregister_some hg]; exact upd_other _ _ _ _ hk
    · by_cases hz : v - 1 = 0
      · rw [handle_maybeUnlink_last hg hz]; exact upd_other _ _ _ _ hk
      · rw [handle_maybeUnlink_more hg hz]; exact upd_other _ _ _ _ hk

theorem mem_cleanupInLoop (env : Env) (k k' : Kind) (n n' : Name) :
    Event.clean k' n' ∈ cleanupInLoop env k n ↔ k' = k ∧ n' = n := by
  unfold cleanupInLoop
  cases env k n <;> simp

theorem count_cleanupInLoop (env : Env) (k k' : Kind) (n n' : Name) :
    (cleanupInLoop env k n).count (Event.clean k' n') = if k = k' ∧ n = n' then 1 else 0 := by
  unfold cleanupInLoop
  cases env k n <;> simp [List.count_cons]

/-- a request only ever destroys its own key -/
theorem clean_mem_handle (env : Env) (reg : Registry) (c : Cmd) (k k' : Kind) (n n' : Name)
    (h : Event.clean k' n' ∈ (handle env reg (.req c k n)).2) : c = .maybeUnlink ∧ k' = k ∧ n' = n := by
  cases hg : (reg k).get? n with
  | none =>
    cases c
    · rw [handle_register_none hg] at h; simp at h
    · rw [handle_unregister_none hg] at h; simp at h
    · rw [handle_maybeUnlink_none hg] at h; simp at h
  | some v =>
    cases c
    · rw [handle_register_some hg] at h; simp at h
    · rw [handle_unregister_some hg] at h; simp at h
    · by_cases hz : v - 1 = 0
      · rw [handle_maybeUnlink_last hg hz] at h
        exact ⟨rfl, (mem_cleanupInLoop env k k' n n').1 h⟩
      · rw [handle_maybeUnlink_more hg hz] at h; simp at h

theorem outputs_append (env : Env) : ∀ (a b : List Bytes) (reg : Registry),
    outputs env reg (a ++ b) = outputs env reg a ++ outputs env (runReg env reg a) b
  | [], _, _ => rfl
  | l :: a, b, reg => by
    simp only [List.cons_append, outputs, runReg_cons]
    rw [outputs_append env a b]

theorem cnt_of_none {reg : Registry} {k : Kind} {n : Name} (hg : (reg k).get? n = none) : cnt reg k n = 0 := by
  simp [cnt, hg]

theorem cnt_of_some {reg : Registry} {k : Kind} {n : Name} {c : Int} (hg : (reg k).get? n = some c) :
    cnt reg k n = c := by
  simp [cnt, hg]

theorem cnt_eq_zero_iff (reg : Registry) (h : Inv reg) (k : Kind) (n : Name) :
    cnt reg k n = 0 ↔ (reg k).get? n = none := by
  cases hg : (reg k).get? n with
  | none => simp [cnt_of_none hg]
  | some c =>
    have := (h k).2 n c hg
    rw [cnt_of_some hg]
    simp; omega

theorem cnt_nonneg (reg : Registry) (h : Inv reg) (k : Kind) (n : Name) : 0 ≤ cnt reg k n := by
  cases hg : (reg k).get? n with
  | none => rw [cnt_of_none hg]; omega
  | some c => have := (h k).2 n c hg; rw [cnt_of_some hg]; omega

theorem cnt_register (env : Env) (reg : Registry) (k : Kind) (n : Name) :
    cnt (handle env reg (.req .register k n)).1 k n = cnt reg k n + 1 := by
  cases hg : (reg k).get? n with
  | none =>
    rw [handle_register_none hg, cnt_of_none hg]
    simp [cnt, upd_same, Dict.get?_set_self]
  | some c =>
    rw [handle_register_some hg, cnt_of_some hg]
    simp [cnt, upd_same, Dict.get?_set_self]

theorem cnt_unregister (env : Env) (reg : Registry) (k : Kind) (n : Name) :
    cnt (handle env reg (.req .unregister k n)).1 k n = 0 := by
  cases hg : (reg k).get? n with
  | none => rw [handle_unregister_none hg]; exact cnt_of_none hg
  | some c =>
    rw [handle_unregister_some hg]
    simp [cnt, upd_same, Dict.get?_erase_self]

theorem cnt_maybeUnlink (env : Env) (reg : Registry) (h : Inv reg) (k : Kind) (n : Name) :
    cnt (handle env reg (.req .maybeUnlink k n)).1 k n = if 0 < cnt reg k n then cnt reg k n - 1 else 0 := by
  cases hg : (reg k).get? n with
  | none => rw [handle_maybeUnlink_none hg, cnt_of_none hg]; simp
  | some c =>
    have := (h k).2 n c hg
    rw [cnt_of_some hg]
    by_cases hz : c - 1 = 0
    · rw [handle_maybeUnlink_last hg hz]
      simp only [cnt, upd_same, Dict.get?_erase_self]
      simp; omega
    · rw [handle_maybeUnlink_more hg hz]
      simp only [cnt, upd_same, Dict.get?_set_self]
      simp; omega

/-- the effects of a request, as a function of the count alone -/
theorem events_req (env : Env) (reg : Registry) (h : Inv reg) (c : Cmd) (k : Kind) (n : Name) :
    (handle env reg (.req c k n)).2 =
      match c with
      | .register => []
      | .unregister => if 0 < cnt reg k n then [] else [.error .key]
      | .maybeUnlink =>
        if cnt reg k n = 1 then cleanupInLoop env k n
        else if 1 < cnt reg k n then [] else [.error .key] := by
  cases hg : (reg k).get? n with
  | none =>
    cases c
    · rw [handle_register_none hg]
    · rw [handle_unregister_none hg, cnt_of_none hg]; simp
    · rw [handle_maybeUnlink_none hg, cnt_of_none hg]; simp
  | some v =>
    have := (h k).2 n v hg
    cases c
    · rw [handle_register_some hg]
    · rw [handle_unregister_some hg, cnt_of_some hg]
      have : 0 < v := by omega
      simp [this]
    · rw [cnt_of_some hg]
      by_cases hz : v - 1 = 0
      · rw [handle_maybeUnlink_last hg hz]
        have : v = 1 := by omega
        simp [this]
      · rw [handle_maybeUnlink_more hg hz]
        have h1 : v ≠ 1 := by omega
        have h2 : 1 < v := by omega
        simp [h1, h2]


/-! ## the wire format and the parser -/

theorem isAscii_append (a b : Bytes) : isAscii (a ++ b) = (isAscii a && isAscii b) := by
  simp [isAscii, List.all_append]

theorem isAscii_cons (x : UInt8) (b : Bytes) : isAscii (x :: b) = (decide (x < 128) && isAscii b) := by
  simp [isAscii]

theorem colon_not_mem_cmd (c : Cmd) : colon ∉ c.bytes := by cases c <;> decide
theorem colon_not_mem_kind (k : Kind) : colon ∉ k.bytes := by cases k <;> decide
theorem isAscii_cmd (c : Cmd) : isAscii c.bytes = true := by cases c <;> decide
theorem isAscii_kind (k : Kind) : isAscii k.bytes = true := by cases k <;> decide
theorem cmd_ne_probe (c : Cmd) : c.bytes ≠ bPROBE := by cases c <;> decide
theorem cmd_ne_kind (c : Cmd) (k : Kind) : c.bytes ≠ k.bytes := by cases c <;> cases k <;> decide
theorem kindOf_bytes (k : Kind) : kindOf k.bytes = some k := by cases k <;> decide
theorem cmdOf_bytes (c : Cmd) : cmdOf c.bytes = some c := by cases c <;> decide

theorem kindOf_some {s : Bytes} {k : Kind} (h : kindOf s = some k) : s = k.bytes := by
  unfold kindOf at h
  split at h
  · cases h; assumption
  · split at h
    · cases h; assumption
    · split at h
      · cases h; assumption
      · cases h

theorem cmdOf_some {s : Bytes} {c : Cmd} (h : cmdOf s = some c) : s = c.bytes := by
  unfold cmdOf at h
  split at h
  · cases h; assumption
  · split at h
    · cases h; assumption
    · split at h
      · cases h; assumption
      · cases h

theorem wire_head (c : Cmd) (n : Name) (k : Kind) : ∃ a t, wire c n k = a :: t ∧ isSpace a = false := by
  cases c <;> exact ⟨_, _, rfl, by decide⟩

theorem wire_last (c : Cmd) (n : Name) (k : Kind) : ∃ t z, wire c n k = t ++ [z] ∧ isSpace z = false := by
  cases k
  · exact ⟨c.bytes ++ colon :: (n ++ colon :: [102, 111, 108, 100, 101]), 114, by simp [wire, Kind.bytes, bFolder], by decide⟩
  · exact ⟨c.bytes ++ colon :: (n ++ colon :: [102, 105, 108]), 101, by simp [wire, Kind.bytes, bFile], by decide⟩
  · exact ⟨c.bytes ++ colon :: (n ++ colon :: [115, 101, 109, 108, 111, 99]), 107, by simp [wire, Kind.bytes, bSemlock], by decide⟩

theorem splitOn_wire (c : Cmd) (n : Name) (k : Kind) :
    splitOn colon (wire c n k) = c.bytes :: (splitOn colon n ++ [k.bytes]) := by
  unfold wire
  rw [splitOn_append_sep, splitOn_append_sep, splitOn_of_not_mem colon (colon_not_mem_cmd c),
    splitOn_of_not_mem colon (colon_not_mem_kind k)]
  rfl

theorem getLastD_snoc {β : Type} (x d : β) : ∀ l : List β, (l ++ [x]).getLastD d = x
  | [] => rfl
  | [a] => rfl
  | a :: b :: l => by
    have ih := getLastD_snoc x d (b :: l)
    simp only [List.cons_append, List.getLastD_cons] at ih ⊢
    exact ih

theorem count_nodup_mem {β : Type} [BEq β] [LawfulBEq β] (a : β) : ∀ l : List β, l.Nodup → a ∈ l → l.count a = 1
  | [], _, h => by simp at h
  | b :: l, hd, h => by
    have hd' := List.nodup_cons.1 hd
    by_cases e : b = a
    · subst e
      simp [List.count_eq_zero.2 hd'.1]
    · have : a ∈ l := by
        rcases List.mem_cons.1 h with h | h
        · exact absurd h.symm e
        · exact h
      simp [e, count_nodup_mem a l hd'.2 this]

theorem fields_wire (c : Cmd) (n : Name) (k : Kind) : fields (wire c n k) = (c.bytes, n, k.bytes) := by
  unfold fields
  rw [splitOn_wire]
  have hne := splitOn_ne_nil colon n
  simp only [List.headD_cons, List.tail_cons, List.dropLast_concat]
  rw [joinWith_splitOn]
  congr 2
  exact getLastD_snoc k.bytes [] (c.bytes :: splitOn colon n)

theorem parse_stripped_wire (line : Bytes) (c : Cmd) (n : Name) (k : Kind) (hn : isAscii n = true)
    (hs : strip line = wire c n k) : parseLine line = .req c k n := by
  have hasc : isAscii (wire c n k) = true := by
    simp [wire, isAscii_append, isAscii_cons, isAscii_cmd, isAscii_kind, hn, colon]
  have hlen : ¬ (splitOn colon (wire c n k)).length < 3 := by
    rw [splitOn_wire]
    have := splitOn_ne_nil colon n
    cases hs : splitOn colon n with
    | nil => exact absurd hs this
    | cons h t => simp
  unfold parseLine
  simp only [hs, hasc, hlen, fields_wire, cmd_ne_probe, kindOf_bytes, cmdOf_bytes]
  simp

/-! ## the end-of-life sweep -/

def NoBase (env : Env) : Prop := ∀ k n, env k n ≠ .baseExc

theorem sweepNames_noabort (env : Env) (h : NoBase env) (k : Kind) : ∀ ns, (sweepNames env k ns).2 = false
  | [] => rfl
  | n :: ns => by
    have ih := sweepNames_noabort env h k ns
    have hb := h k n
    unfold sweepNames
    cases he : env k n with
    | ok => simpa using ih
    | exc => simpa using ih
    | baseExc => exact absurd he hb

theorem sweepNames_count (env : Env) (h : NoBase env) (k : Kind) (n : Name) :
    ∀ ns, (sweepNames env k ns).1.count (.clean k n) = ns.count n
  | [] => rfl
  | m :: ns => by
    have ih := sweepNames_count env h k n ns
    have hb := h k m
    unfold sweepNames
    cases he : env k m with
    | ok => simp [List.count_cons, ih]
    | exc => simp [List.count_cons, ih]
    | baseExc => exact absurd he hb

theorem sweepNames_kind (env : Env) (k : Kind) :
    ∀ ns, ∀ e ∈ (sweepNames env k ns).1, ∀ k' n, e = .clean k' n → k' = k
  | [], e, he, _, _, _ => by simp [sweepNames] at he
  | m :: ns, e, he, k', n, hc => by
    have ih := sweepNames_kind env k ns
    unfold sweepNames at he
    cases hm : env k m with
    | ok =>
      simp only [hm, List.mem_cons] at he
      rcases he with he | he
      · rw [he] at hc; cases hc; rfl
      · exact ih e he k' n hc
    | exc =>
      simp only [hm, List.mem_cons] at he
      rcases he with he | he | he
      · rw [he] at hc; cases hc; rfl
      · rw [he] at hc; cases hc
      · exact ih e he k' n hc
    | baseExc =>
      simp only [hm, List.mem_singleton] at he
      rw [he] at hc; cases hc; rfl

theorem sweepKind_kind (env : Env) (k : Kind) (d : Dict) :
    ∀ e ∈ (sweepKind env k d).1, ∀ k' n, e = .clean k' n → k' = k := by
  intro e he k' n hc
  unfold sweepKind at he
  simp only [List.mem_append] at he
  rcases he with he | he
  · split at he
    · simp at he
    · simp only [List.mem_singleton] at he; rw [he] at hc; cases hc
  · exact sweepNames_kind env k d.keys e he k' n hc

theorem count_eq_zero_of_kind {es : List Event} {k k' : Kind} {n : Name}
    (h : ∀ e ∈ es, ∀ k'' n', e = .clean k'' n' → k'' = k) (hk : k' ≠ k) : es.count (.clean k' n) = 0 := by
  apply List.count_eq_zero.2
  intro hm
  exact hk (h _ hm k' n rfl)

theorem sweepKind_count (env : Env) (h : NoBase env) (k : Kind) (d : Dict) (n : Name) :
    (sweepKind env k d).1.count (.clean k n) = d.keys.count n := by
  unfold sweepKind
  simp only [List.count_append]
  rw [sweepNames_count env h]
  split <;> simp

theorem sweepKind_noabort (env : Env) (h : NoBase env) (k : Kind) (d : Dict) : (sweepKind env k d).2 = false := by
  unfold sweepKind
  exact sweepNames_noabort env h k d.keys

theorem sweepOrder_eq : sweepOrder = [.file, .semlock, .folder] := by decide

theorem sweep_noabort_eq (env : Env) (h : NoBase env) (reg : Registry) :
    sweep env reg = ((sweepKind env .file (reg .file)).1 ++ ((sweepKind env .semlock (reg .semlock)).1 ++
      (sweepKind env .folder (reg .folder)).1), false) := by
  unfold sweep
  rw [sweepOrder_eq]
  simp [sweepKinds, sweepKind_noabort env h]

theorem count_keys_nodup (d : Dict) (hd : d.keys.Nodup) (n : Name) :
    d.keys.count n = if d.get? n ≠ none then 1 else 0 := by
  by_cases hm : n ∈ d.keys
  · rw [count_nodup_mem n _ hd hm]
    simp [(Dict.mem_keys_iff d n).1 hm]
  · rw [List.count_eq_zero.2 hm]
    have : d.get? n = none := by
      by_cases e : d.get? n = none
      · exact e
      · exact absurd ((Dict.mem_keys_iff d n).2 e) hm
    simp [this]

theorem sweepKinds_cons (env : Env) (reg : Registry) (k : Kind) (ks : List Kind) :
    sweepKinds env reg (k :: ks) =
      if (sweepKind env k (reg k)).2 = true then ((sweepKind env k (reg k)).1, true)
      else ((sweepKind env k (reg k)).1 ++ (sweepKinds env reg ks).1, (sweepKinds env reg ks).2) := rfl

theorem sweepKinds_kinds (env : Env) (reg : Registry) :
    ∀ ks, ∀ e ∈ (sweepKinds env reg ks).1, ∀ k' n, e = Event.clean k' n → k' ∈ ks
  | [], e, he, _, _, _ => by simp [sweepKinds] at he
  | k :: ks, e, he, k', n, hc => by
    have ih := sweepKinds_kinds env reg ks
    rw [sweepKinds_cons] at he
    by_cases ha : (sweepKind env k (reg k)).2 = true
    · rw [if_pos ha] at he
      rw [sweepKind_kind env k (reg k) e he k' n hc]; simp
    · rw [if_neg ha] at he
      simp only [List.mem_append] at he
      rcases he with he | he
      · rw [sweepKind_kind env k (reg k) e he k' n hc]; simp
      · exact List.mem_cons_of_mem _ (ih e he k' n hc)

theorem sweepKinds_append (env : Env) (reg : Registry) (b : List Kind) : ∀ a : List Kind,
    sweepKinds env reg (a ++ b) =
      if (sweepKinds env reg a).2 = true then sweepKinds env reg a
      else ((sweepKinds env reg a).1 ++ (sweepKinds env reg b).1, (sweepKinds env reg b).2)
  | [] => by simp [sweepKinds]
  | k :: a => by
    have ih := sweepKinds_append env reg b a
    rw [List.cons_append, sweepKinds_cons, sweepKinds_cons]
    by_cases ha : (sweepKind env k (reg k)).2 = true
    · simp [ha]
    · rw [if_neg ha, if_neg ha, ih]
      by_cases h2 : (sweepKinds env reg a).2 = true
      · simp [h2]
      · simp [h2]

/-! ## `readline()` -/

theorem readLines_last : ∀ (l : Bytes), newline ∉ l → l ≠ [] → readLines l = [l]
  | [], _, h => absurd rfl h
  | [b], h, _ => by
    have hb : b ≠ newline := fun e => h (by simp [e])
    simp [readLines, hb]
  | b :: c :: r, h, _ => by
    have hb : b ≠ newline := fun e => h (by simp [e])
    have ih := readLines_last (c :: r) (fun m => h (List.mem_cons_of_mem _ m)) (by simp)
    rw [readLines, if_neg hb, ih]

theorem readLines_nl (rest : Bytes) : ∀ (l : Bytes), newline ∉ l →
    readLines (l ++ newline :: rest) = (l ++ [newline]) :: readLines rest
  | [], _ => by simp [readLines]
  | b :: l, h => by
    have hb : b ≠ newline := fun e => h (by simp [e])
    have ih := readLines_nl rest l (fun m => h (List.mem_cons_of_mem _ m))
    rw [List.cons_append, readLines, if_neg hb, ih]
    rfl

end LokyModel.Tracker
