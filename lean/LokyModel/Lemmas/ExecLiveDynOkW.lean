import LokyModel.Lemmas.ExecLiveDynOkBase
import LokyModel.Lemmas.ExecLiveStaticW
/-! `dynOk'`: steps of a worker process and of the queue-feeder thread. -/
namespace LokyModel.Exec.DynP
open StaticP
set_option linter.unusedSimpArgs false

/-! ### worker steps -/

theorem wGet_w_selfD (s : St) (p : Pid) (ht : s.cfg.timeout = true) : (wGet s p).w p = .tAcq := by
  simp [wGet, ht, setW, upd]
theorem wAfterStart_w_selfD (s : St) (p : Pid) (ht : s.cfg.timeout = true) :
    (wAfterStart s p).w p = if s.cfg.hasInit then .init else .tAcq := by
  unfold wAfterStart; split
  · simp [setW, upd]
  · exact wGet_w_selfD s p ht
theorem wDispatch_w_selfD (s : St) (p : Pid) (m : CMsg) (hc : s.cfg.dynPool = true) :
    (wDispatch s p m).w p = (match m with | .call w t => .task w t | _ => .xAcq) := by
  unfold wDispatch
  split
  · have := (dp_spec hc ‹Tid›).2.1
    simp [this, setW, upd]
  · simp [setW, upd]
theorem wAfterResult_w_selfD (s : St) (p : Pid) (ht : s.cfg.timeout = true) (hl : s.leaky p = false) :
    (wAfterResult s p).w p = .tAcq := by
  unfold wAfterResult; simp only []
  split
  · exact wGet_w_selfD _ p ht
  · simp [hl]; exact wGet_w_selfD _ p ht

/-- everything the invariant needs to know about a step of worker `p` in a dynamic pool -/
structure WSumD (s s' : St) (p : Pid) : Prop where
  oth : ∀ q, q ≠ p → s'.w q = s.w q
  wn : wNeverD (s'.w p) = false
  wb : wBadRes (s'.w p) = false
  cq : ∀ m ∈ s'.cqPipe, m ∈ s.cqPipe
  rq : ∀ r ∈ s'.rqPipe, r ∈ s.rqPipe ∨ rBad r = false
  rne : s.rqPipe ≠ [] → s'.rqPipe ≠ []
  lk : s'.leaky = s.leaky
  mpc : s'.mpc = s.mpc
  fpc : s'.fpc = s.fpc
  upc : s'.upc = s.upc
  ucur : s'.ucur = s.ucur
  uscript : s'.uscript = s.uscript
  cqBuf : s'.cqBuf = s.cqBuf
  allPids : s'.allPids = s.allPids
  cfg : s'.cfg = s.cfg
  futs : s'.futs = s.futs
  wakeup : s'.wakeup = s.wakeup
  wakeupClosed : s'.wakeupClosed = s.wakeupClosed
  broken : s'.broken = s.broken
  killFlag : s'.killFlag = s.killFlag
  threadReg : s'.threadReg = s.threadReg
  created : s'.created = s.created
  held : s'.held = s.held
  refs : s'.refs = s.refs

set_option maxHeartbeats 8000000 in
theorem wSumD_step (s s' : St) (p : Pid) (v : Variant) (hv : v ≠ .crash) (hc : s.cfg.dynPool = true)
    (hl : s.leaky p = false) (hwn : wNeverD (s.w p) = false) (hwb : wBadRes (s.w p) = false)
    (hs : stepW s p v = some s') : WSumD s s' p := by
  have ht := dp_timeout hc
  have hlk := dp_leak hc
  have hif := dp_initFail hc
  have hsp := dp_spec hc
  have hb1 : ∀ w e b, s.w p = .rAcq w e b → b = false := by
    intro w e b h; rw [h] at hwb; cases b <;> simp [wBadRes] at hwb ⊢
  have hb2 : ∀ w e b, s.w p = .rSend w e b → b = false := by
    intro w e b h; rw [h] at hwb; cases b <;> simp [wBadRes] at hwb ⊢
  unfold stepW at hs
  crack
  all_goals (first | (exact absurd rfl hv) | skip)
  all_goals (first | (simp_all [wNeverD]; done) | skip)
  all_goals constructor
  all_goals (first
    | rfl
    | (simp; done)
    | (intro q hq
       simp [wAfterStart_w_other, wGet_w_other, wDispatch_w_other, wAfterResult_w_other, setW_w_other, die_w_other, hq]; done)
    | (simp [setW_w_self, die_w_self, wGet_w_selfD, wAfterStart_w_selfD, wDispatch_w_selfD, wAfterResult_w_selfD, ht, hc, hl,
         wNeverD, wBadRes, *]; done)
    | (intro r hr; left; simpa using hr)
    | (intro r hr; simp at hr; rcases hr with hr | hr
       · left; exact hr
       · right; subst hr; simp [rBad, *]; done)
    | (simp [wAfterStart_w_selfD, ht]; split <;> simp [wNeverD, wBadRes]; done)
    | (simp_all [setW_w_self, die_w_self, wGet_w_selfD, wAfterStart_w_selfD, wDispatch_w_selfD, wAfterResult_w_selfD,
         wNeverD, wBadRes, rBad]; done)
    | (cases ‹CMsg› <;>
       simp_all [setW_w_self, die_w_self, wGet_w_selfD, wAfterStart_w_selfD, wDispatch_w_selfD, wAfterResult_w_selfD,
         wNeverD, wBadRes, rBad]; done)
    | (have hb := hb1 _ _ _ (by assumption); subst hb; simp [setW_w_self, wBadRes]; done)
    | (have hb := hb2 _ _ _ (by assumption); subst hb
       intro r hr; simp at hr; rcases hr with hr | hr
       · left; exact hr
       · right; subst hr; simp [rBad]; done))

theorem di_stepW (s s' : St) (p : Pid) (v : Variant) (hv : v ≠ .crash) (hc : s.cfg.dynPool = true)
    (hp : p ∈ s.allPids) (h : DI s) (hl : ∀ q, s.leaky q = false) (hs : stepW s p v = some s') :
    DI s' ∧ ∀ q, s'.leaky q = false := by
  have W := wSumD_step s s' p v hv hc (hl p) (h.wn p hp) (h.wb p hp) hs
  refine ⟨?_, by rw [W.lk]; exact hl⟩
  have hall : ∀ (P : WPc → Bool), (∀ q ∈ s.allPids, P (s.w q) = false) → P (s'.w p) = false →
      ∀ q ∈ s'.allPids, P (s'.w q) = false := by
    intro P h1 h2 q hq
    rw [W.allPids] at hq
    by_cases e : q = p
    · subst e; exact h2
    · rw [W.oth q e]; exact h1 q hq
  have Q := h.q
  refine { mn := ?mn, br := ?br, kf := ?kf, wn := hall _ h.wn W.wn, mc := ?mc, rc := ?rc, cr := ?cr, je := ?je, api := ?api,
           wc := ?wc, pe := ?pe, wb := hall _ h.wb W.wb, rb := ?rb, q := ?q, tr := ?tr,
           nks := ?nks, nkc := ?nkc, nkp := ?nkp, fu := ?fu, tsn := ?tsn, hd := ?hd, cnt := ?cnt, nc := ?nc, one := ?one }
  all_goals try simp only [heldN, createdN, usersOf, W.mpc, W.fpc, W.upc, W.ucur, W.uscript, W.cqBuf, W.allPids, W.cfg, W.futs,
    W.wakeup, W.wakeupClosed, W.broken, W.killFlag, W.threadReg, W.created, W.held, W.refs]
  case mn => exact h.mn
  case br => exact h.br
  case kf => exact h.kf
  case mc => exact h.mc
  case rc => intro hm; exact W.rne (h.rc hm)
  case cr => exact h.cr
  case je => exact h.je
  case api => exact h.api
  case wc => exact h.wc
  case pe => exact h.pe
  case rb =>
    intro r hr
    rcases W.rq r hr with e | e
    · exact h.rb r e
    · exact e
  case q =>
    exact { fb := Q.fb, cp := fun m hm => Q.cp m (W.cq m hm), fc := Q.fc, cl := Q.cl, late := Q.late, nb := Q.nb,
            np := fun hf => absurd hf (by simp), nf := Q.nf }
  case tr => exact h.tr
  case nks => exact h.nks
  case nkc => exact h.nkc
  case nkp => exact h.nkp
  case fu => exact h.fu
  case tsn => exact h.tsn
  case hd => exact h.hd
  case cnt => exact h.cnt
  case nc => exact h.nc
  case one => exact h.one

/-! ### feeder steps -/

structure FSumD (s s' : St) : Prop where
  q : QOk s'.cqBuf s'.cqPipe s'.fpc (mLate s.mpc) true
  futs : s'.futs = [] ↔ s.futs = []
  wk : s.wakeup ≤ s'.wakeup
  mpc : s'.mpc = s.mpc
  upc : s'.upc = s.upc
  ucur : s'.ucur = s.ucur
  uscript : s'.uscript = s.uscript
  allPids : s'.allPids = s.allPids
  cfg : s'.cfg = s.cfg
  w : s'.w = s.w
  rqPipe : s'.rqPipe = s.rqPipe
  wakeupClosed : s'.wakeupClosed = s.wakeupClosed
  broken : s'.broken = s.broken
  killFlag : s'.killFlag = s.killFlag
  threadReg : s'.threadReg = s.threadReg
  leaky : s'.leaky = s.leaky
  created : s'.created = s.created
  held : s'.held = s.held
  refs : s'.refs = s.refs

set_option maxHeartbeats 4000000 in
theorem fSumD_step (s s' : St) (v : Variant) (h : DI s) (hs : stepF s v = some s') : FSumD s s' := by
  have hq := h.q
  have hfc := hq.fc
  unfold stepF at hs
  crack
  all_goals constructor
  all_goals (first
    | rfl
    | (simp; done)
    | (exact fNext_q _ _ _ _ hq)
    | (have e := ‹s.fpc = FPc.send _›; rw [e] at hq; exact qOk_send _ _ _ _ _ hq)
    | (refine qOk_fpc _ _ _ _ _ _ hq ?_ ?_ ?_ ?_ <;> simp_all [fClose, fStop]; done)
    | (refine qOk_fpc _ _ _ _ _ _ hq ?_ ?_ ?_ ?_ <;> cases ‹CMsg› <;> simp_all [fClose, fStop]; done)
    | (simp [setFut]; done)
    | skip)

theorem di_stepF (s s' : St) (v : Variant) (h : DI s) (hl : ∀ q, s.leaky q = false) (hs : stepF s v = some s') :
    DI s' ∧ ∀ q, s'.leaky q = false := by
  have F := fSumD_step s s' v h hs
  refine ⟨?_, by rw [F.leaky]; exact hl⟩
  refine { mn := ?mn, br := ?br, kf := ?kf, wn := ?wn, mc := ?mc, rc := ?rc, cr := ?cr, je := ?je, api := ?api,
           wc := ?wc, pe := ?pe, wb := ?wb, rb := ?rb, q := ?q, tr := ?tr,
           nks := ?nks, nkc := ?nkc, nkp := ?nkp, fu := ?fu, tsn := ?tsn, hd := ?hd, cnt := ?cnt, nc := ?nc, one := ?one }
  all_goals try simp only [heldN, createdN, usersOf, F.mpc, F.upc, F.ucur, F.uscript, F.allPids, F.cfg, F.w, F.rqPipe,
    F.wakeupClosed, F.broken, F.killFlag, F.threadReg, F.futs, F.created, F.held, F.refs]
  case mn => exact h.mn
  case br => exact h.br
  case kf => exact h.kf
  case wn => exact h.wn
  case mc => exact h.mc
  case rc => exact h.rc
  case cr => intro hm; have := h.cr hm; have := F.wk; omega
  case je => exact h.je
  case api => exact h.api
  case wc => exact h.wc
  case pe => exact h.pe
  case wb => exact h.wb
  case rb => exact h.rb
  case q => exact F.q
  case tr => exact h.tr
  case nks => exact h.nks
  case nkc => exact h.nkc
  case nkp => exact h.nkp
  case fu => exact h.fu
  case tsn => exact h.tsn
  case hd => exact h.hd
  case cnt => exact h.cnt
  case nc => exact h.nc
  case one => exact h.one

end LokyModel.Exec.DynP
