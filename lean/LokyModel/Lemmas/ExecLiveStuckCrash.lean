import LokyModel.Lemmas.ExecLiveStuckDyn
import LokyModel.ExecLiveCrash
/-! Static pools with worker crashes: once a worker has died, a state in which no step other than a crash is enabled is a
    good one (the manager has flagged the pool broken, failed every pending future, killed and joined; every call has
    returned), given the crash-aware ingredients of `ExecLiveCrash.lean`.  Before the first death `stuck_good` applies. -/
namespace LokyModel.Exec

def mWaitShutC : MPc → Bool
  | .cbAcq | .flagAcq | .jShutAcq | .brkAcq _ => true
  | _ => false

/-- the manager thread of a static pool with crashes cannot move -/
theorem mBlockedC (s : St) (h1 : stepM s .ok = none) (h2 : stepM s .fail = none) (hn : mNeverC s.mpc = false)
    (hrecv : s.mpc = .recv → s.rqPipe ≠ []) (hclr : ∀ k, s.mpc = .clrRecv k → 0 < s.wakeup)
    (hl1 : ∀ n, s.mpc ≠ .jRelExit [] n) (hl2 : ∀ c n st co, s.mpc ≠ .jAlive [] c n st co) :
    s.mpc = .none ∨ mEnded s = true ∨
    (∃ snap, s.mpc = .wait snap ∧ s.rqPipe = [] ∧ s.wakeup = 0 ∧ snap.any (isDead s) = false) ∨
    (mWaitSlot s.mpc = true ∧ s.cqSem = 0) ∨ (mWaitShutC s.mpc = true ∧ s.shut = 0) ∨
    (mWaitMgmt s.mpc = true ∧ s.mgmt = 0) ∨ (∃ p, (s.mpc = .jJoin p ∨ s.mpc = .killJoin p) ∧ isDead s p = false) := by
  cases hm : s.mpc <;> simp only [hm, mNeverC] at hn <;> unfold stepM at h1 h2 <;>
    simp only [hm, acq_map', mEnded, mWaitSlot, mWaitShutC, mWaitMgmt] at h1 h2 hrecv hclr hl1 hl2 ⊢
  case wait snap =>
    right; right; left
    refine ⟨snap, rfl, ?_⟩
    split at h1
    · cases h1
    · split at h1
      · cases h1
      · split at h1
        · cases h1
        · rename_i a b c
          refine ⟨by simpa using a, by omega, by simpa using c⟩
  case recv =>
    exfalso
    have := hrecv trivial
    cases hq : s.rqPipe with
    | nil => exact this hq
    | cons r rest =>
      rw [hq] at h1
      cases r with
      | res w e b => cases b <;> simp at h1
      | pid p => simp at h1
      | rtb => simp at h1
  case clrPoll k =>
    exfalso
    by_cases hw : 0 < s.wakeup
    · simp [hw] at h1
    · have : s.wakeup = 0 := by omega
      simp [this] at h2; cases k <;> simp at h2
  case clrRecv k =>
    exfalso
    have := hclr k rfl
    simp [this] at h1
  case jRelExit ps n =>
    exfalso
    cases ps with
    | nil => exact hl1 n rfl
    | cons p rest => simp at h1; split at h1 <;> cases h1
  case jAlive ps c n st co =>
    exfalso
    cases ps with
    | nil => exact hl2 c n st co rfl
    | cons p rest => simp at h1
  all_goals (first
    | (simp at hn; done)
    | (simp; done)
    | (exfalso; simp at h1; done)
    | (exfalso; revert h1; simp; done)
    | (exfalso; split at h1 <;> simp at h1; done)
    | (simp at h1 ⊢; omega)
    | (simp at h1 h2 ⊢; omega)
    | skip)


structure SmallFacts (s : St) : Prop where
  recv : s.mpc = .recv → s.rqPipe ≠ []
  clr : ∀ k, s.mpc = .clrRecv k → 0 < s.wakeup
  l1 : ∀ n, s.mpc ≠ .jRelExit [] n
  l2 : ∀ c n st co, s.mpc ≠ .jAlive [] c n st co
  api : ∀ k, k < s.cfg.scripts.length → s.upc k = .api → (s.ucur k).isSome = true
  fidle : (s.fpc = .none ∨ s.fpc = .done) → s.cqBuf = []
  mnone : s.mpc = .none → s.futs = [] ∨ ∃ k, k < s.cfg.scripts.length ∧ inShutU' (s.upc k) = true
  ujoin : ∀ k, k < s.cfg.scripts.length → (uWaitG (s.upc k) = true ∨ uJoin (s.upc k) = true) → s.mpc ≠ .none

theorem small_facts (s : St) (h : smallOk s = true) : SmallFacts s := by
  unfold smallOk usersOf at h
  simp only [Bool.and_eq_true] at h
  obtain ⟨⟨⟨⟨⟨⟨⟨h7, h8⟩, h9⟩, h11⟩, h12⟩, h13⟩, _h14⟩, h15⟩ := h
  refine ⟨?_, ?_, ?_, ?_, ?_, ?_, ?_, ?_⟩
  · intro hm; simp [hm] at h7; simpa using h7
  · intro k hm; simp [hm] at h8; exact h8
  · intro n hm; simp [hm] at h9
  · intro c n st co hm; simp [hm] at h9
  · intro k hk hu
    rw [List.all_eq_true] at h11
    have := h11 k (List.mem_range.2 hk)
    simpa [hu] using this
  · intro hf
    rcases hf with hf | hf <;> simp [hf] at h12 <;> simpa using h12
  · intro hm
    simp only [hm, bne_self_eq_false, Bool.false_or, Bool.or_eq_true] at h13
    rcases h13 with g | g
    · left; simpa using g
    · right
      rw [List.any_eq_true] at g
      obtain ⟨k, hk, hk2⟩ := g
      exact ⟨k, List.mem_range.1 hk, hk2⟩
  · intro k hk hu
    rw [List.all_eq_true] at h15
    have := h15 k (List.mem_range.2 hk)
    intro hm
    rcases hu with hu | hu
    · cases hq : s.upc k <;> simp [hq, uWaitG] at hu <;> simp [hq, hm] at this
    · cases hq : s.upc k <;> simp [hq, uJoin] at hu <;> simp [hq, hm] at this

structure StaticCFacts (s : St) : Prop where
  mnever : mNeverC s.mpc = false
  wnever : ∀ p ∈ s.allPids, wNever (s.w p) = false
  reg : mLateK s.mpc = false → s.procDict = s.allPids
  kj : ∀ p, s.mpc = .killJoin p → s.w p = .dead

theorem staticC_facts (s : St) (h : staticC s = true) : StaticCFacts s := by
  unfold staticC at h
  simp only [Bool.and_eq_true] at h
  obtain ⟨⟨⟨⟨⟨⟨⟨h1, _⟩, h3⟩, _⟩, _⟩, _⟩, h7⟩, h8⟩ := h
  refine ⟨by simpa using h1, ?_, ?_, ?_⟩
  · intro p hp
    rw [List.all_eq_true] at h3
    simpa using h3 p hp
  · intro hl
    simp only [hl, Bool.false_or] at h7
    simpa using h7
  · intro p hm
    simp [hm] at h8
    exact h8

/-- the four locks only threads take, from `holderC` -/
theorem holderC_facts (s : St) (h : holderC s = true) :
    (s.cqWlock = 0 → inCqWF s.fpc = true) ∧
    (s.gshut = 0 → ∃ k, k < s.cfg.scripts.length ∧ inGshutU (s.upc k) = true) ∧
    (s.mgmt = 0 → (∃ k, k < s.cfg.scripts.length ∧ inMgmtU' (s.upc k) = true) ∨ inMgmtM' s.mpc = true) ∧
    (s.shut = 0 → (∃ k, k < s.cfg.scripts.length ∧ inShutU' (s.upc k) = true) ∨ inShutM' s.mpc = true ∨ inShutF' s.fpc = true) ∧
    (s.broken = none → (s.rqWlock = 0 → ∃ p, inRqW (s.w p) = true) ∧ (s.cqRlock = 0 → ∃ p, inCqR (s.w p) = true)) := by
  unfold holderC at h
  simp only [Bool.and_eq_true] at h
  obtain ⟨⟨⟨⟨h3, h4⟩, h5⟩, h6⟩, h7⟩ := h
  refine ⟨?_, ?_, ?_, ?_, ?_⟩
  · intro hz
    cases ho : s.oCqWlock with
    | none => simp [ho, hz] at h3
    | some a => cases a <;> simp [ho] at h3; exact h3.2
  · intro hz
    cases ho : s.oGshut with
    | none => simp [ho, hz] at h4
    | some a => cases a <;> simp [ho] at h4; rename_i k; exact ⟨k, h4.2, h4.1.2⟩
  · intro hz
    cases ho : s.oMgmt with
    | none => simp [ho, hz] at h5
    | some a =>
      cases a with
      | U k => simp [ho] at h5; exact .inl ⟨k, h5.2, h5.1.2⟩
      | M => simp [ho] at h5; exact .inr h5.2
      | F => simp [ho] at h5
      | W p => simp [ho] at h5
  · intro hz
    cases ho : s.oShut with
    | none => simp [ho, hz] at h6
    | some a =>
      cases a with
      | U k => simp [ho] at h6; exact .inl ⟨k, h6.2, h6.1.2⟩
      | M => simp [ho] at h6; exact .inr (.inl h6.2)
      | F => simp [ho] at h6; exact .inr (.inr h6.2)
      | W p => simp [ho] at h6
  · intro hb
    simp only [hb, Option.isSome_none, Bool.false_or, Bool.and_eq_true] at h7
    obtain ⟨h1, h2⟩ := h7
    constructor
    · intro hz
      cases ho : s.oRqWlock with
      | none => simp [ho, hz] at h1
      | some a => cases a <;> simp [ho] at h1; rename_i p; exact ⟨p, h1.2⟩
    · intro hz
      cases ho : s.oCqRlock with
      | none => simp [ho, hz] at h2
      | some a => cases a <;> simp [ho] at h2; rename_i p; exact ⟨p, h2.2⟩


/-- **Static pool, after a worker has died: a quiescent state is a good one.** -/
theorem stuck_good_crash (s : St) (hp : PidsInv s) (hdead : anyDead s = true)
    (hsc : staticC s = true) (hsm : smallOk s = true) (hh : holderC s = true) (hj : joinC s = true)
    (hwt : watchOk s = true) (ha : addSlotOk s = true)
    (hfut : ∀ i, i < s.futs.length → (futOf s i).done = false → i ∈ s.pending)
    (hacc : ∀ k, s.upc k = .subAcqMgmt → s.shutdownFlag = false)
    (hterm : mEnded s = true → s.pending = [])
    (hkd : mFinal s.mpc = true → s.broken.isSome = true → ∀ p ∈ s.allPids, s.w p = .dead)
    (hq : enabledNC s = []) : good s = true := by
  have SF := small_facts s hsm
  have CF := staticC_facts s hsc
  obtain ⟨Hcqw, Hg, Hmg, Hsh, Hw⟩ := holderC_facts s hh
  have MB := mBlockedC s (quiet_M s hq).1 (quiet_M s hq).2 CF.mnever SF.recv SF.clr SF.l1 SF.l2
  -- the feeder
  have FB : ((s.fpc = .none ∨ s.fpc = .done ∨ s.fpc = .wait) ∧ s.cqBuf = []) ∨ (s.fpc = .errAcq ∧ s.shut = 0) := by
    rcases fBlocked s (quiet_F s hq) with h | h | h | h | h
    · exact .inl ⟨.inl h, SF.fidle (.inl h)⟩
    · exact .inl ⟨.inr (.inl h), SF.fidle (.inr h)⟩
    · exact .inl ⟨.inr (.inr h.1), h.2⟩
    · exfalso
      have := Hcqw h.2
      rcases h.1 with ⟨m, hm⟩ | ⟨w, hw⟩
      · rw [hm] at this; simp [inCqWF] at this
      · rw [hw] at this; simp [inCqWF] at this
    · exact .inr h
  -- the manager is never stuck joining a live worker
  have hnoJoin : ∀ p, (s.mpc = .jJoin p ∨ s.mpc = .killJoin p) → isDead s p = true := by
    intro p hm
    rcases hm with hm | hm
    · -- final phase
      have hfin : mFinal s.mpc = true := by rw [hm]; rfl
      cases hb : s.broken with
      | some b =>
        apply Decidable.byContradiction
        intro hd
        have hpa : s.w p ≠ .dead := by intro h; simp [isDead, h] at hd
        have hpm : p ∈ s.allPids := by
          apply Decidable.byContradiction
          intro hn; exact hpa (hp.dead p hn)
        exact hpa (hkd hfin (by simp [hb]) p hpm)
      | none =>
        apply Decidable.byContradiction
        intro hd
        have hd' : isDead s p = false := by simpa using hd
        obtain ⟨Hrq, Hcqr⟩ := Hw hb
        have hjj : s.shutdownFlag = true ∧ needStop s ≤ stopsInFlight s + mToSend s := by
          unfold joinC at hj
          simp [hm, mFinal] at hj
          exact ⟨hj.1.2, hj.2⟩
        -- the shutdown lock is free
        have hsh : s.shut ≠ 0 := by
          intro hz
          rcases Hsh hz with ⟨k, hk, hu⟩ | hmm | hf
          · by_cases hc : s.upc k = .subAcqMgmt
            · have := hacc k hc; rw [hjj.1] at this; cases this
            · exact enabled_inShutU' s k hu (fun h => absurd h hc) (quiet_U s hq k hk)
          · rw [hm] at hmm; simp [inShutM'] at hmm
          · rcases FB with ⟨h | h | h, _⟩ | ⟨h, _⟩ <;> rw [h] at hf <;> simp [inShutF'] at hf
        have hfi : (s.fpc = .none ∨ s.fpc = .done ∨ s.fpc = .wait) ∧ s.cqBuf = [] := by
          rcases FB with h | h
          · exact h
          · exact absurd h.2 hsh
        have hpa : s.w p ≠ .dead := by intro h; simp [isDead, h] at hd'
        have hpm : p ∈ s.allPids := by
          apply Decidable.byContradiction
          intro hn; exact hpa (hp.dead p hn)
        have Lrq : s.rqWlock ≠ 0 := by
          intro hz
          obtain ⟨q, hq2⟩ := Hrq hz
          have hqm : q ∈ s.allPids := by
            apply Decidable.byContradiction
            intro hn
            rw [hp.dead q hn] at hq2
            simp [inRqW] at hq2
          exact enabled_inRqW s q hq2 (quiet_W s hq q hqm).1
        have W' : ∀ q ∈ s.allPids, s.w q = .dead ∨ (s.w q = .gAcq ∧ s.cqRlock = 0) ∨ (s.w q = .gRecv ∧ s.cqPipe = []) := by
          intro q hqm
          have qw := quiet_W s hq q hqm
          rcases wBlocked s q qw.1 qw.2.1 (CF.wnever q hqm) with h | h | h | h | h
          · exact .inl h
          · exact .inr (.inl h)
          · exact .inr (.inr h)
          · exact absurd h.2 Lrq
          · exact absurd h.2 Lrq
        have hrecv : ∃ q ∈ s.allPids, s.w q = .gRecv ∧ s.cqPipe = [] := by
          rcases W' p hpm with h | h | h
          · exact absurd h hpa
          · obtain ⟨q, hq2⟩ := Hcqr h.2
            have hqm : q ∈ s.allPids := by
              apply Decidable.byContradiction
              intro hn
              rw [hp.dead q hn] at hq2
              simp [inCqR] at hq2
            rcases W' q hqm with h' | h' | h'
            · rw [h'] at hq2; simp [inCqR] at hq2
            · rw [h'.1] at hq2; simp [inCqR] at hq2
            · exact ⟨q, hqm, h'⟩
          · exact ⟨p, hpm, h⟩
        obtain ⟨q, hqm, hqw, hpipe⟩ := hrecv
        have hsf : stopsInFlight s = 0 := by
          unfold stopsInFlight
          rw [hfi.2, hpipe]
          rcases hfi.1 with h | h | h <;> simp [h]
        have hts : mToSend s = 0 := by unfold mToSend; simp [hm]
        have hns : 0 < needStop s := by
          unfold needStop
          refine sumL_pos_of_mem _ _ q hqm ?_
          simp [hqw, wStopping]
        omega
    · simp [isDead, CF.kj p hm]
  -- the management lock and the shutdown lock are free
  have hmg : s.mgmt ≠ 0 := by
    intro hz
    rcases Hmg hz with ⟨k, hk, hu⟩ | hm
    · exact absurd (quiet_U s hq k hk) (enabled_inMgmtU' s k hu)
    · rcases MB with h | h | ⟨sn, h, _⟩ | h | h | h | ⟨p, h, hpd⟩
      · rw [h] at hm; simp [inMgmtM'] at hm
      · rcases mEnded_cases s h with h | ⟨w, h⟩ <;> rw [h] at hm <;> simp [inMgmtM'] at hm
      · rw [h] at hm; simp [inMgmtM'] at hm
      · cases hpc : s.mpc <;> simp [hpc, mWaitSlot, inMgmtM'] at h hm
      · cases hpc : s.mpc <;> simp [hpc, mWaitShutC, inMgmtM'] at h hm
      · cases hpc : s.mpc <;> simp [hpc, mWaitMgmt, inMgmtM'] at h hm
      · rw [hnoJoin p h] at hpd; cases hpd
  have hsh : s.shut ≠ 0 := by
    intro hz
    rcases Hsh hz with ⟨k, hk, hu⟩ | hm | hf
    · exact enabled_inShutU' s k hu (fun _ => hmg) (quiet_U s hq k hk)
    · rcases MB with h | h | ⟨sn, h, _⟩ | h | h | h | ⟨p, h, hpd⟩
      · rw [h] at hm; simp [inShutM'] at hm
      · rcases mEnded_cases s h with h | ⟨w, h⟩ <;> rw [h] at hm <;> simp [inShutM'] at hm
      · rw [h] at hm; simp [inShutM'] at hm
      · cases hpc : s.mpc <;> simp [hpc, mWaitSlot, inShutM'] at h hm
      · cases hpc : s.mpc <;> simp [hpc, mWaitShutC, inShutM'] at h hm
      · cases hpc : s.mpc <;> simp [hpc, mWaitMgmt, inShutM'] at h hm
      · rw [hnoJoin p h] at hpd; cases hpd
    · rcases FB with ⟨h | h | h, _⟩ | ⟨h, _⟩ <;> rw [h] at hf <;> simp [inShutF'] at hf
  -- user threads
  have U : ∀ k, k < s.cfg.scripts.length → s.upc k = .done ∨
      ∃ k', k' < s.cfg.scripts.length ∧ uJoin (s.upc k') = true ∧ mEnded s = false := by
    intro k hk
    rcases uBlocked s k (quiet_U s hq k hk) (SF.api k hk) with h | h | h | h | h
    · exact .inl h
    · exact absurd h.2 hsh
    · exact absurd h.2 hmg
    · right
      obtain ⟨k', hk', hg⟩ := Hg h.2
      rcases inGshutU_cases _ hg with hj' | hrel
      · rcases uBlocked s k' (quiet_U s hq k' hk') (SF.api k' hk') with h' | h' | h' | h' | h'
        · rw [h'] at hj'; simp [uJoin] at hj'
        · exact absurd h'.2 hsh
        · exact absurd h'.2 hmg
        · exfalso; cases hu : s.upc k' <;> simp [hu, uJoin, uWaitG] at hj' h'
        · exact ⟨k', hk', hj', h'.2⟩
      · exact absurd (quiet_U s hq k' hk') (enabled_relG s k' hrel)
    · exact .inr ⟨k, hk, h⟩
  rcases MB with hm | hm | ⟨sn, hm, hrq, hwk, hsn⟩ | hm | hm | hm | ⟨p, hm, hpd⟩
  · -- the manager thread was never started
    have hu : ∀ k, k < s.cfg.scripts.length → s.upc k = .done := by
      intro k hk
      rcases U k hk with h | ⟨k', hk', hj', _⟩
      · exact h
      · exact absurd hm (SF.ujoin k' hk' (.inr hj'))
    refine good_of s ?_ hu
    rcases SF.mnone hm with h | ⟨k, hk, h⟩
    · rw [h]; rfl
    · rw [hu k hk] at h; simp [inShutU'] at h
  · -- the manager thread has ended
    have hu : ∀ k, k < s.cfg.scripts.length → s.upc k = .done := by
      intro k hk
      rcases U k hk with h | ⟨k', _, _, he⟩
      · exact h
      · rw [hm] at he; cases he
    exact good_of s (futs_done_of_pending_nil s hfut (hterm hm)) hu
  · -- the manager waits although a worker is dead: impossible, it watches every registered worker
    exfalso
    unfold anyDead at hdead
    rw [List.any_eq_true] at hdead
    obtain ⟨p, hpm, hpd⟩ := hdead
    have hreg : s.procDict = s.allPids := CF.reg (by rw [hm]; rfl)
    unfold watchOk at hwt
    simp only [hm, Bool.or_eq_true, decide_eq_true_eq] at hwt
    rcases hwt with (hw | hw) | hw
    · have hin : sn.contains p = true := List.all_eq_true.1 hw p (by rw [hreg]; exact hpm)
      have hmem : p ∈ sn := by simpa using hin
      rw [List.any_eq_false] at hsn
      have := hsn p hmem
      simp [isDead] at this
      simp at hpd
      exact this hpd
    · omega
    · rw [List.any_eq_true] at hw
      obtain ⟨k, hk, hk2⟩ := hw
      have hk' := List.mem_range.1 hk
      rcases uBlocked s k (quiet_U s hq k hk') (SF.api k hk') with h | h | h | h | h
      · rw [h] at hk2; simp [uSpawning] at hk2
      · exact absurd h.2 hsh
      · exact absurd h.2 hmg
      · cases hu : s.upc k <;> simp [hu, uWaitG] at h <;> simp [hu, uSpawning] at hk2
      · cases hu : s.upc k <;> simp [hu, uJoin] at h <;> simp [hu, uSpawning] at hk2
  · exfalso
    unfold addSlotOk at ha
    cases hpc : s.mpc <;> simp [hpc, mWaitSlot] at hm <;> simp [hpc, hm] at ha
  · exact absurd hm.2 hsh
  · exact absurd hm.2 hmg
  · rw [hnoJoin p hm] at hpd; cases hpd

end LokyModel.Exec
