import LokyModel.Lemmas.ExecNoBreak
namespace LokyModel.Exec

theorem announced_mono {s s' : St} {q : Pid} (h : announced s q) (hp : ∀ m ∈ s.rqPipe, m ∈ s'.rqPipe)
    (hm : s'.mpc = s.mpc) : announced s' q := by
  rcases h with h | h
  · exact Or.inl (hp _ h)
  · exact Or.inr (by rw [hm]; exact h)

/-- the effect of any worker step, abstractly -/
theorem nb_worker_generic (s s' : St) (p : Pid) (h : NBInv s)
    (hw : ∀ q, q ≠ p → s'.w q = s.w q)
    (hgoodp : badPc (s'.w p) = false)
    (hleave : leaving (s'.w p) = true → leaving (s.w p) = true ∨ RMsg.pid p ∈ s'.rqPipe)
    (hsub : ∀ m ∈ s.rqPipe, m ∈ s'.rqPipe)
    (hnew : ∀ m ∈ s'.rqPipe, m ∈ s.rqPipe ∨ (m ≠ .rtb ∧ ∀ w e, m ≠ .res w e true))
    (hmpc : s'.mpc = s.mpc) (hpd : s'.procDict = s.procDict) (hnp : s'.nextPid = s.nextPid)
    (hbr : s'.broken = s.broken) : NBInv s' := by
  obtain ⟨hnb, hmp, hann, hgood, hpipe, hsnap, hfresh, hnd, hkp⟩ := h
  refine ⟨by rw [hbr]; exact hnb, by rw [hmpc]; exact hmp, ?_, ?_, ?_, ?_, ?_, by rw [hpd]; exact hnd,
    by rw [hmpc, hpd, hnp]; exact hkp⟩
  · intro q hq hl
    rw [hpd] at hq
    by_cases hqp : q = p
    · subst hqp
      rcases hleave hl with h1 | h1
      · exact announced_mono (hann q hq h1) hsub hmpc
      · exact Or.inl h1
    · rw [hw q hqp] at hl
      exact announced_mono (hann q hq hl) hsub hmpc
  · intro q
    by_cases hqp : q = p
    · subst hqp; exact hgoodp
    · rw [hw q hqp]; exact hgood q
  · intro m hm
    rcases hnew m hm with h1 | h1
    · exact hpipe m h1
    · exact h1
  · intro sn hsn q hq
    rw [hmpc] at hsn; rw [hpd]; exact hsnap sn hsn q hq
  · intro q hq; rw [hpd] at hq; rw [hnp]; exact hfresh q hq

set_option maxHeartbeats 8000000 in
theorem nbInv_stepW (s s' : St) (p : Pid) (v : Variant) (hb : s.cfg.benign) (hv : v ≠ .crash) (h : NBInv s)
    (hs : stepW s p v = some s') : NBInv s' := by
  have hgp := h.good p
  unfold stepW at hs
  crack_step
  all_goals (first | (exact absurd rfl hv) | skip)
  all_goals (apply nb_worker_generic s _ p h)
  all_goals (first
    | (intro q hq; first
        | exact wGet_other _ p q hq | exact wDispatch_other _ p q _ hq | exact wAfterResult_other _ p q hq
        | exact wAfterStart_other _ p q hq | (simp [setW_w, upd_apply, hq, die]; done))
    | (simp [setW_w, upd_apply, badPc, leaving, die]; done)
    | (simp_all [setW_w, upd_apply, badPc, leaving, die]; done)
    | exact (wGet_pc _ p).2
    | exact (wAfterStart_pc _ p).1
    | exact (wAfterResult_pc _ p).1
    | (intro hl; rw [(wGet_pc _ p).1] at hl; cases hl)
    | (intro hl; rw [(wAfterStart_pc _ p).2] at hl; cases hl)
    | (intro hl; rw [(wAfterResult_pc _ p).2] at hl; cases hl)
    | (refine (wDispatch_pc _ ?_ p _).1; exact hb)
    | (intro hl; have h9 := (wDispatch_pc _ (show (St.cfg _).benign from hb) p _).2; rw [h9] at hl; cases hl)
    | (intro hl; exfalso
       have h9 : ∀ x, x = false → x ≠ true := by intro x hx; subst hx; decide
       refine h9 _ ?_ hl
       refine (wDispatch_pc _ ?_ p _).2
       exact hb)
    | (exfalso; have h2 := hb.2; simp_all; done)
    | (exfalso; have h1 := specOf_benign s hb ‹Tid›; simp [TaskSpec.benign] at h1; simp_all; done)
    | (have h1 := specOf_benign s hb ‹Tid›; simp [TaskSpec.benign] at h1; simp [setW_w, badPc, h1]; done)
    | (intro m hm; simp [setW] at hm
       rcases hm with hm | rfl
       · exact Or.inl hm
       · right; simp_all [badPc])
    | skip)

end LokyModel.Exec
