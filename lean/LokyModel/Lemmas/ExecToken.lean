import LokyModel.Lemmas.ExecFut
import LokyModel.Lemmas.ExecTokAttr
/-!
Token accounting for work ids: every submitted work id is in at most one place on its way from `submit` to the
worker that runs it (the work-id queue, the manager's hands, the call-queue buffer, the feeder's hands, the call
pipe, a worker's hands), and its body is started at most once — for every reachable state, whatever dies.
-/
namespace LokyModel.Exec

/-- indicator -/
def ind (w i : Wid) : Nat := if w = i then 1 else 0

def cmsgC (i : Wid) : CMsg → Nat
  | .call w _ => ind w i
  | _ => 0
def rmsgC (i : Wid) : RMsg → Nat
  | .res w _ _ => ind w i
  | _ => 0

def sumC {α : Type} (f : α → Nat) : List α → Nat
  | [] => 0
  | x :: xs => f x + sumC f xs

@[simp] theorem sumC_nil {α : Type} (f : α → Nat) : sumC f [] = 0 := rfl
@[simp] theorem sumC_cons {α : Type} (f : α → Nat) (x : α) (xs : List α) : sumC f (x :: xs) = f x + sumC f xs := rfl
@[simp] theorem sumC_append {α : Type} (f : α → Nat) (xs ys : List α) : sumC f (xs ++ ys) = sumC f xs + sumC f ys := by
  induction xs with
  | nil => simp
  | cons x xs ih => simp [ih]; omega

/-- tokens held by a worker before the body starts -/
def wPreC (i : Wid) : WPc → Nat
  | .gRel m | .gSem m | .tSem m | .tRel m => cmsgC i m
  | .task w _ => ind w i
  | _ => 0
/-- … and after the body has started (result on its way) -/
def wPostC (i : Wid) : WPc → Nat
  | .taskEnd w _ | .rAcq w _ _ | .rSend w _ _ => ind w i
  | _ => 0
def mPreC (i : Wid) : MPc → Nat
  | .addAcq w | .addTStart w | .addAcqF w | .addTStartF w => ind w i
  | _ => 0
def mPostC (i : Wid) : MPc → Nat
  | .clrPoll (.item (some r)) | .clrRecv (.item (some r)) => rmsgC i r
  | _ => 0
def fPreC (i : Wid) : FPc → Nat
  | .acq m | .send m => cmsgC i m
  | .acqBig w | .sendBig w | .relBig w | .errSem w => ind w i
  | _ => 0

/-- tokens of `i` that have left the work-id queue and whose body has not started -/
def preOut (s : St) (i : Wid) : Nat :=
  mPreC i s.mpc + sumC (cmsgC i) s.cqBuf + fPreC i s.fpc + sumC (cmsgC i) s.cqPipe +
    sumC (fun p => wPreC i (s.w p)) s.allPids
/-- results of `i` on their way back -/
def post (s : St) (i : Wid) : Nat :=
  sumC (fun p => wPostC i (s.w p)) s.allPids + sumC (rmsgC i) s.rqPipe + mPostC i s.mpc

structure TokInv (s : St) : Prop where
  pids_nodup : s.allPids.Nodup
  pids_lt : ∀ p ∈ s.allPids, p < s.nextPid
  len : s.futs.length = s.queueCount
  fresh : ∀ i, s.futs.length ≤ i → s.workIds.count i = 0
  once : ∀ i, s.workIds.count i + preOut s i + s.execW.count i ≤ 1
  postle : ∀ i, post s i ≤ s.execW.count i
  undisp : ∀ i, (futOf s i = .pending ∨ futOf s i = .cancelled) →
    preOut s i = 0 ∧ post s i = 0 ∧ s.execW.count i = 0
  cancelled : ∀ i ∈ s.cancelOk, futOf s i = .cancelled

theorem count_snoc (l : List Wid) (w i : Wid) : (l ++ [w]).count i = l.count i + ind w i := by
  simp [List.count_append, List.count_cons, ind]

@[simp] theorem count_single (w i : Wid) : List.count i [w] = ind w i := by
  simp [List.count_cons, ind]

theorem sumC_upd_notin (g : WPc → Nat) (f : Pid → WPc) (p : Pid) (x : WPc) (l : List Pid) (h : p ∉ l) :
    sumC (fun q => g (upd f p x q)) l = sumC (fun q => g (f q)) l := by
  induction l with
  | nil => rfl
  | cons a l ih =>
    simp only [List.mem_cons, not_or] at h
    have e : upd f p x a = f a := by simp [upd, Ne.symm h.1]
    simp only [sumC_cons, ih h.2, e]

theorem sumC_upd (g : WPc → Nat) (f : Pid → WPc) (p : Pid) (x : WPc) (l : List Pid) (hn : l.Nodup) (h : p ∈ l) :
    sumC (fun q => g (upd f p x q)) l + g (f p) = sumC (fun q => g (f q)) l + g x := by
  induction l with
  | nil => simp at h
  | cons a l ih =>
    simp only [List.nodup_cons] at hn
    simp only [sumC_cons]
    by_cases ha : a = p
    · subst ha
      rw [sumC_upd_notin g f a x l hn.1]
      simp [upd]; omega
    · have hp : p ∈ l := by simpa [Ne.symm ha] using h
      have := ih hn.2 hp
      simp only [upd, if_neg ha] at this ⊢
      omega

theorem tokInv_init (cfg : Cfg) : TokInv (init cfg) := by
  constructor <;> simp [init, preOut, post, mPreC, mPostC, fPreC, futOf]

/-! ### a worker moves -/

def wGetPc (s : St) : WPc := if s.cfg.timeout then .tAcq else .gAcq
def wDispatchPc (s : St) (m : CMsg) : WPc :=
  match m with
  | .call w t => if (specOf s t).args == .badunpickle then .bAcq else .task w t
  | _ => .xAcq
theorem wGet_w' (s : St) (p : Pid) : (wGet s p).w = upd s.w p (wGetPc s) := rfl
theorem wDispatch_w' (s : St) (p : Pid) (m : CMsg) : (wDispatch s p m).w = upd s.w p (wDispatchPc s m) := by
  cases m with
  | call w t => simp only [wDispatch, wDispatchPc]; split <;> rfl
  | stop => rfl
  | close => rfl
theorem wAfterStart_w' (s : St) (p : Pid) :
    (wAfterStart s p).w = upd s.w p (if s.cfg.hasInit then .init else wGetPc s) := by
  unfold wAfterStart; split <;> simp [*, wGet_w', setW]
theorem wAfterResult_w' (s : St) (p : Pid) : ∃ pc, (wAfterResult s p).w = upd s.w p pc ∧
    (pc = .tAcq ∨ pc = .gAcq ∨ pc = .lAcq) := by
  have hg : wGetPc s = .tAcq ∨ wGetPc s = .gAcq ∨ wGetPc s = .lAcq := by unfold wGetPc; split <;> simp
  unfold wAfterResult; simp only []
  split
  · exact ⟨wGetPc s, rfl, hg⟩
  · split
    · exact ⟨.lAcq, rfl, by simp⟩
    · exact ⟨wGetPc s, rfl, hg⟩

@[simp] theorem wPreC_wGetPc (s : St) (i : Wid) : wPreC i (wGetPc s) = 0 := by unfold wGetPc; split <;> rfl
@[simp] theorem wPostC_wGetPc (s : St) (i : Wid) : wPostC i (wGetPc s) = 0 := by unfold wGetPc; split <;> rfl
theorem wPreC_wDispatchPc (s : St) (m : CMsg) (i : Wid) : wPreC i (wDispatchPc s m) ≤ cmsgC i m := by
  unfold wDispatchPc; (repeat' split) <;> simp [wPreC, cmsgC]
@[simp] theorem wPostC_wDispatchPc (s : St) (m : CMsg) (i : Wid) : wPostC i (wDispatchPc s m) = 0 := by
  unfold wDispatchPc; (repeat' split) <;> simp [wPostC]

/-- the general shape of a worker step: only `w p`, the two pipes and the execution log change, and tokens are
    conserved or lost -/
theorem tok_wmove (s : St) (h : TokInv s) (p : Pid) (hp : p ∈ s.allPids) (s' : St) (pc' : WPc)
    (hw : s'.w = upd s.w p pc')
    (hfr : s'.allPids = s.allPids ∧ s'.nextPid = s.nextPid ∧ s'.futs = s.futs ∧ s'.queueCount = s.queueCount ∧
           s'.workIds = s.workIds ∧ s'.cancelOk = s.cancelOk ∧ s'.mpc = s.mpc ∧ s'.fpc = s.fpc ∧ s'.cqBuf = s.cqBuf)
    (hpre : ∀ i, sumC (cmsgC i) s'.cqPipe + wPreC i pc' + s'.execW.count i
                  ≤ sumC (cmsgC i) s.cqPipe + wPreC i (s.w p) + s.execW.count i)
    (hpost : ∀ i, wPostC i pc' + sumC (rmsgC i) s'.rqPipe + s.execW.count i
                  ≤ wPostC i (s.w p) + sumC (rmsgC i) s.rqPipe + s'.execW.count i) : TokInv s' := by
  obtain ⟨f1, f2, f3, f4, f5, f6, f7, f8, f9⟩ := hfr
  have e1 : ∀ i, sumC (fun q => wPreC i (s'.w q)) s'.allPids + wPreC i (s.w p)
      = sumC (fun q => wPreC i (s.w q)) s.allPids + wPreC i pc' := by
    intro i; rw [hw, f1]; exact sumC_upd (wPreC i) s.w p pc' s.allPids h.pids_nodup hp
  have e2 : ∀ i, sumC (fun q => wPostC i (s'.w q)) s'.allPids + wPostC i (s.w p)
      = sumC (fun q => wPostC i (s.w q)) s.allPids + wPostC i pc' := by
    intro i; rw [hw, f1]; exact sumC_upd (wPostC i) s.w p pc' s.allPids h.pids_nodup hp
  have hfut : ∀ i, futOf s' i = futOf s i := by intro i; simp [futOf, f3]
  constructor
  · rw [f1]; exact h.pids_nodup
  · rw [f1, f2]; exact h.pids_lt
  · rw [f3, f4]; exact h.len
  · rw [f3, f5]; exact h.fresh
  · intro i
    have := h.once i; have := hpre i; have := e1 i
    simp only [preOut, f5, f7, f8, f9] at *
    omega
  · intro i
    have := h.postle i; have := hpost i; have := e2 i
    simp only [post, f7] at *
    omega
  · intro i hi
    rw [hfut] at hi
    have := h.undisp i hi; have := hpre i; have := e1 i; have := hpost i; have := e2 i
    simp only [preOut, post, f5, f7, f8, f9] at *
    omega
  · intro i hi
    rw [f6] at hi; rw [hfut]; exact h.cancelled i hi

/-! ### anybody else moves -/

/-- the part of `preOut` outside the workers -/
def nw (s : St) (i : Wid) : Nat :=
  mPreC i s.mpc + sumC (cmsgC i) s.cqBuf + fPreC i s.fpc + sumC (cmsgC i) s.cqPipe
/-- the part of `post` outside the workers -/
def pnw (s : St) (i : Wid) : Nat := sumC (rmsgC i) s.rqPipe + mPostC i s.mpc

theorem sumC_upd_dead_le (g : WPc → Nat) (hg : g .dead = 0) (f : Pid → WPc) (p : Pid) (l : List Pid) :
    sumC (fun q => g (upd f p .dead q)) l ≤ sumC (fun q => g (f q)) l := by
  induction l with
  | nil => simp
  | cons a l ih =>
    simp only [sumC_cons]
    by_cases ha : a = p
    · have e : upd f p .dead a = .dead := by simp [upd, ha]
      rw [e, hg]; omega
    · have e : upd f p .dead a = f a := by simp [upd, ha]
      rw [e]; omega

/-- general shape of a step of the manager, the feeder or a user thread that creates no future and no worker:
    the worker table is unchanged or one worker died; tokens are conserved or lost; a future only moves from
    `pending`/`running` to a state that is neither `pending` nor `cancelled`, and a cancelled one is never touched -/
theorem tok_move (s s' : St) (h : TokInv s)
    (hfr : s'.allPids = s.allPids ∧ s'.nextPid = s.nextPid ∧ s'.queueCount = s.queueCount ∧
           s'.futs.length = s.futs.length ∧ s'.cancelOk = s.cancelOk ∧ s'.execW = s.execW)
    (hw : s'.w = s.w ∨ ∃ p, s'.w = upd s.w p .dead)
    (hwk : ∀ i, s'.workIds.count i ≤ s.workIds.count i)
    (hpre : ∀ i, s'.workIds.count i + nw s' i ≤ s.workIds.count i + nw s i)
    (hpost : ∀ i, pnw s' i ≤ pnw s i)
    (hfut : ∀ i, futOf s' i = futOf s i ∨
                 (futOf s' i ≠ .pending ∧ futOf s' i ≠ .cancelled ∧ futOf s i ≠ .cancelled))
    (hund : ∀ i, (futOf s' i = .pending ∨ futOf s' i = .cancelled) → nw s' i ≤ nw s i) : TokInv s' := by
  obtain ⟨f1, f2, f3, f4, f5, f6⟩ := hfr
  have e1 : ∀ i, sumC (fun q => wPreC i (s'.w q)) s'.allPids ≤ sumC (fun q => wPreC i (s.w q)) s.allPids := by
    intro i; rw [f1]
    rcases hw with hw | ⟨p, hw⟩
    · rw [hw]; exact Nat.le_refl _
    · rw [hw]; exact sumC_upd_dead_le (wPreC i) rfl s.w p s.allPids
  have e2 : ∀ i, sumC (fun q => wPostC i (s'.w q)) s'.allPids ≤ sumC (fun q => wPostC i (s.w q)) s.allPids := by
    intro i; rw [f1]
    rcases hw with hw | ⟨p, hw⟩
    · rw [hw]; exact Nat.le_refl _
    · rw [hw]; exact sumC_upd_dead_le (wPostC i) rfl s.w p s.allPids
  have back : ∀ i, (futOf s' i = .pending ∨ futOf s' i = .cancelled) → (futOf s i = .pending ∨ futOf s i = .cancelled) := by
    intro i hi
    rcases hfut i with e | ⟨n1, n2, _⟩
    · rw [← e]; exact hi
    · rcases hi with hi | hi
      · exact absurd hi n1
      · exact absurd hi n2
  constructor
  · rw [f1]; exact h.pids_nodup
  · rw [f1, f2]; exact h.pids_lt
  · rw [f4, f3]; exact h.len
  · intro i hi; rw [f4] at hi; have := h.fresh i hi; have := hwk i; omega
  · intro i
    have := h.once i; have := hpre i; have := e1 i
    simp only [preOut, nw, f6] at *
    omega
  · intro i
    have := h.postle i; have := hpost i; have := e2 i
    simp only [post, pnw, f6] at *
    omega
  · intro i hi
    have := h.undisp i (back i hi); have := hund i hi; have := e1 i; have := hpost i; have := e2 i
    simp only [preOut, post, nw, pnw, f6] at *
    omega
  · intro i hi
    rw [f5] at hi
    have hc := h.cancelled i hi
    rcases hfut i with e | ⟨_, _, n3⟩
    · rw [e]; exact hc
    · exact absurd hc n3

end LokyModel.Exec
