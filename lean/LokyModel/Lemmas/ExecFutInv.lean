import LokyModel.Lemmas.ExecTokenU
/-!
Bookkeeping of futures: every future that is not resolved is tracked in `pending`; a resolved future never changes
again; once the manager has entered `kill_workers` / `join_executor_internals` nothing is dispatched any more.
-/
namespace LokyModel.Exec

/-- program counters of the manager from which `add_call_item_to_queue` is never reached again -/
def mTerm : MPc → Bool
  | .kill _ | .killJoin _ | .jAcq1 | .jRelExit _ _ | .jRel1 _ | .jAliveAcq _ _ _ | .jAlive _ _ _ _ _
  | .jAliveRel _ _ _ _ | .jPut _ _ _ _ | .jPutTStart _ _ _ _ | .jSleep _ _ _ | .jShutAcq | .jShutRel | .jAcq2
  | .jJoin _ | .jRel2 | .done | .raised _ => true
  | _ => false

structure FutInv (s : St) : Prop where
  pnodup : ∀ i, s.pending.count i ≤ 1
  plt : ∀ i, i ∈ s.pending → i < s.futs.length
  pfut : ∀ i, i ∈ s.pending → futOf s i = .pending ∨ futOf s i = .running ∨ futOf s i = .cancelled
  resolved : ∀ i, i < s.futs.length → i ∉ s.pending → (futOf s i).done = true
  wk : mTerm s.mpc = false → ∀ i, i ∈ s.workIds → i ∈ s.pending ∧ (futOf s i = .pending ∨ futOf s i = .cancelled)
  executed : ∀ i, (futOf s i = .value ∨ futOf s i = .excWorker) → 1 ≤ s.execW.count i

/-- what one step may do to future `i` and to its membership in `pending` -/
def FRel (s s' : St) (i : Wid) : Prop :=
  s'.pending.count i ≤ s.pending.count i ∧
  ( (futOf s' i = futOf s i ∧ (i ∈ s.pending → i ∉ s'.pending → (futOf s i).done = true))
  ∨ (i ∈ s.pending ∧ i ∉ s'.pending ∧ (futOf s i = .pending ∨ futOf s i = .running) ∧ (futOf s' i).done = true ∧
      (futOf s' i = .value ∨ futOf s' i = .excWorker → 1 ≤ s'.execW.count i))
  ∨ (i ∈ s'.pending ∧ futOf s i = .pending ∧ (futOf s' i = .running ∨ futOf s' i = .cancelled)) )

theorem frel_same (s s' : St) (i : Wid) (hp : s'.pending = s.pending) (hf : futOf s' i = futOf s i) : FRel s s' i := by
  refine ⟨by rw [hp]; exact Nat.le_refl _, Or.inl ⟨hf, ?_⟩⟩
  intro h1 h2; rw [hp] at h2; exact absurd h1 h2

theorem fut_move (s s' : St) (h : FutInv s)
    (hlen : s'.futs.length = s.futs.length)
    (hex : ∀ i, s.execW.count i ≤ s'.execW.count i)
    (hrel : ∀ i, FRel s s' i)
    (hwk : mTerm s'.mpc = false → ∀ i, i ∈ s'.workIds →
             i ∈ s'.pending ∧ (futOf s' i = .pending ∨ futOf s' i = .cancelled)) :
    FutInv s' ∧ ∀ i, (futOf s i).done = true → futOf s' i = futOf s i := by
  have mem_of : ∀ i, i ∈ s'.pending → i ∈ s.pending := by
    intro i hi
    have := (hrel i).1
    have h1 : 0 < s'.pending.count i := List.count_pos_iff.mpr hi
    exact List.count_pos_iff.mp (by omega)
  refine ⟨⟨?_, ?_, ?_, ?_, hwk, ?_⟩, ?_⟩
  · intro i; have := (hrel i).1; have := h.pnodup i; omega
  · intro i hi; rw [hlen]; exact h.plt i (mem_of i hi)
  · intro i hi
    rcases (hrel i).2 with ⟨e, _⟩ | ⟨_, n, _⟩ | ⟨_, _, e⟩
    · rw [e]; exact h.pfut i (mem_of i hi)
    · exact absurd hi n
    · rcases e with e | e <;> simp [e]
  · intro i hlt hn
    rw [hlen] at hlt
    rcases (hrel i).2 with ⟨e, hd⟩ | ⟨_, _, _, d, _⟩ | ⟨m, _, _⟩
    · rw [e]
      by_cases hm : i ∈ s.pending
      · exact hd hm hn
      · exact h.resolved i hlt hm
    · exact d
    · exact absurd m hn
  · intro i hv
    rcases (hrel i).2 with ⟨e, _⟩ | ⟨_, _, _, _, x⟩ | ⟨_, _, e⟩
    · rw [e] at hv; have := h.executed i hv; have := hex i; omega
    · exact x hv
    · rcases e with e | e <;> rw [e] at hv <;> simp at hv
  · intro i hd
    rcases (hrel i).2 with ⟨e, _⟩ | ⟨_, _, e, _⟩ | ⟨_, e, _⟩
    · exact e
    · rcases e with e | e <;> rw [e] at hd <;> simp [Fut.done] at hd
    · rw [e] at hd; simp [Fut.done] at hd

theorem futInv_init (cfg : Cfg) : FutInv (init cfg) := by
  constructor <;> simp [init, futOf]

/-- `FutInv` carries over and resolved futures keep their outcome -/
def FS (s s' : St) : Prop := FutInv s' ∧ ∀ i, (futOf s i).done = true → futOf s' i = futOf s i

theorem FS.trans {a b c : St} (h1 : FS a b) (h2 : FS b c) : FS a c :=
  ⟨h2.1, fun i hd => by rw [h2.2 i (by rw [h1.2 i hd]; exact hd), h1.2 i hd]⟩

/-- a step that leaves futures, `pending` and the work-id queue alone -/
theorem fs_same (s s' : St) (h : FutInv s) (hf : s'.futs = s.futs) (hp : s'.pending = s.pending)
    (hw : s'.workIds = s.workIds) (hx : ∀ i, s.execW.count i ≤ s'.execW.count i)
    (hm : mTerm s'.mpc = false → mTerm s.mpc = false) : FS s s' := by
  have hfo : ∀ i, futOf s' i = futOf s i := by intro i; simp [futOf, hf]
  refine fut_move s s' h (by rw [hf]) hx (fun i => frel_same s s' i hp (hfo i)) ?_
  intro hl i hi
  rw [hw] at hi; rw [hp, hfo]
  exact h.wk (hm hl) i hi

end LokyModel.Exec
