import LokyModel.Lemmas.ExecLiveMeasureBase
/-! `mu` decreases: steps of the queue feeder thread.  No fact about the state is needed. -/
namespace LokyModel.Exec
set_option linter.unusedSimpArgs false

/-- `fNext`: the thread goes back to waiting, or takes one message out of the buffer, whose weight covers what it
    then does with it -/
theorem fNext_rank (s : St) :
    fRank (fNext s).fpc + 20 * (fNext s).cqBuf.length ≤ 1 + 20 * s.cqBuf.length ∧
    (s.cqBuf ≠ [] → fRank (fNext s).fpc + 20 * (fNext s).cqBuf.length < 20 * s.cqBuf.length) := by
  unfold fNext
  (repeat' split) <;> simp_all [fRank] <;> omega

theorem fNext_lt (X : St) (c : Nat) (h : 1 + 20 * X.cqBuf.length + 15 * X.cqPipe.length + 7 * X.wakeup < c) :
    fRank (fNext X).fpc + 20 * (fNext X).cqBuf.length + 15 * (fNext X).cqPipe.length + 7 * (fNext X).wakeup < c := by
  have := (fNext_rank X).1
  simp only [fNext_cqPipe, fNext_wakeup]
  omega

theorem fNext_lt' (X : St) (c : Nat) (hne : X.cqBuf ≠ [])
    (h : 20 * X.cqBuf.length + 15 * X.cqPipe.length + 7 * X.wakeup ≤ c) :
    fRank (fNext X).fpc + 20 * (fNext X).cqBuf.length + 15 * (fNext X).cqPipe.length + 7 * (fNext X).wakeup < c := by
  have := (fNext_rank X).2 hne
  simp only [fNext_cqPipe, fNext_wakeup]
  omega

set_option maxHeartbeats 4000000 in
theorem mu_stepF (s s' : St) (v : Variant) (hs : stepF s v = some s') : mu s' < mu s := by
  unfold stepF at hs
  crack
  all_goals (refine mu_F s _ ?_ ?_ ?_ ?_ ?_ ?_ ?_ ?_ ?_ ?_ ?_)
  all_goals (first
    | rfl
    | (simp; done)
    | (simp [fRank, *]; done)
    | (simp [fRank, *]; omega)
    | (refine fNext_lt _ _ ?_; simp [fRank, *]; done)
    | (refine fNext_lt _ _ ?_; simp [fRank, *]; omega)
    | (refine fNext_lt' _ _ ‹_› ?_; simp [fRank, *]; done)
    | (refine fNext_lt' _ _ ‹_› ?_; simp [fRank, *]; omega))

end LokyModel.Exec
