import LokyModel.Lemmas.ExecLiveBase
/-! `PidsInv` holds in every reachable state (any step, crashes included). -/
namespace LokyModel.Exec

theorem pidsInv_same (s s' : St) (h : PidsInv s) (h1 : s'.allPids = s.allPids) (h2 : s'.nextPid = s.nextPid)
    (h3 : ∀ p, p ∉ s.allPids → s'.w p = s.w p) (h4 : ∀ p ∈ s'.procDict, p ∈ s.procDict) : PidsInv s' := by
  obtain ⟨a, b, c, d⟩ := h
  refine ⟨by rw [h1]; exact a, by rw [h1, h2]; exact b, ?_, ?_⟩
  · intro p hp; rw [h1] at hp; rw [h3 p hp]; exact c p hp
  · intro p hp; rw [h1]; exact d p (h4 p hp)

theorem mem_dropLast {α : Type} (l : List α) (x : α) (h : x ∈ l.dropLast) : x ∈ l := by
  have := List.dropLast_sublist l
  exact this.subset h

set_option maxHeartbeats 4000000 in
theorem pidsInv_stepW (s s' : St) (p : Pid) (v : Variant) (h : PidsInv s) (hp : p ∈ s.allPids)
    (hs : stepW s p v = some s') : PidsInv s' := by
  unfold stepW at hs
  crack
  all_goals (refine pidsInv_same s _ h ?_ ?_ ?_ ?_)
  all_goals (first
    | rfl
    | (simp; done)
    | (intro q hq; have hne : q ≠ p := fun e => hq (e ▸ hp)
       simp [wAfterStart_w_other, wGet_w_other, wDispatch_w_other, wAfterResult_w_other, setW_w_other, die_w_other, hne]; done)
    | (intro q hq; simpa using hq))


set_option maxHeartbeats 4000000 in
theorem pidsInv_stepF (s s' : St) (v : Variant) (h : PidsInv s) (hs : stepF s v = some s') : PidsInv s' := by
  unfold stepF at hs
  crack
  all_goals (refine pidsInv_same s _ h ?_ ?_ ?_ ?_)
  all_goals (first | rfl | (simp; done) | (intro q hq; simp; done) | (intro q hq; simpa using hq))

theorem mem_of_mem_erase' {α : Type} [DecidableEq α] (l : List α) (a x : α) (h : x ∈ l.erase a) : x ∈ l :=
  List.mem_of_mem_erase h

theorem mKillNext_reg (s : St) : ∀ p ∈ (mKillNext s).procDict, p ∈ s.procDict := by
  intro p hp; unfold mKillNext at hp; split at hp
  · exact mem_dropLast _ _ hp
  · exact hp
theorem mJoinProcs_reg (s : St) : ∀ p ∈ (mJoinProcs s).procDict, p ∈ s.procDict := by
  intro p hp; unfold mJoinProcs at hp; split at hp
  · exact mem_dropLast _ _ hp
  · exact hp
theorem mAfterFlag_reg (s : St) : ∀ p ∈ (mAfterFlag s).procDict, p ∈ s.procDict := by
  intro p hp; unfold mAfterFlag at hp; (repeat' split at hp)
  · have := mKillNext_reg _ p hp; simpa using this
  · simpa using hp
  · simpa using hp

set_option maxHeartbeats 8000000 in
theorem pidsInv_stepM (s s' : St) (v : Variant) (h : PidsInv s) (hs : stepM s v = some s') : PidsInv s' := by
  unfold stepM at hs
  crack
  all_goals (first
    | (refine pidsInv_same s _ h ?_ ?_ ?_ ?_
       all_goals (first
        | rfl
        | (simp; done)
        | (intro q hq; simp [die_w_other]; done)
        | (intro q hq; simpa using hq)
        | (intro q hq; have := mKillNext_reg _ q hq; simpa using this)
        | (intro q hq; have := mJoinProcs_reg _ q hq; simpa using this)
        | (intro q hq; have := mAfterFlag_reg _ q hq; simpa using this)
        | (intro q hq; exact List.mem_of_mem_erase (by simpa using hq))
        | (intro q hq; rename_i p _ _; by_cases e : q = p
           · subst e; simp [die, upd]
             have := h.dead q hq; simp_all
           · simp [die_w_other, e])))
    | (have := pidsInv_spawn s h
       refine pidsInv_same (spawn s) _ this ?_ ?_ ?_ ?_ <;> first | rfl | (simp; done) | (intro q hq; simp; done) | (intro q hq; simpa using hq)))


set_option maxHeartbeats 8000000 in
theorem pidsInv_stepU (s s' : St) (k : Nat) (v : Variant) (h : PidsInv s) (hs : stepU s k v = some s') : PidsInv s' := by
  unfold stepU at hs
  crack
  all_goals (first
    | (refine pidsInv_same s _ h ?_ ?_ ?_ ?_
       all_goals (first
        | rfl
        | (simp; done)
        | (intro q hq; simp; done)
        | (intro q hq; simpa using hq)
        | (unfold uDispatch; (repeat' split) <;> simp; done)
        | (intro q hq; unfold uDispatch; (repeat' split) <;> simp; done)
        | (intro q hq; unfold uDispatch at hq; (repeat' split at hq) <;> simpa using hq)))
    | (have := pidsInv_spawn s h
       refine pidsInv_same (spawn s) _ this ?_ ?_ ?_ ?_ <;> first | rfl | (simp; done) | (intro q hq; simp; done) | (intro q hq; simpa using hq)))

theorem pidsInv_step {s s' : St} {a : Actor} {v : Variant} (h : PidsInv s) (hs : step s a v = some s') : PidsInv s' := by
  unfold step at hs
  cases a with
  | U k => simp only [] at hs; split at hs; exact pidsInv_stepU s s' k v h hs; cases hs
  | M => exact pidsInv_stepM s s' v h hs
  | F => exact pidsInv_stepF s s' v h hs
  | W p => simp only [] at hs; split at hs; exact pidsInv_stepW s s' p v h (by assumption) hs; cases hs

theorem pidsInv_reachable {cfg : Cfg} {s : St} (h : Reachable cfg s) : PidsInv s := by
  induction h with
  | init => exact pidsInv_init cfg
  | step _ hs ih => exact pidsInv_step ih hs

end LokyModel.Exec
