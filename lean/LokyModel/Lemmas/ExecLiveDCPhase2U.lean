import LokyModel.Lemmas.ExecLiveDCPhase2Base
/-! `phase2`: the steps of user threads (`P2Step`). -/
namespace LokyModel.Exec
set_option linter.unnecessarySimpa false
set_option linter.unusedSimpArgs false

set_option maxHeartbeats 8000000 in
theorem p2_stepU (s s' : St) (k : Nat) (v : Variant) (hp : PidsInv s)
    (hts : ∀ k, s.upc k = .subTStart → s.mpc = .none) (hs : stepU s k v = some s') : P2Step s s' := by
  unfold stepU at hs
  crack
  all_goals (refine ⟨?_, ?_, ?_⟩)
  all_goals (first
    | (intro h; simpa using h; done)
    | (simp; done)
    | (rw [hts k ‹s.upc k = _›]; intro h; simp [late, mBrk, mFinal] at h; done)
    | (intro z hz
       refine zi_move s _ z hz (.inr ?_) ?_ (pids_reg_lt s hp z) ?_ ?_
       · first | (intro h; simpa using h; done) | (intro h; simp [spawn_procDict', h]; done)
       · first | (intro h1 h2; simpa using h1; done) | (intro h1 h2; simp [spawn_w', upd, Nat.ne_of_lt h2, h1]; done)
       · first | (intro r hr; left; simpa using hr; done)
       · first | (intro h; left; simpa using h; done) | (simp [dcHolds]; done))
    | skip)

end LokyModel.Exec
