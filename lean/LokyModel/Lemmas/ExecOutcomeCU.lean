import LokyModel.Lemmas.ExecOutcomeC
import LokyModel.Lemmas.ExecOutcomeU
/-! `OutInvC`: steps of a user thread.  As for `OutInv` (`ExecOutcomeU.lean`, whose summary `USumO` of a step and closing
    tactic are reused); a user thread never touches the broken flag, and the only thing it does to the manager's program
    counter is to start the thread. -/
namespace LokyModel.Exec
open StaticP
set_option linter.unusedSimpArgs false

set_option maxHeartbeats 16000000 in
theorem uDispatch_sumOC (s : St) (k : Nat) (op : UOp) (h : OutInvC s) (hcur : s.ucur k = some op) :
    USumO s (uDispatch s k op) k := by
  have hkf := h.kf
  have hnks := h.nks k
  have hnkc := h.nkc k
  have hnkp := h.nkp k
  have hop : op.isKill = false := by rw [hcur] at hnkc; simpa [ucurOk] using hnkc
  unfold uDispatch
  repeat' split
  obattery

set_option maxHeartbeats 16000000 in
theorem uSumOC_step (s s' : St) (k : Nat) (v : Variant) (h : OutInvC s) (hs : stepU s k v = some s') : USumO s s' k := by
  have hkf := h.kf
  have hnks := h.nks k
  have hnkc := h.nkc k
  have hnkp := h.nkp k
  unfold stepU at hs
  crack_step
  all_goals (first
    | (exact uDispatch_sumOC s k _ h ‹_›)
    | skip)
  obattery

/-- a user thread never touches the broken flag; the only thing it does to the manager's program counter is to start the
    thread -/
structure UBM (s s' : St) : Prop where
  broken : s'.broken = s.broken
  mpc : s'.mpc = s.mpc ∨ s'.mpc = .start

set_option maxHeartbeats 16000000 in
theorem uBM_step (s s' : St) (k : Nat) (v : Variant) (hs : stepU s k v = some s') : UBM s s' := by
  unfold stepU at hs
  crack_step
  all_goals constructor
  all_goals (first
    | rfl
    | (simp; done)
    | (left; simp; done)
    | (right; simp; done)
    | skip)

theorem outInvC_stepU (s s' : St) (k : Nat) (v : Variant) (h : OutInvC s) (hl : LenInv s)
    (hs : stepU s k v = some s') : OutInvC s' := by
  have u := uSumOC_step s s' k v h hs
  have bm := uBM_step s s' k v hs
  have hbrk : ∀ b, s'.mpc = .brkRel b → s'.broken.isSome = true := by
    intro b hb
    rw [bm.broken]
    rcases bm.mpc with e | e
    · rw [e] at hb; exact h.brk b hb
    · rw [e] at hb; cases hb
  have hkill : (∀ j, ∀ op ∈ s'.uscript j, op.isKill = false) ∧ (∀ j, ucurOk (s'.ucur j) = true) ∧
      (∀ j, isSdKill (s'.upc j) = false) := by
    refine ⟨fun j => ?_, fun j => ?_, fun j => ?_⟩ <;> by_cases hj : j = k
    · subst hj; exact u.nks
    · rw [(u.oth j hj).2.2]; exact h.nks j
    · subst hj; exact u.nkc
    · rw [(u.oth j hj).2.1]; exact h.nkc j
    · subst hj; exact u.nkp
    · rw [(u.oth j hj).1]; exact h.nkp j
  have hw : ∀ p, wArgOk s.cfg (s'.w p) = true := by
    intro p
    rcases u.w with e | e <;> rw [e]
    · exact h.w p
    · rw [upd_apply]; split
      · rfl
      · exact h.w p
  rcases u.fut with ⟨f1, f2, f3⟩ | ⟨w, f1, f2, f3⟩ | ⟨t, f1, f2, f3⟩
  · refine ⟨?_, hbrk, u.kf, hkill.1, hkill.2.1, hkill.2.2, ?_, ?_, ?_, ?_⟩
    · intro i
      have e : futOf s' i = futOf s i := by simp [futOf, f1]
      rw [u.cfg, f2, e, bm.broken]
      rcases f3 with f3 | ⟨w, f3⟩ <;> rw [f3]
      · exact h.fut i
      · exact futArgOkC_cancel_mono _ _ _ _ _ _ _ (h.fut i)
    · rw [u.cfg, u.cqPipe]; exact h.pipe
    · rw [u.cfg]; exact hw
    · rw [u.cfg, f2, u.fpc]; exact h.f
    · rw [u.cfg, f2, u.execW]; exact h.ex
  · refine ⟨?_, hbrk, u.kf, hkill.1, hkill.2.1, hkill.2.2, ?_, ?_, ?_, ?_⟩
    · intro i
      have e : futOf s' i = futOf (setFut s w .cancelled) i := by simp [futOf, f1, setFut]
      rw [u.cfg, f2, f3, e, futOf_setFut, bm.broken]
      split
      · rename_i hi; rw [hi.1]; simp [futArgOkC, futArgOk]
      · exact futArgOkC_cancel_mono _ _ _ _ _ _ _ (h.fut i)
    · rw [u.cfg, u.cqPipe]; exact h.pipe
    · rw [u.cfg]; exact hw
    · rw [u.cfg, f2, u.fpc]; exact h.f
    · rw [u.cfg, f2, u.execW]; exact h.ex
  · refine ⟨?_, hbrk, u.kf, hkill.1, hkill.2.1, hkill.2.2, ?_, ?_, ?_, ?_⟩
    · intro i
      have e : futOf s' i = if i = s.futs.length then .pending else futOf s i := by
        simp only [futOf, f1]; exact futOf_append _ _ _
      rw [u.cfg, f2, f3, e, bm.broken]
      by_cases hi : i = s.futs.length
      · rw [if_pos hi]; rfl
      · rw [if_neg hi]
        by_cases hlt : i < s.taskOf.length
        · exact futArgOkC_T_mono _ _ _ _ _ _ _ hlt (h.fut i)
        · have : futOf s i = .pending := futOf_ge s i (by unfold LenInv at hl; womega)
          rw [this]; rfl
    · rw [u.cfg, u.cqPipe]; exact h.pipe
    · rw [u.cfg]; exact hw
    · rw [u.cfg, f2, u.fpc]; exact fArgOk_mono _ _ _ _ h.f
    · rw [u.cfg, f2, u.execW]
      intro i hi
      obtain ⟨h1, h2⟩ := h.ex i hi
      refine ⟨by simp only [List.length_append, List.length_singleton]; exact Nat.lt_succ_of_lt h1, ?_⟩
      rw [argOfW_append _ _ _ _ h1]; exact h2

end LokyModel.Exec
