import LokyModel.Ledger
/-! helper lemmas for the C20 ledger: running replicated operations -/
namespace LokyModel.Ledger

theorem runOps_append (e : Exec) (a b : List Op) : runOps e (a ++ b) = runOps (runOps e a) b := by
  simp [runOps, List.foldl_append]

theorem run_spawns (e : Exec) (n : Nat) :
    runOps e (rep n .spawn) = if n = 0 then e else { e with workers := e.workers + n, lingering := 0 } := by
  induction n generalizing e with
  | zero => simp [rep, runOps]
  | succ n ih =>
    simp only [rep, List.replicate_succ, runOps, List.foldl_cons] at ih ⊢
    rw [ih]
    by_cases hn : n = 0
    · subst hn; simp [apply]
    · simp [hn, apply]; omega

theorem run_reaps (e : Exec) (n : Nat) : runOps e (rep n .reapOne) = { e with workers := e.workers - n } := by
  induction n generalizing e with
  | zero => simp [rep, runOps]
  | succ n ih =>
    simp only [rep, List.replicate_succ, runOps, List.foldl_cons] at ih ⊢
    rw [ih]; simp [apply]; omega

theorem run_crashes (e : Exec) (c : Nat) :
    runOps e (rep c .crashed)
      = { e with workers := e.workers - c, lingering := e.lingering + min c e.workers } := by
  induction c generalizing e with
  | zero => simp [rep, runOps]
  | succ c ih =>
    simp only [rep, List.replicate_succ, runOps, List.foldl_cons] at ih ⊢
    rw [ih]
    by_cases hw : e.workers = 0
    · simp [apply, hw]
    · simp [apply, hw]; omega

theorem lingerSeq_append (l0 : Nat) (a b : List Life) :
    lingerSeq l0 (a ++ b) = lingerSeq (lingerSeq l0 a) b := by
  simp [lingerSeq, List.foldl_append]

end LokyModel.Ledger
